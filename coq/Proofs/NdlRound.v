(* Facts about the NDL parser model, part 2: well-formedness of descriptions,
   parsing a rendered line (C19_line), the duplicate-argument and unknown-type
   rejections at line level. *)
From Elvis Require Import Model.Base Model.Ndl Proofs.NdlFacts.
From Coq Require Import NArith ZifyBool.
Local Open Scope N_scope.

(* ------------------------------------------------------------ well-formedness *)

(* a value in the only form the argument grammar can carry: ordinary characters,
   and the two-character sequence backslash quote (which is stored as is: the
   parser never removes the backslash) *)
Inductive wf_val : text -> Prop :=
| wfv_nil : wf_val []
| wfv_normal c r : c <> c_bslash -> c <> c_quote -> wf_val r -> wf_val (c :: r)
| wfv_esc r : wf_val r -> wf_val (c_bslash :: c_quote :: r).

Definition head_not_ws (k : text) : Prop :=
  match k with [] => True | c :: _ => is_ws c = false end.

(* what parsing needs *)
Definition pkey (k : text) : Prop := ~ In c_eq k /\ ~ In c_rbr k /\ head_not_ws k.
Definition pval (v : text) : Prop := wf_val v /\ ~ In c_rbr v.
Definition parg (kv : text * text) : Prop := pkey (fst kv) /\ pval (snd kv).

(* what the global rewrites need: no CR, no run of four spaces *)
Fixpoint norun4 (k : nat) (s : text) : bool :=
  match s with
  | [] => true
  | c :: r => if c =? c_sp then Nat.ltb k 3 && norun4 (S k) r else norun4 0 r
  end.
Definition clean (s : text) : Prop := ~ In c_cr s /\ norun4 0 s = true.
Definition carg (kv : text * text) : Prop := clean (fst kv) /\ clean (snd kv).

Definition wf_args (a : params) : Prop :=
  Forall parg a /\ Forall carg a /\ NoDup (map fst a).

(* ------------------------------------------------------------ small list facts *)

Lemma count_leading_repeat p k rest :
  match rest with [] => True | c :: _ => c <> p end ->
  count_leading p (repeat p k ++ rest) = k /\ skipn k (repeat p k ++ rest) = rest.
Proof.
  intros H. induction k as [|k [IH1 IH2]]; cbn [repeat app count_leading skipn].
  - split; [|reflexivity]. destruct rest as [|c r]; [reflexivity|].
    cbn [count_leading]. destruct (c =? p) eqn:E; [|reflexivity]. apply N.eqb_eq in E. contradiction.
  - rewrite N.eqb_refl, IH1. split; [reflexivity|exact IH2].
Qed.

Lemma skipn_tabs n x : skipn n (tabs n ++ x) = x.
Proof. unfold tabs. induction n as [|n IH]; cbn [repeat app skipn]; [reflexivity|exact IH]. Qed.

(* ------------------------------------------------------------ get_type on a rendered name *)

Lemma get_type_render d rest :
  (rest = [] \/ exists r, rest = c_sp :: r) -> get_type (render_name d ++ rest) = Ok (d, rest).
Proof.
  intros [->|[r ->]]; destruct d; reflexivity.
Qed.

(* ------------------------------------------------------------ one argument *)

Lemma span_ws_head c r : is_ws c = false -> span_ws (c :: r) = ([], c :: r).
Proof. intros H. cbn [span_ws]. rewrite H. reflexivity. Qed.

Lemma escaped_wf v : wf_val v -> forall f rest, (v <> [] \/ f = false) ->
  escaped f (v ++ c_quote :: rest) = Some (v, c_quote :: rest).
Proof.
  induction 1 as [|c r Hb Hq Hr IH|r Hr IH]; intros f rest Hf.
  - destruct Hf as [Hf| ->]; [contradiction|]. reflexivity.
  - cbn [app escaped]. apply N.eqb_neq in Hb, Hq. rewrite Hb, Hq.
    rewrite IH by (right; reflexivity). reflexivity.
  - cbn [app escaped]. change (c_bslash =? c_bslash) with true. change (c_quote =? c_quote) with true.
    cbn iota. rewrite IH by (right; reflexivity). reflexivity.
Qed.

Lemma value_body_wf v rest : wf_val v -> value_body (v ++ c_quote :: rest) = (v, c_quote :: rest).
Proof.
  intros H. unfold value_body. destruct v as [|c r].
  - reflexivity.
  - rewrite escaped_wf; [reflexivity|exact H|left; discriminate].
Qed.

Lemma render_arg_app k v rest :
  render_arg (k, v) ++ rest = c_sp :: k ++ c_eq :: c_quote :: v ++ c_quote :: rest.
Proof.
  unfold render_arg. cbn [fst snd]. cbn [app]. f_equal.
  rewrite <- app_assoc. cbn [app]. rewrite <- app_assoc. reflexivity.
Qed.

Lemma arg1_render k v rest : pkey k -> pval v ->
  arg1 (render_arg (k, v) ++ rest) = Some ((k, v), rest).
Proof.
  intros (Heq & _ & Hws) (Hv & _). rewrite render_arg_app. unfold arg1.
  cbn [span_ws]. change (is_ws c_sp) with true. cbn iota.
  assert (Hs : span_ws (k ++ c_eq :: c_quote :: v ++ c_quote :: rest)
               = ([], k ++ c_eq :: c_quote :: v ++ c_quote :: rest)).
  { destruct k as [|c k']; cbn [app]; apply span_ws_head; [reflexivity|exact Hws]. }
  rewrite Hs.
  rewrite (take_until_app c_eq k _ Heq).
  change (c_quote =? c_quote) with true. cbn iota.
  rewrite (value_body_wf v rest Hv). change (c_quote =? c_quote) with true. reflexivity.
Qed.

Lemma render_arg_len kv : (1 <= length (render_arg kv))%nat.
Proof. unfold render_arg. cbn [length]. lia. Qed.

Lemma render_args_len a : (length a <= length (render_args a))%nat.
Proof.
  induction a as [|kv a IH]; [cbn; lia|]. unfold render_args. cbn [flat_map]. fold (render_args a).
  rewrite app_length. pose proof (render_arg_len kv). cbn [length]. lia.
Qed.

Lemma arguments_render a : Forall parg a -> forall fuel, (length a < fuel)%nat ->
  arguments fuel (render_args a) = Ok (a, []).
Proof.
  induction 1 as [|[k v] a [Hk Hv] Ha IH]; intros fuel Hf; (destruct fuel as [|f]; [lia|]).
  - reflexivity.
  - unfold render_args. cbn [flat_map arguments]. fold (render_args a).
    rewrite (arg1_render k v (render_args a) Hk Hv).
    replace (Nat.eqb (length (render_args a)) (length (render_arg (k, v) ++ render_args a))) with false.
    + cbn [length] in Hf. rewrite IH by lia. reflexivity.
    + symmetry. apply Nat.eqb_neq. rewrite app_length. pose proof (render_arg_len (k, v)). lia.
Qed.

(* ------------------------------------------------------------ duplicate check *)

Lemma has_key_in k m : has_key k m = true <-> In k (map fst m).
Proof.
  unfold has_key. induction m as [|[k' v] m IH]; cbn [lookup map fst In].
  - split; [discriminate|intros []].
  - destruct (text_eqb k k') eqn:E.
    + apply text_eqb_spec in E. subst. split; auto.
    + rewrite IH. split; [auto|]. intros [Hk|Hi]; [|exact Hi]. subst.
      rewrite text_eqb_refl in E. discriminate.
Qed.

Lemma dupcheck_spec l : forall seen,
  dupcheck seen l = true <->
  (NoDup (map fst l) /\ forall k, In k (map fst l) -> ~ In k (map fst seen)).
Proof.
  induction l as [|[k v] l IH]; intros seen; cbn [dupcheck map fst].
  - split; [|reflexivity]. intros _. split; [constructor|intros k []].
  - destruct (has_key k seen) eqn:E.
    + split; [discriminate|]. intros [_ Hs]. apply has_key_in in E.
      exfalso. apply (Hs k); [left; reflexivity|exact E].
    + rewrite IH. cbn [map fst]. split.
      * intros [Hn Hs]. split.
        -- constructor; [|exact Hn]. intros Hi. apply (Hs k Hi). left. reflexivity.
        -- intros k0 [<-|Hi] Hin.
           ++ apply has_key_in in Hin. congruence.
           ++ apply (Hs k0 Hi). right. exact Hin.
      * intros [Hn Hs]. inversion Hn as [|? ? Hk Hn']. subst. split; [exact Hn'|].
        intros k0 Hi [<-|Hin]; [contradiction|]. apply (Hs k0); [right; exact Hi|exact Hin].
Qed.

Lemma dupcheck_nodup l : dupcheck [] l = true <-> NoDup (map fst l).
Proof. rewrite dupcheck_spec. split; [intros [H _]; exact H|]. intros H. split; [exact H|]. intros k _ []. Qed.

(* ------------------------------------------------------------ a rendered section / line *)

Lemma not_in_app {A} (x : A) a b : ~ In x a -> ~ In x b -> ~ In x (a ++ b).
Proof. intros Ha Hb Hi. apply in_app_or in Hi. tauto. Qed.

Lemma render_name_no_rbr d : ~ In c_rbr (render_name d).
Proof. destruct d; cbn; intros H; repeat (destruct H as [H|H]; [discriminate H|]); exact H. Qed.

Lemma render_args_no_rbr a : Forall parg a -> ~ In c_rbr (render_args a).
Proof.
  induction 1 as [|[k v] a [(_ & Hk & _) (_ & Hv)] Ha IH]; [intros []|].
  unfold render_args. cbn [flat_map]. fold (render_args a). apply not_in_app; [|exact IH].
  unfold render_arg. cbn [fst snd] in *. intros [H|H]; [discriminate H|].
  apply in_app_or in H. destruct H as [H|H]; [exact (Hk H)|].
  cbn [app] in H. destruct H as [H|[H|H]]; [discriminate H|discriminate H|].
  apply in_app_or in H. destruct H as [H|[H|[]]]; [exact (Hv H)|discriminate H].
Qed.

Lemma section_render d a rem : Forall parg a ->
  section (render_sec d a ++ rem) = Some (render_name d ++ render_args a, rem).
Proof.
  intros Ha. unfold render_sec, section. cbn [app]. change (c_lbr =? c_lbr) with true. cbn iota.
  replace ((render_name d ++ render_args a ++ [c_rbr]) ++ rem)
    with ((render_name d ++ render_args a) ++ c_rbr :: rem)
    by (repeat rewrite <- app_assoc; reflexivity).
  rewrite take_until_app; [reflexivity|].
  apply not_in_app; [apply render_name_no_rbr|apply render_args_no_rbr; exact Ha].
Qed.

Lemma render_args_head a : render_args a = [] \/ exists r, render_args a = c_sp :: r.
Proof. destruct a as [|kv a]; [left; reflexivity|right]. unfold render_args. cbn [flat_map render_arg app]. eauto. Qed.

Local Open Scope Z_scope.

Definition not_nl_head (rest : text) : Prop :=
  match rest with [] => True | c :: _ => c <> c_nl end.

(* parsing a rendered section followed by k newlines *)
Lemma general_parser_render d a k rest ln :
  Forall parg a -> NoDup (map fst a) -> not_nl_head rest ->
  general_parser get_type (render_sec d a ++ repeat c_nl k ++ rest) ln
  = Ok (d, a, rest, ln + Z.of_nat k).
Proof.
  intros Ha Hn Hr. unfold general_parser. rewrite (section_render d a _ Ha).
  rewrite (get_type_render d _ (render_args_head a)).
  rewrite (arguments_render a Ha) by (pose proof (render_args_len a); lia).
  cbn [is_nil negb]. apply dupcheck_nodup in Hn. rewrite Hn. cbn [negb].
  destruct (count_leading_repeat c_nl k rest Hr) as [-> ->]. reflexivity.
Qed.

(* the same with the duplicate check failing *)
Lemma general_parser_render_dup d a rem ln :
  Forall parg a -> ~ NoDup (map fst a) ->
  general_parser get_type (render_sec d a ++ rem) ln = Err (ecode E_DUPARG ln).
Proof.
  intros Ha Hn. unfold general_parser. rewrite (section_render d a _ Ha).
  rewrite (get_type_render d _ (render_args_head a)).
  rewrite (arguments_render a Ha) by (pose proof (render_args_len a); lia).
  cbn [is_nil negb]. destruct (dupcheck [] a) eqn:E; [|reflexivity].
  apply dupcheck_nodup in E. contradiction.
Qed.

(* a section whose content starts with no known type word *)
Definition unknown_type (content : text) : Prop := forall d, kw (tag_name d) content = None.

Lemma get_type_unknown content : unknown_type content -> get_type content = Err E_DECTYPE.
Proof.
  intros H. unfold get_type, tags_fixed. cbn [get_type_alt].
  rewrite (H Template), (H Networks), (H Network), (H IP), (H Machines), (H Machine),
    (H Protocols), (H Protocol), (H Applications), (H Application). reflexivity.
Qed.

Lemma general_parser_unknown content rem ln : ~ In c_rbr content -> unknown_type content ->
  general_parser get_type (c_lbr :: content ++ c_rbr :: rem) ln = Err (ecode E_DECTYPE (-1)).
Proof.
  intros Hn Hu. unfold general_parser, section. change (c_lbr =? c_lbr)%N with true. cbn iota.
  rewrite take_until_app by exact Hn. rewrite (get_type_unknown _ Hu). reflexivity.
Qed.
