(* Second tie for C09: the definitions of Gen/SubnetGen.v, regenerated from subnetting.rs and ipv4_address.rs by
   tools/translate_subnetting.py on every run, equal the hand model Model/Subnet.v on every input in range.

   Representation gap bridged here: the hand model works on N and identifies an Ipv4Address with its u32; the
   generated code works on Z and keeps an Ipv4Address as its four big-endian bytes with the derived lexicographic
   order.  [A x] is the address whose u32 is x; [netZ] embeds a model network; [sigma] renames the panic sites of
   the hand model (the site constants of Model/Subnet.v) to the sites the translator assigned. *)
From Coq Require Import NArith ZifyBool Lia.
From Elvis Require Import Model.Base Model.Subnet Model.RsSem Gen.SubnetGen Proofs.SubnetFacts Proofs.RsSemFacts.
Ltac Zify.zify_post_hook ::= Z.div_mod_to_equations.
Local Open Scope Z_scope.

Definition sigma (s : Z) : Z :=
  if s =? site_clamp_assert then 801        (* subnetting.rs:33  *)
  else if s =? site_shl_one then 901        (* :77 1 << size     *)
  else if s =? site_sub_one then 902        (* :77 .. - 1        *)
  else if s =? site_sub_32 then 903         (* :77 32 - size     *)
  else if s =? site_shl_mask then 904       (* :77 .. << ..      *)
  else if s =? site_bcast_add then 2201     (* :273              *)
  else if s =? site_range_sub then 2901     (* :325              *)
  else s.

Definition A (x : N) : list Z := to_be 4 (Z.of_N x).
Definition netZ (n : net) : g_Ipv4Net := mk_g_Ipv4Net (A (net_id n)) (Z.of_N (net_mask n)).
Definition lt32 (x : N) : Prop := (x < two32)%N.
Definition net32 (n : net) : Prop := lt32 (net_id n) /\ lt32 (net_mask n).

Lemma lt32_Z x : lt32 x -> 0 <= Z.of_N x < 4294967296.
Proof. unfold lt32, two32. lia. Qed.

Lemma eqb_of_N a b : (Z.of_N a =? Z.of_N b) = (a =? b)%N.
Proof. destruct (N.eqb_spec a b); lia. Qed.
Lemma leb_of_N a b : (Z.of_N a <=? Z.of_N b) = (a <=? b)%N.
Proof. destruct (N.leb_spec a b); lia. Qed.
Lemma ltb_of_N a b : (Z.of_N a <? Z.of_N b) = (a <? b)%N.
Proof. destruct (N.ltb_spec a b); lia. Qed.

(* ---- ipv4_address.rs ------------------------------------------------------ *)
Lemma gen_addr_from_u32 x : g_Ipv4Address_from_u32 (Z.of_N x) = A x.
Proof. reflexivity. Qed.
Lemma gen_addr_to_u32 x : lt32 x -> g_Ipv4Address_to_u32 (A x) = Z.of_N x.
Proof.
  intros H. unfold g_Ipv4Address_to_u32, g_u32_from_Ipv4Address, A.
  apply from_to_be_4. apply lt32_Z. exact H.
Qed.
Lemma gen_addr_new_bytes x : g_Ipv4Address_new (to_be 4 (Z.of_N x)) = A x.
Proof. reflexivity. Qed.
Lemma gen_addr_to_bytes x : g_Ipv4Address_to_bytes (A x) = to_be 4 (Z.of_N x).
Proof. reflexivity. Qed.
(* the u32 view and the byte view agree with the hand model's to_be_bytes / from_be_bytes *)
Lemma A_is_model_bytes x : lt32 x -> A x = map Z.of_N (to_be_bytes x).
Proof.
  intros H. unfold A, to_be_bytes. rewrite to_be_4. cbn [map]. apply lt32_Z in H.
  rewrite !N2Z.inj_mod, !N2Z.inj_div.
  change (Z.of_N 16777216) with 16777216. change (Z.of_N 65536) with 65536. change (Z.of_N 256) with 256.
  f_equal. lia.
Qed.
Lemma gen_addr_leb x y : lt32 x -> lt32 y -> lex_leb (A x) (A y) = (x <=? y)%N.
Proof.
  intros Hx Hy. unfold A. rewrite lex_leb_be_4 by (apply lt32_Z; assumption). apply leb_of_N.
Qed.
Lemma gen_addr_eqb x y : lt32 x -> lt32 y -> list_eqb (A x) (A y) = (x =? y)%N.
Proof.
  intros Hx Hy. unfold A. rewrite list_eqb_be_4 by (apply lt32_Z; assumption). apply eqb_of_N.
Qed.

(* ---- clamp, from_bitcount -------------------------------------------------- *)
Lemma gen_clamp n a b : g_clamp (Z.of_N n) (Z.of_N a) (Z.of_N b) = rmap Z.of_N sigma (clamp n a b).
Proof.
  unfold g_clamp, clamp, ck_assert.
  rewrite leb_of_N, !ltb_of_N.
  destruct (N.leb_spec a b) as [L|L]; destruct (N.ltb_spec b a) as [L'|L']; try lia; cbn [bind rmap]; [|reflexivity].
  (* by cases on the two comparisons, not on their order in the source *)
  destruct (N.ltb_spec n a) as [L1|L1]; destruct (N.ltb_spec b n) as [L2|L2]; cbn [rmap]; f_equal; lia.
Qed.

Definition res_eqb (x y : result Z) : bool :=
  match x, y with
  | Ok a, Ok b => a =? b
  | Err a, Err b => a =? b
  | Panic a, Panic b => a =? b
  | OutOfFuel, OutOfFuel => true
  | _, _ => false
  end.
Lemma res_eqb_eq x y : res_eqb x y = true -> x = y.
Proof. destruct x, y; cbn [res_eqb]; intros H; try discriminate; try reflexivity; f_equal; lia. Qed.

Lemma gen_from_bitcount_small k : (k <= 32)%N ->
  g_Ipv4Mask_from_bitcount (Z.of_N k) = rmap Z.of_N sigma (from_bitcount k).
Proof.
  intros H. apply res_eqb_eq.
  apply (sweep33 (fun k => res_eqb (g_Ipv4Mask_from_bitcount (Z.of_N k)) (rmap Z.of_N sigma (from_bitcount k))));
    [vm_compute; reflexivity|exact H].
Qed.

Lemma gen_from_bitcount n :
  g_Ipv4Mask_from_bitcount (Z.of_N n) = rmap Z.of_N sigma (from_bitcount n).
Proof.
  destruct (N.le_gt_cases n 32) as [L|L]; [apply gen_from_bitcount_small; exact L|].
  assert (E1 : g_Ipv4Mask_from_bitcount (Z.of_N n) = g_Ipv4Mask_from_bitcount (Z.of_N 32)).
  { unfold g_Ipv4Mask_from_bitcount.
    change 0 with (Z.of_N 0) at 1. change 32 with (Z.of_N 32) at 1.
    change 0 with (Z.of_N 0) at 4. change 32 with (Z.of_N 32) at 5.
    rewrite !gen_clamp, !clamp_spec.
    replace (N.min n 32) with 32%N by lia. reflexivity. }
  rewrite E1, gen_from_bitcount_small by lia.
  rewrite !from_bitcount_spec. replace (N.min n 32) with (N.min 32 32) by lia. reflexivity.
Qed.

(* from_bitcount never panics: the generated function returns Ok of the prefix mask *)
Lemma gen_from_bitcount_ok n :
  g_Ipv4Mask_from_bitcount (Z.of_N n) = Ok (Z.of_N (prefix_mask (N.min n 32))).
Proof. rewrite gen_from_bitcount, from_bitcount_spec. reflexivity. Qed.

(* ---- Ipv4Mask -------------------------------------------------------------- *)
Lemma pos_ones_popcount p : pos_ones p = Z.of_N (pos_popcount p).
Proof.
  induction p as [q IH|q IH|]; cbn [pos_ones pos_popcount].
  - rewrite IH, N2Z.inj_succ. lia.
  - exact IH.
  - reflexivity.
Qed.
Lemma gen_count_ones m : g_Ipv4Mask_count_ones (Z.of_N m) = Z.of_N (popcount m).
Proof. destruct m as [|p]; [reflexivity|]. apply pos_ones_popcount. Qed.
Lemma gen_mask_to_u32 m : g_Ipv4Mask_to_u32 m = m.
Proof. reflexivity. Qed.
Lemma gen_u32_from_mask m : g_u32_from_Ipv4Mask m = m.
Proof. reflexivity. Qed.
Lemma gen_mask_to_address m : g_Ipv4Mask_to_ipv4_address (Z.of_N m) = A m.
Proof. reflexivity. Qed.
Lemma gen_address_from_mask m : g_Ipv4Address_from_Ipv4Mask (Z.of_N m) = A m.
Proof. reflexivity. Qed.

Lemma gen_not32 x : lt32 x -> u_not 32 (Z.of_N x) = Z.of_N (not32 x).
Proof.
  intros H. rewrite not32_spec by exact H. unfold u_not, lt32, max32, two32 in *.
  change (2 ^ 32) with 4294967296. lia.
Qed.
Lemma not32_lt x : lt32 x -> lt32 (not32 x).
Proof. intros H. unfold lt32 in *. rewrite not32_spec by exact H. unfold max32, two32 in *. lia. Qed.

(* ips_in_net: the u64 addition cannot overflow *)
Lemma gen_ips_in_net m : lt32 m -> g_Ipv4Mask_ips_in_net (Z.of_N m) = Ok (Z.of_N (ips_in_net m)).
Proof.
  intros H. unfold g_Ipv4Mask_ips_in_net, ips_in_net, g_Ipv4Mask_to_u32, ck_add.
  rewrite gen_not32 by exact H. pose proof (not32_lt m H) as L. unfold lt32, two32 in L.
  change (2 ^ 64) with 18446744073709551616.
  destruct (18446744073709551616 <=? Z.of_N (not32 m) + 1) eqn:E; [lia|].
  cbn [bind]. f_equal. lia.
Qed.

(* usable_ips: `other - 1` is reached only for other >= 2 *)
Lemma gen_usable_ips m : lt32 m -> g_Ipv4Mask_usable_ips (Z.of_N m) = Ok (Z.of_N (usable_ips m)).
Proof.
  intros H. unfold g_Ipv4Mask_usable_ips, usable_ips, g_Ipv4Mask_to_u32, ck_sub.
  rewrite gen_not32 by exact H.
  change 0 with (Z.of_N 0) at 1. change 1 with (Z.of_N 1) at 1. rewrite !eqb_of_N.
  destruct ((not32 m =? 0)%N || (not32 m =? 1)%N) eqn:E; [reflexivity|].
  destruct (Z.of_N (not32 m) <? 1) eqn:E2; [lia|]. cbn [bind]. f_equal. lia.
Qed.

(* TryFrom<u32> for Ipv4Mask: the rejected value itself is the error *)
Definition emb_mask_try (m : N) (r : result N) : result Z :=
  match r with
  | Ok a => Ok (Z.of_N a)
  | Err _ => Err (Z.of_N m)
  | Panic s => Panic (sigma s)
  | OutOfFuel => OutOfFuel
  end.
Lemma gen_mask_try_from m : g_Ipv4Mask_try_from_u32 (Z.of_N m) = emb_mask_try m (mask_try_from m).
Proof.
  unfold g_Ipv4Mask_try_from_u32, mask_try_from.
  change (count_ones (Z.of_N m)) with (g_Ipv4Mask_count_ones (Z.of_N m)).
  rewrite gen_count_ones, gen_from_bitcount_ok, from_bitcount_spec. cbn [bind].
  unfold g_u32_from_Ipv4Mask. rewrite eqb_of_N.
  destruct (prefix_mask (N.min (popcount m) 32) =? m)%N; reflexivity.
Qed.

(* ---- Ipv4Net --------------------------------------------------------------- *)
Lemma gen_net_new ip mask : lt32 ip -> lt32 mask ->
  g_Ipv4Net_new (A ip) (Z.of_N mask) = netZ (net_new ip mask).
Proof.
  intros Hi Hm. unfold g_Ipv4Net_new, net_new, netZ. cbn [net_id net_mask].
  rewrite gen_addr_to_u32 by exact Hi. unfold g_Ipv4Mask_to_u32.
  rewrite land_of_N. reflexivity.
Qed.

Lemma from_bitcount_lt n m : from_bitcount n = Ok m -> lt32 m.
Proof. rewrite from_bitcount_spec. intros H. injection H as <-. apply prefix_mask_lt. Qed.

Lemma gen_net_new_short ip len : lt32 ip ->
  g_Ipv4Net_new_short (A ip) (Z.of_N len) = rmap netZ sigma (net_new_short ip len).
Proof.
  intros Hi. unfold g_Ipv4Net_new_short, net_new_short. rewrite gen_from_bitcount.
  destruct (from_bitcount len) as [m|e|s|] eqn:E; cbn [bind rmap]; try reflexivity.
  rewrite gen_net_new; [reflexivity|exact Hi|]. apply (from_bitcount_lt len). exact E.
Qed.

Lemma gen_net_new_1 ip : g_Ipv4Net_new_1 (A ip) = rmap netZ sigma (net_new_1 ip).
Proof.
  unfold g_Ipv4Net_new_1, net_new_1. change 32 with (Z.of_N 32). rewrite gen_from_bitcount.
  destruct (from_bitcount 32) as [m|e|s|]; reflexivity.
Qed.

Lemma gen_net_id n : g_Ipv4Net_id (netZ n) = A (net_id n).
Proof. reflexivity. Qed.
Lemma gen_net_mask n : g_Ipv4Net_mask (netZ n) = Z.of_N (net_mask n).
Proof. reflexivity. Qed.

Lemma gen_broadcast n : net32 n -> g_Ipv4Net_broadcast (netZ n) = rmap A sigma (broadcast n).
Proof.
  intros [Hi Hm]. unfold g_Ipv4Net_broadcast, broadcast, add32, ck_add.
  rewrite gen_net_id, gen_addr_to_u32 by exact Hi.
  cbn [netZ g_Ipv4Net_f_mask]. unfold g_Ipv4Mask_to_u32. rewrite gen_not32 by exact Hm.
  change (2 ^ 32) with 4294967296.
  destruct (N.leb_spec two32 (net_id n + not32 (net_mask n))) as [L|L]; unfold two32 in L.
  - destruct (4294967296 <=? Z.of_N (net_id n) + Z.of_N (not32 (net_mask n))) eqn:E; [reflexivity|lia].
  - destruct (4294967296 <=? Z.of_N (net_id n) + Z.of_N (not32 (net_mask n))) eqn:E; [lia|].
    cbn [bind rmap]. unfold g_Ipv4Address_new, A. rewrite N2Z.inj_add. reflexivity.
Qed.

Lemma broadcast_lt n b : broadcast n = Ok b -> lt32 b.
Proof.
  unfold broadcast, add32, lt32. destruct (N.leb_spec two32 (net_id n + not32 (net_mask n))) as [L|L]; [discriminate|].
  intros E. injection E as <-. exact L.
Qed.

Definition rangeZ (p : N * N) : list Z * list Z := (A (fst p), A (snd p)).
Lemma gen_range n : net32 n -> g_Ipv4Net_range (netZ n) = rmap rangeZ sigma (net_range n).
Proof.
  intros H. unfold g_Ipv4Net_range, net_range. rewrite gen_broadcast by exact H.
  destruct (broadcast n); reflexivity.
Qed.

Lemma gen_contains n a : net32 n -> lt32 a -> g_Ipv4Net_contains (netZ n) (A a) = contains n a.
Proof.
  intros [Hi Hm] Ha. unfold g_Ipv4Net_contains, contains.
  rewrite gen_net_id, !gen_addr_to_u32 by assumption.
  rewrite gen_net_mask. unfold g_Ipv4Mask_to_u32. rewrite land_of_N. apply eqb_of_N.
Qed.

(* overlaps: same evaluation order (other.broadcast() first), same short circuit *)
Lemma gen_overlaps s o : net32 s -> net32 o ->
  g_Ipv4Net_overlaps (netZ s) (netZ o) = rmap (fun b : bool => b) sigma (overlaps s o).
Proof.
  intros Hs Ho. unfold g_Ipv4Net_overlaps, overlaps.
  rewrite (gen_broadcast o Ho).
  destruct (broadcast o) as [bo|e|st|] eqn:Eo; cbn [bind rmap]; try reflexivity.
  rewrite gen_net_id. rewrite gen_addr_leb; [|apply Hs|apply (broadcast_lt o); exact Eo].
  destruct (net_id s <=? bo)%N; [|reflexivity].
  rewrite (gen_broadcast s Hs).
  destruct (broadcast s) as [bs|e|st|] eqn:Es; cbn [bind rmap]; try reflexivity.
  rewrite gen_net_id. rewrite gen_addr_leb; [reflexivity|apply Ho|apply (broadcast_lt s); exact Es].
Qed.

Lemma gen_net_from_tuple ip mask : lt32 ip -> lt32 mask ->
  g_Ipv4Net_from_tup_Ipv4Address_Ipv4Mask (A ip, Z.of_N mask) = netZ (net_new ip mask).
Proof. intros. unfold g_Ipv4Net_from_tup_Ipv4Address_Ipv4Mask. cbn [fst snd]. apply gen_net_new; assumption. Qed.
Lemma gen_tuple_from_net n :
  g_tup_Ipv4Address_Ipv4Mask_from_Ipv4Net (netZ n) = (A (net_id n), Z.of_N (net_mask n)).
Proof. reflexivity. Qed.

Lemma land_lt32 a b : lt32 a -> lt32 (N.land a b).
Proof.
  unfold lt32, two32. intros H.
  destruct (N.eq_dec (N.land a b) 0) as [E|Hz]; [rewrite E; reflexivity|].
  change 4294967296%N with (2 ^ 32)%N. apply N.log2_lt_pow2; [lia|].
  eapply N.le_lt_trans; [apply N.log2_land|]. apply N.min_lt_iff. left.
  apply N.log2_lt_pow2; [|exact H].
  destruct a as [|p]; [rewrite N.land_0_l in Hz; congruence|lia].
Qed.

(* TryFrom<RangeInclusive<Ipv4Address>> for Ipv4Net: TryFromRangeError::{Empty, Size, Start} = Err 1, 2, 3 in both *)
Lemma mask_try_from_lt m r : lt32 m -> mask_try_from m = Ok r -> lt32 r.
Proof. intros Hm H. apply mask_try_from_ok_iff in H. destruct H as [-> _]. exact Hm. Qed.

Lemma gen_try_from_range lo hi : lt32 lo -> lt32 hi ->
  g_Ipv4Net_try_from_range_Ipv4Address (A lo, A hi) = rmap netZ sigma (try_from_range lo hi).
Proof.
  intros Hlo Hhi. unfold g_Ipv4Net_try_from_range_Ipv4Address, try_from_range. cbn [fst snd].
  rewrite gen_addr_leb by assumption.
  destruct (N.leb_spec lo hi) as [L|L]; destruct (N.ltb_spec hi lo) as [L'|L']; try lia; cbn [negb].
  2: reflexivity.
  rewrite !gen_addr_to_u32 by assumption.
  unfold ck_sub, sub32. rewrite ltb_of_N.
  destruct (N.ltb_spec hi lo) as [L2|L2]; [lia|]. cbn [bind].
  rewrite <- N2Z.inj_sub by exact L2.
  assert (Hd : lt32 (hi - lo)) by (unfold lt32 in *; lia).
  rewrite gen_not32 by exact Hd.
  rewrite gen_mask_try_from.
  pose proof (not32_lt _ Hd) as Hn.
  destruct (mask_try_from (not32 (hi - lo))) as [m|e|st|] eqn:Em; cbn [emb_mask_try or_err bind rmap]; try reflexivity.
  pose proof (mask_try_from_lt _ _ Hn Em) as Hm.
  rewrite gen_net_new by assumption.
  assert (H32 : net32 (net_new lo m)).
  { split; cbn [net_new net_id net_mask]; [apply land_lt32; exact Hlo|exact Hm]. }
  rewrite gen_range by exact H32.
  destruct (net_range (net_new lo m)) as [r|e|st|] eqn:Er; cbn [bind rmap]; try reflexivity.
  unfold rangeZ. cbn [fst snd].
  assert (Hr : lt32 (fst r) /\ lt32 (snd r)).
  { unfold net_range in Er. destruct (broadcast (net_new lo m)) as [b|?|?|] eqn:Eb; try discriminate.
    cbn [bind] in Er. injection Er as <-. cbn [fst snd]. split; [apply H32|apply (broadcast_lt _ _ Eb)]. }
  rewrite !gen_addr_eqb by (try assumption; apply Hr).
  destruct ((fst r =? lo)%N && (snd r =? hi)%N); reflexivity.
Qed.

(* #[derive(PartialEq)] on Ipv4Net is the hand model's net_eqb *)
Lemma gen_net_eqb a b : net32 a -> net32 b -> g_Ipv4Net_eqb (netZ a) (netZ b) = net_eqb a b.
Proof.
  intros [Ha Ha'] [Hb Hb']. unfold g_Ipv4Net_eqb, net_eqb. cbn [netZ g_Ipv4Net_f_network_id g_Ipv4Net_f_mask].
  rewrite gen_addr_eqb by assumption. rewrite eqb_of_N. reflexivity.
Qed.

(* SubnetInfo::new stores its two arguments *)
Lemma gen_subnet_info_new m g :
  g_SubnetInfo_f_mask (g_SubnetInfo_new m g) = m /\ g_SubnetInfo_f_default_gateway (g_SubnetInfo_new m g) = g.
Proof. split; reflexivity. Qed.

(* the embeddings lose nothing: distinct model values have distinct images *)
Lemma A_inj x y : lt32 x -> lt32 y -> A x = A y -> x = y.
Proof.
  intros Hx Hy E. pose proof (gen_addr_eqb x y Hx Hy) as H. rewrite E in H.
  assert (R : list_eqb (A y) (A y) = true).
  { unfold A. rewrite list_eqb_be_4 by (apply lt32_Z; assumption). apply Z.eqb_refl. }
  rewrite R in H. symmetry in H. apply N.eqb_eq in H. exact H.
Qed.
