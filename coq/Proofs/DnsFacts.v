(* DNS codec: round trips and totality (kit codecapp). *)
From Coq Require Import ZifyBool.
From Elvis Require Import Model.Base Model.AppBytes Model.Dns Proofs.AppBytesFacts.
Local Open Scope Z_scope.
Ltac Zify.zify_post_hook ::= Z.div_mod_to_equations.

(* ---- the rdata loop -------------------------------------------------------- *)
Lemma rdata_loop_done i n bs : n <= i -> rdata_loop i n bs = Ok ([], bs).
Proof.
  intros H. assert (E : (i <? n) = false) by lia.
  destruct bs; cbn [rdata_loop]; rewrite E; reflexivity.
Qed.

Lemma rdata_loop_app l : forall i n rest, n <= 65535 -> Z.of_nat (length l) = n - i ->
  rdata_loop i n (l ++ rest) = Ok (l, rest).
Proof.
  induction l as [|c l IH]; intros i n rest Hn Hl.
  - cbn [length app] in *. apply rdata_loop_done. lia.
  - cbn [length app rdata_loop] in *.
    assert (E1 : (i <? n) = true) by lia. assert (E2 : (65535 <? i + 1) = false) by lia.
    rewrite E1, E2, (IH (i + 1) n rest) by lia. reflexivity.
Qed.

Lemma rdata_loop_inv bs : forall i n l rest, rdata_loop i n bs = Ok (l, rest) -> i <= n ->
  bs = l ++ rest /\ Z.of_nat (length l) = n - i.
Proof.
  induction bs as [|c bs IH]; intros i n l rest H Hi; cbn [rdata_loop] in H.
  - destruct (i <? n) eqn:E; [discriminate|]. inversion H; subst. cbn [length app]. split; [reflexivity|lia].
  - destruct (i <? n) eqn:E.
    + destruct (65535 <? i + 1); [discriminate|].
      apply bind_ok in H as [[l0 r0] [H0 H1]]. inversion H1; subst.
      destruct (IH (i + 1) n l0 rest H0) as [-> L]; [lia|].
      cbn [length app]. split; [reflexivity|lia].
    + inversion H; subst. cbn [length app]. split; [reflexivity|lia].
Qed.

Lemma rdata_loop_answers bs : forall i n, n <= 65535 -> answers (rdata_loop i n bs) = true.
Proof.
  induction bs as [|c bs IH]; intros i n Hn; cbn [rdata_loop].
  - destruct (i <? n); reflexivity.
  - destruct (i <? n) eqn:E; [|reflexivity].
    assert (E2 : (65535 <? i + 1) = false) by lia. rewrite E2.
    apply bind_answers; [apply IH; exact Hn | intros [? ?] _; reflexivity].
Qed.

(* the checked `i += 1` is a real site of the model: outside the u16 range of
   rdlength (not a byte string) it would fire *)
Example rdata_loop_site_reachable_outside_u16 :
  rdata_loop 65535 65537 [0; 0] = Panic 20.
Proof. reflexivity. Qed.

(* ---- decode after encode --------------------------------------------------- *)
Ltac split_wf W :=
  repeat match goal with
         | H : (_ && _) = true |- _ => apply andb_prop in H as [? ?]
         end;
  repeat match goal with H : rng _ _ = true |- _ => apply rng_iff in H end.

Lemma dns_decode_encode m rest : dns_wf m = true ->
  dns_from_bytes (dns_to_message m ++ rest) = Ok (m, rest).
Proof.
  destruct m as [[id pr qd an ns ar] [qn qt qc] [nm rt cl ttl rl rdt]].
  unfold dns_wf, dns_header_wf, dns_question_wf, dns_rr_wf, dns_to_message,
    dns_header_build, dns_question_build, dns_rr_build, dns_from_bytes.
  cbn [m_header m_question m_answer d_id d_properties d_qdcount d_ancount d_nscount d_arcount
       q_qname q_qtype q_qclass r_name r_rec_type r_class r_ttl r_rdlength r_rdata].
  intros W. split_wf W.
  rewrite <- !app_assoc. cbn [app].
  do 6 (rewrite next_u16_be16 by lia; cbn [rd bind]).
  rewrite read_until_app by assumption. cbn [bind].
  do 2 (rewrite next_u16_be16 by lia; cbn [rd bind]).
  rewrite read_until_app by assumption. cbn [bind].
  do 2 (rewrite next_u16_be16 by lia; cbn [rd bind]).
  rewrite next_u32_be32 by lia. cbn [rd bind].
  rewrite next_u16_be16 by lia. cbn [rd bind].
  rewrite rdata_loop_app by lia. cbn [bind]. reflexivity.
Qed.

(* outside the quantifier: a name that contains the delimiter, and a record
   whose private rdlength disagrees with its rdata, are not given back *)
Lemma dns_name_with_delimiter_not_round_tripped :
  exists m, dns_from_bytes (dns_to_message m) <> Ok (m, []) /\
            dns_question_wf (m_question m) = false.
Proof.
  exists (mkDnsMessage (mkDnsHeader 0 0 0 0 0 0) (mkDnsQuestion [97; 32; 98] 1 1)
                       (mkDnsRr [] 1 1 0 0 [])).
  split; [vm_compute; discriminate | reflexivity].
Qed.

Lemma dns_rdlength_mismatch_not_round_tripped :
  exists m, dns_from_bytes (dns_to_message m) <> Ok (m, []) /\ dns_rr_wf (m_answer m) = false.
Proof.
  exists (mkDnsMessage (mkDnsHeader 0 0 0 0 0 0) (mkDnsQuestion [] 1 1) (mkDnsRr [] 1 1 0 0 [7])).
  split; [vm_compute; discriminate | reflexivity].
Qed.

(* ---- encode after decode --------------------------------------------------- *)
Lemma free_of_bytes_split a c b : bytes (a ++ c :: b) = true -> bytes a = true /\ bytes b = true.
Proof. intros H. apply bytes_split in H as (? & _ & ?). auto. Qed.

Lemma dns_encode_decode bs m rest : bytes bs = true ->
  dns_from_bytes bs = Ok (m, rest) ->
  bs = dns_to_message m ++ rest /\ dns_wf m = true /\ bytes rest = true.
Proof.
  unfold dns_from_bytes. intros B H.
  apply bind_ok in H as [[id b1] [E H]]. apply rd_ok in E.
  apply (next_u16_inv _ _ _ B) in E as (-> & R1 & B1).
  apply bind_ok in H as [[pr b2] [E H]]. apply rd_ok in E.
  apply (next_u16_inv _ _ _ B1) in E as (-> & R2 & B2).
  apply bind_ok in H as [[qd b3] [E H]]. apply rd_ok in E.
  apply (next_u16_inv _ _ _ B2) in E as (-> & R3 & B3).
  apply bind_ok in H as [[an b4] [E H]]. apply rd_ok in E.
  apply (next_u16_inv _ _ _ B3) in E as (-> & R4 & B4).
  apply bind_ok in H as [[ns b5] [E H]]. apply rd_ok in E.
  apply (next_u16_inv _ _ _ B4) in E as (-> & R5 & B5).
  apply bind_ok in H as [[ar b6] [E H]]. apply rd_ok in E.
  apply (next_u16_inv _ _ _ B5) in E as (-> & R6 & B6).
  apply bind_ok in H as [[qn b7] [E H]].
  apply read_until_inv in E as [-> F1]. apply free_of_bytes_split in B6 as [Bq B7].
  apply bind_ok in H as [[qt b8] [E H]]. apply rd_ok in E.
  apply (next_u16_inv _ _ _ B7) in E as (-> & R8 & B8).
  apply bind_ok in H as [[qc b9] [E H]]. apply rd_ok in E.
  apply (next_u16_inv _ _ _ B8) in E as (-> & R9 & B9).
  apply bind_ok in H as [[nm b10] [E H]].
  apply read_until_inv in E as [-> F2]. apply free_of_bytes_split in B9 as [Bn B10].
  apply bind_ok in H as [[rt b11] [E H]]. apply rd_ok in E.
  apply (next_u16_inv _ _ _ B10) in E as (-> & R11 & B11).
  apply bind_ok in H as [[cl b12] [E H]]. apply rd_ok in E.
  apply (next_u16_inv _ _ _ B11) in E as (-> & R12 & B12).
  apply bind_ok in H as [[ttl b13] [E H]]. apply rd_ok in E.
  apply (next_u32_inv _ _ _ B12) in E as (-> & R13 & B13).
  apply bind_ok in H as [[rl b14] [E H]]. apply rd_ok in E.
  apply (next_u16_inv _ _ _ B13) in E as (-> & R14 & B14).
  apply bind_ok in H as [[rdt b15] [E H]].
  pose proof R14 as R14'. apply rng_iff in R14'.
  apply rdata_loop_inv in E as [-> L]; [|lia].
  rewrite bytes_app in B14. apply andb_prop in B14 as [Bd B15].
  inversion H; subst. clear H.
  split; [|split; [|exact B15]].
  - unfold dns_to_message, dns_header_build, dns_question_build, dns_rr_build.
    cbn [m_header m_question m_answer d_id d_properties d_qdcount d_ancount d_nscount d_arcount
         q_qname q_qtype q_qclass r_name r_rec_type r_class r_ttl r_rdlength r_rdata].
    rewrite <- !app_assoc. cbn [app]. reflexivity.
  - unfold dns_wf, dns_header_wf, dns_question_wf, dns_rr_wf.
    cbn [m_header m_question m_answer d_id d_properties d_qdcount d_ancount d_nscount d_arcount
         q_qname q_qtype q_qclass r_name r_rec_type r_class r_ttl r_rdlength r_rdata].
    rewrite R1, R2, R3, R4, R5, R6, Bq, F1, R8, R9, Bn, F2, R11, R12, R13, R14, Bd.
    cbn [andb]. lia.
Qed.

Lemma dns_encode_decode_firstn bs m rest : bytes bs = true ->
  dns_from_bytes bs = Ok (m, rest) ->
  dns_to_message m = firstn (length bs - length rest) bs.
Proof.
  intros B H. destruct (dns_encode_decode bs m rest B H) as (E & _ & _).
  exact (consumed_firstn _ _ _ E).
Qed.

(* ---- totality ---------------------------------------------------------------- *)
Tactic Notation "s16" hyp(B) ident(B') :=
  apply bind_answers;
  [apply rd_answers
  |let E := fresh "E" in
   intros [? ?] E; apply rd_ok in E; apply (next_u16_inv _ _ _ B) in E as (_ & _ & B')].
Tactic Notation "s32" hyp(B) ident(B') :=
  apply bind_answers;
  [apply rd_answers
  |let E := fresh "E" in
   intros [? ?] E; apply rd_ok in E; apply (next_u32_inv _ _ _ B) in E as (_ & _ & B')].
Tactic Notation "suntil" hyp(B) ident(B') :=
  apply bind_answers;
  [apply read_until_answers
  |let E := fresh "E" in
   intros [? ?] E; apply read_until_inv in E as [E _]; rewrite E in B;
   apply free_of_bytes_split in B as [_ B']].

(* the only panic site of the decoder is the checked `i += 1`; it cannot fire
   because rdlength was read from two bytes *)
Lemma dns_answers bs : bytes bs = true -> answers (dns_from_bytes bs) = true.
Proof.
  unfold dns_from_bytes. intros B.
  s16 B B1. s16 B1 B2. s16 B2 B3. s16 B3 B4. s16 B4 B5. s16 B5 B6.
  suntil B6 B7. s16 B7 B8. s16 B8 B9.
  suntil B9 B10. s16 B10 B11. s16 B11 B12. s32 B12 B13.
  apply bind_answers; [apply rd_answers|].
  intros [rl b14] Erl. apply rd_ok in Erl. apply (next_u16_inv _ _ _ B13) in Erl as (_ & R & _).
  apply rng_iff in R.
  apply bind_answers; [apply rdata_loop_answers; lia | intros [? ?] _; reflexivity].
Qed.

Lemma dns_total bs : bytes bs = true -> is_panic (dns_from_bytes bs) = false.
Proof. intros B. apply answers_no_panic, dns_answers, B. Qed.

Lemma dns_value_or_error bs : bytes bs = true ->
  (exists r, dns_from_bytes bs = Ok r) \/ (exists e, dns_from_bytes bs = Err e).
Proof. intros B. apply answers_cases, dns_answers, B. Qed.

(* query_name: total after the repair, a panic on the code as it was *)
Lemma dns_query_name_total q : is_panic (dns_query_name q) = false.
Proof. unfold dns_query_name. destruct (utf8_valid _); reflexivity. Qed.

Lemma dns_query_name_orig_panics :
  exists bs m rest, bytes bs = true /\ dns_from_bytes bs = Ok (m, rest) /\
                    is_panic (dns_query_name_orig (m_question m)) = true.
Proof.
  exists [0;0; 0;0; 0;0; 0;0; 0;0; 0;0; 255; 32; 0;1; 0;1; 32; 0;1; 0;1; 0;0;0;0; 0;0].
  eexists. eexists. split; [reflexivity|]. split; [vm_compute; reflexivity|]. reflexivity.
Qed.

Lemma dns_query_name_agrees q r :
  dns_query_name_orig q = r -> is_panic r = false -> dns_query_name q = r.
Proof.
  unfold dns_query_name_orig, dns_query_name. destruct (utf8_valid _); intros <- P;
    [reflexivity|discriminate].
Qed.
