(* C05 - soundness of the trace validator of Model/Link.v: what an accepted trace satisfies. *)
From Coq Require Import ZifyBool.
From Elvis Require Import Model.Base Model.Link Proofs.LinkFacts.
Local Open Scope Z_scope.
Ltac Zify.zify_post_hook ::= Z.div_mod_to_equations.

(* ------------------------------------------------------------------ small reflections *)

Lemma count_zero p tr : count p tr = 0 -> forall e, In e tr -> p e = false.
Proof.
  unfold count. intros H e He. destruct (p e) eqn:E; [|reflexivity].
  assert (Hin : In e (filter p tr)) by (apply filter_In; split; assumption).
  destruct (filter p tr); [destruct Hin|]. cbn [length] in H. lia.
Qed.

Lemma forallb_filter {A} (p q : A -> bool) l :
  forallb q (filter p l) = true -> forall e, In e l -> p e = true -> q e = true.
Proof.
  intros H e He Hp. rewrite forallb_forall in H. apply H. apply filter_In. split; assumption.
Qed.

Lemma nodupb_NoDup l : nodupb l = true -> NoDup l.
Proof.
  induction l as [|a l IH]; intros H; [constructor|].
  cbn [nodupb] in H. apply andb_true_iff in H. destruct H as [H1 H2].
  constructor; [|apply IH; exact H2].
  intros Hin. apply negb_true_iff in H1.
  assert (existsb (Z.eqb a) l = true).
  { apply existsb_exists. exists a. split; [exact Hin|apply Z.eqb_refl]. }
  congruence.
Qed.

Lemma existsb_eqb_In k l : existsb (Z.eqb k) l = true -> In k l.
Proof.
  intros H. apply existsb_exists in H. destruct H as (x & Hx & E). apply Z.eqb_eq in E. subst. exact Hx.
Qed.

Lemma event_eqb_eq a b : event_eqb a b = true -> a = b.
Proof.
  destruct a, b; cbn [event_eqb]; intros H; try discriminate.
  repeat (apply andb_true_iff in H; destruct H as [H ?]).
  f_equal; lia.
Qed.

Lemma list_eqb_eq {A} (eqb : A -> A -> bool) :
  (forall a b, eqb a b = true -> a = b) -> forall l1 l2, list_eqb eqb l1 l2 = true -> l1 = l2.
Proof.
  intros Heq. induction l1 as [|a l1 IH]; intros [|b l2] H; cbn [list_eqb] in H; try discriminate.
  - reflexivity.
  - apply andb_true_iff in H. destruct H as [H1 H2]. f_equal; [apply Heq; exact H1|apply IH; exact H2].
Qed.

(* ------------------------------------------------------------------ what is checked per send *)

(* an accepted frame, sent at t from tap T of network ni, identified by key *)
Definition accepted_ok (ts : list (nat * tap)) (tr : list event) (ni : nat) (T : tap) (n : net)
    (t key : Z) (s : scfg) : Prop :=
  let rcp := route n (dst_of (s_dst s)) in
  (* on the wire exactly once, with the sender's address and the destination as given *)
  count (is_wire key) tr = 1 /\
  (forall t' ni' f' d' k', In (EWire t' ni' f' d' k') tr -> k' = key ->
      ni' = Z.of_nat ni /\ f' = t_mac T /\ d' = s_dst s) /\
  (* hand-overs: only on this network, unchanged, not before the latency, only to its taps *)
  (forall t' ni' f' d' tp k', In (EDlv t' ni' f' d' tp k') tr -> k' = key ->
      ni' = Z.of_nat ni /\ f' = t_mac T /\ d' = s_dst s /\ t + n_lat_base n <= t' /\
      (tp = -1 \/ mem_mac tp (n_taps n) = true)) /\
  (* every tap of the network: handed over exactly once if the routing function names it,
     not at all otherwise; "nobody" is reported exactly when the routing function names nobody *)
  (forall T', In T' (n_taps n) ->
      count (is_dlv_to key (t_mac T')) tr = b2z (mem_mac (t_mac T') rcp)) /\
  count (is_dlv_to key (-1)) tr = b2z (match rcp with [] => true | _ => false end) /\
  (* receptions by the target protocol: sender, destination, MTU as sent; not before the latency *)
  (forall t' m' s' src' dst' mtu' k', In (ERx t' m' s' src' dst' mtu' k') tr -> k' = key ->
      src' = t_mac T /\ dst' = s_dst s /\ mtu' = n_mtu n /\ t + n_lat_base n <= t' /\
      find_tap ts m' s' <> None) /\
  (* every tap of EVERY network: received exactly once if it is on this network and the
     routing function names it, not at all otherwise *)
  (forall it, In it ts ->
      count (is_rx_at key (t_machine (snd it)) (t_slot (snd it))) tr =
      b2z ((fst it =? ni)%nat && mem_mac (t_mac (snd it)) rcp)).

Definition send_ok (w : list net) (ts : list (nat * tap)) (tr : list event) (i : Z) (s : scfg) : Prop :=
  exists ni T n t j res em key,
    find_tap ts (s_machine s) (s_slot s) = Some (ni, T) /\
    nth_error w ni = Some n /\
    filter (is_tx i) tr = [ETx t j res em key] /\
    key / HMOD = s_len s /\
    (* longer than the MTU: refused with the MTU in the error, and nothing of it anywhere *)
    (n_mtu n < s_len s ->
       res = 1 /\ em = n_mtu n /\ forall e, In e tr -> on_wire key e = false) /\
    (s_len s <= n_mtu n -> res = 0 /\ accepted_ok ts tr ni T n t key s).

Lemma check_send_sound w ts tr i s : check_send w ts tr i s = true -> send_ok w ts tr i s.
Proof.
  unfold check_send, send_ok. intros H.
  destruct (find_tap ts (s_machine s) (s_slot s)) as [[ni T]|] eqn:F; [|discriminate].
  destruct (nth_error w ni) as [n|] eqn:N; [|discriminate].
  destruct (filter (is_tx i) tr) as [|e0 [|e1 l]] eqn:Ftx; try discriminate.
  2:{ destruct e0; discriminate. }
  destruct e0 as [ | t j res em key | | | ]; try discriminate.
  apply andb_true_iff in H. destruct H as [Hk H].
  exists ni, T, n, t, j, res, em, key.
  split; [reflexivity|]. split; [exact N|]. split; [reflexivity|]. split; [apply Z.eqb_eq; exact Hk|].
  unfold mtu_test in H. destruct (n_mtu n <? s_len s) eqn:M.
  - split; [|intros; lia]. intros _.
    apply andb_true_iff in H. destruct H as [H H3]. apply andb_true_iff in H. destruct H as [H1 H2].
    split; [lia|]. split; [lia|]. apply count_zero. lia.
  - split; [intros; lia|]. intros _.
    apply andb_true_iff in H. destruct H as [H Hts].
    apply andb_true_iff in H. destruct H as [H Hrx].
    apply andb_true_iff in H. destruct H as [H Hdn].
    apply andb_true_iff in H. destruct H as [H Hdl].
    apply andb_true_iff in H. destruct H as [H Hfd].
    apply andb_true_iff in H. destruct H as [H Hfw].
    apply andb_true_iff in H. destruct H as [Hres Hcw].
    split; [lia|]. unfold accepted_ok. cbv zeta.
    split; [lia|]. split; [|split; [|split; [|split; [|split]]]].
    + intros t' ni' f' d' k' Hin ->.
      pose proof (forallb_filter _ _ _ Hfw _ Hin) as X. cbn [is_wire wire_ok] in X.
      specialize (X (Z.eqb_refl key)). lia.
    + intros t' ni' f' d' tp k' Hin ->.
      pose proof (forallb_filter _ _ _ Hfd _ Hin) as X. cbn [is_dlv dlv_ok] in X.
      specialize (X (Z.eqb_refl key)).
      apply andb_true_iff in X. destruct X as [X Xm]. apply orb_true_iff in Xm.
      repeat split; try lia. destruct Xm as [Xm|Xm]; [left; lia|right; exact Xm].
    + intros T' HT'. rewrite forallb_forall in Hdl. specialize (Hdl T' HT'). lia.
    + lia.
    + intros t' m' s' src' dst' mtu' k' Hin ->.
      pose proof (forallb_filter _ _ _ Hrx _ Hin) as X. cbn [is_rx rx_ok] in X.
      specialize (X (Z.eqb_refl key)).
      apply andb_true_iff in X. destruct X as [X Xm].
      repeat split; try lia. destruct (find_tap ts m' s'); [discriminate|discriminate].
    + intros it Hit. rewrite forallb_forall in Hts. specialize (Hts it Hit).
      apply Z.eqb_eq in Hts. exact Hts.
Qed.

Lemma check_sends_sound w ts tr ss : forall i,
  check_sends_from w ts tr i ss = true ->
  forall k s, nth_error ss k = Some s -> send_ok w ts tr (i + Z.of_nat k) s.
Proof.
  induction ss as [|s0 ss IH]; intros i H k s Hk; [destruct k; discriminate|].
  cbn [check_sends_from] in H. apply andb_true_iff in H. destruct H as [H1 H2].
  destruct k as [|k]; cbn [nth_error] in Hk.
  - injection Hk as <-. replace (i + Z.of_nat 0) with i by lia. apply check_send_sound. exact H1.
  - replace (i + Z.of_nat (S k)) with ((i + 1) + Z.of_nat k) by lia. apply IH; assumption.
Qed.

(* ------------------------------------------------------------------ throughput windows *)

Definition window_ok (thr : Z) (fs : list fr) : Prop :=
  forall a b, In a fs -> In b fs -> fr_arr a <= fr_dlv b ->
    win_bytes (fr_arr a) (fr_dlv b) fs * NS <= thr * (fr_dlv b - fr_arr a).

Lemma check_window_sound thr fs : check_window thr fs = true -> window_ok thr fs.
Proof.
  unfold check_window, window_ok. intros H a b Ha Hb Hab.
  rewrite forallb_forall in H. specialize (H a Ha). rewrite forallb_forall in H. specialize (H b Hb).
  apply orb_true_iff in H. destruct H as [H|H]; lia.
Qed.

Lemma check_thr_sound c ts tr w : forall ni,
  check_thr_from c ts tr ni w = true ->
  forall k n, nth_error w k = Some n -> n_thr_base n <> 0 ->
    window_ok (thr_max n) (net_frames c ts tr (ni + k)).
Proof.
  induction w as [|n0 w IH]; intros ni H k n Hk Hn; [destruct k; discriminate|].
  cbn [check_thr_from] in H. apply andb_true_iff in H. destruct H as [H1 H2].
  destruct k as [|k]; cbn [nth_error] in Hk.
  - injection Hk as <-. rewrite Nat.add_0_r. apply orb_true_iff in H1. destruct H1 as [H1|H1]; [lia|].
    apply check_window_sound. exact H1.
  - replace (ni + S k)%nat with (S ni + k)%nat by lia. apply IH; assumption.
Qed.

Fixpoint total_fr (fs : list fr) : Z :=
  match fs with [] => 0 | f :: r => fr_len f + total_fr r end.

Lemma win_bytes_all s e fs :
  (forall f, In f fs -> s <= fr_arr f /\ fr_dlv f <= e) -> win_bytes s e fs = total_fr fs.
Proof.
  induction fs as [|f fs IH]; intros H; cbn [win_bytes total_fr fold_right]; [reflexivity|].
  fold (win_bytes s e fs). rewrite IH by (intros g Hg; apply H; right; exact Hg).
  destruct (H f (or_introl eq_refl)) as (H1 & H2).
  destruct ((s <=? fr_arr f) && (fr_dlv f <=? e)) eqn:W; lia.
Qed.

(* the property's form on a trace: first hand-over a, last delivery b, all bytes in between *)
Lemma window_total thr fs a b : window_ok thr fs -> In a fs -> In b fs ->
  (forall f, In f fs -> fr_arr a <= fr_arr f /\ fr_dlv f <= fr_dlv b) ->
  fr_arr a <= fr_dlv b ->
  total_fr fs * NS <= thr * (fr_dlv b - fr_arr a).
Proof.
  intros Hw Ha Hb Hall Hab. rewrite <- (win_bytes_all (fr_arr a) (fr_dlv b) fs Hall).
  apply Hw; assumption.
Qed.

(* ------------------------------------------------------------------ the validator *)

Definition TraceOK (c : cfg) (tr : list event) : Prop :=
  exists w ts,
    build c = Ok (w, ts) /\
    (* the taps report exactly the addresses (and MTUs) the model's allocator hands out ... *)
    tap_events tr = expected_taps w ts /\
    (* ... which are pairwise distinct per network *)
    NoDup (map tap_key ts) /\
    (* frames are identifiable and no frame that nobody sent is anywhere *)
    NoDup (tx_keys tr) /\
    (forall e, In e tr -> known_key (tx_keys tr) e = true) /\
    (* every send of the scenario *)
    (forall k s, nth_error (c_sends c) k = Some s -> send_ok w ts tr (Z.of_nat k) s) /\
    (* every throttled network: no window holds more bytes than its rate allows *)
    (forall k n, nth_error w k = Some n -> n_thr_base n <> 0 ->
        window_ok (thr_max n) (net_frames c ts tr k)).

Lemma validate_sound c tr : validate c tr = true -> TraceOK c tr.
Proof.
  unfold validate, TraceOK. intros H.
  destruct (build c) as [[w ts]| | |] eqn:B; try discriminate.
  apply andb_true_iff in H. destruct H as [H _].
  apply andb_true_iff in H. destruct H as [H Hthr].
  apply andb_true_iff in H. destruct H as [H Hs].
  apply andb_true_iff in H. destruct H as [Ht Hk].
  exists w, ts. split; [reflexivity|].
  split; [apply (list_eqb_eq event_eqb event_eqb_eq); exact Ht|].
  split; [apply (build_inv c w ts B)|].
  unfold check_keys in Hk.
  apply andb_true_iff in Hk. destruct Hk as [Hk _].
  apply andb_true_iff in Hk. destruct Hk as [Hk1 Hk2].
  split; [apply nodupb_NoDup; exact Hk1|].
  split; [rewrite forallb_forall in Hk2; exact Hk2|].
  split.
  - intros k s Hks. apply (check_sends_sound w ts tr (c_sends c) 0 Hs k s Hks).
  - intros k n Hkn Hn. apply (check_thr_sound c ts tr w 0%nat Hthr k n Hkn Hn).
Qed.

Lemma validate_code_zero c tr : validate_code c tr = 0 <-> validate c tr = true.
Proof.
  unfold validate_code, validate. destruct (build c) as [[w ts]| | |]; try (split; intros; [lia|discriminate]).
  destruct (check_taps w ts tr); cbn [negb andb]; [|split; intros; [lia|discriminate]].
  destruct (check_keys c tr); cbn [negb andb]; [|split; intros; [lia|discriminate]].
  destruct (check_sends_from w ts tr 0 (c_sends c)); cbn [negb andb]; [|split; intros; [lia|discriminate]].
  destruct (check_thr_from c ts tr 0 w); cbn [negb andb]; [|split; intros; [lia|discriminate]].
  destruct ((c_tick c <=? 0) || check_exact_from c ts tr 0 w); cbn [negb]; split; intros; try lia; try reflexivity; discriminate.
Qed.

(* reading the per-tap clauses with the routing theorems *)
Lemma mem_mac_In m l : mem_mac m l = true <-> exists T, In T l /\ t_mac T = m.
Proof.
  unfold mem_mac. rewrite existsb_exists. split; intros (T & H1 & H2); exists T; split; auto; lia.
Qed.

Lemma mem_mac_route_unicast n d m : net_inv n -> d <> BROADCAST_MAC -> 0 <= d ->
  mem_mac m (route n (dst_of d)) = true <-> (m = d /\ mem_mac d (n_taps n) = true).
Proof.
  intros Hinv Hd H0. unfold dst_of. destruct (d <? 0) eqn:E; [lia|].
  rewrite !mem_mac_In. split.
  - intros (T & HT & Hm). apply (route_unicast n d Hinv Hd) in HT. destruct HT as (HT & HmT).
    split; [lia|]. exists T. split; assumption.
  - intros (-> & T & HT & HmT). exists T. split; [|exact HmT].
    apply (route_unicast n d Hinv Hd). split; assumption.
Qed.

Lemma mem_mac_route_broadcast n d m : d < 0 \/ d = BROADCAST_MAC ->
  mem_mac m (route n (dst_of d)) = mem_mac m (n_taps n).
Proof.
  intros H. unfold dst_of. destruct (d <? 0) eqn:E; [reflexivity|].
  destruct H as [H| ->]; [lia|]. reflexivity.
Qed.
