(* C01 liveness (partial): evaluation of one loss-free exchange.
   TCB-level evaluation lemmas: what segments() emits and what segment_arrives does
   for the in-order data segment, its retransmitted copy, the ACK and the duplicate ACK. *)
From Elvis Require Import Model.Base Model.U32 Model.Tcb Model.TcpNet
  Proofs.U32Facts Proofs.TcbSafetyDefs Proofs.TcbSafetyBase Proofs.TcbSafetySnd Proofs.TcbSafetyRcv Proofs.TcbSafetyArr.
From Coq Require Import ZifyBool.
Local Open Scope Z_scope.
Ltac Zify.zify_post_hook ::= Z.div_mod_to_equations.

(* a header that carries ACK and no other control bit that matters *)
Definition ack_only (h : header) : Prop :=
  c_ack (h_ctl h) = true /\ c_rst (h_ctl h) = false /\ c_syn (h_ctl h) = false /\ c_fin (h_ctl h) = false.

Lemma ack_hdr_ack_only t : ack_only (ack_hdr t).
Proof. unfold ack_only. auto. Qed.

(* ---------- circular facts at distance n ---------- *)
Lemma mod_gt_refl_false x : mod_gt x x = false.
Proof. apply mod_lt_irrefl. Qed.
Lemma mod_leq_refl x : mod_leq x x = true.
Proof. unfold mod_leq. now rewrite Z.eqb_refl. Qed.

Lemma in_window_at_nxt t : u32 (rcv_nxt t) -> rcv_wnd t = 65535 -> is_in_rcv_window t (rcv_nxt t) = true.
Proof.
  intros Hu Hw. rewrite in_window_spec by assumption.
  rewrite wsub_spec, wadd_spec. unfold u32, M32 in *. lia.
Qed.

(* ---------- segment_arrives on an empty heap ---------- *)
Lemma heap_single seg : heap_push [] seg = [seg] /\ heap_pop [seg] = Some (seg, []) .
Proof. split; reflexivity. Qed.

Lemma arrives_loop_single f t seg t1 r :
  in_segs t = [seg] -> state_eqb (st t) SynSent = false ->
  mod_gt (h_seq (s_hdr seg)) (rcv_nxt t) = false ->
  process_segment (set_in_segs t []) seg = Ok (t1, r) -> should_delete r = false -> in_segs t1 = [] ->
  arrives_loop (Datatypes.S (Datatypes.S f)) t = Ok (t1, AOk).
Proof.
  intros Hs Hss Hgt Hp Hd Hs1. remember (Datatypes.S f) as f1 eqn:Ef.
  cbn [arrives_loop]. rewrite Hs. cbn [heap_peek]. rewrite Hss, Hgt. cbn [negb andb].
  change (heap_pop [seg]) with (Some (seg, @nil segment)). cbn iota beta.
  rewrite Hp, Hd. subst f1. cbn [arrives_loop]. rewrite Hs1. reflexivity.
Qed.

Lemma arrives_single t seg t1 r :
  in_segs t = [] -> state_eqb (st t) SynSent = false ->
  mod_gt (h_seq (s_hdr seg)) (rcv_nxt t) = false ->
  process_segment (set_in_segs t []) seg = Ok (t1, r) -> should_delete r = false -> in_segs t1 = [] ->
  segment_arrives t seg = Ok (t1, AOk).
Proof.
  intros Hs Hss Hgt Hp Hd Hs1. unfold segment_arrives. rewrite Hs.
  change (heap_push [] seg) with [seg]. cbn [length].
  eapply (arrives_loop_single 0 (set_in_segs t [seg]) seg); try eassumption; reflexivity.
Qed.

(* ---------- process_segment in ESTABLISHED for ACK-only headers ---------- *)
Lemma ps_est_noadvance t h text :
  st t = Established -> ack_only h ->
  is_seq_ok t (zlen text) (h_seq h) false false = true ->
  mod_leq (h_ack h) (snd_una t) = true ->
  process_segment t (mkSeg h text) =
  match ps_text t h text with
  | Ok t6 => Ok (t6, PSuccess) | Err e => Err e | Panic p => Panic p | OutOfFuel => OutOfFuel
  end.
Proof.
  intros Est (Ha & Hr & Hsy & Hf) Hok Hleq.
  unfold process_segment. tcb_simpl. rewrite Est, Hsy, Hf, Hok. cbn [negb].
  unfold ps_ack. rewrite Ha, Est. cbn [negb]. unfold ack_est. rewrite Hleq.
  unfold ps_rst. rewrite Hr. cbn [negb]. unfold ps_syn. rewrite Hsy. cbn [negb].
  rewrite Est. cbn [state_eqb].
  destruct (ps_text t h text); try reflexivity. now rewrite ps_fin_nofin.
Qed.

(* the in-order data segment *)
Lemma data_inorder t h text :
  st t = Established -> in_segs t = [] -> rcv_wnd t = 65535 -> u32 (rcv_nxt t) ->
  ack_only h -> h_seq h = rcv_nxt t -> mod_leq (h_ack h) (snd_una t) = true ->
  0 < zlen text -> zlen (in_text t) + zlen text <= 65535 ->
  let t1 := set_rcv_nxt (set_in_segs t []) (wadd (rcv_nxt t) (zlen text)) in
  let t2 := set_in_text t1 (in_text t ++ text) in
  segment_arrives t (mkSeg h text) = Ok (set_oneshot t2 (oneshot t ++ [ack_hdr t2]), AOk).
Proof.
  intros Est Hs Hw Hu Hh Hseq Hleq Hlen Hspace t1 t2.
  set (t0 := set_in_segs t []).
  assert (Hwin : is_in_rcv_window t0 (h_seq h) = true).
  { rewrite Hseq. apply (in_window_at_nxt t0); assumption. }
  eapply arrives_single; try assumption; try reflexivity.
  - now rewrite Est.
  - tcb_simpl. rewrite Hseq. apply mod_gt_refl_false.
  - fold t0. rewrite ps_est_noadvance; try assumption.
    + rewrite ps_text_unfold. replace (zlen text =? 0) with false by lia.
      change (st t0) with (st t). rewrite Est. unfold text_core.
      rewrite Hwin. cbn [orb negb].
      destruct Hh as (_ & _ & Hsy & _). rewrite Hsy. cbn [b2z].
      change (rcv_nxt t0) with (rcv_nxt t). change (rcv_wnd t0) with (rcv_wnd t).
      change (in_text t0) with (in_text t). rewrite Hseq, wsub_diag.
      rewrite Hw. pose proof (zlen_nonneg (in_text t)).
      replace (65535 <? zlen (in_text t)) with false by lia.
      replace (wsub 0 0) with 0 by reflexivity.
      replace (Z.min 0 (zlen text)) with 0 by lia.
      replace (zlen text - 0) with (zlen text) by lia.
      replace (Z.min (zlen text) (65535 - zlen (in_text t))) with (zlen text) by lia.
      cbn [Z.to_nat skipn]. unfold zlen at 3. rewrite Nat2Z.id, firstn_all.
      rewrite enqueue_plain by apply ack_hdr_plain. reflexivity.
    + unfold is_seq_ok. cbn [b2z]. rewrite !Z.add_0_r.
      replace (zlen text =? 0) with false by lia.
      change (rcv_wnd t0) with (rcv_wnd t). rewrite Hw. cbn [Z.eqb]. rewrite Hwin. reflexivity.
  - reflexivity.
Qed.

(* records have no eta: compare field by field *)
Lemma tcb_ext (a b : tcb) :
  lport a = lport b -> rport a = rport b -> mtu a = mtu b -> listen_init a = listen_init b ->
  st a = st b -> snd_una a = snd_una b -> snd_nxt a = snd_nxt b -> snd_wnd a = snd_wnd b ->
  snd_wl1 a = snd_wl1 b -> snd_wl2 a = snd_wl2 b -> snd_iss a = snd_iss b ->
  rcv_irs a = rcv_irs b -> rcv_nxt a = rcv_nxt b -> rcv_wnd a = rcv_wnd b ->
  out_text a = out_text b -> retx a = retx b -> oneshot a = oneshot b ->
  fin_pending a = fin_pending b -> in_segs a = in_segs b -> in_text a = in_text b ->
  rto a = rto b -> time_wait a = time_wait b -> a = b.
Proof. destruct a, b; cbn; intros; subst; reflexivity. Qed.

Ltac tcb_eq := apply tcb_ext; tcb_simpl; try reflexivity; try assumption.

(* the retransmitted copy of a segment that was already received in full *)
Lemma data_duplicate t h text :
  st t = Established -> in_segs t = [] -> rcv_wnd t = 65535 -> u32 (rcv_nxt t) ->
  ack_only h -> u32 (h_seq h) -> wadd (h_seq h) (zlen text) = rcv_nxt t ->
  mod_leq (h_ack h) (snd_una t) = true ->
  0 < zlen text <= 65535 -> zlen (in_text t) <= 65535 ->
  segment_arrives t (mkSeg h text) =
  Ok (set_oneshot (set_in_segs t []) (oneshot t ++ [ack_hdr t]), AOk).
Proof.
  intros Est Hs Hw Hu Hh Hsu Hseq Hleq Hlen Hspace.
  set (t0 := set_in_segs t []). set (n := zlen text) in *.
  assert (Hd : wsub (rcv_nxt t) (h_seq h) = n).
  { rewrite <- Hseq, wsub_spec, wadd_spec. unfold u32, M32 in *. lia. }
  assert (Hw2 : is_in_rcv_window t0 (wsub (wadd (h_seq h) n) 1) = true).
  { rewrite in_window_spec by (try assumption; apply wsub_u32).
    change (rcv_nxt t0) with (rcv_nxt t). rewrite Hseq.
    rewrite !wsub_spec, !wadd_spec. unfold u32, M32 in *. lia. }
  assert (Hw3 : is_in_rcv_window t0 (wadd (h_seq h) n) = true).
  { rewrite Hseq. apply (in_window_at_nxt t0); assumption. }
  eapply arrives_single; try assumption; try reflexivity.
  - now rewrite Est.
  - tcb_simpl. unfold mod_gt, mod_lt. rewrite Hd. unfold H31. lia.
  - fold t0. rewrite ps_est_noadvance; try assumption.
    + rewrite ps_text_unfold. fold n. replace (n =? 0) with false by lia.
      change (st t0) with (st t). rewrite Est. unfold text_core. fold n.
      rewrite Hw3, orb_true_r. cbn [negb].
      destruct Hh as (_ & _ & Hsy & _). rewrite Hsy. cbn [b2z].
      change (rcv_nxt t0) with (rcv_nxt t). change (rcv_wnd t0) with (rcv_wnd t).
      change (in_text t0) with (in_text t). rewrite Hd.
      replace (wsub n 0) with n by (rewrite wsub_spec; unfold M32; lia).
      rewrite Hw. pose proof (zlen_nonneg (in_text t)).
      replace (65535 <? zlen (in_text t)) with false by lia.
      replace (Z.min n n) with n by lia. replace (n - n) with 0 by lia.
      replace (Z.min 0 (65535 - zlen (in_text t))) with 0 by lia.
      cbn [Z.to_nat firstn]. rewrite enqueue_plain by apply ack_hdr_plain.
      f_equal. f_equal. subst t0. tcb_eq.
      * apply wadd_0_u32, Hu.
      * f_equal. f_equal. unfold ack_hdr. tcb_simpl. now rewrite (wadd_0_u32 _ Hu).
      * apply app_nil_r.
    + unfold is_seq_ok. cbn [b2z]. rewrite !Z.add_0_r. fold n.
      replace (n =? 0) with false by lia.
      change (rcv_wnd t0) with (rcv_wnd t). rewrite Hw. cbn [Z.eqb]. rewrite Hw2. apply orb_true_r.
  - reflexivity.
Qed.

(* the ACK that acknowledges the whole retransmission queue *)
Lemma ack_arrives t h tx n :
  st t = Established -> in_segs t = [] -> rcv_wnd t = 65535 -> u32 (rcv_nxt t) ->
  ack_only h -> h_seq h = rcv_nxt t -> h_ack h = snd_nxt t -> h_wnd h = 65535 -> snd_wnd t = 65535 ->
  u32 (snd_una t) -> snd_nxt t = wadd (snd_una t) n -> 0 < n < H31 ->
  retx t = [tx] -> h_seq (s_hdr (t_seg tx)) = snd_una t -> seg_len (t_seg tx) = n ->
  exists w1 w2,
  segment_arrives t (mkSeg h []) =
  Ok (set_snd_window (set_retx (set_snd_una (set_in_segs t []) (snd_nxt t)) []) 65535 w1 w2, AOk).
Proof.
  intros Est Hs Hw Hu (Ha & Hr & Hsy & Hf) Hseq Hack Hhw Hsw Huu Hnxt Hn Hretx Htxs Htxl.
  set (t0 := set_in_segs t []).
  assert (Hleq : mod_leq (h_ack h) (snd_una t) = false).
  { rewrite Hack, Hnxt. unfold mod_leq, mod_lt. rewrite wsub_spec, wadd_spec. unfold u32, M32, H31 in *. lia. }
  assert (Hgt : mod_gt (h_ack h) (snd_nxt t) = false).
  { rewrite Hack. apply mod_gt_refl_false. }
  set (t1 := remove_acked (set_snd_una t0 (h_ack h)) (h_ack h)).
  assert (Hret1 : retx t1 = []).
  { subst t1 t0. unfold remove_acked; tcb_simpl. rewrite Hretx. cbn [filter].
    rewrite Htxs, Htxl, Hack, Hnxt, mod_lt_irrefl. reflexivity. }
  set (cond := mod_lt (snd_wl1 t1) (h_seq h) || ((snd_wl1 t1 =? h_seq h) && mod_leq (snd_wl2 t1) (h_ack h))).
  set (t2 := if cond then set_snd_window t1 (h_wnd h) (h_seq h) (h_ack h) else t1).
  assert (Hproc : process_segment t0 (mkSeg h []) = Ok (t2, PSuccess)).
  { unfold process_segment. tcb_simpl. change (st t0) with (st t). rewrite Est, Hsy, Hf.
    assert (Hok : is_seq_ok t0 (zlen (@nil Z)) (h_seq h) false false = true).
    { unfold is_seq_ok. cbn [b2z zlen length]. change (Z.of_nat 0 + 0 + 0 =? 0) with true. cbn iota.
      change (rcv_wnd t0) with (rcv_wnd t). rewrite Hw. cbn [Z.eqb].
      rewrite Hseq. apply (in_window_at_nxt t0); assumption. }
    rewrite Hok. cbn [negb].
    unfold ps_ack. rewrite Ha. change (st t0) with (st t). rewrite Est. cbn [negb]. unfold ack_est.
    change (snd_una t0) with (snd_una t). change (snd_nxt t0) with (snd_nxt t).
    rewrite Hleq, Hgt. fold t1. fold cond. fold t2.
    assert (Est2 : st t2 = Established) by (subst t2; destruct cond; exact Est).
    unfold ps_rst. rewrite Hr. cbn [negb]. unfold ps_syn. rewrite Hsy. cbn [negb].
    rewrite Est2. cbn [state_eqb]. rewrite ps_text_nil, ps_fin_nofin by exact Hf. reflexivity. }
  exists (snd_wl1 t2), (snd_wl2 t2).
  eapply arrives_single; try assumption; try reflexivity.
  - now rewrite Est.
  - tcb_simpl. rewrite Hseq. apply mod_gt_refl_false.
  - fold t0. rewrite Hproc. f_equal. f_equal.
    subst t2. destruct cond; tcb_eq; subst t1 t0; unfold remove_acked; tcb_simpl; auto.
    all: try (rewrite Hretx; cbn [filter]; rewrite Htxs, Htxl, Hack, Hnxt, mod_lt_irrefl; reflexivity).
  - subst t2. destruct cond; reflexivity.
Qed.

(* a duplicate ACK (or any ACK-only segment that acknowledges nothing new) *)
Lemma ack_duplicate t h :
  st t = Established -> in_segs t = [] -> rcv_wnd t = 65535 -> u32 (rcv_nxt t) ->
  ack_only h -> h_seq h = rcv_nxt t -> mod_leq (h_ack h) (snd_una t) = true ->
  segment_arrives t (mkSeg h []) = Ok (set_in_segs t [], AOk).
Proof.
  intros Est Hs Hw Hu Hh Hseq Hleq. set (t0 := set_in_segs t []).
  eapply arrives_single; try assumption; try reflexivity.
  - now rewrite Est.
  - tcb_simpl. rewrite Hseq. apply mod_gt_refl_false.
  - fold t0. rewrite ps_est_noadvance; try assumption.
    + rewrite ps_text_nil. reflexivity.
    + unfold is_seq_ok. cbn [b2z zlen length]. change (Z.of_nat 0 + 0 + 0 =? 0) with true. cbn iota.
      change (rcv_wnd t0) with (rcv_wnd t). rewrite Hw. cbn [Z.eqb].
      rewrite Hseq. apply (in_window_at_nxt t0); assumption.
  - reflexivity.
Qed.

(* ---------- segments() ---------- *)
Lemma segments_nothing_new t :
  out_text t = [] -> fin_pending t = false -> segmentizes (st t) = true -> 50 <= mtu t ->
  tcb_segments t =
  Ok (let t2 := set_retx (set_oneshot t []) (map (fun tx => mkTx (t_seg tx) false) (retx t)) in
      let out := map (fun h => mkSeg h []) (oneshot t) ++ map t_seg (filter t_needs (retx t)) in
      (match map t_seg (filter t_needs (retx t)) with [] => t2 | _ => set_rto t2 RTO end, out)).
Proof.
  intros Ho Hf Hs Hm. unfold tcb_segments. tcb_simpl. rewrite Hs. unfold SPACE_FOR_HEADERS.
  replace (mtu t <? 50) with false by lia. rewrite Ho. cbn [length seg_loop].
  change (zlen (@nil Z)) with 0.
  match goal with |- context [Z.min ?a 0] => replace (Z.min a 0) with 0 by lia end.
  cbn [Z.eqb]. unfold queue_pending_fin. tcb_simpl. rewrite Hf. cbn [andb]. reflexivity.
Qed.

Lemma segments_one_write t bytes :
  st t = Established -> oneshot t = [] -> retx t = [] -> out_text t = bytes -> fin_pending t = false ->
  snd_wnd t = 65535 -> snd_una t = snd_nxt t -> 50 <= mtu t <= 65535 ->
  0 < zlen bytes <= mtu t - 50 ->
  let seg := mkSeg (hb_wnd (hb_ack (hb t (snd_nxt t)) (rcv_nxt t)) (rcv_wnd t)) bytes in
  tcb_segments t =
  Ok (set_rto (set_retx (set_snd_nxt (set_out_text (set_oneshot t []) []) (wadd (snd_nxt t) (zlen bytes)))
                        [mkTx seg false]) RTO, [seg]).
Proof.
  intros Est Hone Hretx Hout Hf Hsw Hun Hm Hn seg.
  unfold tcb_segments. tcb_simpl. rewrite Est, Hone. cbn [segmentizes map]. unfold SPACE_FOR_HEADERS.
  replace (mtu t <? 50) with false by lia. rewrite Hout.
  assert (Elen : exists k, length bytes = Datatypes.S k).
  { destruct bytes; [cbn in Hn; lia|eexists; reflexivity]. }
  destruct Elen as [k Elen]. rewrite Elen. remember (Datatypes.S k) as f1 eqn:Ef1.
  cbn [seg_loop]. tcb_simpl. rewrite Hsw, Hun, wsub_diag, Hout.
  replace (Z.min (Z.min (mtu t - 50) (Z.max 0 (65535 - 0))) (zlen bytes)) with (zlen bytes) by lia.
  replace (zlen bytes =? 0) with false by lia.
  replace (65535 <? zlen bytes + 20) with false by lia.
  unfold zlen at 1 2 3. rewrite Nat2Z.id, firstn_all, skipn_all.
  subst f1. cbn [seg_loop]. fold (zlen bytes). replace (zlen bytes - zlen bytes) with 0 by lia.
  match goal with |- context [Z.min ?a 0] => replace (Z.min a 0) with 0 by lia end.
  cbn [Z.eqb]. unfold queue_pending_fin. tcb_simpl. rewrite Hf. cbn [andb].
  rewrite Hretx. cbn [app filter map t_needs t_seg]. reflexivity.
Qed.

Lemma advance_101 t : rto t = RTO -> time_wait t = None ->
  advance_time t 101 = (set_retx (set_rto t RTO) (map (fun tx => mkTx (t_seg tx) true) (retx t)), TIgnore).
Proof.
  intros Hr Ht. unfold advance_time. rewrite Hr. change (RTO <? 101) with true. cbn iota.
  tcb_simpl. rewrite Ht. reflexivity.
Qed.
