(* process_segment, the arrival loop, segment_arrives and arrives_listen
   preserve the endpoint invariant. *)
From Elvis Require Import Model.Base Model.U32 Model.Tcb Model.TcpNet
  Proofs.U32Facts Proofs.TcbSafetyDefs Proofs.TcbSafetyBase Proofs.TcbSafetySnd Proofs.TcbSafetyRcv.
From Coq Require Import ZifyBool.
Local Open Scope Z_scope.
Ltac Zify.zify_post_hook ::= Z.div_mod_to_equations.

Section Proc.
  Variables (iss m : Z) (S : list Z) (pv : pview) (D : list Z).
  Hypothesis Hiss : u32 iss.
  Hypothesis HS : zlen S < SEQ_BOUND.
  Hypothesis Hwf : pv_wf pv.

  (* what every outcome of processing must satisfy, relative to the state t before *)
  Definition Good (t t' : tcb) : Prop :=
    SndInv iss m S t' /\ RcvInv pv D t' /\ my_pv iss S t' = my_pv iss S t /\ in_segs t' = in_segs t.

  Lemma good_stage t t' :
    SndInv iss m S t -> RcvInv pv D t -> stage_ok t t' ->
    fin_consumed (st t') = fin_consumed (st t) ->
    state_eqb (st t') SynSent = state_eqb (st t) SynSent -> Good t t'.
  Proof.
    intros HI HR Hst H1 H2. unfold Good. splits.
    - eapply stage_ok_snd; eassumption.
    - eapply RcvInv_same; [|exact HR]. apply stage_ok_rcv_same; assumption.
    - apply snd_frame_pv. apply Hst.
    - apply Hst.
  Qed.

  Lemma good_rstage t t' :
    SndInv iss m S t -> rstage_ok t t' -> RcvInv pv D t' -> Good t t'.
  Proof.
    intros HI Hst HR. unfold Good. splits.
    - eapply rstage_ok_snd; eassumption.
    - exact HR.
    - apply snd_frame_pv. apply Hst.
    - apply Hst.
  Qed.

  Lemma good_trans a b c : Good a b -> my_pv iss S c = my_pv iss S b -> in_segs c = in_segs b ->
    SndInv iss m S c -> RcvInv pv D c -> Good a c.
  Proof. intros (A1 & A2 & A3 & A4) E1 E2 HI HR. unfold Good. splits; congruence. Qed.

  Lemma good_stage_trans t t2 t3 :
    Good t t2 -> stage_ok t2 t3 -> fin_consumed (st t3) = fin_consumed (st t2) ->
    state_eqb (st t3) SynSent = state_eqb (st t2) SynSent -> Good t t3.
  Proof.
    intros (A1 & A2 & A3 & A4) Hst H1 H2.
    destruct (good_stage t2 t3 A1 A2 Hst H1 H2) as (B1 & B2 & B3 & B4).
    unfold Good. splits; congruence.
  Qed.

  Lemma good_rstage_trans t t2 t3 :
    Good t t2 -> rstage_ok t2 t3 -> RcvInv pv D t3 -> Good t t3.
  Proof.
    intros (A1 & A2 & A3 & A4) Hst HR.
    destruct (good_rstage t2 t3 A1 Hst HR) as (B1 & B2 & B3 & B4).
    unfold Good. splits; congruence.
  Qed.

  Lemma enqueue_synack t x y w :
    enqueue t (hb_wnd (hb_ack (hb_syn (hb t x)) y) w) =
    set_retx t (retx t ++ [mkTx (mkSeg (hb_wnd (hb_ack (hb_syn (hb t x)) y) w) []) true]).
  Proof. reflexivity. Qed.

  Lemma wsub_diag x : wsub x x = 0.
  Proof. rewrite wsub_spec, Z.sub_diag. reflexivity. Qed.

  (* SYN processed in SYN-SENT: the receive variables are initialised from the peer's ISS *)
  Lemma syn_in_synsent t h :
    SndInv iss m S t -> RcvInv pv D t -> st t = SynSent ->
    h_seq h = pv_iss pv ->
    let t1 := set_snd_window (set_rcv_nxt (set_rcv_irs t (h_seq h)) (wadd (h_seq h) 1))
                             (h_wnd h) (h_seq h) (h_ack h) in
    (let t2 := set_st t1 Established in Good t (enqueue t2 (ack_hdr t2))) /\
    (let t2 := set_st t1 SynReceived in
     Good t (enqueue t2 (hb_wnd (hb_ack (hb_syn (hb t2 (snd_iss t2))) (rcv_nxt t2)) (rcv_wnd t2)))).
  Proof.
    intros HI (R1 & R2 & R3) Est Hseq t1.
    rewrite Est in R3. cbn [state_eqb] in R3. destruct R3 as [R3 R4].
    destruct Hwf as (Hu & Hl & Hb & Hfz).
    assert (HR : forall t', in_segs t' = in_segs t -> in_text t' = in_text t ->
              rcv_irs t' = h_seq h -> rcv_nxt t' = wadd (h_seq h) 1 ->
              (st t' = Established \/ st t' = SynReceived) -> RcvInv pv D t').
    { intros t' E1 E2 E3 E4 E5. unfold RcvInv, rcv_n. rewrite E1, E2, E3, E4.
      assert (Hst : state_eqb (st t') SynSent = false /\ fin_consumed (st t') = false)
        by (destruct E5 as [-> | ->]; split; reflexivity).
      destruct Hst as [-> ->]. cbn [b2z]. unfold pv_base. rewrite Hseq, wsub_diag, R3, R4.
      cbn [Z.to_nat firstn app]. splits; auto; try lia; try discriminate. apply wadd_u32. }
    assert (Hcl : closed_state (st t) = false) by (rewrite Est; reflexivity).
    split; intros t2.
    - rewrite enqueue_plain by apply ack_hdr_plain.
      apply good_rstage; [assumption| |apply HR; auto].
      subst t2 t1. unfold rstage_ok, snd_frame; tcb_simpl. rewrite Hcl. splits; auto.
      intros Ho. apply Forall_plain_snoc; [assumption|apply ack_hdr_plain].
    - rewrite enqueue_synack.
      assert (F : snd_frame t (set_retx t2 (retx t2 ++
               [mkTx (mkSeg (hb_wnd (hb_ack (hb_syn (hb t2 (snd_iss t2))) (rcv_nxt t2)) (rcv_wnd t2)) []) true]))).
      { subst t2 t1. unfold snd_frame; tcb_simpl. rewrite Hcl. splits; auto. }
      unfold Good. splits.
      + eapply SndInv_frame; [exact F|exact HI| |].
        * subst t2 t1. tcb_simpl. rewrite map_app. apply Forall_app. split; [apply HI|].
          cbn [map]. constructor; [|constructor]. tcb_simpl.
          apply syn_seg_inv; [reflexivity|]. cbn. apply HI.
        * subst t2 t1. tcb_simpl. apply HI.
      + apply HR; auto.
      + apply snd_frame_pv, F.
      + reflexivity.
  Qed.

  Lemma process_segment_inv t seg :
    SndInv iss m S t -> RcvInv pv D t -> seg_inv pv seg ->
    (state_eqb (st t) SynSent = false -> mod_gt (h_seq (s_hdr seg)) (rcv_nxt t) = false) ->
    exists t' r, process_segment t seg = Ok (t', r) /\ Good t t'.
  Proof.
    intros HI HR Hseg Hloop. destruct seg as [h text]. tcb_simpl.
    unfold process_segment. tcb_simpl.
    assert (Hw : rcv_wnd t = 65535) by apply HI.
    set (seq_bad := match st t with SynSent => false | _ => _ end).
    destruct seq_bad eqn:Ebad.
    { eexists _, _. split; [reflexivity|].
      apply good_stage; [exact HI|exact HR|apply stage_enqueue, ack_hdr_plain| |]; now rewrite enqueue_st. }
    destruct (ps_ack t h) as [t2 r2] eqn:Eack.
    destruct (ps_ack_stage _ _ _ _ Eack) as [St2 Rel].
    destruct (ack_st_rel_props _ _ Rel) as (P1 & P2 & P3).
    assert (G2 : Good t t2) by (apply good_stage; assumption).
    destruct r2 as [r|]; [exists t2, r; auto|].
    destruct (ps_rst t2 h) as [r|]; [exists t2, r; auto|].
    destruct G2 as (HI2 & HR2 & Epv2 & Eseg2).
    assert (Hw2 : rcv_wnd t2 = 65535) by apply HI2.
    unfold ps_syn. destruct Hseg as (T & Sy & Fi). tcb_simpl.
    destruct (c_syn (h_ctl h)) eqn:Esyn; cbn [negb].
    - (* SYN *)
      destruct (Sy eq_refl) as (Etext & Efin & Eseq). subst text.
      assert (G2 : Good t t2) by (unfold Good; auto).
      destruct (st t2) eqn:Est2;
        try (eexists _, _; split; [reflexivity|];
             apply (good_stage_trans t t2); [exact G2|apply stage_enqueue, ack_hdr_plain| |];
             now rewrite enqueue_st).
      destruct (syn_in_synsent t2 h HI2 HR2 Est2 Eseq) as [GE GS].
      cbv zeta in GE, GS.
      match goal with |- context [if ?c then _ else _] => destruct c end.
      + (* -> Established, continue: no text, no FIN *)
        rewrite enqueue_st. cbn [set_st st state_eqb]. rewrite ps_text_nil.
        rewrite ps_fin_nofin by exact Efin.
        eexists _, _. split; [reflexivity|].
        destruct GE as (A1 & A2 & A3 & A4). unfold Good.
        splits; [exact A1|exact A2|etransitivity; [exact A3|exact Epv2]|etransitivity; [exact A4|exact Eseg2]].
      + eexists _, _. split; [reflexivity|].
        destruct GS as (A1 & A2 & A3 & A4). unfold Good.
        splits; [exact A1|exact A2|etransitivity; [exact A3|exact Epv2]|etransitivity; [exact A4|exact Eseg2]].
    - (* no SYN *)
      destruct (state_eqb (st t2) SynSent) eqn:Ess2.
      { exists t2, PDiscard. split; [reflexivity|]. unfold Good; auto. }
      assert (Hss : state_eqb (st t) SynSent = false) by congruence.
      specialize (Hloop Hss).
      assert (Hfacts : text <> [] -> fin_consumed (st t2) = false -> window_facts t2 (h_seq h) (zlen text)).
      { intros Hne Hfc2. destruct (T Hne) as (_ & Tfin & _ & _ & _).
        apply (window_facts_ext t t2); [apply St2|apply St2|].
        split; [exact Hloop|].
        assert (Hlen1 : 0 < zlen text).
        { destruct text; [congruence|]. rewrite zlen_cons. pose proof (zlen_nonneg text). lia. }
        pose proof (seq_ok_facts t (zlen text) (h_seq h) false Hw) as Hq. cbn [b2z] in Hq.
        rewrite Z.add_0_r in Hq. apply Hq; [lia|].
        rewrite P1 in Hfc2. subst seq_bad. rewrite ?Esyn, ?Tfin in Ebad.
        destruct (st t); try discriminate Hss; try discriminate Hfc2;
          (destruct (is_seq_ok _ _ _ _ _); [reflexivity|discriminate Ebad]). }
      assert (Hseg' : seg_inv pv (mkSeg h text)).
      { unfold seg_inv; tcb_simpl. rewrite Esyn. exact (conj T (conj Sy Fi)). }
      destruct (ps_text_inv pv D t2 h text Hwf HR2 Ess2 Hw2 Hseg' Hfacts)
        as (t6 & E6 & R6 & S6 & St6 & Enil).
      rewrite E6.
      destruct (c_fin (h_ctl h)) eqn:Efin.
      + destruct (Fi eq_refl) as (Etext & _ & Hfr & Hfseq). subst text.
        rewrite (Enil eq_refl). change (zlen (@nil Z)) with 0.
        destruct (ps_fin_inv pv D t2 h Hwf HR2 Ess2 Efin Hfr Hfseq) as [R7 S7].
        { intros _. rewrite (proj1 (proj2 (proj2 (proj2 (proj2 St2))))). exact Hloop. }
        eexists _, _. split; [reflexivity|].
        apply (good_rstage_trans t t2); [unfold Good; auto|exact S7|exact R7].
      + rewrite ps_fin_nofin by exact Efin.
        eexists _, _. split; [reflexivity|].
        apply (good_rstage_trans t t2); [unfold Good; auto|exact S6|exact R6].
  Qed.

  (* ---------- the loop ---------- *)
  Lemma arrives_loop_inv : forall fuel t,
    SndInv iss m S t -> RcvInv pv D t -> (length (in_segs t) < fuel)%nat ->
    exists t' r, arrives_loop fuel t = Ok (t', r) /\
      SndInv iss m S t' /\ RcvInv pv D t' /\ my_pv iss S t' = my_pv iss S t.
  Proof.
    induction fuel as [|f IH]; intros t HI HR Hfuel; [lia|].
    cbn [arrives_loop].
    destruct (heap_peek (in_segs t)) as [top|] eqn:Epeek; [|exists t, AOk; auto].
    destruct (negb (state_eqb (st t) SynSent) && mod_gt (h_seq (s_hdr top)) (rcv_nxt t)) eqn:Estop;
      [exists t, AOk; auto|].
    destruct (heap_pop (in_segs t)) as [[s rest]|] eqn:Epop;
      [|exfalso; eapply heap_pop_nonempty; eassumption].
    destruct HR as (R1 & R2 & R3).
    destruct (heap_pop_Forall _ _ _ _ R1 Epop) as [Hs Hrest].
    pose proof (heap_pop_length _ _ _ Epop) as Hlen.
    set (t0 := set_in_segs t rest).
    assert (HI0 : SndInv iss m S t0).
    { eapply SndInv_frame; [|exact HI| |]; subst t0; [unfold snd_frame; tcb_simpl; auto 10| |]; tcb_simpl; apply HI. }
    assert (HR0 : RcvInv pv D t0).
    { subst t0. unfold RcvInv, rcv_n in *. tcb_simpl. auto. }
    assert (Etop : s = top).
    { unfold heap_peek, heap_pop in *. destruct (in_segs t) as [|y r]; [discriminate|].
      injection Epeek as ->.
      destruct (rev (top :: r)) as [|last rinit] eqn:Er; [discriminate|].
      destruct (rev rinit) as [|top' r'] eqn:Er2.
      - injection Epop as <- _.
        apply (f_equal (@rev _)) in Er. rewrite rev_involutive in Er. cbn [rev] in Er.
        apply (f_equal (@rev _)) in Er2. rewrite rev_involutive in Er2. cbn [rev] in Er2.
        subst rinit. cbn [rev app] in Er. congruence.
      - destruct (sift_down _ _ _ _). injection Epop as <- _.
        apply (f_equal (@rev _)) in Er. rewrite rev_involutive in Er. cbn [rev] in Er.
        rewrite Er2 in Er. cbn [app] in Er. congruence. }
    subst s.
    destruct (process_segment_inv t0 top HI0 HR0 Hs) as (t1 & r & E1 & G1).
    { intros Hss. subst t0; tcb_simpl. rewrite Hss in Estop. cbn [negb andb] in Estop. exact Estop. }
    rewrite E1. destruct G1 as (A1 & A2 & A3 & A4).
    assert (Epv0 : my_pv iss S t0 = my_pv iss S t) by reflexivity.
    destruct (should_delete r).
    - exists t1, AClose. splits; auto; congruence.
    - destruct (IH t1 A1 A2) as (t' & r' & E' & B1 & B2 & B3).
      { rewrite A4. subst t0; tcb_simpl. lia. }
      exists t', r'. splits; auto; congruence.
  Qed.

  Lemma segment_arrives_inv t seg :
    SndInv iss m S t -> RcvInv pv D t -> seg_inv pv seg ->
    exists t' r, segment_arrives t seg = Ok (t', r) /\
      SndInv iss m S t' /\ RcvInv pv D t' /\ my_pv iss S t' = my_pv iss S t.
  Proof.
    intros HI HR Hseg. unfold segment_arrives.
    set (t0 := set_in_segs t _).
    assert (HI0 : SndInv iss m S t0).
    { eapply SndInv_frame; [|exact HI| |]; subst t0; [unfold snd_frame; tcb_simpl; auto 10| |]; tcb_simpl; apply HI. }
    assert (HR0 : RcvInv pv D t0).
    { destruct HR as (R1 & R2 & R3). subst t0. unfold RcvInv, rcv_n in *. tcb_simpl.
      split; [apply heap_push_Forall; assumption|auto]. }
    destruct (arrives_loop_inv (Datatypes.S (length (heap_push (in_segs t) seg))) t0 HI0 HR0)
      as (t' & r & E & A1 & A2 & A3).
    { subst t0; tcb_simpl. lia. }
    exists t', r. splits; auto.
  Qed.
End Proc.

(* ---------- arrives_listen: the passive open ---------- *)
Lemma arrives_listen_inv iss m pv seg :
  u32 iss -> pv_wf pv -> seg_inv pv seg ->
  match arrives_listen seg iss m with
  | LNone => True
  | LResponse h => plain_hdr h
  | LTcb t => SndInv iss m [] t /\ RcvInv pv [] t /\ my_pv iss [] t = mkPv iss [] 0 false
  end.
Proof.
  intros Hu (Hpu & Hl & Hb & Hfz) (T & Sy & Fi). unfold arrives_listen.
  destruct (c_rst _); [exact I|].
  destruct (c_ack _); [split; reflexivity|].
  destruct (c_syn (h_ctl (s_hdr seg))) eqn:Esyn; [|exact I].
  destruct (Sy eq_refl) as (Etext & Efin & Eseq).
  set (h := s_hdr seg) in *.
  set (t := mkTcb _ _ _ _ _ _ _ _ _ _ _ _ _ _ _ _ _ _ _ _ _ _).
  rewrite (enqueue_synack t). rewrite Etext.
  set (hs := hb_wnd _ _). set (h' := mkHdr _ _ _ _ _ _ _).
  splits.
  - unfold SndInv, my_pv, data_sent, finq. subst t. tcb_simpl. cbn [closed_state andb b2z zlen length].
    change (Z.of_nat 0) with 0. cbn [Z.sub Z.to_nat skipn Z.add].
    splits; auto; try lia; try discriminate.
    + rewrite wadd_wadd. reflexivity.
    + cbn [app map]. constructor; [|constructor]. tcb_simpl.
      apply syn_seg_inv; reflexivity.
  - unfold RcvInv, rcv_n. subst t. tcb_simpl. cbn [state_eqb fin_consumed b2z app].
    splits; auto; try discriminate.
    + apply heap_push_Forall; [constructor|].
      subst h'. unfold seg_inv; tcb_simpl. splits; intros; splits; congruence.
    + apply wadd_u32.
    + unfold pv_base. fold h. rewrite Eseq, wsub_diag. lia.
    + unfold pv_base. fold h. rewrite Eseq, wsub_diag. lia.
    + unfold pv_base. fold h. rewrite Eseq, wsub_diag. reflexivity.
  - reflexivity.
Qed.
