(* C01 liveness: out-of-order arrival, TCB level.  Segments beyond RCV.NXT are parked in the
   reassembly heap; old data is acknowledged while segments are parked; when the missing segment
   arrives the heap is drained in sequence order (uses the heap-order theorems of TcbHeap.v). *)
From Elvis Require Import Model.Base Model.U32 Model.Tcb Model.TcpNet
  Proofs.U32Facts Proofs.TcbSafetyDefs Proofs.TcbSafetyBase Proofs.TcbSafetySnd Proofs.TcbSafetyRcv
  Proofs.TcbSafetyArr Proofs.TcbLive Proofs.TcbLiveHs Proofs.TcbLiveWin Proofs.TcbLiveLoss Proofs.TcbLiveClose Proofs.TcbLiveClose2 Proofs.TcbHeap.
From Coq Require Import ZifyBool Permutation.
Local Open Scope Z_scope.
Ltac Zify.zify_post_hook ::= Z.div_mod_to_equations.

(* ---------- process_segment for data, whatever is in the heap ---------- *)
Definition pstep_in (t : tcb) (s : segment) : tcb :=
  let t1 := set_rcv_nxt t (wadd (rcv_nxt t) (zlen (s_text s))) in
  let t2 := set_in_text t1 (in_text t ++ s_text s) in
  set_oneshot t2 (oneshot t ++ [ack_hdr t2]).
Definition pstep_old (t : tcb) : tcb := set_oneshot t (oneshot t ++ [ack_hdr t]).

Lemma process_inorder t h text :
  st t = Established -> rcv_wnd t = 65535 -> u32 (rcv_nxt t) ->
  ack_only h -> h_seq h = rcv_nxt t -> mod_leq (h_ack h) (snd_una t) = true ->
  0 < zlen text -> zlen (in_text t) + zlen text <= 65535 ->
  process_segment t (mkSeg h text) = Ok (pstep_in t (mkSeg h text), PSuccess).
Proof.
  intros Est Hw Hu Hh Hseq Hleq Hlen Hspace.
  assert (Hwin : is_in_rcv_window t (h_seq h) = true).
  { rewrite Hseq. apply (in_window_at_nxt t); assumption. }
  rewrite ps_est_noadvance; try assumption.
  - rewrite ps_text_unfold. replace (zlen text =? 0) with false by lia.
    rewrite Est. unfold text_core. rewrite Hwin. cbn [orb negb].
    destruct Hh as (_ & _ & Hsy & _). rewrite Hsy. cbn [b2z].
    rewrite Hseq, wsub_diag. rewrite Hw. pose proof (zlen_nonneg (in_text t)).
    replace (65535 <? zlen (in_text t)) with false by lia.
    replace (wsub 0 0) with 0 by reflexivity.
    replace (Z.min 0 (zlen text)) with 0 by lia.
    replace (zlen text - 0) with (zlen text) by lia.
    replace (Z.min (zlen text) (65535 - zlen (in_text t))) with (zlen text) by lia.
    cbn [Z.to_nat skipn]. unfold zlen at 3. rewrite Nat2Z.id, firstn_all.
    rewrite enqueue_plain by apply ack_hdr_plain. reflexivity.
  - unfold is_seq_ok. cbn [b2z]. rewrite !Z.add_0_r.
    replace (zlen text =? 0) with false by lia. rewrite Hw. cbn [Z.eqb]. rewrite Hwin. reflexivity.
Qed.

Lemma process_old t h text d :
  st t = Established -> rcv_wnd t = 65535 -> u32 (rcv_nxt t) ->
  ack_only h -> u32 (h_seq h) -> 0 <= d -> wadd (h_seq h) (zlen text + d) = rcv_nxt t ->
  mod_leq (h_ack h) (snd_una t) = true ->
  0 < zlen text -> zlen text + d <= 65535 -> zlen (in_text t) <= 65535 ->
  exists r, process_segment t (mkSeg h text) = Ok (pstep_old t, r) /\ should_delete r = false.
Proof.
  intros Est Hw Hu Hh Hsu Hd Hseq Hleq Hlen Hroom Hspace. set (n := zlen text) in *.
  destruct (Z.eq_dec d 0) as [-> | Hd0].
  - rewrite Z.add_0_r in Hseq. exists PSuccess. split; [|reflexivity].
    assert (Hdd : wsub (rcv_nxt t) (h_seq h) = n).
    { rewrite <- Hseq, wsub_spec, wadd_spec. unfold u32, M32 in *. lia. }
    assert (Hw2 : is_in_rcv_window t (wsub (wadd (h_seq h) n) 1) = true).
    { rewrite in_window_spec by (try assumption; apply wsub_u32).
      rewrite Hseq. rewrite !wsub_spec, !wadd_spec. unfold u32, M32 in *. lia. }
    assert (Hw3 : is_in_rcv_window t (wadd (h_seq h) n) = true).
    { rewrite Hseq. apply (in_window_at_nxt t); assumption. }
    rewrite ps_est_noadvance; try assumption.
    + rewrite ps_text_unfold. fold n. replace (n =? 0) with false by lia.
      rewrite Est. unfold text_core. fold n. rewrite Hw3, orb_true_r. cbn [negb].
      destruct Hh as (_ & _ & Hsy & _). rewrite Hsy. cbn [b2z]. rewrite Hdd.
      replace (wsub n 0) with n by (rewrite wsub_spec; unfold M32; lia).
      rewrite Hw. pose proof (zlen_nonneg (in_text t)).
      replace (65535 <? zlen (in_text t)) with false by lia.
      replace (Z.min n n) with n by lia. replace (n - n) with 0 by lia.
      replace (Z.min 0 (65535 - zlen (in_text t))) with 0 by lia.
      cbn [Z.to_nat firstn]. rewrite enqueue_plain by apply ack_hdr_plain.
      f_equal. f_equal. unfold pstep_old. tcb_eq.
      * apply wadd_0_u32, Hu.
      * f_equal. f_equal. unfold ack_hdr. tcb_simpl. now rewrite (wadd_0_u32 _ Hu).
      * apply app_nil_r.
    + unfold is_seq_ok. cbn [b2z]. rewrite !Z.add_0_r. fold n.
      replace (n =? 0) with false by lia. rewrite Hw. cbn [Z.eqb]. rewrite Hw2. apply orb_true_r.
  - exists PDiscard. split; [|reflexivity].
    unfold process_segment. tcb_simpl. rewrite Est.
    destruct Hh as (Ha & Hr & Hsy & Hf). rewrite Hsy, Hf.
    assert (Hbad : is_seq_ok t n (h_seq h) false false = false).
    { unfold is_seq_ok. cbn [b2z]. rewrite !Z.add_0_r. replace (n =? 0) with false by lia.
      rewrite Hw. cbn [Z.eqb].
      rewrite !in_window_spec by (try assumption; try apply wsub_u32; try apply wadd_u32).
      rewrite <- Hseq. rewrite !wsub_spec, !wadd_spec. unfold u32, M32 in *. lia. }
    fold n. rewrite Hbad. cbn [negb].
    rewrite enqueue_plain by apply ack_hdr_plain. reflexivity.
Qed.

(* ---------- peek is what pop returns ---------- *)
Lemma heap_peek_pop v m rest : heap_pop v = Some (m, rest) -> heap_peek v = Some m.
Proof.
  unfold heap_peek, heap_pop. destruct v as [|y r]; [discriminate|].
  destruct (rev (y :: r)) as [|last rinit] eqn:Er; [discriminate|].
  destruct (rev rinit) as [|top' r'] eqn:Er2.
  - intros [= <- _].
    apply (f_equal (@rev _)) in Er. rewrite rev_involutive in Er. cbn [rev] in Er.
    apply (f_equal (@rev _)) in Er2. rewrite rev_involutive in Er2. cbn [rev] in Er2.
    subst rinit. cbn [rev app] in Er. congruence.
  - destruct (sift_down _ _ _ _). intros [= <- _].
    apply (f_equal (@rev _)) in Er. rewrite rev_involutive in Er. cbn [rev] in Er.
    rewrite Er2 in Er. cbn [app] in Er. congruence.
Qed.

Lemma heap_pop_some v : v <> [] -> exists m rest, heap_pop v = Some (m, rest).
Proof.
  intros H. destruct (heap_pop v) as [[m rest]|] eqn:E; [eauto|]. apply heap_pop_none in E. congruence.
Qed.

(* ---------- keys relative to RCV.NXT ---------- *)
(* segment s lies n bytes beyond base, 0 <= n <= 65535 *)
Definition beyond (base : Z) (s : segment) : Prop :=
  0 < seg_key base s <= 65535.

Lemma beyond_in_range base s : beyond base s -> in_range base s.
Proof. unfold beyond, in_range, H31. lia. Qed.

Lemma beyond_mod_gt base s : u32 base -> beyond base s -> mod_gt (h_seq (s_hdr s)) base = true.
Proof.
  unfold beyond, seg_key, mod_gt, mod_lt. rewrite !wsub_spec. unfold u32, M32, H31. intros Hu H. lia.
Qed.

(* a flight starting at base: the head is at key 0, the rest strictly beyond *)
Lemma flight_keys lp rp ackv : forall q a off, u32 a -> 0 <= off -> off + flight_len q <= 65535 ->
  flight lp rp ackv (wadd a off) q ->
  Forall (fun e => off <= seg_key a e < off + flight_len q) q.
Proof.
  induction q as [|s r IH]; intros a off Hu H0 Hroom F; [constructor|].
  destruct F as (Fh & Fl & Fr). rewrite flight_len_cons in *. pose proof (flight_len_nonneg r).
  constructor.
  - unfold seg_key. rewrite Fh. cbn [data_hdr hb_wnd hb_ack h_seq].
    rewrite wsub_spec, wadd_spec. unfold u32, M32 in *. lia.
  - rewrite wadd_wadd in Fr. specialize (IH a (off + zlen (s_text s)) Hu ltac:(lia) ltac:(lia) Fr).
    eapply Forall_impl; [|exact IH]. intros e He. cbv beta in *. lia.
Qed.

Lemma flight_head_key lp rp ackv a s r : flight lp rp ackv a (s :: r) -> seg_key a s = 0.
Proof.
  intros (Fh & _). unfold seg_key. rewrite Fh. cbn [data_hdr hb_wnd hb_ack h_seq]. apply wsub_diag.
Qed.

Lemma flight_tail_beyond lp rp ackv a s r : u32 a -> flight_len (s :: r) <= 65535 ->
  flight lp rp ackv a (s :: r) -> Forall (beyond a) r.
Proof.
  intros Hu Hroom (Fh & Fl & Fr). rewrite flight_len_cons in Hroom. pose proof (flight_len_nonneg r).
  pose proof (flight_keys lp rp ackv r a (zlen (s_text s)) Hu ltac:(lia) ltac:(lia) Fr) as Hk.
  eapply Forall_impl; [|exact Hk]. intros e He. unfold beyond. cbv beta in He. lia.
Qed.

(* ---------- A: a segment beyond RCV.NXT is parked ---------- *)
Lemma arrives_parked t e H :
  state_eqb (st t) SynSent = false -> in_segs t = H -> u32 (rcv_nxt t) ->
  heap_ordered H -> Forall (beyond (rcv_nxt t)) (e :: H) ->
  segment_arrives t e = Ok (set_in_segs t (heap_push H e), AOk) /\
  heap_ordered (heap_push H e) /\ Permutation (e :: H) (heap_push H e).
Proof.
  intros Hss Hs Hu Hord Hb.
  assert (Hr : Forall (in_range (rcv_nxt t)) (e :: H)).
  { eapply Forall_impl; [|exact Hb]. intros a. apply beyond_in_range. }
  destruct (heap_push_ordered (rcv_nxt t) H e Hr Hord) as [Ho Hp].
  split; [|split; assumption].
  destruct (heap_push H e) as [|top rest] eqn:Ev.
  { apply Permutation_length in Hp. cbn in Hp. lia. }
  apply (arrives_park t e (top :: rest) top); try assumption.
  - now rewrite Hs.
  - reflexivity.
  - apply beyond_mod_gt; [assumption|].
    rewrite Forall_forall in Hb. apply Hb. eapply Permutation_in; [symmetry; exact Hp|left; reflexivity].
Qed.

(* ---------- B: old data while segments are parked ---------- *)
Lemma arrives_old_parked t h text d H :
  st t = Established -> in_segs t = H -> rcv_wnd t = 65535 -> u32 (rcv_nxt t) ->
  heap_ordered H -> Forall (beyond (rcv_nxt t)) H ->
  ack_only h -> u32 (h_seq h) -> 0 <= d -> wadd (h_seq h) (zlen text + d) = rcv_nxt t ->
  mod_leq (h_ack h) (snd_una t) = true ->
  0 < zlen text -> zlen text + d <= 65535 -> zlen (in_text t) <= 65535 ->
  exists H', segment_arrives t (mkSeg h text) = Ok (pstep_old (set_in_segs t H'), AOk) /\
    heap_ordered H' /\ Permutation H H'.
Proof.
  intros Est Hs Hw Hu Hord Hb Hh Hsu Hd Hseq Hleq Hlen Hroom Hspace.
  set (e := mkSeg h text). set (rn := rcv_nxt t) in *.
  (* the key of e, taken from a base below everything *)
  set (base := h_seq h).
  assert (Hke : seg_key base e = 0) by (unfold seg_key, base, e; cbn; apply wsub_diag).
  assert (Hkrn : wsub rn base = zlen text + d).
  { unfold base. rewrite <- Hseq, wsub_spec, wadd_spec. unfold u32, M32 in *. lia. }
  assert (HkH : Forall (fun a => zlen text + d < seg_key base a < H31) H).
  { eapply Forall_impl; [|exact Hb]. intros a Ha. unfold beyond, seg_key in *.
    rewrite !wsub_spec in *. unfold u32, M32, H31 in *. lia. }
  assert (Hr : Forall (in_range base) (e :: H)).
  { constructor; [unfold in_range, H31; lia|]. eapply Forall_impl; [|exact HkH]. intros a Ha. cbv beta in Ha. unfold in_range. lia. }
  destruct (heap_push_ordered base H e Hr Hord) as [Ho Hp].
  set (v := heap_push H e) in *.
  assert (Hvne : v <> []) by (intros E; rewrite E in Hp; apply Permutation_length in Hp; cbn in Hp; lia).
  destruct (heap_pop_some v Hvne) as (m & rest & Epop).
  assert (Hrv : Forall (in_range base) v) by (eapply Permutation_Forall; [exact Hp|exact Hr]).
  destruct (heap_pop_ordered base v m rest Hrv Ho Epop) as (Hmin & Hperm & Hordr).
  (* the popped element is e *)
  assert (Em : m = e).
  { assert (Hin : In m (e :: H)).
    { eapply Permutation_in; [symmetry; exact Hp|]. eapply Permutation_in; [symmetry; exact Hperm|left; reflexivity]. }
    destruct Hin as [<-|Hin]; [reflexivity|]. exfalso.
    assert (Hein : In e v) by (eapply Permutation_in; [exact Hp|left; reflexivity]).
    destruct (Hmin e Hein) as [_ Hle]. rewrite Forall_forall in HkH. specialize (HkH m Hin).
    pose proof (zlen_nonneg text). lia. }
  subst m.
  assert (HpermH : Permutation H rest).
  { apply (Permutation_cons_inv (a := e)). eapply Permutation_trans; [exact Hp|exact Hperm]. }
  exists rest. split; [|split; assumption].
  destruct (process_old (set_in_segs t rest) h text d Est Hw Hu Hh Hsu Hd Hseq Hleq Hlen Hroom Hspace)
    as (r & Eproc & Hnd).
  unfold segment_arrives. rewrite Hs. fold e v.
  assert (Hlenv : exists f, length v = Datatypes.S f).
  { destruct v; [congruence|eexists; reflexivity]. }
  destruct Hlenv as [f Ef]. rewrite Ef.
  remember (Datatypes.S f) as f1 eqn:Ef1.
  cbn [arrives_loop]. tcb_simpl. rewrite (heap_peek_pop v e rest Epop). rewrite Est. cbn [state_eqb negb andb].
  assert (Hgt : mod_gt (h_seq (s_hdr e)) (rcv_nxt t) = false).
  { unfold e; cbn [s_hdr]. unfold mod_gt, mod_lt. fold rn. fold base.
    rewrite wsub_spec in *. unfold u32, M32, H31 in *. lia. }
  rewrite Hgt, Epop. cbn iota beta.
  assert (E1 : set_in_segs (set_in_segs t v) rest = set_in_segs t rest) by reflexivity.
  rewrite E1. fold e in Eproc. rewrite Eproc, Hnd. subst f1.
  cbn [arrives_loop]. unfold pstep_old; tcb_simpl.
  destruct rest as [|top rest'] eqn:Erest; [reflexivity|]. cbn [heap_peek].
  rewrite Est. cbn [state_eqb negb andb].
  assert (Htop : mod_gt (h_seq (s_hdr top)) (rcv_nxt t) = true).
  { apply beyond_mod_gt; [assumption|]. rewrite Forall_forall in Hb. apply Hb.
    eapply Permutation_in; [symmetry; exact HpermH|left; reflexivity]. }
  rewrite Htop. reflexivity.
Qed.

(* ---------- D: the heap is drained in sequence order ---------- *)
Definition drain_result (t : tcb) (q : list segment) : tcb := fold_left pstep_in q (set_in_segs t []).

Lemma pstep_in_in_segs t s : in_segs (pstep_in t s) = in_segs t.
Proof. reflexivity. Qed.

Lemma drain_heap lp rp ackv : forall q t H fuel,
  st t = Established -> rcv_wnd t = 65535 -> u32 (rcv_nxt t) -> mod_leq ackv (snd_una t) = true ->
  in_segs t = H -> heap_ordered H -> Permutation H q ->
  flight lp rp ackv (rcv_nxt t) q -> zlen (in_text t) + flight_len q <= 65535 ->
  (length H < fuel)%nat ->
  arrives_loop fuel t = Ok (drain_result t q, AOk).
Proof.
  induction q as [|s0 q' IH]; intros t H fuel Est Hw Hu Hleq Hs Hord Hperm F Hroom Hfuel.
  - apply Permutation_sym, Permutation_nil in Hperm. subst H.
    destruct fuel as [|f]; [lia|]. cbn [arrives_loop]. rewrite Hperm. cbn [heap_peek].
    f_equal. f_equal. unfold drain_result. cbn [fold_left]. tcb_eq.
  - set (rn := rcv_nxt t) in *.
    pose proof (zlen_nonneg (in_text t)) as Hit0.
    assert (Hkeys : Forall (fun e => 0 <= seg_key rn e < 0 + flight_len (s0 :: q')) (s0 :: q')).
    { apply (flight_keys lp rp ackv (s0 :: q') rn 0 Hu ltac:(lia) ltac:(lia)).
      now rewrite (wadd_0_u32 rn Hu). }
    assert (Hr : Forall (in_range rn) H).
    { eapply Permutation_Forall; [symmetry; exact Hperm|].
      eapply Forall_impl; [|exact Hkeys]. intros e He. cbv beta in He. unfold in_range, H31. lia. }
    assert (Hne : H <> []).
    { intros ->. apply Permutation_nil in Hperm. discriminate. }
    destruct (heap_pop_some H Hne) as (m & rest & Epop).
    destruct (heap_pop_ordered rn H m rest Hr Hord Epop) as (Hmin & Hp2 & Hordr).
    assert (Hk0 : seg_key rn s0 = 0) by (apply (flight_head_key lp rp ackv rn s0 q' F)).
    assert (Htail : Forall (beyond rn) q') by (apply (flight_tail_beyond lp rp ackv rn s0 q' Hu ltac:(lia) F)).
    assert (Em : m = s0).
    { assert (Hin : In m (s0 :: q')).
      { eapply Permutation_in; [exact Hperm|]. eapply Permutation_in; [symmetry; exact Hp2|left; reflexivity]. }
      destruct Hin as [<-|Hin]; [reflexivity|]. exfalso.
      assert (Hs0in : In s0 H) by (eapply Permutation_in; [symmetry; exact Hperm|left; reflexivity]).
      destruct (Hmin s0 Hs0in) as [_ Hle]. rewrite Forall_forall in Htail. specialize (Htail m Hin).
      unfold beyond in Htail. lia. }
    subst m.
    assert (Hprest : Permutation rest q').
    { apply (Permutation_cons_inv (a := s0)). eapply Permutation_trans; [symmetry; exact Hp2|exact Hperm]. }
    destruct F as (Fh & Fl & Fr). rewrite flight_len_cons in Hroom. pose proof (flight_len_nonneg q').
    destruct fuel as [|f]; [lia|]. cbn [arrives_loop]. rewrite Hs.
    rewrite (heap_peek_pop H s0 rest Epop). rewrite Est. cbn [state_eqb negb andb].
    assert (Hgt : mod_gt (h_seq (s_hdr s0)) (rcv_nxt t) = false).
    { rewrite Fh. cbn [data_hdr hb_wnd hb_ack h_seq]. apply mod_gt_refl_false. }
    rewrite Hgt, Epop. cbn iota beta.
    destruct s0 as [h text]. cbn [s_hdr s_text] in *.
    assert (Hao : ack_only h) by (rewrite Fh; apply data_hdr_ack_only).
    assert (Hsq : h_seq h = rcv_nxt t) by (rewrite Fh; reflexivity).
    assert (Hak : mod_leq (h_ack h) (snd_una t) = true) by (rewrite Fh; exact Hleq).
    assert (Hsp : zlen (in_text (set_in_segs t rest)) + zlen text <= 65535) by (cbn [set_in_segs in_text]; lia).
    rewrite (process_inorder (set_in_segs t rest) h text Est Hw Hu Hao Hsq Hak (proj1 Fl) Hsp).
    cbn [should_delete].
    set (t1 := pstep_in (set_in_segs t rest) (mkSeg h text)).
    assert (P1 : u32 (rcv_nxt t1)) by (subst t1; unfold pstep_in; tcb_simpl; apply wadd_u32).
    assert (P3 : zlen (in_text t1) + flight_len q' <= 65535)
      by (subst t1; unfold pstep_in; tcb_simpl; rewrite zlen_app; lia).
    assert (P4 : (length rest < f)%nat) by (apply Permutation_length in Hp2; cbn [length] in Hp2; lia).
    rewrite (IH t1 rest f Est Hw P1 Hleq eq_refl Hordr Hprest Fr P3 P4).
    reflexivity.
Qed.

(* ---------- C: the missing segment arrives; everything parked behind it is consumed ---------- *)
Lemma arrives_fill lp rp ackv t s0 q' H :
  st t = Established -> rcv_wnd t = 65535 -> u32 (rcv_nxt t) -> mod_leq ackv (snd_una t) = true ->
  in_segs t = H -> heap_ordered H -> Permutation H q' ->
  flight lp rp ackv (rcv_nxt t) (s0 :: q') -> zlen (in_text t) + flight_len (s0 :: q') <= 65535 ->
  segment_arrives t s0 = Ok (drain_result t (s0 :: q'), AOk).
Proof.
  intros Est Hw Hu Hleq Hs Hord Hperm F Hroom. set (rn := rcv_nxt t) in *.
  pose proof (zlen_nonneg (in_text t)) as Hit0.
  assert (Hkeys : Forall (fun e => 0 <= seg_key rn e < 0 + flight_len (s0 :: q')) (s0 :: q')).
  { apply (flight_keys lp rp ackv (s0 :: q') rn 0 Hu ltac:(lia) ltac:(lia)).
    now rewrite (wadd_0_u32 rn Hu). }
  assert (Hr : Forall (in_range rn) (s0 :: H)).
  { eapply Permutation_Forall; [apply perm_skip; symmetry; exact Hperm|].
    eapply Forall_impl; [|exact Hkeys]. intros e He. cbv beta in He. unfold in_range, H31. lia. }
  destruct (heap_push_ordered rn H s0 Hr Hord) as [Ho Hp].
  unfold segment_arrives. rewrite Hs.
  rewrite (drain_heap lp rp ackv (s0 :: q') (set_in_segs t (heap_push H s0)) (heap_push H s0)); try assumption; try reflexivity.
  - eapply Permutation_trans; [symmetry; exact Hp|]. apply perm_skip. exact Hperm.
  - lia.
Qed.

