(* C01 liveness (partial), system level: in a quiescent established state, a write of at
   most one MSS is delivered exactly once, acknowledged, and both endpoints are quiescent
   again after the two halves of one loss-free round. *)
From Elvis Require Import Model.Base Model.U32 Model.Tcb Model.TcpNet
  Proofs.U32Facts Proofs.TcbSafetyDefs Proofs.TcbSafetyBase Proofs.TcbSafetySnd Proofs.TcbSafetyRcv
  Proofs.TcbSafetyArr Proofs.TcbSafetySys Proofs.TcbLive.
From Coq Require Import ZifyBool.
Local Open Scope Z_scope.
Ltac Zify.zify_post_hook ::= Z.div_mod_to_equations.

(* ---------- extensionality and more projections ---------- *)
Lemma sys_ext s s' :
  (forall x, end_of s x = end_of s' x) -> (forall x, net_of s x = net_of s' x) ->
  (forall x, sub_of s x = sub_of s' x) -> (forall x, del_of s x = del_of s' x) ->
  panicked s = panicked s' -> s = s'.
Proof.
  intros E N S D P. destruct s, s'.
  pose proof (E SA); pose proof (E SB); pose proof (N SA); pose proof (N SB);
  pose proof (S SA); pose proof (S SB); pose proof (D SA); pose proof (D SB).
  cbn in *. subst. reflexivity.
Qed.

Lemma end_set_end_o2 s x e : end_of (set_end s (other x) e) x = end_of s x. Proof. sd. Qed.
Lemma net_set_net_o2 s x n : net_of (set_net s (other x) n) x = net_of s x. Proof. sd. Qed.
Lemma del_set_del_o2 s x v : del_of (set_del s (other x) v) x = del_of s x. Proof. sd. Qed.
Global Hint Rewrite end_set_end_o2 net_set_net_o2 del_set_del_o2 : sysr.

Lemma pan_set_panicked_no s x e : panicked (set_end s x e) = panicked s. Proof. sd. Qed.

(* ---------- evaluation of the system operations on live endpoints ---------- *)
Lemma emit_eval s x t t1 segs :
  end_of s x = ELive t -> tcb_segments t = Ok (t1, segs) ->
  emit s x = (set_net (set_end s x (ELive t1)) x (net_of s x ++ segs), segs, false).
Proof. intros El Es. unfold emit. now rewrite El, Es. Qed.

Lemma tick_eval s x t t1 segs t2 ms :
  end_of s x = ELive t -> tcb_segments t = Ok (t1, segs) -> advance_time t1 ms = (t2, TIgnore) ->
  fst (tick s x ms) = set_end (set_net (set_end s x (ELive t1)) x (net_of s x ++ segs)) x (ELive t2).
Proof.
  intros El Es Ea. unfold tick. rewrite (emit_eval s x t t1 segs El Es).
  cbn iota beta. sysr. rewrite Ea. reflexivity.
Qed.

Lemma arrive_eval c s r t seg t1 :
  end_of s r = ELive t -> segment_arrives t seg = Ok (t1, AOk) ->
  fst (arrive c s r seg) = set_end s r (ELive t1).
Proof. intros El Ea. unfold arrive. now rewrite El, Ea. Qed.

Lemma recv_eval_empty s x t : end_of s x = ELive t -> in_text t = [] ->
  fst (recv s x) = set_end s x (ELive (set_in_text t [])).
Proof. intros El Ei. unfold recv, tcb_receive. rewrite El, Ei. reflexivity. Qed.

Lemma recv_eval_data s x t : end_of s x = ELive t -> in_text t <> [] ->
  fst (recv s x) = set_del (set_end s x (ELive (set_in_text t []))) x (del_of s x ++ [in_text t]).
Proof.
  intros El Ei. unfold recv, tcb_receive. rewrite El. cbn [fst].
  destruct (in_text t); [congruence|reflexivity].
Qed.

Lemma recv_comm s : fst (recv (fst (recv s SA)) SB) = fst (recv (fst (recv s SB)) SA).
Proof.
  destruct s as [eA eB nA nB sA sB dA dB p].
  destruct eA as [| |tA|], eB as [| |tB|]; unfold recv, tcb_receive; cbn; try reflexivity;
    try (destruct (in_text tA); reflexivity); try (destruct (in_text tB); reflexivity).
  destruct (in_text tA) eqn:EA; destruct (in_text tB) eqn:EB; cbn; rewrite ?EA, ?EB; cbn; rewrite ?EA, ?EB; reflexivity.
Qed.

Lemma recv_both s x :
  fst (recv (fst (recv s SA)) SB) = fst (recv (fst (recv s x)) (other x)).
Proof. destruct x; [reflexivity|apply recv_comm]. Qed.

Lemma deliver_all_cons f c s x seg rest : net_of s x = seg :: rest ->
  deliver_all (Datatypes.S f) c s x = deliver_all f c (fst (arrive c (set_net s x rest) (other x) seg)) x.
Proof. intros En. cbn [deliver_all]. now rewrite En. Qed.

Lemma deliver_all_nil f c s x : net_of s x = [] -> deliver_all f c s x = s.
Proof. intros En. destruct f; cbn [deliver_all]; [reflexivity|now rewrite En]. Qed.

(* ---------- endpoint states of the exchange ---------- *)
(* nothing outstanding in either direction: a = SND.UNA = SND.NXT, r = RCV.NXT *)
Definition quiet (t : tcb) (a r : Z) : Prop :=
  st t = Established /\ snd_una t = a /\ snd_nxt t = a /\ rcv_nxt t = r /\
  snd_wnd t = 65535 /\ rcv_wnd t = 65535 /\ out_text t = [] /\ retx t = [] /\ oneshot t = [] /\
  fin_pending t = false /\ in_segs t = [] /\ in_text t = [] /\ rto t = RTO /\ time_wait t = None /\
  u32 a /\ u32 r /\ 100 <= mtu t <= 65535.

(* like quiet, but the application has just written [bytes] *)
Definition writer (t : tcb) (a r : Z) (bytes : list Z) : Prop :=
  st t = Established /\ snd_una t = a /\ snd_nxt t = a /\ rcv_nxt t = r /\
  snd_wnd t = 65535 /\ rcv_wnd t = 65535 /\ out_text t = bytes /\ retx t = [] /\ oneshot t = [] /\
  fin_pending t = false /\ in_segs t = [] /\ in_text t = [] /\ rto t = RTO /\ time_wait t = None /\
  u32 a /\ u32 r /\ 100 <= mtu t <= 65535.

(* the write is in flight: one segment of n bytes in the retransmission queue *)
Definition waiting (t : tcb) (a r n : Z) : Prop :=
  st t = Established /\ snd_una t = a /\ snd_nxt t = wadd a n /\ rcv_nxt t = r /\
  snd_wnd t = 65535 /\ rcv_wnd t = 65535 /\ out_text t = [] /\ oneshot t = [] /\
  (exists tx, retx t = [tx] /\ h_seq (s_hdr (t_seg tx)) = a /\ seg_len (t_seg tx) = n /\ t_needs tx = false) /\
  fin_pending t = false /\ in_segs t = [] /\ in_text t = [] /\ rto t = RTO /\ time_wait t = None /\
  u32 a /\ u32 r /\ 100 <= mtu t <= 65535.

(* the receiver has taken the n bytes and owes the acknowledgments *)
Definition acking (t : tcb) (a r : Z) : Prop :=
  st t = Established /\ snd_una t = a /\ snd_nxt t = a /\ rcv_nxt t = r /\
  snd_wnd t = 65535 /\ rcv_wnd t = 65535 /\ out_text t = [] /\ retx t = [] /\
  (exists h, oneshot t = [h; h] /\ ack_only h /\ h_seq h = a /\ h_ack h = r /\ h_wnd h = 65535) /\
  fin_pending t = false /\ in_segs t = [] /\ in_text t = [] /\ rto t = RTO /\ time_wait t = None /\
  u32 a /\ u32 r /\ 100 <= mtu t <= 65535.

Section Half.
  Variable c : config.

  (* the writer's half-round: emit, retransmit, deliver both copies, read *)
  Lemma half_send s x tx ty a b bytes :
    end_of s x = ELive tx -> end_of s (other x) = ELive ty ->
    net_of s x = [] -> net_of s (other x) = [] -> panicked s = false ->
    writer tx a b bytes -> quiet ty b a -> 0 < zlen bytes <= mtu tx - 50 ->
    let s' := fair_half c s x in
    exists tx' ty', end_of s' x = ELive tx' /\ end_of s' (other x) = ELive ty' /\
      net_of s' x = [] /\ net_of s' (other x) = [] /\ panicked s' = false /\
      (forall y, sub_of s' y = sub_of s y) /\ del_of s' x = del_of s x /\
      del_of s' (other x) = del_of s (other x) ++ [bytes] /\
      waiting tx' a b (zlen bytes) /\ acking ty' b (wadd a (zlen bytes)).
  Proof.
    intros Ex Ey Nx Ny Pn
      (W1 & W2 & W3 & W4 & W5 & W6 & W7 & W8 & W9 & W10 & W11 & W12 & W13 & W14 & W15 & W16 & W17)
      (Q1 & Q2 & Q3 & Q4 & Q5 & Q6 & Q7 & Q8 & Q9 & Q10 & Q11 & Q12 & Q13 & Q14 & Q15 & Q16 & Q17) Hn s'.
    set (n := zlen bytes) in *.
    set (seg := mkSeg (hb_wnd (hb_ack (hb tx (snd_nxt tx)) (rcv_nxt tx)) (rcv_wnd tx)) bytes).
    (* 1: first emission *)
    pose proof (segments_one_write tx bytes W1 W9 W8 W7 W10 W5 ltac:(congruence) ltac:(lia) Hn) as E1.
    cbv zeta in E1. fold seg in E1. fold n in E1.
    set (tx1 := set_rto _ RTO) in E1.
    (* 2: the retransmission timer fires *)
    pose proof (advance_101 tx1 eq_refl W14) as E2.
    set (tx2 := set_retx _ _) in E2.
    (* 3: second emission retransmits the segment *)
    assert (E3 : tcb_segments tx2 =
                 Ok (set_rto (set_retx (set_oneshot tx2 []) [mkTx seg false]) RTO, [seg])).
    { rewrite segments_nothing_new.
      - subst tx2 tx1; tcb_simpl. cbn [map filter t_needs t_seg app]. reflexivity.
      - reflexivity.
      - exact W10.
      - change (st tx2) with (st tx). now rewrite W1.
      - change (mtu tx2) with (mtu tx). lia. }
    set (tx3 := set_rto _ RTO) in E3.
    unfold s', fair_half, fair_half_t.
    rewrite (tick_eval s x tx tx1 [seg] tx2 101 Ex E1 E2). rewrite Nx. cbn [app].
    set (s1 := set_end (set_net _ _ _) x (ELive tx2)).
    assert (Ex1 : end_of s1 x = ELive tx2) by (subst s1; now sysr).
    rewrite (emit_eval s1 x tx2 tx3 [seg] Ex1 E3). cbn iota beta.
    assert (Nx1 : net_of s1 x = [seg]) by (subst s1; now sysr). rewrite Nx1. cbn [app].
    set (s2 := set_net _ x [seg; seg]).
    assert (Nx2 : net_of s2 x = [seg; seg]) by (subst s2; now sysr).
    rewrite Nx2. cbn iota. cbn [length].
    (* 4: the first copy arrives in order *)
    rewrite (deliver_all_cons _ c s2 x seg [seg] Nx2).
    set (s2' := set_net s2 x [seg]).
    assert (Ey2 : end_of s2' (other x) = ELive ty) by (subst s2' s2 s1; now sysr).
    assert (Hseg_ack : ack_only (s_hdr seg)) by (unfold ack_only; auto).
    assert (Hseq : h_seq (s_hdr seg) = rcv_nxt ty) by (cbn; congruence).
    assert (Hackf : mod_leq (h_ack (s_hdr seg)) (snd_una ty) = true).
    { cbn. rewrite W4, Q2. apply mod_leq_refl. }
    pose proof (data_inorder ty (s_hdr seg) bytes Q1 Q11 Q6 ltac:(rewrite Q4; exact Q16) Hseg_ack Hseq Hackf
                  ltac:(lia) ltac:(rewrite Q12; cbn; lia)) as E4.
    cbv zeta in E4. change (mkSeg (s_hdr seg) bytes) with seg in E4.
    set (ty1 := set_oneshot _ _) in E4.
    rewrite (arrive_eval c s2' (other x) ty seg ty1 Ey2 E4).
    set (s3 := set_end s2' (other x) (ELive ty1)).
    (* 5: the retransmitted copy is a duplicate *)
    assert (Nx3 : net_of s3 x = [seg]) by (subst s3 s2'; now sysr).
    rewrite (deliver_all_cons _ c s3 x seg [] Nx3).
    set (s3' := set_net s3 x []).
    assert (Ey3 : end_of s3' (other x) = ELive ty1) by (subst s3' s3; now sysr).
    assert (Hrn1 : rcv_nxt ty1 = wadd a n) by (subst ty1; tcb_simpl; now rewrite Q4).
    pose proof (data_duplicate ty1 (s_hdr seg) bytes Q1 eq_refl Q6 ltac:(rewrite Hrn1; apply wadd_u32)
                  Hseg_ack ltac:(cbn; rewrite W3; exact W15) ltac:(cbn; rewrite W3; symmetry; exact Hrn1)
                  Hackf ltac:(lia)) as E5.
    assert (Hit1 : in_text ty1 = bytes) by (subst ty1; tcb_simpl; now rewrite Q12).
    specialize (E5 ltac:(rewrite Hit1; fold n; lia)).
    change (mkSeg (s_hdr seg) bytes) with seg in E5.
    set (ty2 := set_oneshot _ _) in E5.
    rewrite (arrive_eval c s3' (other x) ty1 seg ty2 Ey3 E5).
    set (s4 := set_end s3' (other x) (ELive ty2)).
    assert (Nx4 : net_of s4 x = []) by (subst s4 s3'; now sysr).
    rewrite (deliver_all_nil _ c s4 x Nx4).
    (* 6: both applications read *)
    rewrite (recv_both s4 x).
    assert (Ex4 : end_of s4 x = ELive tx3) by (subst s4 s3' s3 s2' s2; now sysr).
    assert (Hitx : in_text tx3 = []) by (subst tx3 tx2 tx1; tcb_simpl; exact W12).
    rewrite (recv_eval_empty s4 x tx3 Ex4 Hitx).
    set (s5 := set_end s4 x _).
    assert (Ey5 : end_of s5 (other x) = ELive ty2) by (subst s5 s4; now sysr).
    assert (Hit2 : in_text ty2 = bytes) by (subst ty2; tcb_simpl; exact Hit1).
    assert (Hne : in_text ty2 <> []).
    { rewrite Hit2. intros ->. cbn in Hn. lia. }
    rewrite (recv_eval_data s5 (other x) ty2 Ey5 Hne). rewrite Hit2.
    exists (set_in_text tx3 []), (set_in_text ty2 []).
    splits; try (subst s5 s4 s3' s3 s2' s2 s1; now sysr).
    - intros y. subst s5 s4 s3' s3 s2' s2 s1. now sysr.
    - unfold waiting. subst tx3 tx2 tx1. tcb_simpl. fold n.
      splits; try assumption; try reflexivity; try congruence.
      exists (mkTx seg false). splits; try reflexivity.
      all: try (cbn; congruence).
      all: try (unfold seg_len; cbn; fold n; lia).
    - unfold acking. subst ty2 ty1. tcb_simpl. fold n. rewrite Q4, Q9. cbn [app].
      splits; try assumption; try reflexivity; try congruence; try apply wadd_u32.
      eexists. split; [|split; [apply ack_hdr_ack_only|]].
      + f_equal. f_equal. unfold ack_hdr; tcb_simpl. reflexivity.
      + unfold ack_hdr; tcb_simpl. cbn. rewrite Q3, Q4, Q6. auto.
  Qed.
End Half.
