(* C01 liveness (partial), system level: in a quiescent established state, a write of at
   most one MSS is delivered exactly once, acknowledged, and both endpoints are quiescent
   again after the two halves of one loss-free round. *)
From Elvis Require Import Model.Base Model.U32 Model.Tcb Model.TcpNet
  Proofs.U32Facts Proofs.TcbSafetyDefs Proofs.TcbSafetyBase Proofs.TcbSafetySnd Proofs.TcbSafetyRcv
  Proofs.TcbSafetyArr Proofs.TcbSafetySys Proofs.TcbLive.
From Coq Require Import ZifyBool.
Local Open Scope Z_scope.
Ltac Zify.zify_post_hook ::= Z.div_mod_to_equations.

(* ---------- extensionality and more projections ---------- *)
Lemma sys_ext s s' :
  (forall x, end_of s x = end_of s' x) -> (forall x, net_of s x = net_of s' x) ->
  (forall x, sub_of s x = sub_of s' x) -> (forall x, del_of s x = del_of s' x) ->
  panicked s = panicked s' -> s = s'.
Proof.
  intros E N S D P. destruct s, s'.
  pose proof (E SA); pose proof (E SB); pose proof (N SA); pose proof (N SB);
  pose proof (S SA); pose proof (S SB); pose proof (D SA); pose proof (D SB).
  cbn in *. subst. reflexivity.
Qed.

Lemma end_set_end_o2 s x e : end_of (set_end s (other x) e) x = end_of s x. Proof. sd. Qed.
Lemma net_set_net_o2 s x n : net_of (set_net s (other x) n) x = net_of s x. Proof. sd. Qed.
Lemma del_set_del_o2 s x v : del_of (set_del s (other x) v) x = del_of s x. Proof. sd. Qed.
Global Hint Rewrite end_set_end_o2 net_set_net_o2 del_set_del_o2 : sysr.

Lemma pan_set_panicked_no s x e : panicked (set_end s x e) = panicked s. Proof. sd. Qed.

(* ---------- evaluation of the system operations on live endpoints ---------- *)
Lemma emit_eval s x t t1 segs :
  end_of s x = ELive t -> tcb_segments t = Ok (t1, segs) ->
  emit s x = (set_net (set_end s x (ELive t1)) x (net_of s x ++ segs), segs, false).
Proof. intros El Es. unfold emit. now rewrite El, Es. Qed.

Lemma tick_eval s x t t1 segs t2 ms :
  end_of s x = ELive t -> tcb_segments t = Ok (t1, segs) -> advance_time t1 ms = (t2, TIgnore) ->
  fst (tick s x ms) = set_end (set_net (set_end s x (ELive t1)) x (net_of s x ++ segs)) x (ELive t2).
Proof.
  intros El Es Ea. unfold tick. rewrite (emit_eval s x t t1 segs El Es).
  cbn iota beta. sysr. rewrite Ea. reflexivity.
Qed.

Lemma arrive_eval c s r t seg t1 :
  end_of s r = ELive t -> segment_arrives t seg = Ok (t1, AOk) ->
  fst (arrive c s r seg) = set_end s r (ELive t1).
Proof. intros El Ea. unfold arrive. now rewrite El, Ea. Qed.

Lemma recv_eval_empty s x t : end_of s x = ELive t -> in_text t = [] ->
  fst (recv s x) = set_end s x (ELive (set_in_text t [])).
Proof. intros El Ei. unfold recv, tcb_receive. rewrite El, Ei. reflexivity. Qed.

Lemma recv_eval_data s x t : end_of s x = ELive t -> in_text t <> [] ->
  fst (recv s x) = set_del (set_end s x (ELive (set_in_text t []))) x (del_of s x ++ [in_text t]).
Proof.
  intros El Ei. unfold recv, tcb_receive. rewrite El. cbn [fst].
  destruct (in_text t); [congruence|reflexivity].
Qed.

Lemma recv_comm s : fst (recv (fst (recv s SA)) SB) = fst (recv (fst (recv s SB)) SA).
Proof.
  destruct s as [eA eB nA nB sA sB dA dB p].
  destruct eA as [| |tA|], eB as [| |tB|]; unfold recv, tcb_receive; cbn; try reflexivity;
    try (destruct (in_text tA); reflexivity); try (destruct (in_text tB); reflexivity).
  destruct (in_text tA) eqn:EA; destruct (in_text tB) eqn:EB; cbn; rewrite ?EA, ?EB; cbn; rewrite ?EA, ?EB; reflexivity.
Qed.

Lemma recv_both s x :
  fst (recv (fst (recv s SA)) SB) = fst (recv (fst (recv s x)) (other x)).
Proof. destruct x; [reflexivity|apply recv_comm]. Qed.

Lemma deliver_all_cons f c s x seg rest : net_of s x = seg :: rest ->
  deliver_all (Datatypes.S f) c s x = deliver_all f c (fst (arrive c (set_net s x rest) (other x) seg)) x.
Proof. intros En. cbn [deliver_all]. now rewrite En. Qed.

Lemma deliver_all_nil f c s x : net_of s x = [] -> deliver_all f c s x = s.
Proof. intros En. destruct f; cbn [deliver_all]; [reflexivity|now rewrite En]. Qed.

(* ---------- endpoint states of the exchange ---------- *)
(* nothing outstanding in either direction: a = SND.UNA = SND.NXT, r = RCV.NXT *)
Definition quiet (t : tcb) (a r : Z) : Prop :=
  st t = Established /\ snd_una t = a /\ snd_nxt t = a /\ rcv_nxt t = r /\
  snd_wnd t = 65535 /\ rcv_wnd t = 65535 /\ out_text t = [] /\ retx t = [] /\ oneshot t = [] /\
  fin_pending t = false /\ in_segs t = [] /\ in_text t = [] /\ rto t = RTO /\ time_wait t = None /\
  u32 a /\ u32 r /\ 100 <= mtu t <= 65535.

(* like quiet, but the application has just written [bytes] *)
Definition writer (t : tcb) (a r : Z) (bytes : list Z) : Prop :=
  st t = Established /\ snd_una t = a /\ snd_nxt t = a /\ rcv_nxt t = r /\
  snd_wnd t = 65535 /\ rcv_wnd t = 65535 /\ out_text t = bytes /\ retx t = [] /\ oneshot t = [] /\
  fin_pending t = false /\ in_segs t = [] /\ in_text t = [] /\ rto t = RTO /\ time_wait t = None /\
  u32 a /\ u32 r /\ 100 <= mtu t <= 65535.

(* the write is in flight: one segment of n bytes in the retransmission queue *)
Definition waiting (t : tcb) (a r n : Z) : Prop :=
  st t = Established /\ snd_una t = a /\ snd_nxt t = wadd a n /\ rcv_nxt t = r /\
  snd_wnd t = 65535 /\ rcv_wnd t = 65535 /\ out_text t = [] /\ oneshot t = [] /\
  (exists tx, retx t = [tx] /\ h_seq (s_hdr (t_seg tx)) = a /\ seg_len (t_seg tx) = n /\ t_needs tx = false) /\
  fin_pending t = false /\ in_segs t = [] /\ in_text t = [] /\ rto t = RTO /\ time_wait t = None /\
  u32 a /\ u32 r /\ 100 <= mtu t <= 65535.

(* the receiver has taken the n bytes and owes the acknowledgments *)
Definition acking (t : tcb) (a r : Z) : Prop :=
  st t = Established /\ snd_una t = a /\ snd_nxt t = a /\ rcv_nxt t = r /\
  snd_wnd t = 65535 /\ rcv_wnd t = 65535 /\ out_text t = [] /\ retx t = [] /\
  (exists h, oneshot t = [h; h] /\ ack_only h /\ h_seq h = a /\ h_ack h = r /\ h_wnd h = 65535) /\
  fin_pending t = false /\ in_segs t = [] /\ in_text t = [] /\ rto t = RTO /\ time_wait t = None /\
  u32 a /\ u32 r /\ 100 <= mtu t <= 65535.

Section Half.
  Variable c : config.

  (* the writer's half-round: emit, retransmit, deliver both copies, read *)
  Lemma half_send s x tx ty a b bytes :
    end_of s x = ELive tx -> end_of s (other x) = ELive ty ->
    net_of s x = [] -> net_of s (other x) = [] -> panicked s = false ->
    writer tx a b bytes -> quiet ty b a -> 0 < zlen bytes <= mtu tx - 50 ->
    let s' := fair_half c s x in
    exists tx' ty', end_of s' x = ELive tx' /\ end_of s' (other x) = ELive ty' /\
      net_of s' x = [] /\ net_of s' (other x) = [] /\ panicked s' = false /\
      (forall y, sub_of s' y = sub_of s y) /\ del_of s' x = del_of s x /\
      del_of s' (other x) = del_of s (other x) ++ [bytes] /\
      waiting tx' a b (zlen bytes) /\ acking ty' b (wadd a (zlen bytes)) /\
      mtu tx' = mtu tx /\ mtu ty' = mtu ty.
  Proof.
    intros Ex Ey Nx Ny Pn
      (W1 & W2 & W3 & W4 & W5 & W6 & W7 & W8 & W9 & W10 & W11 & W12 & W13 & W14 & W15 & W16 & W17)
      (Q1 & Q2 & Q3 & Q4 & Q5 & Q6 & Q7 & Q8 & Q9 & Q10 & Q11 & Q12 & Q13 & Q14 & Q15 & Q16 & Q17) Hn s'.
    set (n := zlen bytes) in *.
    set (seg := mkSeg (hb_wnd (hb_ack (hb tx (snd_nxt tx)) (rcv_nxt tx)) (rcv_wnd tx)) bytes).
    (* 1: first emission *)
    pose proof (segments_one_write tx bytes W1 W9 W8 W7 W10 W5 ltac:(congruence) ltac:(lia) Hn) as E1.
    cbv zeta in E1. fold seg in E1. fold n in E1.
    set (tx1 := set_rto _ RTO) in E1.
    (* 2: the retransmission timer fires *)
    pose proof (advance_101 tx1 eq_refl W14) as E2.
    set (tx2 := set_retx _ _) in E2.
    (* 3: second emission retransmits the segment *)
    assert (E3 : tcb_segments tx2 =
                 Ok (set_rto (set_retx (set_oneshot tx2 []) [mkTx seg false]) RTO, [seg])).
    { rewrite segments_nothing_new.
      - subst tx2 tx1; tcb_simpl. cbn [map filter t_needs t_seg app]. reflexivity.
      - reflexivity.
      - exact W10.
      - change (st tx2) with (st tx). now rewrite W1.
      - change (mtu tx2) with (mtu tx). lia. }
    set (tx3 := set_rto _ RTO) in E3.
    unfold s', fair_half, fair_half_t.
    rewrite (tick_eval s x tx tx1 [seg] tx2 101 Ex E1 E2). rewrite Nx. cbn [app].
    set (s1 := set_end (set_net _ _ _) x (ELive tx2)).
    assert (Ex1 : end_of s1 x = ELive tx2) by (subst s1; now sysr).
    rewrite (emit_eval s1 x tx2 tx3 [seg] Ex1 E3). cbn iota beta.
    assert (Nx1 : net_of s1 x = [seg]) by (subst s1; now sysr). rewrite Nx1. cbn [app].
    set (s2 := set_net _ x [seg; seg]).
    assert (Nx2 : net_of s2 x = [seg; seg]) by (subst s2; now sysr).
    rewrite Nx2. cbn iota. cbn [length].
    (* 4: the first copy arrives in order *)
    rewrite (deliver_all_cons _ c s2 x seg [seg] Nx2).
    set (s2' := set_net s2 x [seg]).
    assert (Ey2 : end_of s2' (other x) = ELive ty) by (subst s2' s2 s1; now sysr).
    assert (Hseg_ack : ack_only (s_hdr seg)) by (unfold ack_only; auto).
    assert (Hseq : h_seq (s_hdr seg) = rcv_nxt ty) by (cbn; congruence).
    assert (Hackf : mod_leq (h_ack (s_hdr seg)) (snd_una ty) = true).
    { cbn. rewrite W4, Q2. apply mod_leq_refl. }
    pose proof (data_inorder ty (s_hdr seg) bytes Q1 Q11 Q6 ltac:(rewrite Q4; exact Q16) Hseg_ack Hseq Hackf
                  ltac:(lia) ltac:(rewrite Q12; cbn; lia)) as E4.
    cbv zeta in E4. change (mkSeg (s_hdr seg) bytes) with seg in E4.
    set (ty1 := set_oneshot _ _) in E4.
    rewrite (arrive_eval c s2' (other x) ty seg ty1 Ey2 E4).
    set (s3 := set_end s2' (other x) (ELive ty1)).
    (* 5: the retransmitted copy is a duplicate *)
    assert (Nx3 : net_of s3 x = [seg]) by (subst s3 s2'; now sysr).
    rewrite (deliver_all_cons _ c s3 x seg [] Nx3).
    set (s3' := set_net s3 x []).
    assert (Ey3 : end_of s3' (other x) = ELive ty1) by (subst s3' s3; now sysr).
    assert (Hrn1 : rcv_nxt ty1 = wadd a n) by (subst ty1; tcb_simpl; now rewrite Q4).
    pose proof (data_duplicate ty1 (s_hdr seg) bytes Q1 eq_refl Q6 ltac:(rewrite Hrn1; apply wadd_u32)
                  Hseg_ack ltac:(cbn; rewrite W3; exact W15) ltac:(cbn; rewrite W3; symmetry; exact Hrn1)
                  Hackf ltac:(lia)) as E5.
    assert (Hit1 : in_text ty1 = bytes) by (subst ty1; tcb_simpl; now rewrite Q12).
    specialize (E5 ltac:(rewrite Hit1; fold n; lia)).
    change (mkSeg (s_hdr seg) bytes) with seg in E5.
    set (ty2 := set_oneshot _ _) in E5.
    rewrite (arrive_eval c s3' (other x) ty1 seg ty2 Ey3 E5).
    set (s4 := set_end s3' (other x) (ELive ty2)).
    assert (Nx4 : net_of s4 x = []) by (subst s4 s3'; now sysr).
    rewrite (deliver_all_nil _ c s4 x Nx4).
    (* 6: both applications read *)
    rewrite (recv_both s4 x).
    assert (Ex4 : end_of s4 x = ELive tx3) by (subst s4 s3' s3 s2' s2; now sysr).
    assert (Hitx : in_text tx3 = []) by (subst tx3 tx2 tx1; tcb_simpl; exact W12).
    rewrite (recv_eval_empty s4 x tx3 Ex4 Hitx).
    set (s5 := set_end s4 x _).
    assert (Ey5 : end_of s5 (other x) = ELive ty2) by (subst s5 s4; now sysr).
    assert (Hit2 : in_text ty2 = bytes) by (subst ty2; tcb_simpl; exact Hit1).
    assert (Hne : in_text ty2 <> []).
    { rewrite Hit2. intros ->. cbn in Hn. lia. }
    rewrite (recv_eval_data s5 (other x) ty2 Ey5 Hne). rewrite Hit2.
    exists (set_in_text tx3 []), (set_in_text ty2 []).
    splits; try (subst s5 s4 s3' s3 s2' s2 s1; now sysr); try reflexivity.
    - intros y. subst s5 s4 s3' s3 s2' s2 s1. now sysr.
    - unfold waiting. subst tx3 tx2 tx1. tcb_simpl. fold n.
      splits; try assumption; try reflexivity; try congruence.
      exists (mkTx seg false). splits; try reflexivity.
      all: try (cbn; congruence).
      all: try (unfold seg_len; cbn; fold n; lia).
    - unfold acking. subst ty2 ty1. tcb_simpl. fold n. rewrite Q4, Q9. cbn [app].
      splits; try assumption; try reflexivity; try congruence; try apply wadd_u32; try lia.
      eexists. split; [reflexivity|]. split; [apply ack_hdr_ack_only|].
      unfold ack_hdr; tcb_simpl. cbn. rewrite Q3, Q6. auto.
  Qed.

  (* the receiver's half-round: emit both ACKs, the writer's retransmission queue empties *)
  Lemma half_ack s y ty tz a b n :
    end_of s y = ELive ty -> end_of s (other y) = ELive tz ->
    net_of s y = [] -> net_of s (other y) = [] -> panicked s = false ->
    acking ty b (wadd a n) -> waiting tz a b n -> 0 < n < H31 ->
    let s' := fair_half c s y in
    exists ty' tz', end_of s' y = ELive ty' /\ end_of s' (other y) = ELive tz' /\
      net_of s' y = [] /\ net_of s' (other y) = [] /\ panicked s' = false /\
      (forall x, sub_of s' x = sub_of s x) /\ (forall x, del_of s' x = del_of s x) /\
      quiet ty' b (wadd a n) /\ quiet tz' (wadd a n) b /\ mtu ty' = mtu ty /\ mtu tz' = mtu tz.
  Proof.
    intros Ey Ez Ny Nz Pn
      (A1 & A2 & A3 & A4 & A5 & A6 & A7 & A8 & (h & A9 & Hh & Hhs & Hha & Hhw) & A10 & A11 & A12 & A13 & A14 & A15 & A16 & A17)
      (W1 & W2 & W3 & W4 & W5 & W6 & W7 & W8 & (tx & W9 & Htxs & Htxl & Htxn) & W10 & W11 & W12 & W13 & W14 & W15 & W16 & W17)
      Hn s'.
    set (sh := mkSeg h []).
    (* 1: the ACKs leave *)
    assert (E1 : tcb_segments ty = Ok (set_retx (set_oneshot ty []) [], [sh; sh])).
    { rewrite segments_nothing_new; try assumption; try (rewrite A1; reflexivity); try lia.
      rewrite A8, A9. cbn [map filter app]. reflexivity. }
    set (ty1 := set_retx _ _) in E1.
    pose proof (advance_101 ty1 A13 A14) as E2.
    assert (Er1 : retx ty1 = []) by reflexivity. rewrite Er1 in E2. cbn [map] in E2.
    set (ty2 := set_retx _ _) in E2.
    assert (E3 : tcb_segments ty2 = Ok (set_retx (set_oneshot ty2 []) [], [])).
    { rewrite segments_nothing_new.
      - subst ty2 ty1; tcb_simpl. cbn [map filter app]. reflexivity.
      - exact A7.
      - exact A10.
      - change (st ty2) with (st ty). now rewrite A1.
      - change (mtu ty2) with (mtu ty). lia. }
    set (ty3 := set_retx _ _) in E3.
    unfold s', fair_half, fair_half_t.
    rewrite (tick_eval s y ty ty1 [sh; sh] ty2 101 Ey E1 E2). rewrite Ny. cbn [app].
    set (s1 := set_end (set_net _ _ _) y (ELive ty2)).
    assert (Ey1 : end_of s1 y = ELive ty2) by (subst s1; now sysr).
    rewrite (emit_eval s1 y ty2 ty3 [] Ey1 E3). cbn iota beta.
    assert (Ny1 : net_of s1 y = [sh; sh]) by (subst s1; now sysr). rewrite Ny1. cbn [app].
    set (s2 := set_net _ y [sh; sh]).
    assert (Ny2 : net_of s2 y = [sh; sh]) by (subst s2; now sysr).
    rewrite Ny2. cbn iota. cbn [length].
    (* 2: the first ACK empties the retransmission queue *)
    rewrite (deliver_all_cons _ c s2 y sh [sh] Ny2).
    set (s2' := set_net s2 y [sh]).
    assert (Ez2 : end_of s2' (other y) = ELive tz) by (subst s2' s2 s1; now sysr).
    destruct (ack_arrives tz h tx n W1 W11 W6 ltac:(rewrite W4; exact W16) Hh ltac:(congruence)
                ltac:(congruence) Hhw W5 ltac:(rewrite W2; exact W15) ltac:(congruence) Hn W9
                ltac:(congruence) Htxl) as (w1 & w2 & E4).
    fold sh in E4. set (tz1 := set_snd_window _ _ _ _) in E4.
    rewrite (arrive_eval c s2' (other y) tz sh tz1 Ez2 E4).
    set (s3 := set_end s2' (other y) (ELive tz1)).
    (* 3: the second ACK is a duplicate *)
    assert (Ny3 : net_of s3 y = [sh]) by (subst s3 s2'; now sysr).
    rewrite (deliver_all_cons _ c s3 y sh [] Ny3).
    set (s3' := set_net s3 y []).
    assert (Ez3 : end_of s3' (other y) = ELive tz1) by (subst s3' s3; now sysr).
    assert (E5 : segment_arrives tz1 sh = Ok (set_in_segs tz1 [], AOk)).
    { apply ack_duplicate; try assumption; try reflexivity.
      - change (rcv_nxt tz1) with (rcv_nxt tz). rewrite W4. exact W16.
      - change (rcv_nxt tz1) with (rcv_nxt tz). congruence.
      - change (snd_una tz1) with (snd_nxt tz). rewrite Hha, W3. apply mod_leq_refl. }
    set (tz2 := set_in_segs tz1 []) in E5.
    rewrite (arrive_eval c s3' (other y) tz1 sh tz2 Ez3 E5).
    set (s4 := set_end s3' (other y) (ELive tz2)).
    assert (Ny4 : net_of s4 y = []) by (subst s4 s3'; now sysr).
    rewrite (deliver_all_nil _ c s4 y Ny4).
    (* 4: nothing to read *)
    rewrite (recv_both s4 y).
    assert (Ey4 : end_of s4 y = ELive ty3) by (subst s4 s3' s3 s2' s2; now sysr).
    rewrite (recv_eval_empty s4 y ty3 Ey4 A12).
    set (s5 := set_end s4 y _).
    assert (Ez5 : end_of s5 (other y) = ELive tz2) by (subst s5 s4; now sysr).
    rewrite (recv_eval_empty s5 (other y) tz2 Ez5 W12).
    exists (set_in_text ty3 []), (set_in_text tz2 []).
    splits.
    all: try (subst s5 s4 s3' s3 s2' s2 s1; now sysr).
    all: try reflexivity.
    all: try (intros x; subst s5 s4 s3' s3 s2' s2 s1; now sysr).
    all: unfold quiet; subst ty3 ty2 ty1 tz2 tz1; tcb_simpl;
      splits; try assumption; try reflexivity; try congruence; try lia; try apply wadd_u32.
  Qed.

  (* an endpoint with nothing to do *)
  Lemma half_idle s y ty tz a r :
    end_of s y = ELive ty -> quiet ty a r -> net_of s y = [] ->
    end_of s (other y) = ELive tz -> in_text tz = [] ->
    fair_half c s y = s.
  Proof.
    intros Ey (Q1 & Q2 & Q3 & Q4 & Q5 & Q6 & Q7 & Q8 & Q9 & Q10 & Q11 & Q12 & Q13 & Q14 & Q15 & Q16 & Q17)
      Ny Ez Hz.
    assert (E1 : tcb_segments ty = Ok (set_retx (set_oneshot ty []) [], [])).
    { rewrite segments_nothing_new; try assumption; try (rewrite Q1; reflexivity); try lia.
      rewrite Q8, Q9. reflexivity. }
    set (ty1 := set_retx _ _) in E1.
    pose proof (advance_101 ty1 Q13 Q14) as E2.
    assert (Er1 : retx ty1 = []) by reflexivity. rewrite Er1 in E2. cbn [map] in E2.
    set (ty2 := set_retx _ _) in E2.
    assert (E3 : tcb_segments ty2 = Ok (set_retx (set_oneshot ty2 []) [], [])).
    { rewrite segments_nothing_new.
      - subst ty2 ty1; tcb_simpl. cbn [map filter app]. reflexivity.
      - exact Q7.
      - exact Q10.
      - change (st ty2) with (st ty). now rewrite Q1.
      - change (mtu ty2) with (mtu ty). lia. }
    set (ty3 := set_retx _ _) in E3.
    unfold fair_half, fair_half_t.
    rewrite (tick_eval s y ty ty1 [] ty2 101 Ey E1 E2). rewrite Ny. cbn [app].
    set (s1 := set_end (set_net _ _ _) y (ELive ty2)).
    assert (Ey1 : end_of s1 y = ELive ty2) by (subst s1; now sysr).
    rewrite (emit_eval s1 y ty2 ty3 [] Ey1 E3). cbn iota beta.
    assert (Ny1 : net_of s1 y = []) by (subst s1; now sysr). rewrite Ny1. cbn [app].
    set (s2 := set_net _ y []).
    assert (Ny2 : net_of s2 y = []) by (subst s2; now sysr).
    rewrite (deliver_all_nil _ c s2 y Ny2).
    rewrite (recv_both s2 y).
    assert (Ey2 : end_of s2 y = ELive ty3) by (subst s2; now sysr).
    rewrite (recv_eval_empty s2 y ty3 Ey2 Q12).
    set (s3 := set_end s2 y _).
    assert (Ez3 : end_of s3 (other y) = ELive tz) by (subst s3 s2 s1; now sysr).
    rewrite (recv_eval_empty s3 (other y) tz Ez3 Hz).
    apply sys_ext.
    - intros x. destruct (side_cases y x) as [-> | ->]; subst s3 s2 s1; sysr.
      + rewrite Ey. f_equal. subst ty3 ty2 ty1. tcb_eq; congruence.
      + rewrite Ez. f_equal. tcb_eq. congruence.
    - intros x. destruct (side_cases y x) as [-> | ->]; subst s3 s2 s1; sysr; congruence.
    - intros x. subst s3 s2 s1. now sysr.
    - intros x. subst s3 s2 s1. now sysr.
    - subst s3 s2 s1. now sysr.
  Qed.
End Half.
