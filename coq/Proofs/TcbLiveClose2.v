(* C03 (d): simultaneous close, TCB level.  Both sides are in FIN-WAIT-1; the ACK of the peer's
   FIN can overtake the FIN itself and then waits in the reassembly heap. *)
From Elvis Require Import Model.Base Model.U32 Model.Tcb Model.TcpNet
  Proofs.U32Facts Proofs.TcbSafetyDefs Proofs.TcbSafetyBase Proofs.TcbSafetySnd Proofs.TcbSafetyRcv
  Proofs.TcbSafetyArr Proofs.TcbLive Proofs.TcbLiveHs Proofs.TcbLiveClose.
From Coq Require Import ZifyBool.
Local Open Scope Z_scope.
Ltac Zify.zify_post_hook ::= Z.div_mod_to_equations.

(* ---------- small heaps ---------- *)
Lemma heap_push_smaller x1 x2 f : seg_le f x1 = false -> heap_push [x1; x2] f = [f; x2; x1].
Proof. intros H. unfold heap_push. cbv -[seg_le]. rewrite H. reflexivity. Qed.

Lemma heap_pop_three f x2 x1 : seg_le x1 x2 = true -> heap_pop [f; x2; x1] = Some (f, [x2; x1]).
Proof. intros H. unfold heap_pop. cbv -[seg_le]. rewrite H. reflexivity. Qed.

Lemma seg_le_same a b : h_seq (s_hdr a) = h_seq (s_hdr b) -> seg_le a b = true.
Proof. intros E. unfold seg_le. now rewrite E, Z.eqb_refl. Qed.

Lemma seg_le_before f x q : u32 q -> h_seq (s_hdr f) = q -> h_seq (s_hdr x) = wadd q 1 -> seg_le f x = false.
Proof.
  intros Hu Hf Hx. unfold seg_le. rewrite Hf, Hx.
  replace (q =? wadd q 1) with false by (rewrite wadd_spec; unfold u32, M32 in *; lia).
  now rewrite mod_lt_succ_r.
Qed.

(* a segment beyond RCV.NXT is parked in the heap *)
Lemma arrives_park t seg v top :
  heap_push (in_segs t) seg = v -> heap_peek v = Some top ->
  state_eqb (st t) SynSent = false -> mod_gt (h_seq (s_hdr top)) (rcv_nxt t) = true ->
  segment_arrives t seg = Ok (set_in_segs t v, AOk).
Proof.
  intros Hv Hp Hss Hgt. unfold segment_arrives. rewrite Hv. cbn [arrives_loop]. tcb_simpl.
  rewrite Hp, Hss, Hgt. reflexivity.
Qed.

(* three queued segments are processed one after the other *)
Lemma arrives_loop_three n t f x2 x1 t1 r1 t2 r2 t3 r3 :
  in_segs t = [f; x2; x1] -> seg_le x1 x2 = true ->
  state_eqb (st t) SynSent = false -> mod_gt (h_seq (s_hdr f)) (rcv_nxt t) = false ->
  process_segment (set_in_segs t [x2; x1]) f = Ok (t1, r1) -> should_delete r1 = false -> in_segs t1 = [x2; x1] ->
  state_eqb (st t1) SynSent = false -> mod_gt (h_seq (s_hdr x2)) (rcv_nxt t1) = false ->
  process_segment (set_in_segs t1 [x1]) x2 = Ok (t2, r2) -> should_delete r2 = false -> in_segs t2 = [x1] ->
  state_eqb (st t2) SynSent = false -> mod_gt (h_seq (s_hdr x1)) (rcv_nxt t2) = false ->
  process_segment (set_in_segs t2 []) x1 = Ok (t3, r3) -> should_delete r3 = false -> in_segs t3 = [] ->
  arrives_loop (Datatypes.S (Datatypes.S (Datatypes.S (Datatypes.S n)))) t = Ok (t3, AOk).
Proof.
  intros Hs Hle S0 G0 P1 D1 I1 S1 G1 P2 D2 I2 S2 G2 P3 D3 I3.
  remember (Datatypes.S (Datatypes.S (Datatypes.S n))) as f3 eqn:E3.
  cbn [arrives_loop]. rewrite Hs. cbn [heap_peek]. rewrite S0, G0. cbn [negb andb].
  rewrite (heap_pop_three f x2 x1 Hle). cbn iota beta. rewrite P1, D1. subst f3.
  remember (Datatypes.S (Datatypes.S n)) as f2 eqn:E2.
  cbn [arrives_loop]. rewrite I1. cbn [heap_peek]. rewrite S1, G1. cbn [negb andb].
  rewrite heap_pop_two. cbn iota beta. rewrite P2, D2. subst f2.
  apply (arrives_loop_one n t2 x1 t3 r3); try assumption.
  now rewrite S2, G2.
Qed.

(* ---------- process_segment in FIN-WAIT-1 / CLOSING / TIME-WAIT ---------- *)
Lemma ps_ack_unacked t h : (st t = FinWait1 \/ st t = Closing) -> c_ack (h_ctl h) = true ->
  mod_leq (h_ack h) (snd_una t) = true -> is_fin_acked t = false -> ps_ack t h = (t, None).
Proof.
  intros Hs Ha Hl Hf. unfold ps_ack. rewrite Ha. cbn [negb]. unfold ack_est. rewrite Hl.
  destruct Hs as [-> | ->]; rewrite Hf; reflexivity.
Qed.

Lemma process_fin_unacked t h :
  (st t = FinWait1 \/ st t = Closing) -> c_ack (h_ctl h) = true -> c_rst (h_ctl h) = false -> c_syn (h_ctl h) = false ->
  mod_leq (h_ack h) (snd_una t) = true -> is_fin_acked t = false ->
  is_seq_ok t 0 (h_seq h) false (c_fin (h_ctl h)) = true ->
  process_segment t (mkSeg h []) = Ok (ps_fin t h 0, PSuccess).
Proof.
  intros Hs Ha Hr Hsy Hl Hfa Hok. unfold process_segment. tcb_simpl. rewrite Hsy.
  change (zlen (@nil Z)) with 0. rewrite Hok. cbn [negb].
  replace (match st t with SynSent => false | _ => false end) with false by (destruct (st t); reflexivity).
  rewrite (ps_ack_unacked t h Hs Ha Hl Hfa). unfold ps_rst. rewrite Hr. cbn [negb].
  unfold ps_syn. rewrite Hsy. cbn [negb].
  replace (state_eqb (st t) SynSent) with false by (destruct Hs as [-> | ->]; reflexivity).
  rewrite ps_text_nil. reflexivity.
Qed.

(* the ACK of our FIN in CLOSING: TIME-WAIT *)
Lemma process_ack_closing t h tx :
  st t = Closing -> fin_pending t = false -> rcv_wnd t = 65535 -> u32 (rcv_nxt t) ->
  ack_only h -> h_seq h = rcv_nxt t -> u32 (snd_una t) -> snd_nxt t = wadd (snd_una t) 1 ->
  h_ack h = snd_nxt t -> retx t = [tx] -> h_seq (s_hdr (t_seg tx)) = snd_una t -> seg_len (t_seg tx) = 1 ->
  exists w wl1 wl2,
    process_segment t (mkSeg h []) =
    Ok (set_time_wait (set_st (set_snd_window (set_retx (set_snd_una t (snd_nxt t)) []) w wl1 wl2) TimeWait)
                      (Some MSL2), PSuccess) /\
    (w = snd_wnd t \/ w = h_wnd h).
Proof.
  intros Est Hfp Hw Hu (Ha & Hr & Hsy & Hf) Hseq Huu Hnx Hack Hretx Htxs Htxl.
  assert (Hcore : exists t2, ack_est t h = (t2, PSuccess) /\
     exists w wl1 wl2, t2 = set_snd_window (set_retx (set_snd_una t (snd_nxt t)) []) w wl1 wl2 /\
                       (w = snd_wnd t \/ w = h_wnd h)).
  { unfold ack_est. rewrite Hack, Hnx, mod_leq_succ by assumption.
    unfold mod_gt. rewrite mod_lt_irrefl.
    set (t1 := remove_acked _ _).
    assert (E1 : t1 = set_retx (set_snd_una t (wadd (snd_una t) 1)) []).
    { subst t1. unfold remove_acked. tcb_simpl. rewrite Hretx. cbn [filter].
      rewrite Htxs, Htxl, mod_lt_irrefl. reflexivity. }
    destruct (_ || _).
    - eexists. split; [reflexivity|]. exists (h_wnd h), (h_seq h), (wadd (snd_una t) 1).
      rewrite E1. split; [reflexivity|auto].
    - eexists. split; [reflexivity|]. exists (snd_wnd t), (snd_wl1 t), (snd_wl2 t).
      rewrite E1. split; [tcb_eq|auto]. }
  destruct Hcore as (t2 & E2 & w & wl1 & wl2 & Et2 & Hwv).
  exists w, wl1, wl2. split; [|exact Hwv].
  unfold process_segment. tcb_simpl. rewrite Est, Hsy, Hf. change (zlen (@nil Z)) with 0.
  rewrite (is_seq_ok_ack_at_nxt t (h_seq h)) by assumption. cbn [negb].
  unfold ps_ack. rewrite Ha. cbn [negb]. rewrite Est, E2.
  assert (Hacked : is_fin_acked t2 = true).
  { rewrite Et2. unfold is_fin_acked. tcb_simpl. now rewrite Hfp, Z.eqb_refl. }
  rewrite Hacked.
  unfold ps_rst. rewrite Hr. cbn [negb]. unfold ps_syn. rewrite Hsy. cbn [negb].
  cbn [set_time_wait set_st st state_eqb]. rewrite ps_text_nil, ps_fin_nofin by exact Hf. rewrite Et2. reflexivity.
Qed.

Lemma process_ack_timewait t h :
  st t = TimeWait -> rcv_wnd t = 65535 -> u32 (rcv_nxt t) -> ack_only h -> h_seq h = rcv_nxt t ->
  process_segment t (mkSeg h []) = Ok (t, PSuccess).
Proof.
  intros Est Hw Hu (Ha & Hr & Hsy & Hf) Hseq.
  unfold process_segment. tcb_simpl. rewrite Est, Hsy, Hf. change (zlen (@nil Z)) with 0.
  rewrite (is_seq_ok_ack_at_nxt t (h_seq h)) by assumption. cbn [negb].
  unfold ps_ack. rewrite Ha. cbn [negb]. rewrite Est, Hf.
  unfold ps_rst. rewrite Hr. cbn [negb]. unfold ps_syn. rewrite Hsy. cbn [negb].
  rewrite Est. cbn [state_eqb]. rewrite ps_text_nil, ps_fin_nofin by exact Hf. reflexivity.
Qed.
