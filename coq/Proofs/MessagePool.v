(* C07: every range form against Vec slicing; pool steps, histories, frame. *)
From Coq Require Import ZifyBool.
From Elvis Require Import Model.Base Model.Message Proofs.MessageFacts.
Local Open Scope N_scope.
Ltac Zify.zify_post_hook ::= Z.div_mod_to_equations.

(* outcome relation: same kind of outcome, related values *)
Definition rel {A B} (P : A -> B -> Prop) (r : result A) (v : result B) : Prop :=
  match r, v with
  | Ok a, Ok b => P a b
  | Panic _, Panic _ => True
  | Err _, Err _ => True
  | _, _ => False
  end.

Lemma rel_bind : forall {A B C D} (P : A -> B -> Prop) (Q : C -> D -> Prop) r v f g,
  rel P r v -> (forall a b, P a b -> rel Q (f a) (g b)) -> rel Q (bind r f) (bind v g).
Proof.
  intros A B C D P Q r v f g H K. destruct r, v; cbn in *; try contradiction; auto.
Qed.

Definition Pm (m : msg) (v : list N) : Prop := WF m /\ bytes_of m = v.
Definition Ppool (p : list msg) (vs : list (list N)) : Prop := Forall WF p /\ map bytes_of p = vs.
Definition Pm2 (a : msg * msg) (b : list N * list N) : Prop := Pm (fst a) (fst b) /\ Pm (snd a) (snd b).

(* ------------------------------------------------------------------ slice vs Vec indexing *)
Lemma rel_slice_some : forall m s l, WF m ->
  rel Pm (msg_slice_inner m s (Some l)) (vsub (bytes_of m) s (s + l)).
Proof.
  intros m s l W. pose proof W as (_ & Hl & Hm). unfold vsub.
  destruct (N.ltb_spec (s + l) s); [lia|].
  destruct (N.ltb_spec (blen (bytes_of m)) (s + l)) as [Hb|Hb].
  - destruct (slice_inner_panic m s (Some l)) as (x & E); [cbn [opt_len]; lia|]. now rewrite E.
  - destruct (slice_inner_ok m s (Some l) W) as (m' & E & W' & B); [cbn [opt_len]; lia|].
    rewrite E. cbn [rel new_len] in *. split; [assumption|]. rewrite B. do 2 f_equal. lia.
Qed.

Lemma rel_slice_none : forall m s, WF m ->
  rel Pm (msg_slice_inner m s None) (vsub (bytes_of m) s (blen (bytes_of m))).
Proof.
  intros m s W. pose proof W as (_ & Hl & Hm). unfold vsub.
  destruct (N.ltb_spec (blen (bytes_of m)) s) as [Hb|Hb].
  - destruct (slice_inner_panic m s None) as (x & E); [cbn [opt_len]; lia|]. now rewrite E.
  - destruct (N.ltb_spec (blen (bytes_of m)) (blen (bytes_of m))); [lia|].
    destruct (slice_inner_ok m s None W) as (m' & E & W' & B); [cbn [opt_len]; lia|].
    rewrite E. cbn [rel new_len] in *. split; [assumption|]. rewrite B. do 2 f_equal. lia.
Qed.

Lemma rel_slice : forall m v r, Pm m v -> range_ok r -> rel Pm (msg_slice m r) (vslice v r).
Proof.
  intros m v r (W & <-) Hr. pose proof W as (_ & Hl & Hm).
  destruct r as [s e|s| |s e|e|e]; unfold msg_slice; cbn [range_into vslice bind range_ok] in *.
  - (* s..e *)
    replace (if s <? e then e - s else 0) with (e - s) by (destruct (N.ltb_spec s e); lia).
    replace e with (s + (e - s)) at 2 by lia. now apply rel_slice_some.
  - (* s.. *) now apply rel_slice_none.
  - (* .. *)
    destruct (slice_inner_ok m 0 None W) as (m' & E & W' & B); [cbn [opt_len]; lia|].
    rewrite E. cbn [rel new_len] in *. split; [assumption|]. rewrite B. cbn [N.to_nat skipn].
    rewrite N.sub_0_r, Hl, to_nat_blen. apply firstn_all.
  - (* s..=e *)
    destruct (N.leb_spec USIZE_MAX e) as [He|He].
    + rewrite uadd_panic by lia. exact I.
    + rewrite uadd_ok by lia. cbn [bind].
      destruct (N.lt_ge_cases (e + 1) s) as [Hs|Hs].
      * rewrite usub_panic by assumption. cbn [bind]. unfold vsub.
        destruct (N.ltb_spec (e + 1) s); [exact I|lia].
      * rewrite usub_ok by assumption. cbn [bind].
        replace (e + 1) with (s + (e + 1 - s)) at 2 by lia. now apply rel_slice_some.
  - (* ..e *) replace e with (0 + e) at 2 by lia. now apply rel_slice_some.
  - (* ..=e *)
    destruct (N.leb_spec USIZE_MAX e) as [He|He].
    + rewrite uadd_panic by lia. exact I.
    + rewrite uadd_ok by lia. cbn [bind].
      replace (e + 1) with (0 + (e + 1)) at 2 by lia. now apply rel_slice_some.
Qed.

(* the remark: `s..e` with e < s.  The code builds SliceRange{start: s, len: 0}: an empty
   message when s <= len, where Vec indexing panics for every such range. *)
Lemma inverted_range : forall m s e, WF m -> e < s ->
  (exists x, vslice (bytes_of m) (RRange s e) = Panic x) /\
  (s <= mlen m -> exists m', msg_slice m (RRange s e) = Ok m' /\ WF m' /\ bytes_of m' = []) /\
  (mlen m < s -> exists x, msg_slice m (RRange s e) = Panic x).
Proof.
  intros m s e W H. unfold msg_slice; cbn [range_into vslice bind]. unfold vsub.
  destruct (N.ltb_spec e s); [|lia]. destruct (N.ltb_spec s e); [lia|]. repeat split.
  - now eexists.
  - intros Hs. destruct (slice_inner_ok m s (Some 0) W) as (m' & E & W' & B); [cbn [opt_len]; lia|].
    exists m'. split; [assumption|split; [assumption|exact B]].
  - intros Hs. apply slice_inner_panic. cbn [opt_len]. lia.
Qed.

(* ------------------------------------------------------------------ the other operations *)
Lemma rel_new : forall b, is_vec b -> rel Pm (msg_new b) (Ok b).
Proof. intros b H. destruct (new_ok b H) as (m & E & W & B). rewrite E. now split. Qed.

Lemma rel_header : forall m v b, Pm m v -> is_vec b -> rel Pm (msg_header m b) (vappend b v).
Proof.
  intros m v b (W & <-) Hb. pose proof W as (_ & Hl & Hm). unfold vappend.
  destruct (N.leb_spec (blen b + blen (bytes_of m)) USIZE_MAX) as [H|H].
  - destruct (header_ok m b W Hb) as (m' & E & W' & B); [lia|]. rewrite E. now split.
  - rewrite header_panic by (assumption || lia). exact I.
Qed.

Lemma rel_concat : forall m v o w, Pm m v -> Pm o w -> rel Pm (msg_concat m o) (vappend v w).
Proof.
  intros m v o w (W & <-) (Wo & <-). pose proof W as (_ & Hl & Hm). pose proof Wo as (_ & Hl' & Hm').
  unfold vappend.
  destruct (N.leb_spec (blen (bytes_of m) + blen (bytes_of o)) USIZE_MAX) as [H|H].
  - destruct (concat_ok m o W Wo) as (m' & E & W' & B); [lia|]. rewrite E. now split.
  - rewrite concat_panic by lia. exact I.
Qed.

Lemma rel_cut : forall m v n, Pm m v -> rel Pm2 (msg_cut m n) (vcut v n).
Proof.
  intros m v n (W & <-). pose proof W as (_ & Hl & Hm). unfold vcut.
  destruct (N.ltb_spec (blen (bytes_of m)) n) as [H|H].
  - rewrite cut_panic by lia. exact I.
  - destruct (cut_ok m n W) as (rest & front & E & Wr & Wf & Bf & Br); [lia|]. rewrite E.
    cbn [rel]. unfold Pm2, Pm; cbn [fst snd]. split; split; assumption.
Qed.

Lemma rel_remove_front : forall m v n, Pm m v ->
  rel Pm (msg_remove_front m n) (do (rest, _) <- vcut v n; Ok rest).
Proof.
  intros m v n (W & <-). pose proof W as (_ & Hl & Hm). unfold vcut.
  destruct (N.ltb_spec (blen (bytes_of m)) n) as [H|H].
  - rewrite remove_front_panic by lia. exact I.
  - destruct (remove_front_ok m n W) as (m' & E & W' & B); [lia|]. rewrite E. cbn [bind rel]. now split.
Qed.

(* ------------------------------------------------------------------ pool access *)
Section PoolFacts.
  Context {A : Type}.
  Lemma upd_length : forall d (x : A) l, length (upd d x l) = length l.
  Proof. intros d x l; revert d; induction l as [|h t IH]; intros [|d]; cbn [upd length]; auto. Qed.
  Lemma nth_error_upd_other : forall d k (x : A) l, k <> d -> nth_error (upd d x l) k = nth_error l k.
  Proof.
    intros d k x l; revert d k; induction l as [|h t IH]; intros [|d] [|k] H; cbn [upd nth_error]; auto.
    congruence.
  Qed.
  Lemma nth_error_upd_same : forall d (x : A) l, (d < length l)%nat -> nth_error (upd d x l) d = Some x.
  Proof.
    intros d x l; revert d; induction l as [|h t IH]; intros [|d] H; cbn [upd nth_error length] in *;
      try lia; auto. apply IH. lia.
  Qed.
  Lemma Forall_upd : forall (P : A -> Prop) d x l, P x -> Forall P l -> Forall P (upd d x l).
  Proof.
    intros P d x l Hx; revert d; induction l as [|h t IH]; intros [|d] H; cbn [upd]; auto;
      inversion H; subst; constructor; auto.
  Qed.
End PoolFacts.

Lemma map_upd : forall {A B} (f : A -> B) d x l, map f (upd d x l) = upd d (f x) (map f l).
Proof.
  intros A B f d x l; revert d; induction l as [|h t IH]; intros [|d]; cbn [upd map]; auto.
  now rewrite IH.
Qed.

Lemma rel_pget : forall p vs i, Ppool p vs -> rel Pm (pget p i) (pget vs i).
Proof.
  intros p vs i (W & <-). unfold pget. rewrite nth_error_map.
  destruct (nth_error p i) as [m|] eqn:E; cbn [option_map rel]; [|exact I].
  split; [|reflexivity]. rewrite Forall_forall in W. apply W. eapply nth_error_In; eassumption.
Qed.

Lemma rel_pset : forall p vs d m v, Ppool p vs -> Pm m v -> rel Ppool (pset p d m) (pset vs d v).
Proof.
  intros p vs d m v (W & <-) (Wm & <-). unfold pset. rewrite map_length.
  destruct (Nat.ltb_spec d (length p)); cbn [rel]; [|exact I].
  split; [now apply Forall_upd|apply map_upd].
Qed.

(* ------------------------------------------------------------------ one step, histories *)
Lemma vcut_rf_eq : forall v n (vs : list (list N)) i,
  (do (rest, _) <- vcut v n; pset vs i rest) =
  bind (do (rest, _) <- vcut v n; Ok rest) (fun rest => pset vs i rest).
Proof. intros. destruct (vcut v n) as [[a b]| | |]; reflexivity. Qed.

Lemma step_refines : forall o p vs, Ppool p vs -> op_ok o -> rel Ppool (step o p) (vstep o vs).
Proof.
  intros o p vs HP Hok. destruct o as [d b|d i|i b|i j|i r|d i n|i n]; cbn [step vstep op_ok] in *.
  - change (pset vs d b) with (bind (Ok b) (fun v => pset vs d v)).
    eapply rel_bind; [apply rel_new; assumption|]. intros m v Hm. now apply rel_pset.
  - eapply rel_bind; [apply rel_pget; assumption|]. intros m v Hm. now apply rel_pset.
  - eapply rel_bind; [apply rel_pget; assumption|]. intros m v Hm.
    eapply rel_bind; [apply rel_header; assumption|]. intros m' v' Hm'. now apply rel_pset.
  - eapply rel_bind; [apply rel_pget; assumption|]. intros m v Hm.
    eapply rel_bind; [apply rel_pget; assumption|]. intros o w Ho.
    eapply rel_bind; [apply rel_concat; assumption|]. intros m' v' Hm'. now apply rel_pset.
  - eapply rel_bind; [apply rel_pget; assumption|]. intros m v Hm.
    eapply rel_bind; [apply rel_slice; assumption|]. intros m' v' Hm'. now apply rel_pset.
  - eapply rel_bind; [apply rel_pget; assumption|]. intros m v Hm.
    eapply rel_bind; [apply rel_cut; eassumption|]. intros [rest front] [vr vf] (Hr & Hf); cbn [fst snd] in *.
    eapply rel_bind; [apply rel_pset; eassumption|]. intros p1 v1 H1. now apply rel_pset.
  - eapply rel_bind; [apply rel_pget; assumption|]. intros m v Hm.
    rewrite vcut_rf_eq.
    eapply rel_bind; [apply rel_remove_front; assumption|]. intros m' v' Hm'. now apply rel_pset.
Qed.

Lemma history : forall ops p vs, Ppool p vs -> Forall op_ok ops ->
  rel Ppool (run_pool ops p) (run_vecs ops vs).
Proof.
  induction ops as [|o ops IH]; intros p vs HP Hok; cbn [run_pool run_vecs].
  - exact HP.
  - inversion Hok; subst. eapply rel_bind; [apply step_refines; assumption|].
    intros p' vs' HP'. now apply IH.
Qed.

(* ------------------------------------------------------------------ frame *)
Lemma bind_ok_inv : forall {A B} (r : result A) (f : A -> result B) b,
  bind r f = Ok b -> exists a, r = Ok a /\ f a = Ok b.
Proof. intros A B [a| | |] f b H; cbn in H; try discriminate. now exists a. Qed.

Lemma pset_ok_inv : forall {A} (l : list A) d x l', pset l d x = Ok l' -> l' = upd d x l.
Proof. intros A l d x l' H. unfold pset in H. destruct (d <? length l)%nat; congruence. Qed.

Ltac inv_binds :=
  repeat match goal with
  | H : bind _ _ = Ok _ |- _ =>
      let a := fresh "a" in let E := fresh "E" in
      apply bind_ok_inv in H; destruct H as (a & E & H)
  | H : (let (_, _) := ?x in _) = Ok _ |- _ => destruct x
  | H : pset _ _ _ = Ok _ |- _ => apply pset_ok_inv in H
  end.

Lemma frame : forall o p p' k, step o p = Ok p' -> ~ In k (targets o) ->
  nth_error p' k = nth_error p k.
Proof.
  intros o p p' k H Hk.
  destruct o; cbn [step targets In] in *; inv_binds; subst;
    rewrite ?nth_error_upd_other by (intuition congruence); reflexivity.
Qed.

Lemma step_length : forall o p p', step o p = Ok p' -> length p' = length p.
Proof.
  intros o p p' H. destruct o; cbn [step] in *; inv_binds; subst; now rewrite ?upd_length.
Qed.

Lemma frame_history : forall ops p p' k, run_pool ops p = Ok p' ->
  (forall o, In o ops -> ~ In k (targets o)) -> nth_error p' k = nth_error p k.
Proof.
  induction ops as [|o ops IH]; intros p p' k H Hk; cbn [run_pool] in H.
  - now inversion H.
  - apply bind_ok_inv in H as (p1 & E & H).
    rewrite (IH p1 p' k H) by (intros o' Ho'; apply Hk; now right).
    apply (frame o); [assumption|]. apply Hk. now left.
Qed.

(* what an op writes is exactly what its result on plain vectors says: slot contents of
   the written slots, for completeness of the aliasing picture *)
Lemma clone_independent : forall d i p p1 ops p2 m,
  step (OClone d i) p = Ok p1 -> d <> i -> nth_error p i = Some m ->
  run_pool ops p1 = Ok p2 -> (forall o, In o ops -> ~ In i (targets o)) ->
  nth_error p2 i = Some m.
Proof.
  intros d i p p1 ops p2 m H1 Hdi Hm H2 Hfr.
  rewrite (frame_history ops p1 p2 i H2 Hfr).
  rewrite (frame (OClone d i) p p1 i H1); [assumption|]. cbn [targets In]. intros [->|[]]. congruence.
Qed.
