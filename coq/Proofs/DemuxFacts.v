(* C04 — facts about the binding tables, the receive pipeline and the trace validator of Model/Demux.v *)
From Coq Require Import ZArith List Bool Lia Permutation.
From Elvis Require Import Model.Base Model.Demux.
Import ListNotations.
Local Open Scope Z_scope.

(* ---------- keys and tables ---------- *)
Lemma key_eqb_eq : forall a b : key, key_eqb a b = true <-> a = b.
Proof.
  intros [a1 a2] [b1 b2]. unfold key_eqb. cbn [fst snd].
  rewrite andb_true_iff, !Z.eqb_eq. split.
  - intros [-> ->]. reflexivity.
  - intros H. inversion H. split; reflexivity.
Qed.

Lemma key_eqb_refl : forall a : key, key_eqb a a = true.
Proof. intros a. apply key_eqb_eq. reflexivity. Qed.

Lemma key_eqb_neq : forall a b : key, a <> b -> key_eqb a b = false.
Proof.
  intros a b H. destruct (key_eqb a b) eqn:E; [|reflexivity].
  apply key_eqb_eq in E. contradiction.
Qed.

Lemma tget_cons_eq : forall t k v, tget ((k, v) :: t) k = Some v.
Proof. intros. cbn [tget]. rewrite key_eqb_refl. reflexivity. Qed.

Lemma tget_cons_neq : forall t k k' v, k' <> k -> tget ((k', v) :: t) k = tget t k.
Proof. intros. cbn [tget]. rewrite key_eqb_neq by assumption. reflexivity. Qed.

Lemma tget_In : forall t k v, tget t k = Some v -> In (k, v) t.
Proof.
  induction t as [|[k' v'] r IH]; intros k v H; cbn [tget] in H; [discriminate|].
  destruct (key_eqb k' k) eqn:E.
  - apply key_eqb_eq in E. inversion H. subst. left. reflexivity.
  - right. apply IH. exact H.
Qed.

(* ---------- the lookup ---------- *)
Lemma lookup_exact_wins : forall (b : tbl) a p x,
  tget b (a, p) = Some x -> tlookup b (a, p) = Some x.
Proof. intros b a p x H. unfold tlookup. rewrite H. reflexivity. Qed.

Lemma lookup_wildcard : forall (b : tbl) a p,
  tget b (a, p) = None -> tlookup b (a, p) = tget b (ANY, p).
Proof. intros b a p H. unfold tlookup. rewrite H. reflexivity. Qed.

Lemma lookup_sound : forall (b : tbl) a p x,
  tlookup b (a, p) = Some x ->
  tget b (a, p) = Some x \/ (tget b (a, p) = None /\ tget b (ANY, p) = Some x).
Proof.
  intros b a p x H. unfold tlookup in H. cbn [snd] in H.
  destruct (tget b (a, p)) as [v|] eqn:E.
  - left. exact H.
  - right. split; [reflexivity | exact H].
Qed.

Lemma lookup_none : forall (b : tbl) a p,
  tlookup b (a, p) = None <-> tget b (a, p) = None /\ tget b (ANY, p) = None.
Proof.
  intros b a p. unfold tlookup. cbn [snd]. destruct (tget b (a, p)) eqn:E; split.
  - discriminate.
  - intros [H _]. discriminate.
  - intros H. split; [reflexivity | exact H].
  - intros [_ H]. exact H.
Qed.

(* the lookup for (a,p) consults exactly two entries: (a,p) and (0.0.0.0,p) *)
Lemma lookup_frame : forall (b b' : tbl) a p,
  tget b (a, p) = tget b' (a, p) -> tget b (ANY, p) = tget b' (ANY, p) ->
  tlookup b (a, p) = tlookup b' (a, p).
Proof. intros b b' a p H1 H2. unfold tlookup. cbn [snd]. rewrite H1, H2. reflexivity. Qed.

(* consequently a binding with another port, or with another specific address, is irrelevant *)
Lemma lookup_ignores_other : forall (b : tbl) a p a' p' y,
  (p' <> p \/ (a' <> a /\ a' <> ANY)) ->
  tlookup (((a', p'), y) :: b) (a, p) = tlookup b (a, p).
Proof.
  intros b a p a' p' y H. apply lookup_frame.
  - apply tget_cons_neq. intros E. inversion E. subst. destruct H as [H|[H _]]; contradiction.
  - apply tget_cons_neq. intros E. inversion E. subst. destruct H as [H|[_ H]]; contradiction.
Qed.

(* the application found was bound with the SAME port and with the destination address or 0.0.0.0 *)
Lemma lookup_binding_key : forall (b : tbl) a p x,
  tlookup b (a, p) = Some x -> exists a', (a' = a \/ a' = ANY) /\ In ((a', p), x) b.
Proof.
  intros b a p x H. apply lookup_sound in H. destruct H as [H|[_ H]].
  - exists a. split; [left; reflexivity | apply tget_In; exact H].
  - exists ANY. split; [right; reflexivity | apply tget_In; exact H].
Qed.

(* ---------- listen ---------- *)
Lemma zmem_true : forall x l, zmem x l = true <-> In x l.
Proof.
  induction l as [|y r IH]; cbn [zmem In].
  - split; [discriminate | tauto].
  - rewrite orb_true_iff, Z.eqb_eq, IH. split; intros [H|H]; auto.
Qed.

Lemma arp_listen_fields : forall a s,
  udp_b (arp_listen a s) = udp_b s /\ ip_b (arp_listen a s) = ip_b s /\
  protos (arp_listen a s) = protos s /\ has_arp (arp_listen a s) = has_arp s.
Proof. intros a s. unfold arp_listen. destruct (zmem a (arp_ips s)); cbn; auto. Qed.

Lemma rebind_refused : forall s up e x,
  tget (udp_b s) e = Some x -> udp_listen s up e = (LExisting, s).
Proof. intros s up e x H. unfold udp_listen. rewrite H. reflexivity. Qed.

(* well-formed states: what a sequence of UDP binds establishes and keeps *)
Definition wf (s : mstate) : Prop :=
  (forall a p x, tget (udp_b s) (a, p) = Some x -> tget (ip_b s) (a, UDP_PROTO) = Some UDP_TID) /\
  (forall a u, tget (ip_b s) (a, UDP_PROTO) = Some u -> u = UDP_TID) /\
  zmem UDP_TID (protos s) = true /\
  (forall k x, tget (udp_b s) k = Some x -> zmem x (protos s) = true).

Lemma wf_arp_listen : forall a s, wf s -> wf (arp_listen a s).
Proof.
  intros a s H. destruct (arp_listen_fields a s) as (E1 & E2 & E3 & _).
  unfold wf. rewrite E1, E2, E3. exact H.
Qed.

Definition pre_ip (s : mstate) (a : Z) : mstate :=
  if has_arp s && negb (a =? BCAST) then arp_listen a s else s.

Lemma pre_ip_fields : forall s a,
  udp_b (pre_ip s a) = udp_b s /\ ip_b (pre_ip s a) = ip_b s /\ protos (pre_ip s a) = protos s
  /\ has_arp (pre_ip s a) = has_arp s.
Proof.
  intros s a. unfold pre_ip. destruct (has_arp s && negb (a =? BCAST)).
  - apply arp_listen_fields.
  - auto.
Qed.

Lemma ipv4_listen_unfold : forall s up a proto,
  ipv4_listen s up a proto =
  match tget (ip_b (pre_ip s a)) (a, proto) with
  | Some u => if u =? up then (LOk, pre_ip s a) else (LIpExists, pre_ip s a)
  | None => (LOk, set_ip_b (pre_ip s a) (((a, proto), up) :: ip_b (pre_ip s a)))
  end.
Proof. reflexivity. Qed.

(* result and effect of a UDP bind on a vacant endpoint of a well-formed state *)
Lemma udp_listen_vacant : forall s app a p,
  wf s -> tget (udp_b s) (a, p) = None ->
  exists s', udp_listen s app (a, p) = (LOk, s') /\
    udp_b s' = ((a, p), app) :: udp_b s /\
    tget (ip_b s') (a, UDP_PROTO) = Some UDP_TID /\
    (forall k, k <> (a, UDP_PROTO) -> tget (ip_b s') k = tget (ip_b s) k) /\
    (forall u, tget (ip_b s) (a, UDP_PROTO) = Some u -> ip_b s' = ip_b s) /\
    protos s' = protos s /\ has_arp s' = has_arp s.
Proof.
  intros s app a p (W1 & W2 & W3 & W4) V.
  unfold udp_listen. rewrite V. cbn [fst]. rewrite ipv4_listen_unfold.
  match goal with |- context [pre_ip ?x a] => set (s1 := x) end.
  destruct (pre_ip_fields s1 a) as (E1 & E2 & E3 & E4).
  assert (Hu : udp_b s1 = ((a, p), app) :: udp_b s) by reflexivity.
  assert (Hi : ip_b s1 = ip_b s) by reflexivity.
  assert (Hp : protos s1 = protos s) by reflexivity.
  assert (Ha : has_arp s1 = has_arp s) by reflexivity.
  rewrite E2, Hi.
  destruct (tget (ip_b s) (a, UDP_PROTO)) as [u|] eqn:G.
  - assert (u = UDP_TID) by (eapply W2; exact G). subst u.
    rewrite Z.eqb_refl. exists (pre_ip s1 a). split; [reflexivity|].
    rewrite ?E1, ?E2, ?E3, ?E4, ?Hu, ?Hi, ?Hp, ?Ha. repeat split; auto.
  - eexists. split; [reflexivity|]. cbn [udp_b ip_b protos has_arp set_ip_b].
    rewrite ?E1, ?E2, ?E3, ?E4, ?Hu, ?Hi, ?Hp, ?Ha. repeat split; auto.
    + apply tget_cons_eq.
    + intros k Hk. apply tget_cons_neq. congruence.
    + intros u Hu'. discriminate.
Qed.

Lemma wf_udp_listen : forall s app e,
  wf s -> zmem app (protos s) = true -> wf (snd (udp_listen s app e)).
Proof.
  intros s app [a p] W Happ.
  destruct (tget (udp_b s) (a, p)) as [x|] eqn:V.
  - rewrite (rebind_refused _ _ _ _ V). exact W.
  - destruct (udp_listen_vacant s app a p W V) as (s' & E & Hu & Hi & Hother & Hsame & Hp & _).
    rewrite E. cbn [snd]. destruct W as (W1 & W2 & W3 & W4).
    unfold wf. rewrite Hu, Hp. repeat split.
    + intros a0 p0 x H. destruct (Z.eq_dec a0 a) as [->|Na]; [exact Hi|].
      rewrite tget_cons_neq in H by congruence.
      rewrite Hother by congruence. eapply W1. exact H.
    + intros a0 u H. destruct (Z.eq_dec a0 a) as [->|Na].
      * rewrite Hi in H. congruence.
      * rewrite Hother in H by congruence. eapply W2. exact H.
    + exact W3.
    + intros k x H. cbn [tget] in H. destruct (key_eqb (a, p) k).
      * inversion H. subst. exact Happ.
      * eapply W4. exact H.
Qed.

Lemma udp_listen_then_bound : forall s app a p,
  wf s -> tget (udp_b s) (a, p) = None ->
  fst (udp_listen s app (a, p)) = LOk /\
  tget (udp_b (snd (udp_listen s app (a, p)))) (a, p) = Some app /\
  (forall k, k <> (a, p) -> tget (udp_b (snd (udp_listen s app (a, p)))) k = tget (udp_b s) k).
Proof.
  intros s app a p W V.
  destruct (udp_listen_vacant s app a p W V) as (s' & E & Hu & _).
  rewrite E. cbn [fst snd]. rewrite Hu. split; [reflexivity|]. split.
  - apply tget_cons_eq.
  - intros k Hk. apply tget_cons_neq. congruence.
Qed.

(* the bind operations of the property's universe: UDP binds by applications present on the machine *)
Definition udp_op (present : list Z) (op : lop) : Prop :=
  match op with
  | LUdp app _ | LOpen app _ => zmem app present = true
  | LRaw _ _ => False
  end.

Lemma ip_open_fields : forall rt s a,
  udp_b (snd (ip_open rt s a)) = udp_b s /\ ip_b (snd (ip_open rt s a)) = ip_b s /\
  protos (snd (ip_open rt s a)) = protos s.
Proof.
  intros rt s a. unfold ip_open. destruct (rget rt a) as [[m|]|]; cbn [snd]; auto.
  destruct (has_arp s); cbn [snd]; auto.
  destruct (arp_listen_fields a s) as (E1 & E2 & E3 & _). auto.
Qed.

Lemma wf_ip_open : forall rt s a, wf s -> wf (snd (ip_open rt s a)).
Proof.
  intros rt s a W. destruct (ip_open_fields rt s a) as (E1 & E2 & E3).
  unfold wf. rewrite E1, E2, E3. exact W.
Qed.

Lemma protos_udp_listen : forall s app e, wf s -> protos (snd (udp_listen s app e)) = protos s.
Proof.
  intros s app [a p] W. destruct (tget (udp_b s) (a, p)) as [x|] eqn:V.
  - rewrite (rebind_refused _ _ _ _ V). reflexivity.
  - destruct (udp_listen_vacant s app a p W V) as (s' & E & _ & _ & _ & _ & Hp & _).
    rewrite E. exact Hp.
Qed.

Lemma wf_run_lop : forall rt s op,
  wf s -> udp_op (protos s) op ->
  wf (snd (run_lop rt s op)) /\ protos (snd (run_lop rt s op)) = protos s.
Proof.
  intros rt s op W Hop. destruct op as [app e|app e|app a]; cbn [udp_op] in Hop; [| |contradiction].
  - cbn [run_lop]. pose proof (wf_udp_listen s app e W Hop) as W'.
    pose proof (protos_udp_listen s app e W) as P'.
    destruct (udp_listen s app e) as [r s']. cbn [snd] in *. auto.
  - cbn [run_lop]. pose proof (wf_udp_listen s app e W Hop) as W'.
    pose proof (protos_udp_listen s app e W) as P'.
    destruct (udp_listen s app e) as [r s']. cbn [snd] in *.
    destruct r; cbn [snd]; auto.
    pose proof (wf_ip_open rt s' (fst e) W') as W''.
    destruct (ip_open_fields rt s' (fst e)) as (_ & _ & E3).
    destruct (ip_open rt s' (fst e)) as [o s'']. cbn [snd] in *. split; [exact W''|congruence].
Qed.

Lemma wf_run_lops : forall rt ops s,
  wf s -> Forall (udp_op (protos s)) ops -> wf (snd (run_lops rt s ops)).
Proof.
  intros rt ops. induction ops as [|op r IH]; intros s W F; cbn [run_lops].
  - exact W.
  - inversion F as [|? ? Hop Fr]; subst.
    destruct (wf_run_lop rt s op W Hop) as [W1 P1].
    destruct (run_lop rt s op) as [c s1]. cbn [snd] in *.
    specialize (IH s1 W1). rewrite P1 in IH. specialize (IH Fr).
    destruct (run_lops rt s1 r) as [cs s2]. cbn [snd] in *. exact IH.
Qed.

Lemma wf_init : forall mc, zmem UDP_TID (mc_protos mc) = true -> wf (init_state mc).
Proof.
  intros mc H. unfold wf, init_state. cbn [udp_b ip_b protos tget]. repeat split; try discriminate.
  exact H.
Qed.

Lemma wf_final_state : forall mc,
  zmem UDP_TID (mc_protos mc) = true -> Forall (udp_op (mc_protos mc)) (mc_listens mc) ->
  wf (final_state mc).
Proof.
  intros mc H F. unfold final_state. apply wf_run_lops; [apply wf_init; exact H | exact F].
Qed.

(* multiset equality *)
Section MSetFacts.
  Variable A : Type.
  Variable eqb : A -> A -> bool.
  Variable eqb_ok : forall a b, eqb a b = true -> a = b.

  Lemma remove1_perm : forall x l l', remove1 eqb x l = Some l' -> Permutation l (x :: l').
  Proof.
    intros x l. induction l as [|y r IH]; intros l' H; cbn [remove1] in H; [discriminate|].
    destruct (eqb x y) eqn:E.
    - apply eqb_ok in E. inversion H. subst. apply Permutation_refl.
    - destruct (remove1 eqb x r) as [r'|] eqn:R; [|discriminate].
      inversion H. subst. specialize (IH r' eq_refl).
      eapply Permutation_trans; [apply perm_skip; exact IH | apply perm_swap].
  Qed.

  Lemma msub_eq_perm : forall a b, msub_eq eqb a b = true -> Permutation a b.
  Proof.
    induction a as [|x a' IH]; intros b H; cbn [msub_eq] in H.
    - destruct b; [apply perm_nil | discriminate].
    - destruct (remove1 eqb x b) as [b'|] eqn:R; [|discriminate].
      apply remove1_perm in R. apply Permutation_sym.
      eapply Permutation_trans; [exact R|]. apply perm_skip. apply Permutation_sym. apply IH. exact H.
  Qed.

  Lemma list_eqb_eq : forall a b : list A, list_eqb eqb a b = true -> a = b.
  Proof.
    induction a as [|x a' IH]; intros [|y b'] H; cbn [list_eqb] in H; try discriminate; [reflexivity|].
    apply andb_true_iff in H. destruct H as [H1 H2]. apply eqb_ok in H1. apply IH in H2. congruence.
  Qed.
End MSetFacts.

Section PayloadFacts.
  Variable P : Type.
  Variable plen : P -> Z.
  Variable peqb : P -> P -> bool.
  Variable peqb_ok : forall a b, peqb a b = true -> a = b.

  Lemma proto_class_udp : proto_class UDP_PROTO = UDP_PROTO.
  Proof. reflexivity. Qed.

  (* ---------- the receive pipeline on a well-formed state ---------- *)
  Lemma receive_bound : forall s (d : dgram P) app,
    wf s -> tlookup (udp_b s) (d_dst d) = Some app ->
    ip_demux s UDP_PROTO d = Deliver app (d_dst d) (d_src d) (d_payload d).
  Proof.
    intros s d app (W1 & W2 & W3 & W4) L. destruct (d_dst d) as [a p] eqn:Ed.
    assert (Lip : tlookup (ip_b s) (a, UDP_PROTO) = Some UDP_TID).
    { apply lookup_sound in L. destruct L as [L|[_ L]].
      - apply lookup_exact_wins. eapply W1. exact L.
      - unfold tlookup. cbn [snd]. destruct (tget (ip_b s) (a, UDP_PROTO)) as [u|] eqn:G.
        + f_equal. eapply W2. exact G.
        + eapply W1. exact L. }
    assert (Happ : zmem app (protos s) = true).
    { apply lookup_sound in L. destruct L as [L|[_ L]]; eapply W4; exact L. }
    unfold ip_demux. rewrite Ed. cbn [fst]. rewrite proto_class_udp, Lip, W3, Z.eqb_refl.
    unfold udp_demux. rewrite Ed, L, Happ. reflexivity.
  Qed.

  Lemma receive_unbound : forall s (d : dgram P),
    wf s -> tlookup (udp_b s) (d_dst d) = None ->
    ip_demux s UDP_PROTO d = DropIpNoBinding \/ ip_demux s UDP_PROTO d = DropUdpNoBinding.
  Proof.
    intros s d (W1 & W2 & W3 & W4) L. destruct (d_dst d) as [a p] eqn:Ed.
    unfold ip_demux. rewrite Ed. cbn [fst]. rewrite proto_class_udp.
    destruct (tlookup (ip_b s) (a, UDP_PROTO)) as [u|] eqn:Lip; [|left; reflexivity].
    assert (u = UDP_TID).
    { apply lookup_sound in Lip. destruct Lip as [G|[_ G]]; eapply W2; exact G. }
    subst u. rewrite W3, Z.eqb_refl. unfold udp_demux. rewrite Ed, L. right. reflexivity.
  Qed.

  Lemma events_of_bound : forall s m (d : dgram P) app,
    wf s -> tlookup (udp_b s) (d_dst d) = Some app ->
    events_of s m d = [mkDev 0 app m (d_dst d) (d_src d) (d_payload d)].
  Proof. intros. unfold events_of. rewrite (receive_bound s d app); auto. Qed.

  Lemma events_of_unbound : forall s m (d : dgram P),
    wf s -> tlookup (udp_b s) (d_dst d) = None -> events_of s m d = [].
  Proof.
    intros s m d W L. unfold events_of.
    destruct (receive_unbound s d W L) as [E|E]; rewrite E; reflexivity.
  Qed.

  Lemma events_of_spec : forall s m (d : dgram P) e,
    wf s -> In e (events_of s m d) ->
    tlookup (udp_b s) (d_dst d) = Some (e_app e) /\
    e = mkDev 0 (e_app e) m (d_dst d) (d_src d) (d_payload d).
  Proof.
    intros s m d e W H. destruct (tlookup (udp_b s) (d_dst d)) as [app|] eqn:L.
    - rewrite (events_of_bound s m d app W L) in H. destruct H as [H|[]]. subst e. cbn. auto.
    - rewrite (events_of_unbound s m d W L) in H. destruct H.
  Qed.

  (* ---------- send path ---------- *)
  Lemma send_within_limit : forall mtu mac (d : dgram P),
    0 <= plen (d_payload d) <= mtu - 28 -> mtu <= 65535 ->
    exists l, udp_send plen mtu mac d = SOk l.
  Proof.
    intros mtu mac d Hl Hm. unfold udp_send.
    (* explicit order reasoning instead of lia: keeps Print Assumptions cheap *)
    assert (HL : plen (d_payload d) <= 65507).
    { eapply Z.le_trans; [apply Hl|]. change 65507 with (65535 - 28). apply Z.sub_le_mono_r. exact Hm. }
    assert (E1 : (65535 <? plen (d_payload d) + 8) = false).
    { apply Z.ltb_ge. apply Z.le_trans with (65507 + 8); [apply Z.add_le_mono_r; exact HL | apply Z.leb_le; reflexivity]. }
    assert (E2 : (65535 <? plen (d_payload d) + 8 + 20) = false).
    { apply Z.ltb_ge. apply Z.le_trans with (65507 + 8 + 20);
        [apply Z.add_le_mono_r; apply Z.add_le_mono_r; exact HL | apply Z.leb_le; reflexivity]. }
    assert (E3 : (mtu <? plen (d_payload d) + 28) = false).
    { apply Z.ltb_ge. apply Z.le_add_le_sub_r. apply Hl. }
    rewrite E1, E2, E3.
    destruct (fst (d_dst d) =? BCAST); [eexists; reflexivity|].
    destruct (is_loopback (fst (d_dst d))); eexists; reflexivity.
  Qed.

  Lemma send_over_limit : forall mtu mac (d : dgram P),
    mtu - 28 < plen (d_payload d) -> mtu <= 65535 -> is_loopback (fst (d_dst d)) = false ->
    forall l, udp_send plen mtu mac d <> SOk l.
  Proof.
    intros mtu mac d Hl Hm Hlo l. unfold udp_send.
    destruct (65535 <? plen (d_payload d) + 8); [discriminate|].
    destruct (65535 <? plen (d_payload d) + 8 + 20); [discriminate|].
    assert (E3 : (mtu <? plen (d_payload d) + 28) = true).
    { apply Z.ltb_lt. apply Z.lt_sub_lt_add_r. exact Hl. }
    rewrite E3, Hlo. destruct (fst (d_dst d) =? BCAST); discriminate.
  Qed.

  Lemma send_link_dst : forall mtu mac (d : dgram P) l,
    udp_send plen mtu mac d = SOk l ->
    l = (if fst (d_dst d) =? BCAST then ToBroadcast
         else if is_loopback (fst (d_dst d)) then ToSelf else ToMac mac).
  Proof.
    intros mtu mac d l. unfold udp_send.
    destruct (65535 <? plen (d_payload d) + 8); [discriminate|].
    destruct (65535 <? plen (d_payload d) + 8 + 20); [discriminate|].
    destruct (fst (d_dst d) =? BCAST).
    - destruct (mtu <? plen (d_payload d) + 28); [discriminate|]. congruence.
    - destruct (is_loopback (fst (d_dst d))); [congruence|].
      destruct (mtu <? plen (d_payload d) + 28); [discriminate|]. congruence.
  Qed.

  (* ---------- sets of arrivals: order, and the irrelevance of unbound datagrams ---------- *)
  Definition deliveries (s : mstate) (m : nat) (l : list (dgram P)) : list (dev P) :=
    flat_map (events_of s m) l.

  Lemma flat_map_perm : forall (A B : Type) (f : A -> list B) l l',
    Permutation l l' -> Permutation (flat_map f l) (flat_map f l').
  Proof.
    intros A B f l l' H. induction H; cbn [flat_map].
    - apply perm_nil.
    - apply Permutation_app_head. exact IHPermutation.
    - rewrite !app_assoc. apply Permutation_app_tail. apply Permutation_app_comm.
    - eapply Permutation_trans; eassumption.
  Qed.

  Lemma deliveries_order : forall s m l l',
    Permutation l l' -> Permutation (deliveries s m l) (deliveries s m l').
  Proof. intros. apply flat_map_perm. assumption. Qed.

  Lemma deliveries_drop_unbound : forall s m l1 (d : dgram P) l2,
    wf s -> tlookup (udp_b s) (d_dst d) = None ->
    deliveries s m (l1 ++ d :: l2) = deliveries s m (l1 ++ l2).
  Proof.
    intros s m l1 d l2 W L. unfold deliveries. rewrite !flat_map_app. cbn [flat_map].
    rewrite (events_of_unbound s m d W L). reflexivity.
  Qed.

  (* ---------- the validator ---------- *)
  Lemma dgram_eqb_ok : forall a b : dgram P, dgram_eqb peqb a b = true -> a = b.
  Proof.
    intros [s1 t1 p1] [s2 t2 p2] H. unfold dgram_eqb in H. cbn in H.
    apply andb_true_iff in H. destruct H as [H H3]. apply andb_true_iff in H. destruct H as [H1 H2].
    apply key_eqb_eq in H1. apply key_eqb_eq in H2. apply peqb_ok in H3. congruence.
  Qed.

  Lemma sop_eqb_ok : forall a b : sop P, sop_eqb peqb a b = true -> a = b.
  Proof.
    intros [m1 d1] [m2 d2] H. unfold sop_eqb in H. cbn in H.
    apply andb_true_iff in H. destruct H as [H1 H2].
    apply Nat.eqb_eq in H1. apply dgram_eqb_ok in H2. congruence.
  Qed.

  Lemma dev_eqb_ok : forall a b : dev P, dev_eqb peqb a b = true -> a = b.
  Proof.
    intros [k1 a1 m1 l1 r1 p1] [k2 a2 m2 l2 r2 p2] H. unfold dev_eqb in H. cbn in H.
    repeat (apply andb_true_iff in H; let H' := fresh "H" in destruct H as [H H']).
    apply Z.eqb_eq in H. apply Z.eqb_eq in H4. apply Nat.eqb_eq in H3.
    apply key_eqb_eq in H2. apply key_eqb_eq in H1. apply peqb_ok in H0. congruence.
  Qed.

  Definition accepted (c : config P) (tr : trace P) : Prop :=
    map listen_codes (c_machines c) = tr_listen tr /\
    tx_codes_ok plen c (c_ops c) (tr_tx tr) = true /\
    Permutation (expected_frames plen peqb c tr) (observed_frames tr) /\
    any_panic plen peqb c tr = false /\
    Permutation (predicted plen peqb c tr) (tr_dlv tr).

  Lemma validate_frames_to : forall c tr f,
    validate plen peqb c tr = 0 -> In f (tr_frames tr) -> frame_to_ok peqb c f = true.
  Proof.
    intros c tr f H Hf. unfold validate in H.
    destruct (negb (list_eqb (list_eqb Z.eqb) (map listen_codes (c_machines c)) (tr_listen tr))); [discriminate|].
    destruct (negb (tx_codes_ok plen c (c_ops c) (tr_tx tr))); [discriminate|].
    destruct (negb (msub_eq (sop_eqb peqb) (expected_frames plen peqb c tr) (observed_frames tr))); [discriminate|].
    destruct (forallb (frame_to_ok peqb c) (tr_frames tr)) eqn:E6; cbn [negb] in H; [|discriminate].
    rewrite forallb_forall in E6. apply E6. exact Hf.
  Qed.

  Lemma validate_accept : forall c tr, validate plen peqb c tr = 0 -> accepted c tr.
  Proof.
    intros c tr H. unfold validate in H.
    destruct (list_eqb (list_eqb Z.eqb) (map listen_codes (c_machines c)) (tr_listen tr)) eqn:E1;
      cbn [negb] in H; [|discriminate].
    destruct (tx_codes_ok plen c (c_ops c) (tr_tx tr)) eqn:E2; cbn [negb] in H; [|discriminate].
    destruct (msub_eq (sop_eqb peqb) (expected_frames plen peqb c tr) (observed_frames tr)) eqn:E3;
      cbn [negb] in H; [|discriminate].
    destruct (forallb (frame_to_ok peqb c) (tr_frames tr)) eqn:E6; cbn [negb] in H; [|discriminate].
    destruct (any_panic plen peqb c tr) eqn:E4; [discriminate|].
    destruct (msub_eq (dev_eqb peqb) (predicted plen peqb c tr) (tr_dlv tr)) eqn:E5;
      cbn [negb] in H; [|discriminate].
    unfold accepted. repeat split; auto.
    - apply (list_eqb_eq _ (list_eqb Z.eqb)); [|exact E1].
      intros a b Hab. apply (list_eqb_eq _ Z.eqb); [|exact Hab]. intros x y. apply Z.eqb_eq.
    - apply (msub_eq_perm _ (sop_eqb peqb) sop_eqb_ok). exact E3.
    - apply (msub_eq_perm _ (dev_eqb peqb) dev_eqb_ok). exact E5.
  Qed.

  Definition machines_wf (c : config P) : Prop :=
    forall mc, In mc (c_machines c) ->
      zmem UDP_TID (mc_protos mc) = true /\ Forall (udp_op (mc_protos mc)) (mc_listens mc).

  Lemma state_at_wf : forall c m, machines_wf c -> (m < length (c_machines c))%nat -> wf (state_at c m).
  Proof.
    intros c m H Hm. unfold state_at.
    destruct (H (nth m (c_machines c) dummy_mcfg)) as [H1 H2]; [apply nth_In; exact Hm|].
    apply wf_final_state; assumption.
  Qed.

  Lemma reach_lt : forall n to m, In m (reach n to) -> (m < n)%nat.
  Proof.
    intros n to m H. unfold reach in H. destruct ((to =? -2) || (to =? -3)).
    - apply in_seq in H. lia.
    - destruct ((0 <=? to) && (to <? Z.of_nat n)) eqn:E; [|destruct H].
      destruct H as [H|[]]. subst m. apply andb_true_iff in E. destruct E as [E1 E2].
      apply Z.leb_le in E1. apply Z.ltb_lt in E2. lia.
  Qed.

  (* every delivery event of an accepted trace is the one the lookup predicts ... *)
  Lemma accepted_delivery_predicted : forall c tr e,
    accepted c tr -> In e (tr_dlv tr) ->
    exists m d, In (m, d) (arrivals plen peqb c tr) /\ In e (events_of (state_at c m) m d).
  Proof.
    intros c tr e (_ & _ & _ & _ & Hp) He.
    apply Permutation_sym in Hp. apply (Permutation_in _ Hp) in He.
    unfold predicted in He. apply in_flat_map in He. destruct He as [[m d] [Ha Hin]].
    exists m, d. split; assumption.
  Qed.

  (* ... and none is missing *)
  Lemma accepted_none_missing : forall c tr m d e,
    accepted c tr -> In (m, d) (arrivals plen peqb c tr) -> In e (events_of (state_at c m) m d) ->
    In e (tr_dlv tr).
  Proof.
    intros c tr m d e (_ & _ & _ & _ & Hp) Ha He.
    apply (Permutation_in _ Hp). unfold predicted. apply in_flat_map.
    exists (m, d). split; assumption.
  Qed.

  Lemma state_at_cases : forall c m, machines_wf c ->
    wf (state_at c m) \/
    (udp_b (state_at c m) = [] /\ forall m' (d : dgram P), events_of (state_at c m) m' d = []).
  Proof.
    intros c m H. destruct (Nat.lt_ge_cases m (length (c_machines c))) as [Hm|Hm].
    - left. apply state_at_wf; assumption.
    - right. unfold state_at. rewrite nth_overflow by exact Hm. split; reflexivity.
  Qed.

  Lemma validate_sound : forall c tr,
    validate plen peqb c tr = 0 -> machines_wf c ->
    map listen_codes (c_machines c) = tr_listen tr /\
    Permutation (expected_frames plen peqb c tr) (observed_frames tr) /\
    Permutation (predicted plen peqb c tr) (tr_dlv tr) /\
    (forall e, In e (tr_dlv tr) ->
       exists m d, In (m, d) (arrivals plen peqb c tr) /\
         tlookup (udp_b (state_at c m)) (d_dst d) = Some (e_app e) /\
         e = mkDev 0 (e_app e) m (d_dst d) (d_src d) (d_payload d)) /\
    (forall m d app, In (m, d) (arrivals plen peqb c tr) ->
       tlookup (udp_b (state_at c m)) (d_dst d) = Some app ->
       In (mkDev 0 app m (d_dst d) (d_src d) (d_payload d)) (tr_dlv tr)).
  Proof.
    intros c tr Hv Hwf. pose proof (validate_accept c tr Hv) as Hacc.
    pose proof Hacc as (H1 & H2 & H3 & H4 & H5).
    split; [exact H1|]. split; [exact H3|]. split; [exact H5|]. split.
    - intros e He. destruct (accepted_delivery_predicted c tr e Hacc He) as (m & d & Ha & Hin).
      exists m, d. split; [exact Ha|].
      destruct (state_at_cases c m Hwf) as [W|[_ Hempty]].
      + apply events_of_spec; assumption.
      + rewrite Hempty in Hin. destruct Hin.
    - intros m d app Ha L. apply (accepted_none_missing c tr m d _ Hacc Ha).
      destruct (state_at_cases c m Hwf) as [W|[Hnil _]].
      + rewrite (events_of_bound (state_at c m) m d app W L). left. reflexivity.
      + rewrite Hnil in L. discriminate.
  Qed.

  Lemma end_to_end : forall mc (d : dgram P) mtu mac,
    zmem UDP_TID (mc_protos mc) = true -> Forall (udp_op (mc_protos mc)) (mc_listens mc) ->
    0 <= plen (d_payload d) <= mtu - 28 -> mtu <= 65535 ->
    (exists l, udp_send plen mtu mac d = SOk l) /\
    (forall app, tlookup (udp_b (final_state mc)) (d_dst d) = Some app ->
       ip_demux (final_state mc) UDP_PROTO d = Deliver app (d_dst d) (d_src d) (d_payload d)) /\
    (tlookup (udp_b (final_state mc)) (d_dst d) = None ->
       ip_demux (final_state mc) UDP_PROTO d = DropIpNoBinding \/
       ip_demux (final_state mc) UDP_PROTO d = DropUdpNoBinding).
  Proof.
    intros mc d mtu mac Hu Hops Hl Hm. pose proof (wf_final_state mc Hu Hops) as W.
    split; [apply send_within_limit; assumption|]. split.
    - intros app L. apply receive_bound; assumption.
    - intros L. apply receive_unbound; assumption.
  Qed.

  (* ---------- wire format ---------- *)
  Section WireFacts.
    Variable W : Type.
    Variable encode : dgram P -> W.
    Variable decode : W -> option (Z * dgram P).
    Variable round_trip : forall d, 0 <= plen (d_payload d) <= 65507 -> decode (encode d) = Some (UDP_PROTO, d).

    Lemma wire_end_to_end : forall s (d : dgram P) app,
      wf s -> 0 <= plen (d_payload d) <= 65507 -> tlookup (udp_b s) (d_dst d) = Some app ->
      wire_receive decode s (encode d) = WOut (Deliver app (d_dst d) (d_src d) (d_payload d)).
    Proof.
      intros s d app Wf Hl L. unfold wire_receive. rewrite round_trip by exact Hl.
      rewrite (receive_bound s d app Wf L). reflexivity.
    Qed.
  End WireFacts.
End PayloadFacts.

(* ---------- concrete witnesses ---------- *)
Definition ex_state0 : mstate := mkState [] [] false [] [UDP_TID; 1; 2].

(* a raw IPv4 upstream (id 2) holding (10.0.0.1, UDP) makes a later UDP bind fail at the IPv4 layer,
   yet the UDP entry stays behind *)
Lemma ip_conflict_leaves_udp_binding :
  let s1 := snd (ipv4_listen ex_state0 2 167772161 UDP_PROTO) in
  fst (udp_listen s1 1 (167772161, 5000)) = LIpExists /\
  tget (udp_b (snd (udp_listen s1 1 (167772161, 5000)))) (167772161, 5000) = Some 1.
Proof. vm_compute. split; reflexivity. Qed.

(* open_and_listen reports an error when the local address has no route, but the binding is installed *)
Lemma open_and_listen_binds_on_open_error :
  fst (run_lop [] ex_state0 (LOpen 1 (167772161, 5000))) = 3 /\
  tget (udp_b (snd (run_lop [] ex_state0 (LOpen 1 (167772161, 5000))))) (167772161, 5000) = Some 1.
Proof. vm_compute. split; reflexivity. Qed.

(* the loopback path has no MTU test *)
Lemma loopback_bypasses_mtu :
  udp_send (fun n : Z => n) 100 None (mkDgram (167772161, 1) (2130706433, 2) 5000) = SOk ToSelf.
Proof. vm_compute. reflexivity. Qed.

Lemma wf_example :
  wf (snd (run_lops [] ex_state0 [LUdp 1 (167772161, 5000); LUdp 2 (ANY, 5000); LUdp 1 (BCAST, 5001)])).
Proof.
  apply wf_run_lops.
  - unfold wf, ex_state0. cbn [udp_b ip_b protos tget]. repeat split; discriminate.
  - repeat constructor.
Qed.

(* a small closed scenario for the validator *)
Definition ex_mc0 : mcfg :=
  mkMcfg false [] [UDP_TID; 1; 2] []
    [LUdp 1 (167772161, 5000); LUdp 2 (ANY, 5000); LUdp 2 (ANY, 5001); LUdp 1 (167772161, 5000)].
Definition ex_mc1 : mcfg := mkMcfg false [] [UDP_TID; 1] [(167772417, None)] [].
Definition ex_d1 : dgram Z := mkDgram (167772417, 1000) (167772161, 5000) 7.
Definition ex_d2 : dgram Z := mkDgram (167772417, 1001) (167772169, 5001) 0.
Definition ex_cfg : config Z := mkConfig 1500 false 3 [ex_mc0; ex_mc1] [mkSop 1 ex_d1; mkSop 1 ex_d2].
Definition ex_ev1 (app : Z) : dev Z := mkDev 0 app 0%nat (167772161, 5000) (167772417, 1000) 7.
Definition ex_ev2 : dev Z := mkDev 0 2 0%nat (167772169, 5001) (167772417, 1001) 0.
Definition ex_trace (dl : list (dev Z)) : trace Z :=
  mkTrace [[0; 0; 0; 1]; []] [0; 0] [mkFev 1%nat (-3) ex_d1; mkFev 1%nat (-3) ex_d2] dl.
Definition ex_trace_good := ex_trace [ex_ev2; ex_ev1 1].
Definition ex_trace_wrong_app := ex_trace [ex_ev2; ex_ev1 2].
Definition ex_trace_missing := ex_trace [ex_ev1 1].

Lemma example_validate :
  wf (final_state ex_mc0) /\ machines_wf Z ex_cfg /\
  validate (fun n : Z => n) Z.eqb ex_cfg ex_trace_good = 0 /\
  validate (fun n : Z => n) Z.eqb ex_cfg ex_trace_wrong_app = 5 /\
  validate (fun n : Z => n) Z.eqb ex_cfg ex_trace_missing = 5.
Proof.
  assert (M : machines_wf Z ex_cfg).
  { intros mc [<-|[<-|[]]]; (split; [reflexivity | repeat constructor]). }
  split; [|split; [exact M|]].
  - apply wf_final_state; [reflexivity | repeat constructor].
  - split; [|split]; vm_compute; reflexivity.
Qed.
