(* C01 liveness (partial): the round theorem.  In a quiescent established state every write of
   at most one MSS is delivered exactly once and acknowledged, and both endpoints are quiescent
   again (nothing queued, nothing in flight, segments() = []) after two loss-free rounds. *)
From Elvis Require Import Model.Base Model.U32 Model.Tcb Model.TcpNet
  Proofs.U32Facts Proofs.TcbSafetyDefs Proofs.TcbSafetyBase Proofs.TcbSafetySnd Proofs.TcbSafetyRcv
  Proofs.TcbSafetyArr Proofs.TcbSafetySys Proofs.TcbSafetyStep Proofs.TcbSafety
  Proofs.TcbLive Proofs.TcbLiveSys.
From Coq Require Import ZifyBool.
Local Open Scope Z_scope.
Ltac Zify.zify_post_hook ::= Z.div_mod_to_equations.

Definition sel {A} (x : side) (a b : A) : A := match x with SA => a | SB => b end.

(* a = SND.UNA = SND.NXT of A = RCV.NXT of B;  b likewise for B *)
Definition Quiescent (c : config) (s : sys) (a b : Z) : Prop :=
  exists tA tB, endA s = ELive tA /\ endB s = ELive tB /\ quiet tA a b /\ quiet tB b a /\
    mtu tA = mtuA c /\ mtu tB = mtuB c /\ netA s = [] /\ netB s = [] /\ panicked s = false.

Lemma quiescent_at c s a b x : Quiescent c s a b ->
  exists tx ty, end_of s x = ELive tx /\ end_of s (other x) = ELive ty /\
    quiet tx (sel x a b) (sel x b a) /\ quiet ty (sel x b a) (sel x a b) /\
    mtu tx = mtu_of c x /\ mtu ty = mtu_of c (other x) /\
    net_of s x = [] /\ net_of s (other x) = [] /\ panicked s = false.
Proof.
  intros (tA & tB & H1 & H2 & H3 & H4 & H5 & H6 & H7 & H8 & H9).
  destruct x; cbn [sel other end_of net_of mtu_of]; [exists tA, tB|exists tB, tA]; auto 12.
Qed.

Lemma quiescent_from c s x tx ty p q :
  end_of s x = ELive tx -> end_of s (other x) = ELive ty -> quiet tx p q -> quiet ty q p ->
  mtu tx = mtu_of c x -> mtu ty = mtu_of c (other x) ->
  net_of s x = [] -> net_of s (other x) = [] -> panicked s = false ->
  Quiescent c s (sel x p q) (sel x q p).
Proof.
  intros H1 H2 H3 H4 H5 H6 H7 H8 H9. unfold Quiescent.
  destruct x; cbn [sel other end_of net_of mtu_of] in *; [exists tx, ty|exists ty, tx]; auto 12.
Qed.

(* a quiescent system is silent: neither endpoint has anything to transmit, even after a timeout *)
Lemma quiescent_silent c s a b x t : Quiescent c s a b -> end_of s x = ELive t ->
  exists t', tcb_segments t = Ok (t', []) /\
  exists t'', tcb_segments (fst (advance_time t' 101)) = Ok (t'', []).
Proof.
  intros HQ El. destruct (quiescent_at c s a b x HQ) as (tx & ty & Ex & _ & Q & _).
  rewrite El in Ex. injection Ex as <-.
  destruct Q as (Q1 & Q2 & Q3 & Q4 & Q5 & Q6 & Q7 & Q8 & Q9 & Q10 & Q11 & Q12 & Q13 & Q14 & Q15 & Q16 & Q17).
  set (t1 := set_retx (set_oneshot t []) []).
  exists t1. split.
  { rewrite segments_nothing_new; try assumption; try (rewrite Q1; reflexivity); try lia.
    rewrite Q8, Q9. reflexivity. }
  rewrite (advance_101 t1 Q13 Q14). cbn [fst].
  eexists. rewrite segments_nothing_new.
  - subst t1. tcb_simpl. cbn [map filter app]. reflexivity.
  - exact Q7.
  - exact Q10.
  - cbn. now rewrite Q1.
  - cbn. lia.
Qed.

Section Round.
  Variable c : config.

  Lemma writer_of_quiet t p q bytes : quiet t p q -> writer (tcb_send t bytes) p q bytes.
  Proof.
    intros (Q1 & Q2 & Q3 & Q4 & Q5 & Q6 & Q7 & Q8 & Q9 & Q10 & Q11 & Q12 & Q13 & Q14 & Q15 & Q16 & Q17).
    unfold tcb_send. rewrite Q1. cbn [accepts_send]. unfold writer. tcb_simpl. rewrite Q7. cbn [app].
    splits; auto; lia.
  Qed.

  Lemma writer_in_text t p q bytes : writer t p q bytes -> in_text t = [].
  Proof. intros W. apply W. Qed.
  Lemma quiet_in_text t p q : quiet t p q -> in_text t = [].
  Proof. intros W. apply W. Qed.

  (* the state after the write *)
  Lemma send_step s x tx : panicked s = false -> end_of s x = ELive tx -> st tx = Established ->
    forall bytes, fst (sys_step c s (LSend x bytes)) =
      set_end (set_sub s x (sub_of s x ++ bytes)) x (ELive (tcb_send tx bytes)).
  Proof. intros Pn Ex Est bytes. unfold sys_step. rewrite Pn, Ex, Est. reflexivity. Qed.

  Lemma fair2 s : panicked s = false ->
    fst (sys_step c s (LFair 2)) =
    fair_half c (fair_half c (fair_half c (fair_half c s SA) SB) SA) SB.
  Proof. intros Pn. unfold sys_step. rewrite Pn. reflexivity. Qed.

  Theorem write_round s a b x bytes :
    Quiescent c s a b -> 0 < zlen bytes <= mtu_of c x - 50 ->
    let n := zlen bytes in
    let s' := run c s [LSend x bytes; LFair 2] in
    Quiescent c s' (sel x (wadd a n) a) (sel x b (wadd b n)) /\
    sub_of s' x = sub_of s x ++ bytes /\ sub_of s' (other x) = sub_of s (other x) /\
    del_of s' (other x) = del_of s (other x) ++ [bytes] /\ del_of s' x = del_of s x.
  Proof.
    intros HQ Hn n s'.
    destruct (quiescent_at c s a b x HQ) as (tx & ty & Ex & Ey & Qx & Qy & Mx & My & Nx & Ny & Pn).
    set (p := sel x a b) in *. set (q := sel x b a) in *.
    assert (Est : st tx = Established) by apply Qx.
    subst s'. cbn [run fold_left]. rewrite (send_step s x tx Pn Ex Est).
    set (s1 := set_end _ x _).
    assert (Ex1 : end_of s1 x = ELive (tcb_send tx bytes)) by (subst s1; now sysr).
    assert (Ey1 : end_of s1 (other x) = ELive ty) by (subst s1; now sysr).
    assert (Nx1 : net_of s1 x = []) by (subst s1; now sysr).
    assert (Ny1 : net_of s1 (other x) = []) by (subst s1; now sysr).
    assert (Pn1 : panicked s1 = false) by (subst s1; now sysr).
    pose proof (writer_of_quiet tx p q bytes Qx) as Wx.
    assert (Hmtu : mtu (tcb_send tx bytes) = mtu_of c x).
    { unfold tcb_send. rewrite Est. cbn [accepts_send]. exact Mx. }
    assert (Hn' : 0 < zlen bytes <= mtu (tcb_send tx bytes) - 50) by (rewrite Hmtu; exact Hn).
    assert (Hn31 : 0 < n < H31).
    { subst n. unfold H31. destruct Wx as (_ & _ & _ & _ & _ & _ & _ & _ & _ & _ & _ & _ & _ & _ & _ & _ & Wm).
      lia. }
    rewrite (fair2 s1 Pn1).
    (* the four half-rounds, in the order fixed by LFair: A, B, A, B *)
    assert (Hmain : exists s3 tx' ty',
      fair_half c (fair_half c (fair_half c (fair_half c s1 SA) SB) SA) SB = s3 /\
      end_of s3 x = ELive tx' /\ end_of s3 (other x) = ELive ty' /\
      net_of s3 x = [] /\ net_of s3 (other x) = [] /\ panicked s3 = false /\
      (forall y, sub_of s3 y = sub_of s1 y) /\ del_of s3 x = del_of s1 x /\
      del_of s3 (other x) = del_of s1 (other x) ++ [bytes] /\
      quiet tx' (wadd p n) q /\ quiet ty' q (wadd p n) /\
      mtu tx' = mtu_of c x /\ mtu ty' = mtu_of c (other x)).
    { destruct x; cbn [other] in *.
      - (* A writes: send, ack, idle, idle *)
        destruct (half_send c s1 SA _ ty p q bytes Ex1 Ey1 Nx1 Ny1 Pn1 Wx Qy Hn')
          as (tx2 & ty2 & E1 & E2 & E3 & E4 & E5 & E6 & E7 & E8 & E9 & E10 & E11 & E12).
        set (s2 := fair_half c s1 SA) in *. cbn [other] in *.
        destruct (half_ack c s2 SB ty2 tx2 p q n E2 E1 E4 E3 E5 E10 E9 Hn31)
          as (ty3 & tx3 & F1 & F2 & F3 & F4 & F5 & F6 & F7 & F8 & F9 & F10 & F11).
        set (s3 := fair_half c s2 SB) in *. cbn [other] in *.
        rewrite (half_idle c s3 SA tx3 ty3 _ _ F2 F9 F4 F1 (quiet_in_text _ _ _ F8)).
        rewrite (half_idle c s3 SB ty3 tx3 _ _ F1 F8 F3 F2 (quiet_in_text _ _ _ F9)).
        exists s3, tx3, ty3. splits; auto.
        + intros y. rewrite F6. apply E6.
        + rewrite (F7 SA). exact E7.
        + rewrite (F7 SB). exact E8.
        + congruence.
        + congruence.
      - (* B writes: idle, send, ack, idle *)
        rewrite (half_idle c s1 SA ty _ _ _ Ey1 Qy Ny1 Ex1 (writer_in_text _ _ _ _ Wx)).
        destruct (half_send c s1 SB _ ty p q bytes Ex1 Ey1 Nx1 Ny1 Pn1 Wx Qy Hn')
          as (tx2 & ty2 & E1 & E2 & E3 & E4 & E5 & E6 & E7 & E8 & E9 & E10 & E11 & E12).
        set (s2 := fair_half c s1 SB) in *. cbn [other] in *.
        destruct (half_ack c s2 SA ty2 tx2 p q n E2 E1 E4 E3 E5 E10 E9 Hn31)
          as (ty3 & tx3 & F1 & F2 & F3 & F4 & F5 & F6 & F7 & F8 & F9 & F10 & F11).
        set (s3 := fair_half c s2 SA) in *. cbn [other] in *.
        rewrite (half_idle c s3 SB tx3 ty3 _ _ F2 F9 F4 F1 (quiet_in_text _ _ _ F8)).
        exists s3, tx3, ty3. splits; auto.
        + intros y. rewrite F6. apply E6.
        + rewrite (F7 SB). exact E7.
        + rewrite (F7 SA). exact E8.
        + congruence.
        + congruence. }
    destruct Hmain as (s3 & tx' & ty' & -> & G1 & G2 & G3 & G4 & G5 & G6 & G7 & G8 & G9 & G10 & G11 & G12).
    pose proof (quiescent_from c s3 x tx' ty' (wadd p n) q G1 G2 G9 G10 G11 G12 G3 G4 G5) as HQ'.
    assert (Esel1 : sel x (wadd p n) q = sel x (wadd a n) a) by (subst p q; destruct x; reflexivity).
    assert (Esel2 : sel x q (wadd p n) = sel x b (wadd b n)) by (subst p q; destruct x; reflexivity).
    rewrite Esel1, Esel2 in HQ'.
    split; [exact HQ'|].
    rewrite !G6, G7, G8. subst s1. sysr. auto.
  Qed.
End Round.

(* ---------- any sequence of writes, in both directions ---------- *)
Definition side_eqb (x y : side) : bool :=
  match x, y with SA, SA | SB, SB => true | _, _ => false end.

(* each write is followed by two loss-free rounds *)
Fixpoint write_trace (ws : list (side * list Z)) : list label :=
  match ws with
  | [] => []
  | (x, bytes) :: r => LSend x bytes :: LFair 2 :: write_trace r
  end.

(* the chunks written by side x, in order *)
Fixpoint chunks (x : side) (ws : list (side * list Z)) : list (list Z) :=
  match ws with
  | [] => []
  | (y, bytes) :: r => if side_eqb y x then bytes :: chunks x r else chunks x r
  end.

Definition small_write (c : config) (w : side * list Z) : Prop :=
  0 < zlen (snd w) <= mtu_of c (fst w) - 50.

Theorem writes_delivered c : forall ws s a b,
  Quiescent c s a b -> Forall (small_write c) ws ->
  let s' := run c s (write_trace ws) in
  (exists a' b', Quiescent c s' a' b') /\
  forall x, sub_of s' x = sub_of s x ++ concat (chunks x ws) /\
            del_of s' (other x) = del_of s (other x) ++ chunks x ws.
Proof.
  induction ws as [|[y bytes] r IH]; intros s a b HQ Hw; cbn [write_trace chunks].
  - cbn [run fold_left]. split; [eauto|]. intros x. cbn [concat]. now rewrite !app_nil_r.
  - inversion Hw as [|w ws' Hw1 Hw2]; subst.
    change (run c s (LSend y bytes :: LFair 2 :: write_trace r))
      with (run c (run c s [LSend y bytes; LFair 2]) (write_trace r)).
    destruct (write_round c s a b y bytes HQ Hw1) as (HQ1 & S1 & S2 & D1 & D2).
    set (s1 := run c s [LSend y bytes; LFair 2]) in *.
    destruct (IH s1 _ _ HQ1 Hw2) as [HQ2 Hrest].
    split; [exact HQ2|]. intros x. destruct (Hrest x) as [R1 R2]. rewrite R1, R2.
    destruct y, x; cbn [side_eqb other concat] in *;
      rewrite ?S1, ?S2, ?D1, ?D2, <- ?app_assoc; auto.
Qed.

Corollary writes_delivered_bytes c ws s a b :
  Quiescent c s a b -> Forall (small_write c) ws ->
  let s' := run c s (write_trace ws) in
  forall x, sub_of s' x = sub_of s x ++ concat (chunks x ws) /\
            delivered s' (other x) = delivered s (other x) ++ concat (chunks x ws).
Proof.
  intros HQ Hw s' x. destruct (writes_delivered c ws s a b HQ Hw) as [_ H].
  destruct (H x) as [H1 H2]. split; [exact H1|]. unfold delivered. subst s'. rewrite H2.
  apply concat_app.
Qed.

(* in a reachable quiescent state everything submitted has been delivered *)
Lemma quiescent_all_delivered c s a b : SysInv c s -> Quiescent c s a b ->
  forall x, delivered s (other x) = sub_of s x.
Proof.
  intros HI HQ x. pose proof HI as (P & W & E & N).
  destruct (quiescent_at c s a b (other x) HQ) as (ty & tx & Ey & Ex & Qy & Qx & _).
  rewrite other_other in Ex.
  destruct (live_parts c s (other x) ty HI Ey) as (_ & HR & _).
  destruct (live_parts c s x tx HI Ex) as (HS & _ & Hb & Epv).
  rewrite other_other in HR. rewrite Epv in HR.
  pose proof (W x) as Wx. rewrite Epv in Wx. destruct Wx as (Hu & _).
  destruct HS as (A1 & A2 & A3 & A4 & A5 & A6 & _).
  destruct Qx as (X1 & X2 & X3 & X4 & X5 & X6 & X7 & _).
  destruct Qy as (Y1 & Y2 & Y3 & Y4 & Y5 & Y6 & Y7 & Y8 & Y9 & Y10 & Y11 & Y12 & _).
  destruct HR as (R1 & R2 & R3). rewrite Y1 in R3. cbn [state_eqb] in R3.
  destruct R3 as (R3 & R4 & R5 & R6 & R7).
  unfold rcv_n, pv_base in *. rewrite Y1 in *. cbn [fin_consumed b2z my_pv pv_iss pv_sub pv_lim] in *.
  rewrite Y12, app_nil_r in R6. rewrite R6.
  assert (Hq : finq tx = false) by (unfold finq; rewrite X1; reflexivity).
  assert (Hds : data_sent (sub_of s x) tx = zlen (sub_of s x)).
  { unfold data_sent. rewrite X7. cbn. lia. }
  assert (En : wsub (rcv_nxt ty) (wadd (iss_of c x) 1) - 0 = zlen (sub_of s x)).
  { rewrite Y4. destruct x; cbn [sel other] in *; rewrite <- X3, A6, Hq, Hds; cbn [b2z];
      rewrite wsub_spec, wadd_spec; pose proof (zlen_nonneg (sub_of s SA)); pose proof (zlen_nonneg (sub_of s SB));
      unfold u32, M32, SEQ_BOUND in *; cbn [cmp_offset] in *; lia. }
  rewrite En. unfold zlen. rewrite Nat2Z.id. apply firstn_all.
Qed.

(* the full liveness statement (not claimed): from every reachable state, every continuation
   without Drop in which each in-flight segment is eventually delivered and both sides keep
   ticking, emitting and reading reaches within a bounded number of retransmission timeouts a
   state where everything submitted is delivered and acknowledged and both sides are silent *)
Definition no_drop (l : label) : bool := match l with LDrop _ _ | LInject _ _ => false | _ => true end.
Definition all_done (s : sys) : Prop :=
  delivered s SB = subA s /\ delivered s SA = subB s /\ netA s = [] /\ netB s = [] /\
  forall x t, end_of s x = ELive t ->
    retx t = [] /\ out_text t = [] /\ exists t', tcb_segments t = Ok (t', []).
Definition C01_liveness_full_stmt : Prop :=
  forall (c : config) (b : bool) (ls : list label),
    cfg_ok c -> forallb no_inject ls = true -> sub_bound (run c (init_sys b) ls) ->
    let s := run c (init_sys b) ls in
    (exists tA tB, endA s = ELive tA /\ endB s = ELive tB /\ st tA = Established /\ st tB = Established) ->
    exists k, forall k', (k <= k')%nat -> all_done (run c s [LFair k']).

(* ---------- quiescent states are reachable: the three-way handshake of the example ---------- *)
From Elvis Require Import Proofs.TcbSafetyEx.

Definition hs_trace : list label := [LOpen SA; LFair 2].
Definition hs_state : sys := run ex_cfg (init_sys true) hs_trace.
Definition hs_tA : tcb := Eval vm_compute in
  match endA hs_state with ELive t => t | _ => tcb_open 0 0 0 0 end.
Definition hs_tB : tcb := Eval vm_compute in
  match endB hs_state with ELive t => t | _ => tcb_open 0 0 0 0 end.

Lemma hs_quiescent : Quiescent ex_cfg hs_state (wadd (issA ex_cfg) 1) (wadd (issB ex_cfg) 1).
Proof.
  exists hs_tA, hs_tB.
  split; [vm_compute; reflexivity|]. split; [vm_compute; reflexivity|].
  unfold quiet, u32.
  vm_compute. repeat split; try reflexivity; try (intros H; discriminate H).
Qed.

(* handshake, then writes in both directions (including one of exactly one MSS = 50 bytes) *)
Definition ex_writes : list (side * list Z) :=
  [(SA, bytes_from 1 50); (SB, bytes_from 9 37); (SA, bytes_from 100 1); (SB, bytes_from 77 1450)].

Lemma ex_writes_small : Forall (small_write ex_cfg) ex_writes.
Proof.
  unfold ex_writes.
  repeat (apply Forall_cons; [vm_compute; split; [reflexivity|intros H; discriminate H]|]).
  apply Forall_nil.
Qed.

Lemma run_app c s l1 l2 : run c s (l1 ++ l2) = run c (run c s l1) l2.
Proof. unfold run. apply fold_left_app. Qed.

Lemma hs_empty : subA hs_state = [] /\ subB hs_state = [] /\ delivered hs_state SA = [] /\ delivered hs_state SB = [].
Proof. vm_compute. auto. Qed.

Lemma ex_chunks : length (concat (chunks SA ex_writes)) = 51%nat /\ length (concat (chunks SB ex_writes)) = 1487%nat.
Proof. vm_compute. auto. Qed.

Lemma ex_live :
  let s := run ex_cfg (init_sys true) (hs_trace ++ write_trace ex_writes) in
  (exists a b, Quiescent ex_cfg s a b) /\
  delivered s SB = subA s /\ delivered s SA = subB s /\
  length (subA s) = 51%nat /\ length (subB s) = 1487%nat.
Proof.
  intros s. subst s. rewrite run_app.
  assert (E : run ex_cfg (init_sys true) hs_trace = hs_state) by (unfold hs_state; reflexivity).
  rewrite E. clear E.
  generalize hs_quiescent, hs_empty. generalize hs_state. intros s0 HQ0 (E1 & E2 & E3 & E4).
  destruct (writes_delivered ex_cfg ex_writes s0 _ _ HQ0 ex_writes_small) as [HQ Hx].
  destruct (writes_delivered_bytes ex_cfg ex_writes s0 _ _ HQ0 ex_writes_small SA) as [A1 A2].
  destruct (writes_delivered_bytes ex_cfg ex_writes s0 _ _ HQ0 ex_writes_small SB) as [B1 B2].
  generalize dependent (run ex_cfg s0 (write_trace ex_writes)). intros s1 HQ Hx A1 A2 B1 B2.
  cbn [other sub_of] in A1, A2, B1, B2.
  destruct ex_chunks as [C1 C2].
  split; [exact HQ|].
  rewrite A1, A2, B1, B2, E1, E2, E3, E4. cbn [app].
  split; [reflexivity|]. split; [reflexivity|]. split; assumption.
Qed.

(* ---------- the forms pinned in Props/C01.v ---------- *)
From Elvis Require Import Proofs.TcbSafetyThms.

Lemma liveness_partial_explicit : forall (c : config) (ws : list (side * list Z)) (s : sys) (a b : Z),
  Quiescent c s a b ->
  (forall w, In w ws -> 0 < zlen (snd w) <= mtu_of c (fst w) - 50) ->
  let s' := run c s (write_trace ws) in
  (exists a' b', Quiescent c s' a' b') /\
  forall x, sub_of s' x = sub_of s x ++ concat (chunks x ws) /\
            delivered s' (other x) = delivered s (other x) ++ concat (chunks x ws).
Proof.
  intros c ws s a b HQ Hw s'.
  assert (Hf : Forall (small_write c) ws) by (apply Forall_forall; exact Hw).
  split; [apply (writes_delivered c ws s a b HQ Hf)|].
  apply (writes_delivered_bytes c ws s a b HQ Hf).
Qed.

Lemma quiescent_silent_explicit : forall (c : config) (s : sys) (a b : Z) (x : side) (t : tcb),
  Quiescent c s a b -> end_of s x = ELive t ->
  st t = Established /\ retx t = [] /\ out_text t = [] /\ oneshot t = [] /\ snd_una t = snd_nxt t /\
  net_of s x = [] /\
  exists t', tcb_segments t = Ok (t', []) /\
  exists t'', tcb_segments (fst (advance_time t' 101)) = Ok (t'', []).
Proof.
  intros c s a b x t HQ El.
  destruct (quiescent_at c s a b x HQ) as (tx & ty & Ex & _ & Q & _ & _ & _ & Nx & _).
  rewrite El in Ex. injection Ex as <-.
  pose proof (quiescent_silent c s a b x t HQ El) as Hs.
  destruct Q as (Q1 & Q2 & Q3 & Q4 & Q5 & Q6 & Q7 & Q8 & Q9 & _).
  repeat (split; [congruence|]). exact Hs.
Qed.

Lemma quiescent_delivered_explicit : forall (c : config) (bl : bool) (ls : list label) (a b : Z),
  u32 (issA c) -> u32 (issB c) -> 100 <= mtuA c <= 65535 -> 100 <= mtuB c <= 65535 ->
  closed_trace ls ->
  let s := run c (init_sys bl) ls in
  zlen (subA s) < 2 ^ 31 - 2 ^ 17 -> zlen (subB s) < 2 ^ 31 - 2 ^ 17 ->
  Quiescent c s a b ->
  delivered s SB = subA s /\ delivered s SA = subB s.
Proof.
  intros c bl ls a b H1 H2 H3 H4 Hcl s Ha Hb HQ. rewrite bound_eq in Ha, Hb.
  assert (Hc : cfg_ok c) by (unfold cfg_ok; auto).
  pose proof (reachable_inv c bl ls Hc (closed_trace_forallb _ Hcl) (conj Ha Hb)) as HI.
  split; [apply (quiescent_all_delivered c s a b HI HQ SA)|apply (quiescent_all_delivered c s a b HI HQ SB)].
Qed.

Lemma liveness_example_explicit :
  closed_trace (hs_trace ++ write_trace ex_writes) /\
  (forall w, In w ex_writes -> 0 < zlen (snd w) <= mtu_of ex_cfg (fst w) - 50) /\
  Quiescent ex_cfg hs_state (wadd (issA ex_cfg) 1) (wadd (issB ex_cfg) 1) /\
  let s := run ex_cfg (init_sys true) (hs_trace ++ write_trace ex_writes) in
  (exists a b, Quiescent ex_cfg s a b) /\
  delivered s SB = subA s /\ delivered s SA = subB s /\
  length (subA s) = 51%nat /\ length (subB s) = 1487%nat.
Proof.
  split.
  { assert (Hf : forallb no_inject (hs_trace ++ write_trace ex_writes) = true) by (vm_compute; reflexivity).
    intros l Hl. rewrite forallb_forall in Hf. specialize (Hf l Hl). destruct l; try exact I. discriminate Hf. }
  split.
  { pose proof ex_writes_small as H. rewrite Forall_forall in H. exact H. }
  split; [exact hs_quiescent|exact ex_live].
Qed.
