(* C01 liveness (partial): the round theorem.  In a quiescent established state every write of
   at most one MSS is delivered exactly once and acknowledged, and both endpoints are quiescent
   again (nothing queued, nothing in flight, segments() = []) after two loss-free rounds. *)
From Elvis Require Import Model.Base Model.U32 Model.Tcb Model.TcpNet
  Proofs.U32Facts Proofs.TcbSafetyDefs Proofs.TcbSafetyBase Proofs.TcbSafetySnd Proofs.TcbSafetyRcv
  Proofs.TcbSafetyArr Proofs.TcbSafetySys Proofs.TcbSafetyStep Proofs.TcbSafety
  Proofs.TcbLive Proofs.TcbLiveSys.
From Coq Require Import ZifyBool.
Local Open Scope Z_scope.
Ltac Zify.zify_post_hook ::= Z.div_mod_to_equations.

Definition sel {A} (x : side) (a b : A) : A := match x with SA => a | SB => b end.

(* a = SND.UNA = SND.NXT of A = RCV.NXT of B;  b likewise for B *)
Definition Quiescent (c : config) (s : sys) (a b : Z) : Prop :=
  exists tA tB, endA s = ELive tA /\ endB s = ELive tB /\ quiet tA a b /\ quiet tB b a /\
    mtu tA = mtuA c /\ mtu tB = mtuB c /\ netA s = [] /\ netB s = [] /\ panicked s = false.

Lemma quiescent_at c s a b x : Quiescent c s a b ->
  exists tx ty, end_of s x = ELive tx /\ end_of s (other x) = ELive ty /\
    quiet tx (sel x a b) (sel x b a) /\ quiet ty (sel x b a) (sel x a b) /\
    mtu tx = mtu_of c x /\ mtu ty = mtu_of c (other x) /\
    net_of s x = [] /\ net_of s (other x) = [] /\ panicked s = false.
Proof.
  intros (tA & tB & H1 & H2 & H3 & H4 & H5 & H6 & H7 & H8 & H9).
  destruct x; cbn [sel other end_of net_of mtu_of]; [exists tA, tB|exists tB, tA]; auto 12.
Qed.

Lemma quiescent_from c s x tx ty p q :
  end_of s x = ELive tx -> end_of s (other x) = ELive ty -> quiet tx p q -> quiet ty q p ->
  mtu tx = mtu_of c x -> mtu ty = mtu_of c (other x) ->
  net_of s x = [] -> net_of s (other x) = [] -> panicked s = false ->
  Quiescent c s (sel x p q) (sel x q p).
Proof.
  intros H1 H2 H3 H4 H5 H6 H7 H8 H9. unfold Quiescent.
  destruct x; cbn [sel other end_of net_of mtu_of] in *; [exists tx, ty|exists ty, tx]; auto 12.
Qed.

(* a quiescent system is silent: neither endpoint has anything to transmit, even after a timeout *)
Lemma quiescent_silent c s a b x t : Quiescent c s a b -> end_of s x = ELive t ->
  exists t', tcb_segments t = Ok (t', []) /\
  exists t'', tcb_segments (fst (advance_time t' 101)) = Ok (t'', []).
Proof.
  intros HQ El. destruct (quiescent_at c s a b x HQ) as (tx & ty & Ex & _ & Q & _).
  rewrite El in Ex. injection Ex as <-.
  destruct Q as (Q1 & Q2 & Q3 & Q4 & Q5 & Q6 & Q7 & Q8 & Q9 & Q10 & Q11 & Q12 & Q13 & Q14 & Q15 & Q16 & Q17).
  eexists. split.
  { rewrite segments_nothing_new; try assumption; try (rewrite Q1; reflexivity); try lia.
    rewrite Q8, Q9. reflexivity. }
  set (t1 := set_retx _ _).
  rewrite (advance_101 t1 Q13 Q14). cbn [fst].
  eexists. rewrite segments_nothing_new.
  - subst t1. tcb_simpl. cbn [map filter app]. reflexivity.
  - exact Q7.
  - exact Q10.
  - cbn. now rewrite Q1.
  - cbn. lia.
Qed.

Section Round.
  Variable c : config.

  Lemma writer_of_quiet t p q bytes : quiet t p q -> writer (tcb_send t bytes) p q bytes.
  Proof.
    intros (Q1 & Q2 & Q3 & Q4 & Q5 & Q6 & Q7 & Q8 & Q9 & Q10 & Q11 & Q12 & Q13 & Q14 & Q15 & Q16 & Q17).
    unfold tcb_send. rewrite Q1. cbn [accepts_send]. unfold writer. tcb_simpl. rewrite Q7. cbn [app].
    splits; auto; lia.
  Qed.

  Lemma writer_in_text t p q bytes : writer t p q bytes -> in_text t = [].
  Proof. intros W. apply W. Qed.
  Lemma quiet_in_text t p q : quiet t p q -> in_text t = [].
  Proof. intros W. apply W. Qed.

  (* the state after the write *)
  Lemma send_step s x tx : panicked s = false -> end_of s x = ELive tx -> st tx = Established ->
    forall bytes, fst (sys_step c s (LSend x bytes)) =
      set_end (set_sub s x (sub_of s x ++ bytes)) x (ELive (tcb_send tx bytes)).
  Proof. intros Pn Ex Est bytes. unfold sys_step. rewrite Pn, Ex, Est. reflexivity. Qed.

  Lemma fair2 s : panicked s = false ->
    fst (sys_step c s (LFair 2)) =
    fair_half c (fair_half c (fair_half c (fair_half c s SA) SB) SA) SB.
  Proof. intros Pn. unfold sys_step. rewrite Pn. reflexivity. Qed.

  Theorem write_round s a b x bytes :
    Quiescent c s a b -> 0 < zlen bytes <= mtu_of c x - 50 ->
    let n := zlen bytes in
    let s' := run c s [LSend x bytes; LFair 2] in
    Quiescent c s' (sel x (wadd a n) a) (sel x b (wadd b n)) /\
    sub_of s' x = sub_of s x ++ bytes /\ sub_of s' (other x) = sub_of s (other x) /\
    del_of s' (other x) = del_of s (other x) ++ [bytes] /\ del_of s' x = del_of s x.
  Proof.
    intros HQ Hn n s'.
    destruct (quiescent_at c s a b x HQ) as (tx & ty & Ex & Ey & Qx & Qy & Mx & My & Nx & Ny & Pn).
    set (p := sel x a b) in *. set (q := sel x b a) in *.
    assert (Est : st tx = Established) by apply Qx.
    subst s'. cbn [run fold_left]. rewrite (send_step s x tx Pn Ex Est).
    set (s1 := set_end _ x _).
    assert (Ex1 : end_of s1 x = ELive (tcb_send tx bytes)) by (subst s1; now sysr).
    assert (Ey1 : end_of s1 (other x) = ELive ty) by (subst s1; now sysr).
    assert (Nx1 : net_of s1 x = []) by (subst s1; now sysr).
    assert (Ny1 : net_of s1 (other x) = []) by (subst s1; now sysr).
    assert (Pn1 : panicked s1 = false) by (subst s1; now sysr).
    pose proof (writer_of_quiet tx p q bytes Qx) as Wx.
    assert (Hmtu : mtu (tcb_send tx bytes) = mtu_of c x).
    { unfold tcb_send. rewrite Est. cbn [accepts_send]. exact Mx. }
    assert (Hn' : 0 < zlen bytes <= mtu (tcb_send tx bytes) - 50) by (rewrite Hmtu; exact Hn).
    assert (Hn31 : 0 < n < H31).
    { subst n. unfold H31. destruct Wx as (_ & _ & _ & _ & _ & _ & _ & _ & _ & _ & _ & _ & _ & _ & _ & _ & Wm).
      lia. }
    rewrite (fair2 s1 Pn1).
    (* the four half-rounds, in the order fixed by LFair: A, B, A, B *)
    assert (Hmain : exists s3 tx' ty',
      fair_half c (fair_half c (fair_half c (fair_half c s1 SA) SB) SA) SB = s3 /\
      end_of s3 x = ELive tx' /\ end_of s3 (other x) = ELive ty' /\
      net_of s3 x = [] /\ net_of s3 (other x) = [] /\ panicked s3 = false /\
      (forall y, sub_of s3 y = sub_of s1 y) /\ del_of s3 x = del_of s1 x /\
      del_of s3 (other x) = del_of s1 (other x) ++ [bytes] /\
      quiet tx' (wadd p n) q /\ quiet ty' q (wadd p n) /\
      mtu tx' = mtu_of c x /\ mtu ty' = mtu_of c (other x)).
    { destruct x; cbn [other] in *.
      - (* A writes: send, ack, idle, idle *)
        destruct (half_send c s1 SA _ ty p q bytes Ex1 Ey1 Nx1 Ny1 Pn1 Wx Qy Hn')
          as (tx2 & ty2 & E1 & E2 & E3 & E4 & E5 & E6 & E7 & E8 & E9 & E10 & E11 & E12).
        set (s2 := fair_half c s1 SA) in *. cbn [other] in *.
        destruct (half_ack c s2 SB ty2 tx2 p q n E2 E1 E4 E3 E5 E10 E9 Hn31)
          as (ty3 & tx3 & F1 & F2 & F3 & F4 & F5 & F6 & F7 & F8 & F9 & F10 & F11).
        set (s3 := fair_half c s2 SB) in *. cbn [other] in *.
        rewrite (half_idle c s3 SA tx3 ty3 _ _ F2 F9 F4 F1 (quiet_in_text _ _ _ F8)).
        rewrite (half_idle c s3 SB ty3 tx3 _ _ F1 F8 F3 F2 (quiet_in_text _ _ _ F9)).
        exists s3, tx3, ty3. splits; auto.
        + intros y. rewrite F6. apply E6.
        + rewrite (F7 SA). exact E7.
        + rewrite (F7 SB). exact E8.
        + congruence.
        + congruence.
      - (* B writes: idle, send, ack, idle *)
        rewrite (half_idle c s1 SA ty _ _ _ Ey1 Qy Ny1 Ex1 (writer_in_text _ _ _ _ Wx)).
        destruct (half_send c s1 SB _ ty p q bytes Ex1 Ey1 Nx1 Ny1 Pn1 Wx Qy Hn')
          as (tx2 & ty2 & E1 & E2 & E3 & E4 & E5 & E6 & E7 & E8 & E9 & E10 & E11 & E12).
        set (s2 := fair_half c s1 SB) in *. cbn [other] in *.
        destruct (half_ack c s2 SA ty2 tx2 p q n E2 E1 E4 E3 E5 E10 E9 Hn31)
          as (ty3 & tx3 & F1 & F2 & F3 & F4 & F5 & F6 & F7 & F8 & F9 & F10 & F11).
        set (s3 := fair_half c s2 SA) in *. cbn [other] in *.
        rewrite (half_idle c s3 SB tx3 ty3 _ _ F2 F9 F4 F1 (quiet_in_text _ _ _ F8)).
        exists s3, tx3, ty3. splits; auto.
        + intros y. rewrite F6. apply E6.
        + rewrite (F7 SB). exact E7.
        + rewrite (F7 SA). exact E8.
        + congruence.
        + congruence. }
    destruct Hmain as (s3 & tx' & ty' & -> & G1 & G2 & G3 & G4 & G5 & G6 & G7 & G8 & G9 & G10 & G11 & G12).
    pose proof (quiescent_from c s3 x tx' ty' (wadd p n) q G1 G2 G9 G10 G11 G12 G3 G4 G5) as HQ'.
    assert (Esel1 : sel x (wadd p n) q = sel x (wadd a n) a) by (subst p q; destruct x; reflexivity).
    assert (Esel2 : sel x q (wadd p n) = sel x b (wadd b n)) by (subst p q; destruct x; reflexivity).
    rewrite Esel1, Esel2 in HQ'.
    split; [exact HQ'|].
    rewrite !G6, G7, G8. subst s1. sysr. auto.
  Qed.
End Round.
