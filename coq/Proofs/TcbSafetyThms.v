(* The C01 / C03 theorems in the self-contained form pinned in Props/. *)
From Elvis Require Import Model.Base Model.U32 Model.Tcb Model.TcpNet
  Proofs.U32Facts Proofs.TcbSafetyDefs Proofs.TcbSafety Proofs.TcbSafetyEx.
Local Open Scope Z_scope.

(* a closed system: the network only carries what the two endpoints emitted *)
Definition closed_trace (ls : list label) : Prop :=
  forall l, In l ls -> match l with LInject _ _ => False | _ => True end.

Lemma closed_trace_forallb ls : closed_trace ls -> forallb no_inject ls = true.
Proof.
  intros H. apply forallb_forall. intros l Hl. specialize (H l Hl). destruct l; try reflexivity. contradiction.
Qed.

Lemma bound_eq : 2 ^ 31 - 2 ^ 17 = SEQ_BOUND.
Proof. reflexivity. Qed.

Lemma safety_explicit : forall (c : config) (b : bool) (ls : list label),
  u32 (issA c) -> u32 (issB c) -> 100 <= mtuA c <= 65535 -> 100 <= mtuB c <= 65535 ->
  closed_trace ls ->
  let s := run c (init_sys b) ls in
  zlen (subA s) < 2 ^ 31 - 2 ^ 17 -> zlen (subB s) < 2 ^ 31 - 2 ^ 17 ->
  panicked s = false /\
  (exists rest, subA s = delivered s SB ++ rest) /\
  (exists rest, subB s = delivered s SA ++ rest).
Proof.
  intros c b ls H1 H2 H3 H4 Hcl s Ha Hb. rewrite bound_eq in Ha, Hb.
  apply (safety c b ls); [unfold cfg_ok; auto|apply closed_trace_forallb; assumption|split; assumption].
Qed.

Lemma sender_consistent_explicit : forall (c : config) (b : bool) (ls : list label) (x : side) (t : tcb),
  u32 (issA c) -> u32 (issB c) -> 100 <= mtuA c <= 65535 -> 100 <= mtuB c <= 65535 ->
  closed_trace ls ->
  let s := run c (init_sys b) ls in
  zlen (subA s) < 2 ^ 31 - 2 ^ 17 -> zlen (subB s) < 2 ^ 31 - 2 ^ 17 ->
  end_of s x = ELive t ->
  let S := sub_of s x in
  let sent := zlen S - zlen (out_text t) in
  snd_iss t = iss_of c x /\
  0 <= sent /\ out_text t = skipn (Z.to_nat sent) S /\
  snd_nxt t = wadd (wadd (iss_of c x) 1) (sent + b2z (finq t)) /\
  (forall seg, In seg (map t_seg (retx t) ++ net_of s x) -> s_text seg <> [] ->
     let off := wsub (h_seq (s_hdr seg)) (wadd (iss_of c x) 1) in
     s_text seg = firstn (length (s_text seg)) (skipn (Z.to_nat off) S) /\
     off + zlen (s_text seg) <= sent /\
     c_syn (h_ctl (s_hdr seg)) = false /\ c_fin (h_ctl (s_hdr seg)) = false).
Proof.
  intros c b ls x t H1 H2 H3 H4 Hcl s Ha Hb El S sent. rewrite bound_eq in Ha, Hb.
  assert (Hc : cfg_ok c) by (unfold cfg_ok; auto).
  assert (Hsb : sub_bound (run c (init_sys b) ls)) by (split; assumption).
  destruct (sender_consistent c b ls x t Hc (closed_trace_forallb _ Hcl) Hsb El) as (A1 & A2 & A3 & A4 & A5).
  pose proof (TcbSafety.reachable_inv c b ls Hc (closed_trace_forallb _ Hcl) Hsb) as HI.
  destruct (TcbSafetyStep.live_parts c s x t HI El) as (HS & _).
  destruct HS as (_ & _ & _ & C4 & _).
  split; [exact A1|]. split; [exact C4|]. split; [exact A2|]. split; [exact A3|].
  { intros seg Hin Hne. apply in_app_or in Hin.
    assert (Hsi : seg_inv (my_pv (iss_of c x) S t) seg).
    { destruct Hin as [Hin|Hin]; [rewrite Forall_forall in A4; apply A4|rewrite Forall_forall in A5; apply A5]; exact Hin. }
    destruct Hsi as (T & _). destruct (T Hne) as (B1 & B2 & B3 & B4 & B5 & B6).
    split; [exact B5|]. split; [exact B6|]. split; assumption. }
Qed.

Lemma sync_explicit : forall (c : config) (b : bool) (ls : list label) (x : side) (t t' : tcb),
  u32 (issA c) -> u32 (issB c) -> 100 <= mtuA c <= 65535 -> 100 <= mtuB c <= 65535 ->
  closed_trace ls ->
  let s := run c (init_sys b) ls in
  zlen (subA s) < 2 ^ 31 - 2 ^ 17 -> zlen (subB s) < 2 ^ 31 - 2 ^ 17 ->
  end_of s x = ELive t -> end_of s (other x) = ELive t' ->
  st t <> SynSent -> st t <> SynReceived -> st t' <> SynSent -> st t' <> SynReceived ->
  let peer_base := wadd (iss_of c (other x)) 1 in
  rcv_irs t = iss_of c (other x) /\
  wsub (rcv_nxt t) peer_base <= wsub (snd_nxt t') peer_base /\
  wsub (snd_nxt t') peer_base <= zlen (sub_of s (other x)) + 1.
Proof.
  intros c b ls x t t' H1 H2 H3 H4 Hcl s Ha Hb El El' N1 N2 N3 N4 pb. rewrite bound_eq in Ha, Hb.
  assert (Hc : cfg_ok c) by (unfold cfg_ok; auto).
  assert (Hsb : sub_bound (run c (init_sys b) ls)) by (split; assumption).
  assert (S1 : synchronised (st t) = true) by (destruct (st t); auto; contradiction).
  assert (S2 : synchronised (st t') = true) by (destruct (st t'); auto; contradiction).
  destruct (sync c b ls t t' x Hc (closed_trace_forallb _ Hcl) Hsb El El' S1 S2) as [A B].
  split; [exact A|]. split; [exact B|].
  destruct (sender_consistent c b ls (other x) t' Hc (closed_trace_forallb _ Hcl) Hsb El') as (_ & _ & A3 & _).
  pose proof (TcbSafety.reachable_inv c b ls Hc (closed_trace_forallb _ Hcl) Hsb) as HI.
  destruct (TcbSafetyStep.live_parts c s (other x) t' HI El') as (HS & _ & Hbb & _).
  destruct HS as (_ & _ & _ & A4 & _).
  subst pb. fold s in A3. rewrite A3, wsub_spec, wadd_spec.
  assert (Hu : u32 (iss_of c (other x))) by (destruct x; assumption).
  unfold data_sent in *. pose proof (TcbSafetyBase.zlen_nonneg (out_text t')).
  unfold u32, M32, SEQ_BOUND in *. destruct (finq t'); cbn [b2z]; lia.
Qed.

Lemma data_before_fin_explicit : forall (c : config) (b : bool) (ls : list label) (y : side) (t : tcb),
  u32 (issA c) -> u32 (issB c) -> 100 <= mtuA c <= 65535 -> 100 <= mtuB c <= 65535 ->
  closed_trace ls ->
  let s := run c (init_sys b) ls in
  zlen (subA s) < 2 ^ 31 - 2 ^ 17 -> zlen (subB s) < 2 ^ 31 - 2 ^ 17 ->
  end_of s y = ELive t ->
  (st t = CloseWait \/ st t = Closing \/ st t = LastAck \/ st t = TimeWait) ->
  delivered s y ++ in_text t = sub_of s (other y) /\
  match end_of s (other y) with
  | ELive t' => accepts_send (st t') = false
  | EDead => True
  | _ => False
  end.
Proof.
  intros c b ls y t H1 H2 H3 H4 Hcl s Ha Hb El Hst. rewrite bound_eq in Ha, Hb.
  assert (Hc : cfg_ok c) by (unfold cfg_ok; auto).
  assert (Hsb : sub_bound (run c (init_sys b) ls)) by (split; assumption).
  assert (Hfc : fin_consumed (st t) = true) by (destruct Hst as [-> | [-> | [-> | ->]]]; reflexivity).
  pose proof (TcbSafety.reachable_inv c b ls Hc (closed_trace_forallb _ Hcl) Hsb) as HI.
  split; [eapply data_before_fin_of_inv; eassumption|].
  pose proof (fin_consumed_frozen c s y t HI El Hfc) as Hf.
  destruct (end_of s (other y)); auto. apply Hf.
Qed.

(* the hypotheses are satisfiable, and data does get through *)
Lemma example_explicit :
  u32 (issA ex_cfg) /\ u32 (issB ex_cfg) /\ 100 <= mtuA ex_cfg <= 65535 /\ 100 <= mtuB ex_cfg <= 65535 /\
  closed_trace ex_trace /\
  zlen (subA ex_final) < 2 ^ 31 - 2 ^ 17 /\ zlen (subB ex_final) < 2 ^ 31 - 2 ^ 17 /\
  length (delivered ex_mid SB) = 50%nat /\ delivered ex_mid SB = firstn 50 (subA ex_mid) /\
  length (subA ex_final) = 140%nat /\ delivered ex_final SB = subA ex_final /\
  length (subB ex_final) = 30%nat /\ delivered ex_final SA = subB ex_final.
Proof.
  destruct ex_cfg_ok as (A1 & A2 & A3 & A4).
  destruct ex_facts as (F1 & F2 & F3 & F4 & F5 & F6 & F7 & F8 & F9 & F10 & F11 & _).
  destruct ex_sub_bound as [B1 B2]. rewrite bound_eq.
  split; [exact A1|]. split; [exact A2|]. split; [exact A3|]. split; [exact A4|].
  split.
  { intros l Hl. rewrite forallb_forall in F1. specialize (F1 l Hl). destruct l; try exact I. discriminate F1. }
  split; [exact B1|]. split; [exact B2|].
  split; [exact F5|]. split; [exact F7|]. split; [exact F9|]. split; [exact F8|]. split; [exact F11|exact F10].
Qed.
