(* C03 (part c) — facts about the TCP session table model of Model/TcpDemux.v *)
From Coq Require Import ZArith List Bool Permutation.
From Elvis Require Import Model.Base Model.Demux Model.TcpDemux Proofs.DemuxFacts.
Import ListNotations.
Local Open Scope Z_scope.

(* ---------- pairs and the session table ---------- *)
Lemma pair_eqb_eq : forall a b : pair, pair_eqb a b = true <-> a = b.
Proof.
  intros [a1 a2] [b1 b2]. unfold pair_eqb. cbn [fst snd].
  rewrite andb_true_iff, !key_eqb_eq. split.
  - intros [-> ->]. reflexivity.
  - intros H. inversion H. split; reflexivity.
Qed.

Lemma pair_eqb_refl : forall a : pair, pair_eqb a a = true.
Proof. intros a. apply pair_eqb_eq. reflexivity. Qed.

Lemma pair_eqb_neq : forall a b : pair, a <> b -> pair_eqb a b = false.
Proof.
  intros a b H. destruct (pair_eqb a b) eqn:E; [|reflexivity].
  apply pair_eqb_eq in E. contradiction.
Qed.

Lemma sget_cons_eq : forall t p v, sget ((p, v) :: t) p = Some v.
Proof. intros. cbn [sget]. rewrite pair_eqb_refl. reflexivity. Qed.

Lemma sget_cons_neq : forall t p p' v, p' <> p -> sget ((p', v) :: t) p = sget t p.
Proof. intros. cbn [sget]. rewrite pair_eqb_neq by assumption. reflexivity. Qed.

Lemma sget_none_notin : forall t p, sget t p = None -> ~ In p (map fst t).
Proof.
  induction t as [|[q v] r IH]; intros p H; cbn [map In fst]; [tauto|].
  cbn [sget] in H. destruct (pair_eqb q p) eqn:E; [discriminate|].
  intros [Hq|Hin].
  - subst q. rewrite pair_eqb_refl in E. discriminate.
  - exact (IH p H Hin).
Qed.

Lemma sget_cons_other : forall t q v p up,
  sget t q = None -> sget t p = Some up -> sget ((q, v) :: t) p = Some up.
Proof.
  intros t q v p up Hq Hp. rewrite sget_cons_neq; [exact Hp|].
  intros ->. rewrite Hq in Hp. discriminate.
Qed.

(* sessions are unique per endpoint pair *)
Definition wf_sess (s : tstate) : Prop := NoDup (map fst (t_sess s)).

(* ---------- one operation at a time ---------- *)
Lemma ip_listen_fields : forall t up a proto, exists t', ip_listen t up a proto = (fst (ip_listen t up a proto), t').
Proof. intros. destruct (ip_listen t up a proto) as [r t']. exists t'. reflexivity. Qed.

Lemma tcp_listen_sess : forall s up e, t_sess (snd (tcp_listen s up e)) = t_sess s.
Proof.
  intros s up e. unfold tcp_listen.
  destruct (ip_listen (t_ip (set_listen s ((e, up) :: t_listen s))) TCP_TID (fst e) TCP_PROTO) as [r ip'].
  reflexivity.
Qed.

Lemma tcp_listen_binding : forall s up e, tget (t_listen (snd (tcp_listen s up e))) e = Some up.
Proof.
  intros s up e. unfold tcp_listen.
  destruct (ip_listen (t_ip (set_listen s ((e, up) :: t_listen s))) TCP_TID (fst e) TCP_PROTO) as [r ip'].
  cbn [snd set_ip set_listen t_listen]. apply tget_cons_eq.
Qed.

Lemma tcp_listen_other : forall s up e k, k <> e ->
  tget (t_listen (snd (tcp_listen s up e))) k = tget (t_listen s) k.
Proof.
  intros s up e k H. unfold tcp_listen.
  destruct (ip_listen (t_ip (set_listen s ((e, up) :: t_listen s))) TCP_TID (fst e) TCP_PROTO) as [r ip'].
  cbn [snd set_ip set_listen t_listen]. apply tget_cons_neq. congruence.
Qed.

(* Tcp::listen never reports an already bound endpoint: bound or not, the code is 0 as long as the IPv4
   layer agrees (no other upstream holds (address, TCP)) *)
Lemma tcp_listen_code : forall s up e,
  (forall u, tget (t_ip s) (fst e, TCP_PROTO) = Some u -> u = TCP_TID) ->
  fst (tcp_listen s up e) = 0.
Proof.
  intros s up e H. unfold tcp_listen, ip_listen. cbn [t_ip set_listen].
  destruct (tget (t_ip s) (fst e, TCP_PROTO)) as [u|] eqn:G.
  - rewrite (H u eq_refl). rewrite Z.eqb_refl. reflexivity.
  - reflexivity.
Qed.

Lemma tcp_open_existing : forall s up p x, sget (t_sess s) p = Some x -> tcp_open s up p = (1, s).
Proof. intros s up p x H. unfold tcp_open. rewrite H. reflexivity. Qed.

Lemma tcp_open_sess : forall s up p,
  t_sess (snd (tcp_open s up p)) = t_sess s \/
  (sget (t_sess s) p = None /\ fst (tcp_open s up p) = 0 /\ t_sess (snd (tcp_open s up p)) = (p, up) :: t_sess s).
Proof.
  intros s up p. unfold tcp_open. destruct (sget (t_sess s) p) eqn:G; [left; reflexivity|].
  destruct (ip_listen (t_ip s) TCP_TID (fst (fst p)) TCP_PROTO) as [r ip'].
  destruct r; try (left; reflexivity).
  destruct (rget (t_routes s) (fst (fst p))) as [m|]; [|left; reflexivity].
  destruct (zmem up (t_protos s)); [|left; reflexivity].
  right. cbn. auto.
Qed.

Lemma demux_existing : forall cr c s sg up,
  sget (t_sess s) (s_dst sg, s_src sg) = Some up -> tcp_demux_gen cr c s sg = (DSession up, s).
Proof. intros cr c s sg up H. unfold tcp_demux_gen. rewrite H. reflexivity. Qed.

Lemma listen_branch_sess : forall s sg up,
  snd (listen_branch s sg up) = s \/
  (fst (listen_branch s sg up) = DListenCreate up /\
   snd (listen_branch s sg up) = set_sess s (((s_dst sg, s_src sg), up) :: t_sess s) /\
   f_rst sg = false /\ f_ack sg = false /\ f_syn sg = true /\ zmem up (t_protos s) = true).
Proof.
  intros s sg up. unfold listen_branch, listen_result.
  destruct (f_rst sg); [left; reflexivity|].
  destruct (f_ack sg); [left; reflexivity|].
  destruct (f_syn sg); [|left; reflexivity].
  destruct (zmem up (t_protos s)); [|left; reflexivity].
  right. cbn. auto 7.
Qed.

(* the only way Tcp::demux changes anything: a session for (destination, source) is added, and only when
   none existed and the segment is a SYN without RST and ACK *)
Lemma demux_effect : forall cr c s sg,
  snd (tcp_demux_gen cr c s sg) = s \/
  (exists up, sget (t_sess s) (s_dst sg, s_src sg) = None /\
     fst (tcp_demux_gen cr c s sg) = DListenCreate up /\
     snd (tcp_demux_gen cr c s sg) = set_sess s (((s_dst sg, s_src sg), up) :: t_sess s) /\
     f_rst sg = false /\ f_ack sg = false /\ f_syn sg = true).
Proof.
  intros cr c s sg. unfold tcp_demux_gen.
  destruct (sget (t_sess s) (s_dst sg, s_src sg)) eqn:G; [left; reflexivity|].
  destruct (tget (t_listen s) (s_dst sg)) as [up|].
  - destruct (listen_branch_sess s sg up) as [H|(H1 & H2 & H3 & H4 & H5 & _)]; [left; exact H|].
    right. exists up. auto 7.
  - destruct c; [left; reflexivity|].
    destruct (tget (t_listen s) (ANY, snd (s_dst sg))) as [up|]; [|left; reflexivity].
    destruct (listen_branch_sess s sg up) as [H|(H1 & H2 & H3 & H4 & H5 & _)]; [left; exact H|].
    right. exists up. auto 7.
Qed.

Lemma arrive_effect : forall s sg,
  snd (arrive s sg) = s \/
  (exists up, sget (t_sess s) (s_dst sg, s_src sg) = None /\
     fst (arrive s sg) = DListenCreate up /\
     snd (arrive s sg) = set_sess s (((s_dst sg, s_src sg), up) :: t_sess s) /\
     f_rst sg = false /\ f_ack sg = false /\ f_syn sg = true).
Proof.
  intros s sg. unfold arrive.
  destruct (tlookup (t_ip s) (fst (s_dst sg), TCP_PROTO)) as [up|]; [|left; reflexivity].
  destruct (up =? TCP_TID); [apply (demux_effect closed_reply false) | left; reflexivity].
Qed.

(* RST or ACK segments never create a session: nothing at all changes *)
Lemma rst_ack_never_create : forall s sg,
  f_rst sg = true \/ f_ack sg = true -> snd (arrive s sg) = s /\ snd (tcp_demux s sg) = s.
Proof.
  intros s sg H. split.
  - destruct (arrive_effect s sg) as [E|(up & _ & _ & _ & R & A & _)]; [exact E|].
    destruct H as [H|H]; congruence.
  - destruct (demux_effect closed_reply false s sg) as [E|(up & _ & _ & _ & R & A & _)]; [exact E|].
    destruct H as [H|H]; congruence.
Qed.

(* a SYN to a bound port: exactly one session, keyed by (local = destination, remote = source), owned
   by the application of the exact binding or, absent one, of the wildcard binding *)
Lemma syn_creates_one : forall cr c s sg up,
  sget (t_sess s) (s_dst sg, s_src sg) = None ->
  (tget (t_listen s) (s_dst sg) = Some up \/
   (tget (t_listen s) (s_dst sg) = None /\ c = false /\ tget (t_listen s) (ANY, snd (s_dst sg)) = Some up)) ->
  f_rst sg = false -> f_ack sg = false -> f_syn sg = true -> zmem up (t_protos s) = true ->
  tcp_demux_gen cr c s sg = (DListenCreate up, set_sess s (((s_dst sg, s_src sg), up) :: t_sess s)).
Proof.
  intros cr c s sg up G B R A Sy Z. unfold tcp_demux_gen. rewrite G.
  assert (L : listen_branch s sg up = (DListenCreate up, set_sess s (((s_dst sg, s_src sg), up) :: t_sess s))).
  { unfold listen_branch, listen_result. rewrite R, A, Sy, Z. reflexivity. }
  destruct B as [B|(B1 & -> & B2)].
  - rewrite B. exact L.
  - rewrite B1, B2. exact L.
Qed.

Lemma later_segments : forall cr c s sg up sg',
  s_dst sg' = s_dst sg -> s_src sg' = s_src sg ->
  tcp_demux_gen cr c (set_sess s (((s_dst sg, s_src sg), up) :: t_sess s)) sg' =
  (DSession up, set_sess s (((s_dst sg, s_src sg), up) :: t_sess s)).
Proof.
  intros cr c s sg up sg' Hd Hs. apply demux_existing. cbn [t_sess set_sess]. rewrite Hd, Hs.
  apply sget_cons_eq.
Qed.

(* an exact binding wins over the wildcard, whatever the wildcard entry and the shard layout are *)
Lemma exact_wins : forall cr c s sg up,
  sget (t_sess s) (s_dst sg, s_src sg) = None -> tget (t_listen s) (s_dst sg) = Some up ->
  tcp_demux_gen cr c s sg = listen_branch s sg up.
Proof. intros cr c s sg up G B. unfold tcp_demux_gen. rewrite G, B. reflexivity. Qed.

Lemma wildcard_used : forall cr s sg up,
  sget (t_sess s) (s_dst sg, s_src sg) = None -> tget (t_listen s) (s_dst sg) = None ->
  tget (t_listen s) (ANY, snd (s_dst sg)) = Some up ->
  tcp_demux_gen cr false s sg = listen_branch s sg up.
Proof. intros cr s sg up G B1 B2. unfold tcp_demux_gen. rewrite G, B1, B2. reflexivity. Qed.

(* no binding: no session, at most one reply, nothing changes *)
Lemma no_binding : forall cr s sg,
  sget (t_sess s) (s_dst sg, s_src sg) = None -> tget (t_listen s) (s_dst sg) = None ->
  tget (t_listen s) (ANY, snd (s_dst sg)) = None ->
  tcp_demux_gen cr false s sg = (DClosed (cr sg), s).
Proof. intros cr s sg G B1 B2. unfold tcp_demux_gen. rewrite G, B1, B2. reflexivity. Qed.

Lemma closed_reply_shape : forall sg r,
  closed_reply sg = Some r ->
  f_rst sg = false /\ s_src r = s_dst sg /\ s_dst r = s_src sg /\ s_tlen r = 0 /\ f_rst r = true /\
  (f_ack sg = true -> s_flags r = FL_RST /\ s_seq r = s_ack sg) /\
  (f_ack sg = false -> s_flags r = FL_RST_ACK /\ s_seq r = 0 /\ s_ack r = wrap32 (s_seq sg + seg_len sg)).
Proof.
  intros sg r H. unfold closed_reply in H.
  destruct (f_rst sg); [discriminate|]. destruct (f_ack sg); inversion H; subst r; cbn;
    repeat split; auto; discriminate.
Qed.

Lemma closed_reply_rst : forall sg, f_rst sg = true -> closed_reply sg = None.
Proof. intros sg H. unfold closed_reply. rewrite H. reflexivity. Qed.

Lemma closed_reply_spec : forall sg,
  (f_rst sg = true -> closed_reply sg = None) /\
  (f_rst sg = false -> f_ack sg = true ->
     closed_reply sg = Some (mkSeg (s_dst sg) (s_src sg) FL_RST (s_ack sg) 0 0)) /\
  (f_rst sg = false -> f_ack sg = false ->
     closed_reply sg = Some (mkSeg (s_dst sg) (s_src sg) FL_RST_ACK 0
                               (wrap32 (s_seq sg + (s_tlen sg + (if f_syn sg then 1 else 0) + (if f_fin sg then 1 else 0)))) 0)).
Proof.
  intros sg. unfold closed_reply, seg_len. repeat split.
  - intros ->. reflexivity.
  - intros -> ->. reflexivity.
  - intros -> ->. reflexivity.
Qed.

(* the code before ba8dc528 did not count SYN and FIN: it agreed with the present reply exactly on
   segments that carry neither *)
Lemma closed_reply_orig_agrees : forall sg,
  f_syn sg = false -> f_fin sg = false -> closed_reply_orig sg = closed_reply sg.
Proof.
  intros sg Hs Hf. unfold closed_reply, closed_reply_orig, seg_len. rewrite Hs, Hf, !Z.add_0_r. reflexivity.
Qed.

(* ... and not otherwise: a bare SYN with sequence number 100 *)
Lemma closed_reply_syn_deviates :
  let sg := mkSeg (167772161, 4000) (167772162, 81) 2 100 0 0 in
  f_syn sg = true /\
  closed_reply_orig sg = Some (mkSeg (167772162, 81) (167772161, 4000) FL_RST_ACK 0 100 0) /\
  closed_reply sg = Some (mkSeg (167772162, 81) (167772161, 4000) FL_RST_ACK 0 101 0).
Proof. vm_compute. repeat split; reflexivity. Qed.

(* the lock of the code before b7a73ede: no session, no exact binding, both keys in one shard *)
Lemma lookup_deadlock : forall s sg,
  sget (t_sess s) (s_dst sg, s_src sg) = None -> tget (t_listen s) (s_dst sg) = None ->
  tcp_demux_orig true s sg = (DDeadlock, s).
Proof. intros s sg G B. unfold tcp_demux_orig, tcp_demux_gen. rewrite G, B. reflexivity. Qed.

(* the code as it is never blocks there *)
Lemma listen_branch_no_deadlock : forall s sg up, fst (listen_branch s sg up) <> DDeadlock.
Proof.
  intros s sg up. unfold listen_branch. destruct (listen_result sg); cbn [fst]; try discriminate.
  destruct (zmem up (t_protos s)); discriminate.
Qed.

Lemma demux_no_deadlock : forall s sg, fst (tcp_demux s sg) <> DDeadlock /\ fst (arrive s sg) <> DDeadlock.
Proof.
  assert (D : forall s sg, fst (tcp_demux s sg) <> DDeadlock).
  { intros s sg. unfold tcp_demux, tcp_demux_gen.
    destruct (sget (t_sess s) (s_dst sg, s_src sg)); [discriminate|].
    destruct (tget (t_listen s) (s_dst sg)); [apply listen_branch_no_deadlock|].
    destruct (tget (t_listen s) (ANY, snd (s_dst sg))); [apply listen_branch_no_deadlock | discriminate]. }
  intros s sg. split; [apply D|]. unfold arrive.
  destruct (tlookup (t_ip s) (fst (s_dst sg), TCP_PROTO)) as [up|]; [|discriminate].
  destruct (up =? TCP_TID); [apply D | discriminate].
Qed.

(* ---------- histories ---------- *)
Inductive top :=
| TListen (up : Z) (e : key)
| TOpen (up : Z) (p : pair)
| TArrive (sg : seg).

Definition tapply (s : tstate) (o : top) : tstate :=
  match o with
  | TListen up e => snd (tcp_listen s up e)
  | TOpen up p => snd (tcp_open s up p)
  | TArrive sg => snd (arrive s sg)
  end.

Definition trun (s : tstate) (ops : list top) : tstate := fold_left tapply ops s.

Lemma tapply_sess : forall s o,
  t_sess (tapply s o) = t_sess s \/
  exists p up, sget (t_sess s) p = None /\ t_sess (tapply s o) = (p, up) :: t_sess s.
Proof.
  intros s [up e|up p|sg]; cbn [tapply].
  - left. apply tcp_listen_sess.
  - destruct (tcp_open_sess s up p) as [H|(H1 & _ & H3)]; [left; exact H|].
    right. exists p, up. auto.
  - destruct (arrive_effect s sg) as [H|(up & H1 & _ & H3 & _)]; [left; rewrite H; reflexivity|].
    right. exists (s_dst sg, s_src sg), up. rewrite H3. auto.
Qed.

Lemma tapply_wf : forall s o, wf_sess s -> wf_sess (tapply s o).
Proof.
  intros s o W. unfold wf_sess in *. destruct (tapply_sess s o) as [E|(p & up & Hn & E)]; rewrite E.
  - exact W.
  - cbn [map fst]. constructor; [apply sget_none_notin; exact Hn | exact W].
Qed.

Lemma tapply_keeps : forall s o p up, sget (t_sess s) p = Some up -> sget (t_sess (tapply s o)) p = Some up.
Proof.
  intros s o p up H. destruct (tapply_sess s o) as [E|(q & v & Hn & E)]; rewrite E.
  - exact H.
  - apply sget_cons_other; assumption.
Qed.

Lemma trun_wf : forall ops s, wf_sess s -> wf_sess (trun s ops).
Proof.
  induction ops as [|o r IH]; intros s W; cbn [trun fold_left]; [exact W|].
  apply IH. apply tapply_wf. exact W.
Qed.

(* sessions are never removed *)
Lemma trun_keeps : forall ops s p up,
  sget (t_sess s) p = Some up -> sget (t_sess (trun s ops)) p = Some up.
Proof.
  induction ops as [|o r IH]; intros s p up H; cbn [trun fold_left]; [exact H|].
  apply IH. apply tapply_keeps. exact H.
Qed.

(* consequence: once an endpoint pair had a session - whatever happened to the connection since - a new
   open of the pair is refused and a new SYN of the pair is handed to the old session *)
Lemma no_reuse : forall ops s p up,
  sget (t_sess s) p = Some up ->
  (forall up', tcp_open (trun s ops) up' p = (1, trun s ops)) /\
  (forall cr c sg, (s_dst sg, s_src sg) = p -> tcp_demux_gen cr c (trun s ops) sg = (DSession up, trun s ops)).
Proof.
  intros ops s p up H. pose proof (trun_keeps ops s p up H) as K. split.
  - intros up'. eapply tcp_open_existing. exact K.
  - intros cr c sg E. apply demux_existing. rewrite E. exact K.
Qed.

(* ---------- the validator ---------- *)
Lemma seg_eqb_ok : forall a b, seg_eqb a b = true -> a = b.
Proof.
  intros [a1 a2 a3 a4 a5 a6] [b1 b2 b3 b4 b5 b6] H. unfold seg_eqb in H.
  cbn [s_src s_dst s_flags s_seq s_ack s_tlen] in H.
  do 5 (apply andb_true_iff in H; let H' := fresh "H" in destruct H as [H H']).
  apply key_eqb_eq in H. apply key_eqb_eq in H4. apply Z.eqb_eq in H3. apply Z.eqb_eq in H2.
  apply Z.eqb_eq in H1. apply Z.eqb_eq in H0. congruence.
Qed.

Lemma frame_eqb_ok : forall a b, frame_eqb a b = true -> a = b.
Proof.
  intros [[m1 t1] s1] [[m2 t2] s2] H. unfold frame_eqb in H. cbn [fst snd] in H.
  apply andb_true_iff in H. destruct H as [H H3]. apply andb_true_iff in H. destruct H as [H1 H2].
  apply Nat.eqb_eq in H1. apply Z.eqb_eq in H2. apply seg_eqb_ok in H3. congruence.
Qed.

Lemma remove1_in : forall (x : frame) l l', remove1 frame_eqb x l = Some l' -> In x l.
Proof.
  intros x l l' H. apply (remove1_perm _ frame_eqb frame_eqb_ok) in H.
  apply Permutation_sym in H. eapply Permutation_in; [exact H | left; reflexivity].
Qed.

(* every frame of an accepted trace is accounted for *)
Lemma vstep_frame_justified : forall script st m to sg st',
  vstep script st (EFrm m to sg) = Some st' ->
  In (m, to, sg) (v_inj st) \/
  (exists up, sget (t_sess (nth m (v_ms st) dummy_t)) (s_src sg, s_dst sg) = Some up) \/
  In (m, to, sg) (v_owed st).
Proof.
  intros script st m to sg st' H. unfold vstep in H.
  destruct (remove1 frame_eqb (m, to, sg) (v_inj st)) eqn:R1; [left; eapply remove1_in; exact R1|].
  destruct (sget (t_sess (nth m (v_ms st) dummy_t)) (s_src sg, s_dst sg)) as [up|] eqn:G.
  - right. left. exists up. reflexivity.
  - destruct (remove1 frame_eqb (m, to, sg) (v_owed st)) eqn:R2; [|discriminate].
    right. right. eapply remove1_in. exact R2.
Qed.

(* every arrival of an accepted trace changes the machine as Ipv4::demux ; Tcp::demux prescribe, and
   the reply they hand down (at most one) becomes owed to the interface the segment came from *)
Lemma vstep_arrival : forall script st m from sg st',
  vstep script st (EArr m from sg) = Some st' ->
  let d := fst (arrive (nth m (v_ms st) dummy_t) sg) in
  let s' := snd (arrive (nth m (v_ms st) dummy_t) sg) in
  v_ms st' = upd (v_ms st) m s' /\ v_inj st' = v_inj st /\
  v_owed st' = match reply_of d with Some r => (m, from, r) :: v_owed st | None => v_owed st end.
Proof.
  intros script st m from sg st' H. unfold vstep in H. cbn zeta.
  destruct (arrive (nth m (v_ms st) dummy_t) sg) as [d s'] eqn:E. cbn [fst snd].
  inversion H; subst st'. cbn [v_ms v_owed v_inj]. repeat split.
Qed.

(* notifications and bytes reach the application that owns the session of their endpoint pair *)
Lemma vstep_app : forall script st m app p st',
  vstep script st (ENtf m app p) = Some st' \/ vstep script st (EByt m app p) = Some st' ->
  sget (t_sess (nth m (v_ms st) dummy_t)) p = Some app.
Proof.
  intros script st m app p st' [H|H]; unfold vstep in H;
    destruct (sget (t_sess (nth m (v_ms st) dummy_t)) p) as [up|]; try discriminate;
    destruct (up =? app) eqn:E; try discriminate; apply Z.eqb_eq in E; congruence.
Qed.

Lemma Forall_upd : forall (A : Type) (Q : A -> Prop) l n x, Forall Q l -> Q x -> Forall Q (upd l n x).
Proof.
  intros A Q l. induction l as [|y r IH]; intros n x F Hx; cbn [upd]; [constructor|].
  inversion F; subst. destruct n; constructor; auto.
Qed.

Lemma nth_Forall : forall (A : Type) (Q : A -> Prop) l n d, Forall Q l -> Q d -> Q (nth n l d).
Proof.
  intros A Q l. induction l as [|y r IH]; intros n d F Hd; destruct n; cbn [nth]; auto;
    inversion F; subst; auto.
Qed.

Lemma dummy_wf : wf_sess dummy_t.
Proof. unfold wf_sess. cbn. constructor. Qed.

Lemma vstep_wf : forall script st e st',
  Forall wf_sess (v_ms st) -> vstep script st e = Some st' -> Forall wf_sess (v_ms st').
Proof.
  intros script st e st' F H. unfold vstep in H.
  destruct e as [k code|k code|k|k|m to sg|m from sg|m app p|m app p].
  - destruct (nth_error script k) as [[m app ep|? ? ?| |? ? ?]|]; try discriminate.
    pose proof (tapply_wf (nth m (v_ms st) dummy_t) (TListen app ep) (nth_Forall _ _ _ m _ F dummy_wf)) as W.
    cbn [tapply] in W. destruct (tcp_listen (nth m (v_ms st) dummy_t) app ep) as [c s'].
    destruct (c =? code); inversion H; subst st'. cbn [v_ms snd] in *. apply Forall_upd; assumption.
  - destruct (nth_error script k) as [[? ? ?|m app p| |? ? ?]|]; try discriminate.
    pose proof (tapply_wf (nth m (v_ms st) dummy_t) (TOpen app p) (nth_Forall _ _ _ m _ F dummy_wf)) as W.
    cbn [tapply] in W. destruct (tcp_open (nth m (v_ms st) dummy_t) app p) as [c s'].
    destruct (c =? code); inversion H; subst st'. cbn [v_ms snd] in *. apply Forall_upd; assumption.
  - destruct (nth_error script k) as [[? ? ?|? ? ?| |? ? ?]|]; inversion H; subst; exact F.
  - destruct (nth_error script k) as [[? ? ?|? ? ?| |? ? ?]|]; inversion H; subst; exact F.
  - destruct (remove1 frame_eqb (m, to, sg) (v_inj st)); [inversion H; subst; exact F|].
    destruct (sget (t_sess (nth m (v_ms st) dummy_t)) (s_src sg, s_dst sg)); [inversion H; subst; exact F|].
    destruct (remove1 frame_eqb (m, to, sg) (v_owed st)); inversion H; subst; exact F.
  - pose proof (tapply_wf (nth m (v_ms st) dummy_t) (TArrive sg) (nth_Forall _ _ _ m _ F dummy_wf)) as W.
    cbn [tapply] in W. destruct (arrive (nth m (v_ms st) dummy_t) sg) as [d s'].
    inversion H; subst st'; cbn [v_ms snd] in *. apply Forall_upd; assumption.
  - destruct (sget (t_sess (nth m (v_ms st) dummy_t)) p) as [up|]; [|discriminate].
    destruct (up =? app); inversion H; subst; exact F.
  - destruct (sget (t_sess (nth m (v_ms st) dummy_t)) p) as [up|]; [|discriminate].
    destruct (up =? app); inversion H; subst; exact F.
Qed.

Lemma vrun_wf : forall script tr st st',
  Forall wf_sess (v_ms st) -> vrun script st tr = Some st' -> Forall wf_sess (v_ms st').
Proof.
  intros script tr. induction tr as [|e r IH]; intros st st' F H; cbn [vrun] in H.
  - inversion H; subst. exact F.
  - destruct (vstep script st e) as [st1|] eqn:E; [|discriminate].
    eapply IH; [eapply vstep_wf; eassumption | exact H].
Qed.

(* a run of the validator is a chain of accepted steps *)
Inductive chain (script : list step) : vstate -> list ev -> vstate -> Prop :=
| chain_nil : forall st, chain script st [] st
| chain_cons : forall st e st1 r st',
    vstep script st e = Some st1 -> chain script st1 r st' -> chain script st (e :: r) st'.

Lemma vrun_chain : forall script tr st st', vrun script st tr = Some st' -> chain script st tr st'.
Proof.
  intros script tr. induction tr as [|e r IH]; intros st st' H; cbn [vrun] in H.
  - inversion H; subst. constructor.
  - destruct (vstep script st e) as [st1|] eqn:E; [|discriminate].
    econstructor; [exact E | apply IH; exact H].
Qed.

Lemma validate_sound : forall script ms tr,
  validate script ms tr = 0 -> Forall wf_sess ms ->
  exists st', chain script (mkV ms [] []) tr st' /\
    Forall wf_sess (v_ms st') /\ v_owed st' = [] /\ v_inj st' = [].
Proof.
  intros script ms tr H F. unfold validate in H.
  destruct (vrun script (mkV ms [] []) tr) as [st|] eqn:R; [|discriminate].
  exists st. split; [apply vrun_chain; exact R|]. split.
  - eapply vrun_wf; [|exact R]. exact F.
  - destruct (v_owed st); [|discriminate]. destruct (v_inj st); [|discriminate]. auto.
Qed.

(* ---------- concrete witnesses ---------- *)
(* machine with a wildcard listener on port 80: application 1 *)
Definition ex_t0 : tstate := mkT [] [] [] [TCP_TID; 1; 2] [(167772161, None)].
Definition ex_t1 : tstate := snd (tcp_listen ex_t0 1 (ANY, 80)).

(* a SYN addressed to 0.0.0.0:81 passes Ipv4 (wildcard TCP binding), finds no session and no exact
   binding, and the wildcard key IS the exact key: the second `entry` is on the very same key *)
Lemma deadlock_example :
  tcp_demux_orig true ex_t1 (mkSeg (167772417, 4000) (ANY, 81) 2 7 0 0) = (DDeadlock, ex_t1) /\
  arrive ex_t1 (mkSeg (167772417, 4000) (ANY, 81) 2 7 0 0) =
    (DClosed (Some (mkSeg (ANY, 81) (167772417, 4000) 20 0 8 0)), ex_t1).
Proof. vm_compute. split; reflexivity. Qed.

(* Tcp::listen overwrites: application 2 takes the endpoint from application 1 without any error, and a SYN
   then creates a session for application 2 *)
Lemma listen_overwrites_example :
  let s2 := snd (tcp_listen ex_t1 2 (ANY, 80)) in
  fst (tcp_listen ex_t1 2 (ANY, 80)) = 0 /\
  fst (arrive s2 (mkSeg (167772417, 4000) (167772161, 80) 2 7 0 0)) = DListenCreate 2.
Proof. vm_compute. split; reflexivity. Qed.

(* the hypotheses of the creation theorem are satisfiable; a duplicate SYN and a later ACK go to the session *)
Lemma creation_example :
  let syn := mkSeg (167772417, 4000) (167772161, 80) 2 7 0 0 in
  let s2 := snd (arrive ex_t1 syn) in
  fst (arrive ex_t1 syn) = DListenCreate 1 /\
  fst (arrive s2 syn) = DSession 1 /\
  fst (arrive s2 (mkSeg (167772417, 4000) (167772161, 80) 16 8 1 0)) = DSession 1 /\
  fst (arrive s2 (mkSeg (167772417, 4001) (167772161, 80) 16 8 1 0)) =
    DListenReply (mkSeg (167772161, 80) (167772417, 4001) 4 1 0 0) /\
  fst (arrive s2 (mkSeg (167772417, 4001) (167772161, 81) 2 8 0 0)) =
    DClosed (Some (mkSeg (167772161, 81) (167772417, 4001) 20 0 9 0)) /\
  fst (arrive s2 (mkSeg (167772417, 4001) (167772162, 80) 4 8 0 0)) = DListenIgnore /\
  wf_sess s2.
Proof.
  cbn zeta. repeat split; try (vm_compute; reflexivity).
  apply (tapply_wf ex_t1 (TArrive (mkSeg (167772417, 4000) (167772161, 80) 2 7 0 0))).
  unfold wf_sess. cbn. constructor.
Qed.
