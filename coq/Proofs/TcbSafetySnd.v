(* Monotonicity of the peer view, frame lemmas for the TCB setters, and
   preservation of the sender half of the invariant by send / close /
   segments / advance_time / receive. *)
From Elvis Require Import Model.Base Model.U32 Model.Tcb Model.TcpNet
  Proofs.U32Facts Proofs.TcbSafetyDefs Proofs.TcbSafetyBase.
From Coq Require Import ZifyBool.
Local Open Scope Z_scope.
Ltac Zify.zify_post_hook ::= Z.div_mod_to_equations.

Ltac splits := repeat match goal with |- _ /\ _ => split end.

Ltac tcb_simpl :=
  cbn [lport rport mtu listen_init st snd_una snd_nxt snd_wnd snd_wl1 snd_wl2 snd_iss
       rcv_irs rcv_nxt rcv_wnd out_text retx oneshot fin_pending in_segs in_text rto time_wait
       set_st set_snd_una set_snd_nxt set_snd_window set_rcv_irs set_rcv_nxt set_out_text
       set_retx set_oneshot set_fin_pending set_in_segs set_in_text set_rto set_time_wait
       s_hdr s_text t_seg t_needs h_seq h_ack h_ctl h_wnd h_urg h_sport h_dport
       c_urg c_ack c_psh c_rst c_syn c_fin
       pv_iss pv_sub pv_lim pv_frozen] in *.

(* ---------- views ---------- *)
Lemma pv_le_refl p : pv_le p p.
Proof.
  unfold pv_le. splits; try lia; auto.
  exists []. now rewrite app_nil_r.
Qed.

Lemma pv_le_trans p q r : pv_le p q -> pv_le q r -> pv_le p r.
Proof.
  intros (I1 & (m1 & S1) & L1 & F1) (I2 & (m2 & S2) & L2 & F2).
  unfold pv_le. splits.
  - congruence.
  - exists (m1 ++ m2). rewrite S2, S1. now rewrite app_assoc.
  - lia.
  - intros H. destruct (F1 H) as [Hq E1]. destruct (F2 Hq) as [Hr E2]. split; [assumption|congruence].
Qed.

Lemma seg_inv_mono p q seg : pv_wf p -> pv_le p q -> seg_inv p seg -> seg_inv q seg.
Proof.
  intros (Hu & Hl & Hb & Hf) (I & (more & HS) & L & F) (T & Sy & Fi).
  unfold seg_inv. split; [|split].
  - intros H. destruct (T H) as (A1 & A2 & A3 & A4 & A5).
    unfold seg_ok in *. destruct A5 as [A5 A6]. splits; try assumption.
    + unfold pv_base in *. rewrite I, HS.
      rewrite slice_app_stable; [exact A5|].
      pose proof (wsub_u32 (h_seq (s_hdr seg)) (wadd (pv_iss p) 1)) as Hw. unfold u32 in Hw.
      unfold zlen in *. lia.
    + unfold pv_base in *. rewrite I. lia.
  - intros H. destruct (Sy H) as (B1 & B2 & B3). splits; try assumption. congruence.
  - intros H. destruct (Fi H) as (B1 & B2 & B3 & B4). destruct (F B3) as [F1 F2].
    splits; try assumption. unfold pv_base. rewrite I, F2. exact B4.
Qed.

Lemma Forall_seg_inv_mono p q l : pv_wf p -> pv_le p q -> Forall (seg_inv p) l -> Forall (seg_inv q) l.
Proof. intros Hw Hle. apply Forall_impl. intros a. apply seg_inv_mono; assumption. Qed.

(* ---------- receiver half only reads a few fields ---------- *)
Definition rcv_same (t t' : tcb) : Prop :=
  in_segs t' = in_segs t /\ in_text t' = in_text t /\ rcv_irs t' = rcv_irs t /\
  rcv_nxt t' = rcv_nxt t /\ fin_consumed (st t') = fin_consumed (st t) /\
  state_eqb (st t') SynSent = state_eqb (st t) SynSent.

Lemma rcv_same_refl t : rcv_same t t.
Proof. unfold rcv_same. auto 10. Qed.
Lemma rcv_same_trans a b c : rcv_same a b -> rcv_same b c -> rcv_same a c.
Proof. unfold rcv_same. intuition congruence. Qed.

Lemma RcvInv_same pv D t t' : rcv_same t t' -> RcvInv pv D t -> RcvInv pv D t'.
Proof.
  intros (E1 & E2 & E3 & E4 & E5 & E6). unfold RcvInv, rcv_n.
  rewrite E1, E2, E3, E4, E5, E6. auto.
Qed.

Lemma RcvInv_mono p q D t : pv_wf p -> pv_le p q -> RcvInv p D t -> RcvInv q D t.
Proof.
  intros Hw Hle (H1 & H2 & H3). pose proof Hw as (Hu & Hl & Hb & Hf).
  pose proof Hle as (I & (more & HS) & L & F).
  unfold RcvInv. split; [eapply Forall_seg_inv_mono; eassumption|]. split; [assumption|].
  destruct (state_eqb (st t) SynSent); [assumption|].
  destruct H3 as (A1 & A2 & A3 & A4 & A5).
  assert (En : rcv_n q t = rcv_n p t) by (unfold rcv_n, pv_base; now rewrite I).
  rewrite En. splits; try lia; try congruence.
  - rewrite HS, firstn_app_stable; [assumption|]. unfold zlen in *. lia.
  - intros H. destruct (A5 H) as [Hfr Hn]. destruct (F Hfr) as [Hq E]. rewrite E. auto.
Qed.

(* ---------- sender half only reads a few fields ---------- *)
Definition snd_frame (t t' : tcb) : Prop :=
  snd_iss t' = snd_iss t /\ mtu t' = mtu t /\ rcv_wnd t' = rcv_wnd t /\ snd_nxt t' = snd_nxt t /\
  out_text t' = out_text t /\ fin_pending t' = fin_pending t /\
  closed_state (st t') = closed_state (st t).

Lemma snd_frame_refl t : snd_frame t t.
Proof. unfold snd_frame. auto 10. Qed.
Lemma snd_frame_trans a b c : snd_frame a b -> snd_frame b c -> snd_frame a c.
Proof. unfold snd_frame. intuition congruence. Qed.

Lemma snd_frame_pv iss S t t' : snd_frame t t' -> my_pv iss S t' = my_pv iss S t.
Proof.
  intros (E1 & E2 & E3 & E4 & E5 & E6 & E7). unfold my_pv, data_sent, finq.
  now rewrite E5, E6, E7.
Qed.

Lemma SndInv_frame iss m S t t' :
  snd_frame t t' -> SndInv iss m S t ->
  Forall (seg_inv (my_pv iss S t)) (map t_seg (retx t')) ->
  Forall plain_hdr (oneshot t') ->
  SndInv iss m S t'.
Proof.
  intros Hf (A1 & A2 & A3 & A4 & A5 & A6 & A7 & A8 & A9 & A10) Hr Ho.
  pose proof (snd_frame_pv iss S t t' Hf) as Epv.
  destruct Hf as (E1 & E2 & E3 & E4 & E5 & E6 & E7).
  unfold SndInv. rewrite Epv. unfold data_sent, finq in *. rewrite E1, E2, E3, E4, E5, E6, E7.
  splits; assumption.
Qed.

Lemma SndInv_wf iss m S t : u32 iss -> zlen S < SEQ_BOUND -> SndInv iss m S t -> pv_wf (my_pv iss S t).
Proof.
  intros Hu Hb (A1 & A2 & A3 & A4 & A5 & A6 & A7 & A8 & A9 & A10).
  unfold pv_wf, my_pv; tcb_simpl. unfold data_sent in *.
  pose proof (zlen_nonneg (out_text t)).
  splits; try assumption; try lia.
  intros Hq. rewrite (A8 Hq). rewrite zlen_nil. lia.
Qed.

(* ---------- plain headers and enqueue ---------- *)
Lemma enqueue_plain t h : plain_hdr h -> enqueue t h = set_oneshot t (oneshot t ++ [h]).
Proof. intros [H1 H2]. unfold enqueue. now rewrite H1, H2. Qed.

Lemma ack_hdr_plain t : plain_hdr (ack_hdr t).
Proof. split; reflexivity. Qed.
Lemma rst_hdr_plain t x : plain_hdr (rst_hdr t x).
Proof. split; reflexivity. Qed.
Lemma tw_ack_plain t x y : plain_hdr (hb_wnd (hb_ack (hb t x) y) (rcv_wnd t)).
Proof. split; reflexivity. Qed.

Lemma Forall_plain_snoc l h : Forall plain_hdr l -> plain_hdr h -> Forall plain_hdr (l ++ [h]).
Proof. intros. apply Forall_app. split; [assumption|]. constructor; [assumption|constructor]. Qed.

Lemma Forall_map_filter {A B} (P : B -> Prop) (g : A -> B) f (l : list A) :
  Forall P (map g l) -> Forall P (map g (filter f l)).
Proof.
  induction l as [|a l IH]; cbn [map filter]; [auto|].
  intros H. inversion H; subst. destruct (f a); cbn [map]; auto.
Qed.

Lemma map_tseg_flag b l : map t_seg (map (fun tx => mkTx (t_seg tx) b) l) = map t_seg l.
Proof. rewrite map_map. apply map_ext. reflexivity. Qed.

(* ---------- the three kinds of segments this stack builds ---------- *)
Lemma plain_seg_inv pv h : plain_hdr h -> seg_inv pv (mkSeg h []).
Proof. intros [P1 P2]. unfold seg_inv; tcb_simpl. splits; intros; splits; congruence. Qed.

Lemma fin_seg_inv pv h :
  c_syn (h_ctl h) = false -> pv_frozen pv = true ->
  h_seq h = wadd (pv_base pv) (zlen (pv_sub pv)) -> seg_inv pv (mkSeg h []).
Proof. intros P1 P2 P3. unfold seg_inv; tcb_simpl. splits; intros; splits; congruence. Qed.

Lemma syn_seg_inv pv h :
  c_fin (h_ctl h) = false -> h_seq h = pv_iss pv -> seg_inv pv (mkSeg h []).
Proof. intros P1 P2. unfold seg_inv; tcb_simpl. splits; intros; splits; congruence. Qed.

Lemma data_seg_inv pv h text :
  c_syn (h_ctl h) = false -> c_fin (h_ctl h) = false -> u32 (h_seq h) -> zlen text <= 65535 ->
  seg_ok pv (mkSeg h text) -> seg_inv pv (mkSeg h text).
Proof. intros P1 P2 P3 P4 P5. unfold seg_inv; tcb_simpl. splits; intros; splits; try congruence; auto. Qed.

(* ---------- send ---------- *)
Lemma accepts_send_open s : accepts_send s = true -> closed_state s = false.
Proof. destruct s; cbn; congruence. Qed.

Lemma send_inv iss m S t bytes :
  u32 iss -> zlen S < SEQ_BOUND ->
  SndInv iss m S t -> accepts_send (st t) = true ->
  SndInv iss m (S ++ bytes) (tcb_send t bytes) /\
  pv_le (my_pv iss S t) (my_pv iss (S ++ bytes) (tcb_send t bytes)) /\
  rcv_same t (tcb_send t bytes).
Proof.
  intros Hu Hb HI Hacc. pose proof (SndInv_wf _ _ _ _ Hu Hb HI) as Hwf.
  destruct HI as (A1 & A2 & A3 & A4 & A5 & A6 & A7 & A8 & A9 & A10).
  pose proof (accepts_send_open _ Hacc) as Hopen.
  unfold tcb_send. rewrite Hacc.
  assert (Hfq : finq (set_out_text t (out_text t ++ bytes)) = false)
    by (unfold finq; tcb_simpl; now rewrite Hopen).
  assert (Hfq0 : finq t = false) by (unfold finq; now rewrite Hopen).
  assert (Hds : data_sent (S ++ bytes) (set_out_text t (out_text t ++ bytes)) = data_sent S t)
    by (unfold data_sent; tcb_simpl; rewrite !zlen_app; lia).
  assert (Hle : pv_le (my_pv iss S t) (my_pv iss (S ++ bytes) (set_out_text t (out_text t ++ bytes)))).
  { unfold pv_le, my_pv; tcb_simpl. rewrite Hds, Hfq0. splits; try lia; try discriminate.
    exists bytes. reflexivity. }
  split; [|split; [exact Hle|unfold rcv_same; tcb_simpl; auto 10]].
  unfold SndInv. rewrite Hds, Hfq. tcb_simpl.
  splits; try assumption.
  - rewrite skipn_app_suffix; [now rewrite <- A5|].
    unfold data_sent, zlen in *. lia.
  - now rewrite <- Hfq0.
  - discriminate.
  - eapply Forall_seg_inv_mono; eassumption.
Qed.

Lemma send_ignored t bytes : accepts_send (st t) = false -> tcb_send t bytes = t.
Proof. intros H. unfold tcb_send. now rewrite H. Qed.

(* ---------- queue_pending_fin / close ---------- *)
Lemma fin_hdr_flags t x y :
  let h := hb_wnd (hb_ack (hb_fin (hb t x)) y) (rcv_wnd t) in
  c_syn (h_ctl h) = false /\ c_fin (h_ctl h) = true /\ h_seq h = x.
Proof. cbn. auto. Qed.

Lemma wadd_wadd a b c : wadd (wadd a b) c = wadd a (b + c).
Proof. rewrite !wadd_spec. unfold M32. lia. Qed.

Lemma qpf_inv iss m S t :
  u32 iss -> zlen S < SEQ_BOUND -> SndInv iss m S t ->
  SndInv iss m S (queue_pending_fin t) /\
  pv_le (my_pv iss S t) (my_pv iss S (queue_pending_fin t)) /\
  rcv_same t (queue_pending_fin t) /\ oneshot (queue_pending_fin t) = oneshot t.
Proof.
  intros Hu Hb HI. pose proof (SndInv_wf _ _ _ _ Hu Hb HI) as Hwf.
  unfold queue_pending_fin.
  destruct (fin_pending t) eqn:Efp; cbn [andb];
    [|split; [assumption|split; [apply pv_le_refl|split; [apply rcv_same_refl|reflexivity]]]].
  destruct (out_text t) eqn:Eot;
    [|split; [assumption|split; [apply pv_le_refl|split; [apply rcv_same_refl|reflexivity]]]].
  destruct HI as (A1 & A2 & A3 & A4 & A5 & A6 & A7 & A8 & A9 & A10).
  pose proof (A7 Efp) as Hcl.
  set (h := hb_wnd (hb_ack (hb_fin (hb (set_fin_pending t false) (snd_nxt (set_fin_pending t false))))
                           (rcv_nxt (set_fin_pending t false))) (rcv_wnd (set_fin_pending t false))).
  assert (Henq : enqueue (set_fin_pending t false) h =
                 set_retx (set_fin_pending t false) (retx t ++ [mkTx (mkSeg h []) true])).
  { unfold enqueue. subst h. cbn. reflexivity. }
  rewrite Henq. clear Henq.
  set (t' := set_snd_nxt _ _).
  assert (Hq0 : finq t = false) by (unfold finq; rewrite Efp, Hcl; reflexivity).
  assert (Hq1 : finq t' = true) by (unfold finq; subst t'; tcb_simpl; rewrite Hcl; reflexivity).
  assert (Hds : data_sent S t' = data_sent S t) by (unfold data_sent; subst t'; tcb_simpl; reflexivity).
  assert (Hall : data_sent S t = zlen S) by (unfold data_sent; rewrite Eot, zlen_nil; lia).
  assert (Hle : pv_le (my_pv iss S t) (my_pv iss S t')).
  { unfold pv_le, my_pv; tcb_simpl. rewrite Hds, Hq0. splits; try lia; try discriminate.
    exists []. now rewrite app_nil_r. }
  split; [|split; [exact Hle|split; [subst t'; unfold rcv_same; tcb_simpl; auto 10|reflexivity]]].
  unfold SndInv. rewrite Hds, Hq1. subst t'. tcb_simpl. rewrite Eot in *.
  splits; try assumption; try reflexivity; try discriminate.
  - rewrite A6, Hq0. rewrite wadd_wadd. cbn [b2z]. f_equal. lia.
  - rewrite map_app. apply Forall_app. split.
    + eapply Forall_seg_inv_mono; [exact Hwf|exact Hle|exact A9].
    + cbn [map]. constructor; [|constructor]. tcb_simpl.
      apply fin_seg_inv; [reflexivity|exact Hq1|].
      unfold pv_base; cbn [my_pv pv_iss pv_sub]. subst h. cbn [hb_wnd hb_ack hb_fin hb_flag hb h_seq].
      tcb_simpl. rewrite A6, Hq0, Hall. cbn [b2z]. f_equal. lia.
Qed.

Lemma close_inv iss m S t t' r :
  u32 iss -> zlen S < SEQ_BOUND -> SndInv iss m S t -> tcb_close t = (t', r) ->
  SndInv iss m S t' /\ pv_le (my_pv iss S t) (my_pv iss S t') /\ rcv_same t t'.
Proof.
  intros Hu Hb HI. unfold tcb_close.
  assert (Hgen : forall s0, closed_state (st t) = false -> closed_state s0 = true ->
     fin_consumed s0 = fin_consumed (st t) -> state_eqb (st t) SynSent = false -> state_eqb s0 SynSent = false ->
     let t1 := set_st (set_fin_pending t true) s0 in
     SndInv iss m S (queue_pending_fin t1) /\ pv_le (my_pv iss S t) (my_pv iss S (queue_pending_fin t1)) /\
     rcv_same t (queue_pending_fin t1)).
  { intros s0 Hop Hcl Hfc Hss1 Hss2 t1.
    assert (HI1 : SndInv iss m S t1).
    { destruct HI as (A1 & A2 & A3 & A4 & A5 & A6 & A7 & A8 & A9 & A10).
      assert (Hq0 : finq t = false) by (unfold finq; now rewrite Hop).
      assert (Hq1 : finq t1 = false) by (unfold finq; subst t1; tcb_simpl; now rewrite Hcl).
      unfold SndInv. unfold my_pv, data_sent in *. rewrite Hq1. rewrite Hq0 in *. subst t1; tcb_simpl.
      splits; try assumption; try discriminate; auto. }
    assert (Hpv : my_pv iss S t1 = my_pv iss S t).
    { unfold my_pv, data_sent, finq. subst t1; tcb_simpl. rewrite Hop, Hcl. reflexivity. }
    destruct (qpf_inv iss m S t1 Hu Hb HI1) as (B1 & B2 & B3 & _).
    split; [exact B1|]. split; [now rewrite <- Hpv|].
    eapply rcv_same_trans; [|exact B3]. subst t1. unfold rcv_same; tcb_simpl.
    splits; auto; congruence. }
  destruct (st t) eqn:Est; intros [= <- <-];
    try (split; [assumption|split; [apply pv_le_refl|apply rcv_same_refl]]).
  - apply (Hgen FinWait1); reflexivity.
  - apply (Hgen FinWait1); reflexivity.
  - apply (Hgen LastAck); reflexivity.
Qed.

(* ---------- advance_time, receive ---------- *)
Lemma advance_time_inv iss m S t dt t' r :
  SndInv iss m S t -> advance_time t dt = (t', r) ->
  SndInv iss m S t' /\ my_pv iss S t' = my_pv iss S t /\ rcv_same t t'.
Proof.
  intros HI. unfold advance_time.
  set (t1 := if rto t <? dt then _ else _).
  assert (H1 : snd_frame t t1 /\ rcv_same t t1 /\ map t_seg (retx t1) = map t_seg (retx t) /\ oneshot t1 = oneshot t).
  { subst t1. destruct (rto t <? dt); unfold snd_frame, rcv_same; tcb_simpl;
      rewrite ?map_tseg_flag; auto 20. }
  destruct H1 as (F1 & R1 & M1 & O1).
  assert (HI1 : SndInv iss m S t1).
  { eapply SndInv_frame; [exact F1|exact HI| |].
    - rewrite M1. apply HI.
    - rewrite O1. apply HI. }
  assert (Hend : forall t2, (t2 = t1 \/ exists tw, t2 = set_time_wait t1 tw) ->
     SndInv iss m S t2 /\ my_pv iss S t2 = my_pv iss S t /\ rcv_same t t2).
  { intros t2 [->|[tw ->]].
    - split; [assumption|]. split; [now apply snd_frame_pv|assumption].
    - assert (F2 : snd_frame t1 (set_time_wait t1 tw)) by (unfold snd_frame; tcb_simpl; auto 10).
      split; [|split].
      + eapply SndInv_frame; [exact F2|exact HI1| |]; tcb_simpl; apply HI1.
      + rewrite (snd_frame_pv _ _ _ _ F2). now apply snd_frame_pv.
      + eapply rcv_same_trans; [exact R1|]. unfold rcv_same; tcb_simpl; auto 10. }
  destruct (time_wait t1) as [tw|]; [destruct (tw <? dt)|]; intros [= <- <-]; apply Hend; eauto.
Qed.

Lemma receive_snd iss m S t :
  SndInv iss m S t -> SndInv iss m S (set_in_text t []) /\ my_pv iss S (set_in_text t []) = my_pv iss S t.
Proof.
  intros HI.
  assert (F : snd_frame t (set_in_text t [])) by (unfold snd_frame; tcb_simpl; auto 10).
  split; [|now apply snd_frame_pv].
  eapply SndInv_frame; [exact F|exact HI| |]; tcb_simpl; apply HI.
Qed.

(* ---------- segments ---------- *)
Lemma seg_loop_inv iss m S mss : u32 iss -> zlen S < SEQ_BOUND -> 0 <= mss <= 65485 ->
  forall fuel t remaining,
  SndInv iss m S t -> remaining = zlen (out_text t) -> (length (out_text t) < fuel)%nat ->
  exists t', seg_loop fuel t mss remaining = Ok t' /\ SndInv iss m S t' /\
    pv_le (my_pv iss S t) (my_pv iss S t') /\ rcv_same t t' /\ oneshot t' = oneshot t /\
    fin_pending t' = fin_pending t /\ st t' = st t.
Proof.
  intros Hu Hb Hmss. induction fuel as [|f IH]; intros t remaining HI Hrem Hfuel; [lia|].
  cbn [seg_loop].
  set (bytes := Z.min (Z.min mss (Z.max 0 (snd_wnd t - wsub (snd_nxt t) (snd_una t)))) remaining).
  destruct (bytes =? 0) eqn:Eb.
  { exists t. splits; try assumption; try reflexivity; try apply pv_le_refl; apply rcv_same_refl. }
  assert (Hbytes : 0 < bytes <= 65485 /\ bytes <= zlen (out_text t)).
  { subst bytes. pose proof (zlen_nonneg (out_text t)). lia. }
  replace (65535 <? bytes + 20) with false by lia.
  pose proof (SndInv_wf _ _ _ _ Hu Hb HI) as Hwf.
  set (h := hb_wnd (hb_ack (hb t (snd_nxt t)) (rcv_nxt t)) (rcv_wnd t)).
  set (text := firstn (Z.to_nat bytes) (out_text t)).
  set (t3 := set_retx _ _).
  assert (Hlen : zlen text = bytes).
  { subst text. rewrite zlen_firstn. lia. }
  destruct HI as (A1 & A2 & A3 & A4 & A5 & A6 & A7 & A8 & A9 & A10).
  assert (Hq0 : finq t = false).
  { destruct (finq t) eqn:E; [|reflexivity].
    assert (E0 : zlen (out_text t) = 0) by (rewrite (A8 eq_refl); reflexivity). lia. }
  assert (Hq3 : finq t3 = false) by (unfold finq in *; subst t3; tcb_simpl; exact Hq0).
  assert (Hds3 : data_sent S t3 = data_sent S t + bytes).
  { unfold data_sent. subst t3; tcb_simpl. rewrite zlen_skipn. lia. }
  assert (HdsS : data_sent S t + bytes <= zlen S).
  { unfold data_sent in *. lia. }
  assert (Hle : pv_le (my_pv iss S t) (my_pv iss S t3)).
  { unfold pv_le, my_pv; tcb_simpl. rewrite Hds3, Hq0. splits; try lia; try discriminate.
    exists []. now rewrite app_nil_r. }
  assert (HI3 : SndInv iss m S t3).
  { unfold SndInv. rewrite Hds3, Hq3. subst t3; tcb_simpl.
    splits; try assumption; try lia.
    - rewrite A5, skipn_skipn. f_equal. lia.
    - rewrite A6, Hq0, wadd_wadd. f_equal. cbn [b2z]. lia.
    - rewrite map_app. apply Forall_app. split.
      + eapply Forall_seg_inv_mono; [exact Hwf|exact Hle|exact A9].
      + cbn [map]. constructor; [|constructor]. tcb_simpl.
        assert (Hoff : wsub (snd_nxt t) (wadd iss 1) = data_sent S t).
        { rewrite A6, Hq0. cbn [b2z]. rewrite wsub_spec, !wadd_spec.
          unfold u32, M32, SEQ_BOUND in *. lia. }
        assert (Hseq : h_seq h = snd_nxt t) by reflexivity.
        apply data_seg_inv; try reflexivity.
        * rewrite Hseq, A6. apply wadd_u32.
        * lia.
        * unfold seg_ok; tcb_simpl. rewrite Hseq. unfold pv_base; cbn [my_pv pv_iss pv_sub pv_lim].
          rewrite Hoff. split; [|lia].
          subst text. rewrite A5.
          rewrite firstn_length, skipn_length.
          f_equal. unfold zlen in *. lia. }
  destruct (IH t3 (remaining - bytes) HI3) as (t' & E' & I' & L' & R' & O' & P' & S').
  { subst t3; tcb_simpl. rewrite zlen_skipn. lia. }
  { subst t3; tcb_simpl. rewrite skipn_length. unfold zlen in *. lia. }
  exists t'. split; [exact E'|]. split; [exact I'|].
  split; [eapply pv_le_trans; eassumption|].
  split; [eapply rcv_same_trans; [|exact R']; subst t3; unfold rcv_same; tcb_simpl; auto 10|].
  split; [rewrite O'; reflexivity|]. split; [rewrite P'; reflexivity|rewrite S'; reflexivity].
Qed.

Lemma segments_inv iss m S t :
  u32 iss -> zlen S < SEQ_BOUND -> 100 <= m <= 65535 -> SndInv iss m S t ->
  exists t' segs, tcb_segments t = Ok (t', segs) /\ SndInv iss m S t' /\
    pv_le (my_pv iss S t) (my_pv iss S t') /\ rcv_same t t' /\
    Forall (seg_inv (my_pv iss S t')) segs.
Proof.
  intros Hu Hb Hm HI. unfold tcb_segments.
  set (t0 := set_oneshot t []).
  assert (F0 : snd_frame t t0) by (unfold snd_frame; subst t0; tcb_simpl; auto 10).
  assert (HI0 : SndInv iss m S t0).
  { eapply SndInv_frame; [exact F0|exact HI| |]; subst t0; tcb_simpl; [apply HI|constructor]. }
  assert (Hone : Forall (seg_inv (my_pv iss S t)) (map (fun h => mkSeg h []) (oneshot t))).
  { destruct HI as (_ & _ & _ & _ & _ & _ & _ & _ & _ & A10).
    induction A10 as [|h l Hp _ IHl]; cbn [map]; constructor; [|exact IHl].
    apply plain_seg_inv, Hp. }
  (* the middle part: r1 *)
  assert (Hmid : exists t1,
    (if segmentizes (st t0) then
       if mtu t0 <? SPACE_FOR_HEADERS then Panic 5
       else match seg_loop (Datatypes.S (length (out_text t0))) t0 (mtu t0 - SPACE_FOR_HEADERS) (zlen (out_text t0)) with
            | Ok t1 => Ok (queue_pending_fin t1) | other => other end
     else Ok t0) = Ok t1 /\ SndInv iss m S t1 /\ pv_le (my_pv iss S t) (my_pv iss S t1) /\
     rcv_same t t1 /\ oneshot t1 = []).
  { destruct (segmentizes (st t0)).
    - assert (Em : mtu t0 = m) by apply HI0. rewrite Em. unfold SPACE_FOR_HEADERS.
      replace (m <? 50) with false by lia.
      destruct (seg_loop_inv iss m S (m - 50) Hu Hb ltac:(lia) (Datatypes.S (length (out_text t0))) t0 _ HI0 eq_refl ltac:(lia))
        as (t1 & E1 & I1 & L1 & R1 & O1 & _).
      rewrite E1. destruct (qpf_inv iss m S t1 Hu Hb I1) as (B1 & B2 & B3 & B4).
      exists (queue_pending_fin t1). split; [reflexivity|]. split; [exact B1|].
      split; [|split].
      + rewrite <- (snd_frame_pv iss S t t0 F0). eapply pv_le_trans; eassumption.
      + eapply rcv_same_trans; [|exact B3]. eapply rcv_same_trans; [|exact R1].
        subst t0. unfold rcv_same; tcb_simpl; auto 10.
      + rewrite B4, O1. reflexivity.
    - exists t0. split; [reflexivity|]. split; [exact HI0|].
      split; [rewrite (snd_frame_pv iss S t t0 F0); apply pv_le_refl|].
      split; [subst t0; unfold rcv_same; tcb_simpl; auto 10|reflexivity]. }
  destruct Hmid as (t1 & E1 & I1 & L1 & R1 & O1). rewrite E1.
  set (t2 := set_retx t1 _).
  assert (F2 : snd_frame t1 t2) by (unfold snd_frame; subst t2; tcb_simpl; auto 10).
  assert (HI2 : SndInv iss m S t2).
  { eapply SndInv_frame; [exact F2|exact I1| |]; subst t2; tcb_simpl.
    - rewrite map_tseg_flag. apply I1.
    - apply I1. }
  assert (R2 : rcv_same t1 t2) by (subst t2; unfold rcv_same; tcb_simpl; auto 10).
  pose proof (SndInv_wf _ _ _ _ Hu Hb HI) as Hwf.
  assert (Hsegs : Forall (seg_inv (my_pv iss S t1))
            (map (fun h => mkSeg h []) (oneshot t) ++ map t_seg (filter t_needs (retx t1)))).
  { apply Forall_app. split.
    - eapply Forall_seg_inv_mono; eassumption.
    - apply Forall_map_filter. apply I1. }
  assert (Hfin : forall t3, (t3 = t2 \/ t3 = set_rto t2 RTO) ->
     SndInv iss m S t3 /\ pv_le (my_pv iss S t) (my_pv iss S t3) /\ rcv_same t t3 /\
     my_pv iss S t3 = my_pv iss S t1).
  { intros t3 [->| ->].
    - split; [exact HI2|]. rewrite (snd_frame_pv _ _ _ _ F2).
      split; [exact L1|]. split; [eapply rcv_same_trans; eassumption|reflexivity].
    - assert (F3 : snd_frame t2 (set_rto t2 RTO)) by (unfold snd_frame; tcb_simpl; auto 10).
      split; [eapply SndInv_frame; [exact F3|exact HI2| |]; tcb_simpl; apply HI2|].
      rewrite (snd_frame_pv _ _ _ _ F3), (snd_frame_pv _ _ _ _ F2).
      split; [exact L1|]. split; [|reflexivity].
      eapply rcv_same_trans; [exact R1|]. eapply rcv_same_trans; [exact R2|].
      unfold rcv_same; tcb_simpl; auto 10. }
  eexists _, _. split; [reflexivity|].
  match goal with |- SndInv _ _ _ ?t3 /\ _ =>
    destruct (Hfin t3) as (C1 & C2 & C3 & C4);
      [destruct (map t_seg (filter t_needs (retx t1))); auto|]
  end.
  split; [exact C1|]. split; [exact C2|]. split; [exact C3|]. rewrite C4. exact Hsegs.
Qed.
