(* Facts about Model/IpGen.v: the availability abstraction, block / return / fetch
   specifications, panic freedom at both ends of the address space, the history
   invariant (no double allocation), and the no-ends constructor. *)
From Coq Require Import ZifyBool Sorted.
From Elvis Require Import Model.Base Model.IpGen.
Local Open Scope Z_scope.

(* ------------------------------------------------------------------ abstraction *)
Definition inr (r : range) (a : Z) : Prop := rstart r <= a <= rend r.
Definition avail (g : gen) (a : Z) : Prop := exists r, In r g /\ inr r a.
Definition u32 (x : Z) : Prop := 0 <= x <= MAXIP.
Definition range_u32 (r : range) : Prop := u32 (rstart r) /\ u32 (rend r).
Definition gen_u32 (g : gen) : Prop := Forall range_u32 g.

Definition aligned (id m : Z) : Prop := id mod hostsize m = 0.
Definition net_last (n : net) : Z := net_id n + hostsize (net_bits n) - 1.
Definition in_net (n : net) (a : Z) : Prop := net_id n <= a <= net_last n.
Definition wf_net (n : net) : Prop :=
  0 <= net_bits n <= 32 /\ 0 <= net_id n /\ aligned (net_id n) (net_bits n) /\ net_last n <= MAXIP.

(* ------------------------------------------------------------------ the set *)
Lemma range_eqb_eq a b : range_eqb a b = true <-> a = b.
Proof.
  destruct a as [a1 a2], b as [b1 b2]; unfold range_eqb, rstart, rend; cbn [fst snd].
  rewrite andb_true_iff, !Z.eqb_eq. split.
  - intros [-> ->]; reflexivity.
  - intros H; inversion H; auto.
Qed.

Lemma range_eqb_neq a b : range_eqb a b = false <-> a <> b.
Proof.
  split.
  - intros H E. apply range_eqb_eq in E. congruence.
  - intros H. destruct (range_eqb a b) eqn:E; auto. apply range_eqb_eq in E. contradiction.
Qed.

Lemma In_set_insert r g x : In x (set_insert r g) <-> x = r \/ In x g.
Proof.
  induction g as [|y t IH]; cbn [set_insert].
  - simpl. intuition.
  - destruct (range_ltb r y). { simpl; intuition. }
    destruct (range_eqb r y) eqn:E.
    { apply range_eqb_eq in E; subst. simpl; intuition. }
    simpl. rewrite IH. intuition.
Qed.

Lemma In_set_remove r g x : In x (set_remove r g) <-> In x g /\ x <> r.
Proof.
  unfold set_remove. rewrite filter_In, negb_true_iff, range_eqb_neq. reflexivity.
Qed.

(* strict sortedness = the BTreeSet representation invariant *)
Definition range_lt (a b : range) : Prop := range_ltb a b = true.
Definition sorted (g : gen) : Prop := StronglySorted range_lt g.

Lemma range_lt_trans a b c : range_lt a b -> range_lt b c -> range_lt a c.
Proof. unfold range_lt, range_ltb. lia. Qed.

Lemma range_trichotomy a b : range_ltb a b = false -> range_eqb a b = false -> range_lt b a.
Proof. unfold range_lt, range_ltb, range_eqb. lia. Qed.

Lemma sorted_insert r g : sorted g -> sorted (set_insert r g).
Proof.
  unfold sorted. induction 1 as [|y t Hs IH Hall]; cbn [set_insert].
  - constructor; constructor.
  - destruct (range_ltb r y) eqn:L.
    + constructor. { constructor; auto. }
      constructor; auto. eapply Forall_impl; [|exact Hall].
      intros z Hz. eapply range_lt_trans; eauto.
    + destruct (range_eqb r y) eqn:E. { constructor; auto. }
      constructor; auto.
      apply Forall_forall. intros z Hz. apply In_set_insert in Hz. destruct Hz as [->|Hz].
      * apply range_trichotomy; auto.
      * rewrite Forall_forall in Hall; auto.
Qed.

Lemma sorted_filter f g : sorted g -> sorted (filter f g).
Proof.
  unfold sorted. induction 1 as [|y t Hs IH Hall]; cbn [filter]. { constructor. }
  destruct (f y); auto. constructor; auto.
  apply Forall_forall. intros z Hz. apply filter_In in Hz. rewrite Forall_forall in Hall. apply Hall, Hz.
Qed.

(* ------------------------------------------------------------------ add *)
Lemma add_m1 x : 0 < x <= MAXIP + 1 -> add x (-1) = Some (x - 1).
Proof. intros H. unfold add. replace (x + -1) with (x - 1) by lia.
  destruct ((0 <=? x - 1) && (x - 1 <=? MAXIP)) eqn:E; [reflexivity|lia]. Qed.
Lemma add_p1 x : -1 <= x < MAXIP -> add x 1 = Some (x + 1).
Proof. intros H. unfold add.
  destruct ((0 <=? x + 1) && (x + 1 <=? MAXIP)) eqn:E; [reflexivity|lia]. Qed.
Lemma add_p1_none x : MAXIP <= x -> add x 1 = None.
Proof. intros H. unfold add.
  destruct ((0 <=? x + 1) && (x + 1 <=? MAXIP)) eqn:E; [lia|reflexivity]. Qed.
Lemma add_m1_none x : x <= 0 -> add x (-1) = None.
Proof. intros H. unfold add.
  destruct ((0 <=? x + -1) && (x + -1 <=? MAXIP)) eqn:E; [lia|reflexivity]. Qed.

(* ------------------------------------------------------------------ block_range *)
(* the pieces one overlapping range leaves behind *)
Definition piece (rg av x : range) : Prop :=
  (rstart rg > 0 /\ x = (rstart av, rstart rg - 1) /\ rstart av <= rstart rg - 1) \/
  (rend rg < MAXIP /\ x = (rend rg + 1, rend av) /\ rend rg + 1 <= rend av).

Lemma In_ins_nonempty (p : range) g x :
  In x (if is_empty p then g else set_insert p g) <-> In x g \/ (x = p /\ rstart p <= rend p).
Proof.
  unfold is_empty. destruct (rend p <? rstart p) eqn:E.
  - intuition (try lia).
  - rewrite In_set_insert. intuition (try lia).
Qed.

Lemma split_one_spec rg av g : range_u32 rg ->
  exists g', split_one rg av g = Ok g' /\
    forall x, In x g' <-> (In x g /\ x <> av) \/ piece rg av x.
Proof.
  intros [[Hs1 Hs2] [He1 He2]]. unfold split_one, piece. unfold rstart, rend in *.
  destruct (fst rg >? 0) eqn:G1; destruct (snd rg <? MAXIP) eqn:G2.
  - rewrite add_m1 by lia. rewrite add_p1 by lia. cbn [bind].
    eexists; split; [reflexivity|]. intro x.
    rewrite In_ins_nonempty, In_ins_nonempty, In_set_remove. unfold rstart, rend; cbn [fst snd].
    intuition (try lia).
  - rewrite add_m1 by lia. cbn [bind].
    eexists; split; [reflexivity|]. intro x.
    rewrite In_ins_nonempty, In_set_remove. unfold rstart, rend; cbn [fst snd].
    intuition (try lia).
  - rewrite add_p1 by lia. cbn [bind].
    eexists; split; [reflexivity|]. intro x.
    rewrite In_ins_nonempty, In_set_remove. unfold rstart, rend; cbn [fst snd].
    intuition (try lia).
  - cbn [bind]. eexists; split; [reflexivity|]. intro x.
    rewrite In_set_remove. intuition (try lia).
Qed.

Lemma piece_no_overlap rg av x : piece rg av x -> overlaps x rg = false.
Proof.
  unfold piece, overlaps, rstart, rend. intros [[_ [-> _]]|[_ [-> _]]]; cbn [fst snd]; lia.
Qed.

Lemma split_all_spec rg : range_u32 rg -> forall ovl g,
  (forall av, In av ovl -> overlaps av rg = true) ->
  exists g', split_all rg ovl g = Ok g' /\
    forall x, In x g' <-> (In x g /\ ~ In x ovl) \/ (exists av, In av ovl /\ piece rg av x).
Proof.
  intros Hrg. induction ovl as [|av t IH]; intros g Hov; cbn [split_all].
  - eexists; split; [reflexivity|]. intro x. simpl. split.
    + intros H; left; auto.
    + intros [[H _]|[av [[] _]]]; auto.
  - destruct (split_one_spec rg av g Hrg) as [g1 [E1 H1]]. rewrite E1; cbn [bind].
    destruct (IH g1) as [g' [E' H']]. { intros; apply Hov; right; auto. }
    exists g'; split; [exact E'|]. intro x. rewrite H'. split.
    + intros [[Hx Hnt]|[av' [Hin Hp]]].
      * apply H1 in Hx. destruct Hx as [[Hg Hne]|Hp].
        -- left. split; auto. intros [->|Ht]; auto.
        -- right. exists av; split; [left; auto|auto].
      * right. exists av'; split; [right; auto|auto].
    + intros [[Hg Hn]|[av' [[->|Hin] Hp]]].
      * left. split.
        -- apply H1. left; split; auto. intros ->. apply Hn; left; auto.
        -- intro Ht. apply Hn; right; auto.
      * left. split. { apply H1; right; auto. }
        intro Ht. pose proof (piece_no_overlap _ _ _ Hp) as Hno.
        rewrite Hov in Hno by (right; auto). discriminate.
      * right. exists av'; auto.
Qed.

Lemma block_range_In g rg : range_u32 rg ->
  exists g', block_range g rg = Ok g' /\
    forall x, In x g' <->
      (In x g /\ contains rg x = false /\ overlaps x rg = false) \/
      (exists av, In av g /\ contains rg av = false /\ overlaps av rg = true /\ piece rg av x).
Proof.
  intros Hrg. unfold block_range.
  set (g1 := filter (fun av => negb (contains rg av)) g).
  set (ovl := filter (fun av => overlaps av rg) g1).
  destruct (split_all_spec rg Hrg ovl g1) as [g' [E H]].
  { intros av Hin. apply filter_In in Hin. tauto. }
  exists g'; split; [exact E|]. intro x. rewrite H. unfold ovl, g1. split.
  - intros [[Hg Hn]|[av [Hin Hp]]].
    + left. apply filter_In in Hg. destruct Hg as [Hg Hc]. apply negb_true_iff in Hc.
      repeat split; auto. destruct (overlaps x rg) eqn:O; auto.
      exfalso. apply Hn. apply filter_In; split; auto. apply filter_In; split; auto.
      apply negb_true_iff; auto.
    + right. exists av. apply filter_In in Hin. destruct Hin as [Hin Ho].
      apply filter_In in Hin. destruct Hin as [Hin Hc]. apply negb_true_iff in Hc. auto.
  - intros [[Hg [Hc Ho]]|[av [Hin [Hc [Ho Hp]]]]].
    + left. split.
      * apply filter_In; split; auto. apply negb_true_iff; auto.
      * intro Hf. apply filter_In in Hf. destruct Hf as [_ Hf]. congruence.
    + right. exists av. split; auto. apply filter_In; split; auto.
      apply filter_In; split; auto. apply negb_true_iff; auto.
Qed.

(* block_spec: blocking removes exactly the addresses of the blocked range; it never panics,
   in particular not for ranges touching 0.0.0.0 or 255.255.255.255 *)
Lemma block_spec g rg : gen_u32 g -> range_u32 rg ->
  exists g', block_range g rg = Ok g' /\ gen_u32 g' /\
    forall a, avail g' a <-> avail g a /\ ~ inr rg a.
Proof.
  intros Hg Hrg. destruct (block_range_In g rg Hrg) as [g' [E H]].
  exists g'; split; [exact E|]. unfold gen_u32 in *. rewrite Forall_forall in Hg.
  destruct Hrg as [[Hs1 Hs2] [He1 He2]]. split.
  - apply Forall_forall. intros x Hx. apply H in Hx.
    destruct Hx as [[Hx _]|[av [Hin [_ [_ Hp]]]]]; auto.
    specialize (Hg av Hin). unfold range_u32, u32, piece, rstart, rend in *.
    destruct Hp as [[? [-> ?]]|[? [-> ?]]]; cbn [fst snd]; lia.
  - intro a. unfold avail, inr. split.
    + intros [x [Hx Ha]]. apply H in Hx. destruct Hx as [[Hx [Hc Ho]]|[av [Hin [Hc [Ho Hp]]]]].
      * split. { exists x; auto. }
        unfold overlaps, rstart, rend in *. lia.
      * unfold piece, overlaps, contains, rstart, rend in *.
        destruct Hp as [[? [-> ?]]|[? [-> ?]]]; cbn [fst snd] in Ha;
          (split; [exists av; split; [auto|lia]|lia]).
    + intros [[r [Hr Ha]] Hn]. specialize (Hg r Hr).
      unfold range_u32, u32, rstart, rend in *.
      destruct (contains rg r) eqn:Hc.
      { exfalso. apply Hn. unfold contains, rstart, rend in Hc. lia. }
      destruct (overlaps r rg) eqn:Ho.
      * assert (a < fst rg \/ snd rg < a) as [Hl|Hr'] by lia.
        -- exists (fst r, fst rg - 1). split; [|cbn [fst snd]; lia].
           apply H. right. exists r. repeat split; auto. left.
           unfold rstart, rend. repeat split; lia.
        -- exists (snd rg + 1, snd r). split; [|cbn [fst snd]; lia].
           apply H. right. exists r. repeat split; auto. right.
           unfold rstart, rend. repeat split; lia.
      * exists r. split; [|lia]. apply H. left. auto.
Qed.

(* return_spec *)
Lemma return_spec g r a : avail (return_range g r) a <-> avail g a \/ inr r a.
Proof.
  unfold avail, return_range. split.
  - intros [x [Hx Ha]]. apply In_set_insert in Hx. destruct Hx as [->|Hx]; [right; auto|left; exists x; auto].
  - intros [[x [Hx Ha]]|Ha].
    + exists x; split; auto. apply In_set_insert; auto.
    + exists r; split; auto. apply In_set_insert; auto.
Qed.

Lemma return_u32 g r : gen_u32 g -> range_u32 r -> gen_u32 (return_range g r).
Proof.
  unfold gen_u32, return_range. rewrite !Forall_forall. intros Hg Hr x Hx.
  apply In_set_insert in Hx. destruct Hx as [->|Hx]; auto.
Qed.

Lemma block_sorted g rg g' : sorted g -> block_range g rg = Ok g' -> sorted g'.
Proof.
  unfold block_range. intros Hs.
  assert (Hs1 : sorted (filter (fun av => negb (contains rg av)) g)) by (apply sorted_filter; auto).
  revert Hs1. generalize (filter (fun av => negb (contains rg av)) g) at 1 3 as g1.
  generalize (filter (fun av : range => overlaps av rg) (filter (fun av : range => negb (contains rg av)) g)) as ovl.
  induction ovl as [|av t IH]; intros g1 Hs1 E; cbn [split_all] in E.
  - inversion E; subst; auto.
  - destruct (split_one rg av g1) as [g2| | |] eqn:E1; cbn [bind] in E; try discriminate.
    apply (IH g2); auto.
    unfold split_one in E1.
    assert (Hr : sorted (set_remove av g1)) by (apply sorted_filter; auto).
    revert E1. generalize (set_remove av g1) as h, Hr. intros h Hh E1.
    assert (Hins : forall p h, sorted h -> sorted (if is_empty p then h else set_insert p h)).
    { intros p h0 H0. destruct (is_empty p); auto. apply sorted_insert; auto. }
    destruct (rstart rg >? 0).
    + destruct (add (rstart rg) (-1)); cbn [bind] in E1; try discriminate.
      destruct (rend rg <? MAXIP).
      * destruct (add (rend rg) 1); cbn [bind] in E1; try discriminate. inversion E1; subst. auto.
      * cbn [bind] in E1. inversion E1; subst; auto.
    + cbn [bind] in E1. destruct (rend rg <? MAXIP).
      * destruct (add (rend rg) 1); cbn [bind] in E1; try discriminate. inversion E1; subst. auto.
      * cbn [bind] in E1. inversion E1; subst; auto.
Qed.

(* ------------------------------------------------------------------ subnet arithmetic *)
Lemma hostsize_facts m : 0 <= m <= 32 ->
  1 <= hostsize m /\ exists K, 0 < K /\ MAXIP + 1 = hostsize m * K.
Proof.
  intros Hm. unfold hostsize. split.
  - assert (0 < 2 ^ (32 - m)) by (apply Z.pow_pos_nonneg; lia). lia.
  - exists (2 ^ m). split. { apply Z.pow_pos_nonneg; lia. }
    rewrite <- Z.pow_add_r by lia. replace (32 - m + m) with 32 by lia. reflexivity.
Qed.

Lemma hostsize_32 : hostsize 32 = 1.
Proof. reflexivity. Qed.

Lemma from_bitcount_range len : 0 <= len -> 0 <= from_bitcount len <= 32.
Proof. unfold from_bitcount. intros. destruct (len >? 32) eqn:E; lia. Qed.

Lemma aligned_mul S q : 0 < S -> (S * q) mod S = 0.
Proof. intros. rewrite Z.mul_comm. apply Z.mod_mul. lia. Qed.

Lemma aligned_next S ip id : 0 < S -> id mod S = 0 -> ip <= id -> ip mod S <> 0 ->
  ip - ip mod S + S <= id.
Proof.
  intros HS Hid Hle Hnz.
  pose proof (Z.div_mod ip S ltac:(lia)) as E1.
  pose proof (Z.div_mod id S ltac:(lia)) as E2.
  pose proof (Z.mod_pos_bound ip S HS) as B.
  rewrite Hid in E2.
  assert (ip / S < id / S) by nia.
  nia.
Qed.

Lemma net_new_wf ip m : u32 ip -> 0 <= m <= 32 ->
  wf_net (net_new ip m) /\ net_bits (net_new ip m) = m /\ in_net (net_new ip m) ip.
Proof.
  intros [Hi1 Hi2] Hm. destruct (hostsize_facts m Hm) as [HS [K [HK HE]]].
  unfold wf_net, in_net, net_last, aligned, net_new, net_id, net_bits; cbn [fst snd].
  set (S := hostsize m) in *.
  pose proof (Z.div_mod ip S ltac:(lia)) as E1.
  pose proof (Z.mod_pos_bound ip S ltac:(lia)) as B.
  assert (Hq : ip / S < K). { apply Z.div_lt_upper_bound; lia. }
  assert (Hq0 : 0 <= ip / S). { apply Z.div_pos; lia. }
  assert (Hid : ip - ip mod S = S * (ip / S)) by lia.
  rewrite Hid. rewrite aligned_mul by lia.
  assert (S * (ip / S) + S <= S * K) by nia.
  repeat split; try lia; try nia.
Qed.

Lemma net_new_1_wf ip : u32 ip -> wf_net (net_new_1 ip) /\ (forall a, in_net (net_new_1 ip) a <-> a = ip).
Proof.
  intros [H1 H2]. unfold wf_net, in_net, net_last, aligned, net_new_1, net_id, net_bits; cbn [fst snd].
  rewrite hostsize_32. rewrite Z.mod_1_r. split; [lia|]. intro a; lia.
Qed.

Lemma broadcast_ok n : wf_net n -> net_broadcast n = Ok (net_last n).
Proof.
  intros [_ [_ [_ H]]]. unfold net_broadcast, net_last in *.
  destruct (net_id n + (hostsize (net_bits n) - 1) >? MAXIP) eqn:E; [lia|]. f_equal. lia.
Qed.

Lemma range_of_net_ok n : wf_net n -> range_of_net n = Ok (net_id n, net_last n).
Proof. intros H. unfold range_of_net. rewrite broadcast_ok by auto. reflexivity. Qed.

Lemma wf_net_range_u32 n : wf_net n -> range_u32 (net_id n, net_last n) /\ net_id n <= net_last n.
Proof.
  intros [Hm [H0 [_ Hl]]]. destruct (hostsize_facts _ Hm) as [HS _].
  unfold range_u32, u32, rstart, rend, net_last in *; cbn [fst snd]. lia.
Qed.

(* next: the least aligned block start at or after ip, if it fits in the address space *)
Lemma next_spec ip m : u32 ip -> 0 <= m <= 32 ->
  exists r, next ip m = Ok r /\
    match r with
    | Some n => wf_net n /\ net_bits n = m /\ ip <= net_id n /\
                (forall id', aligned id' m -> ip <= id' -> net_id n <= id')
    | None => forall id', aligned id' m -> ip <= id' -> MAXIP < id'
    end.
Proof.
  intros Hip Hm. destruct (net_new_wf ip m Hip Hm) as [Hwf [Hb Hin]].
  destruct (hostsize_facts m Hm) as [HS _].
  unfold next. destruct (net_id (net_new ip m) =? ip) eqn:E.
  - eexists; split; [reflexivity|]. split; [exact Hwf|]. split; [exact Hb|]. split; [lia|]. intros; lia.
  - rewrite broadcast_ok by auto. cbn [bind].
    assert (Hnz : ip mod hostsize m <> 0).
    { unfold net_new, net_id in E; cbn [fst] in E. lia. }
    assert (Hidv : net_id (net_new ip m) = ip - ip mod hostsize m) by reflexivity.
    assert (Hlast : net_last (net_new ip m) = ip - ip mod hostsize m + hostsize m - 1).
    { unfold net_last. rewrite Hb, Hidv. reflexivity. }
    destruct Hwf as [_ [Hge0 [Hal Hle]]].
    destruct (Z_lt_le_dec (net_last (net_new ip m)) MAXIP) as [Hlt|Hge].
    + rewrite add_p1 by (unfold in_net in Hin; destruct Hip; lia).
      eexists; split; [reflexivity|].
      assert (Hu : u32 (net_last (net_new ip m) + 1)) by (unfold u32, in_net in *; lia).
      destruct (net_new_wf _ m Hu Hm) as [Hwf' [Hb' Hin']].
      assert (Hid' : net_id (net_new (net_last (net_new ip m) + 1) m) = net_last (net_new ip m) + 1).
      { unfold net_new at 1, net_id; cbn [fst].
        assert ((net_last (net_new ip m) + 1) mod hostsize m = 0).
        { rewrite Hlast. unfold aligned in Hal. rewrite Hb, Hidv in Hal.
          replace (ip - ip mod hostsize m + hostsize m - 1 + 1) with
              ((ip - ip mod hostsize m) + 1 * hostsize m) by lia.
          rewrite Z.mod_add by lia. exact Hal. }
        lia. }
      split; [exact Hwf'|]. split; [exact Hb'|]. split.
      * rewrite Hid'. unfold in_net in Hin. lia.
      * intros id' Ha Hle'. rewrite Hid', Hlast.
        pose proof (aligned_next (hostsize m) ip id' ltac:(lia) Ha Hle' Hnz). lia.
    + rewrite add_p1_none by lia. eexists; split; [reflexivity|].
      intros id' Ha Hle'.
      pose proof (aligned_next (hostsize m) ip id' ltac:(lia) Ha Hle' Hnz). lia.
Qed.

(* ------------------------------------------------------------------ fetch *)
Definition fits (av : range) (m id : Z) : Prop :=
  aligned id m /\ rstart av <= id /\ id + hostsize m - 1 <= rend av.

Lemma fetch_loop_spec g m : gen_u32 g -> 0 <= m <= 32 -> forall ranges,
  (forall av, In av ranges -> In av g) ->
  exists on g', fetch_loop ranges g m = Ok (on, g') /\
    match on with
    | Some n => wf_net n /\ net_bits n = m /\
                (exists av, In av ranges /\ rstart av <= net_id n /\ net_last n <= rend av) /\
                block_range g (net_id n, net_last n) = Ok g'
    | None => g' = g /\ forall av, In av ranges -> forall id, ~ fits av m id
    end.
Proof.
  intros Hg Hm. induction ranges as [|av t IH]; intros Hsub; cbn [fetch_loop].
  - exists None, g. split; [reflexivity|]. split; [reflexivity|]. intros av [].
  - assert (Hav : range_u32 av).
    { unfold gen_u32 in Hg. rewrite Forall_forall in Hg. apply Hg, Hsub. left; auto. }
    destruct (next_spec (rstart av) m (proj1 Hav) Hm) as [r [En Hr]]. rewrite En; cbn [bind].
    destruct (IH ltac:(intros; apply Hsub; right; auto)) as [on [g' [El Hl]]].
    destruct r as [n|].
    + destruct Hr as [Hwf [Hb [Hge Hmin]]].
      rewrite range_of_net_ok by auto. cbn [bind].
      destruct (contains av (net_id n, net_last n)) eqn:Hc.
      * destruct (wf_net_range_u32 n Hwf) as [Hru _].
        destruct (block_spec g _ Hg Hru) as [gb [Eb _]]. rewrite Eb; cbn [bind].
        exists (Some n), gb. split; [reflexivity|].
        split; [exact Hwf|]. split; [exact Hb|]. split; [|exact Eb].
        exists av. unfold contains, rstart, rend in Hc; cbn [fst snd] in Hc.
        split; [left; auto|]. unfold rstart, rend. lia.
      * exists on, g'. split; [exact El|]. destruct on as [n0|].
        -- destruct Hl as [? [? [[av' [? ?]] ?]]]. split; [auto|]. split; [auto|]. split; [|auto].
           exists av'; split; [right; auto|auto].
        -- destruct Hl as [-> Hno]. split; [reflexivity|]. intros av' [<-|Hin]; [|apply Hno; exact Hin].
           intros id [Ha [H1 H2]]. specialize (Hmin id Ha H1).
           unfold contains, rstart, rend, net_last in *; cbn [fst snd] in Hc. rewrite Hb in Hc. lia.
    + exists on, g'. split; [exact El|]. destruct on as [n0|].
      * destruct Hl as [? [? [[av' [? ?]] ?]]]. split; [auto|]. split; [auto|]. split; [|auto].
        exists av'; split; [right; auto|auto].
      * destruct Hl as [-> Hno]. split; [reflexivity|]. intros av' [<-|Hin]; [|apply Hno; exact Hin].
        intros id [Ha [H1 H2]]. specialize (Hr id Ha H1).
        destruct Hav as [_ [_ Hhi]]. destruct (hostsize_facts m Hm) as [HS _]. lia.
Qed.

(* fetch_spec: what a successful fetch returns and what it does to availability *)
Lemma fetch_spec g m n g' : gen_u32 g -> 0 <= m <= 32 ->
  fetch_net g m = Ok (Some n, g') ->
  wf_net n /\ net_bits n = m /\ gen_u32 g' /\
  (forall a, in_net n a -> avail g a) /\
  (forall a, avail g' a <-> avail g a /\ ~ in_net n a).
Proof.
  intros Hg Hm E. unfold fetch_net in E.
  destruct (fetch_loop_spec g m Hg Hm g ltac:(auto)) as [on [g2 [E2 H]]].
  rewrite E2 in E. inversion E; subst on g2. clear E.
  destruct H as [Hwf [Hb [[av [Hin [H1 H2]]] Eb]]].
  destruct (wf_net_range_u32 n Hwf) as [Hru _].
  destruct (block_spec g _ Hg Hru) as [gb [Eb' [Hu Hs]]]. rewrite Eb in Eb'. inversion Eb'; subst gb.
  split; [exact Hwf|]. split; [exact Hb|]. split; [exact Hu|]. split.
  - intros a Ha. exists av. split; auto. unfold in_net, inr in *. lia.
  - intro a. exact (Hs a).
Qed.

(* fetch never panics and never runs out of fuel (there is none) *)
Lemma fetch_total g m : gen_u32 g -> 0 <= m <= 32 -> exists on g', fetch_net g m = Ok (on, g').
Proof.
  intros Hg Hm. destruct (fetch_loop_spec g m Hg Hm g ltac:(auto)) as [on [g' [E _]]].
  exists on, g'. exact E.
Qed.

(* fetch_none_spec, exact: None is returned iff NO SINGLE stored range contains an aligned block *)
Lemma fetch_none_spec g m : gen_u32 g -> 0 <= m <= 32 ->
  forall g', fetch_net g m = Ok (None, g') <->
    (g' = g /\ forall av, In av g -> forall id, ~ fits av m id).
Proof.
  intros Hg Hm g'. destruct (fetch_loop_spec g m Hg Hm g ltac:(auto)) as [on [g2 [E H]]].
  unfold fetch_net. rewrite E. split.
  - intros Ei. inversion Ei; subst. exact H.
  - intros [-> Hno]. destruct on as [n|].
    + exfalso. destruct H as [Hwf [Hb [[av [Hin [H1 H2]]] _]]].
      apply (Hno av Hin (net_id n)). destruct Hwf as [_ [_ [Ha _]]].
      unfold fits, net_last in *. rewrite Hb in *. repeat split; auto; lia.
    + destruct H as [-> _]. reflexivity.
Qed.

(* for single addresses exhaustion is reported exactly when nothing is available *)
Lemma fits_32 av id : fits av 32 id <-> inr av id.
Proof.
  unfold fits, aligned, inr. rewrite hostsize_32, Z.mod_1_r. lia.
Qed.

Lemma fetch_ip_spec g : gen_u32 g ->
  exists oa g', fetch_ip g = Ok (oa, g') /\
    match oa with
    | Some a => avail g a /\ gen_u32 g' /\ (forall b, avail g' b <-> avail g b /\ b <> a)
    | None => g' = g /\ forall a, ~ avail g a
    end.
Proof.
  intros Hg. unfold fetch_ip. change (from_bitcount 32) with 32.
  destruct (fetch_total g 32 Hg ltac:(lia)) as [on [g' E]]. rewrite E; cbn [bind fst snd].
  destruct on as [n|]; cbn [option_map].
  - exists (Some (net_id n)), g'. split; [reflexivity|].
    destruct (fetch_spec g 32 n g' Hg ltac:(lia) E) as [Hwf [Hb [Hu [Hin Hs]]]].
    assert (Hone : forall a, in_net n a <-> a = net_id n).
    { intro a. unfold in_net, net_last. rewrite Hb, hostsize_32. lia. }
    split; [apply Hin, Hone; reflexivity|]. split; [exact Hu|].
    intro b. rewrite (Hs b), (Hone b). reflexivity.
  - exists None, g'. split; [reflexivity|].
    apply (fetch_none_spec g 32 Hg ltac:(lia)) in E. destruct E as [-> Hno].
    split; auto. intros a [r [Hr Ha]]. apply (Hno r Hr a). apply fits_32; auto.
Qed.

(* the stated gap: an aligned free block spread over several stored ranges is not found *)
Lemma fetch_net_incomplete_witness :
  let g := return_range (return_range (return_range (return_range gen_none (8,8)) (9,9)) (10,10)) (11,11) in
  (forall a, 8 <= a <= 11 -> avail g a) /\ fetch_net g 30 = Ok (None, g).
Proof.
  cbv zeta. split; [|vm_compute; reflexivity].
  intros a Ha. exists (a, a). split; [|unfold inr, rstart, rend; cbn [fst snd]; lia].
  assert (a = 8 \/ a = 9 \/ a = 10 \/ a = 11) as [ -> | [ -> | [ -> | -> ] ] ] by lia; vm_compute; tauto.
Qed.
(* ------------------------------------------------------------------ public operations *)
Lemma net_new_short_wf ip len : u32 ip -> 0 <= len -> wf_net (net_new_short ip len).
Proof. intros Hi Hl. unfold net_new_short. apply net_new_wf; auto. apply from_bitcount_range; auto. Qed.

Lemma block_subnet_spec g n : gen_u32 g -> wf_net n ->
  exists g', block_subnet g n = Ok g' /\ gen_u32 g' /\ forall a, avail g' a <-> avail g a /\ ~ in_net n a.
Proof.
  intros Hg Hn. unfold block_subnet. rewrite range_of_net_ok by auto. cbn [bind].
  destruct (wf_net_range_u32 n Hn) as [Hr _].
  destruct (block_spec g _ Hg Hr) as [g' [E [Hu Hs]]]. exists g'. split; [exact E|]. split; [exact Hu|].
  intro a. exact (Hs a).
Qed.

Lemma return_subnet_spec g n : gen_u32 g -> wf_net n ->
  exists g', return_subnet g n = Ok g' /\ gen_u32 g' /\ forall a, avail g' a <-> avail g a \/ in_net n a.
Proof.
  intros Hg Hn. unfold return_subnet. rewrite range_of_net_ok by auto. cbn [bind].
  destruct (wf_net_range_u32 n Hn) as [Hr _].
  eexists. split; [reflexivity|]. split; [apply return_u32; auto|].
  intro a. exact (return_spec g _ a).
Qed.

Definition in_nets (l : list net) (a : Z) : Prop := exists n, In n l /\ in_net n a.
Definition in_onet (o : option net) (a : Z) : Prop :=
  match o with Some n => in_net n a | None => False end.
Definition nets_of (l : list (Z * Z)) : list net :=
  map (fun p => net_new (fst p) (from_bitcount (snd p))) l.

Lemma block_list_spec l : forall g, gen_u32 g -> Forall (fun p => u32 (fst p) /\ 0 <= snd p) l ->
  exists g', block_list g l = Ok g' /\ gen_u32 g' /\
    forall a, avail g' a <-> avail g a /\ ~ in_nets (nets_of l) a.
Proof.
  induction l as [|[ip len] t IH]; intros g Hg Hl; cbn [block_list].
  - exists g. split; [reflexivity|]. split; [auto|]. intro a. unfold in_nets. simpl.
    split; [intros H; split; [auto|intros [n [[] _]]]|tauto].
  - inversion Hl as [|? ? [Hi Hn] Ht]; subst. cbn [fst snd] in *.
    destruct (block_subnet_spec g (net_new ip (from_bitcount len)) Hg) as [g1 [E1 [Hu1 Hs1]]].
    { apply (net_new_short_wf ip len); auto. }
    rewrite E1; cbn [bind]. destruct (IH g1 Hu1 Ht) as [g' [E' [Hu' Hs']]].
    exists g'. split; [exact E'|]. split; [exact Hu'|]. intro a. rewrite Hs', Hs1.
    unfold in_nets, nets_of. cbn [map fst snd]. split.
    + intros [[Ha Hn1] Hn2]. split; auto. intros [n [[<-|Hin] Hina]]; [auto|]. apply Hn2. exists n; auto.
    + intros [Ha Hn']. split; [split; auto|].
      * intro Hx. apply Hn'. eexists; split; [left; reflexivity|exact Hx].
      * intros [n [Hin Hina]]. apply Hn'. exists n; split; [right; auto|auto].
Qed.

Lemma reserved_wf : Forall (fun p => u32 (fst p) /\ 0 <= snd p) reserved.
Proof. unfold reserved, u32. repeat constructor; cbn [fst snd]; vm_compute; congruence. Qed.

(* ------------------------------------------------------------------ constructors *)
Lemma avail_none a : ~ avail gen_none a.
Proof. intros [r [[] _]]. Qed.

Lemma avail_new r a : avail (gen_new r) a <-> inr r a.
Proof. unfold gen_new. rewrite return_spec. pose proof (avail_none a). tauto. Qed.

Lemma gen_new_u32 r : range_u32 r -> gen_u32 (gen_new r).
Proof. intros. unfold gen_new. apply return_u32; auto. constructor. Qed.

Lemma new_sub_spec n : wf_net n ->
  exists g, new_sub n = Ok g /\ gen_u32 g /\ forall a, avail g a <-> in_net n a.
Proof.
  intros Hn. unfold new_sub. rewrite broadcast_ok by auto. cbn [bind].
  destruct (wf_net_range_u32 n Hn) as [Hr _].
  eexists. split; [reflexivity|]. split; [apply gen_new_u32; auto|]. intro a. rewrite avail_new. reflexivity.
Qed.

Lemma gen_all_spec : gen_u32 gen_all /\ forall a, avail gen_all a <-> u32 a.
Proof.
  split. { apply gen_new_u32. unfold range_u32, u32, rstart, rend, MAXIP; cbn [fst snd]. lia. }
  intro a. unfold gen_all. rewrite avail_new. reflexivity.
Qed.

(* the repaired constructor offers exactly the host addresses *)
Lemma no_ends_spec n : wf_net n ->
  exists g, new_sub_no_ends n = Ok g /\ gen_u32 g /\
    forall a, avail g a <-> net_id n < a < net_last n.
Proof.
  intros Hn. unfold new_sub_no_ends. rewrite broadcast_ok by auto. cbn [bind].
  eexists. split; [reflexivity|].
  destruct (wf_net_range_u32 n Hn) as [[[H1 H2] [H3 H4]] H5]. unfold rstart, rend in *; cbn [fst snd] in *.
  destruct (Z_lt_le_dec (net_id n) MAXIP) as [Hlt|Hge].
  - rewrite add_p1 by lia. destruct (Z_lt_le_dec 0 (net_last n)) as [Hp|Hz].
    + rewrite add_m1 by lia. split.
      * apply gen_new_u32. unfold range_u32, u32, rstart, rend; cbn [fst snd]. lia.
      * intro a. rewrite avail_new. unfold inr, rstart, rend; cbn [fst snd]. lia.
    + rewrite add_m1_none by lia. split; [constructor|]. intro a. pose proof (avail_none a). intuition (try lia).
  - rewrite add_p1_none by lia. split; [constructor|]. intro a. pose proof (avail_none a). intuition (try lia).
Qed.

(* the constructor as it is in the tree never offers anything *)
Lemma no_ends_orig_offers_nothing n a : ~ avail (new_sub_no_ends_orig n) a.
Proof.
  unfold new_sub_no_ends_orig, add.
  destruct ((0 <=? net_id n + 1) && (net_id n + 1 <=? MAXIP)); [|apply avail_none].
  destruct ((0 <=? net_id n + -1) && (net_id n + -1 <=? MAXIP)); [|apply avail_none].
  rewrite avail_new. unfold inr, rstart, rend; cbn [fst snd]. lia.
Qed.

Lemma no_ends_orig_refuted :
  exists n a, wf_net n /\ net_id n < a < net_last n /\ ~ avail (new_sub_no_ends_orig n) a.
Proof.
  exists (net_new_short (ip4 10 0 0 0) 29), (ip4 10 0 0 1).
  split. { apply net_new_short_wf; [unfold u32; vm_compute; split; congruence|lia]. }
  split. { vm_compute. split; reflexivity. }
  apply no_ends_orig_offers_nothing.
Qed.

Lemma blocked_out_spec :
  exists g, blocked_out = Ok g /\ gen_u32 g /\
    forall a, avail g a <-> u32 a /\ ~ in_nets (nets_of reserved) a.
Proof.
  unfold blocked_out, block_reserved_ips. destruct gen_all_spec as [Hu Ha].
  destruct (block_list_spec reserved gen_all Hu reserved_wf) as [g [E [Hg Hs]]].
  exists g. split; [exact E|]. split; [exact Hg|]. intro a. rewrite Hs, Ha. reflexivity.
Qed.

(* ------------------------------------------------------------------ histories *)
Definition blocks_of (o : op) : list net :=
  match o with
  | OBlock ip len => [net_new_short ip len]
  | OBlockReserved => nets_of reserved
  | _ => []
  end.
Definition returns_of (o : op) : option net :=
  match o with
  | OReturn ip len => Some (net_new_short ip len)
  | OReturnIp ip => Some (net_new_1 ip)
  | _ => None
  end.
Definition fetched_of (r : out) : option net :=
  match r with
  | RNet (Some n) => Some n
  | RIp (Some a) => Some (net_new_1 a)
  | _ => None
  end.

Definition op_wf (o : op) : Prop :=
  match o with
  | OBlock ip len | OReturn ip len | OIsAvail ip len => u32 ip /\ 0 <= len
  | OReturnIp ip => u32 ip
  | OFetchNet len => 0 <= len
  | OFetchIp | OBlockReserved => True
  end.

(* bookkeeping of who holds what, driven only by the operations and the values handed out *)
Record ghost := { held : Z -> Prop; blocked : Z -> Prop; pool : Z -> Prop }.
Definition ghost0 (g : gen) : ghost :=
  {| held := fun _ => False; blocked := fun _ => False; pool := avail g |}.
Definition ghost_step (s : ghost) (o : op) (r : out) : ghost :=
  {| held := fun a => (held s a /\ ~ in_onet (returns_of o) a) \/ in_onet (fetched_of r) a;
     blocked := fun a => (blocked s a /\ ~ in_onet (returns_of o) a) \/ in_nets (blocks_of o) a;
     pool := fun a => pool s a \/ in_onet (returns_of o) a |}.

Fixpoint run (g : gen) (s : ghost) (ops : list op) : result (gen * ghost) :=
  match ops with
  | [] => Ok (g, s)
  | o :: t => do x <- apply_op g o; run (fst x) (ghost_step s o (snd x)) t
  end.

Definition Inv (g : gen) (s : ghost) : Prop :=
  gen_u32 g /\
  (forall a, avail g a -> ~ held s a /\ ~ blocked s a) /\
  (forall a, held s a -> pool s a) /\
  (forall a, avail g a -> pool s a) /\
  (forall a, pool s a -> avail g a \/ held s a \/ blocked s a).

Lemma in_net_dec n a : in_net n a \/ ~ in_net n a.
Proof. unfold in_net. lia. Qed.
Lemma in_onet_dec o a : in_onet o a \/ ~ in_onet o a.
Proof. destruct o; cbn [in_onet]; [apply in_net_dec|tauto]. Qed.
Lemma in_nets_dec l a : in_nets l a \/ ~ in_nets l a.
Proof.
  unfold in_nets. induction l as [|n t IH].
  - right. intros [n [[] _]].
  - destruct (in_net_dec n a) as [H|H]. { left. exists n; split; [left; auto|auto]. }
    destruct IH as [[n' [Hin Ha]]|IH]. { left. exists n'; split; [right; auto|auto]. }
    right. intros [n' [[<-|Hin] Ha]]; [auto|]. apply IH. exists n'; auto.
Qed.

Lemma in_net_new_1 ip a : in_net (net_new_1 ip) a <-> a = ip.
Proof. unfold in_net, net_last, net_new_1, net_id, net_bits; cbn [fst snd]. rewrite hostsize_32. lia. Qed.

(* one operation: never panics; exact effect on availability; what it hands out was available *)
Lemma apply_op_spec g o : gen_u32 g -> op_wf o ->
  exists g' r, apply_op g o = Ok (g', r) /\ gen_u32 g' /\
    (forall a, in_onet (fetched_of r) a -> avail g a) /\
    (forall a, avail g' a <->
       (avail g a /\ ~ in_nets (blocks_of o) a /\ ~ in_onet (fetched_of r) a) \/ in_onet (returns_of o) a) /\
    (returns_of o <> None -> fetched_of r = None /\ blocks_of o = []).
Proof.
  intros Hg Ho. destruct o as [ip len| |len|ip len|ip|ip len|]; cbn [apply_op op_wf] in *.
  - destruct Ho as [Hi Hl].
    destruct (block_subnet_spec g _ Hg (net_new_short_wf ip len Hi Hl)) as [g' [E [Hu Hs]]].
    rewrite E; cbn [bind]. exists g', RUnit. split; [reflexivity|]. split; [exact Hu|].
    cbn [fetched_of returns_of blocks_of in_onet]. split; [tauto|]. split; [|congruence].
    intro a. rewrite Hs. unfold in_nets. split.
    + intros [Ha Hn]. left. split; auto. split; [|tauto]. intros [n [[<-|[]] Hx]]. auto.
    + intros [[Ha [Hn _]]|[]]. split; auto. intro Hx. apply Hn. eexists; split; [left; reflexivity|exact Hx].
  - destruct (fetch_ip_spec g Hg) as [oa [g' [E H]]]. rewrite E; cbn [bind fst snd].
    exists g', (RIp oa). split; [reflexivity|]. destruct oa as [a0|]; cbn [fetched_of returns_of blocks_of in_onet].
    + destruct H as [Ha0 [Hu Hs]]. split; [exact Hu|]. split.
      { intros a Ha. apply in_net_new_1 in Ha. subst; auto. }
      split; [|congruence]. intro a. rewrite Hs, in_net_new_1. unfold in_nets. split.
      * intros [Ha Hne]. left. split; auto. split; [intros [n [[] _]]|auto].
      * intros [[Ha [_ Hne]]|[]]. auto.
    + destruct H as [-> Hno]. split; [exact Hg|]. split; [tauto|]. split; [|congruence].
      intro a. unfold in_nets. split; [|tauto]. intros Ha. left. split; auto. split; [intros [n [[] _]]|tauto].
  - pose proof (from_bitcount_range len Ho) as Hm.
    destruct (fetch_total g _ Hg Hm) as [on [g' E]]. rewrite E; cbn [bind fst snd].
    exists g', (RNet on). split; [reflexivity|]. destruct on as [n|]; cbn [fetched_of returns_of blocks_of in_onet].
    + destruct (fetch_spec g _ n g' Hg Hm E) as [Hwf [Hb [Hu [Hin Hs]]]].
      split; [exact Hu|]. split; [exact Hin|]. split; [|congruence].
      intro a. rewrite Hs. unfold in_nets. split.
      * intros [Ha Hne]. left. split; auto. split; [intros [n' [[] _]]|auto].
      * intros [[Ha [_ Hne]]|[]]. auto.
    + apply (fetch_none_spec g _ Hg Hm) in E. destruct E as [-> _].
      split; [exact Hg|]. split; [tauto|]. split; [|congruence].
      intro a. unfold in_nets. split; [|tauto]. intros Ha. left. split; auto. split; [intros [n [[] _]]|tauto].
  - destruct Ho as [Hi Hl].
    destruct (return_subnet_spec g _ Hg (net_new_short_wf ip len Hi Hl)) as [g' [E [Hu Hs]]].
    rewrite E; cbn [bind]. exists g', RUnit. split; [reflexivity|]. split; [exact Hu|].
    cbn [fetched_of returns_of blocks_of in_onet]. split; [tauto|]. split; [|auto].
    intro a. rewrite Hs. unfold in_nets. split.
    + intros [Ha|Ha]; [|right; auto]. left. split; auto. split; [intros [n [[] _]]|tauto].
    + intros [[Ha _]|Ha]; auto.
  - unfold return_ip. destruct (return_subnet_spec g _ Hg (proj1 (net_new_1_wf ip Ho))) as [g' [E [Hu Hs]]].
    rewrite E; cbn [bind]. exists g', RUnit. split; [reflexivity|]. split; [exact Hu|].
    cbn [fetched_of returns_of blocks_of in_onet]. split; [tauto|]. split; [|auto].
    intro a. rewrite Hs. unfold in_nets. split.
    + intros [Ha|Ha]; [|right; auto]. left. split; auto. split; [intros [n [[] _]]|tauto].
    + intros [[Ha _]|Ha]; auto.
  - destruct Ho as [Hi Hl]. unfold is_available.
    rewrite range_of_net_ok by (apply net_new_short_wf; auto). cbn [bind].
    eexists g, _. split; [reflexivity|]. split; [exact Hg|].
    cbn [fetched_of returns_of blocks_of in_onet]. split; [tauto|]. split; [|congruence].
    intro a. unfold in_nets. split; [|tauto]. intros Ha. left. split; auto. split; [intros [n [[] _]]|tauto].
  - unfold block_reserved_ips.
    destruct (block_list_spec reserved g Hg reserved_wf) as [g' [E [Hu Hs]]].
    rewrite E; cbn [bind]. exists g', RUnit. split; [reflexivity|]. split; [exact Hu|].
    cbn [fetched_of returns_of blocks_of in_onet]. split; [tauto|]. split; [|congruence].
    intro a. rewrite Hs. tauto.
Qed.

Lemma Inv_init g : gen_u32 g -> Inv g (ghost0 g).
Proof. intros Hg. unfold Inv, ghost0; cbn [held blocked pool]. split; [exact Hg|]. split; [tauto|]. split; [tauto|]. split; [tauto|]. intros a Ha; left; exact Ha. Qed.

Lemma Inv_step g s o g' r : Inv g s -> op_wf o -> apply_op g o = Ok (g', r) -> Inv g' (ghost_step s o r).
Proof.
  intros [Hg [I1 [I2 [I3 I4]]]] Ho E.
  destruct (apply_op_spec g o Hg Ho) as [g2 [r2 [E2 [Hu [Hf [Hs Hx]]]]]].
  rewrite E in E2. inversion E2; subst g2 r2. clear E2.
  unfold Inv, ghost_step; cbn [held blocked pool].
  split; [exact Hu|]. split; [|split; [|split]].
  - intros a Ha. apply Hs in Ha. destruct Ha as [[Ha [Hnb Hnf]]|Hr].
    + destruct (I1 a Ha). tauto.
    + assert (Hne : returns_of o <> None) by (destruct (returns_of o); [congruence|destruct Hr]).
      destruct (Hx Hne) as [Ef Eb]. rewrite Ef, Eb. cbn [in_onet]. unfold in_nets.
      split; intros [[_ Hn]|Hn]; try tauto. destruct Hn as [n [[] _]].
  - intros a [[Hh _]|Hfa]; [left; auto|]. left. apply I3. auto.
  - intros a Ha. apply Hs in Ha. destruct Ha as [[Ha _]|Hr]; [left; auto|right; auto].
  - intros a [Hp|Hr]; [|left; apply Hs; right; auto].
    destruct (in_onet_dec (returns_of o) a) as [Hr|Hnr]; [left; apply Hs; right; auto|].
    destruct (I4 a Hp) as [Ha|[Hh|Hb]].
    + destruct (in_nets_dec (blocks_of o) a) as [Hb|Hnb]; [right; right; right; auto|].
      destruct (in_onet_dec (fetched_of r) a) as [Hfa|Hnf]; [right; left; right; auto|].
      left. apply Hs. left. auto.
    + right; left; left; auto.
    + right; right; left; auto.
Qed.

(* what a fetch hands out is in the pool and neither held nor blocked *)
Lemma fetch_fresh g s o g' r : Inv g s -> op_wf o -> apply_op g o = Ok (g', r) ->
  forall a, in_onet (fetched_of r) a -> pool s a /\ ~ held s a /\ ~ blocked s a.
Proof.
  intros [Hg [I1 [I2 [I3 I4]]]] Ho E a Ha.
  destruct (apply_op_spec g o Hg Ho) as [g2 [r2 [E2 [Hu [Hf [Hs Hx]]]]]].
  rewrite E in E2. inversion E2; subst g2 r2.
  pose proof (Hf a Ha) as Hav. destruct (I1 a Hav). auto.
Qed.

Lemma returned_available g o g' r : gen_u32 g -> op_wf o -> apply_op g o = Ok (g', r) ->
  forall a, in_onet (returns_of o) a -> avail g' a.
Proof.
  intros Hg Ho E a Ha.
  destruct (apply_op_spec g o Hg Ho) as [g2 [r2 [E2 [Hu [Hf [Hs Hx]]]]]].
  rewrite E in E2. inversion E2; subst g2 r2. apply Hs. right; auto.
Qed.

Lemma run_inv ops : forall g s, Inv g s -> Forall op_wf ops ->
  exists g' s', run g s ops = Ok (g', s') /\ Inv g' s'.
Proof.
  induction ops as [|o t IH]; intros g s HI Hw; cbn [run].
  - exists g, s. auto.
  - inversion Hw as [|? ? Ho Ht]; subst.
    destruct (apply_op_spec g o (proj1 HI) Ho) as [g1 [r1 [E1 _]]].
    rewrite E1; cbn [bind fst snd]. apply IH; auto. eapply Inv_step; eauto.
Qed.

(* the history theorem *)
Lemma no_double g0 ops : gen_u32 g0 -> Forall op_wf ops ->
  exists g s, run g0 (ghost0 g0) ops = Ok (g, s) /\ Inv g s /\
    forall o, op_wf o ->
      exists g' r, apply_op g o = Ok (g', r) /\
        (forall a, in_onet (fetched_of r) a -> pool s a /\ ~ held s a /\ ~ blocked s a) /\
        (forall a, in_onet (returns_of o) a -> avail g' a) /\
        (r = RIp None -> forall a, ~ avail g a).
Proof.
  intros Hg Hw. destruct (run_inv ops g0 (ghost0 g0) (Inv_init g0 Hg) Hw) as [g [s [E HI]]].
  exists g, s. split; [exact E|]. split; [exact HI|]. intros o Ho.
  destruct (apply_op_spec g o (proj1 HI) Ho) as [g' [r [E' _]]].
  exists g', r. split; [exact E'|]. split; [exact (fetch_fresh g s o g' r HI Ho E')|].
  split; [exact (returned_available g o g' r (proj1 HI) Ho E')|].
  intros ->. destruct o; cbn [apply_op] in E';
    try (match type of E' with bind ?x _ = _ => destruct x; cbn [bind] in E'; discriminate || (inversion E') end; fail).
  destruct (fetch_ip_spec g (proj1 HI)) as [oa [g2 [E2 H2]]]. rewrite E2 in E'. cbn [bind fst snd] in E'.
  inversion E'; subst. destruct H2 as [_ H2]. exact H2.
Qed.

(* the set representation stays a strictly sorted list (what a BTreeSet is) *)
Lemma apply_op_sorted g o g' r : sorted g -> apply_op g o = Ok (g', r) -> sorted g'.
Proof.
  assert (Hbs : forall g n g', sorted g -> block_subnet g n = Ok g' -> sorted g').
  { intros h n h' Hs E. unfold block_subnet in E. destruct (range_of_net n); cbn [bind] in E; try discriminate.
    eapply block_sorted; eauto. }
  assert (Hrs : forall g n g', sorted g -> return_subnet g n = Ok g' -> sorted g').
  { intros h n h' Hs E. unfold return_subnet in E. destruct (range_of_net n); cbn [bind] in E; try discriminate.
    inversion E; subst. apply sorted_insert; auto. }
  assert (Hfl : forall m ranges g on g', sorted g -> fetch_loop ranges g m = Ok (on, g') -> sorted g').
  { intros m. induction ranges as [|av t IH]; intros h on h' Hs E; cbn [fetch_loop] in E.
    - inversion E; subst; auto.
    - destruct (next (rstart av) m) as [[n|]| | |]; cbn [bind] in E; try discriminate; [|eapply IH; eauto].
      destruct (range_of_net n) as [rn| | |]; cbn [bind] in E; try discriminate.
      destruct (contains av rn); [|eapply IH; eauto].
      destruct (block_range h rn) eqn:Eb; cbn [bind] in E; try discriminate.
      inversion E; subst. eapply block_sorted; eauto. }
  intros Hs E. destruct o; cbn [apply_op] in E.
  - destruct (block_subnet g (net_new_short ip len)) eqn:E1; cbn [bind] in E; try discriminate.
    inversion E; subst. eapply Hbs; eauto.
  - unfold fetch_ip, fetch_net in E.
    destruct (fetch_loop g g (from_bitcount 32)) as [[on h]| | |] eqn:E1; cbn [bind fst snd] in E; try discriminate.
    inversion E; subst. eapply Hfl; eauto.
  - unfold fetch_net in E.
    destruct (fetch_loop g g (from_bitcount len)) as [[on h]| | |] eqn:E1; cbn [bind fst snd] in E; try discriminate.
    inversion E; subst. eapply Hfl; eauto.
  - destruct (return_subnet g (net_new_short ip len)) eqn:E1; cbn [bind] in E; try discriminate.
    inversion E; subst. eapply Hrs; eauto.
  - unfold return_ip in E. destruct (return_subnet g (net_new_1 ip)) eqn:E1; cbn [bind] in E; try discriminate.
    inversion E; subst. eapply Hrs; eauto.
  - destruct (is_available g (net_new_short ip len)); cbn [bind] in E; try discriminate. inversion E; subst; auto.
  - unfold block_reserved_ips in E.
    destruct (block_list g reserved) eqn:E1; cbn [bind] in E; try discriminate. inversion E; subst.
    revert E1. generalize reserved as l. intros l. revert g Hs.
    induction l as [|[ip len] t IH]; intros g Hs E1; cbn [block_list] in E1.
    + inversion E1; subst; auto.
    + destruct (block_subnet g (net_new ip (from_bitcount len))) eqn:E2; cbn [bind] in E1; try discriminate.
      apply (IH a); [eapply Hbs; eauto|exact E1].
Qed.

(* ------------------------------------------------------------------ every constructor builds a generator *)
Definition ctor_wf (k : ctor) : Prop :=
  match k with
  | KNew s e => u32 s /\ u32 e
  | KSub ip len | KNoEnds ip len | KNoEndsOrig ip len => u32 ip /\ 0 <= len
  | KAll | KNone | KBlockedOut => True
  end.

Lemma add_u32 x n s : add x n = Some s -> u32 s.
Proof.
  unfold add, u32. destruct ((0 <=? x + n) && (x + n <=? MAXIP)) eqn:E; [|discriminate].
  intros H; inversion H; subst. lia.
Qed.

Lemma build_ok k : ctor_wf k -> exists g0, build k = Ok g0 /\ gen_u32 g0.
Proof.
  destruct k as [s e|ip len|ip len|ip len| | |]; cbn [ctor_wf build].
  - intros [Hs He]. eexists; split; [reflexivity|]. apply gen_new_u32. split; auto.
  - intros [Hi Hl]. destruct (new_sub_spec _ (net_new_short_wf ip len Hi Hl)) as [g [E [Hu _]]]. eauto.
  - intros [Hi Hl]. destruct (no_ends_spec _ (net_new_short_wf ip len Hi Hl)) as [g [E [Hu _]]]. eauto.
  - intros _. eexists; split; [reflexivity|]. unfold new_sub_no_ends_orig.
    destruct (add (net_id (net_new_short ip len)) 1) eqn:E1; [|constructor].
    destruct (add (net_id (net_new_short ip len)) (-1)) eqn:E2; [|constructor].
    apply gen_new_u32. split; [eapply add_u32; eauto|eapply add_u32; eauto].
  - intros _. eexists; split; [reflexivity|]. apply gen_all_spec.
  - intros _. eexists; split; [reflexivity|]. constructor.
  - intros _. destruct blocked_out_spec as [g [E [Hu _]]]. eauto.
Qed.

(* satisfiability of the hypotheses used above *)
Example wf_example : wf_net (net_new_short (ip4 10 0 0 0) 29) /\ gen_u32 (gen_new (0, MAXIP)) /\
  op_wf (OBlock 0 0) /\ op_wf (OReturn MAXIP 32) /\ ctor_wf (KNoEnds (ip4 10 0 0 0) 29).
Proof.
  split. { apply net_new_short_wf; [unfold u32; vm_compute; split; congruence|lia]. }
  split. { apply gen_all_spec. }
  unfold op_wf, ctor_wf, u32. vm_compute. intuition congruence.
Qed.
