(* C01 liveness: a write of up to one window, system level.
   The flight is delivered in order, its retransmitted copy is acknowledged and dropped, the
   ACKs empty the retransmission queue; one loss-free round restores quiescence. *)
From Elvis Require Import Model.Base Model.U32 Model.Tcb Model.TcpNet
  Proofs.U32Facts Proofs.TcbSafetyDefs Proofs.TcbSafetyBase Proofs.TcbSafetySnd Proofs.TcbSafetyRcv
  Proofs.TcbSafetyArr Proofs.TcbSafetySys Proofs.TcbLive Proofs.TcbLiveSys Proofs.TcbLiveWin.
From Coq Require Import ZifyBool.
Local Open Scope Z_scope.
Ltac Zify.zify_post_hook ::= Z.div_mod_to_equations.

(* ---------- bookkeeping on systems ---------- *)
Lemma sys_same s x y rest e : net_of s x = rest -> end_of s y = e ->
  set_end (set_net s x rest) y e = s.
Proof.
  intros <- <-. destruct s, x, y; reflexivity.
Qed.

Lemma sys_collapse s x n1 e1 n2 e2 :
  set_end (set_net (set_end (set_net s x n1) (other x) e1) x n2) (other x) e2 =
  set_end (set_net s x n2) (other x) e2.
Proof. destruct s, x; reflexivity. Qed.

(* ---------- the receiver's side of a flight ---------- *)
Definition recv_step (t : tcb) (s : segment) : tcb :=
  let t1 := set_rcv_nxt (set_in_segs t []) (wadd (rcv_nxt t) (zlen (s_text s))) in
  let t2 := set_in_text t1 (in_text t ++ s_text s) in
  set_oneshot t2 (oneshot t ++ [ack_hdr t2]).
Definition dup_step (t : tcb) (s : segment) : tcb :=
  set_oneshot (set_in_segs t []) (oneshot t ++ [ack_hdr t]).
Definition recv_flight (t : tcb) (segs : list segment) : tcb := fold_left recv_step segs t.
Definition dup_flight (t : tcb) (segs : list segment) : tcb := fold_left dup_step segs t.

(* fields that neither step touches *)
Definition same_core (t t' : tcb) : Prop :=
  lport t' = lport t /\ rport t' = rport t /\ mtu t' = mtu t /\ st t' = st t /\
  snd_una t' = snd_una t /\ snd_nxt t' = snd_nxt t /\ snd_wnd t' = snd_wnd t /\ rcv_wnd t' = rcv_wnd t /\
  out_text t' = out_text t /\ retx t' = retx t /\ fin_pending t' = fin_pending t /\
  rto t' = rto t /\ time_wait t' = time_wait t.

Lemma same_core_refl t : same_core t t.
Proof. unfold same_core. auto 20. Qed.
Lemma same_core_trans a b c : same_core a b -> same_core b c -> same_core a c.
Proof. unfold same_core. intuition congruence. Qed.

Lemma recv_step_core t s : same_core t (recv_step t s).
Proof. unfold same_core, recv_step. tcb_simpl. auto 20. Qed.
Lemma dup_step_core t s : same_core t (dup_step t s).
Proof. unfold same_core, dup_step. tcb_simpl. auto 20. Qed.

(* the acknowledgment that answers segment s: ACK = end of s *)
Definition ackfor (b : Z) (s : segment) (h : header) : Prop :=
  ack_only h /\ h_seq h = b /\ h_wnd h = 65535 /\
  h_ack h = wadd (h_seq (s_hdr s)) (zlen (s_text s)).
Definition dupack (b R : Z) (h : header) : Prop :=
  ack_only h /\ h_seq h = b /\ h_wnd h = 65535 /\ h_ack h = R.

Lemma recv_flight_facts lp rp ackv : forall segs t,
  flight lp rp ackv (rcv_nxt t) segs -> rcv_wnd t = 65535 -> u32 (rcv_nxt t) ->
  let t' := recv_flight t segs in
  same_core t t' /\ rcv_nxt t' = wadd (rcv_nxt t) (flight_len segs) /\
  in_text t' = in_text t ++ flight_bytes segs /\
  (segs <> [] -> in_segs t' = []) /\
  exists acks, oneshot t' = oneshot t ++ acks /\ Forall2 (ackfor (snd_nxt t)) segs acks.
Proof.
  induction segs as [|s r IH]; intros t F Hw Hu; cbn [recv_flight fold_left].
  - splits; auto using same_core_refl.
    + change (flight_len []) with 0. symmetry. apply wadd_0_u32, Hu.
    + unfold flight_bytes. cbn. now rewrite app_nil_r.
    + congruence.
    + exists []. rewrite app_nil_r. split; [reflexivity|constructor].
  - destruct F as (Fh & Fl & Fr).
    set (t1 := recv_step t s).
    assert (Hr1 : rcv_nxt t1 = wadd (rcv_nxt t) (zlen (s_text s))) by reflexivity.
    destruct (IH t1) as (C & Rn & It & Is & acks & Os & Fa).
    + rewrite Hr1. exact Fr.
    + exact Hw.
    + rewrite Hr1. apply wadd_u32.
    + fold (recv_flight t1 r) in *. splits.
      * eapply same_core_trans; [apply recv_step_core|exact C].
      * rewrite Rn, Hr1, wadd_wadd, flight_len_cons. reflexivity.
      * rewrite It. subst t1. unfold recv_step; tcb_simpl. unfold flight_bytes. cbn [map concat].
        now rewrite app_assoc.
      * intros _. destruct r as [|s' r']; [reflexivity|]. apply Is. congruence.
      * eexists. split.
        -- rewrite Os. subst t1. unfold recv_step; tcb_simpl. rewrite <- app_assoc. reflexivity.
        -- cbn [app]. constructor; [|exact Fa].
           unfold ackfor. split; [apply ack_hdr_ack_only|].
           unfold ack_hdr; tcb_simpl. cbn. rewrite Fh, Hw. cbn. auto.
Qed.

Lemma dup_flight_facts : forall segs t, rcv_wnd t = 65535 ->
  let t' := dup_flight t segs in
  same_core t t' /\ rcv_nxt t' = rcv_nxt t /\ in_text t' = in_text t /\
  (segs <> [] -> in_segs t' = []) /\
  exists acks, oneshot t' = oneshot t ++ acks /\ Forall (dupack (snd_nxt t) (rcv_nxt t)) acks.
Proof.
  induction segs as [|s r IH]; intros t Hw; cbn [dup_flight fold_left].
  - splits; auto using same_core_refl; try congruence.
    exists []. rewrite app_nil_r. split; [reflexivity|constructor].
  - set (t1 := dup_step t s).
    destruct (IH t1 Hw) as (C & Rn & It & Is & acks & Os & Fa).
    fold (dup_flight t1 r) in *. splits.
    + eapply same_core_trans; [apply (dup_step_core t s)|exact C].
    + rewrite Rn. reflexivity.
    + rewrite It. reflexivity.
    + intros _. destruct r as [|s' r']; [reflexivity|]. apply Is. congruence.
    + exists (ack_hdr t :: acks). split.
      * rewrite Os. subst t1. unfold dup_step; tcb_simpl. rewrite <- app_assoc. reflexivity.
      * constructor; [|exact Fa].
        unfold dupack. split; [apply ack_hdr_ack_only|].
        unfold ack_hdr; tcb_simpl. cbn. rewrite Hw. auto.
Qed.

Section Win.
  Variable c : config.

  (* the flight arrives in order *)
  Lemma deliver_inorder x lp rp ackv : forall segs s ty f rest,
    end_of s (other x) = ELive ty -> net_of s x = segs ++ rest ->
    st ty = Established -> in_segs ty = [] -> rcv_wnd ty = 65535 -> u32 (rcv_nxt ty) ->
    flight lp rp ackv (rcv_nxt ty) segs -> mod_leq ackv (snd_una ty) = true ->
    zlen (in_text ty) + flight_len segs <= 65535 ->
    deliver_all (length segs + f) c s x =
    deliver_all f c (set_end (set_net s x rest) (other x) (ELive (recv_flight ty segs))) x.
  Proof.
    induction segs as [|s0 r IH]; intros s ty f rest Ey Nx Est Hs Hw Hu F Hleq Hroom.
    - cbn [length Nat.add recv_flight fold_left]. cbn [app] in Nx. now rewrite sys_same.
    - cbn [length Nat.add]. cbn [app] in Nx.
      rewrite (deliver_all_cons _ c s x s0 (r ++ rest) Nx).
      destruct F as (Fh & Fl & Fr). destruct s0 as [h text]. cbn [s_hdr s_text] in *.
      rewrite flight_len_cons in Hroom. cbn [s_text] in Hroom.
      assert (Ea : segment_arrives ty (mkSeg h text) = Ok (recv_step ty (mkSeg h text), AOk)).
      { apply data_inorder; try assumption; try lia.
        - rewrite Fh. apply data_hdr_ack_only.
        - rewrite Fh. reflexivity.
        - rewrite Fh. exact Hleq.
        - pose proof (flight_len_nonneg r). lia. }
      set (ty1 := recv_step ty (mkSeg h text)) in *.
      assert (Ey' : end_of (set_net s x (r ++ rest)) (other x) = ELive ty) by (now sysr).
      rewrite (arrive_eval c _ (other x) ty _ ty1 Ey' Ea).
      rewrite (IH _ ty1 f rest); try (subst ty1; reflexivity); try (now sysr); try assumption.
      + rewrite sys_collapse. reflexivity.
      + subst ty1. unfold recv_step; tcb_simpl. apply wadd_u32.
      + subst ty1. unfold recv_step; tcb_simpl. rewrite zlen_app. lia.
  Qed.

  (* the retransmitted copy of the flight: all old data *)
  Lemma deliver_dups x lp rp ackv : forall segs s ty a f rest,
    end_of s (other x) = ELive ty -> net_of s x = segs ++ rest ->
    st ty = Established -> in_segs ty = [] -> rcv_wnd ty = 65535 -> u32 (rcv_nxt ty) ->
    flight lp rp ackv a segs -> u32 a -> wadd a (flight_len segs) = rcv_nxt ty ->
    flight_len segs <= 65535 -> mod_leq ackv (snd_una ty) = true -> zlen (in_text ty) <= 65535 ->
    deliver_all (length segs + f) c s x =
    deliver_all f c (set_end (set_net s x rest) (other x) (ELive (dup_flight ty segs))) x.
  Proof.
    induction segs as [|s0 r IH]; intros s ty a f rest Ey Nx Est Hs Hw Hu F Hua Hend Hfl Hleq Hit.
    - cbn [length Nat.add dup_flight fold_left]. cbn [app] in Nx. now rewrite sys_same.
    - cbn [length Nat.add]. cbn [app] in Nx.
      rewrite (deliver_all_cons _ c s x s0 (r ++ rest) Nx).
      destruct F as (Fh & Fl & Fr). destruct s0 as [h text]. cbn [s_hdr s_text] in *.
      rewrite flight_len_cons in Hend, Hfl. cbn [s_text] in Hend, Hfl.
      pose proof (flight_len_nonneg r) as Hr0.
      assert (Ea : segment_arrives ty (mkSeg h text) = Ok (dup_step ty (mkSeg h text), AOk)).
      { apply (old_data ty h text (flight_len r)); try assumption; try lia.
        - rewrite Fh. apply data_hdr_ack_only.
        - rewrite Fh. exact Hua.
        - rewrite Fh. exact Hend.
        - rewrite Fh. exact Hleq. }
      set (ty1 := dup_step ty (mkSeg h text)) in *.
      assert (Ey' : end_of (set_net s x (r ++ rest)) (other x) = ELive ty) by (now sysr).
      rewrite (arrive_eval c _ (other x) ty _ ty1 Ey' Ea).
      rewrite (IH _ ty1 (wadd a (zlen text)) f rest); try (subst ty1; reflexivity); try (now sysr); try assumption.
      + rewrite sys_collapse. reflexivity.
      + apply wadd_u32.
      + rewrite wadd_wadd. exact Hend.
      + lia.
  Qed.

  (* ---------- the sender's side ---------- *)
  (* u = SND.UNA, R = SND.NXT, b = RCV.NXT; segs = what is still in the retransmission queue *)
  Definition sending (t : tcb) (u R b : Z) (segs : list segment) (ot : list Z) : Prop :=
    st t = Established /\ snd_una t = u /\ snd_nxt t = R /\ rcv_nxt t = b /\
    snd_wnd t = 65535 /\ rcv_wnd t = 65535 /\ out_text t = ot /\ oneshot t = [] /\
    retx t = map (fun s => mkTx s false) segs /\
    fin_pending t = false /\ in_segs t = [] /\ in_text t = [] /\ rto t = RTO /\ time_wait t = None /\
    u32 u /\ u32 b /\ 100 <= mtu t <= 65535 /\
    (exists lp rp ackv, flight lp rp ackv u segs) /\ wadd u (flight_len segs) = R /\ flight_len segs <= 65535.

  Lemma sending_writer t R b ot : sending t R R b [] ot -> writer t R b ot.
  Proof.
    intros (A1 & A2 & A3 & A4 & A5 & A6 & A7 & A8 & A9 & A10 & A11 & A12 & A13 & A14 & A15 & A16 & A17 & _).
    unfold writer. cbn [map] in A9. splits; auto; lia.
  Qed.

  Lemma sending_quiet t R b : sending t R R b [] [] -> quiet t R b.
  Proof. apply sending_writer. Qed.

  Lemma flight_offsets lp rp ackv a : forall segs off,
    flight lp rp ackv (wadd a off) segs -> 0 <= off -> off + flight_len segs <= 65535 ->
    Forall (fun s => let e := wsub (wadd (h_seq (s_hdr s)) (seg_len s)) a in
                     off < e <= off + flight_len segs) segs.
  Proof.
    induction segs as [|s r IH]; intros off F H0 Hroom; [constructor|].
    destruct F as (Fh & Fl & Fr). rewrite flight_len_cons in *.
    pose proof (flight_len_nonneg r) as Hr0.
    assert (Hsl : seg_len s = zlen (s_text s)) by (unfold seg_len; rewrite Fh; cbn; lia).
    constructor.
    - cbv zeta. rewrite Hsl, Fh. cbn [data_hdr hb_wnd hb_ack h_seq].
      rewrite wsub_spec, !wadd_spec. unfold M32. lia.
    - rewrite wadd_wadd in Fr. specialize (IH (off + zlen (s_text s)) Fr ltac:(lia) ltac:(lia)).
      eapply Forall_impl; [|exact IH]. intros s' Hs'. cbv beta zeta in *. lia.
  Qed.

  Lemma wsub_of_wadd u n : u32 u -> 0 <= n <= 65535 -> wsub (wadd u n) u = n.
  Proof. intros Hu Hn. rewrite wsub_spec, wadd_spec. unfold u32, M32 in *. lia. Qed.

  (* the ACKs that answer the flight, one per segment, empty the retransmission queue *)
  Lemma deliver_acks y b R ot : forall segs acks, Forall2 (ackfor b) segs acks -> forall s tz u f rest,
    sending tz u R b segs ot ->
    end_of s (other y) = ELive tz -> net_of s y = map (fun h => mkSeg h []) acks ++ rest ->
    exists tz', deliver_all (length acks + f) c s y =
                deliver_all f c (set_end (set_net s y rest) (other y) (ELive tz')) y /\
                sending tz' R R b [] ot /\ mtu tz' = mtu tz.
  Proof.
    intros segs acks. induction 1 as [|s0 h r hs Hah _ IH]; intros s tz u f rest HS Ez Ny.
    - exists tz. cbn [length Nat.add map app] in *. rewrite sys_same by assumption.
      split; [reflexivity|]. split; [|reflexivity].
      destruct HS as (A1 & A2 & A3 & A4 & A5 & A6 & A7 & A8 & A9 & A10 & A11 & A12 & A13 & A14 & A15 & A16 & A17 & A18 & A19 & A20).
      assert (Hu : u = R).
      { change (flight_len []) with 0 in A19. now rewrite (wadd_0_u32 _ A15) in A19. }
      rewrite Hu in *. unfold sending. splits; auto; lia.
    - cbn [length Nat.add map app] in *.
      rewrite (deliver_all_cons _ c s y (mkSeg h []) (map (fun h => mkSeg h []) hs ++ rest) Ny).
      destruct HS as (A1 & A2 & A3 & A4 & A5 & A6 & A7 & A8 & A9 & A10 & A11 & A12 & A13 & A14 & A15 & A16 & A17 & (lp & rp & ackv & F) & A19 & A20).
      destruct Hah as (Hh & Hhs & Hhw & Hha).
      destruct F as (Fh & Fl & Fr). rewrite flight_len_cons in *.
      pose proof (flight_len_nonneg r) as Hr0.
      set (n := zlen (s_text s0)) in *.
      assert (Hsl : seg_len s0 = n) by (unfold seg_len; rewrite Fh; cbn; fold n; lia).
      assert (Hsq : h_seq (s_hdr s0) = u) by (rewrite Fh; reflexivity).
      assert (Hfl : wsub (snd_nxt tz) (snd_una tz) = n + flight_len r).
      { rewrite A2, A3, <- A19. apply wsub_of_wadd; [assumption|lia]. }
      cbn [map] in A9.
      destruct (ack_first_seg tz h (mkTx s0 false) (map (fun s => mkTx s false) r) n)
        as (w1 & w2 & Ea); try assumption; try (rewrite ?A2, ?A3, ?A4; assumption); try lia.
      + congruence.
      + rewrite Forall_map. cbn [t_seg]. rewrite A2.
        pose proof (flight_offsets lp rp ackv u r n) as Ho.
        specialize (Ho Fr ltac:(lia) ltac:(lia)).
        eapply Forall_impl; [|exact Ho]. intros s' Hs'. cbv beta zeta in *. lia.
      + rewrite A2 in Ea. set (tz1 := set_snd_window _ _ _ _) in Ea.
        assert (Ez' : end_of (set_net s y (map (fun h => mkSeg h []) hs ++ rest)) (other y) = ELive tz)
          by (now sysr).
        rewrite (arrive_eval c _ (other y) tz _ tz1 Ez' Ea).
        destruct (IH (set_end (set_net s y (map (fun h => mkSeg h []) hs ++ rest)) (other y) (ELive tz1)) tz1 (wadd u n) f rest) as (tz' & Ed & HS' & Hm').
        * unfold sending. subst tz1. tcb_simpl. splits; auto; try apply wadd_u32; try lia.
          -- exists lp, rp, ackv. exact Fr.
          -- rewrite wadd_wadd. exact A19.
        * now sysr.
        * now sysr.
        * exists tz'. rewrite Ed, sys_collapse. splits; auto.
  Qed.

  Lemma deliver_dupacks y b R ot : forall acks s tz f rest,
    Forall (dupack b R) acks -> sending tz R R b [] ot ->
    end_of s (other y) = ELive tz -> net_of s y = map (fun h => mkSeg h []) acks ++ rest ->
    exists tz', deliver_all (length acks + f) c s y =
                deliver_all f c (set_end (set_net s y rest) (other y) (ELive tz')) y /\
                sending tz' R R b [] ot /\ mtu tz' = mtu tz.
  Proof.
    induction acks as [|h hs IH]; intros s tz f rest Hd HS Ez Ny.
    - exists tz. cbn [length Nat.add map app] in *. rewrite sys_same by assumption. auto.
    - cbn [length Nat.add map app] in *. inversion Hd as [|? ? Hdh Hdr]; subst.
      rewrite (deliver_all_cons _ c s y (mkSeg h []) (map (fun h => mkSeg h []) hs ++ rest) Ny).
      pose proof HS as (A1 & A2 & A3 & A4 & A5 & A6 & A7 & A8 & A9 & A10 & A11 & A12 & A13 & A14 & A15 & A16 & A17 & A18 & A19 & A20).
      destruct Hdh as (Hh & Hhs & Hhw & Hha).
      assert (Ea : segment_arrives tz (mkSeg h []) = Ok (set_in_segs tz [], AOk)).
      { apply ack_duplicate; try assumption.
        - rewrite A4. exact A16.
        - congruence.
        - rewrite Hha, A2. apply mod_leq_refl. }
      assert (Ez' : end_of (set_net s y (map (fun h => mkSeg h []) hs ++ rest)) (other y) = ELive tz)
        by (now sysr).
      rewrite (arrive_eval c _ (other y) tz _ _ Ez' Ea).
      destruct (IH (set_end (set_net s y (map (fun h => mkSeg h []) hs ++ rest)) (other y) (ELive (set_in_segs tz []))) (set_in_segs tz []) f rest Hdr) as (tz' & Ed & HS' & Hm').
      + unfold sending in *. tcb_simpl. splits; auto; lia.
      + now sysr.
      + now sysr.
      + exists tz'. rewrite Ed, sys_collapse. splits; auto.
  Qed.
End Win.
