(* C17: the single-endpoint invariant of Model/Tcb.v and its preservation by
   every operation, for ARBITRARY well-formed segments (any flags, any seq /
   ack / window, any text up to the largest a TCP header can carry). *)
From Elvis Require Import Model.Base Model.U32 Model.Tcb Proofs.U32Facts Proofs.TcbEdges.
From Coq Require Import ZifyBool.
Local Open Scope Z_scope.
Ltac Zify.zify_post_hook ::= Z.div_mod_to_equations.

(* ------------------------------------------------------------------ *)
(* syntactically valid segments                                        *)
Definition u16 (x : Z) : Prop := 0 <= x <= 65535.
(* TcpHeader::from_bytes and TcpHeaderBuilder::build both need
   20 + text_len to fit a u16 (tcp_parsing.rs l.95 / l.238) *)
Definition MAXTEXT : Z := 65515.

Definition wf_hdr (h : header) : Prop :=
  u16 (h_sport h) /\ u16 (h_dport h) /\ u32 (h_seq h) /\ u32 (h_ack h) /\
  u16 (h_wnd h) /\ u16 (h_urg h).
(* the six flag bits and the payload bytes are unconstrained *)
Definition wf_seg (s : segment) : Prop := wf_hdr (s_hdr s) /\ zlen (s_text s) <= MAXTEXT.

Definition tw_ok (w : option Z) : Prop :=
  match w with Some x => 0 <= x <= MSL2 | None => True end.

Record Inv (t : tcb) : Prop := mkInv {
  i_lport : u16 (lport t);
  i_rport : u16 (rport t);
  i_mtu : SPACE_FOR_HEADERS <= mtu t <= 65535;
  i_una : u32 (snd_una t);
  i_nxt : u32 (snd_nxt t);
  i_swnd : u16 (snd_wnd t);
  i_wl1 : u32 (snd_wl1 t);
  i_wl2 : u32 (snd_wl2 t);
  i_iss : u32 (snd_iss t);
  i_irs : u32 (rcv_irs t);
  i_rnxt : u32 (rcv_nxt t);
  i_rwnd : rcv_wnd t = DEFAULT_WND;
  i_intext : zlen (in_text t) <= rcv_wnd t;
  i_insegs : Forall wf_seg (in_segs t);
  i_retx : Forall (fun tx => wf_seg (t_seg tx)) (retx t);
  i_oneshot : Forall wf_hdr (oneshot t);
  i_rto : 0 <= rto t <= RTO;
  i_tw : tw_ok (time_wait t) }.

(* ---- setters ---- *)
Lemma Inv_set_st t v : Inv t -> Inv (set_st t v).
Proof. intros []; constructor; tsimpl; assumption. Qed.
Lemma Inv_set_snd_una t v : Inv t -> u32 v -> Inv (set_snd_una t v).
Proof. intros [] ?; constructor; tsimpl; assumption. Qed.
Lemma Inv_set_snd_nxt t v : Inv t -> u32 v -> Inv (set_snd_nxt t v).
Proof. intros [] ?; constructor; tsimpl; assumption. Qed.
Lemma Inv_set_snd_window t w a b : Inv t -> u16 w -> u32 a -> u32 b -> Inv (set_snd_window t w a b).
Proof. intros [] ? ? ?; constructor; tsimpl; assumption. Qed.
Lemma Inv_set_rcv_irs t v : Inv t -> u32 v -> Inv (set_rcv_irs t v).
Proof. intros [] ?; constructor; tsimpl; assumption. Qed.
Lemma Inv_set_rcv_nxt t v : Inv t -> u32 v -> Inv (set_rcv_nxt t v).
Proof. intros [] ?; constructor; tsimpl; assumption. Qed.
Lemma Inv_set_out_text t v : Inv t -> Inv (set_out_text t v).
Proof. intros []; constructor; tsimpl; assumption. Qed.
Lemma Inv_set_retx t v : Inv t -> Forall (fun tx => wf_seg (t_seg tx)) v -> Inv (set_retx t v).
Proof. intros [] ?; constructor; tsimpl; assumption. Qed.
Lemma Inv_set_oneshot t v : Inv t -> Forall wf_hdr v -> Inv (set_oneshot t v).
Proof. intros [] ?; constructor; tsimpl; assumption. Qed.
Lemma Inv_set_fin_pending t v : Inv t -> Inv (set_fin_pending t v).
Proof. intros []; constructor; tsimpl; assumption. Qed.
Lemma Inv_set_in_segs t v : Inv t -> Forall wf_seg v -> Inv (set_in_segs t v).
Proof. intros [] ?; constructor; tsimpl; assumption. Qed.
Lemma Inv_set_in_text t v : Inv t -> zlen v <= rcv_wnd t -> Inv (set_in_text t v).
Proof. intros [] ?; constructor; tsimpl; assumption. Qed.
Lemma Inv_set_rto t v : Inv t -> 0 <= v <= RTO -> Inv (set_rto t v).
Proof. intros [] ?; constructor; tsimpl; assumption. Qed.
Lemma Inv_set_time_wait t v : Inv t -> tw_ok v -> Inv (set_time_wait t v).
Proof. intros [] ?; constructor; tsimpl; assumption. Qed.

Lemma tw_ok_msl2 : tw_ok (Some MSL2).
Proof. unfold tw_ok, MSL2. lia. Qed.
Lemma rto_ok_RTO : 0 <= RTO <= RTO.
Proof. unfold RTO. lia. Qed.

(* ---- headers the endpoint builds are well formed ---- *)
Lemma hb_wf t seq : Inv t -> u32 seq -> wf_hdr (hb t seq).
Proof. intros [] ?. unfold wf_hdr, hb; tsimpl. unfold u16, u32, M32 in *. repeat split; try assumption; lia. Qed.
Lemma hb_ack_wf h a : wf_hdr h -> u32 a -> wf_hdr (hb_ack h a).
Proof. unfold wf_hdr, hb_ack; tsimpl. intuition. Qed.
Lemma hb_wnd_wf h w : wf_hdr h -> u16 w -> wf_hdr (hb_wnd h w).
Proof. unfold wf_hdr, hb_wnd; tsimpl. intuition. Qed.
Lemma hb_flag_wf h a b c : wf_hdr h -> wf_hdr (hb_flag h a b c).
Proof. unfold wf_hdr, hb_flag; tsimpl. intuition. Qed.
Lemma rcv_wnd_u16 t : Inv t -> u16 (rcv_wnd t).
Proof. intros []. rewrite i_rwnd0. unfold u16, DEFAULT_WND. lia. Qed.
Lemma ack_hdr_wf t : Inv t -> wf_hdr (ack_hdr t).
Proof.
  intros HI. unfold ack_hdr. apply hb_wnd_wf; [|apply rcv_wnd_u16; assumption].
  apply hb_ack_wf; [|apply HI]. apply hb_wf; [assumption|apply HI].
Qed.
Lemma rst_hdr_wf t seq : Inv t -> u32 seq -> wf_hdr (rst_hdr t seq).
Proof.
  intros HI Hs. unfold rst_hdr, hb_rst. apply hb_wnd_wf; [|apply rcv_wnd_u16; assumption].
  apply hb_flag_wf. apply hb_wf; assumption.
Qed.

Lemma wf_seg_nil h : wf_hdr h -> wf_seg (mkSeg h []).
Proof. intros H. split; [exact H|]. unfold zlen, MAXTEXT. cbn. lia. Qed.

Lemma enqueue_inv t h : Inv t -> wf_hdr h -> Inv (enqueue t h).
Proof.
  intros HI Hh. unfold enqueue. destruct (_ || _).
  - apply Inv_set_retx; [assumption|]. apply Forall_app. split; [apply HI|].
    constructor; [|constructor]. tsimpl. apply wf_seg_nil, Hh.
  - apply Inv_set_oneshot; [assumption|]. apply Forall_app. split; [apply HI|].
    constructor; [assumption|constructor].
Qed.

Lemma Forall_filter {A} (P : A -> Prop) f l : Forall P l -> Forall P (filter f l).
Proof.
  induction l as [|x l IH]; cbn; intros H; [constructor|].
  inversion H; subst. destruct (f x); [constructor|]; auto.
Qed.

Lemma remove_acked_inv t u : Inv t -> Inv (remove_acked t u).
Proof. intros HI. unfold remove_acked. apply Inv_set_retx; [assumption|]. apply Forall_filter, HI. Qed.

(* ---- ack_established_processing ---- *)
Lemma ack_est_inv t h : Inv t -> wf_hdr h -> Inv (fst (ack_est t h)).
Proof.
  intros HI Hh. pose proof Hh as (Hsp & Hdp & Hseq & Hack & Hwnd & Hurg).
  unfold ack_est. destruct (mod_leq _ _); [exact HI|].
  destruct (mod_gt _ _); cbn [fst].
  - apply enqueue_inv; [assumption|apply ack_hdr_wf; assumption].
  - assert (H1 : Inv (remove_acked (set_snd_una t (h_ack h)) (h_ack h)))
      by (apply remove_acked_inv, Inv_set_snd_una; assumption).
    destruct (_ || _); [apply Inv_set_snd_window|]; assumption.
Qed.

(* ---- stage 2 ---- *)
Lemma ps_ack_inv t h : Inv t -> wf_hdr h -> Inv (fst (ps_ack t h)).
Proof.
  intros HI Hh. pose proof Hh as (Hsp & Hdp & Hseq & Hack & Hwnd & Hurg).
  unfold ps_ack. destruct (negb _); [exact HI|].
  destruct (st t) eqn:Est;
    try (match goal with |- context [ack_est t h] => idtac end;
         pose proof (ack_est_inv t h HI Hh) as H2;
         destruct (ack_est t h) as [t2 r]; cbn [fst] in H2;
         repeat break_if; destruct r; cbn [fst];
         repeat first [assumption | apply Inv_set_time_wait | apply Inv_set_st | apply tw_ok_msl2]).
  - repeat break_if; cbn [fst];
      repeat first [assumption | apply enqueue_inv | apply rst_hdr_wf
                   | apply remove_acked_inv | apply Inv_set_snd_una].
  - destruct (mod_bounded _ _ _ _ _); cbn [fst].
    + match goal with |- context [ack_est ?tt h] =>
        assert (H2 : Inv (fst (ack_est tt h)))
          by (apply ack_est_inv; [apply Inv_set_snd_window; try apply Inv_set_st; assumption|assumption]);
        destruct (ack_est tt h) as [t2 r] end.
      cbn [fst] in H2. destruct r; exact H2.
    + apply enqueue_inv; [assumption|apply rst_hdr_wf; assumption].
  - destruct (c_fin (h_ctl h)); cbn [fst]; [|exact HI]. apply Inv_set_time_wait; [|apply tw_ok_msl2].
    apply enqueue_inv; [assumption|].
    apply hb_wnd_wf; [|apply rcv_wnd_u16; assumption].
    apply hb_ack_wf; [|apply wadd_u32]. apply hb_wf; [assumption|apply HI].
Qed.

(* ---- stage 4 ---- *)
Lemma ps_syn_inv t h : Inv t -> wf_hdr h -> Inv (fst (ps_syn t h)).
Proof.
  intros HI Hh. pose proof Hh as (Hsp & Hdp & Hseq & Hack & Hwnd & Hurg).
  unfold ps_syn. destruct (negb _); [exact HI|].
  assert (Hother : Inv (enqueue t (ack_hdr t))) by (apply enqueue_inv; [|apply ack_hdr_wf]; assumption).
  destruct (st t); cbn [fst]; try exact Hother.
  set (t1 := set_snd_window _ _ _ _).
  assert (H1 : Inv t1).
  { subst t1. apply Inv_set_snd_window; try assumption.
    apply Inv_set_rcv_nxt; [|apply wadd_u32]. apply Inv_set_rcv_irs; assumption. }
  destruct (mod_gt _ _); cbn [fst].
  - apply enqueue_inv; [apply Inv_set_st; assumption|]. apply ack_hdr_wf, Inv_set_st; assumption.
  - apply enqueue_inv; [apply Inv_set_st; assumption|].
    assert (H2 : Inv (set_st t1 SynReceived)) by (apply Inv_set_st; assumption).
    apply hb_wnd_wf; [|apply rcv_wnd_u16; assumption].
    apply hb_ack_wf; [|apply H2]. apply hb_flag_wf. apply hb_wf; [assumption|apply H2].
Qed.

(* ---- the receive window in readable form ---- *)
(* n lies in [RCV.NXT-1, RCV.NXT+RCV.WND): the lower bound is the relaxed one of
   draft-gont-tcpm-tcp-seq-validation cited at tcb.rs l.757-762 *)
Definition in_window (t : tcb) (n : Z) : Prop := wsub n (wsub (rcv_nxt t) 1) <= rcv_wnd t.

Lemma is_in_rcv_window_spec t n : u32 n -> 0 <= rcv_wnd t <= 65535 ->
  is_in_rcv_window t n = (wsub n (wsub (rcv_nxt t) 1) <=? rcv_wnd t).
Proof.
  intros Hn Hw. unfold is_in_rcv_window.
  rewrite mod_bounded_spec by (try assumption; try apply wsub_u32; apply wadd_u32).
  unfold on_arc. cbn [cmp_offset]. u32_unfold.
  match goal with |- ?L = ?R => destruct L eqn:EL; destruct R eqn:ER; try reflexivity; exfalso; lia end.
Qed.

Lemma zlen_nonneg {A} (l : list A) : 0 <= zlen l.
Proof. unfold zlen. lia. Qed.

(* an acceptable text-bearing segment without SYN passes the assert! of l.597 *)
Lemma seq_ok_assert t seq len fin : rcv_wnd t = DEFAULT_WND -> u32 seq -> 0 < len <= 65536 ->
  is_seq_ok t len seq false fin = true ->
  is_in_rcv_window t seq || is_in_rcv_window t (wadd seq len) = true.
Proof.
  intros Hw Hs Hl. unfold is_seq_ok.
  assert (Hw' : 0 <= rcv_wnd t <= 65535) by (rewrite Hw; unfold DEFAULT_WND; lia).
  rewrite !is_in_rcv_window_spec by (try assumption; try apply wsub_u32; apply wadd_u32).
  destruct (len + b2z fin + b2z false =? 0) eqn:E0; [destruct fin; cbn [b2z] in E0; lia|].
  destruct (rcv_wnd t =? 0) eqn:E1; [discriminate|].
  rewrite Hw. unfold DEFAULT_WND. clear E0 E1.
  destruct fin; cbn [b2z]; u32_unfold; intros H; lia.
Qed.

(* just after a SYN was taken in SYN-SENT the segment's own seq is RCV.NXT-1 *)
Lemma syn_seq_in_window t seq : rcv_wnd t = DEFAULT_WND -> u32 seq -> rcv_nxt t = wadd seq 1 ->
  is_in_rcv_window t seq = true.
Proof.
  intros Hw Hs Hn.
  rewrite is_in_rcv_window_spec by (try assumption; rewrite Hw; unfold DEFAULT_WND; lia).
  rewrite Hn, Hw. unfold DEFAULT_WND. u32_unfold. lia.
Qed.

Lemma is_in_rcv_window_ext t t' n : rcv_nxt t' = rcv_nxt t -> rcv_wnd t' = rcv_wnd t ->
  is_in_rcv_window t' n = is_in_rcv_window t n.
Proof. unfold is_in_rcv_window. intros -> ->. reflexivity. Qed.

(* ---- stage 6 ---- *)
Definition asserts_state (s : state) : bool :=
  match s with Established | SynSent | SynReceived | FinWait1 | FinWait2 => true | _ => false end.
Definition text_pre (t : tcb) (h : header) (text : list Z) : Prop :=
  zlen text = 0 \/ asserts_state (st t) = false \/
  is_in_rcv_window t (h_seq h) || is_in_rcv_window t (wadd (h_seq h) (zlen text)) = true.

Lemma ps_text_ok t h text : Inv t -> text_pre t h text -> exists t', ps_text t h text = Ok t'.
Proof.
  intros HI Hp. unfold ps_text.
  destruct (zlen text =? 0) eqn:E0; [eauto|].
  destruct Hp as [Hp|[Hp|Hp]]; [lia| |].
  - destruct (st t); try discriminate Hp; eauto.
  - rewrite Hp. cbn [negb].
    assert (E : (rcv_wnd t <? zlen (in_text t)) = false) by (destruct HI; lia).
    rewrite E. destruct (st t); eauto.
Qed.

Lemma zlen_app {A} (a b : list A) : zlen (a ++ b) = zlen a + zlen b.
Proof. unfold zlen. rewrite app_length. lia. Qed.
Lemma zlen_firstn_le {A} n (l : list A) : zlen (firstn (Z.to_nat n) l) <= Z.max 0 n.
Proof. unfold zlen. rewrite firstn_length. lia. Qed.

Lemma ps_text_inv t h text t' : Inv t -> ps_text t h text = Ok t' -> Inv t'.
Proof.
  intros HI. unfold ps_text.
  destruct (zlen text =? 0); [intros H; inversion H; subst; exact HI|].
  assert (Hgo : forall b : bool,
    (if b then Panic 2 else
      if rcv_wnd t <? zlen (in_text t) then Panic 3 else
      Ok (let already := Z.min (wsub (wsub (rcv_nxt t) (h_seq h)) (b2z (c_syn (h_ctl h)))) (zlen text) in
          let accept := Z.min (zlen text - already) (rcv_wnd t - zlen (in_text t)) in
          let t1 := set_rcv_nxt t (wadd (rcv_nxt t) accept) in
          let t2 := set_in_text t1 (in_text t1 ++
                      firstn (Z.to_nat accept) (skipn (Z.to_nat already) text)) in
          enqueue t2 (ack_hdr t2))) = Ok t' -> Inv t').
  { intros b. destruct b; [discriminate|].
    destruct (rcv_wnd t <? zlen (in_text t)) eqn:E; [discriminate|].
    cbv zeta. intros H; inversion H; subst; clear H.
    match goal with |- Inv (enqueue ?a _) => assert (H2 : Inv a) end.
    { apply Inv_set_in_text; [apply Inv_set_rcv_nxt; [assumption|apply wadd_u32]|].
      tsimpl. rewrite zlen_app.
      match goal with |- context [firstn (Z.to_nat ?n) ?l] => pose proof (zlen_firstn_le n l) end.
      destruct HI. lia. }
    apply enqueue_inv; [exact H2|apply ack_hdr_wf; exact H2]. }
  destruct (st t); try exact (Hgo _); intros H; inversion H; subst; exact HI.
Qed.

(* stage 6 leaves alone everything but RCV.NXT, the receive buffer and the one-shot queue *)
Lemma ps_text_rcv_wnd t h text t' : ps_text t h text = Ok t' -> rcv_wnd t' = rcv_wnd t.
Proof.
  unfold ps_text. repeat break_if; intros H; inversion H; subst; try reflexivity;
    match goal with |- context [enqueue ?a ?b] => destruct (enqueue_same_rcv a b) as (_ & _ & E & _) end;
    rewrite E; reflexivity.
Qed.

(* ---- stage 7 ---- *)
Lemma ps_fin_inv t h n : Inv t -> Inv (ps_fin t h n).
Proof.
  intros HI. unfold ps_fin. destruct (negb _); [exact HI|].
  match goal with |- context [match st ?x with _ => _ end] => set (t1 := x) end.
  assert (H1 : Inv t1).
  { subst t1. repeat break_if; try exact HI.
    assert (H2 : Inv (set_rcv_nxt t (wadd (wadd (h_seq h) n) 1)))
      by (apply Inv_set_rcv_nxt; [assumption|apply wadd_u32]).
    apply enqueue_inv; [exact H2|apply ack_hdr_wf; exact H2]. }
  destruct (st t1); try destruct (is_fin_acked t1);
    repeat first [assumption | apply Inv_set_rto | apply Inv_set_time_wait | apply Inv_set_st
                 | apply tw_ok_msl2 | apply rto_ok_RTO].
Qed.

(* ------------------------------------------------------------------ *)
(* process_segment: never panics, preserves Inv                        *)
Lemma process_segment_inv t s t' r : Inv t -> wf_seg s -> process_segment t s = Ok (t', r) -> Inv t'.
Proof.
  intros HI [Hh Hl] H.
  pose proof (ps_ack_inv t (s_hdr s) HI Hh) as H2.
  pose proof (ps_syn_inv _ (s_hdr s) H2 Hh) as H4.
  destruct (process_segment_cases _ _ _ _ H); subst; try assumption.
  - apply enqueue_inv; [assumption|apply ack_hdr_wf; assumption].
  - apply ps_fin_inv. eapply ps_text_inv; eassumption.
Qed.

Lemma process_segment_ok t s : Inv t -> wf_seg s -> exists t' r, process_segment t s = Ok (t', r).
Proof.
  intros HI [Hh Hl]. pose proof Hh as (Hsp & Hdp & Hseq & Hack & Hwnd & Hurg).
  unfold process_segment.
  destruct (match st t with SynSent => false | _ => _ end) eqn:Ebad; [eauto|].
  pose proof (ps_ack_inv t (s_hdr s) HI Hh) as H2.
  pose proof (ps_ack_st t (s_hdr s)) as Ea.
  pose proof (ps_ack_same_rcv t (s_hdr s)) as (_ & Rn & Rw & _).
  destruct (ps_ack t (s_hdr s)) as [t2 r2]. cbn [fst] in *.
  destruct r2; [eauto|].
  destruct (ps_rst t2 (s_hdr s)); [eauto|].
  pose proof (ps_syn_inv t2 (s_hdr s) H2 Hh) as H4.
  destruct (c_syn (h_ctl (s_hdr s))) eqn:Esyn.
  - pose proof (ps_syn_continue t2 (s_hdr s) Esyn) as Hc.
    destruct (ps_syn t2 (s_hdr s)) as [t4 r4]. cbn [fst snd] in *.
    destruct r4; [eauto|]. destruct (Hc eq_refl) as (_ & E4 & En & Ew & _).
    rewrite E4. cbn [state_eqb].
    destruct (ps_text_ok t4 (s_hdr s) (s_text s) H4) as [t6 ->]; [|eauto].
    right. right. rewrite syn_seq_in_window; auto. destruct H4; assumption.
  - rewrite (ps_syn_nosyn _ _ Esyn) in *. cbn [fst] in *.
    destruct (state_eqb (st t2) SynSent) eqn:E2; [eauto|].
    destruct (ps_text_ok t2 (s_hdr s) (s_text s) H2) as [t6 ->]; [|eauto].
    destruct (zlen (s_text s) =? 0) eqn:E0; [left; lia|].
    pose proof (zlen_nonneg (s_text s)).
    destruct (st t) eqn:Est;
      try (right; right; rewrite !(is_in_rcv_window_ext t t2) by assumption;
           apply negb_false_iff in Ebad; try rewrite Esyn in Ebad;
           eapply seq_ok_assert; try eassumption; [apply HI|unfold MAXTEXT in Hl; lia]).
    (* only SynSent is left: it stays SynSent through the ACK stage.  (CLOSING is
       sequence-checked like every synchronised state since fix commit bbbdf8a3.) *)
    destruct (st t2); discriminate.
Qed.

(* ------------------------------------------------------------------ *)
(* the BinaryHeap: outputs are made of inputs, lengths are as expected *)
Section Heap.
  Variable P : segment -> Prop.

  Lemma set_nth_length {A} (l : list A) : forall i x, length (set_nth l i x) = length l.
  Proof. induction l as [|y l IH]; intros [|i] x; cbn; auto. Qed.
  Lemma set_nth_Forall (l : list segment) : forall i x, P x -> Forall P l -> Forall P (set_nth l i x).
  Proof.
    induction l as [|y l IH]; intros [|i] x Hx Hl; cbn; auto; inversion Hl; subst; constructor; auto.
  Qed.
  Lemma get_or_P (l : list segment) i x : P x -> Forall P l -> P (get_or l i x).
  Proof.
    intros Hx Hl. unfold get_or. destruct (nth_error l i) eqn:E; [|assumption].
    apply nth_error_In in E. rewrite Forall_forall in Hl. auto.
  Qed.

  Lemma sift_up_length fuel : forall v pos x, length (sift_up fuel v pos x) = length v.
  Proof.
    induction fuel as [|f IH]; intros v pos x; cbn [sift_up]; [apply set_nth_length|].
    destruct pos; [apply set_nth_length|]. destruct (seg_le _ _); [apply set_nth_length|].
    rewrite IH. apply set_nth_length.
  Qed.
  Lemma sift_up_Forall fuel : forall v pos x, P x -> Forall P v -> Forall P (sift_up fuel v pos x).
  Proof.
    induction fuel as [|f IH]; intros v pos x Hx Hv; cbn [sift_up]; [apply set_nth_Forall; assumption|].
    destruct pos; [apply set_nth_Forall; assumption|].
    destruct (seg_le _ _); [apply set_nth_Forall; assumption|].
    apply IH; [assumption|]. apply set_nth_Forall; [|assumption]. apply get_or_P; assumption.
  Qed.

  Lemma heap_push_length v x : length (heap_push v x) = S (length v).
  Proof. unfold heap_push. rewrite sift_up_length, app_length. cbn. lia. Qed.
  Lemma heap_push_Forall v x : P x -> Forall P v -> Forall P (heap_push v x).
  Proof.
    intros Hx Hv. unfold heap_push. apply sift_up_Forall; [assumption|].
    apply Forall_app. split; [assumption|]. constructor; [assumption|constructor].
  Qed.

  Lemma sift_down_length fuel : forall v pos x, length (fst (sift_down fuel v pos x)) = length v.
  Proof.
    induction fuel as [|f IH]; intros v pos x; cbn [sift_down]; [reflexivity|].
    destruct (_ && _).
    - rewrite IH. apply set_nth_length.
    - destruct (_ && _); cbn [fst]; [apply set_nth_length|reflexivity].
  Qed.
  Lemma sift_down_Forall fuel : forall v pos x, P x -> Forall P v -> Forall P (fst (sift_down fuel v pos x)).
  Proof.
    induction fuel as [|f IH]; intros v pos x Hx Hv; cbn [sift_down]; [assumption|].
    destruct (_ && _).
    - apply IH; [assumption|]. apply set_nth_Forall; [|assumption]. apply get_or_P; assumption.
    - destruct (_ && _); cbn [fst]; [|assumption].
      apply set_nth_Forall; [|assumption]. apply get_or_P; assumption.
  Qed.

  Lemma heap_pop_some v s rest : heap_pop v = Some (s, rest) -> Forall P v ->
    P s /\ Forall P rest /\ length v = S (length rest).
  Proof.
    unfold heap_pop. intros H Hv.
    assert (Hr : Forall P (rev v)) by (apply Forall_rev; assumption).
    assert (Hlen : length (rev v) = length v) by apply rev_length.
    destruct (rev v) as [|last rinit]; [discriminate|].
    inversion Hr as [|? ? Hlast Hrin]; subst.
    assert (Hi : Forall P (rev rinit)) by (apply Forall_rev; assumption).
    assert (Hil : length (rev rinit) = length rinit) by apply rev_length.
    cbn [length] in Hlen.
    destruct (rev rinit) as [|top init'] eqn:Ei.
    - inversion H; subst. repeat split; [assumption|constructor|]. cbn in *. lia.
    - set (fuel := S (length (top :: init'))) in H. clearbody fuel.
      pose proof (sift_down_length fuel (top :: init') O last) as L1.
      pose proof (sift_down_Forall fuel (top :: init') O last Hlast Hi) as F1.
      destruct (sift_down fuel (top :: init') O last) as [v1 pos]. cbn [fst] in L1, F1.
      injection H as Hs1 Hs2. subst s rest. inversion Hi as [|? ? Htop Hini]; subst.
      repeat split; [assumption| |].
      + apply sift_up_Forall; assumption.
      + rewrite sift_up_length, L1. lia.
  Qed.

  Lemma heap_pop_none v : heap_pop v = None -> v = [].
  Proof.
    unfold heap_pop. destruct (rev v) as [|last rinit] eqn:E.
    - intros _. apply (f_equal (@rev _)) in E. rewrite rev_involutive in E. exact E.
    - destruct (rev rinit); [discriminate|]. destruct (sift_down _ _ _ _). discriminate.
  Qed.
End Heap.

(* ------------------------------------------------------------------ *)
(* segment_arrives                                                     *)
Lemma arrives_loop_ok fuel : forall t, Inv t -> (length (in_segs t) < fuel)%nat ->
  exists t' r, arrives_loop fuel t = Ok (t', r) /\ Inv t'.
Proof.
  induction fuel as [|f IH]; intros t HI Hlen; [lia|]. cbn [arrives_loop].
  destruct (heap_peek (in_segs t)) as [top|] eqn:Epeek; [|eauto].
  destruct (_ && _); [eauto|].
  destruct (heap_pop (in_segs t)) as [[s rest]|] eqn:Epop.
  2:{ apply heap_pop_none in Epop. rewrite Epop in Epeek. discriminate Epeek. }
  destruct (heap_pop_some wf_seg _ _ _ Epop (i_insegs _ HI)) as (Hs & Hrest & Hl).
  assert (H0 : Inv (set_in_segs t rest)) by (apply Inv_set_in_segs; assumption).
  destruct (process_segment_ok _ s H0 Hs) as (t1 & r1 & Ep). rewrite Ep.
  pose proof (process_segment_inv _ _ _ _ H0 Hs Ep) as H1.
  destruct (should_delete r1); [eauto|].
  apply IH; [assumption|].
  rewrite (process_segment_in_segs _ _ _ _ Ep). tsimpl. lia.
Qed.

Lemma segment_arrives_ok t s : Inv t -> wf_seg s ->
  exists t' r, segment_arrives t s = Ok (t', r) /\ Inv t'.
Proof.
  intros HI Hs. unfold segment_arrives. apply arrives_loop_ok.
  - apply Inv_set_in_segs; [assumption|]. apply heap_push_Forall; [assumption|apply HI].
  - tsimpl. lia.
Qed.

(* ------------------------------------------------------------------ *)
(* send / receive / close / advance_time                               *)
Lemma tcb_send_inv t b : Inv t -> Inv (tcb_send t b).
Proof. intros HI. unfold tcb_send. destruct (accepts_send _); [apply Inv_set_out_text|]; assumption. Qed.

Lemma tcb_receive_inv t : Inv t -> Inv (fst (tcb_receive t)).
Proof.
  intros HI. cbn [tcb_receive fst]. apply Inv_set_in_text; [assumption|].
  destruct HI. rewrite i_rwnd0. unfold zlen, DEFAULT_WND. cbn. lia.
Qed.

Lemma queue_pending_fin_inv t : Inv t -> Inv (queue_pending_fin t).
Proof.
  intros HI. unfold queue_pending_fin. destruct (_ && _); [|assumption].
  apply Inv_set_snd_nxt; [|apply wadd_u32].
  assert (H1 : Inv (set_fin_pending t false)) by (apply Inv_set_fin_pending; assumption).
  apply enqueue_inv; [exact H1|].
  apply hb_wnd_wf; [|apply rcv_wnd_u16; assumption].
  apply hb_ack_wf; [|apply H1]. apply hb_flag_wf. apply hb_wf; [assumption|apply H1].
Qed.

Lemma tcb_close_inv t : Inv t -> Inv (fst (tcb_close t)).
Proof.
  intros HI. unfold tcb_close.
  destruct (st t); cbn [fst]; try assumption;
    apply queue_pending_fin_inv, Inv_set_st, Inv_set_fin_pending; assumption.
Qed.

Lemma Forall_map_tx (f : transmit -> transmit) l :
  (forall tx, t_seg (f tx) = t_seg tx) ->
  Forall (fun tx => wf_seg (t_seg tx)) l -> Forall (fun tx => wf_seg (t_seg tx)) (map f l).
Proof.
  intros Hf H. induction H; cbn; constructor; auto. rewrite Hf. assumption.
Qed.

Lemma advance_time_inv t dt : Inv t -> 0 <= dt -> Inv (fst (advance_time t dt)).
Proof.
  intros HI Hdt. unfold advance_time.
  set (t1 := if rto t <? dt then _ else _).
  assert (H1 : Inv t1).
  { subst t1. destruct (rto t <? dt) eqn:E.
    - apply Inv_set_retx; [apply Inv_set_rto; [assumption|apply rto_ok_RTO]|].
      apply Forall_map_tx; [reflexivity|apply HI].
    - apply Inv_set_rto; [assumption|]. destruct HI. lia. }
  pose proof (i_tw _ H1) as Htw.
  destruct (time_wait t1) as [tw|]; [|assumption].
  destruct (tw <? dt) eqn:E; cbn [fst]; [assumption|].
  apply Inv_set_time_wait; [assumption|]. unfold tw_ok in *. lia.
Qed.

(* ------------------------------------------------------------------ *)
(* segments                                                            *)
Lemma zlen_skipn {A} n (l : list A) : 0 <= n <= zlen l -> zlen (skipn (Z.to_nat n) l) = zlen l - n.
Proof. unfold zlen. intros H. rewrite skipn_length. lia. Qed.

Lemma seg_loop_ok fuel : forall t mss, Inv t -> 0 <= mss <= 65535 - SPACE_FOR_HEADERS ->
  (length (out_text t) < fuel)%nat ->
  exists t', seg_loop fuel t mss (zlen (out_text t)) = Ok t' /\ Inv t'.
Proof.
  induction fuel as [|f IH]; intros t mss HI Hmss Hlen; [lia|]. cbn [seg_loop].
  set (bytes := Z.min (Z.min mss _) _).
  pose proof (zlen_nonneg (out_text t)) as Hz.
  assert (Hb : 0 <= bytes <= mss /\ bytes <= zlen (out_text t)) by (subst bytes; lia).
  destruct (bytes =? 0) eqn:E0; [eauto|].
  assert (E1 : (65535 <? bytes + 20) = false) by (unfold SPACE_FOR_HEADERS in Hmss; lia).
  rewrite E1.
  match goal with |- context [seg_loop f ?t3 mss ?rem] => assert (H3 : Inv t3); [|
    assert (Erem : rem = zlen (out_text t3)); [|
    assert (Hl3 : (length (out_text t3) < f)%nat)]] end.
  - apply Inv_set_retx.
    + apply Inv_set_snd_nxt; [apply Inv_set_out_text; assumption|apply wadd_u32].
    + tsimpl. apply Forall_app. split; [apply HI|]. constructor; [|constructor]. tsimpl.
      split; tsimpl.
      * apply hb_wnd_wf; [|apply rcv_wnd_u16; assumption].
        apply hb_ack_wf; [|apply HI]. apply hb_wf; [assumption|apply HI].
      * pose proof (zlen_firstn_le bytes (out_text t)). unfold MAXTEXT, SPACE_FOR_HEADERS in *. lia.
  - tsimpl. rewrite zlen_skipn by lia. reflexivity.
  - tsimpl. rewrite skipn_length. unfold zlen in Hb. lia.
  - rewrite Erem. apply IH; assumption.
Qed.

Lemma Forall_map_seg (l : list transmit) :
  Forall (fun tx => wf_seg (t_seg tx)) l -> Forall wf_seg (map t_seg l).
Proof. intros H. induction H; cbn; constructor; auto. Qed.

Lemma tcb_segments_ok t : Inv t ->
  exists t' segs, tcb_segments t = Ok (t', segs) /\ Inv t' /\ Forall wf_seg segs.
Proof.
  intros HI. unfold tcb_segments.
  assert (H0 : Inv (set_oneshot t [])) by (apply Inv_set_oneshot; [assumption|constructor]).
  match goal with |- context [match ?r with Ok _ => _ | _ => _ end] => set (r1 := r) end.
  assert (Hr : exists t1, r1 = Ok t1 /\ Inv t1).
  { subst r1. destruct (segmentizes _); [|eauto].
    pose proof (i_mtu _ H0) as Hm.
    destruct (mtu (set_oneshot t []) <? SPACE_FOR_HEADERS) eqn:Em; [lia|].
    destruct (seg_loop_ok (S (length (out_text (set_oneshot t [])))) (set_oneshot t [])
                (mtu (set_oneshot t []) - SPACE_FOR_HEADERS) H0) as (t1 & -> & H1); [lia|lia|].
    eexists; split; [reflexivity|]. apply queue_pending_fin_inv; assumption. }
  destruct Hr as (t1 & -> & H1).
  do 2 eexists; split; [reflexivity|]. split.
  - assert (H2 : Inv (set_retx t1 (map (fun tx => mkTx (t_seg tx) false) (retx t1)))).
    { apply Inv_set_retx; [assumption|]. apply Forall_map_tx; [reflexivity|apply H1]. }
    destruct (map t_seg _); [assumption|]. apply Inv_set_rto; [assumption|apply rto_ok_RTO].
  - apply Forall_app. split.
    + pose proof (i_oneshot _ HI) as Ho. induction Ho; cbn; constructor; auto. apply wf_seg_nil; assumption.
    + apply Forall_map_seg, Forall_filter, H1.
Qed.

(* ------------------------------------------------------------------ *)
(* initial states                                                      *)
Lemma Forall_nil' {A} (P : A -> Prop) : Forall P []. Proof. constructor. Qed.

Lemma tcb_open_inv lp rp iss mtu0 : u16 lp -> u16 rp -> u32 iss ->
  SPACE_FOR_HEADERS <= mtu0 <= 65535 -> Inv (tcb_open lp rp iss mtu0).
Proof.
  intros Hl Hr Hi Hm. unfold tcb_open.
  match goal with |- Inv (enqueue ?a _) => assert (H0 : Inv a) end.
  { constructor; tsimpl; try assumption; try apply wadd_u32; try apply Forall_nil';
      unfold u16, u32, M32, DEFAULT_WND, zlen, RTO, tw_ok; cbn; lia. }
  apply enqueue_inv; [exact H0|].
  apply hb_wnd_wf; [|unfold u16, DEFAULT_WND; lia]. apply hb_flag_wf. apply hb_wf; assumption.
Qed.

Lemma arrives_listen_inv s iss mtu0 t : wf_seg s -> u32 iss ->
  SPACE_FOR_HEADERS <= mtu0 <= 65535 -> arrives_listen s iss mtu0 = LTcb t -> Inv t.
Proof.
  intros [Hh Hl] Hi Hm. pose proof Hh as (Hsp & Hdp & Hseq & Hack & Hwnd & Hurg).
  unfold arrives_listen. repeat break_if; try discriminate.
  intros H; inversion H; subst; clear H.
  match goal with |- Inv (set_in_segs (enqueue ?a ?hh) _) => assert (H0 : Inv a) end.
  { constructor; tsimpl; try assumption; try apply wadd_u32; try apply Forall_nil';
      unfold u16, u32, M32, DEFAULT_WND, zlen, RTO, tw_ok; cbn; lia. }
  match goal with |- Inv (set_in_segs ?a _) => assert (H1 : Inv a) end.
  { apply enqueue_inv; [exact H0|].
    apply hb_wnd_wf; [|unfold u16, DEFAULT_WND; lia].
    apply hb_ack_wf; [|apply wadd_u32]. apply hb_flag_wf. apply hb_wf; assumption. }
  apply Inv_set_in_segs; [exact H1|].
  apply heap_push_Forall; [|apply H1].
  split; tsimpl; [|assumption]. unfold wf_hdr; tsimpl.
  exact (conj Hsp (conj Hdp (conj Hseq (conj Hack (conj Hwnd Hurg))))).
Qed.

(* ------------------------------------------------------------------ *)
(* arbitrary operation sequences                                       *)
Inductive op :=
| OpArrive (s : segment)
| OpSend (bytes : list Z)
| OpReceive
| OpClose
| OpTick (dt : Z)
| OpSegments.

Definition wf_op (o : op) : Prop :=
  match o with OpArrive s => wf_seg s | OpTick dt => 0 <= dt | _ => True end.

(* None: the TCB was deleted (SegmentArrivesResult::Close / AdvanceTimeResult::CloseConnection) *)
Definition apply_op (t : tcb) (o : op) : result (option tcb) :=
  match o with
  | OpArrive s =>
    match segment_arrives t s with
    | Ok (t', AOk) => Ok (Some t') | Ok (_, AClose) => Ok None
    | Err e => Err e | Panic p => Panic p | OutOfFuel => OutOfFuel
    end
  | OpSend b => Ok (Some (tcb_send t b))
  | OpReceive => Ok (Some (fst (tcb_receive t)))
  | OpClose => Ok (Some (fst (tcb_close t)))
  | OpTick dt =>
    match advance_time t dt with (t', TIgnore) => Ok (Some t') | (_, TCloseConnection) => Ok None end
  | OpSegments =>
    match tcb_segments t with
    | Ok (t', _) => Ok (Some t')
    | Err e => Err e | Panic p => Panic p | OutOfFuel => OutOfFuel
    end
  end.

Fixpoint run_ops (t : tcb) (ops : list op) : result (option tcb) :=
  match ops with
  | [] => Ok (Some t)
  | o :: rest =>
    match apply_op t o with
    | Ok (Some t') => run_ops t' rest
    | other => other
    end
  end.

Definition Inv_opt (o : option tcb) : Prop := match o with Some t => Inv t | None => True end.

Lemma apply_op_ok t o : Inv t -> wf_op o -> exists r, apply_op t o = Ok r /\ Inv_opt r.
Proof.
  intros HI Ho. destruct o; cbn [apply_op wf_op] in *.
  - destruct (segment_arrives_ok t s HI Ho) as (t' & r & -> & H'). destruct r; eexists; split; eauto; exact I.
  - eexists; split; [reflexivity|]. apply tcb_send_inv; assumption.
  - eexists; split; [reflexivity|]. apply tcb_receive_inv; assumption.
  - eexists; split; [reflexivity|]. apply tcb_close_inv; assumption.
  - pose proof (advance_time_inv t dt HI Ho) as H'.
    destruct (advance_time t dt) as [t' []]; eexists; split; eauto; exact I.
  - destruct (tcb_segments_ok t HI) as (t' & segs & -> & H' & _). eexists; split; eauto.
Qed.

Lemma run_ops_ok ops : forall t, Inv t -> Forall wf_op ops ->
  exists r, run_ops t ops = Ok r /\ Inv_opt r.
Proof.
  induction ops as [|o rest IH]; intros t HI Hops; cbn [run_ops].
  - eexists; split; [reflexivity|exact HI].
  - inversion Hops; subst.
    destruct (apply_op_ok t o HI) as (r & -> & Hr); [assumption|].
    destruct r as [t'|]; [apply IH; assumption|].
    eexists; split; [reflexivity|exact I].
Qed.

(* the invariant is satisfiable, and the hostile hypotheses too *)
Example Inv_open_example : Inv (tcb_open 1000 80 4294967295 1500).
Proof. apply tcb_open_inv; unfold u16, u32, M32, SPACE_FOR_HEADERS; lia. Qed.
