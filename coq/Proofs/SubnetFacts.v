(* Facts about Model/Subnet.v : masks, networks, ranges, CIDR text. *)
From Coq Require Import NArith ZifyBool Lia.
From Elvis Require Import Model.Base Model.Subnet.
Local Open Scope N_scope.
Ltac Zify.zify_post_hook ::= Z.div_mod_to_equations.

(* ------------------------------------------------------------------ finite sweeps over 0..32 *)

Definition upto (n : nat) : list N := map N.of_nat (seq 0 n).

Lemma in_upto k n : k < N.of_nat n -> In k (upto n).
Proof.
  intros H. unfold upto. apply in_map_iff. exists (N.to_nat k). split.
  - apply N2Nat.id.
  - apply in_seq. lia.
Qed.

Lemma sweep33 (p : N -> bool) :
  forallb p (upto 33) = true -> forall k, k <= 32 -> p k = true.
Proof.
  intros H k Hk. rewrite forallb_forall in H. apply H. apply in_upto. lia.
Qed.

Lemma sweep256 (p : N -> bool) :
  forallb p (upto 256) = true -> forall k, k <= 255 -> p k = true.
Proof.
  intros H k Hk. rewrite forallb_forall in H. apply H. apply in_upto. lia.
Qed.

(* ------------------------------------------------------------------ powers of two *)

Lemma two32_pow : two32 = 2 ^ 32.
Proof. reflexivity. Qed.

Lemma pow2_pos h : 0 < 2 ^ h.
Proof. apply N.neq_0_lt_0. apply N.pow_nonzero. discriminate. Qed.

Lemma pow2_le_two32 h : h <= 32 -> 2 ^ h <= two32.
Proof. intros H. rewrite two32_pow. apply N.pow_le_mono_r; [discriminate | exact H]. Qed.

Lemma pow2_split h : h <= 32 -> 2 ^ (32 - h) * 2 ^ h = two32.
Proof.
  intros H. rewrite <- N.pow_add_r. rewrite two32_pow. f_equal. lia.
Qed.

Lemma pow2_mono h h' : h <= h' -> 2 ^ h <= 2 ^ h'.
Proof. intros H. apply N.pow_le_mono_r; [discriminate | exact H]. Qed.

Lemma pow2_strict h h' : h < h' -> 2 ^ h < 2 ^ h'.
Proof. intros H. apply N.pow_lt_mono_r; [reflexivity | exact H]. Qed.

Lemma pow2_inj h h' : 2 ^ h = 2 ^ h' -> h = h'.
Proof.
  intros H. destruct (N.lt_trichotomy h h') as [L | [E | L]]; [| exact E |];
    apply pow2_strict in L; lia.
Qed.

(* a power of two divides every larger power of two *)
Lemma pow2_mod_pow2 h h' : h <= h' -> 2 ^ h' mod 2 ^ h = 0.
Proof.
  intros H. replace h' with ((h' - h) + h) by lia. rewrite N.pow_add_r.
  apply N.mod_mul. apply N.pow_nonzero. discriminate.
Qed.

(* ------------------------------------------------------------------ bits *)

Lemma testbit_high a n i : a < 2 ^ n -> n <= i -> N.testbit a i = false.
Proof.
  intros Ha Hi. destruct (N.eq_dec a 0) as [-> | Hz].
  - apply N.bits_0.
  - apply N.bits_above_log2. apply N.lt_le_trans with n; [| exact Hi].
    apply N.log2_lt_pow2; [lia | exact Ha].
Qed.

(* the mask with h host bits, as a shifted block of ones *)
Lemma hostmask_shift h : h <= 32 -> two32 - 2 ^ h = N.shiftl (N.ones (32 - h)) h.
Proof.
  intros H. rewrite N.shiftl_mul_pow2, N.ones_equiv, <- N.sub_1_r.
  rewrite N.mul_sub_distr_r, pow2_split by exact H. rewrite N.mul_1_l. reflexivity.
Qed.

Lemma testbit_hostmask h i : h <= 32 ->
  N.testbit (two32 - 2 ^ h) i = (h <=? i) && (i <? 32).
Proof.
  intros H. rewrite hostmask_shift by exact H.
  destruct (N.leb_spec h i) as [Hi | Hi].
  - rewrite N.shiftl_spec_high' by exact Hi.
    destruct (N.ltb_spec i 32) as [Hj | Hj].
    + apply N.ones_spec_low. lia.
    + apply N.ones_spec_high. lia.
  - rewrite N.shiftl_spec_low by exact Hi. reflexivity.
Qed.

(* and-ing with a prefix mask clears the host bits: the key bit-level fact, proved once *)
Lemma land_hostmask a h : a < two32 -> h <= 32 ->
  N.land a (two32 - 2 ^ h) = a - a mod 2 ^ h.
Proof.
  intros Ha H.
  assert (E : a - a mod 2 ^ h = N.shiftl (N.shiftr a h) h).
  { rewrite N.shiftl_mul_pow2, N.shiftr_div_pow2.
    pose proof (N.div_mod a (2 ^ h)) as D.
    assert (2 ^ h <> 0) by (apply N.pow_nonzero; discriminate).
    specialize (D H0). pose proof (N.mod_le a (2 ^ h) H0). nia. }
  rewrite E. apply N.bits_inj. intros i.
  rewrite N.land_spec, testbit_hostmask by exact H.
  destruct (N.leb_spec h i) as [Hi | Hi].
  - rewrite N.shiftl_spec_high' by exact Hi. rewrite N.shiftr_spec'.
    replace (i - h + h) with i by lia.
    destruct (N.ltb_spec i 32) as [Hj | Hj].
    + apply andb_true_r.
    + rewrite (testbit_high a 32 i); [reflexivity | exact Ha | exact Hj].
  - rewrite N.shiftl_spec_low by exact Hi. apply andb_false_r.
Qed.

Lemma not32_spec x : x < two32 -> not32 x = max32 - x.
Proof.
  intros Hx. unfold not32. rewrite N.lnot_sub_low.
  - reflexivity.
  - destruct (N.eq_dec x 0) as [-> | Hz]; [reflexivity |].
    apply N.log2_lt_pow2; [lia | exact Hx].
Qed.

Lemma not32_hostmask h : h <= 32 -> not32 (two32 - 2 ^ h) = 2 ^ h - 1.
Proof.
  intros H. pose proof (pow2_pos h). pose proof (pow2_le_two32 h H).
  rewrite not32_spec by lia. unfold max32, two32 in *. lia.
Qed.

(* ------------------------------------------------------------------ pure arithmetic on blocks *)

(* a multiple [b] of p equals "a with its remainder removed" exactly when a lies in [b, b+p) *)
Lemma block_membership a b p : 0 < p -> b mod p = 0 ->
  (b = a - a mod p <-> b <= a < b + p).
Proof.
  intros Hp Hb.
  assert (Hp0 : p <> 0) by lia.
  pose proof (N.div_mod a p Hp0) as Da.
  pose proof (N.mod_lt a p Hp0) as La.
  pose proof (N.div_mod b p Hp0) as Db. rewrite Hb, N.add_0_r in Db.
  split.
  - intros E. lia.
  - intros [L U].
    assert (Q : b / p = a / p).
    { apply (N.div_unique a p (b / p) (a - b)); lia. }
    rewrite Q in Db. lia.
Qed.

(* an aligned block below 2^32 ends below 2^32 *)
Lemma block_fits b h : h <= 32 -> b < two32 -> b mod 2 ^ h = 0 -> b + 2 ^ h <= two32.
Proof.
  intros H Hb Hm.
  assert (Hp0 : 2 ^ h <> 0) by (apply N.pow_nonzero; discriminate).
  pose proof (N.div_mod b (2 ^ h) Hp0) as Db. rewrite Hm, N.add_0_r in Db.
  pose proof (pow2_split h H) as S.
  assert (Q : b / 2 ^ h < 2 ^ (32 - h)).
  { apply N.mul_lt_mono_pos_l with (2 ^ h); [apply pow2_pos |]. lia. }
  assert (Q' : 2 ^ h * (b / 2 ^ h + 1) <= 2 ^ h * 2 ^ (32 - h)).
  { apply N.mul_le_mono_l. lia. }
  lia.
Qed.

Lemma sub_mod_aligned a p : p <> 0 -> (a - a mod p) mod p = 0.
Proof.
  intros Hp. pose proof (N.div_mod a p Hp) as D.
  pose proof (N.mod_le a p Hp) as L.
  replace (a - a mod p) with (a / p * p) by nia. apply N.mod_mul. exact Hp.
Qed.

(* ------------------------------------------------------------------ masks *)

(* the /k mask *)
Definition prefix_mask (k : N) : N := two32 - 2 ^ (32 - k).
Definition valid_mask (m : N) : Prop := exists k, k <= 32 /\ m = prefix_mask k.

Lemma prefix_mask_lt k : prefix_mask k < two32.
Proof. unfold prefix_mask. pose proof (pow2_pos (32 - k)). unfold two32 in *. lia. Qed.

Lemma prefix_mask_host h : h <= 32 -> prefix_mask (32 - h) = two32 - 2 ^ h.
Proof. intros H. unfold prefix_mask. replace (32 - (32 - h)) with h by lia. reflexivity. Qed.

Lemma prefix_mask_le k k' : k <= k' -> k' <= 32 -> prefix_mask k <= prefix_mask k'.
Proof.
  intros H H'. unfold prefix_mask.
  pose proof (pow2_mono (32 - k') (32 - k)). pose proof (pow2_le_two32 (32 - k)). lia.
Qed.

Lemma prefix_mask_lt_mono k k' : k < k' -> k' <= 32 -> prefix_mask k < prefix_mask k'.
Proof.
  intros H H'. unfold prefix_mask.
  pose proof (pow2_strict (32 - k') (32 - k)). pose proof (pow2_le_two32 (32 - k)). lia.
Qed.

Lemma prefix_mask_inj k k' : k <= 32 -> k' <= 32 -> prefix_mask k = prefix_mask k' -> k = k'.
Proof.
  intros H H' E. destruct (N.lt_trichotomy k k') as [L | [L | L]]; [| exact L |].
  - apply prefix_mask_lt_mono in L; lia.
  - apply prefix_mask_lt_mono in L; lia.
Qed.

Lemma clamp_spec n : clamp n 0 32 = Ok (N.min n 32).
Proof.
  unfold clamp. replace (32 <? 0) with false by reflexivity.
  replace (n <? 0) with false by (symmetry; apply N.ltb_ge; lia).
  destruct (N.ltb_spec 32 n) as [L | L]; f_equal; lia.
Qed.

Lemma from_bitcount_body_spec k : k <= 32 -> from_bitcount_body k = Ok (prefix_mask k).
Proof.
  intros H.
  pose (p := fun k => match from_bitcount_body k with
                      | Ok m => m =? prefix_mask k | _ => false end).
  assert (S : p k = true).
  { apply sweep33; [vm_compute; reflexivity | exact H]. }
  unfold p in S. destruct (from_bitcount_body k); try discriminate.
  apply N.eqb_eq in S. congruence.
Qed.

(* from_bitcount never panics and is the clamped prefix mask *)
Lemma from_bitcount_spec n : from_bitcount n = Ok (prefix_mask (N.min n 32)).
Proof.
  unfold from_bitcount. rewrite clamp_spec. cbn [bind].
  apply from_bitcount_body_spec. lia.
Qed.

Lemma popcount_prefix_mask k : k <= 32 -> popcount (prefix_mask k) = k.
Proof.
  intros H. apply N.eqb_eq.
  pose (p := fun k => popcount (prefix_mask k) =? k).
  change (p k = true). apply sweep33; [vm_compute; reflexivity | exact H].
Qed.

Lemma valid_mask_popcount m : valid_mask m -> m = prefix_mask (popcount m) /\ popcount m <= 32.
Proof.
  intros [k [Hk ->]]. rewrite popcount_prefix_mask by exact Hk. split; [reflexivity | exact Hk].
Qed.

Lemma valid_mask_prefix k : k <= 32 -> valid_mask (prefix_mask k).
Proof. intros H. exists k. split; [exact H | reflexivity]. Qed.

Lemma valid_mask_lt m : valid_mask m -> m < two32.
Proof. intros [k [_ ->]]. apply prefix_mask_lt. Qed.

(* on valid masks the numeric order IS the order of the lengths *)
Lemma valid_mask_le_popcount m m' : valid_mask m -> valid_mask m' ->
  (m <= m' <-> popcount m <= popcount m').
Proof.
  intros [k [Hk ->]] [k' [Hk' ->]]. rewrite !popcount_prefix_mask by assumption.
  split; intros H.
  - destruct (N.le_gt_cases k k') as [L | L]; [exact L |].
    apply prefix_mask_lt_mono in L; lia.
  - apply prefix_mask_le; assumption.
Qed.

Lemma valid_mask_popcount_inj m m' : valid_mask m -> valid_mask m' ->
  popcount m = popcount m' -> m = m'.
Proof.
  intros H H' E. apply valid_mask_popcount in H. apply valid_mask_popcount in H'.
  destruct H as [H _]. destruct H' as [H' _].
  transitivity (prefix_mask (popcount m)); [exact H |]. rewrite E. symmetry. exact H'.
Qed.

(* Ipv4Mask::try_from(u32) accepts exactly the prefix masks, returns its argument, never panics *)
Lemma mask_try_from_total m :
  (valid_mask m /\ mask_try_from m = Ok m) \/
  (~ valid_mask m /\ mask_try_from m = Err err_mask_invalid).
Proof.
  unfold mask_try_from. rewrite from_bitcount_spec. cbn [bind].
  destruct (N.eqb_spec (prefix_mask (N.min (popcount m) 32)) m) as [E | E].
  - left. split; [| congruence]. exists (N.min (popcount m) 32). split; [lia | congruence].
  - right. split; [| reflexivity]. intros V. apply E.
    apply valid_mask_popcount in V. destruct V as [V L].
    rewrite N.min_l by exact L. symmetry. exact V.
Qed.

Lemma mask_try_from_ok_iff m r : mask_try_from m = Ok r <-> r = m /\ valid_mask m.
Proof.
  destruct (mask_try_from_total m) as [[V E] | [V E]]; rewrite E; split.
  - intros H. inversion H. subst r. split; [reflexivity | exact V].
  - intros [-> _]. reflexivity.
  - discriminate.
  - intros [_ V']. contradiction.
Qed.

(* "no 0 between the 1s" : a valid mask is a u32 whose set bits are closed upwards *)
Definition upclosed (m : N) : Prop :=
  forall i j, i <= j -> j < 32 -> N.testbit m i = true -> N.testbit m j = true.

Lemma hostmask_of_bits m h : h <= 32 -> m < two32 ->
  (forall i, i < h -> N.testbit m i = false) ->
  (forall i, h <= i -> i < 32 -> N.testbit m i = true) ->
  m = two32 - 2 ^ h.
Proof.
  intros H Hm Lo Hi. apply N.bits_inj. intros i. rewrite testbit_hostmask by exact H.
  destruct (N.leb_spec h i) as [L | L].
  - destruct (N.ltb_spec i 32) as [L' | L'].
    + apply Hi; assumption.
    + apply (testbit_high m 32); assumption.
  - apply Lo. exact L.
Qed.

Lemma upclosed_valid_aux m : m < two32 -> upclosed m ->
  forall n : nat, (n <= 32)%nat ->
  (forall i, i < 32 - N.of_nat n -> N.testbit m i = false) -> valid_mask m.
Proof.
  intros Hm U. induction n as [| n IH]; intros Hn Lo.
  - exists 0. split; [lia |]. unfold prefix_mask. change (32 - 0) with 32.
    apply hostmask_of_bits; [lia | exact Hm | |].
    + intros i Hi. apply Lo. lia.
    + intros i L L'. lia.
  - destruct (N.testbit m (31 - N.of_nat n)) eqn:B.
    + exists (N.of_nat (S n)). split; [lia |].
      unfold prefix_mask. apply hostmask_of_bits; [lia | exact Hm | |].
      * intros i Hi. apply Lo. lia.
      * intros i L L'. apply (U (31 - N.of_nat n)); [lia | exact L' | exact B].
    + apply IH; [lia |]. intros i Hi.
      destruct (N.eq_dec i (31 - N.of_nat n)) as [-> | Ne]; [exact B |].
      apply Lo. lia.
Qed.

Lemma valid_mask_bits m : valid_mask m <-> m < two32 /\ upclosed m.
Proof.
  split.
  - intros [k [Hk ->]]. split; [apply prefix_mask_lt |].
    unfold upclosed, prefix_mask. intros i j Hij Hj.
    rewrite !testbit_hostmask by lia. intros B.
    apply andb_true_iff in B. destruct B as [B _]. apply N.leb_le in B.
    apply andb_true_iff. split; [apply N.leb_le; lia | apply N.ltb_lt; exact Hj].
  - intros [Hm U]. apply (upclosed_valid_aux m Hm U 32%nat); [lia |].
    intros i Hi. cbn in Hi. lia.
Qed.

(* ------------------------------------------------------------------ Ipv4Address byte view *)

Lemma be_bytes_nested a :
  to_be_bytes a = [a / 256 / 256 / 256; (a / 256 / 256) mod 256; (a / 256) mod 256; a mod 256].
Proof.
  unfold to_be_bytes. rewrite !N.div_div by discriminate. reflexivity.
Qed.

Lemma be_bytes_roundtrip a : a < two32 -> from_be_bytes (to_be_bytes a) = a.
Proof.
  rewrite be_bytes_nested. unfold two32, from_be_bytes. intros H.
  remember (a / 256) as x1. remember (x1 / 256) as x2. remember (x2 / 256) as x3.
  pose proof (N.div_mod a 256). pose proof (N.div_mod x1 256). pose proof (N.div_mod x2 256).
  lia.
Qed.

Lemma be_bytes_range a : a < two32 -> Forall (fun b => b < 256) (to_be_bytes a).
Proof.
  rewrite be_bytes_nested. unfold two32. intros H.
  remember (a / 256) as x1. remember (x1 / 256) as x2. remember (x2 / 256) as x3.
  pose proof (N.div_mod a 256). pose proof (N.div_mod x1 256). pose proof (N.div_mod x2 256).
  repeat constructor; lia.
Qed.

(* the derived (lexicographic) order on [u8;4] is the numeric order of the u32 *)
Lemma be_bytes_order a b : a < two32 -> b < two32 ->
  lex_compare (to_be_bytes a) (to_be_bytes b) = (a ?= b).
Proof.
  rewrite !be_bytes_nested. unfold two32. intros Ha Hb. cbn [lex_compare].
  remember (a / 256) as x1. remember (x1 / 256) as x2. remember (x2 / 256) as x3.
  remember (b / 256) as y1. remember (y1 / 256) as y2. remember (y2 / 256) as y3.
  pose proof (N.div_mod a 256). pose proof (N.div_mod x1 256). pose proof (N.div_mod x2 256).
  pose proof (N.div_mod b 256). pose proof (N.div_mod y1 256). pose proof (N.div_mod y2 256).
  destruct (N.compare_spec x3 y3) as [E0 | L0 | L0];
    [| symmetry; (apply N.compare_lt_iff || apply N.compare_gt_iff); lia ..].
  destruct (N.compare_spec (x2 mod 256) (y2 mod 256)) as [E1 | L1 | L1];
    [| symmetry; (apply N.compare_lt_iff || apply N.compare_gt_iff); lia ..].
  destruct (N.compare_spec (x1 mod 256) (y1 mod 256)) as [E2 | L2 | L2];
    [| symmetry; (apply N.compare_lt_iff || apply N.compare_gt_iff); lia ..].
  destruct (N.compare_spec (a mod 256) (b mod 256)) as [E3 | L3 | L3];
    symmetry; (apply N.compare_eq_iff || apply N.compare_lt_iff || apply N.compare_gt_iff); lia.
Qed.

(* ------------------------------------------------------------------ networks *)

(* Rust: n.mask().count_ones() *)
Definition masklen (n : net) : N := popcount (net_mask n).

(* the Ipv4Net values that the public constructors can build (fields are private):
   a prefix mask and an id whose host bits are clear *)
Definition wf_net (n : net) : Prop :=
  valid_mask (net_mask n) /\ net_id n < two32 /\ N.land (net_id n) (net_mask n) = net_id n.

Lemma net_eqb_eq a b : net_eqb a b = true <-> a = b.
Proof.
  destruct a as [i m], b as [i' m']. unfold net_eqb. cbn [net_id net_mask].
  rewrite andb_true_iff, !N.eqb_eq. split.
  - intros [-> ->]. reflexivity.
  - intros E. inversion E. split; reflexivity.
Qed.

Lemma net_eqb_refl a : net_eqb a a = true.
Proof. apply net_eqb_eq. reflexivity. Qed.

Lemma net_eq_dec (a b : net) : {a = b} + {a <> b}.
Proof.
  destruct (net_eqb a b) eqn:E.
  - left. apply net_eqb_eq. exact E.
  - right. intros H. apply net_eqb_eq in H. congruence.
Defined.

(* the host-bit view of a well-formed network *)
Lemma wf_net_host n : wf_net n ->
  exists h, h <= 32 /\ net_mask n = two32 - 2 ^ h /\ net_id n mod 2 ^ h = 0 /\
            net_id n + 2 ^ h <= two32 /\ masklen n = 32 - h.
Proof.
  intros [[k [Hk Hm]] [Hi Hl]]. exists (32 - k).
  assert (H : 32 - k <= 32) by lia.
  assert (Hm' : net_mask n = two32 - 2 ^ (32 - k)) by exact Hm.
  assert (Hz : net_id n mod 2 ^ (32 - k) = 0).
  { rewrite Hm', land_hostmask in Hl by assumption.
    assert (P : 2 ^ (32 - k) <> 0) by (apply N.pow_nonzero; discriminate).
    pose proof (N.mod_le (net_id n) _ P). lia. }
  split; [exact H |]. split; [exact Hm' |]. split; [exact Hz |]. split.
  - apply block_fits; assumption.
  - unfold masklen. rewrite Hm. rewrite popcount_prefix_mask by exact Hk. lia.
Qed.

Lemma wf_net_of_host i h : h <= 32 -> i < two32 -> i mod 2 ^ h = 0 ->
  wf_net (mkNet i (two32 - 2 ^ h)).
Proof.
  intros H Hi Hz. unfold wf_net. cbn [net_id net_mask]. split; [| split].
  - exists (32 - h). split; [lia |]. symmetry. apply prefix_mask_host. exact H.
  - exact Hi.
  - rewrite land_hostmask by assumption. rewrite Hz. lia.
Qed.

Lemma masklen_le32 n : wf_net n -> masklen n <= 32.
Proof. intros H. apply wf_net_host in H. destruct H as [h [? [? [? [? E]]]]]. lia. Qed.

(* Ipv4Net::new with a prefix mask *)
Lemma net_new_spec ip k : ip < two32 -> k <= 32 ->
  net_new ip (prefix_mask k) = mkNet (ip - ip mod 2 ^ (32 - k)) (prefix_mask k).
Proof.
  intros Hi Hk. unfold net_new. f_equal. unfold prefix_mask. apply land_hostmask; [exact Hi | lia].
Qed.

Lemma net_new_wf ip m : ip < two32 -> valid_mask m -> wf_net (net_new ip m).
Proof.
  intros Hi [k [Hk ->]]. rewrite net_new_spec by assumption.
  unfold prefix_mask. apply wf_net_of_host.
  - lia.
  - apply N.le_lt_trans with ip; [apply N.le_sub_l | exact Hi].
  - apply sub_mod_aligned. apply N.pow_nonzero. discriminate.
Qed.

Lemma net_new_masklen ip k : k <= 32 -> masklen (net_new ip (prefix_mask k)) = k.
Proof. intros H. unfold masklen, net_new. cbn [net_mask]. apply popcount_prefix_mask. exact H. Qed.

Lemma net_new_short_spec ip len : net_new_short ip len = Ok (net_new ip (prefix_mask (N.min len 32))).
Proof. unfold net_new_short. rewrite from_bitcount_spec. reflexivity. Qed.

Lemma net_new_short_wf ip len : ip < two32 ->
  exists n, net_new_short ip len = Ok n /\ wf_net n /\ masklen n = N.min len 32.
Proof.
  intros Hi. rewrite net_new_short_spec. eexists. split; [reflexivity |]. split.
  - apply net_new_wf; [exact Hi | apply valid_mask_prefix; lia].
  - apply net_new_masklen. lia.
Qed.

Lemma net_new_1_spec ip : net_new_1 ip = Ok (mkNet ip max32).
Proof. reflexivity. Qed.

Lemma net_new_1_wf ip : ip < two32 -> wf_net (mkNet ip max32).
Proof.
  intros Hi. change max32 with (two32 - 2 ^ 0). apply wf_net_of_host; [lia | exact Hi |].
  apply N.mod_1_r.
Qed.

(* new_1 is new(.., /32) *)
Lemma net_new_1_is_new ip : ip < two32 -> net_new ip (prefix_mask 32) = mkNet ip max32.
Proof.
  intros Hi. rewrite net_new_spec by (assumption || lia).
  change (2 ^ (32 - 32)) with 1. rewrite N.mod_1_r, N.sub_0_r. reflexivity.
Qed.

Lemma net_loopback_wf : exists n, net_loopback = Ok n /\ wf_net n.
Proof.
  eexists. split; [reflexivity |].
  change (wf_net (mkNet 2130706432 (two32 - 2 ^ 24))). apply wf_net_of_host; [lia | reflexivity | reflexivity].
Qed.

(* broadcast never overflows on a well-formed network; it is the last address of the block *)
Lemma broadcast_spec n : wf_net n ->
  exists h, h <= 32 /\ net_mask n = two32 - 2 ^ h /\ net_id n mod 2 ^ h = 0 /\
            broadcast n = Ok (net_id n + 2 ^ h - 1) /\ net_id n + 2 ^ h - 1 < two32.
Proof.
  intros W. destruct (wf_net_host n W) as [h [H [Hm [Hz [Hf _]]]]].
  exists h. split; [exact H |]. split; [exact Hm |]. split; [exact Hz |].
  pose proof (pow2_pos h) as P.
  unfold broadcast, add32. rewrite Hm, not32_hostmask by exact H.
  replace (net_id n + (2 ^ h - 1)) with (net_id n + 2 ^ h - 1) by lia.
  destruct (N.leb_spec two32 (net_id n + 2 ^ h - 1)) as [L | L]; [lia |].
  split; [reflexivity | exact L].
Qed.

Lemma broadcast_total n : wf_net n -> exists b, broadcast n = Ok b /\ net_id n <= b < two32.
Proof.
  intros W. destruct (broadcast_spec n W) as [h [_ [_ [_ [E L]]]]].
  eexists. split; [exact E |]. pose proof (pow2_pos h). lia.
Qed.

(* a network contains exactly the addresses from its id to its broadcast address *)
Lemma contains_iff_range n a b : wf_net n -> a < two32 -> broadcast n = Ok b ->
  (contains n a = true <-> net_id n <= a <= b).
Proof.
  intros W Ha Eb. destruct (broadcast_spec n W) as [h [H [Hm [Hz [E L]]]]].
  rewrite Eb in E. inversion E as [Eb']. clear E.
  unfold contains. rewrite N.eqb_eq, Hm, land_hostmask by assumption.
  pose proof (pow2_pos h) as P.
  rewrite (block_membership a (net_id n) (2 ^ h) P Hz). lia.
Qed.

(* uniqueness of the winner: two networks with the same mask that contain one address are equal *)
Lemma contains_same_mask n n' a :
  contains n a = true -> contains n' a = true -> net_mask n = net_mask n' -> n = n'.
Proof.
  destruct n as [i m], n' as [i' m']. unfold contains. cbn [net_id net_mask].
  rewrite !N.eqb_eq. intros -> -> ->. reflexivity.
Qed.

Lemma contains_same_len n n' a : wf_net n -> wf_net n' ->
  contains n a = true -> contains n' a = true -> masklen n = masklen n' -> n = n'.
Proof.
  intros [V _] [V' _] C C' E. apply (contains_same_mask n n' a C C').
  apply valid_mask_popcount_inj; assumption.
Qed.

(* every network contains its own id and its own broadcast address *)
Lemma contains_id n : wf_net n -> contains n (net_id n) = true.
Proof.
  intros W. destruct (broadcast_total n W) as [b [E [L U]]].
  apply (contains_iff_range n (net_id n) b W); [destruct W as [_ [W _]]; exact W | exact E | lia].
Qed.

(* overlaps is the intersection test of the two ranges, never panics, and two networks overlap
   exactly when some address is in both *)
Lemma overlaps_spec n1 n2 b1 b2 : wf_net n1 -> wf_net n2 ->
  broadcast n1 = Ok b1 -> broadcast n2 = Ok b2 ->
  overlaps n1 n2 = Ok ((net_id n1 <=? b2) && (net_id n2 <=? b1)).
Proof.
  intros W1 W2 E1 E2. unfold overlaps. rewrite E2. cbn [bind].
  destruct (net_id n1 <=? b2); [| reflexivity]. rewrite E1. reflexivity.
Qed.

Lemma overlaps_iff_ranges_meet n1 n2 b1 b2 : wf_net n1 -> wf_net n2 ->
  broadcast n1 = Ok b1 -> broadcast n2 = Ok b2 ->
  (overlaps n1 n2 = Ok true <-> exists x, net_id n1 <= x <= b1 /\ net_id n2 <= x <= b2).
Proof.
  intros W1 W2 E1 E2. rewrite (overlaps_spec n1 n2 b1 b2) by assumption.
  destruct (broadcast_total n1 W1) as [b1' [E1' R1]]. rewrite E1 in E1'. inversion E1'. subst b1'.
  destruct (broadcast_total n2 W2) as [b2' [E2' R2]]. rewrite E2 in E2'. inversion E2'. subst b2'.
  split.
  - intros H. inversion H as [H']. apply andb_true_iff in H'. destruct H' as [A B].
    apply N.leb_le in A. apply N.leb_le in B.
    exists (N.max (net_id n1) (net_id n2)). lia.
  - intros [x [[A B] [C D]]]. f_equal. apply andb_true_iff. split; apply N.leb_le; lia.
Qed.

Lemma overlaps_iff_common_address n1 n2 : wf_net n1 -> wf_net n2 ->
  (overlaps n1 n2 = Ok true <-> exists x, x < two32 /\ contains n1 x = true /\ contains n2 x = true).
Proof.
  intros W1 W2.
  destruct (broadcast_total n1 W1) as [b1 [E1 R1]]. destruct (broadcast_total n2 W2) as [b2 [E2 R2]].
  rewrite (overlaps_iff_ranges_meet n1 n2 b1 b2) by assumption. split.
  - intros [x [A B]]. exists x. assert (Hx : x < two32) by lia. split; [exact Hx |]. split.
    + apply (contains_iff_range n1 x b1); assumption.
    + apply (contains_iff_range n2 x b2); assumption.
  - intros [x [Hx [A B]]]. exists x. split.
    + apply (contains_iff_range n1 x b1); assumption.
    + apply (contains_iff_range n2 x b2); assumption.
Qed.

Lemma overlaps_total n1 n2 : wf_net n1 -> wf_net n2 -> exists r, overlaps n1 n2 = Ok r.
Proof.
  intros W1 W2.
  destruct (broadcast_total n1 W1) as [b1 [E1 _]]. destruct (broadcast_total n2 W2) as [b2 [E2 _]].
  eexists. apply (overlaps_spec n1 n2 b1 b2); assumption.
Qed.

Lemma overlaps_sym n1 n2 : wf_net n1 -> wf_net n2 -> overlaps n1 n2 = overlaps n2 n1.
Proof.
  intros W1 W2.
  destruct (broadcast_total n1 W1) as [b1 [E1 _]]. destruct (broadcast_total n2 W2) as [b2 [E2 _]].
  rewrite (overlaps_spec n1 n2 b1 b2), (overlaps_spec n2 n1 b2 b1) by assumption.
  rewrite andb_comm. reflexivity.
Qed.

(* ------------------------------------------------------------------ ranges -> networks *)

Lemma valid_mask_not32 d : d < two32 ->
  (valid_mask (not32 d) <-> exists h, h <= 32 /\ d + 1 = 2 ^ h).
Proof.
  intros Hd. rewrite not32_spec by exact Hd. split.
  - intros [k [Hk E]]. exists (32 - k). split; [lia |].
    unfold prefix_mask in E. pose proof (pow2_pos (32 - k)). pose proof (pow2_le_two32 (32 - k)).
    unfold max32, two32 in *. lia.
  - intros [h [H E]]. exists (32 - h). split; [lia |]. rewrite prefix_mask_host by exact H.
    unfold max32, two32 in *. lia.
Qed.

Lemma try_from_range_cases lo hi : lo < two32 -> hi < two32 ->
  (hi < lo /\ try_from_range lo hi = Err err_range_empty) \/
  (lo <= hi /\ (forall h, h <= 32 -> hi - lo + 1 <> 2 ^ h) /\
     try_from_range lo hi = Err err_range_size) \/
  (exists h, h <= 32 /\ lo <= hi /\ hi - lo + 1 = 2 ^ h /\ lo mod 2 ^ h <> 0 /\
     try_from_range lo hi = Err err_range_start) \/
  (exists h, h <= 32 /\ lo <= hi /\ hi - lo + 1 = 2 ^ h /\ lo mod 2 ^ h = 0 /\
     try_from_range lo hi = Ok (mkNet lo (two32 - 2 ^ h))).
Proof.
  intros Hlo Hhi. unfold try_from_range.
  destruct (N.ltb_spec hi lo) as [L | L]; [left; split; [exact L | reflexivity] | right].
  unfold sub32. replace (hi <? lo) with false by (symmetry; apply N.ltb_ge; exact L).
  cbn [bind].
  assert (Hd : hi - lo < two32) by lia.
  destruct (mask_try_from_total (not32 (hi - lo))) as [[V E] | [V E]]; rewrite E.
  - right. apply (valid_mask_not32 _ Hd) in V. destruct V as [h [H Eh]].
    assert (Em : not32 (hi - lo) = two32 - 2 ^ h).
    { rewrite not32_spec by exact Hd. pose proof (pow2_le_two32 h H). unfold max32, two32 in *. lia. }
    rewrite Em. unfold net_new. rewrite land_hostmask by assumption.
    assert (P0 : 2 ^ h <> 0) by (apply N.pow_nonzero; discriminate).
    pose proof (N.mod_le lo _ P0) as Ml. pose proof (N.mod_lt lo _ P0) as Mt.
    pose proof (sub_mod_aligned lo _ P0) as Al.
    remember (lo mod 2 ^ h) as r eqn:Er.
    set (i := lo - r) in *.
    assert (W : wf_net (mkNet i (two32 - 2 ^ h))).
    { apply wf_net_of_host; [exact H | unfold i; lia | exact Al]. }
    destruct (broadcast_spec _ W) as [h' [H' [Hm' [_ [Eb _]]]]].
    cbn [net_id net_mask] in Hm', Eb.
    assert (h' = h).
    { apply pow2_inj. pose proof (pow2_le_two32 h H). pose proof (pow2_le_two32 h' H'). lia. }
    subst h'. unfold net_range. rewrite Eb. cbn [bind fst snd net_id].
    destruct (N.eq_dec r 0) as [Z | Z].
    + right. exists h. split; [exact H |]. split; [exact L |]. split; [lia |].
      split; [rewrite <- Er; exact Z |].
      assert (Ei : i = lo) by (unfold i; lia). rewrite Ei.
      replace (lo + 2 ^ h - 1) with hi by lia. rewrite !N.eqb_refl. reflexivity.
    + left. exists h. split; [exact H |]. split; [exact L |]. split; [lia |].
      split; [rewrite <- Er; exact Z |].
      replace (i =? lo) with false by (symmetry; apply N.eqb_neq; unfold i; lia). reflexivity.
  - left. split; [exact L |]. split; [| reflexivity].
    intros h H Eh. apply V. apply (valid_mask_not32 _ Hd). exists h. split; [exact H | lia].
Qed.

(* an address range converts to a network exactly when it is an aligned power-of-two block,
   and then to that block *)
Lemma range_to_net_iff lo hi n : lo < two32 -> hi < two32 ->
  (try_from_range lo hi = Ok n <->
   exists h, h <= 32 /\ lo <= hi /\ hi - lo + 1 = 2 ^ h /\ lo mod 2 ^ h = 0 /\
             n = mkNet lo (two32 - 2 ^ h)).
Proof.
  intros Hlo Hhi.
  destruct (try_from_range_cases lo hi Hlo Hhi)
    as [[A E] | [[A [B E]] | [[h [H [A [B [C E]]]]] | [h [H [A [B [C E]]]]]]]]; rewrite E; split.
  - discriminate.
  - intros [h [_ [L _]]]. lia.
  - discriminate.
  - intros [h [H [_ [S _]]]]. exfalso. exact (B h H S).
  - discriminate.
  - intros [h' [H' [_ [S [Al _]]]]]. exfalso.
    assert (h' = h) by (apply pow2_inj; lia). subst h'. contradiction.
  - intros X. inversion X. exists h. repeat (split; try assumption).
  - intros [h' [H' [_ [S [Al ->]]]]].
    assert (h' = h) by (apply pow2_inj; lia). subst h'. reflexivity.
Qed.

Lemma try_from_range_never_panics lo hi : lo < two32 -> hi < two32 ->
  exists r, (try_from_range lo hi = Ok r \/ exists e, try_from_range lo hi = Err e).
Proof.
  intros Hlo Hhi.
  destruct (try_from_range_cases lo hi Hlo Hhi)
    as [[A E] | [[A [B E]] | [[h [H [A [B [C E]]]]] | [h [H [A [B [C E]]]]]]]]; rewrite E.
  - exists (mkNet 0 0). right. eexists. reflexivity.
  - exists (mkNet 0 0). right. eexists. reflexivity.
  - exists (mkNet 0 0). right. eexists. reflexivity.
  - eexists. left. reflexivity.
Qed.

(* the network of a range has that range, and every network's range converts back to it *)
Lemma range_of_net_roundtrip n b : wf_net n -> broadcast n = Ok b ->
  try_from_range (net_id n) b = Ok n.
Proof.
  intros W Eb. destruct (broadcast_spec n W) as [h [H [Hm [Hz [E L]]]]].
  rewrite Eb in E. inversion E as [Eb']. pose proof (pow2_pos h) as P.
  destruct W as [_ [Hi _]].
  apply range_to_net_iff; [exact Hi | lia |].
  exists h. split; [exact H |]. split; [lia |]. split; [lia |]. split; [exact Hz |].
  destruct n as [i m]. cbn [net_id net_mask] in *. congruence.
Qed.

(* ------------------------------------------------------------------ CIDR text *)

Definition no_digit_head (s : list N) : Prop :=
  match s with [] => True | c :: _ => is_digit c = false end.

Lemma span_digits_app ds rest : forallb is_digit ds = true -> no_digit_head rest ->
  span_digits (ds ++ rest) = (ds, rest).
Proof.
  induction ds as [| c ds IH]; intros D Hr.
  - cbn [app]. destruct rest as [| c r]; [reflexivity |].
    cbn [span_digits]. cbn [no_digit_head] in Hr. rewrite Hr. reflexivity.
  - cbn [forallb] in D. apply andb_true_iff in D. destruct D as [Dc Dr].
    cbn [app span_digits]. rewrite Dc, (IH Dr Hr). reflexivity.
Qed.

Definition render_ip (o1 o2 o3 o4 : N) : list N :=
  render_dec o1 ++ [ch_dot] ++ render_dec o2 ++ [ch_dot] ++ render_dec o3 ++ [ch_dot] ++ render_dec o4.

Lemma render_cidr_split o1 o2 o3 o4 len :
  render_cidr o1 o2 o3 o4 len = render_ip o1 o2 o3 o4 ++ ch_slash :: render_dec len.
Proof.
  unfold render_cidr, render_ip. repeat rewrite <- app_assoc. reflexivity.
Qed.

Lemma render_octet_ok v : v <= 255 ->
  forallb is_digit (render_dec v) = true /\ octet_of_digits (render_dec v) = Some v.
Proof.
  intros H.
  pose (p := fun v => forallb is_digit (render_dec v) &&
                      match octet_of_digits (render_dec v) with Some w => w =? v | None => false end).
  assert (S : p v = true) by (apply sweep256; [vm_compute; reflexivity | exact H]).
  unfold p in S. apply andb_true_iff in S. destruct S as [A B]. split; [exact A |].
  destruct (octet_of_digits (render_dec v)); [| discriminate]. apply N.eqb_eq in B. congruence.
Qed.

Lemma render_len_ok v : v <= 32 ->
  forallb is_digit (render_dec v) = true /\ parse_u32 (render_dec v) = Ok v.
Proof.
  intros H.
  pose (p := fun v => forallb is_digit (render_dec v) &&
                      match parse_u32 (render_dec v) with Ok w => w =? v | _ => false end).
  assert (S : p v = true) by (apply sweep33; [vm_compute; reflexivity | exact H]).
  unfold p in S. apply andb_true_iff in S. destruct S as [A B]. split; [exact A |].
  destruct (parse_u32 (render_dec v)); try discriminate. apply N.eqb_eq in B. congruence.
Qed.

Lemma read_octet_render v rest : v <= 255 -> no_digit_head rest ->
  read_octet (render_dec v ++ rest) = Some (v, rest).
Proof.
  intros H Hr. destruct (render_octet_ok v H) as [D O].
  unfold read_octet. rewrite (span_digits_app _ _ D Hr), O. reflexivity.
Qed.

Lemma parse_ipv4_render o1 o2 o3 o4 : o1 <= 255 -> o2 <= 255 -> o3 <= 255 -> o4 <= 255 ->
  parse_ipv4 (render_ip o1 o2 o3 o4) = Some (from_be_bytes [o1; o2; o3; o4]).
Proof.
  intros H1 H2 H3 H4. unfold parse_ipv4, render_ip.
  rewrite (read_octet_render o1) by (assumption || reflexivity).
  cbn [app expect_dot]. replace (ch_dot =? ch_dot) with true by reflexivity.
  rewrite (read_octet_render o2) by (assumption || reflexivity).
  cbn [app expect_dot]. replace (ch_dot =? ch_dot) with true by reflexivity.
  rewrite (read_octet_render o3) by (assumption || reflexivity).
  cbn [app expect_dot]. replace (ch_dot =? ch_dot) with true by reflexivity.
  rewrite <- (app_nil_r (render_dec o4)).
  rewrite (read_octet_render o4) by (assumption || exact I).
  reflexivity.
Qed.

Definition no_slash (s : list N) : bool := forallb (fun c => negb (c =? ch_slash)) s.

Lemma split_slash_app s r : no_slash s = true -> split_slash (s ++ ch_slash :: r) = (s, Some r).
Proof.
  induction s as [| c s IH]; intros Hs.
  - reflexivity.
  - unfold no_slash in Hs. cbn [forallb] in Hs. apply andb_true_iff in Hs. destruct Hs as [Hc Hs].
    cbn [app split_slash]. apply negb_true_iff in Hc. rewrite Hc, (IH Hs). reflexivity.
Qed.

Lemma split_slash_none s : no_slash s = true -> split_slash s = (s, None).
Proof.
  induction s as [| c s IH]; intros Hs.
  - reflexivity.
  - unfold no_slash in Hs. cbn [forallb] in Hs. apply andb_true_iff in Hs. destruct Hs as [Hc Hs].
    cbn [split_slash]. apply negb_true_iff in Hc. rewrite Hc, (IH Hs). reflexivity.
Qed.

Lemma digits_no_slash ds : forallb is_digit ds = true -> no_slash ds = true.
Proof.
  unfold no_slash. induction ds as [| c ds IH]; [reflexivity |].
  cbn [forallb]. intros D. apply andb_true_iff in D. destruct D as [Dc Dr].
  rewrite (IH Dr), andb_true_r. unfold is_digit, ch_slash in *. lia.
Qed.

Lemma no_slash_app a b : no_slash (a ++ b) = no_slash a && no_slash b.
Proof. unfold no_slash. apply forallb_app. Qed.

Lemma render_ip_no_slash o1 o2 o3 o4 : o1 <= 255 -> o2 <= 255 -> o3 <= 255 -> o4 <= 255 ->
  no_slash (render_ip o1 o2 o3 o4) = true.
Proof.
  intros H1 H2 H3 H4. unfold render_ip. rewrite !no_slash_app.
  rewrite (digits_no_slash (render_dec o1)) by (apply render_octet_ok; assumption).
  rewrite (digits_no_slash (render_dec o2)) by (apply render_octet_ok; assumption).
  rewrite (digits_no_slash (render_dec o3)) by (apply render_octet_ok; assumption).
  rewrite (digits_no_slash (render_dec o4)) by (apply render_octet_ok; assumption).
  reflexivity.
Qed.

(* CIDR text parses to the network it denotes: the canonical text of a.b.c.d/len *)
Lemma cidr_to_ip_denotes o1 o2 o3 o4 len :
  o1 <= 255 -> o2 <= 255 -> o3 <= 255 -> o4 <= 255 -> len <= 32 ->
  cidr_to_ip (render_cidr o1 o2 o3 o4 len) = Ok (from_be_bytes [o1; o2; o3; o4], prefix_mask len).
Proof.
  intros H1 H2 H3 H4 Hl. rewrite render_cidr_split. unfold cidr_to_ip.
  rewrite split_slash_app by (apply render_ip_no_slash; assumption).
  destruct (render_len_ok len Hl) as [D P].
  rewrite (split_slash_none _ (digits_no_slash _ D)).
  rewrite parse_ipv4_render by assumption. rewrite P. cbn [bind].
  rewrite from_bitcount_spec. rewrite N.min_l by exact Hl. reflexivity.
Qed.

Lemma from_be_bytes_lt o1 o2 o3 o4 : o1 <= 255 -> o2 <= 255 -> o3 <= 255 -> o4 <= 255 ->
  from_be_bytes [o1; o2; o3; o4] < two32.
Proof. unfold from_be_bytes, two32. lia. Qed.

Lemma from_cidr_denotes o1 o2 o3 o4 len :
  o1 <= 255 -> o2 <= 255 -> o3 <= 255 -> o4 <= 255 -> len <= 32 ->
  let ip := from_be_bytes [o1; o2; o3; o4] in
  from_cidr (render_cidr o1 o2 o3 o4 len) = Ok (mkNet (ip - ip mod 2 ^ (32 - len)) (prefix_mask len)).
Proof.
  intros H1 H2 H3 H4 Hl ip. unfold from_cidr. rewrite cidr_to_ip_denotes by assumption.
  cbn [bind fst snd]. rewrite net_new_spec; [reflexivity | | exact Hl].
  apply from_be_bytes_lt; assumption.
Qed.

(* whatever text is accepted, the result is an address and a prefix mask; the parser never panics *)
Lemma octet_of_digits_le ds v : octet_of_digits ds = Some v -> v <= 255.
Proof.
  unfold octet_of_digits. destruct ds as [| c r]; [discriminate |].
  destruct (3 <? length (c :: r))%nat; [discriminate |].
  destruct ((c =? ch_zero) && negb (length r =? 0)%nat); [discriminate |].
  destruct (N.ltb_spec 255 (dec_value (c :: r))) as [L | L]; [discriminate |].
  intros E. inversion E. subst v. exact L.
Qed.

Lemma read_octet_le s v r : read_octet s = Some (v, r) -> v <= 255.
Proof.
  unfold read_octet. destruct (span_digits s) as [ds rest].
  destruct (octet_of_digits ds) eqn:O; [| discriminate].
  intros E. inversion E. subst. apply (octet_of_digits_le ds). exact O.
Qed.

Lemma parse_ipv4_lt s ip : parse_ipv4 s = Some ip -> ip < two32.
Proof.
  unfold parse_ipv4.
  destruct (read_octet s) as [[o1 s1] |] eqn:R1; [| discriminate].
  destruct (expect_dot s1) as [s1' |]; [| discriminate].
  destruct (read_octet s1') as [[o2 s2] |] eqn:R2; [| discriminate].
  destruct (expect_dot s2) as [s2' |]; [| discriminate].
  destruct (read_octet s2') as [[o3 s3] |] eqn:R3; [| discriminate].
  destruct (expect_dot s3) as [s3' |]; [| discriminate].
  destruct (read_octet s3') as [[o4 s4] |] eqn:R4; [| discriminate].
  destruct s4; [| discriminate].
  intros E. inversion E. apply from_be_bytes_lt; eapply read_octet_le; eassumption.
Qed.

Lemma parse_digits_no_panic ds acc :
  (exists v, parse_digits ds acc = Ok v) \/ (exists e, parse_digits ds acc = Err e).
Proof.
  revert acc. induction ds as [| c r IH]; intros acc; cbn [parse_digits].
  - left. eexists. reflexivity.
  - destruct (negb (is_digit c)); [right; eexists; reflexivity |].
    destruct (max32 <? acc * 10); [right; eexists; reflexivity |].
    destruct (max32 <? acc * 10 + digit_val c); [right; eexists; reflexivity |].
    apply IH.
Qed.

Lemma parse_u32_no_panic s :
  (exists v, parse_u32 s = Ok v) \/ (exists e, parse_u32 s = Err e).
Proof.
  unfold parse_u32. destruct s as [| c r]; [right; eexists; reflexivity |].
  destruct r as [| c' r'].
  - destruct ((c =? ch_plus) || (c =? ch_minus)); [right; eexists; reflexivity |].
    apply parse_digits_no_panic.
  - destruct (c =? ch_plus); apply parse_digits_no_panic.
Qed.

Lemma cidr_to_ip_sound s :
  (exists ip m, cidr_to_ip s = Ok (ip, m) /\ ip < two32 /\ valid_mask m) \/
  (exists e, cidr_to_ip s = Err e).
Proof.
  unfold cidr_to_ip. destruct (split_slash s) as [ip_str rest].
  destruct rest as [r |]; [| right; eexists; reflexivity].
  destruct (split_slash r) as [mask_str rest'].
  destruct (parse_ipv4 ip_str) as [ip |] eqn:P; [| right; eexists; reflexivity].
  destruct (parse_u32_no_panic mask_str) as [[v E] | [e E]]; rewrite E; cbn [bind].
  - left. rewrite from_bitcount_spec. cbn [bind]. exists ip, (prefix_mask (N.min v 32)).
    split; [reflexivity |]. split; [apply (parse_ipv4_lt ip_str); exact P |].
    apply valid_mask_prefix. lia.
  - right. eexists. reflexivity.
Qed.

Lemma from_cidr_sound s :
  (exists n, from_cidr s = Ok n /\ wf_net n) \/ (exists e, from_cidr s = Err e).
Proof.
  unfold from_cidr. destruct (cidr_to_ip_sound s) as [[ip [m [E [Hi V]]]] | [e E]]; rewrite E; cbn [bind].
  - left. eexists. split; [reflexivity |]. cbn [fst snd]. apply net_new_wf; assumption.
  - right. eexists. reflexivity.
Qed.

(* ------------------------------------------------------------------ statements in terms of the mask length *)

Lemma wf_net_aligned n : wf_net n ->
  net_mask n = prefix_mask (masklen n) /\ net_id n mod 2 ^ (32 - masklen n) = 0.
Proof.
  intros W. destruct (wf_net_host n W) as [h [H [Hm [Hz [_ El]]]]].
  assert (E : 32 - masklen n = h) by lia. rewrite E. split; [| exact Hz].
  rewrite El. rewrite prefix_mask_host by exact H. exact Hm.
Qed.

Lemma broadcast_block n : wf_net n ->
  broadcast n = Ok (net_id n + 2 ^ (32 - masklen n) - 1).
Proof.
  intros W. destruct (wf_net_host n W) as [h [H [Hm [_ [_ El]]]]].
  destruct (broadcast_spec n W) as [h' [H' [Hm' [_ [E _]]]]].
  assert (h' = h).
  { apply pow2_inj. pose proof (pow2_le_two32 h H). pose proof (pow2_le_two32 h' H'). lia. }
  subst h'. replace (32 - masklen n) with h by lia. exact E.
Qed.

Lemma mask_try_from_never_panics m :
  mask_try_from m = Ok m \/ mask_try_from m = Err err_mask_invalid.
Proof. destruct (mask_try_from_total m) as [[_ E] | [_ E]]; [left | right]; exact E. Qed.

(* ------------------------------------------------------------------ the hypotheses are satisfiable *)

Example wf_net_example : wf_net (mkNet 167772160 (prefix_mask 8)).   (* 10.0.0.0/8 *)
Proof.
  change (prefix_mask 8) with (two32 - 2 ^ 24). apply wf_net_of_host; [lia | reflexivity | reflexivity].
Qed.

Example range_example : try_from_range 167772160 184549375 = Ok (mkNet 167772160 (prefix_mask 8)).
Proof. reflexivity. Qed.

(* ------------------------------------------------------------------ observed leniencies of cidr_to_ip
   (outside the property: these texts are not CIDR notation, yet they are accepted)
   "1.2.3.4/33" -> /32 (length clamped), "1.2.3.4/8/x" -> /8 (parts after the second are ignored),
   "1.2.3.4/+8" -> /8 (sign accepted), "1.2.3.4/008" -> /8 *)
Lemma cidr_leniencies :
  cidr_to_ip [49;46;50;46;51;46;52;47;51;51] = Ok (16909060, prefix_mask 32) /\
  cidr_to_ip [49;46;50;46;51;46;52;47;56;47;120] = Ok (16909060, prefix_mask 8) /\
  cidr_to_ip [49;46;50;46;51;46;52;47;43;56] = Ok (16909060, prefix_mask 8) /\
  cidr_to_ip [49;46;50;46;51;46;52;47;48;48;56] = Ok (16909060, prefix_mask 8).
Proof. repeat split; reflexivity. Qed.
