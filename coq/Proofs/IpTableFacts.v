(* Facts about Model/IpTable.v : the comparator is a lawful strict order, the table is a finite
   map whatever the history, lookup is longest-prefix match. *)
From Coq Require Import NArith ZifyBool Lia.
From Elvis Require Import Model.Base Model.Subnet Model.IpTable Proofs.SubnetFacts.
Local Open Scope N_scope.

(* ------------------------------------------------------------------ Obm::cmp is a lawful order *)

Lemma obm_cmp_eq a b : obm_cmp a b = Eq <-> a = b.
Proof.
  destruct a as [i m], b as [i' m']. unfold obm_cmp. cbn [net_id net_mask].
  destruct (N.compare_spec m m') as [E | L | L].
  - rewrite N.compare_eq_iff. split.
    + intros ->. subst. reflexivity.
    + intros X. inversion X. reflexivity.
  - split; [discriminate | intros X; inversion X; lia].
  - split; [discriminate | intros X; inversion X; lia].
Qed.

Lemma obm_cmp_refl a : obm_cmp a a = Eq.
Proof. apply obm_cmp_eq. reflexivity. Qed.

Lemma obm_cmp_antisym a b : obm_cmp b a = CompOpp (obm_cmp a b).
Proof.
  unfold obm_cmp. rewrite (N.compare_antisym (net_mask b) (net_mask a)).
  destruct (net_mask b ?= net_mask a); cbn [CompOpp]; try reflexivity.
  apply N.compare_antisym.
Qed.

Lemma obm_lt_trans a b c : obm_cmp a b = Lt -> obm_cmp b c = Lt -> obm_cmp a c = Lt.
Proof.
  unfold obm_cmp.
  destruct (N.compare_spec (net_mask a) (net_mask b)) as [E1 | L1 | L1]; try discriminate;
  destruct (N.compare_spec (net_mask b) (net_mask c)) as [E2 | L2 | L2]; try discriminate;
  destruct (N.compare_spec (net_mask a) (net_mask c)) as [E3 | L3 | L3]; try lia; try reflexivity.
  rewrite !N.compare_lt_iff. lia.
Qed.

(* an entry that does not come later in the map order has a mask at least as large *)
Lemma obm_not_gt_mask a b : obm_cmp a b <> Gt -> net_mask b <= net_mask a.
Proof.
  unfold obm_cmp. destruct (N.compare_spec (net_mask a) (net_mask b)) as [E | L | L]; intros H.
  - lia.
  - contradiction.
  - lia.
Qed.

Lemma obm_lt_neqb a b : obm_cmp a b = Lt -> net_eqb a b = false.
Proof.
  intros H. destruct (net_eqb a b) eqn:E; [| reflexivity].
  apply net_eqb_eq in E. subst. rewrite obm_cmp_refl in H. discriminate.
Qed.

Lemma net_eqb_sym a b : net_eqb a b = net_eqb b a.
Proof.
  destruct (net_eqb a b) eqn:E; symmetry.
  - apply net_eqb_eq in E. subst. apply net_eqb_refl.
  - destruct (net_eqb b a) eqn:E'; [| reflexivity].
    apply net_eqb_eq in E'. subst. rewrite net_eqb_refl in E. discriminate.
Qed.

Section Facts.
  Context {V : Type}.
  Implicit Types (t r : table V) (k n : net) (v : V).

  (* ---------------------------------------------------------------- the table as a finite map *)

  Fixpoint find t k : option V :=
    match t with
    | [] => None
    | (k', v) :: r => if net_eqb k k' then Some v else find r k
    end.

  Definition all_after k t : Prop := forall k' v', In (k', v') t -> obm_cmp k k' = Lt.

  Fixpoint sorted t : Prop :=
    match t with
    | [] => True
    | (k, _) :: r => all_after k r /\ sorted r
    end.

  Definition keys_wf t : Prop := forall k v, In (k, v) t -> wf_net k.

  (* what every reachable table satisfies *)
  Definition tbl_inv t : Prop := sorted t /\ keys_wf t.

  Lemma tbl_inv_nil : tbl_inv [].
  Proof. split; [exact I | intros k v []]. Qed.

  Lemma find_all_after t k : all_after k t -> find t k = None.
  Proof.
    induction t as [| [k0 v0] r IH]; intros A; [reflexivity |].
    cbn [find]. rewrite (obm_lt_neqb k k0) by (apply (A k0 v0); left; reflexivity).
    apply IH. intros k' v' H. apply (A k' v'). right. exact H.
  Qed.

  Lemma all_after_trans k k0 t : obm_cmp k k0 = Lt -> all_after k0 t -> all_after k t.
  Proof. intros L A k' v' H. apply (obm_lt_trans k k0 k' L). apply (A k' v' H). Qed.

  Lemma find_in t k v : sorted t -> (find t k = Some v <-> In (k, v) t).
  Proof.
    induction t as [| [k0 v0] r IH]; intros S.
    - split; [discriminate | intros []].
    - destruct S as [A S]. cbn [find In]. destruct (net_eqb k k0) eqn:E.
      + apply net_eqb_eq in E. subst k0. split.
        * intros X. inversion X. left. reflexivity.
        * intros [X | X]; [inversion X; reflexivity |].
          apply A in X. rewrite obm_cmp_refl in X. discriminate.
      + rewrite (IH S). split.
        * intros X. right. exact X.
        * intros [X | X]; [| exact X]. inversion X. subst.
          rewrite net_eqb_refl in E. discriminate.
  Qed.

  (* two ordered tables that agree as maps are the same list: the table is a function of the
     finite map it represents, hence independent of the order of the history *)
  Lemma sorted_ext t1 t2 : sorted t1 -> sorted t2 ->
    (forall k, find t1 k = find t2 k) -> t1 = t2.
  Proof.
    revert t2. induction t1 as [| [k1 v1] r1 IH]; intros t2 S1 S2 F.
    - destruct t2 as [| [k2 v2] r2]; [reflexivity |].
      specialize (F k2). cbn [find] in F. rewrite net_eqb_refl in F. discriminate.
    - destruct t2 as [| [k2 v2] r2].
      + specialize (F k1). cbn [find] in F. rewrite net_eqb_refl in F. discriminate.
      + destruct S1 as [A1 S1]. destruct S2 as [A2 S2].
        destruct (obm_cmp k1 k2) eqn:C.
        * apply obm_cmp_eq in C. subst k2.
          pose proof (F k1) as F1. cbn [find] in F1. rewrite net_eqb_refl in F1. inversion F1. subst v2.
          f_equal. apply IH; try assumption. intros k. specialize (F k). cbn [find] in F.
          destruct (net_eqb k k1) eqn:E; [| exact F].
          apply net_eqb_eq in E. subst k.
          rewrite (find_all_after r1 k1 A1), (find_all_after r2 k1 A2). reflexivity.
        * exfalso. pose proof (F k1) as F1. cbn [find] in F1. rewrite net_eqb_refl in F1.
          rewrite (obm_lt_neqb k1 k2 C) in F1.
          rewrite (find_all_after r2 k1 (all_after_trans k1 k2 r2 C A2)) in F1. discriminate.
        * exfalso. assert (C' : obm_cmp k2 k1 = Lt) by (rewrite obm_cmp_antisym, C; reflexivity).
          pose proof (F k2) as F2. cbn [find] in F2. rewrite net_eqb_refl in F2.
          rewrite (obm_lt_neqb k2 k1 C') in F2.
          rewrite (find_all_after r1 k2 (all_after_trans k2 k1 r1 C' A1)) in F2. discriminate.
  Qed.

  (* ---- BTreeMap::insert *)

  Lemma insert_in k v t k' v' :
    In (k', v') (snd (tbl_insert k v t)) -> (k', v') = (k, v) \/ In (k', v') t.
  Proof.
    induction t as [| [k0 v0] r IH]; cbn [tbl_insert].
    - cbn [snd In]. intros [X | []]. left. symmetry. exact X.
    - destruct (obm_cmp k k0) eqn:C.
      + apply obm_cmp_eq in C. subst k0. cbn [snd In]. intros [X | X].
        * left. symmetry. exact X.
        * right. right. exact X.
      + cbn [snd In]. intros [X | X]; [left; symmetry; exact X | right; exact X].
      + destruct (tbl_insert k v r) as [o r'] eqn:R. cbn [snd] in *. cbn [In]. intros [X | X].
        * right. left. exact X.
        * destruct (IH X) as [Y | Y]; [left; exact Y | right; right; exact Y].
  Qed.

  Lemma insert_sorted k v t : sorted t -> sorted (snd (tbl_insert k v t)).
  Proof.
    induction t as [| [k0 v0] r IH]; intros S; cbn [tbl_insert].
    - cbn. split; [intros k' v' [] | exact I].
    - destruct S as [A S]. destruct (obm_cmp k k0) eqn:C.
      + cbn [snd sorted]. split; assumption.
      + cbn [snd]. cbn [sorted]. split; [| split; assumption].
        intros k' v' [X | X].
        * inversion X. subst. exact C.
        * apply (obm_lt_trans k k0 k' C). apply (A k' v' X).
      + pose proof (insert_in k v r) as I'. specialize (IH S).
        destruct (tbl_insert k v r) as [o r'] eqn:R. cbn [snd] in *. cbn [sorted].
        split; [| exact IH]. intros k' v' X. destruct (I' k' v' X) as [Y | Y].
        * inversion Y. subst. rewrite obm_cmp_antisym, C. reflexivity.
        * apply (A k' v' Y).
  Qed.

  Lemma insert_find k v t k' :
    find (snd (tbl_insert k v t)) k' = if net_eqb k' k then Some v else find t k'.
  Proof.
    induction t as [| [k0 v0] r IH]; cbn [tbl_insert].
    - reflexivity.
    - destruct (obm_cmp k k0) eqn:C.
      + apply obm_cmp_eq in C. subst k0. cbn [snd find]. destruct (net_eqb k' k); reflexivity.
      + reflexivity.
      + destruct (tbl_insert k v r) as [o r'] eqn:R. cbn [snd] in *. cbn [find]. rewrite IH.
        destruct (net_eqb k' k0) eqn:E0; [| reflexivity].
        destruct (net_eqb k' k) eqn:E; [| reflexivity].
        apply net_eqb_eq in E0. apply net_eqb_eq in E. subst. rewrite obm_cmp_refl in C. discriminate.
  Qed.

  (* insert returns the value previously bound to the key *)
  Lemma insert_fst k v t : sorted t -> fst (tbl_insert k v t) = find t k.
  Proof.
    induction t as [| [k0 v0] r IH]; intros S; cbn [tbl_insert].
    - reflexivity.
    - destruct S as [A S]. destruct (obm_cmp k k0) eqn:C.
      + apply obm_cmp_eq in C. subst k0. cbn [fst find]. rewrite net_eqb_refl. reflexivity.
      + cbn [fst]. symmetry. apply find_all_after. intros k' v' [X | X].
        * inversion X. subst. exact C.
        * apply (obm_lt_trans k k0 k' C). apply (A k' v' X).
      + specialize (IH S). destruct (tbl_insert k v r) as [o r'] eqn:R. cbn [fst] in *. cbn [find].
        destruct (net_eqb k k0) eqn:E; [| exact IH].
        apply net_eqb_eq in E. subst. rewrite obm_cmp_refl in C. discriminate.
  Qed.

  (* ---- BTreeMap::remove *)

  Lemma delete_in k t k' v' : In (k', v') (snd (tbl_delete k t)) -> In (k', v') t.
  Proof.
    induction t as [| [k0 v0] r IH]; cbn [tbl_delete].
    - intros [].
    - destruct (obm_cmp k k0) eqn:C.
      + cbn [snd]. intros X. right. exact X.
      + cbn [snd]. intros X. exact X.
      + destruct (tbl_delete k r) as [o r'] eqn:R. cbn [snd] in *. cbn [In]. intros [X | X].
        * left. exact X.
        * right. apply IH. exact X.
  Qed.

  Lemma delete_sorted k t : sorted t -> sorted (snd (tbl_delete k t)).
  Proof.
    induction t as [| [k0 v0] r IH]; intros S; cbn [tbl_delete].
    - exact I.
    - destruct S as [A S]. destruct (obm_cmp k k0) eqn:C.
      + cbn [snd]. exact S.
      + cbn [snd sorted]. split; assumption.
      + pose proof (delete_in k r) as I'. specialize (IH S).
        destruct (tbl_delete k r) as [o r'] eqn:R. cbn [snd] in *. cbn [sorted].
        split; [| exact IH]. intros k' v' X. apply (A k' v'). apply I'. exact X.
  Qed.

  Lemma delete_find k t k' : sorted t ->
    find (snd (tbl_delete k t)) k' = if net_eqb k' k then None else find t k'.
  Proof.
    induction t as [| [k0 v0] r IH]; intros S; cbn [tbl_delete].
    - cbn. destruct (net_eqb k' k); reflexivity.
    - destruct S as [A S]. destruct (obm_cmp k k0) eqn:C.
      + apply obm_cmp_eq in C. subst k0. cbn [snd find].
        destruct (net_eqb k' k) eqn:E; [| reflexivity].
        apply net_eqb_eq in E. subst k'. apply find_all_after. exact A.
      + cbn [snd]. destruct (net_eqb k' k) eqn:E; [| reflexivity].
        apply net_eqb_eq in E. subst k'. apply find_all_after. intros k' v' [X | X].
        * inversion X. subst. exact C.
        * apply (obm_lt_trans k k0 k' C). apply (A k' v' X).
      + specialize (IH S). destruct (tbl_delete k r) as [o r'] eqn:R. cbn [snd] in *. cbn [find].
        rewrite IH. destruct (net_eqb k' k0) eqn:E0; [| reflexivity].
        destruct (net_eqb k' k) eqn:E; [| reflexivity].
        apply net_eqb_eq in E0. apply net_eqb_eq in E. subst. rewrite obm_cmp_refl in C. discriminate.
  Qed.

  Lemma delete_fst k t : sorted t -> fst (tbl_delete k t) = find t k.
  Proof.
    induction t as [| [k0 v0] r IH]; intros S; cbn [tbl_delete].
    - reflexivity.
    - destruct S as [A S]. destruct (obm_cmp k k0) eqn:C.
      + apply obm_cmp_eq in C. subst k0. cbn [fst find]. rewrite net_eqb_refl. reflexivity.
      + cbn [fst]. symmetry. apply find_all_after. intros k' v' [X | X].
        * inversion X. subst. exact C.
        * apply (obm_lt_trans k k0 k' C). apply (A k' v' X).
      + specialize (IH S). destruct (tbl_delete k r) as [o r'] eqn:R. cbn [fst] in *. cbn [find].
        destruct (net_eqb k k0) eqn:E; [| exact IH].
        apply net_eqb_eq in E. subst. rewrite obm_cmp_refl in C. discriminate.
  Qed.

  Lemma insert_inv k v t : tbl_inv t -> wf_net k -> tbl_inv (snd (tbl_insert k v t)).
  Proof.
    intros [S W] Wk. split; [apply insert_sorted; exact S |].
    intros k' v' X. apply insert_in in X. destruct X as [X | X].
    - inversion X. subst. exact Wk.
    - apply (W k' v' X).
  Qed.

  Lemma delete_inv k t : tbl_inv t -> tbl_inv (snd (tbl_delete k t)).
  Proof.
    intros [S W]. split; [apply delete_sorted; exact S |].
    intros k' v' X. apply delete_in in X. apply (W k' v' X).
  Qed.

  (* ---------------------------------------------------------------- histories *)

  Definition fmap : Type := net -> option V.
  Definition fempty : fmap := fun _ => None.
  Definition upd (m : fmap) (k : net) (o : option V) : fmap :=
    fun k' => if net_eqb k' k then o else m k'.

  (* the /32 network of an address *)
  Definition direct_net (a : N) : net := mkNet a max32.

  (* the finite-map meaning of each public mutator *)
  Definition denote_step (m : fmap) (o : op V) : fmap :=
    match o with
    | OAdd n v => upd m n (Some v)
    | ORemove n => upd m n None
    | OAddDirect a v => upd m (direct_net a) (Some v)
    | ORemoveDirect a => upd m (direct_net a) None
    | OAddCidr s v => match from_cidr s with Ok n => upd m n (Some v) | _ => m end
    | ORemoveCidr s => match from_cidr s with Ok n => upd m n None | _ => m end
    end.

  Definition denote (ops : list (op V)) (m : fmap) : fmap := fold_left denote_step ops m.

  (* arguments a caller can actually pass: constructible networks, u32 addresses, and (for
     remove_cidr, which panics by contract otherwise) well-formed text *)
  Definition op_ok (o : op V) : Prop :=
    match o with
    | OAdd n _ | ORemove n => wf_net n
    | OAddDirect a _ | ORemoveDirect a => a < two32
    | OAddCidr _ _ => True
    | ORemoveCidr s => exists n, from_cidr s = Ok n
    end.

  (* what the call hands back to its caller *)
  Definition returned (t : table V) (o : op V) : option V :=
    match o with
    | OAdd n _ | ORemove n => find t n
    | ORemoveDirect a => find t (direct_net a)
    | _ => None
    end.

  Lemma direct_net_is_new a : a < two32 -> net_new a max32 = direct_net a.
  Proof. intros H. apply (net_new_1_is_new a H). Qed.

  Lemma step_obs_spec t o : tbl_inv t -> op_ok o ->
    exists t', step_obs t o = Ok (t', returned t o) /\ tbl_inv t' /\
               forall k, find t' k = denote_step (find t) o k.
  Proof.
    intros Inv Ok_o. pose proof Inv as [S W].
    destruct o as [n v | n | a v | a | s v | s]; cbn [op_ok] in Ok_o; cbn [step_obs returned denote_step].
    - pose proof (insert_fst n v t S) as F. pose proof (insert_inv n v t Inv Ok_o) as I'.
      pose proof (insert_find n v t) as Fd.
      destruct (tbl_insert n v t) as [old t'] eqn:R. cbn [fst snd] in *.
      exists t'. rewrite F. split; [reflexivity |]. split; [exact I' |]. exact Fd.
    - pose proof (delete_fst n t S) as F. pose proof (delete_inv n t Inv) as I'.
      pose proof (fun k' => delete_find n t k' S) as Fd.
      destruct (tbl_delete n t) as [old t'] eqn:R. cbn [fst snd] in *.
      exists t'. rewrite F. split; [reflexivity |]. split; [exact I' |]. exact Fd.
    - replace (from_bitcount 32) with (Ok (A := N) max32) by reflexivity. cbn [bind].
      rewrite (direct_net_is_new a Ok_o).
      pose proof (insert_inv (direct_net a) v t Inv (net_new_1_wf a Ok_o)) as I'.
      pose proof (insert_find (direct_net a) v t) as Fd.
      destruct (tbl_insert (direct_net a) v t) as [old t'] eqn:R. cbn [fst snd] in *.
      exists t'. split; [reflexivity |]. split; [exact I' |]. exact Fd.
    - replace (from_bitcount 32) with (Ok (A := N) max32) by reflexivity. cbn [bind].
      rewrite (direct_net_is_new a Ok_o).
      pose proof (delete_fst (direct_net a) t S) as F. pose proof (delete_inv (direct_net a) t Inv) as I'.
      pose proof (fun k' => delete_find (direct_net a) t k' S) as Fd.
      destruct (tbl_delete (direct_net a) t) as [old t'] eqn:R. cbn [fst snd] in *.
      exists t'. rewrite F. split; [reflexivity |]. split; [exact I' |]. exact Fd.
    - destruct (from_cidr_sound s) as [[n [E Wn]] | [e E]]; rewrite E.
      + pose proof (insert_inv n v t Inv Wn) as I'. pose proof (insert_find n v t) as Fd.
        destruct (tbl_insert n v t) as [old t'] eqn:R. cbn [fst snd] in *.
        exists t'. split; [reflexivity |]. split; [exact I' |]. exact Fd.
      + exists t. split; [reflexivity |]. split; [exact Inv |]. reflexivity.
    - destruct Ok_o as [n E]. rewrite E.
      pose proof (delete_inv n t Inv) as I'. pose proof (fun k' => delete_find n t k' S) as Fd.
      destruct (tbl_delete n t) as [old t'] eqn:R. cbn [fst snd] in *.
      exists t'. split; [reflexivity |]. split; [exact I' |]. exact Fd.
  Qed.

  (* remove_cidr on text that does not parse is the one documented panic *)
  Lemma step_remove_cidr_malformed t s e :
    from_cidr s = Err e -> step t (ORemoveCidr s) = Panic site_remove_cidr.
  Proof. intros E. unfold step, step_obs. rewrite E. reflexivity. Qed.

  Lemma fmap_ext_step (m m' : fmap) o : (forall k, m k = m' k) ->
    forall k, denote_step m o k = denote_step m' o k.
  Proof.
    intros E k. destruct o as [n v | n | a v | a | s v | s]; cbn [denote_step]; unfold upd;
      try (destruct (net_eqb k _); [reflexivity | apply E]).
    - destruct (from_cidr s); try apply E. unfold upd. destruct (net_eqb k a); [reflexivity | apply E].
    - destruct (from_cidr s); try apply E. unfold upd. destruct (net_eqb k a); [reflexivity | apply E].
  Qed.

  Lemma fmap_ext_denote ops (m m' : fmap) : (forall k, m k = m' k) ->
    forall k, denote ops m k = denote ops m' k.
  Proof.
    revert m m'. induction ops as [| o ops IH]; intros m m' E k; [apply E |].
    cbn [denote fold_left]. apply IH. apply fmap_ext_step. exact E.
  Qed.

  (* any sequence of add / remove / add_direct / remove_direct / add_cidr / remove_cidr has the
     finite-map semantics; the run never panics on callable arguments *)
  Lemma run_spec ops : Forall op_ok ops -> forall t, tbl_inv t ->
    exists t', run ops t = Ok t' /\ tbl_inv t' /\ forall k, find t' k = denote ops (find t) k.
  Proof.
    induction 1 as [| o ops Ho Hops IH]; intros t Inv.
    - exists t. split; [reflexivity |]. split; [exact Inv |]. reflexivity.
    - destruct (step_obs_spec t o Inv Ho) as [t1 [E [Inv1 F1]]].
      destruct (IH t1 Inv1) as [t' [E' [Inv' F']]].
      exists t'. cbn [run]. unfold step. rewrite E. cbn [bind fst]. split; [exact E' |].
      split; [exact Inv' |]. intros k. rewrite F'. cbn [denote fold_left].
      apply fmap_ext_denote. exact F1.
  Qed.

  Lemma run_from_empty ops : Forall op_ok ops ->
    exists t, run ops [] = Ok t /\ tbl_inv t /\ forall k, find t k = denote ops fempty k.
  Proof. intros H. apply (run_spec ops H [] tbl_inv_nil). Qed.

  (* the table after a history depends only on the finite map the history denotes:
     histories with the same meaning - reordered, with redundant or cancelled steps - produce
     the very same table *)
  Lemma run_canonical ops1 ops2 : Forall op_ok ops1 -> Forall op_ok ops2 ->
    (forall k, denote ops1 fempty k = denote ops2 fempty k) -> run ops1 [] = run ops2 [].
  Proof.
    intros H1 H2 E.
    destruct (run_from_empty ops1 H1) as [t1 [E1 [[S1 _] F1]]].
    destruct (run_from_empty ops2 H2) as [t2 [E2 [[S2 _] F2]]].
    rewrite E1, E2. f_equal. apply sorted_ext; try assumption.
    intros k. rewrite F1, F2. apply E.
  Qed.

  Lemma denote_app ops1 ops2 m : denote (ops1 ++ ops2) m = denote ops2 (denote ops1 m).
  Proof. unfold denote. apply fold_left_app. Qed.

  (* adding a network twice replaces its value *)
  Lemma add_twice_replaces ops n v1 v2 : Forall op_ok ops -> wf_net n ->
    run (ops ++ [OAdd n v1; OAdd n v2]) [] = run (ops ++ [OAdd n v2]) [].
  Proof.
    intros H W. apply run_canonical.
    - apply Forall_app. split; [exact H |].
      apply Forall_cons; [exact W |]. apply Forall_cons; [exact W |]. apply Forall_nil.
    - apply Forall_app. split; [exact H |]. apply Forall_cons; [exact W |]. apply Forall_nil.
    - intros k. rewrite !denote_app. cbn [denote fold_left denote_step]. unfold upd.
      destruct (net_eqb k n); reflexivity.
  Qed.

  (* steps on different networks commute, whatever they are (add / remove) *)
  Lemma unrelated_steps_commute ops n1 o1 n2 o2 rest :
    Forall op_ok ops -> Forall op_ok rest -> wf_net n1 -> wf_net n2 -> n1 <> n2 ->
    let mk (n : net) (o : option V) := match o with Some v => OAdd n v | None => ORemove n end in
    run (ops ++ [mk n1 o1; mk n2 o2] ++ rest) [] = run (ops ++ [mk n2 o2; mk n1 o1] ++ rest) [].
  Proof.
    intros H Hr W1 W2 Ne mk.
    assert (Okm : forall n o, wf_net n -> op_ok (mk n o)) by (intros n [v |] W; exact W).
    assert (Dm : forall m n o, forall k, denote_step m (mk n o) k = upd m n o k)
      by (intros m n [v |] k; reflexivity).
    apply run_canonical.
    - apply Forall_app. split; [exact H |]. apply Forall_app. split; [| exact Hr].
      apply Forall_cons; [apply Okm; assumption |].
      apply Forall_cons; [apply Okm; assumption |]. apply Forall_nil.
    - apply Forall_app. split; [exact H |]. apply Forall_app. split; [| exact Hr].
      apply Forall_cons; [apply Okm; assumption |].
      apply Forall_cons; [apply Okm; assumption |]. apply Forall_nil.
    - intros k. rewrite !denote_app. apply fmap_ext_denote. clear k. intros k.
      cbn [denote fold_left]. rewrite (Dm _ n2 o2 k), (Dm _ n1 o1 k). unfold upd.
      rewrite (Dm _ n1 o1 k), (Dm _ n2 o2 k). unfold upd.
      destruct (net_eqb k n1) eqn:E1; destruct (net_eqb k n2) eqn:E2; try reflexivity.
      apply net_eqb_eq in E1. apply net_eqb_eq in E2. congruence.
  Qed.

  (* ---------------------------------------------------------------- lookup *)

  Lemma get_recipient_none t a :
    get_recipient t a = None <-> forall n v, In (n, v) t -> contains n a = false.
  Proof.
    induction t as [| [n0 v0] r IH]; cbn [get_recipient].
    - split; [intros _ n v [] | reflexivity].
    - destruct (contains n0 a) eqn:C.
      + split; [discriminate |]. intros H. rewrite (H n0 v0) in C by (left; reflexivity). discriminate.
      + rewrite IH. split.
        * intros H n v [X | X]; [inversion X; subst; exact C | apply (H n v X)].
        * intros H n v X. apply (H n v). right. exact X.
  Qed.

  (* the entry returned is the first one, in map order, that contains the address *)
  Lemma get_recipient_first t a v : sorted t -> get_recipient t a = Some v ->
    exists n, In (n, v) t /\ contains n a = true /\
              forall n' v', In (n', v') t -> contains n' a = true -> obm_cmp n n' <> Gt.
  Proof.
    induction t as [| [n0 v0] r IH]; intros S G; [discriminate |].
    destruct S as [A S]. cbn [get_recipient] in G. destruct (contains n0 a) eqn:C.
    - inversion G. subst v0. exists n0. split; [left; reflexivity |]. split; [exact C |].
      intros n' v' [X | X] _.
      + inversion X. subst. rewrite obm_cmp_refl. discriminate.
      + rewrite (A n' v' X). discriminate.
    - destruct (IH S G) as [n [I' [Cn M]]]. exists n. split; [right; exact I' |]. split; [exact Cn |].
      intros n' v' [X | X] C'.
      + inversion X. subst. rewrite C in C'. discriminate.
      + apply (M n' v' X C').
  Qed.

  (* C09, table level: longest-prefix match *)
  Lemma lpm_some t a v : tbl_inv t ->
    (get_recipient t a = Some v <->
     exists n, In (n, v) t /\ contains n a = true /\
               forall n' v', In (n', v') t -> contains n' a = true -> masklen n' <= masklen n).
  Proof.
    intros [S W]. split.
    - intros G. destruct (get_recipient_first t a v S G) as [n [I' [C M]]].
      exists n. split; [exact I' |]. split; [exact C |]. intros n' v' X C'.
      pose proof (obm_not_gt_mask n n' (M n' v' X C')) as L.
      destruct (W n v I') as [Vn _]. destruct (W n' v' X) as [Vn' _].
      apply (valid_mask_le_popcount _ _ Vn' Vn). exact L.
    - intros [n [I' [C M]]].
      destruct (get_recipient t a) as [v0 |] eqn:G.
      + destruct (get_recipient_first t a v0 S G) as [n0 [I0 [C0 M0]]].
        assert (L1 : masklen n <= masklen n0).
        { pose proof (obm_not_gt_mask n0 n (M0 n v I' C)) as L.
          destruct (W n v I') as [Vn _]. destruct (W n0 v0 I0) as [Vn0 _].
          apply (valid_mask_le_popcount _ _ Vn Vn0). exact L. }
        pose proof (M n0 v0 I0 C0) as L2.
        assert (n = n0).
        { apply (contains_same_len n n0 a (W n v I') (W n0 v0 I0) C C0). lia. }
        subst n0. apply (find_in t n v S) in I'. apply (find_in t n v0 S) in I0. congruence.
      + exfalso. rewrite get_recipient_none in G. rewrite (G n v I') in C. discriminate.
  Qed.

  (* C09, history level: the lookup after ANY history is the longest-prefix match over the
     finite map the history denotes - in particular it does not depend on the order of the
     adds and removes *)
  Lemma lpm_history ops : Forall op_ok ops ->
    exists t, run ops [] = Ok t /\
      (forall a v,
         get_recipient t a = Some v <->
         exists n, denote ops fempty n = Some v /\ contains n a = true /\
                   forall n' v', denote ops fempty n' = Some v' -> contains n' a = true ->
                                 masklen n' <= masklen n) /\
      (forall a,
         get_recipient t a = None <->
         forall n v, denote ops fempty n = Some v -> contains n a = false).
  Proof.
    intros H. destruct (run_from_empty ops H) as [t [E [Inv F]]]. pose proof Inv as [S W].
    exists t. split; [exact E |]. split.
    - intros a v. rewrite (lpm_some t a v Inv). split.
      + intros [n [I' [C M]]]. exists n. split; [rewrite <- F; apply find_in; assumption |].
        split; [exact C |]. intros n' v' D C'. rewrite <- F in D. apply find_in in D; [| exact S].
        apply (M n' v' D C').
      + intros [n [D [C M]]]. exists n. rewrite <- F in D. apply find_in in D; [| exact S].
        split; [exact D |]. split; [exact C |]. intros n' v' X C'.
        apply (M n' v'); [| exact C']. rewrite <- F. apply find_in; assumption.
    - intros a. rewrite get_recipient_none. split.
      + intros G n v D. rewrite <- F in D. apply find_in in D; [| exact S]. apply (G n v D).
      + intros G n v X. apply (G n v). rewrite <- F. apply find_in; assumption.
  Qed.

  (* iteration yields exactly the bindings of the denoted map, longest mask first *)
  Lemma iter_history ops : Forall op_ok ops ->
    exists t, run ops [] = Ok t /\ sorted (tbl_iter t) /\
      forall n v, In (n, v) (tbl_iter t) <-> denote ops fempty n = Some v.
  Proof.
    intros H. destruct (run_from_empty ops H) as [t [E [[S W] F]]].
    exists t. split; [exact E |]. split; [exact S |]. intros n v. unfold tbl_iter.
    rewrite <- F. symmetry. apply find_in. exact S.
  Qed.

  (* map order: longer masks come first *)
  Lemma sorted_masklen k t k' v' : keys_wf ((k, v') :: t) -> all_after k t -> In (k', v') t ->
    masklen k' <= masklen k.
  Proof.
    intros W A X. pose proof (A k' v' X) as L.
    assert (Ng : obm_cmp k k' <> Gt) by (rewrite L; discriminate).
    apply obm_not_gt_mask in Ng.
    destruct (W k v' (or_introl eq_refl)) as [Vk _]. destruct (W k' v' (or_intror X)) as [Vk' _].
    apply (valid_mask_le_popcount _ _ Vk' Vk). exact Ng.
  Qed.
End Facts.
