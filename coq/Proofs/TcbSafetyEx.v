(* A concrete closed-system trace that satisfies the hypotheses of C01_safety:
   handshake (with a write accepted in SYN-RECEIVED), three writes, a lost
   segment, a duplicated segment, out-of-order delivery, late reads,
   retransmission.  Evaluated by vm_compute. *)
From Elvis Require Import Model.Base Model.U32 Model.Tcb Model.TcpNet Proofs.TcbSafetyDefs.
Local Open Scope Z_scope.

Definition ex_cfg : config := mkCfg 1000 2000 4294967200 77 100 1500.   (* ISS of A wraps during the transfer *)
Fixpoint bytes_from (k : Z) (n : nat) : list Z :=
  match n with O => [] | S m => (k mod 256) :: bytes_from (k + 7) m end.

Definition ex_trace : list label :=
  [ LOpen SA; LEmit SA; LDeliver SA 0;            (* SYN -> passive open at B *)
    LSend SB (bytes_from 200 30);                  (* write accepted in SYN-RECEIVED *)
    LEmit SB; LDeliver SB 0;                       (* SYN-ACK -> A established *)
    LSend SA (bytes_from 1 70); LSend SA (bytes_from 3 60); LSend SA (bytes_from 5 10);
    LEmit SA;                                      (* ACK + three data segments (MSS 50) *)
    LDrop SA 2;                                    (* lose the second data segment *)
    LDup SA 1;                                     (* duplicate the first *)
    LDeliver SA 2; LDeliver SA 1; LDeliver SA 0; LDeliver SA 0;   (* out of order *)
    LRecv SB;
    LEmit SB; LDeliver SB 1; LDeliver SB 0;
    LTick SA 101; LEmit SA; LDeliver SA 0; LDeliver SA 0; LDeliver SA 0;
    LRecv SB; LRecv SA;
    LFair 2; LCheck ].

Definition ex_mid := run ex_cfg (init_sys true) (firstn 17 ex_trace).
Definition ex_final := run ex_cfg (init_sys true) ex_trace.

Lemma ex_cfg_ok : cfg_ok ex_cfg.
Proof. unfold cfg_ok, ex_cfg, u32, M32. cbn. lia. Qed.

Lemma ex_facts :
  forallb no_inject ex_trace = true /\
  (Z.of_nat (length (subA ex_final)) <? SEQ_BOUND) = true /\
  (Z.of_nat (length (subB ex_final)) <? SEQ_BOUND) = true /\
  panicked ex_final = false /\
  length (delivered ex_mid SB) = 50%nat /\ length (subA ex_mid) = 140%nat /\
  delivered ex_mid SB = firstn 50 (subA ex_mid) /\
  delivered ex_final SB = subA ex_final /\ length (subA ex_final) = 140%nat /\
  delivered ex_final SA = subB ex_final /\ length (subB ex_final) = 30%nat /\
  netA ex_final = [] /\ netB ex_final = [].
Proof. vm_compute. repeat split; reflexivity. Qed.

Lemma ex_sub_bound : sub_bound ex_final.
Proof.
  destruct ex_facts as (_ & A & B & _). unfold sub_bound, zlen. split; lia.
Qed.
