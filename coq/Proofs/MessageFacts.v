(* C07: refinement of every Message operation to plain byte lists. *)
From Coq Require Import ZifyBool.
From Elvis Require Import Model.Base Model.Message.
Local Open Scope N_scope.
Ltac Zify.zify_post_hook ::= Z.div_mod_to_equations.

(* ------------------------------------------------------------------ lists *)
Section Lists.
  Context {A : Type}.
  Implicit Types l : list A.

  Lemma skipn_skipn' : forall a b l, skipn a (skipn b l) = skipn (b + a) l.
  Proof.
    intros a b; induction b as [|b IH]; intros l; [reflexivity|].
    destruct l as [|x l]; [now rewrite !skipn_nil|]. cbn [skipn Nat.add]. apply IH.
  Qed.

  Lemma firstn_app_le : forall n l1 l2, (n <= length l1)%nat -> firstn n (l1 ++ l2) = firstn n l1.
  Proof.
    intros n l1 l2 H. rewrite firstn_app. replace (n - length l1)%nat with 0%nat by lia.
    cbn [firstn]. apply app_nil_r.
  Qed.

  Lemma firstn_app_ge : forall n l1 l2, (length l1 <= n)%nat ->
    firstn n (l1 ++ l2) = l1 ++ firstn (n - length l1) l2.
  Proof. intros n l1 l2 H. rewrite firstn_app. now rewrite (firstn_all2 l1) by lia. Qed.

  Lemma skipn_app_le : forall n l1 l2, (n <= length l1)%nat -> skipn n (l1 ++ l2) = skipn n l1 ++ l2.
  Proof.
    intros n l1 l2 H. rewrite skipn_app. replace (n - length l1)%nat with 0%nat by lia. reflexivity.
  Qed.

  Lemma skipn_app_ge : forall n l1 l2, (length l1 <= n)%nat ->
    skipn n (l1 ++ l2) = skipn (n - length l1) l2.
  Proof. intros n l1 l2 H. rewrite skipn_app. now rewrite (skipn_all2 l1) by lia. Qed.
End Lists.

(* ------------------------------------------------------------------ arithmetic *)
Lemma uadd_ok : forall a b, a + b <= USIZE_MAX -> uadd a b = Ok (a + b).
Proof. intros a b H. unfold uadd. destruct (N.leb_spec (a + b) USIZE_MAX); [reflexivity|lia]. Qed.
Lemma uadd_panic : forall a b, USIZE_MAX < a + b -> uadd a b = Panic P_ADD.
Proof. intros a b H. unfold uadd. destruct (N.leb_spec (a + b) USIZE_MAX); [lia|reflexivity]. Qed.
Lemma usub_ok : forall a b, b <= a -> usub a b = Ok (a - b).
Proof. intros a b H. unfold usub. destruct (N.leb_spec b a); [reflexivity|lia]. Qed.
Lemma usub_panic : forall a b, a < b -> usub a b = Panic P_SUB.
Proof. intros a b H. unfold usub. destruct (N.leb_spec b a); [lia|reflexivity]. Qed.

Lemma blen_app : forall a b, blen (a ++ b) = blen a + blen b.
Proof. intros. unfold blen. rewrite app_length. lia. Qed.
Lemma blen_firstn : forall k l, k <= blen l -> blen (firstn (N.to_nat k) l) = k.
Proof. intros k l H. unfold blen in *. rewrite firstn_length. lia. Qed.
Lemma blen_skipn : forall k l, blen (skipn (N.to_nat k) l) = blen l - k.
Proof. intros k l. unfold blen in *. rewrite skipn_length. lia. Qed.
Lemma to_nat_blen : forall l, N.to_nat (blen l) = length l.
Proof. intros. unfold blen. lia. Qed.

(* ------------------------------------------------------------------ chunks *)
Lemma chunk_bytes_len : forall c, WFchunk c -> blen (chunk_bytes c) = c_end c - c_start c.
Proof.
  intros c (H1 & H2 & H3). unfold chunk_bytes, blen in *.
  rewrite firstn_length, skipn_length. lia.
Qed.

Lemma chunk_len_ok : forall c, WFchunk c -> chunk_len c = Ok (c_end c - c_start c).
Proof. intros c (H1 & _). unfold chunk_len. now apply usub_ok. Qed.

Lemma chunk_len_ok' : forall c, WFchunk c -> chunk_len c = Ok (blen (chunk_bytes c)).
Proof. intros c H. rewrite chunk_bytes_len by assumption. now apply chunk_len_ok. Qed.

Lemma as_slice_ok : forall c, WFchunk c -> chunk_as_slice c = Ok (chunk_bytes c).
Proof.
  intros c (H1 & H2 & H3). unfold chunk_as_slice.
  destruct (N.ltb_spec (c_end c) (c_start c)); [lia|].
  destruct (N.ltb_spec (blen (c_buf c)) (c_end c)); [lia|reflexivity].
Qed.

Lemma chunk_new_wf : forall b, is_vec b -> WFchunk (chunk_new b) /\ chunk_bytes (chunk_new b) = b.
Proof.
  intros b H. unfold WFchunk, chunk_new, chunk_bytes; cbn [c_start c_end c_buf]. split.
  - unfold is_vec in *. lia.
  - cbn [N.to_nat skipn]. rewrite N.sub_0_r, to_nat_blen. apply firstn_all.
Qed.

Lemma set_start_ok : forall c k, WFchunk c -> k <= c_end c - c_start c ->
  WFchunk (set_start c (c_start c + k)) /\
  chunk_bytes (set_start c (c_start c + k)) = skipn (N.to_nat k) (chunk_bytes c).
Proof.
  intros c k (H1 & H2 & H3) Hk. split.
  - unfold WFchunk, set_start; cbn [c_start c_end c_buf]. repeat split; try assumption; lia.
  - unfold chunk_bytes, set_start; cbn [c_start c_end c_buf].
    rewrite skipn_firstn_comm, skipn_skipn'.
    replace (N.to_nat (c_end c - (c_start c + k))) with (N.to_nat (c_end c - c_start c) - N.to_nat k)%nat by lia.
    replace (N.to_nat (c_start c + k)) with (N.to_nat (c_start c) + N.to_nat k)%nat by lia.
    reflexivity.
Qed.

Lemma set_end_ok : forall c k, WFchunk c -> k <= c_end c - c_start c ->
  WFchunk (set_end c (c_start c + k)) /\
  chunk_bytes (set_end c (c_start c + k)) = firstn (N.to_nat k) (chunk_bytes c).
Proof.
  intros c k (H1 & H2 & H3) Hk. split.
  - unfold WFchunk, set_end; cbn [c_start c_end c_buf]. repeat split; try assumption; lia.
  - unfold chunk_bytes, set_end; cbn [c_start c_end c_buf].
    rewrite firstn_firstn.
    replace (N.to_nat (c_start c + k - c_start c)) with (Nat.min (N.to_nat k) (N.to_nat (c_end c - c_start c))) by lia.
    reflexivity.
Qed.

Notation flat := (flat_map chunk_bytes).
Ltac wfc := repeat first [assumption | apply Forall_cons | apply Forall_nil].

Lemma flat_cons : forall c cs, flat (c :: cs) = chunk_bytes c ++ flat cs.
Proof. reflexivity. Qed.

Lemma uadd_start_ok : forall c k, WFchunk c -> k <= c_end c - c_start c ->
  uadd (c_start c) k = Ok (c_start c + k).
Proof. intros c k (H1 & H2 & H3) Hk. apply uadd_ok. unfold is_vec in *. lia. Qed.

(* ------------------------------------------------------------------ iter *)
Lemma iter_ok : forall cs, Forall WFchunk cs -> chunks_iter cs = Ok (flat cs).
Proof.
  induction cs as [|c cs IH]; intros H; [reflexivity|].
  inversion H as [|? ? Hc Hcs]; subst. cbn [chunks_iter].
  rewrite as_slice_ok by assumption. cbn [bind]. rewrite IH by assumption. reflexivity.
Qed.

Lemma bytes_eqb_spec : forall a b, bytes_eqb a b = true <-> a = b.
Proof.
  induction a as [|x a IH]; destruct b as [|y b]; cbn [bytes_eqb]; split; intros H;
    try reflexivity; try discriminate.
  - apply andb_prop in H as [H1 H2]. apply N.eqb_eq in H1. apply IH in H2. now subst.
  - inversion H; subst. rewrite N.eqb_refl. cbn [andb]. now apply IH.
Qed.

(* ------------------------------------------------------------------ slice_inner, phase by phase *)
Lemma drop_leading_ok : forall cs start, Forall WFchunk cs -> start <= blen (flat cs) ->
  exists cs' s', drop_leading cs start = Ok (cs', s') /\ Forall WFchunk cs' /\
    skipn (N.to_nat s') (flat cs') = skipn (N.to_nat start) (flat cs) /\
    match cs' with [] => s' = 0 | h :: _ => s' < c_end h - c_start h end.
Proof.
  induction cs as [|h t IH]; intros start Hwf Hle.
  - exists [], start. cbn in Hle. repeat split; try assumption. cbn [drop_leading]. lia.
  - inversion Hwf as [|? ? Hh Ht]; subst. cbn [drop_leading]. rewrite chunk_len_ok by assumption.
    cbn [bind]. pose proof (chunk_bytes_len h Hh) as Hl.
    rewrite flat_cons, blen_app in Hle.
    destruct (N.leb_spec (c_end h - c_start h) start) as [Hc|Hc].
    + rewrite usub_ok by assumption. cbn [bind].
      destruct (IH (start - (c_end h - c_start h)) Ht ltac:(lia)) as (cs' & s' & E & W & B & M).
      exists cs', s'. repeat split; try assumption.
      rewrite B, flat_cons, skipn_app_ge by (unfold blen in *; lia).
      f_equal. unfold blen in *. lia.
    + exists (h :: t), start. repeat split; (assumption || reflexivity).
Qed.

Lemma bump_head_ok : forall cs s, Forall WFchunk cs ->
  match cs with [] => s = 0 | h :: _ => s < c_end h - c_start h end ->
  exists cs2, bump_head cs s = Ok cs2 /\ Forall WFchunk cs2 /\ flat cs2 = skipn (N.to_nat s) (flat cs).
Proof.
  intros [|h t] s Hwf Hs.
  - exists []. subst. repeat split; try assumption.
  - inversion Hwf as [|? ? Hh Ht]; subst. cbn [bump_head].
    rewrite uadd_start_ok by (assumption || lia). cbn [bind].
    destruct (set_start_ok h s Hh ltac:(lia)) as (W & B).
    exists (set_start h (c_start h + s) :: t). repeat split.
    + now constructor.
    + rewrite !flat_cons, B. pose proof (chunk_bytes_len h Hh).
      now rewrite skipn_app_le by (unfold blen in *; lia).
Qed.

Lemma trim_tail_ok : forall cs keep, Forall WFchunk cs -> keep <= blen (flat cs) ->
  exists cs' i, trim_tail cs keep = Ok (cs', i) /\ (i <= length cs')%nat /\
    Forall WFchunk (firstn i cs') /\ flat (firstn i cs') = firstn (N.to_nat keep) (flat cs).
Proof.
  induction cs as [|c t IH]; intros keep Hwf Hle.
  - exists [], 0%nat. cbn in Hle. repeat split; try constructor.
    cbn. now rewrite firstn_nil.
  - inversion Hwf as [|? ? Hc Ht]; subst. cbn [trim_tail]. rewrite chunk_len_ok by assumption.
    cbn [bind]. pose proof (chunk_bytes_len c Hc) as Hl.
    rewrite flat_cons, blen_app in Hle.
    destruct (N.leb_spec (c_end c - c_start c) keep) as [Hk|Hk].
    + rewrite usub_ok by assumption. cbn [bind].
      destruct (IH (keep - (c_end c - c_start c)) Ht ltac:(lia)) as (t' & i & E & Li & W & B).
      rewrite E. cbn [bind]. exists (c :: t'), (S i). repeat split.
      * cbn [length]. lia.
      * cbn [firstn]. now constructor.
      * cbn [firstn]. rewrite !flat_cons, B, firstn_app_ge by (unfold blen in *; lia).
        f_equal. f_equal. unfold blen in *. lia.
    + rewrite uadd_start_ok by (assumption || lia). cbn [bind].
      destruct (set_end_ok c keep Hc ltac:(lia)) as (W & B).
      exists (set_end c (c_start c + keep) :: t), 1%nat. repeat split.
      * cbn [length]. lia.
      * cbn [firstn]. constructor; [assumption|constructor].
      * cbn [firstn]. rewrite !flat_cons, B. cbn [flat_map]. rewrite app_nil_r.
        now rewrite firstn_app_le by (unfold blen in *; lia).
Qed.

Definition opt_len (len : option N) : N := match len with Some l => l | None => 0 end.
Definition new_len (m : msg) (start : N) (len : option N) : N :=
  match len with Some l => l | None => mlen m - start end.

Lemma slice_inner_ok : forall m start len, WF m -> start + opt_len len <= mlen m ->
  exists m', msg_slice_inner m start len = Ok m' /\ WF m' /\
    bytes_of m' = firstn (N.to_nat (new_len m start len)) (skipn (N.to_nat start) (bytes_of m)).
Proof.
  intros m start len (Hc & Hl & Hm) Hr. unfold msg_slice_inner. fold (opt_len len).
  rewrite uadd_ok by lia. cbn [bind].
  destruct (N.leb_spec (start + opt_len len) (mlen m)); [|lia]. cbn [negb].
  rewrite usub_ok by lia. cbn [bind].
  assert (Hn : (match len with Some l => l | None => mlen m - start end) = new_len m start len) by reflexivity.
  rewrite Hn. set (nl := new_len m start len).
  assert (Hnl : nl <= mlen m - start) by (subst nl; unfold new_len, opt_len in *; destruct len; lia).
  destruct (drop_leading_ok (chunks m) start Hc ltac:(unfold bytes_of in Hl; lia)) as (cs1 & s1 & E1 & W1 & B1 & M1).
  rewrite E1. cbn [bind].
  destruct (bump_head_ok cs1 s1 W1 M1) as (cs2 & E2 & W2 & B2). rewrite E2. cbn [bind].
  assert (B2' : flat cs2 = skipn (N.to_nat start) (bytes_of m)) by (rewrite B2, B1; reflexivity).
  destruct (trim_tail_ok cs2 nl W2) as (cs3 & i & E3 & Li & W3 & B3).
  { rewrite B2', blen_skipn. lia. }
  rewrite E3. cbn [bind]. unfold drain_from.
  destruct (Nat.ltb_spec (length cs3) i); [lia|]. cbn [bind].
  eexists. split; [reflexivity|]. unfold WF, bytes_of; cbn [chunks mlen].
  rewrite B3, B2'. repeat split; try assumption.
  - rewrite blen_firstn; [reflexivity|]. rewrite blen_skipn. fold (bytes_of m). lia.
  - lia.
Qed.

Lemma slice_inner_panic : forall m start len, mlen m < start + opt_len len ->
  exists s, msg_slice_inner m start len = Panic s.
Proof.
  intros m start len H. unfold msg_slice_inner. fold (opt_len len).
  destruct (N.le_gt_cases (start + opt_len len) USIZE_MAX) as [Ho|Ho].
  - rewrite uadd_ok by assumption. cbn [bind].
    destruct (N.leb_spec (start + opt_len len) (mlen m)); [lia|]. cbn [negb]. now eexists.
  - rewrite uadd_panic by assumption. now eexists.
Qed.

(* ------------------------------------------------------------------ cut / remove_front *)
Lemma cut_loop_ok : forall cs n, Forall WFchunk cs -> n <= blen (flat cs) ->
  exists rest front, cut_loop cs n = Ok (rest, front) /\ Forall WFchunk rest /\ Forall WFchunk front /\
    flat front = firstn (N.to_nat n) (flat cs) /\ flat rest = skipn (N.to_nat n) (flat cs).
Proof.
  induction cs as [|h t IH]; intros n Hwf Hle.
  - exists [], []. cbn in Hle. cbn [cut_loop flat_map]. rewrite firstn_nil, skipn_nil.
    repeat split; constructor.
  - inversion Hwf as [|? ? Hh Ht]; subst. cbn [cut_loop]. rewrite chunk_len_ok by assumption.
    cbn [bind]. pose proof (chunk_bytes_len h Hh) as Hl.
    rewrite flat_cons, blen_app in Hle.
    destruct (N.leb_spec (c_end h - c_start h) n) as [Hk|Hk].
    + rewrite usub_ok by assumption. cbn [bind].
      destruct (IH (n - (c_end h - c_start h)) Ht ltac:(lia)) as (rest & front & E & Wr & Wf & Bf & Br).
      rewrite E. cbn [bind]. exists rest, (h :: front). repeat split; try assumption.
      * now constructor.
      * rewrite !flat_cons, Bf, firstn_app_ge by (unfold blen in *; lia).
        f_equal. f_equal. unfold blen in *. lia.
      * rewrite Br, flat_cons, skipn_app_ge by (unfold blen in *; lia).
        f_equal. unfold blen in *. lia.
    + destruct (set_start_ok h n Hh ltac:(lia)) as (Ws & Bs).
      destruct (set_end_ok h n Hh ltac:(lia)) as (We & Be).
      assert (Hfirst : firstn (N.to_nat n) (chunk_bytes h ++ flat t) = firstn (N.to_nat n) (chunk_bytes h))
        by (apply firstn_app_le; unfold blen in *; lia).
      assert (Hskip : skipn (N.to_nat n) (chunk_bytes h ++ flat t) = skipn (N.to_nat n) (chunk_bytes h) ++ flat t)
        by (apply skipn_app_le; unfold blen in *; lia).
      destruct (N.ltb_spec 0 n) as [Hz|Hz].
      * rewrite uadd_start_ok by (assumption || lia). cbn [bind].
        exists (set_start h (c_start h + n) :: t), [set_end h (c_start h + n)].
        repeat split; try solve [wfc].
        -- rewrite !flat_cons, Be, Hfirst. cbn [flat_map]. apply app_nil_r.
        -- rewrite !flat_cons, Bs, Hskip. reflexivity.
      * cbn [bind]. rewrite uadd_start_ok by (assumption || lia). cbn [bind].
        exists (set_start h (c_start h + n) :: t), [].
        repeat split; try solve [wfc].
        -- assert (n = 0) by lia. subst n. reflexivity.
        -- rewrite !flat_cons, Bs, Hskip. reflexivity.
Qed.

Lemma remove_loop_ok : forall cs n, Forall WFchunk cs -> n <= blen (flat cs) ->
  exists rest, remove_loop cs n = Ok rest /\ Forall WFchunk rest /\
    flat rest = skipn (N.to_nat n) (flat cs).
Proof.
  induction cs as [|h t IH]; intros n Hwf Hle.
  - exists []. cbn [remove_loop flat_map]. rewrite skipn_nil. repeat split; constructor.
  - inversion Hwf as [|? ? Hh Ht]; subst. cbn [remove_loop]. rewrite chunk_len_ok by assumption.
    cbn [bind]. pose proof (chunk_bytes_len h Hh) as Hl.
    rewrite flat_cons, blen_app in Hle.
    destruct (N.leb_spec (c_end h - c_start h) n) as [Hk|Hk].
    + rewrite usub_ok by assumption. cbn [bind].
      destruct (IH (n - (c_end h - c_start h)) Ht ltac:(lia)) as (rest & E & Wr & Br).
      exists rest. repeat split; try assumption.
      rewrite Br, flat_cons, skipn_app_ge by (unfold blen in *; lia).
      f_equal. unfold blen in *. lia.
    + destruct (set_start_ok h n Hh ltac:(lia)) as (Ws & Bs).
      rewrite uadd_start_ok by (assumption || lia). cbn [bind].
      exists (set_start h (c_start h + n) :: t). repeat split.
      * now constructor.
      * rewrite !flat_cons, Bs. now rewrite skipn_app_le by (unfold blen in *; lia).
Qed.

Lemma cut_ok : forall m n, WF m -> n <= mlen m ->
  exists rest front, msg_cut m n = Ok (rest, front) /\ WF rest /\ WF front /\
    bytes_of front = firstn (N.to_nat n) (bytes_of m) /\
    bytes_of rest = skipn (N.to_nat n) (bytes_of m).
Proof.
  intros m n (Hc & Hl & Hm) Hn. unfold msg_cut.
  destruct (N.leb_spec n (mlen m)); [|lia]. cbn [negb].
  rewrite usub_ok by assumption. cbn [bind].
  destruct (cut_loop_ok (chunks m) n Hc ltac:(unfold bytes_of in Hl; lia)) as (rest & front & E & Wr & Wf & Bf & Br).
  rewrite E. cbn [bind]. do 2 eexists. split; [reflexivity|].
  unfold WF, bytes_of; cbn [chunks mlen]. rewrite Bf, Br. fold (bytes_of m).
  repeat split; try assumption; try lia.
  - rewrite blen_skipn. lia.
  - rewrite blen_firstn; lia.
Qed.

Lemma cut_panic : forall m n, mlen m < n -> msg_cut m n = Panic P_ASSERT_CUT.
Proof. intros m n H. unfold msg_cut. destruct (N.leb_spec n (mlen m)); [lia|reflexivity]. Qed.

Lemma remove_front_ok : forall m n, WF m -> n <= mlen m ->
  exists m', msg_remove_front m n = Ok m' /\ WF m' /\ bytes_of m' = skipn (N.to_nat n) (bytes_of m).
Proof.
  intros m n (Hc & Hl & Hm) Hn. unfold msg_remove_front.
  destruct (N.leb_spec n (mlen m)); [|lia]. cbn [negb].
  rewrite usub_ok by assumption. cbn [bind].
  destruct (remove_loop_ok (chunks m) n Hc ltac:(unfold bytes_of in Hl; lia)) as (rest & E & Wr & Br).
  rewrite E. cbn [bind]. eexists. split; [reflexivity|].
  unfold WF, bytes_of; cbn [chunks mlen]. rewrite Br. fold (bytes_of m).
  repeat split; try assumption; try lia. rewrite blen_skipn. lia.
Qed.

Lemma remove_front_panic : forall m n, mlen m < n -> msg_remove_front m n = Panic P_ASSERT_RF.
Proof. intros m n H. unfold msg_remove_front. destruct (N.leb_spec n (mlen m)); [lia|reflexivity]. Qed.

(* ------------------------------------------------------------------ new / header / concatenate *)
Lemma default_wf : WF msg_default /\ bytes_of msg_default = [].
Proof. unfold WF, msg_default, bytes_of; cbn. repeat split; try constructor; try lia. Qed.

Lemma new_ok : forall b, is_vec b -> exists m, msg_new b = Ok m /\ WF m /\ bytes_of m = b.
Proof.
  intros b H. destruct (chunk_new_wf b H) as (W & B). unfold msg_new.
  rewrite chunk_len_ok' by assumption. cbn [bind]. eexists. split; [reflexivity|].
  unfold WF, bytes_of; cbn [chunks mlen flat_map]. rewrite app_nil_r, B.
  repeat split; try solve [wfc].
Qed.

Lemma header_ok : forall m b, WF m -> is_vec b -> blen b + mlen m <= USIZE_MAX ->
  exists m', msg_header m b = Ok m' /\ WF m' /\ bytes_of m' = b ++ bytes_of m.
Proof.
  intros m b (Hc & Hl & Hm) Hb Hs. destruct (chunk_new_wf b Hb) as (W & B). unfold msg_header.
  rewrite chunk_len_ok' by assumption. cbn [bind]. rewrite B.
  rewrite uadd_ok by lia. cbn [bind]. eexists. split; [reflexivity|].
  unfold WF, bytes_of; cbn [chunks mlen flat_map]. rewrite B. fold (bytes_of m).
  repeat split; try (constructor; assumption); try lia. rewrite blen_app. lia.
Qed.

Lemma header_panic : forall m b, is_vec b -> USIZE_MAX < blen b + mlen m ->
  msg_header m b = Panic P_ADD.
Proof.
  intros m b Hb Hs. destruct (chunk_new_wf b Hb) as (W & B). unfold msg_header.
  rewrite chunk_len_ok' by assumption. cbn [bind]. rewrite B. now rewrite uadd_panic by lia.
Qed.

Lemma concat_ok : forall m o, WF m -> WF o -> mlen m + mlen o <= USIZE_MAX ->
  exists m', msg_concat m o = Ok m' /\ WF m' /\ bytes_of m' = bytes_of m ++ bytes_of o.
Proof.
  intros m o (Hc & Hl & Hm) (Hc' & Hl' & Hm') Hs. unfold msg_concat.
  rewrite uadd_ok by assumption. cbn [bind]. eexists. split; [reflexivity|].
  unfold WF, bytes_of; cbn [chunks mlen]. rewrite flat_map_app. fold (bytes_of m) (bytes_of o).
  repeat split; try lia.
  - apply Forall_app; now split.
  - rewrite blen_app. lia.
Qed.

Lemma concat_panic : forall m o, USIZE_MAX < mlen m + mlen o -> msg_concat m o = Panic P_ADD.
Proof. intros m o H. unfold msg_concat. now rewrite uadd_panic by assumption. Qed.

(* ------------------------------------------------------------------ observations *)
Lemma len_ok : forall m, WF m -> msg_len m = blen (bytes_of m).
Proof. intros m (_ & H & _). exact H. Qed.

Lemma is_empty_ok : forall m, WF m -> msg_is_empty m = true <-> bytes_of m = [].
Proof.
  intros m (_ & H & _). unfold msg_is_empty, msg_len. rewrite H, N.eqb_eq. unfold blen.
  destruct (bytes_of m); cbn [length]; split; intros; (reflexivity || discriminate || lia).
Qed.

Lemma msg_iter_ok : forall m, WF m -> msg_iter m = Ok (bytes_of m).
Proof. intros m (H & _). now apply iter_ok. Qed.

Lemma msg_to_vec_ok : forall m, WF m -> msg_to_vec m = Ok (bytes_of m).
Proof. exact msg_iter_ok. Qed.

Lemma msg_eq_ok : forall m1 m2, WF m1 -> WF m2 ->
  exists b, msg_eq m1 m2 = Ok b /\ (b = true <-> bytes_of m1 = bytes_of m2).
Proof.
  intros m1 m2 H1 H2. unfold msg_eq. rewrite !msg_iter_ok by assumption. cbn [bind].
  eexists. split; [reflexivity|]. apply bytes_eqb_spec.
Qed.
