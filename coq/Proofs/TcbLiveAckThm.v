(* C01 liveness: all the ACKs of a round are lost.  The retransmitted flight is old data for the
   receiver (nothing is delivered twice); its first duplicate ACK covers the whole queue. *)
From Elvis Require Import Model.Base Model.U32 Model.Tcb Model.TcpNet
  Proofs.U32Facts Proofs.TcbSafetyDefs Proofs.TcbSafetyBase Proofs.TcbSafetySnd Proofs.TcbSafetyRcv
  Proofs.TcbSafetyArr Proofs.TcbSafetySys Proofs.TcbLive Proofs.TcbLiveSys Proofs.TcbLiveThm
  Proofs.TcbLiveWin Proofs.TcbLiveWinSys Proofs.TcbLiveWinThm Proofs.TcbLiveLoss Proofs.TcbLiveLossThm
  Proofs.TcbLiveAck.
From Coq Require Import ZifyBool.
Local Open Scope Z_scope.
Ltac Zify.zify_post_hook ::= Z.div_mod_to_equations.

Lemma dup_flight_oneshot_len : forall segs t,
  length (oneshot (dup_flight t segs)) = (length (oneshot t) + length segs)%nat.
Proof.
  induction segs as [|s r IH]; intros t; cbn [dup_flight fold_left length]; [lia|].
  fold (dup_flight (dup_step t s) r). rewrite IH. unfold dup_step; tcb_simpl. rewrite app_length. cbn. lia.
Qed.

(* the receiver owes duplicate ACKs only *)
Definition ackingD (t : tcb) (b R : Z) : Prop :=
  st t = Established /\ snd_una t = b /\ snd_nxt t = b /\ rcv_nxt t = R /\
  snd_wnd t = 65535 /\ rcv_wnd t = 65535 /\ out_text t = [] /\ retx t = [] /\
  (exists d dr, oneshot t = d :: dr /\ Forall (dupack b R) (d :: dr)) /\
  fin_pending t = false /\ in_segs t = [] /\ in_text t = [] /\ rto t = RTO /\ time_wait t = None /\
  u32 b /\ u32 R /\ 100 <= mtu t <= 65535.

Section AckHalf.
  Variable c : config.

  (* one cumulative ACK removes a whole prefix of the queue *)
  Lemma deliver_ack_cum y b R ot pre suf h s tz u f rest :
    dupack b (wadd u (flight_len pre)) h -> pre <> [] ->
    sending tz u R b (pre ++ suf) ot ->
    end_of s (other y) = ELive tz -> net_of s y = mkSeg h [] :: rest ->
    exists tz', deliver_all (Datatypes.S f) c s y =
                deliver_all f c (set_end (set_net s y rest) (other y) (ELive tz')) y /\
                sending tz' (wadd u (flight_len pre)) R b suf ot /\ mtu tz' = mtu tz.
  Proof.
    intros (Hh & Hhs & Hhw & Hha) Hne HS Ez Ny.
    rewrite (deliver_all_cons _ c s y (mkSeg h []) rest Ny).
    destruct HS as (A1 & A2 & A3 & A4 & A5 & A6 & A7 & A8 & A9 & A10 & A11 & A12 & A13 & A14 & A15 & A16 & A17 & (lp & rp & ackv & F) & A19 & A20).
    destruct (flight_split lp rp ackv pre suf u A15 F) as [Fp Fs].
    destruct (ack_prefix_segs lp rp ackv tz h pre suf) as (w1 & w2 & Ea); try assumption;
      try (rewrite ?A2, ?A3, ?A4; assumption); try congruence.
    rewrite A2 in Ea. set (tz1 := set_snd_window _ _ _ _) in Ea.
    assert (Ez' : end_of (set_net s y rest) (other y) = ELive tz) by (now sysr).
    rewrite (arrive_eval c _ (other y) tz _ tz1 Ez' Ea).
    exists tz1. split; [reflexivity|]. split; [|reflexivity].
    unfold sending. subst tz1. tcb_simpl. rewrite flight_len_app in *.
    pose proof (flight_len_nonneg pre). pose proof (flight_len_nonneg suf).
    splits; auto; try apply wadd_u32; try lia.
    - exists lp, rp, ackv. exact Fs.
    - rewrite wadd_wadd. exact A19.
  Qed.

  (* the sender's half: the timer fires, the whole flight is retransmitted, all of it is old data *)
  Lemma half_send_again s x tx ty a b R lp rp segs :
    end_of s x = ELive tx -> end_of s (other x) = ELive ty ->
    net_of s x = [] -> net_of s (other x) = [] -> panicked s = false ->
    sending tx a R b segs [] -> flight lp rp b a segs -> segs <> [] ->
    quiet ty b R ->
    let s' := fair_half c s x in
    exists tx' ty', end_of s' x = ELive tx' /\ end_of s' (other x) = ELive ty' /\
      net_of s' x = [] /\ net_of s' (other x) = [] /\ panicked s' = false /\
      (forall y, sub_of s' y = sub_of s y) /\ (forall y, del_of s' y = del_of s y) /\
      sending tx' a R b segs [] /\ ackingD ty' b R /\
      mtu tx' = mtu tx /\ mtu ty' = mtu ty.
  Proof.
    intros Ex Ey Nx Ny Pn HS F Hne
      (Q1 & Q2 & Q3 & Q4 & Q5 & Q6 & Q7 & Q8 & Q9 & Q10 & Q11 & Q12 & Q13 & Q14 & Q15 & Q16 & Q17) s'.
    pose proof HS as (A1 & A2 & A3 & A4 & A5 & A6 & A7 & A8 & A9 & A10 & A11 & A12 & A13 & A14 & A15 & A16 & A17 & _ & A19 & A20).
    pose proof (flight_len_pos _ _ _ _ _ F Hne) as Hpos.
    assert (E1 : tcb_segments tx = Ok (set_retx (set_oneshot tx []) (map (fun s => mkTx s false) segs), [])).
    { rewrite segments_nothing_new; try assumption; try (rewrite A1; reflexivity); try lia.
      rewrite A8, A9, filter_needs_false, reflag_map. reflexivity. }
    set (tx1 := set_retx _ _) in E1.
    pose proof (advance_101 tx1 A13 A14) as E2.
    change (retx tx1) with (map (fun s => mkTx s false) segs) in E2. rewrite reflag_map in E2.
    set (tx2 := set_retx _ _) in E2.
    assert (E3 : tcb_segments tx2 =
                 Ok (set_rto (set_retx (set_oneshot tx2 []) (map (fun s => mkTx s false) segs)) RTO, segs)).
    { apply segments_retransmit; try reflexivity; try assumption.
      - change (st tx2) with (st tx). now rewrite A1.
      - change (mtu tx2) with (mtu tx). lia.
      - change (out_text tx2) with (out_text tx). rewrite A7. cbn. lia. }
    set (tx3 := set_rto _ RTO) in E3.
    unfold s', fair_half, fair_half_t.
    rewrite (tick_eval s x tx tx1 [] tx2 101 Ex E1 E2). rewrite Nx. cbn [app].
    set (s1 := set_end (set_net _ _ _) x (ELive tx2)).
    assert (Ex1 : end_of s1 x = ELive tx2) by (subst s1; now sysr).
    rewrite (emit_eval s1 x tx2 tx3 segs Ex1 E3). cbn iota beta.
    assert (Nx1 : net_of s1 x = []) by (subst s1; now sysr). rewrite Nx1. cbn [app].
    set (s2 := set_net _ x segs).
    assert (Nx2 : net_of s2 x = segs ++ []) by (subst s2; rewrite app_nil_r; now sysr).
    assert (Nx2' : net_of s2 x = segs) by (subst s2; now sysr).
    rewrite Nx2'. cbn iota.
    replace (Datatypes.S (length segs)) with (length segs + 1)%nat by lia.
    assert (Ey2 : end_of s2 (other x) = ELive ty) by (subst s2 s1; now sysr).
    rewrite (deliver_dups c x lp rp b segs s2 ty a 1 [] Ey2 Nx2 Q1 Q11 Q6
               ltac:(rewrite Q4; exact Q16) F A15 ltac:(congruence) A20
               ltac:(rewrite Q2; apply mod_leq_refl) ltac:(rewrite Q12; cbn; lia)).
    destruct (dup_flight_facts segs ty Q6) as (C2 & R2 & I2 & _ & dups & O2 & FA2).
    pose proof (dup_flight_in_segs segs ty Q6 Q11) as S2.
    pose proof (dup_flight_oneshot_len segs ty) as L2.
    cbv zeta in *. set (t2 := dup_flight ty segs) in *.
    destruct C2 as (_ & _ & Dm & Dst & Dun & Dnx & Dsw & Drw & Dot & Drx & Dfp & Drto & Dtw).
    set (s5 := set_end (set_net s2 x []) (other x) (ELive t2)).
    assert (Nx5 : net_of s5 x = []) by (subst s5; now sysr).
    rewrite (deliver_all_nil _ c s5 x Nx5).
    rewrite (recv_both s5 x).
    assert (Ex5 : end_of s5 x = ELive tx3) by (subst s5 s2; now sysr).
    assert (Hitx : in_text tx3 = []) by (subst tx3 tx2 tx1; tcb_simpl; exact A12).
    rewrite (recv_eval_empty s5 x tx3 Ex5 Hitx).
    set (s6 := set_end s5 x _).
    assert (Ey6 : end_of s6 (other x) = ELive t2) by (subst s6 s5; now sysr).
    assert (Hit2 : in_text t2 = []) by congruence.
    rewrite (recv_eval_empty s6 (other x) t2 Ey6 Hit2).
    exists (set_in_text tx3 []), (set_in_text t2 []).
    splits.
    all: try (subst s6 s5 s2 s1; now sysr).
    all: try reflexivity.
    all: try (intros y; subst s6 s5 s2 s1; now sysr).
    - unfold sending. subst tx3 tx2 tx1. tcb_simpl.
      splits; try assumption; try reflexivity; try congruence; try lia.
      exists lp, rp, b. exact F.
    - unfold ackingD. tcb_simpl. rewrite O2, Q9 in *. cbn [app length] in *.
      splits; try congruence; try lia.
      destruct dups as [|d dr]; [destruct segs; [congruence|cbn in L2; lia]|].
      exists d, dr. split; [reflexivity|]. now rewrite Q3, Q4 in FA2.
  Qed.

  (* the receiver's half: the first duplicate ACK empties the sender's queue *)
  Lemma half_ack_again s y ty tz a b R segs :
    end_of s y = ELive ty -> end_of s (other y) = ELive tz ->
    net_of s y = [] -> net_of s (other y) = [] -> panicked s = false ->
    ackingD ty b R -> sending tz a R b segs [] -> segs <> [] ->
    let s' := fair_half c s y in
    exists ty' tz', end_of s' y = ELive ty' /\ end_of s' (other y) = ELive tz' /\
      net_of s' y = [] /\ net_of s' (other y) = [] /\ panicked s' = false /\
      (forall x, sub_of s' x = sub_of s x) /\ (forall x, del_of s' x = del_of s x) /\
      quiet ty' b R /\ quiet tz' R b /\ mtu ty' = mtu ty /\ mtu tz' = mtu tz.
  Proof.
    intros Ey Ez Ny Nz Pn
      (A1 & A2 & A3 & A4 & A5 & A6 & A7 & A8 & (d & dr & A9 & FA) & A10 & A11 & A12 & A13 & A14 & A15 & A16 & A17)
      HS Hne s'.
    set (mk := fun h : header => mkSeg h []).
    assert (E1 : tcb_segments ty = Ok (set_retx (set_oneshot ty []) [], mk d :: map mk dr)).
    { rewrite segments_nothing_new; try assumption; try (rewrite A1; reflexivity); try lia.
      rewrite A8, A9. cbn [map filter]. rewrite app_nil_r. reflexivity. }
    set (ty1 := set_retx _ _) in E1.
    pose proof (advance_101 ty1 A13 A14) as E2.
    assert (Er1 : retx ty1 = []) by reflexivity. rewrite Er1 in E2. cbn [map] in E2.
    set (ty2 := set_retx _ _) in E2.
    assert (E3 : tcb_segments ty2 = Ok (set_retx (set_oneshot ty2 []) [], [])).
    { rewrite segments_nothing_new.
      - subst ty2 ty1; tcb_simpl. cbn [map filter app]. reflexivity.
      - exact A7.
      - exact A10.
      - change (st ty2) with (st ty). now rewrite A1.
      - change (mtu ty2) with (mtu ty). lia. }
    set (ty3 := set_retx _ _) in E3.
    unfold s', fair_half, fair_half_t.
    rewrite (tick_eval s y ty ty1 _ ty2 101 Ey E1 E2). rewrite Ny. cbn [app].
    set (s1 := set_end (set_net _ _ _) y (ELive ty2)).
    assert (Ey1 : end_of s1 y = ELive ty2) by (subst s1; now sysr).
    rewrite (emit_eval s1 y ty2 ty3 [] Ey1 E3). cbn iota beta.
    assert (Ny1 : net_of s1 y = mk d :: map mk dr) by (subst s1; now sysr).
    rewrite Ny1, app_nil_r.
    set (s2 := set_net _ y _).
    assert (Ny2 : net_of s2 y = mk d :: (map mk dr ++ [])) by (subst s2; rewrite app_nil_r; now sysr).
    assert (Ny2' : net_of s2 y = mk d :: map mk dr) by (subst s2; now sysr).
    rewrite Ny2'. cbn [length]. rewrite map_length. cbn iota.
    replace (Datatypes.S (Datatypes.S (length dr))) with (Datatypes.S (length dr + 1))%nat by lia.
    assert (Ez2 : end_of s2 (other y) = ELive tz) by (subst s2 s1; now sysr).
    pose proof (Forall_inv FA) as Fd. pose proof (Forall_inv_tail FA) as Fdr.
    assert (HR : wadd a (flight_len segs) = R) by apply HS.
    assert (HS0 : sending tz a R b (segs ++ []) []) by (now rewrite app_nil_r).
    destruct (deliver_ack_cum y b R [] segs [] d s2 tz a (length dr + 1)%nat (map mk dr ++ [])
                ltac:(rewrite HR; exact Fd) Hne HS0 Ez2 Ny2) as (tz1 & D1 & HS1 & M1).
    rewrite D1. rewrite HR in HS1.
    set (s3 := set_end (set_net s2 y (map mk dr ++ [])) (other y) (ELive tz1)).
    assert (Ez3 : end_of s3 (other y) = ELive tz1) by (subst s3; now sysr).
    assert (Ny3 : net_of s3 y = map mk dr ++ []) by (subst s3; now sysr).
    destruct (deliver_dupacks_mid c y b R [] [] R dr s3 tz1 1%nat [] Fdr HS1 Ez3 Ny3)
      as (tz2 & D2 & HS2 & M2).
    rewrite D2.
    set (s5 := set_end (set_net s3 y []) (other y) (ELive tz2)).
    assert (Ny5 : net_of s5 y = []) by (subst s5; now sysr).
    rewrite (deliver_all_nil _ c s5 y Ny5).
    pose proof (sending_quiet tz2 R b HS2) as Qz.
    rewrite (recv_both s5 y).
    assert (Ey5 : end_of s5 y = ELive ty3) by (subst s5 s3 s2; now sysr).
    rewrite (recv_eval_empty s5 y ty3 Ey5 A12).
    set (s6 := set_end s5 y _).
    assert (Ez6 : end_of s6 (other y) = ELive tz2) by (subst s6 s5; now sysr).
    rewrite (recv_eval_empty s6 (other y) tz2 Ez6 ltac:(apply Qz)).
    exists (set_in_text ty3 []), (set_in_text tz2 []).
    splits.
    all: try (subst s6 s5 s3 s2 s1; now sysr).
    all: try reflexivity.
    all: try (intros x; subst s6 s5 s3 s2 s1; now sysr).
    all: try (unfold quiet; subst ty3 ty2 ty1; tcb_simpl; splits; try assumption; try reflexivity; lia).
    all: try (destruct Qz as (Z1 & Z2 & Z3 & Z4 & Z5 & Z6 & Z7 & Z8 & Z9 & Z10 & Z11 & Z12 & Z13 & Z14 & Z15 & Z16 & Z17);
              unfold quiet; tcb_simpl; splits; auto; lia).
    all: try (cbn [set_in_text mtu]; congruence).
  Qed.
End AckHalf.
