(* C01 liveness: a write of up to one window (65535 bytes), TCB level.
   segments() cuts it into a flight of contiguous segments; old data is acknowledged and
   dropped; an ACK that covers exactly the first queued segment removes it. *)
From Elvis Require Import Model.Base Model.U32 Model.Tcb Model.TcpNet
  Proofs.U32Facts Proofs.TcbSafetyDefs Proofs.TcbSafetyBase Proofs.TcbSafetySnd Proofs.TcbSafetyRcv
  Proofs.TcbSafetyArr Proofs.TcbLive.
From Coq Require Import ZifyBool.
Local Open Scope Z_scope.
Ltac Zify.zify_post_hook ::= Z.div_mod_to_equations.

(* the header segments() puts on a data segment *)
Definition data_hdr (lp rp sq ackv : Z) : header :=
  hb_wnd (hb_ack (mkHdr lp rp sq 0 ctl0 0 0) ackv) 65535.

Lemma data_hdr_ack_only lp rp sq ackv : ack_only (data_hdr lp rp sq ackv).
Proof. unfold ack_only. auto. Qed.

(* contiguous data segments starting at sequence number a *)
Fixpoint flight (lp rp ackv a : Z) (segs : list segment) : Prop :=
  match segs with
  | [] => True
  | s :: r => s_hdr s = data_hdr lp rp a ackv /\ 0 < zlen (s_text s) <= 65485 /\
              flight lp rp ackv (wadd a (zlen (s_text s))) r
  end.

Definition flight_bytes (segs : list segment) : list Z := concat (map s_text segs).
Definition flight_len (segs : list segment) : Z := zlen (flight_bytes segs).

Lemma flight_len_cons s r : flight_len (s :: r) = zlen (s_text s) + flight_len r.
Proof. unfold flight_len, flight_bytes. cbn [map concat]. apply zlen_app. Qed.
Lemma flight_len_nonneg segs : 0 <= flight_len segs.
Proof. apply zlen_nonneg. Qed.

Lemma map_tseg_mk b segs : map t_seg (map (fun s => mkTx s b) segs) = segs.
Proof. rewrite map_map. cbn [t_seg]. apply map_id. Qed.
Lemma filter_needs_true segs : filter t_needs (map (fun s => mkTx s true) segs) = map (fun s => mkTx s true) segs.
Proof. induction segs; cbn [map filter t_needs]; [reflexivity|now rewrite IHsegs]. Qed.
Lemma reflag_map b b' segs :
  map (fun tx => mkTx (t_seg tx) b') (map (fun s => mkTx s b) segs) = map (fun s => mkTx s b') segs.
Proof. rewrite map_map. reflexivity. Qed.

(* ---------- the segmentation loop ---------- *)
(* it stops when the text or the window (65535 bytes in flight) is exhausted *)
Lemma seg_loop_flight mss : 0 < mss <= 65485 -> forall fuel t sent,
  snd_wnd t = 65535 -> rcv_wnd t = 65535 -> wsub (snd_nxt t) (snd_una t) = sent -> 0 <= sent <= 65535 ->
  u32 (snd_nxt t) -> (length (out_text t) < fuel)%nat ->
  let m := Z.min (zlen (out_text t)) (65535 - sent) in
  exists segs,
    seg_loop fuel t mss (zlen (out_text t)) =
    Ok (set_retx (set_snd_nxt (set_out_text t (skipn (Z.to_nat m) (out_text t))) (wadd (snd_nxt t) m))
                 (retx t ++ map (fun s => mkTx s true) segs)) /\
    flight (lport t) (rport t) (rcv_nxt t) (snd_nxt t) segs /\
    flight_bytes segs = firstn (Z.to_nat m) (out_text t).
Proof.
  intros Hmss. induction fuel as [|f IH]; intros t sent Hsw Hrw Hfl Hs0 Hu Hfuel m; [lia|].
  cbn [seg_loop]. rewrite Hsw, Hfl.
  pose proof (zlen_nonneg (out_text t)) as Hz.
  set (bytes := Z.min (Z.min mss (Z.max 0 (65535 - sent))) (zlen (out_text t))).
  assert (Hb : bytes = Z.min mss m) by (subst bytes m; lia).
  destruct (bytes =? 0) eqn:Eb.
  { assert (Hm0 : m = 0) by lia.
    exists []. rewrite Hm0. cbn [Z.to_nat skipn firstn map flight flight_bytes concat]. splits; auto.
    f_equal. tcb_eq; rewrite ?app_nil_r; auto. symmetry. apply wadd_0_u32, Hu. }
  replace (65535 <? bytes + 20) with false by lia.
  set (text := firstn (Z.to_nat bytes) (out_text t)).
  set (h := hb_wnd (hb_ack (hb t (snd_nxt t)) (rcv_nxt t)) (rcv_wnd t)).
  set (t3 := set_retx _ _).
  assert (Hbm : 0 < bytes <= m) by (subst m; lia).
  assert (Htl : zlen text = bytes) by (subst text m; rewrite zlen_firstn; lia).
  assert (Hrest : zlen (out_text t3) = zlen (out_text t) - bytes).
  { subst t3; tcb_simpl. rewrite zlen_skipn. subst m. lia. }
  destruct (IH t3 (sent + bytes)) as (segs & E & F & B).
  - exact Hsw.
  - exact Hrw.
  - subst t3; tcb_simpl. rewrite wsub_spec, wadd_spec. rewrite wsub_spec in Hfl. subst m. unfold u32, M32 in *. lia.
  - subst m. lia.
  - subst t3; tcb_simpl. apply wadd_u32.
  - subst t3; tcb_simpl. rewrite skipn_length. unfold zlen in *. subst m. lia.
  - cbv zeta in E, B. rewrite Hrest in E, B.
    replace (Z.min (zlen (out_text t) - bytes) (65535 - (sent + bytes))) with (m - bytes) in E, B by (subst m; lia).
    exists (mkSeg h text :: segs).
    rewrite E. splits.
    + f_equal. subst t3. tcb_eq.
      * rewrite wadd_wadd. f_equal. lia.
      * rewrite skipn_skipn. f_equal. lia.
      * rewrite <- app_assoc. reflexivity.
    + cbn [flight s_hdr s_text]. rewrite Htl. splits; try lia.
      * subst h. unfold data_hdr, hb. rewrite Hrw. reflexivity.
      * exact F.
    + unfold flight_bytes in *. cbn [map concat s_text]. rewrite B. subst t3 text; tcb_simpl.
      rewrite firstn_app_slice. f_equal. lia.
Qed.

(* segments() of a quiescent sender that has just been handed text: the first window of it *)
Lemma segments_flight t bytes :
  st t = Established -> oneshot t = [] -> retx t = [] -> out_text t = bytes -> fin_pending t = false ->
  snd_wnd t = 65535 -> rcv_wnd t = 65535 -> snd_una t = snd_nxt t -> u32 (snd_nxt t) ->
  100 <= mtu t <= 65535 -> 0 < zlen bytes ->
  let m := Z.min (zlen bytes) 65535 in
  exists segs,
    tcb_segments t =
    Ok (set_rto (set_retx (set_snd_nxt (set_out_text (set_oneshot t []) (skipn (Z.to_nat m) bytes))
                                       (wadd (snd_nxt t) m))
                          (map (fun s => mkTx s false) segs)) RTO, segs) /\
    flight (lport t) (rport t) (rcv_nxt t) (snd_nxt t) segs /\
    flight_bytes segs = firstn (Z.to_nat m) bytes /\ segs <> [].
Proof.
  intros Est Hone Hretx Hout Hf Hsw Hrw Hun Hu Hm Hn m.
  unfold tcb_segments. tcb_simpl. rewrite Est, Hone. cbn [segmentizes map]. unfold SPACE_FOR_HEADERS.
  replace (mtu t <? 50) with false by lia.
  set (t0 := set_oneshot t []).
  destruct (seg_loop_flight (mtu t - 50) ltac:(lia) (Datatypes.S (length (out_text t0))) t0 0)
    as (segs & E & F & B); try assumption; try reflexivity.
  - subst t0; tcb_simpl. rewrite Hun. apply wsub_diag.
  - lia.
  - lia.
  - cbv zeta in E, B.
    change (out_text t0) with (out_text t) in *. change (snd_nxt t0) with (snd_nxt t) in *.
    change (retx t0) with (retx t) in *. rewrite E. clear E.
    rewrite Hout, Hretx in *. cbn [app]. rewrite Z.sub_0_r in *. fold m in B |- *.
    assert (Hne : segs <> []).
    { intros ->. assert (Hz : zlen (firstn (Z.to_nat m) bytes) = 0) by (rewrite <- B; reflexivity).
      rewrite zlen_firstn in Hz. subst m. lia. }
    exists segs. split; [|auto]. subst t0.
    unfold queue_pending_fin. tcb_simpl. rewrite Hf. cbn [andb]. tcb_simpl.
    rewrite filter_needs_true, map_tseg_mk, reflag_map.
    destruct segs as [|s0 r]; [congruence|]. reflexivity.
Qed.

(* the second emission after the retransmission timer fired: the whole flight again, and
   nothing new because either the text or the window is exhausted *)
Lemma segments_retransmit t segs :
  fin_pending t = false -> segmentizes (st t) = true -> 100 <= mtu t ->
  Z.min (Z.max 0 (snd_wnd t - wsub (snd_nxt t) (snd_una t))) (zlen (out_text t)) = 0 ->
  oneshot t = [] -> retx t = map (fun s => mkTx s true) segs -> segs <> [] ->
  tcb_segments t = Ok (set_rto (set_retx (set_oneshot t []) (map (fun s => mkTx s false) segs)) RTO, segs).
Proof.
  intros Hf Hs Hm Hnone Hone Hretx Hne.
  unfold tcb_segments. tcb_simpl. rewrite Hs, Hone. cbn [map]. unfold SPACE_FOR_HEADERS.
  replace (mtu t <? 50) with false by lia.
  cbn [seg_loop]. tcb_simpl.
  match goal with |- context [Z.min (Z.min ?a ?b) ?r] =>
    replace (Z.min (Z.min a b) r) with 0 by (pose proof (zlen_nonneg (out_text t)); lia) end.
  cbn [Z.eqb]. unfold queue_pending_fin. tcb_simpl. rewrite Hf. cbn [andb]. tcb_simpl.
  rewrite Hretx, filter_needs_true, map_tseg_mk, reflag_map. cbn [app].
  destruct segs; [congruence|]. reflexivity.
Qed.

(* ---------- old data: acknowledged and dropped, whether or not the sequence check passes ---------- *)
Lemma old_data t h text d :
  st t = Established -> in_segs t = [] -> rcv_wnd t = 65535 -> u32 (rcv_nxt t) ->
  ack_only h -> u32 (h_seq h) -> 0 <= d -> wadd (h_seq h) (zlen text + d) = rcv_nxt t ->
  mod_leq (h_ack h) (snd_una t) = true ->
  0 < zlen text -> zlen text + d <= 65535 -> zlen (in_text t) <= 65535 ->
  segment_arrives t (mkSeg h text) =
  Ok (set_oneshot (set_in_segs t []) (oneshot t ++ [ack_hdr t]), AOk).
Proof.
  intros Est Hs Hw Hu Hh Hsu Hd Hseq Hleq Hlen Hroom Hspace.
  destruct (Z.eq_dec d 0) as [-> | Hd0].
  { apply data_duplicate; try assumption; try lia. now rewrite Z.add_0_r in Hseq. }
  set (t0 := set_in_segs t []). set (n := zlen text) in *.
  assert (Hdist : wsub (rcv_nxt t) (h_seq h) = n + d).
  { rewrite <- Hseq, wsub_spec, wadd_spec. unfold u32, M32 in *. lia. }
  eapply arrives_single; try assumption; try reflexivity.
  - now rewrite Est.
  - tcb_simpl. unfold mod_gt, mod_lt. rewrite Hdist. unfold H31. lia.
  - fold t0. unfold process_segment. tcb_simpl. change (st t0) with (st t). rewrite Est.
    destruct Hh as (Ha & Hr & Hsy & Hf). rewrite Hsy, Hf.
    assert (Hbad : is_seq_ok t0 n (h_seq h) false false = false).
    { unfold is_seq_ok. cbn [b2z]. rewrite !Z.add_0_r. replace (n =? 0) with false by lia.
      change (rcv_wnd t0) with (rcv_wnd t). rewrite Hw. cbn [Z.eqb].
      rewrite !in_window_spec by (try assumption; try apply wsub_u32; try apply wadd_u32).
      change (rcv_nxt t0) with (rcv_nxt t). rewrite <- Hseq.
      rewrite !wsub_spec, !wadd_spec. unfold u32, M32 in *. lia. }
    fold n. rewrite Hbad. cbn [negb].
    rewrite enqueue_plain by apply ack_hdr_plain. reflexivity.
  - reflexivity.
Qed.

(* ---------- an ACK that covers exactly the first queued segment ---------- *)
Lemma ack_first_seg t h tx rest n :
  st t = Established -> in_segs t = [] -> rcv_wnd t = 65535 -> u32 (rcv_nxt t) ->
  ack_only h -> h_seq h = rcv_nxt t -> h_wnd h = 65535 -> snd_wnd t = 65535 ->
  u32 (snd_una t) -> retx t = tx :: rest ->
  h_seq (s_hdr (t_seg tx)) = snd_una t -> seg_len (t_seg tx) = n -> 0 < n ->
  h_ack h = wadd (snd_una t) n ->
  (* the rest of the queue lies beyond the acknowledged point, up to SND.NXT *)
  wsub (snd_nxt t) (snd_una t) <= 65535 -> n <= wsub (snd_nxt t) (snd_una t) ->
  Forall (fun tx' => let e := wsub (wadd (h_seq (s_hdr (t_seg tx'))) (seg_len (t_seg tx'))) (snd_una t) in
                     n < e <= 65535) rest ->
  exists w1 w2,
  segment_arrives t (mkSeg h []) =
  Ok (set_snd_window (set_retx (set_snd_una (set_in_segs t []) (wadd (snd_una t) n)) rest) 65535 w1 w2, AOk).
Proof.
  intros Est Hs Hw Hu (Ha & Hr & Hsy & Hf) Hseq Hhw Hsw Huu Hretx Htxs Htxl Hn Hack Hfl Hnfl Hrest.
  set (t0 := set_in_segs t []).
  assert (Hleq : mod_leq (h_ack h) (snd_una t) = false).
  { rewrite Hack. unfold mod_leq, mod_lt. rewrite wsub_spec, wadd_spec. unfold u32, M32, H31 in *. lia. }
  assert (Hgt : mod_gt (h_ack h) (snd_nxt t) = false).
  { rewrite Hack. unfold mod_gt, mod_lt. rewrite wsub_spec, wadd_spec. rewrite wsub_spec in Hfl, Hnfl.
    unfold u32, M32, H31 in *. lia. }
  set (t1 := remove_acked (set_snd_una t0 (h_ack h)) (h_ack h)).
  assert (Hret1 : retx t1 = rest).
  { subst t1 t0. unfold remove_acked; tcb_simpl. rewrite Hretx. cbn [filter].
    rewrite Htxs, Htxl, Hack, mod_lt_irrefl.
    clear - Hrest Huu Hn. induction Hrest as [|tx' l He _ IH]; cbn [filter]; [reflexivity|].
    rewrite IH. cbv zeta in He.
    replace (mod_lt (wadd (snd_una t) n) (wadd (h_seq (s_hdr (t_seg tx'))) (seg_len (t_seg tx')))) with true; [reflexivity|].
    symmetry. unfold mod_lt. rewrite wsub_spec in *. rewrite !wadd_spec in *. unfold u32, M32, H31 in *. lia. }
  set (cond := mod_lt (snd_wl1 t1) (h_seq h) || ((snd_wl1 t1 =? h_seq h) && mod_leq (snd_wl2 t1) (h_ack h))).
  set (t2 := if cond then set_snd_window t1 (h_wnd h) (h_seq h) (h_ack h) else t1).
  assert (Hproc : process_segment t0 (mkSeg h []) = Ok (t2, PSuccess)).
  { unfold process_segment. tcb_simpl. change (st t0) with (st t). rewrite Est, Hsy, Hf.
    assert (Hok : is_seq_ok t0 (zlen (@nil Z)) (h_seq h) false false = true).
    { unfold is_seq_ok. cbn [b2z zlen length]. change (Z.of_nat 0 + 0 + 0 =? 0) with true. cbn iota.
      change (rcv_wnd t0) with (rcv_wnd t). rewrite Hw. cbn [Z.eqb].
      rewrite Hseq. apply (in_window_at_nxt t0); assumption. }
    rewrite Hok. cbn [negb].
    unfold ps_ack. rewrite Ha. change (st t0) with (st t). rewrite Est. cbn [negb]. unfold ack_est.
    change (snd_una t0) with (snd_una t). change (snd_nxt t0) with (snd_nxt t).
    rewrite Hleq, Hgt. fold t1. fold cond. fold t2.
    assert (Est2 : st t2 = Established) by (subst t2; destruct cond; exact Est).
    unfold ps_rst. rewrite Hr. cbn [negb]. unfold ps_syn. rewrite Hsy. cbn [negb].
    rewrite Est2. cbn [state_eqb]. rewrite ps_text_nil, ps_fin_nofin by exact Hf. reflexivity. }
  exists (snd_wl1 t2), (snd_wl2 t2).
  eapply arrives_single; try assumption; try reflexivity.
  - now rewrite Est.
  - tcb_simpl. rewrite Hseq. apply mod_gt_refl_false.
  - fold t0. rewrite Hproc. f_equal. f_equal.
    subst t2. destruct cond; tcb_eq; try exact Hret1; subst t1 t0; unfold remove_acked; tcb_simpl; auto.
  - subst t2. destruct cond; reflexivity.
Qed.
