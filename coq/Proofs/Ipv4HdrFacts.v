(* Lemmas about the IPv4 header codec model (Model/Ipv4Hdr.v). *)
From Elvis Require Import Model.Base Model.Bytes Model.Checksum Model.Ipv4Hdr
  Proofs.BytesFacts Proofs.ChecksumFacts.
From Coq Require Import ZifyBool.
Ltac Zify.zify_post_hook ::= Z.div_mod_to_equations.
Local Open Scope Z_scope.

(* C14: the decoder has no panic site (it contains no arithmetic but the
   checksum adder, see ChecksumFacts.add_u16_checked_ok) *)
Lemma ipv4_decode_total : forall fck ftl ck bs s, ipv4_decode fck ftl ck bs <> Panic s.
Proof. intros. apply is_panic_false. unfold ipv4_decode. no_panic. Qed.
Lemma ipv4_decode_fuel : forall fck ftl ck bs, ipv4_decode fck ftl ck bs <> OutOfFuel.
Proof. intros. unfold ipv4_decode. no_fuel. Qed.

(* ---- closed form on a string of at least 20 bytes -------------------------- *)
Definition ipv4_chain (ck : bool) (vi tos tl ident ff ttl proto src dst : Z) : Z :=
  ck_u32 ck (ck_u32 ck (ck_u8 ck (ck_u16 ck (ck_u16 ck (ck_u16 ck
    (ck_u8 ck 0 vi tos) tl) ident) ff) ttl proto) src) dst.

Lemma ipv4_cksum_chain : forall ck tos tl ident ff ttl proto src dst,
  ipv4_cksum ck tos tl ident ff ttl proto src dst =
  as_u16 ck (ipv4_chain ck 69 tos tl ident ff ttl proto src dst).
Proof. reflexivity. Qed.

Lemma ipv4_decode_20 : forall fck ftl ck b0 b1 b2 b3 b4 b5 b6 b7 b8 b9 b10 b11 b12 b13 b14 b15 b16 b17 b18 b19 rest,
  ipv4_decode fck ftl ck
    (b0 :: b1 :: b2 :: b3 :: b4 :: b5 :: b6 :: b7 :: b8 :: b9 :: b10 :: b11 :: b12 :: b13 :: b14
        :: b15 :: b16 :: b17 :: b18 :: b19 :: rest) =
  if negb (shr b0 4 =? 4) then Err E_VER else
  if negb (band b0 15 =? 5) then Err E_IHL else
  if negb (band b1 3 =? 0) then Err E_TOS else
  if ftl && (of_be16 b2 b3 <? 20) then Err E_TOTLEN else
  if negb (band (shr (of_be16 b6 b7) 13) 4 =? 0) then Err E_FLAG else
  if negb (ck_match fck
             (as_u16 ck (ipv4_chain ck b0 b1 (of_be16 b2 b3) (of_be16 b4 b5) (of_be16 b6 b7) b8 b9
                                    (of_be32 b12 b13 b14 b15) (of_be32 b16 b17 b18 b19)))
             (of_be16 b10 b11))
  then Err (E_CK (of_be16 b10 b11)
             (as_u16 ck (ipv4_chain ck b0 b1 (of_be16 b2 b3) (of_be16 b4 b5) (of_be16 b6 b7) b8 b9
                                    (of_be32 b12 b13 b14 b15) (of_be32 b16 b17 b18 b19))))
  else Ok (mk_ipv4 (band b0 15) b1 (of_be16 b2 b3) (of_be16 b4 b5) (band (of_be16 b6 b7) 8191)
                   (shr (of_be16 b6 b7) 13) b8 b9 (of_be16 b10 b11)
                   (of_be32 b12 b13 b14 b15) (of_be32 b16 b17 b18 b19)).
Proof. reflexivity. Qed.

Ltac kill_ifs_err :=
  repeat match goal with
         | |- context [if ?c then _ else _] => destruct c
         end; eauto.

(* fewer than 20 bytes: always an error value *)
Lemma ipv4_decode_short : forall fck ftl ck bs, (length bs < 20)%nat ->
  exists e, ipv4_decode fck ftl ck bs = Err e.
Proof.
  intros fck ftl ck bs Hl. unfold ipv4_decode.
  do 20 (destruct bs as [|? bs];
         [ cbn [bind ok_or next_u8 next_u16_be next_u32_be]; cbv zeta; kill_ifs_err | ]).
  cbn in Hl. lia.
Qed.

(* inversion: an accepted string has 20 bytes and passes every check *)
Lemma ipv4_decode_ok_inv : forall fck ftl ck bs h, ipv4_decode fck ftl ck bs = Ok h ->
  exists b0 b1 b2 b3 b4 b5 b6 b7 b8 b9 b10 b11 b12 b13 b14 b15 b16 b17 b18 b19 rest,
    bs = b0 :: b1 :: b2 :: b3 :: b4 :: b5 :: b6 :: b7 :: b8 :: b9 :: b10 :: b11 :: b12 :: b13 :: b14
            :: b15 :: b16 :: b17 :: b18 :: b19 :: rest /\
    shr b0 4 = 4 /\ band b0 15 = 5 /\ band b1 3 = 0 /\
    (ftl = true -> 20 <= of_be16 b2 b3) /\
    band (shr (of_be16 b6 b7) 13) 4 = 0 /\
    ck_match fck
      (as_u16 ck (ipv4_chain ck b0 b1 (of_be16 b2 b3) (of_be16 b4 b5) (of_be16 b6 b7) b8 b9
                             (of_be32 b12 b13 b14 b15) (of_be32 b16 b17 b18 b19)))
      (of_be16 b10 b11) = true /\
    h = mk_ipv4 (band b0 15) b1 (of_be16 b2 b3) (of_be16 b4 b5) (band (of_be16 b6 b7) 8191)
                (shr (of_be16 b6 b7) 13) b8 b9 (of_be16 b10 b11)
                (of_be32 b12 b13 b14 b15) (of_be32 b16 b17 b18 b19).
Proof.
  intros fck ftl ck bs h H.
  destruct (Nat.ltb_spec (length bs) 20) as [Hs|Hl].
  - destruct (ipv4_decode_short fck ftl ck bs Hs) as [e He]. congruence.
  - do 20 (destruct bs as [|? bs]; [cbn in Hl; lia|]).
    rewrite ipv4_decode_20 in H.
    repeat match type of H with
           | (if ?c then _ else _) = _ => let E := fresh "E" in destruct c eqn:E; [discriminate|]
           end.
    inversion H. subst h. do 21 eexists. split; [reflexivity|].
    repeat split; try lia.
    + intro Hf. subst ftl. lia.
    + destruct (ck_match _ _ _); [reflexivity|discriminate].
Qed.

(* ---- the builder ------------------------------------------------------------- *)
Lemma vi_69 : bor (shl 4 4) 5 = 69.
Proof. reflexivity. Qed.

Lemma ipv4_build_ok : forall ck tos plen ident frag flags ttl proto src dst,
  0 <= plen -> plen + 20 <= 65535 -> 0 <= frag <= 8191 -> 0 <= flags < 8 ->
  ipv4_build ck tos plen ident frag flags ttl proto src dst =
  Ok ([69; tos] ++ be16 (plen + 20) ++ be16 ident ++ be16 (flags * 8192 + frag) ++ [ttl; proto]
        ++ be16 (ipv4_cksum ck tos (plen + 20) ident (flags * 8192 + frag) ttl proto src dst)
        ++ be32 src ++ be32 dst).
Proof.
  intros ck tos plen ident frag flags ttl proto src dst Hp Hp2 Hf Hfl.
  unfold ipv4_build. cbv zeta. rewrite vi_69.
  replace (65535 <? plen + 20) with false by lia.
  replace (8191 <? frag) with false by lia.
  rewrite shl_13, band_8191.
  rewrite (Z.mod_small (flags * 8192)) by lia.
  rewrite (Z.mod_small frag) by lia.
  rewrite bor_add_8192 by lia.
  reflexivity.
Qed.

(* the failure paths of the builder *)
Lemma ipv4_build_long : forall ck tos plen ident frag flags ttl proto src dst,
  65535 < plen + 20 -> ipv4_build ck tos plen ident frag flags ttl proto src dst = Err EB_LONG.
Proof. intros. unfold ipv4_build. cbv zeta. replace (65535 <? plen + 20) with true by lia. reflexivity. Qed.
Lemma ipv4_build_frag : forall ck tos plen ident frag flags ttl proto src dst,
  plen + 20 <= 65535 -> 8191 < frag ->
  ipv4_build ck tos plen ident frag flags ttl proto src dst = Err EB_FRAG.
Proof.
  intros. unfold ipv4_build. cbv zeta. replace (65535 <? plen + 20) with false by lia.
  replace (8191 <? frag) with true by lia. reflexivity.
Qed.

(* ---- normal form of the checksum chain ---------------------------------------- *)
Definition ipv4_others (vi tos tl ident ff ttl proto src dst : Z) : Z :=
  (vi * 256 + tos) + tl + ident + ff + (ttl * 256 + proto) + halves src + halves dst.

Lemma ipv4_chain_norm : forall vi tos tl ident ff ttl proto src dst,
  byte vi -> byte tos -> u16 tl -> u16 ident -> u16 ff -> byte ttl -> byte proto -> u32 src -> u32 dst ->
  ipv4_chain true vi tos tl ident ff ttl proto src dst =
  oc_norm (ipv4_others vi tos tl ident ff ttl proto src dst).
Proof.
  intros vi tos tl ident ff ttl proto src dst Hvi Htos Htl Hid Hff Httl Hpr Hs Hd.
  unfold ipv4_chain, ipv4_others. change 0 with (oc_norm 0) at 1.
  pose proof (halves_range src Hs). pose proof (halves_range dst Hd).
  unfold byte, u16 in *.
  rewrite ck_u8_norm by (unfold byte; lia).
  rewrite ck_u16_norm by (unfold u16; lia).
  rewrite ck_u16_norm by (unfold u16; lia).
  rewrite ck_u16_norm by (unfold u16; lia).
  rewrite ck_u8_norm by (unfold byte; lia).
  rewrite ck_u32_norm by (assumption || lia).
  rewrite ck_u32_norm by (assumption || lia).
  f_equal; lia.
Qed.
Lemma ipv4_others_pos : forall vi tos tl ident ff ttl proto src dst,
  byte vi -> byte tos -> u16 tl -> u16 ident -> u16 ff -> byte ttl -> byte proto -> u32 src -> u32 dst ->
  0 < vi -> 0 < ipv4_others vi tos tl ident ff ttl proto src dst.
Proof.
  intros. unfold ipv4_others. pose proof (halves_range src). pose proof (halves_range dst).
  unfold byte, u16, u32 in *. lia.
Qed.
Lemma ipv4_chain_u16 : forall ck vi tos tl ident ff ttl proto src dst,
  byte vi -> byte tos -> u16 tl -> u16 ident -> u16 ff -> byte ttl -> byte proto -> u32 src -> u32 dst ->
  u16 (ipv4_chain ck vi tos tl ident ff ttl proto src dst).
Proof.
  intros [|] vi tos tl ident ff ttl proto src dst Hvi Htos Htl Hid Hff Httl Hpr Hs Hd.
  - rewrite ipv4_chain_norm by assumption. apply oc_norm_u16.
    pose proof (halves_range src Hs). pose proof (halves_range dst Hd).
    unfold ipv4_others, byte, u16 in *. lia.
  - unfold ipv4_chain. rewrite !ck_off_u32, !ck_off_u8, !ck_off_u16. unfold u16. lia.
Qed.
Lemma ipv4_cksum_u16 : forall ck tos tl ident ff ttl proto src dst,
  byte tos -> u16 tl -> u16 ident -> u16 ff -> byte ttl -> byte proto -> u32 src -> u32 dst ->
  u16 (ipv4_cksum ck tos tl ident ff ttl proto src dst).
Proof.
  intros. rewrite ipv4_cksum_chain. apply as_u16_range. apply ipv4_chain_u16; try assumption.
  unfold byte. lia.
Qed.

(* ---- round trip 1: decode (encode h ++ payload) = h ---------------------------- *)
Lemma ipv4_decode_encode : forall fck ftl ck h payload, ipv4_wf ck h ->
  exists bs, ipv4_encode ck h = Ok bs /\ length bs = 20%nat /\
             ipv4_decode fck ftl ck (bs ++ payload) = Ok h.
Proof.
  intros fck ftl ck [ihl tos tl ident frag flags ttl proto cks src dst] payload W.
  unfold ipv4_wf in W. cbn [ip_ihl ip_tos ip_len ip_id ip_frag ip_flags ip_ttl ip_proto ip_ck ip_src ip_dst] in W.
  destruct W as (Wihl & Wtos & Wtos4 & Wtl & Wid & Wfrag & Wfl & Wttl & Wpr & Wsrc & Wdst & Wck).
  unfold ipv4_encode. cbn [ip_ihl ip_tos ip_len ip_id ip_frag ip_flags ip_ttl ip_proto ip_ck ip_src ip_dst].
  replace (tl <? 20) with false by lia.
  rewrite ipv4_build_ok by lia. replace (tl - 20 + 20) with tl by lia.
  eexists. split; [reflexivity|]. split; [reflexivity|].
  assert (Hff : u16 (flags * 8192 + frag)) by (unfold u16; lia).
  assert (Hck : u16 (ipv4_cksum ck tos tl ident (flags * 8192 + frag) ttl proto src dst)).
  { apply ipv4_cksum_u16; unfold u8, byte, u16 in *; try assumption; lia. }
  cbn [app be16 be32]. rewrite ipv4_decode_20.
  replace (shr 69 4) with 4 by reflexivity. replace (band 69 15) with 5 by reflexivity.
  rewrite band_3, Wtos4.
  rewrite !of_be16_be16 by (assumption || (unfold u16; lia)).
  rewrite !of_be32_be32 by assumption.
  replace (tl <? 20) with false by lia. rewrite andb_false_r.
  rewrite shr_13, band_4, band_8191.
  replace ((flags * 8192 + frag) / 8192) with flags by lia.
  replace (flags / 4 mod 2 * 4) with 0 by lia.
  replace ((flags * 8192 + frag) mod 8192) with frag by lia.
  cbn [Z.eqb negb].
  rewrite <- ipv4_cksum_chain.
  unfold ck_match. rewrite Z.eqb_refl. cbn [orb negb].
  subst ihl cks. reflexivity.
Qed.

(* ---- round trip 2: re-encoding an accepted string reproduces its first 20 bytes -- *)
Lemma ipv4_b0_69 : forall b0, byte b0 -> shr b0 4 = 4 -> band b0 15 = 5 -> b0 = 69.
Proof. intros b0 Hb. rewrite shr_4, band_15. unfold byte in Hb. lia. Qed.

Lemma ipv4_encode_decode : forall fck ck bs h, bytes bs ->
  (ck = false \/ fck = false) ->
  ipv4_decode fck true ck bs = Ok h -> ipv4_encode ck h = Ok (firstn 20 bs).
Proof.
  intros fck ck bs h Hb Hmode H.
  apply ipv4_decode_ok_inv in H.
  destruct H as (b0 & b1 & b2 & b3 & b4 & b5 & b6 & b7 & b8 & b9 & b10 & b11 & b12 & b13 & b14 & b15
                 & b16 & b17 & b18 & b19 & rest & -> & Hv & Hi & Ht & Htl & Hfl & Hm & ->).
  repeat (apply bytes_cons in Hb; let B := fresh "B" in destruct Hb as [B Hb]).
  specialize (Htl eq_refl).
  assert (b0 = 69) by (apply ipv4_b0_69; assumption). subst b0.
  assert (R23 : u16 (of_be16 b2 b3)) by (apply of_be16_range; assumption).
  assert (R67 : u16 (of_be16 b6 b7)) by (apply of_be16_range; assumption).
  unfold ipv4_encode. cbn [ip_ihl ip_tos ip_len ip_id ip_frag ip_flags ip_ttl ip_proto ip_ck ip_src ip_dst].
  replace (of_be16 b2 b3 <? 20) with false by lia.
  rewrite shr_13, band_8191.
  unfold u16 in R23, R67.
  rewrite ipv4_build_ok by lia.
  replace (of_be16 b2 b3 - 20 + 20) with (of_be16 b2 b3) by lia.
  replace (of_be16 b6 b7 / 8192 * 8192 + of_be16 b6 b7 mod 8192) with (of_be16 b6 b7) by lia.
  rewrite ipv4_cksum_chain.
  (* the emitted checksum is the received field *)
  assert (Hck : as_u16 ck (ipv4_chain ck 69 b1 (of_be16 b2 b3) (of_be16 b4 b5) (of_be16 b6 b7) b8 b9
                                      (of_be32 b12 b13 b14 b15) (of_be32 b16 b17 b18 b19)) = of_be16 b10 b11).
  { unfold ck_match in Hm. destruct Hmode as [-> | ->].
    - cbn [as_u16] in *. lia.
    - cbn [andb] in Hm. lia. }
  rewrite Hck.
  rewrite !be16_of_be16, !be32_of_be32 by assumption.
  reflexivity.
Qed.

(* ---- RFC 791 ------------------------------------------------------------------ *)
Lemma ipv4_matches_rfc : forall ck prec d t r plen ident df mf frag ttl proto src dst,
  0 <= prec < 8 -> 0 <= d < 2 -> 0 <= t < 2 -> 0 <= r < 2 ->
  0 <= plen -> plen + 20 <= 65535 -> u16 ident -> 0 <= df < 2 -> 0 <= mf < 2 -> 0 <= frag <= 8191 ->
  u8 ttl -> u8 proto -> u32 src -> u32 dst ->
  let tos := prec * 32 + d * 16 + t * 8 + r * 4 in
  let flags := df * 2 + mf in
  ipv4_build ck tos plen ident frag flags ttl proto src dst =
  Ok (rfc791_bytes 4 5 prec d t r (plen + 20) ident df mf frag ttl proto
        (ipv4_cksum ck tos (plen + 20) ident (flags * 8192 + frag) ttl proto src dst) src dst).
Proof.
  intros ck prec d t r plen ident df mf frag ttl proto src dst
         Hprec Hd Ht Hr Hp Hp2 Hid Hdf Hmf Hfrag Httl Hpr Hsrc Hdst tos flags.
  rewrite ipv4_build_ok by (subst flags; lia).
  assert (Hck : u16 (ipv4_cksum ck tos (plen + 20) ident (flags * 8192 + frag) ttl proto src dst)).
  { apply ipv4_cksum_u16; subst tos flags; unfold u8, byte, u16 in *; try assumption; lia. }
  generalize dependent (ipv4_cksum ck tos (plen + 20) ident (flags * 8192 + frag) ttl proto src dst).
  intros cks Hck. f_equal. subst tos flags.
  unfold rfc791_bytes, octets32, be16, be32, u8, u16, u32 in *. norm_pow. cbn [app].
  list_eq.
Qed.

(* TypeOfService::new / ControlFlags::new produce exactly these numbers *)
Lemma tos_new_arith : forall prec d t r, 0 <= prec < 8 -> 0 <= d < 2 -> 0 <= t < 2 -> 0 <= r < 2 ->
  tos_new prec d t r = prec * 32 + d * 16 + t * 8 + r * 4.
Proof.
  intros prec d t r Hp Hd Ht Hr.
  assert (forallb (fun p => forallb (fun d => forallb (fun t => forallb (fun r =>
            tos_new p d t r =? p * 32 + d * 16 + t * 8 + r * 4) (zrange 2)) (zrange 2)) (zrange 2)) (zrange 8) = true)
    as S by (vm_compute; reflexivity).
  pose proof (zrange_forallb 8 _ S prec Hp) as S1. cbv beta in S1.
  pose proof (zrange_forallb 2 _ S1 d Hd) as S2. cbv beta in S2.
  pose proof (zrange_forallb 2 _ S2 t Ht) as S3. cbv beta in S3.
  pose proof (zrange_forallb 2 _ S3 r Hr) as S4. cbv beta in S4. lia.
Qed.
Lemma cf_new_arith : forall may last,
  cf_new may last = b2z (negb may) * 2 + b2z (negb last) /\
  cf_may_fragment (cf_new may last) = may /\ cf_is_last (cf_new may last) = last.
Proof. intros [|] [|]; vm_compute; auto. Qed.

(* the decoder extracts exactly the fields of the RFC diagram *)
Lemma ipv4_decode_fields_rfc : forall fck ftl ck bs h, bytes bs ->
  ipv4_decode fck ftl ck bs = Ok h -> h = rfc791_fields bs.
Proof.
  intros fck ftl ck bs h Hb H.
  apply ipv4_decode_ok_inv in H.
  destruct H as (b0 & b1 & b2 & b3 & b4 & b5 & b6 & b7 & b8 & b9 & b10 & b11 & b12 & b13 & b14 & b15
                 & b16 & b17 & b18 & b19 & rest & -> & Hv & Hi & Ht & Htl & Hfl & Hm & ->).
  repeat (apply bytes_cons in Hb; let B := fresh "B" in destruct Hb as [B Hb]).
  unfold rfc791_fields, row, fld. cbn [Nat.mul Nat.add nth].
  rewrite band_15, band_8191, shr_13. unfold of_be16, of_be32, byte in *. norm_pow.
  f_equal; lia.
Qed.

(* ---- C18 for the IPv4 header ---------------------------------------------------- *)
Lemma wsum_20 : forall b0 b1 b2 b3 b4 b5 b6 b7 b8 b9 b10 b11 b12 b13 b14 b15 b16 b17 b18 b19,
  wsum [b0; b1; b2; b3; b4; b5; b6; b7; b8; b9; b10; b11; b12; b13; b14; b15; b16; b17; b18; b19] =
  (b0 * 256 + b1) + (b2 * 256 + b3) + (b4 * 256 + b5) + (b6 * 256 + b7) + (b8 * 256 + b9)
  + (b10 * 256 + b11) + (b12 * 256 + b13) + (b14 * 256 + b15) + (b16 * 256 + b17) + (b18 * 256 + b19).
Proof. intros. rewrite !wsum_two, wsum_nil. lia. Qed.

Lemma firstn_20_cons : forall b0 b1 b2 b3 b4 b5 b6 b7 b8 b9 b10 b11 b12 b13 b14 b15 b16 b17 b18 b19 (rest : list Z),
  firstn 20 (b0 :: b1 :: b2 :: b3 :: b4 :: b5 :: b6 :: b7 :: b8 :: b9 :: b10 :: b11 :: b12 :: b13 :: b14
               :: b15 :: b16 :: b17 :: b18 :: b19 :: rest) =
  [b0; b1; b2; b3; b4; b5; b6; b7; b8; b9; b10; b11; b12; b13; b14; b15; b16; b17; b18; b19].
Proof. reflexivity. Qed.

(* the integer word sum of a 20-byte header = the other ten words + the field *)
Lemma ipv4_wsum_split : forall b0 b1 b2 b3 b4 b5 b6 b7 b8 b9 b10 b11 b12 b13 b14 b15 b16 b17 b18 b19,
  byte b12 -> byte b13 -> byte b14 -> byte b15 -> byte b16 -> byte b17 -> byte b18 -> byte b19 ->
  wsum [b0; b1; b2; b3; b4; b5; b6; b7; b8; b9; b10; b11; b12; b13; b14; b15; b16; b17; b18; b19] =
  ipv4_others b0 b1 (of_be16 b2 b3) (of_be16 b4 b5) (of_be16 b6 b7) b8 b9
              (of_be32 b12 b13 b14 b15) (of_be32 b16 b17 b18 b19) + of_be16 b10 b11.
Proof.
  intros. rewrite wsum_20. unfold ipv4_others, halves, of_be16, of_be32, byte in *. lia.
Qed.

(* every accepted header verifies under RFC 1071 (both before and after the repair) *)
Lemma ipv4_accepted_verifies : forall fck ftl bs h, bytes bs ->
  ipv4_decode fck ftl true bs = Ok h -> rfc1071_verifies (firstn 20 bs) = true.
Proof.
  intros fck ftl bs h Hb H.
  apply ipv4_decode_ok_inv in H.
  destruct H as (b0 & b1 & b2 & b3 & b4 & b5 & b6 & b7 & b8 & b9 & b10 & b11 & b12 & b13 & b14 & b15
                 & b16 & b17 & b18 & b19 & rest & -> & Hv & Hi & Ht & Htl & Hfl & Hm & ->).
  rewrite firstn_20_cons.
  repeat (apply bytes_cons in Hb; let B := fresh "B" in destruct Hb as [B Hb]).
  assert (b0 = 69) by (apply ipv4_b0_69; assumption). subst b0.
  rewrite verifies_wsum by (repeat (apply bytes_cons; split; try assumption); constructor).
  rewrite ipv4_wsum_split by assumption.
  rewrite ipv4_chain_norm in Hm
    by (try apply of_be16_range; try apply of_be32_range; assumption).
  assert (Hpos : 0 < ipv4_others 69 b1 (of_be16 b2 b3) (of_be16 b4 b5) (of_be16 b6 b7) b8 b9
                                  (of_be32 b12 b13 b14 b15) (of_be32 b16 b17 b18 b19)).
  { apply ipv4_others_pos; try apply of_be16_range; try apply of_be32_range; try assumption. lia. }
  assert (Hf : u16 (of_be16 b10 b11)) by (apply of_be16_range; assumption).
  apply Z.eqb_eq.
  destruct fck.
  - apply verify_iff_match_fixed; assumption.
  - apply verify_iff_match_orig; try assumption. left. assumption.
Qed.

(* structural part of the decoder's decision on a string of >= 20 bytes *)
Definition ipv4_struct_ok (bs : list Z) : bool :=
  (shr (nth 0 bs 0) 4 =? 4) && (band (nth 0 bs 0) 15 =? 5) && (band (nth 1 bs 0) 3 =? 0) &&
  (20 <=? of_be16 (nth 2 bs 0) (nth 3 bs 0)) &&
  (band (shr (of_be16 (nth 6 bs 0) (nth 7 bs 0)) 13) 4 =? 0).

(* "decode accepts iff": the repaired decoder accepts exactly the well-formed
   headers whose 20 bytes verify *)
Lemma ipv4_accept_iff : forall bs, bytes bs -> (20 <= length bs)%nat ->
  ((exists h, ipv4_decode true true true bs = Ok h) <->
   ipv4_struct_ok bs = true /\ rfc1071_verifies (firstn 20 bs) = true).
Proof.
  intros bs Hb Hl.
  do 20 (destruct bs as [|? bs]; [cbn in Hl; lia|]).
  rename z into b0, z0 into b1, z1 into b2, z2 into b3, z3 into b4, z4 into b5, z5 into b6, z6 into b7,
         z7 into b8, z8 into b9, z9 into b10, z10 into b11, z11 into b12, z12 into b13, z13 into b14,
         z14 into b15, z15 into b16, z16 into b17, z17 into b18, z18 into b19.
  split.
  - intros [h H]. split.
    + pose proof H as H'. apply ipv4_decode_ok_inv in H'.
      destruct H' as (c0 & c1 & c2 & c3 & c4 & c5 & c6 & c7 & c8 & c9 & c10 & c11 & c12 & c13 & c14 & c15
                      & c16 & c17 & c18 & c19 & rest & E & Hv & Hi & Ht & Htl & Hfl & Hm & _).
      inversion E; subst. unfold ipv4_struct_ok. cbn [nth]. specialize (Htl eq_refl). lia.
    + eapply ipv4_accepted_verifies; eassumption.
  - intros [Hs Hv]. unfold ipv4_struct_ok in Hs. cbn [nth] in Hs.
    rewrite firstn_20_cons in Hv.
    rewrite ipv4_decode_20.
    repeat (apply bytes_cons in Hb; let B := fresh "B" in destruct Hb as [B Hb]).
    assert (E0 : shr b0 4 = 4) by lia. assert (E1 : band b0 15 = 5) by lia.
    assert (b0 = 69) by (apply ipv4_b0_69; assumption). subst b0.
    rewrite E0, E1. replace (band b1 3) with 0 by lia.
    replace (of_be16 b2 b3 <? 20) with false by lia.
    replace (band (shr (of_be16 b6 b7) 13) 4) with 0 by lia.
    rewrite !Z.eqb_refl. cbn [negb andb].
    rewrite verifies_wsum in Hv by (repeat (apply bytes_cons; split; try assumption); constructor).
    rewrite ipv4_wsum_split in Hv by assumption.
    rewrite ipv4_chain_norm by (try apply of_be16_range; try apply of_be32_range; assumption).
    assert (Hpos : 0 < ipv4_others 69 b1 (of_be16 b2 b3) (of_be16 b4 b5) (of_be16 b6 b7) b8 b9
                                    (of_be32 b12 b13 b14 b15) (of_be32 b16 b17 b18 b19)).
    { apply ipv4_others_pos; try apply of_be16_range; try apply of_be32_range; try assumption. lia. }
    assert (Hf : u16 (of_be16 b10 b11)) by (apply of_be16_range; assumption).
    apply Z.eqb_eq in Hv. apply verify_iff_match_fixed in Hv; try assumption.
    rewrite Hv. cbn [negb]. eauto.
Qed.

(* corruption the checksum can detect (the sum of the header changes modulo
   65535) is rejected *)
Lemma ipv4_corruption_detected : forall fck ftl bs bs' h, bytes bs -> bytes bs' ->
  ipv4_decode fck ftl true bs = Ok h ->
  wsum (firstn 20 bs') mod 65535 <> wsum (firstn 20 bs) mod 65535 ->
  forall h', ipv4_decode fck ftl true bs' <> Ok h'.
Proof.
  intros fck ftl bs bs' h Hb Hb' H Hne h' H'.
  apply ipv4_accepted_verifies in H; [|assumption].
  apply ipv4_accepted_verifies in H'; [|assumption].
  assert (F : forall l, bytes l -> bytes (firstn 20 l)) by (intros; apply bytes_firstn; assumption).
  rewrite verifies_wsum in H, H' by (apply F; assumption).
  apply Z.eqb_eq in H, H'.
  pose proof (wsum_nonneg _ (F _ Hb)) as N. pose proof (wsum_nonneg _ (F _ Hb')) as N'.
  apply oc_norm_ones in H; [|assumption]. apply oc_norm_ones in H'; [|assumption].
  lia.
Qed.

(* what the builder emits verifies *)
Lemma ipv4_emitted_verifies : forall tos plen ident frag flags ttl proto src dst bs,
  u8 tos -> 0 <= plen -> plen + 20 <= 65535 -> u16 ident -> 0 <= frag <= 8191 -> 0 <= flags < 8 ->
  u8 ttl -> u8 proto -> u32 src -> u32 dst ->
  ipv4_build true tos plen ident frag flags ttl proto src dst = Ok bs ->
  length bs = 20%nat /\ rfc1071_verifies bs = true.
Proof.
  intros tos plen ident frag flags ttl proto src dst bs Htos Hp Hp2 Hid Hfrag Hfl Httl Hpr Hsrc Hdst H.
  rewrite ipv4_build_ok in H by lia. apply Ok_inj in H. subst bs.
  split; [reflexivity|].
  assert (Hff : u16 (flags * 8192 + frag)) by (unfold u16; lia).
  assert (Htl : u16 (plen + 20)) by (unfold u16; lia).
  assert (Hck : u16 (ipv4_cksum true tos (plen + 20) ident (flags * 8192 + frag) ttl proto src dst)).
  { apply ipv4_cksum_u16; unfold u8, byte in *; assumption. }
  unfold be16, be32. cbn [app].
  rewrite verifies_wsum.
  2:{ unfold u8, u16, u32, byte in *. repeat (apply bytes_cons; split; [unfold byte; lia|]). constructor. }
  rewrite ipv4_wsum_split by (unfold byte; lia).
  rewrite !of_be16_be16, !of_be32_be32 by assumption.
  rewrite ipv4_cksum_chain.
  rewrite ipv4_chain_norm by (unfold u8, byte in *; (assumption || lia)).
  apply Z.eqb_eq. apply emitted_sum_verifies.
  apply Z.lt_le_incl. apply ipv4_others_pos; unfold u8, byte in *; (assumption || lia).
Qed.

(* a conforming sender's header (RFC 1071 (2): field = complement of the sum
   over the header with a zero field) is accepted after the repair *)
Lemma ipv4_accepts_reference : forall b1 b2 b3 b4 b5 b6 b7 b8 b9 b12 b13 b14 b15 b16 b17 b18 b19 rest,
  bytes [b1; b2; b3; b4; b5; b6; b7; b8; b9; b12; b13; b14; b15; b16; b17; b18; b19] ->
  let zeroed := [69; b1; b2; b3; b4; b5; b6; b7; b8; b9; 0; 0; b12; b13; b14; b15; b16; b17; b18; b19] in
  let c := rfc1071_checksum zeroed in
  let hdr := [69; b1; b2; b3; b4; b5; b6; b7; b8; b9; c / 256 mod 256; c mod 256;
              b12; b13; b14; b15; b16; b17; b18; b19] in
  ipv4_struct_ok hdr = true ->
  exists h, ipv4_decode true true true (hdr ++ rest) = Ok h /\ h = rfc791_fields hdr.
Proof.
  intros b1 b2 b3 b4 b5 b6 b7 b8 b9 b12 b13 b14 b15 b16 b17 b18 b19 rest Hb zeroed c hdr Hs.
  repeat (apply bytes_cons in Hb; let B := fresh "B" in destruct Hb as [B Hb]).
  assert (Hz : bytes zeroed).
  { subst zeroed. repeat (apply bytes_cons; split; [assumption || (unfold byte; lia)|]). constructor. }
  assert (Hc : c = 65535 - oc_norm (wsum zeroed)).
  { subst c. unfold rfc1071_checksum. rewrite oc_sum_norm by (apply words_u16; assumption). reflexivity. }
  pose proof (oc_norm_range (wsum zeroed) (wsum_nonneg _ Hz)) as Rn.
  assert (Rc : u16 c) by (unfold u16; lia).
  unfold ipv4_struct_ok in Hs. subst hdr. cbn [nth] in Hs. cbn [app].
  rewrite ipv4_decode_20.
  replace (shr 69 4) with 4 by reflexivity. replace (band 69 15) with 5 by reflexivity.
  replace (band b1 3) with 0 by lia.
  replace (of_be16 b2 b3 <? 20) with false by lia.
  replace (band (shr (of_be16 b6 b7) 13) 4) with 0 by lia.
  rewrite !Z.eqb_refl. cbn [negb andb].
  rewrite of_be16_be16 by assumption.
  rewrite ipv4_chain_norm by (try apply of_be16_range; try apply of_be32_range; (assumption || (unfold byte; lia))).
  set (S := ipv4_others 69 b1 (of_be16 b2 b3) (of_be16 b4 b5) (of_be16 b6 b7) b8 b9
                        (of_be32 b12 b13 b14 b15) (of_be32 b16 b17 b18 b19)) in *.
  assert (HS : wsum zeroed = S).
  { subst zeroed S. rewrite ipv4_wsum_split by assumption. replace (of_be16 0 0) with 0 by reflexivity. lia. }
  assert (Hpos : 0 < S).
  { subst S. apply ipv4_others_pos; try apply of_be16_range; try apply of_be32_range;
      (assumption || (unfold byte; lia)). }
  rewrite HS in Hc, Rn.
  assert (Hm : ck_match true (as_u16 true (oc_norm S)) c = true).
  { apply verify_iff_match_fixed; try assumption.
    rewrite Hc. clear -Hpos. clearbody S. unfold oc_norm. split_ifs; lia. }
  rewrite Hm. cbn [negb]. eexists. split; [reflexivity|].
  unfold rfc791_fields, row, fld. cbn [Nat.mul Nat.add nth].
  rewrite band_8191, shr_13. unfold of_be16, of_be32, byte, u16 in *. norm_pow.
  f_equal; lia.
Qed.

(* before the repair: a conforming header whose other words sum to 0xffff
   (field 0x0000) was rejected; after it the same string is accepted *)
Definition ipv4_ffff_witness : list Z :=
  [69; 240; 108; 207; 192; 210; 42; 223; 163; 205; 0; 0; 211; 117; 234; 74; 0; 0; 0; 0].
Lemma ipv4_accepts_reference_orig_refuted :
  rfc1071_verifies ipv4_ffff_witness = true /\
  nth 10 ipv4_ffff_witness 0 * 256 + nth 11 ipv4_ffff_witness 0
    = rfc1071_checksum ipv4_ffff_witness (* the field is zero, so this is the conforming value *) /\
  ipv4_decode false true true ipv4_ffff_witness = Err (E_CK 0 65535) /\
  is_ok (ipv4_decode true true true ipv4_ffff_witness) = true.
Proof. vm_compute. auto. Qed.

(* before the total-length repair: total_length < 20 was accepted and the
   re-encoding of the accepted value panics *)
Definition ipv4_totlen_witness : list Z :=
  [69; 0; 0; 0; 0; 0; 0; 0; 0; 0; 0; 0; 0; 0; 0; 0; 0; 0; 0; 0].
Lemma ipv4_encode_decode_orig_refuted :
  exists h, ipv4_decode false false false ipv4_totlen_witness = Ok h /\
            ipv4_encode false h = Panic 121 /\
            ipv4_decode true true false ipv4_totlen_witness = Err E_TOTLEN.
Proof. exists (mk_ipv4 5 0 0 0 0 0 0 0 0 0 0). vm_compute. auto. Qed.
(* with the code before the repair the clause holds exactly for total_length >= 20 *)
Lemma ipv4_encode_decode_orig : forall fck ck bs h, bytes bs ->
  (ck = false \/ fck = false) ->
  ipv4_decode fck false ck bs = Ok h -> 20 <= ip_len h -> ipv4_encode ck h = Ok (firstn 20 bs).
Proof.
  intros fck ck bs h Hb Hmode H Hlen.
  apply ipv4_encode_decode with (fck := fck); try assumption.
  pose proof H as H'. apply ipv4_decode_ok_inv in H'.
  destruct H' as (b0 & b1 & b2 & b3 & b4 & b5 & b6 & b7 & b8 & b9 & b10 & b11 & b12 & b13 & b14 & b15
                  & b16 & b17 & b18 & b19 & rest & -> & Hv & Hi & Ht & Htl & Hfl & Hm & ->).
  cbn [ip_len] in Hlen.
  rewrite ipv4_decode_20 in *.
  replace (of_be16 b2 b3 <? 20) with false by lia.
  rewrite andb_false_r. cbn [andb] in H. exact H.
Qed.

(* with checksums computed, the repaired decoder hands on the received field;
   the one case where re-encoding differs (outside C08's default build) *)
Lemma ipv4_encode_decode_ck_corner :
  exists h, ipv4_decode true true true ipv4_ffff_witness = Ok h /\
            ipv4_encode true h <> Ok (firstn 20 ipv4_ffff_witness).
Proof.
  exists (mk_ipv4 5 240 27855 49362 2783 1 163 205 0 3547720266 0).
  split; [vm_compute; reflexivity|]. vm_compute. discriminate.
Qed.

(* every single-bit corruption of the 20 header bytes of an accepted header is rejected *)
Lemma ipv4_single_flip_rejected : forall fck ftl bs h i j, bytes bs ->
  ipv4_decode fck ftl true bs = Ok h -> (i < 20)%nat -> 0 <= j < 8 ->
  forall h', ipv4_decode fck ftl true (flip_at bs i j) <> Ok h'.
Proof.
  intros fck ftl bs h i j Hb H Hi Hj.
  assert (Hl : (20 <= length bs)%nat).
  { apply ipv4_decode_ok_inv in H. destruct H as (? & ? & ? & ? & ? & ? & ? & ? & ? & ? & ? & ? & ? & ? & ?
      & ? & ? & ? & ? & ? & ? & -> & _). cbn [length]. lia. }
  eapply ipv4_corruption_detected; try eassumption.
  - apply flip_at_bytes; assumption.
  - rewrite firstn_flip_at by assumption.
    pose proof (single_flip_changes_sum (firstn 20 bs) i j 0) as S. cbn [Z.add] in S.
    apply S; [rewrite firstn_length; lia | apply bytes_firstn; assumption | assumption].
Qed.
(* two flipped bits: rejected unless they form a compensating pair *)
Lemma ipv4_double_flip_rejected : forall fck ftl bs h i1 j1 i2 j2, bytes bs ->
  ipv4_decode fck ftl true bs = Ok h -> (i1 < 20)%nat -> (i2 < 20)%nat -> 0 <= j1 < 8 -> 0 <= j2 < 8 ->
  (i1 <> i2 \/ j1 <> j2) ->
  ~ (bit_exp i1 j1 = bit_exp i2 j2 /\ Z.testbit (nth i1 bs 0) j1 <> Z.testbit (nth i2 bs 0) j2) ->
  forall h', ipv4_decode fck ftl true (flip_at (flip_at bs i1 j1) i2 j2) <> Ok h'.
Proof.
  intros fck ftl bs h i1 j1 i2 j2 Hb H Hi1 Hi2 Hj1 Hj2 Hne Hnc.
  assert (Hl : (20 <= length bs)%nat).
  { apply ipv4_decode_ok_inv in H. destruct H as (? & ? & ? & ? & ? & ? & ? & ? & ? & ? & ? & ? & ? & ? & ?
      & ? & ? & ? & ? & ? & ? & -> & _). cbn [length]. lia. }
  eapply ipv4_corruption_detected; try eassumption.
  - apply flip_at_bytes; [apply flip_at_bytes|]; assumption.
  - rewrite !firstn_flip_at by assumption.
    pose proof (double_flip_unchanged_iff (firstn 20 bs) i1 j1 i2 j2 0) as D. cbn [Z.add] in D.
    assert (N1 : nth i1 (firstn 20 bs) 0 = nth i1 bs 0) by (apply nth_firstn_lt; assumption).
    assert (N2 : nth i2 (firstn 20 bs) 0 = nth i2 bs 0) by (apply nth_firstn_lt; assumption).
    rewrite N1, N2 in D. intro E. apply Hnc. apply D; try assumption;
      try (rewrite firstn_length; lia). apply bytes_firstn; assumption.
Qed.

(* the decoder accepts the RFC 791 encoding of every supported field combination and returns
   exactly those fields *)
Lemma ipv4_decode_rfc : forall fck ftl ck prec d t r plen ident df mf frag ttl proto src dst payload,
  0 <= prec < 8 -> 0 <= d < 2 -> 0 <= t < 2 -> 0 <= r < 2 ->
  0 <= plen -> plen + 20 <= 65535 -> u16 ident -> 0 <= df < 2 -> 0 <= mf < 2 -> 0 <= frag <= 8191 ->
  u8 ttl -> u8 proto -> u32 src -> u32 dst ->
  let tos := prec * 32 + d * 16 + t * 8 + r * 4 in
  let flags := df * 2 + mf in
  let cks := ipv4_cksum ck tos (plen + 20) ident (flags * 8192 + frag) ttl proto src dst in
  ipv4_decode fck ftl ck
    (rfc791_bytes 4 5 prec d t r (plen + 20) ident df mf frag ttl proto cks src dst ++ payload)
  = Ok (mk_ipv4 5 tos (plen + 20) ident frag flags ttl proto cks src dst).
Proof.
  intros fck ftl ck prec d t r plen ident df mf frag ttl proto src dst payload
         Hprec Hd Ht Hr Hp Hp2 Hid Hdf Hmf Hfrag Httl Hpr Hsrc Hdst tos flags cks.
  destruct (ipv4_decode_encode fck ftl ck (mk_ipv4 5 tos (plen + 20) ident frag flags ttl proto cks src dst) payload)
    as (bs & He & _ & Hdec).
  { unfold ipv4_wf. cbn [ip_ihl ip_tos ip_len ip_id ip_frag ip_flags ip_ttl ip_proto ip_ck ip_src ip_dst].
    subst cks tos flags. unfold u8, u16, u32 in *. repeat split; try lia; try assumption; try reflexivity. }
  unfold ipv4_encode in He. cbn [ip_ihl ip_tos ip_len ip_id ip_frag ip_flags ip_ttl ip_proto ip_ck ip_src ip_dst] in He.
  replace (plen + 20 <? 20) with false in He by lia.
  replace (plen + 20 - 20) with plen in He by lia.
  subst cks tos flags. rewrite ipv4_matches_rfc in He by assumption.
  apply Ok_inj in He. subst bs. exact Hdec.
Qed.
