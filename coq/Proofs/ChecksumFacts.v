(* Lemmas about the Internet checksum model (Model/Checksum.v). *)
From Elvis Require Import Model.Base Model.Bytes Model.Checksum Proofs.BytesFacts.
From Coq Require Import ZifyBool.
Ltac Zify.zify_post_hook ::= Z.div_mod_to_equations.
Local Open Scope Z_scope.

Ltac split_ifs :=
  repeat match goal with
         | |- context [if ?c then _ else _] =>
             lazymatch c with
             | context [if _ then _ else _] => fail
             | _ => let E := fresh "E" in destruct c eqn:E
             end
         end.

Ltac split_ifs_all :=
  repeat match goal with
         | |- context [if ?c then _ else _] =>
             lazymatch c with
             | context [if _ then _ else _] => fail
             | _ => let E := fresh "E" in destruct c eqn:E
             end
         | H : context [if ?c then _ else _] |- _ =>
             lazymatch c with
             | context [if _ then _ else _] => fail
             | _ => let E := fresh "E" in destruct c eqn:E
             end
         end.

(* ---- the adder ------------------------------------------------------------ *)

(* the checked `sum + carry` of utility.rs l.24 never overflows and the code
   computes the end-around-carry sum *)
Lemma add_u16_checked_ok : forall acc v, u16 acc -> u16 v ->
  add_u16_checked acc v = Ok (add16 acc v).
Proof.
  unfold u16, add_u16_checked, add16. intros acc v Ha Hv. cbv zeta.
  destruct (65536 <=? acc + v) eqn:E0; split_ifs; try (f_equal; lia); exfalso; lia.
Qed.
Lemma add16_range : forall acc v, u16 acc -> u16 v -> u16 (add16 acc v).
Proof. unfold u16, add16. intros. cbv zeta. split_ifs; lia. Qed.

Lemma oc_norm_range : forall s, 0 <= s -> 0 <= oc_norm s < 65536.
Proof. unfold oc_norm. intros. split_ifs; lia. Qed.
Lemma oc_norm_u16 : forall s, 0 <= s -> u16 (oc_norm s).
Proof. exact oc_norm_range. Qed.
Lemma oc_norm_mod : forall s, 0 <= s -> oc_norm s mod 65535 = s mod 65535.
Proof. unfold oc_norm. intros. split_ifs; lia. Qed.
Lemma oc_norm_zero : forall s, 0 <= s -> (oc_norm s = 0 <-> s = 0).
Proof. unfold oc_norm. intros. split_ifs; lia. Qed.
Lemma oc_norm_ones : forall s, 0 <= s -> (oc_norm s = 65535 <-> 0 < s /\ s mod 65535 = 0).
Proof. unfold oc_norm. intros. split_ifs; lia. Qed.
Lemma oc_norm_small : forall s, 0 <= s < 65536 -> oc_norm s = s.
Proof. unfold oc_norm. intros. split_ifs; lia. Qed.

(* one step: adding a word to the normal form of s gives the normal form of s + v *)
Lemma add16_norm : forall s v, 0 <= s -> u16 v -> add16 (oc_norm s) v = oc_norm (s + v).
Proof.
  unfold add16, oc_norm, u16. intros s v Hs Hv. cbv zeta. split_ifs; lia.
Qed.

Lemma zsum_cons : forall a l, zsum (a :: l) = a + zsum l.
Proof. reflexivity. Qed.
Lemma zsum_app : forall a b, zsum (a ++ b) = zsum a + zsum b.
Proof. induction a; intros; [reflexivity|]. cbn [app]. rewrite !zsum_cons, IHa. lia. Qed.
Lemma zsum_nonneg : forall ws, Forall u16 ws -> 0 <= zsum ws.
Proof.
  induction 1 as [|w ws Hw _ IH]; [cbn; lia|]. rewrite zsum_cons. unfold u16 in Hw. lia.
Qed.

Lemma fold_add16_norm : forall ws s, 0 <= s -> Forall u16 ws ->
  fold_left add16 ws (oc_norm s) = oc_norm (s + zsum ws).
Proof.
  induction ws as [|w ws IH]; intros s Hs Hws.
  - cbn. f_equal. lia.
  - inversion Hws as [|? ? Hw Hrest]; subst. cbn [fold_left]. rewrite zsum_cons.
    rewrite add16_norm by assumption. rewrite IH; [f_equal; lia | unfold u16 in Hw; lia | assumption].
Qed.

(* the one's-complement sum is the normal form of the integer sum *)
Lemma oc_sum_norm : forall ws, Forall u16 ws -> oc_sum ws = oc_norm (zsum ws).
Proof.
  intros ws H. unfold oc_sum. change 0 with (oc_norm 0) at 1.
  rewrite fold_add16_norm by (assumption || lia). f_equal.
Qed.

(* DESIGN "acc_congr" *)
Lemma acc_congr : forall ws, Forall u16 ws -> oc_sum ws mod 65535 = zsum ws mod 65535.
Proof. intros. rewrite oc_sum_norm by assumption. apply oc_norm_mod. apply zsum_nonneg. assumption. Qed.
Lemma zsum_zero_iff : forall ws, Forall u16 ws -> (zsum ws = 0 <-> Forall (fun w => w = 0) ws).
Proof.
  induction 1 as [|w ws Hw Hws IH]; [cbn; split; auto|].
  rewrite zsum_cons. pose proof (zsum_nonneg ws Hws). unfold u16 in Hw. split.
  - intro E. constructor; [lia|]. apply IH. lia.
  - intro F. inversion F; subst. apply IH in H3. lia.
Qed.
Lemma oc_sum_zero_iff : forall ws, Forall u16 ws -> (oc_sum ws = 0 <-> Forall (fun w => w = 0) ws).
Proof.
  intros ws H. rewrite oc_sum_norm by assumption.
  rewrite oc_norm_zero by (apply zsum_nonneg; assumption). apply zsum_zero_iff. assumption.
Qed.

(* RFC 1071 4.1: 32-bit accumulation and two carry folds compute the same value *)
Lemma fold32_norm : forall s, 0 <= s < 4294967296 -> fold32 s = oc_norm s.
Proof. unfold fold32, oc_norm. intros s Hs. cbv zeta. split_ifs; lia. Qed.

(* ---- words of a byte string ----------------------------------------------- *)
Lemma list_ind2 : forall (A : Type) (P : list A -> Prop),
  P [] -> (forall a, P [a]) -> (forall a b r, P r -> P (a :: b :: r)) -> forall l, P l.
Proof.
  intros A P H0 H1 H2. fix IH 1. intros [|a [|b r]]; [exact H0 | apply H1 | apply H2, IH].
Qed.

Lemma words_u16 : forall bs, bytes bs -> Forall u16 (words bs).
Proof.
  induction bs as [| a | a b r IH] using list_ind2; intro H; cbn [words].
  - constructor.
  - apply bytes_cons in H. destruct H as [Ha _]. constructor; [|constructor]. unfold byte, u16 in *. lia.
  - apply bytes_cons in H. destruct H as [Ha H]. apply bytes_cons in H. destruct H as [Hb H].
    constructor; [unfold byte, u16 in *; lia | auto].
Qed.
Lemma wsum_nil : wsum [] = 0.
Proof. reflexivity. Qed.
Lemma wsum_one : forall a, wsum [a] = a * 256.
Proof. intros. unfold wsum. cbn. lia. Qed.
Lemma wsum_two : forall a b r, wsum (a :: b :: r) = a * 256 + b + wsum r.
Proof. intros. unfold wsum. cbn [words]. rewrite zsum_cons. reflexivity. Qed.
Lemma wsum_nonneg : forall bs, bytes bs -> 0 <= wsum bs.
Proof. intros. apply zsum_nonneg. apply words_u16. assumption. Qed.
Lemma wsum_bsum : forall l, wsum l = bsum true l.
Proof.
  induction l as [| a | a b r IH] using list_ind2.
  - reflexivity.
  - rewrite wsum_one. cbn [bsum]. lia.
  - rewrite wsum_two, IH. cbn [bsum negb]. lia.
Qed.
Lemma wsum_app_even : forall a b, Nat.even (length a) = true -> wsum (a ++ b) = wsum a + wsum b.
Proof.
  induction a as [| x | x y r IH] using list_ind2; intros b He.
  - rewrite wsum_nil. reflexivity.
  - discriminate.
  - cbn [app]. rewrite !wsum_two. rewrite IH; [lia|]. exact He.
Qed.
Lemma wsum_4 : forall a b c d, wsum [a; b; c; d] = a * 256 + b + (c * 256 + d).
Proof. intros. rewrite !wsum_two, wsum_nil. lia. Qed.

(* accumulate_remainder in normal form *)
Lemma rem_fold_norm : forall l s, bytes l -> 0 <= s ->
  rem_fold (oc_norm s) l = oc_norm (s + wsum l).
Proof.
  induction l as [| a | a b r IH] using list_ind2; intros s Hl Hs.
  - cbn [rem_fold]. rewrite wsum_nil. f_equal. lia.
  - apply bytes_cons in Hl. destruct Hl as [Ha _]. cbn [rem_fold]. rewrite wsum_one.
    rewrite add16_norm; [f_equal; unfold of_be16; lia | assumption | unfold byte, u16, of_be16 in *; lia].
  - apply bytes_cons in Hl. destruct Hl as [Ha Hl]. apply bytes_cons in Hl. destruct Hl as [Hb Hl].
    cbn [rem_fold]. rewrite wsum_two.
    rewrite add16_norm; [| assumption | unfold byte, u16, of_be16 in *; lia].
    rewrite IH; [f_equal; unfold of_be16; lia | assumption | unfold byte, of_be16 in *; lia].
Qed.

Lemma ck_u16_norm : forall s v, 0 <= s -> u16 v -> ck_u16 true (oc_norm s) v = oc_norm (s + v).
Proof. intros. unfold ck_u16. apply add16_norm; assumption. Qed.
Lemma ck_u8_norm : forall s a b, 0 <= s -> byte a -> byte b ->
  ck_u8 true (oc_norm s) a b = oc_norm (s + (a * 256 + b)).
Proof.
  intros. unfold ck_u8. rewrite ck_u16_norm; [reflexivity | assumption | apply of_be16_range; assumption].
Qed.
Definition halves (v : Z) : Z := v / 65536 + v mod 65536.
Lemma ck_u32_norm : forall s v, 0 <= s -> u32 v -> ck_u32 true (oc_norm s) v = oc_norm (s + halves v).
Proof.
  intros s v Hs Hv. unfold ck_u32, halves. unfold u32 in Hv.
  rewrite ck_u8_norm by (assumption || unfold byte; lia).
  rewrite ck_u8_norm by (unfold byte; lia). f_equal. lia.
Qed.
Lemma ck_rem_norm : forall s l, 0 <= s -> bytes l -> ck_rem true (oc_norm s) l = oc_norm (s + wsum l).
Proof. intros. unfold ck_rem. apply rem_fold_norm; assumption. Qed.
Lemma halves_wsum : forall v, u32 v -> halves v = wsum (be32 v).
Proof. intros v Hv. unfold halves, be32, u32 in *. rewrite wsum_4. lia. Qed.
Lemma halves_range : forall v, u32 v -> 0 <= halves v < 131072.
Proof. unfold u32, halves. intros. lia. Qed.

(* feature off: nothing is accumulated *)
Lemma ck_off_u16 : forall c v, ck_u16 false c v = c. Proof. reflexivity. Qed.
Lemma ck_off_u8 : forall c a b, ck_u8 false c a b = c. Proof. reflexivity. Qed.
Lemma ck_off_u32 : forall c v, ck_u32 false c v = c. Proof. reflexivity. Qed.
Lemma ck_off_rem : forall c l, ck_rem false c l = c. Proof. reflexivity. Qed.
Lemma as_u16_off : forall c, as_u16 false c = 0. Proof. reflexivity. Qed.

(* ---- finishing -------------------------------------------------------------- *)
Lemma as_u16_on : forall x, u16 x -> as_u16 true x = if x =? 65535 then 65535 else 65535 - x.
Proof. intros x Hx. unfold as_u16. rewrite bnot16_sub by exact Hx. reflexivity. Qed.
Lemma as_u16_range : forall on x, u16 x -> u16 (as_u16 on x).
Proof.
  intros [|] x Hx; [rewrite as_u16_on by assumption | cbn]; unfold u16 in *; split_ifs; lia.
Qed.
(* as_u16 never yields 0x0000 when checksums are computed (0 = "no checksum" in UDP) *)
Lemma as_u16_nonzero : forall x, u16 x -> as_u16 true x <> 0.
Proof. intros x Hx. rewrite as_u16_on by assumption. unfold u16 in *. split_ifs; lia. Qed.

(* "emitted_verifies", arithmetic core: the words summed so far (integer sum s)
   together with the emitted checksum have the one's-complement sum 0xffff *)
Lemma emitted_sum_verifies : forall s, 0 <= s -> oc_norm (s + as_u16 true (oc_norm s)) = 65535.
Proof.
  intros s Hs. rewrite as_u16_on by (apply oc_norm_u16; assumption).
  unfold oc_norm. split_ifs; lia.
Qed.

(* the repaired comparison accepts exactly the fields that verify *)
Lemma verify_iff_match_fixed : forall s f, 0 < s -> u16 f ->
  (oc_norm (s + f) = 65535 <-> ck_match true (as_u16 true (oc_norm s)) f = true).
Proof.
  intros s f Hs Hf. rewrite as_u16_on by (apply oc_norm_u16; lia).
  unfold ck_match, oc_norm, u16 in *. split_ifs; lia.
Qed.
(* the comparison as it is: only the value as_u16 would emit *)
Lemma match_orig_iff : forall a f, ck_match false a f = true <-> a = f.
Proof. intros. unfold ck_match. lia. Qed.
(* so the code as it is accepts a verifying field unless the sum of the other
   words is 0xffff and the field is the conforming 0x0000 *)
Lemma verify_iff_match_orig : forall s f, 0 < s -> u16 f ->
  (oc_norm (s + f) = 65535 <->
   ck_match false (as_u16 true (oc_norm s)) f = true \/ (oc_norm s = 65535 /\ f = 0)).
Proof.
  intros s f Hs Hf. rewrite as_u16_on by (apply oc_norm_u16; lia).
  unfold ck_match, oc_norm, u16 in *. split_ifs; lia.
Qed.
(* relation to the conforming value 65535 - sum (RFC 1071 (2)) *)
Lemma as_u16_conforming : forall s, 0 < s ->
  (oc_norm s <> 65535 -> as_u16 true (oc_norm s) = 65535 - oc_norm s) /\
  (oc_norm s = 65535 -> as_u16 true (oc_norm s) = 65535 /\ 65535 - oc_norm s = 0).
Proof.
  intros s Hs. rewrite as_u16_on by (apply oc_norm_u16; lia). unfold oc_norm. split_ifs; lia.
Qed.

(* ---- bit flips ---------------------------------------------------------------- *)
Definition flip_bit_ok (b j : Z) : bool :=
  (flip_bit b j =? (if Z.testbit b j then b - 2 ^ j else b + 2 ^ j)) &&
  (0 <=? flip_bit b j) && (flip_bit b j <? 256).
Lemma flip_bit_sweep :
  forallb (fun b => forallb (fun j => flip_bit_ok b j) (zrange 8)) (zrange 256) = true.
Proof. vm_compute. reflexivity. Qed.
Lemma flip_bit_spec : forall b j, byte b -> 0 <= j < 8 ->
  flip_bit b j = (if Z.testbit b j then b - 2 ^ j else b + 2 ^ j) /\ byte (flip_bit b j).
Proof.
  intros b j Hb Hj.
  pose proof (zrange_forallb 256 _ flip_bit_sweep b Hb) as H1. cbv beta in H1.
  pose proof (zrange_forallb 8 _ H1 j Hj) as H2. unfold flip_bit_ok in H2. unfold byte. lia.
Qed.

Lemma flip_at_length : forall bs i j, length (flip_at bs i j) = length bs.
Proof. induction bs as [|b r IH]; intros [|i] j; cbn; auto. Qed.
Lemma flip_at_bytes : forall bs i j, bytes bs -> 0 <= j < 8 -> bytes (flip_at bs i j).
Proof.
  induction bs as [|b r IH]; intros [|i] j Hb Hj; cbn [flip_at]; auto;
    apply bytes_cons in Hb; destruct Hb as [Hb Hr]; apply bytes_cons; split; auto.
  apply flip_bit_spec; assumption.
Qed.
Lemma flip_at_nth_same : forall bs i j, (i < length bs)%nat ->
  nth i (flip_at bs i j) 0 = flip_bit (nth i bs 0) j.
Proof.
  induction bs as [|b r IH]; intros [|i] j Hi; cbn in *; try lia; auto. apply IH. lia.
Qed.
Lemma flip_at_nth_other : forall bs i k j, i <> k -> nth k (flip_at bs i j) 0 = nth k bs 0.
Proof.
  induction bs as [|b r IH]; intros [|i] [|k] j Hik; cbn; try reflexivity; try congruence.
  apply IH. congruence.
Qed.

(* weight of byte i when the byte at index 0 has weight (hi ? 256 : 1) *)
Definition bweight (hi : bool) (i : nat) : Z := if Bool.eqb hi (Nat.even i) then 256 else 1.
Lemma bweight_succ : forall hi i, bweight (negb hi) i = bweight hi (S i).
Proof.
  intros hi i. unfold bweight. rewrite Nat.even_succ, <- Nat.negb_even.
  destruct hi, (Nat.even i); reflexivity.
Qed.
Lemma bsum_flip : forall bs i j hi, (i < length bs)%nat -> bytes bs -> 0 <= j < 8 ->
  bsum hi (flip_at bs i j) =
  bsum hi bs + (if Z.testbit (nth i bs 0) j then - 2 ^ j else 2 ^ j) * bweight hi i.
Proof.
  induction bs as [|b r IH]; intros i j hi Hi Hb Hj; [cbn in Hi; lia|].
  apply bytes_cons in Hb. destruct Hb as [Hb Hr]. destruct i as [|i].
  - cbn [flip_at bsum nth]. destruct (flip_bit_spec b j Hb Hj) as [E _]. rewrite E.
    unfold bweight. cbn [Nat.even]. destruct hi, (Z.testbit b j); cbn [Bool.eqb]; lia.
  - cbn [flip_at bsum nth]. rewrite IH by (cbn in Hi; lia || assumption).
    rewrite bweight_succ. lia.
Qed.
Lemma bit_weight_bweight : forall i j, 0 <= j -> bit_weight i j = 2 ^ j * bweight true i.
Proof.
  intros i j Hj. unfold bit_weight, bit_exp, bweight. destruct (Nat.even i); cbn [Bool.eqb].
  - rewrite Z.pow_add_r by lia. reflexivity.
  - lia.
Qed.
(* the word sum changes by exactly the signed weight of the flipped bit *)
Lemma wsum_flip : forall bs i j, (i < length bs)%nat -> bytes bs -> 0 <= j < 8 ->
  wsum (flip_at bs i j) = wsum bs + flip_delta bs i j.
Proof.
  intros bs i j Hi Hb Hj. rewrite !wsum_bsum, bsum_flip by assumption.
  unfold flip_delta. rewrite bit_weight_bweight by lia. destruct (Z.testbit (nth i bs 0) j); lia.
Qed.

Lemma bit_exp_range : forall i j, 0 <= j < 8 -> 0 <= bit_exp i j < 16.
Proof. intros. unfold bit_exp. destruct (Nat.even i); lia. Qed.

(* 2^k is not a multiple of 65535 (k < 16), in either direction *)
Lemma pow2_mod_sweep :
  forallb (fun k => negb (2 ^ k mod 65535 =? 0) && negb ((- 2 ^ k) mod 65535 =? 0)) (zrange 16) = true.
Proof. vm_compute. reflexivity. Qed.
Lemma pow2_mod : forall k, 0 <= k < 16 -> 2 ^ k mod 65535 <> 0 /\ (- 2 ^ k) mod 65535 <> 0.
Proof. intros k Hk. pose proof (zrange_forallb 16 _ pow2_mod_sweep k Hk) as H. cbv beta in H. lia. Qed.

Lemma flip_delta_mod : forall bs i j, 0 <= j < 8 -> flip_delta bs i j mod 65535 <> 0.
Proof.
  intros bs i j Hj. unfold flip_delta, bit_weight.
  pose proof (pow2_mod (bit_exp i j) (bit_exp_range i j Hj)) as [H1 H2].
  destruct (Z.testbit (nth i bs 0) j); assumption.
Qed.

(* single-bit corruption always changes the sum modulo 65535 *)
Lemma single_flip_changes_sum : forall bs i j extra, (i < length bs)%nat -> bytes bs -> 0 <= j < 8 ->
  (extra + wsum (flip_at bs i j)) mod 65535 <> (extra + wsum bs) mod 65535.
Proof.
  intros bs i j extra Hi Hb Hj. rewrite wsum_flip by assumption.
  pose proof (flip_delta_mod bs i j Hj) as Hd. intro E. apply Hd. clear Hd.
  generalize dependent (flip_delta bs i j). intros d E. lia.
Qed.

(* double flips: the exact compensating pairs *)
Definition sgn (up : bool) : Z := if up then 1 else -1.
Definition pair_cancels (k1 k2 : Z) (u1 u2 : bool) : bool :=
  (sgn u1 * 2 ^ k1 + sgn u2 * 2 ^ k2) mod 65535 =? 0.
Lemma pair_sweep :
  forallb (fun k1 => forallb (fun k2 =>
     Bool.eqb (pair_cancels k1 k2 true true) false &&
     Bool.eqb (pair_cancels k1 k2 false false) false &&
     Bool.eqb (pair_cancels k1 k2 true false) (k1 =? k2) &&
     Bool.eqb (pair_cancels k1 k2 false true) (k1 =? k2)) (zrange 16)) (zrange 16) = true.
Proof. vm_compute. reflexivity. Qed.
Lemma pair_cancels_iff : forall k1 k2 u1 u2, 0 <= k1 < 16 -> 0 <= k2 < 16 ->
  pair_cancels k1 k2 u1 u2 = (k1 =? k2) && xorb u1 u2.
Proof.
  intros k1 k2 u1 u2 H1 H2.
  pose proof (zrange_forallb 16 _ pair_sweep k1 H1) as A. cbv beta in A.
  pose proof (zrange_forallb 16 _ A k2 H2) as B. cbv beta in B.
  apply andb_prop in B. destruct B as [B B4]. apply andb_prop in B. destruct B as [B B3].
  apply andb_prop in B. destruct B as [B1 B2].
  apply Bool.eqb_prop in B1, B2, B3, B4.
  destruct u1, u2; cbn [xorb]; rewrite ?andb_false_r, ?andb_true_r; assumption.
Qed.

Lemma flip_bit_other : forall b j1 j2, 0 <= j1 -> 0 <= j2 -> j1 <> j2 ->
  Z.testbit (flip_bit b j1) j2 = Z.testbit b j2.
Proof.
  intros b j1 j2 H1 H2 Hne. unfold flip_bit. rewrite Z.lxor_spec, Z.pow2_bits_eqb by assumption.
  destruct (Z.eqb_spec j1 j2); [contradiction|]. apply xorb_false_r.
Qed.
(* a second flip at another position sees the original bit *)
Lemma flip_delta_after : forall bs i1 j1 i2 j2, (i1 < length bs)%nat ->
  0 <= j1 -> 0 <= j2 -> (i1 <> i2 \/ j1 <> j2) ->
  flip_delta (flip_at bs i1 j1) i2 j2 = flip_delta bs i2 j2.
Proof.
  intros bs i1 j1 i2 j2 Hi H1 H2 Hne. unfold flip_delta.
  destruct (Nat.eq_dec i1 i2) as [->|Hi12].
  - rewrite flip_at_nth_same by assumption. rewrite flip_bit_other by (assumption || tauto). reflexivity.
  - rewrite flip_at_nth_other by assumption. reflexivity.
Qed.

Lemma flip_delta_sgn : forall bs i j,
  flip_delta bs i j = sgn (negb (Z.testbit (nth i bs 0) j)) * 2 ^ bit_exp i j.
Proof. intros. unfold flip_delta, bit_weight, sgn. destruct (Z.testbit (nth i bs 0) j); cbn [negb]; lia. Qed.

(* flipping two different bits leaves the sum unchanged modulo 65535 exactly when
   they sit at the same position of their 16-bit words and had different values *)
Lemma double_flip_unchanged_iff : forall bs i1 j1 i2 j2 extra,
  (i1 < length bs)%nat -> (i2 < length bs)%nat -> bytes bs -> 0 <= j1 < 8 -> 0 <= j2 < 8 ->
  (i1 <> i2 \/ j1 <> j2) ->
  ((extra + wsum (flip_at (flip_at bs i1 j1) i2 j2)) mod 65535 = (extra + wsum bs) mod 65535
   <-> bit_exp i1 j1 = bit_exp i2 j2 /\
       Z.testbit (nth i1 bs 0) j1 <> Z.testbit (nth i2 bs 0) j2).
Proof.
  intros bs i1 j1 i2 j2 extra Hi1 Hi2 Hb Hj1 Hj2 Hne.
  rewrite wsum_flip; [| rewrite flip_at_length; assumption | apply flip_at_bytes; assumption | assumption].
  rewrite wsum_flip by assumption.
  rewrite flip_delta_after by (assumption || lia).
  rewrite !flip_delta_sgn.
  pose proof (pair_cancels_iff (bit_exp i1 j1) (bit_exp i2 j2)
                (negb (Z.testbit (nth i1 bs 0) j1)) (negb (Z.testbit (nth i2 bs 0) j2))
                (bit_exp_range i1 j1 Hj1) (bit_exp_range i2 j2 Hj2)) as P.
  unfold pair_cancels in P.
  set (d := sgn (negb (Z.testbit (nth i1 bs 0) j1)) * 2 ^ bit_exp i1 j1 +
            sgn (negb (Z.testbit (nth i2 bs 0) j2)) * 2 ^ bit_exp i2 j2) in *.
  assert (Hd : (extra + (wsum bs + sgn (negb (Z.testbit (nth i1 bs 0) j1)) * 2 ^ bit_exp i1 j1 +
                 sgn (negb (Z.testbit (nth i2 bs 0) j2)) * 2 ^ bit_exp i2 j2)) = extra + wsum bs + d)
    by (unfold d; lia).
  rewrite Hd. clear Hd.
  assert (Hmod : ((extra + wsum bs + d) mod 65535 = (extra + wsum bs) mod 65535) <-> d mod 65535 = 0).
  { generalize (extra + wsum bs). intro t. clearbody d. clear. split; intro; lia. }
  rewrite Hmod. clear Hmod.
  destruct (Z.testbit (nth i1 bs 0) j1), (Z.testbit (nth i2 bs 0) j2); cbn [negb xorb] in P;
    rewrite ?andb_false_r, ?andb_true_r in P; split; intro H; try lia;
    try (destruct H as [_ H]; congruence).
Qed.

(* the RFC 1071 check in terms of the integer word sum *)
Lemma verifies_wsum : forall bs, bytes bs ->
  rfc1071_verifies bs = (oc_norm (wsum bs) =? 65535).
Proof. intros bs Hb. unfold rfc1071_verifies. rewrite oc_sum_norm by (apply words_u16; assumption). reflexivity. Qed.


(* the checked adder never reaches its panic site, for any sequence of 16-bit words *)
Lemma add_all_checked_ok : forall vs acc, u16 acc -> Forall u16 vs ->
  add_all_checked acc vs = Ok (fold_left add16 vs acc) /\ u16 (fold_left add16 vs acc).
Proof.
  induction vs as [|v r IH]; intros acc Ha Hv.
  - cbn. auto.
  - inversion Hv as [|? ? Hv1 Hr]; subst. cbn [add_all_checked fold_left].
    rewrite add_u16_checked_ok by assumption. cbn [bind].
    apply IH; [apply add16_range; assumption | assumption].
Qed.

Lemma firstn_flip_at : forall n bs i j, (i < n)%nat -> firstn n (flip_at bs i j) = flip_at (firstn n bs) i j.
Proof.
  induction n as [|n IH]; intros bs i j Hi; [lia|].
  destruct bs as [|b r]; [destruct i; reflexivity|].
  destruct i as [|i]; cbn [flip_at firstn]; [reflexivity|]. f_equal. apply IH. lia.
Qed.
