(* The session-task theorems in the self-contained form pinned in Props/C01s.v, and a
   concrete run showing that their hypotheses are satisfiable and that data gets through. *)
From Elvis Require Import Model.Base Model.U32 Model.Tcb Model.TcpNet Model.TcpSession
  Proofs.TcbSafetyDefs Proofs.TcpSessionFacts Proofs.TcpSessionSys.
Local Open Scope Z_scope.

Lemma session_safety_explicit : forall (c : config) (b : bool) (ls : list ylabel),
  u32 (issA c) -> u32 (issB c) -> 100 <= mtuA c <= 65535 -> 100 <= mtuB c <= 65535 ->
  let y := yrun c (yinit b) ls in
  zlen (ypushA y) < 2 ^ 31 - 2 ^ 17 -> zlen (ypushB y) < 2 ^ 31 - 2 ^ 17 ->
  ypan y = false /\
  (exists rest, ypushA y = yflushed y SB ++ rest) /\
  (exists rest, ypushB y = yflushed y SA ++ rest).
Proof.
  intros c b ls H1 H2 H3 H4 y Ha Hb.
  apply (session_safety c b ls); [unfold cfg_ok; auto|exact Ha|exact Hb].
Qed.

(* the invariant behind it, for later use: the abstraction of every reachable state of the
   session system satisfies the invariant of the two-endpoint TCB system *)
Lemma session_refines_tcb_invariant : forall (c : config) (b : bool) (ls : list ylabel),
  u32 (issA c) -> u32 (issB c) -> 100 <= mtuA c <= 65535 -> 100 <= mtuB c <= 65535 ->
  let y := yrun c (yinit b) ls in
  zlen (ypushA y) < 2 ^ 31 - 2 ^ 17 -> zlen (ypushB y) < 2 ^ 31 - 2 ^ 17 ->
  SysInv c (yabs y) /\
  (forall x, exists handled, ypush y x = handled ++ qbytes (yq (yt y x)) /\
                             exists rest, handled = sub_of (yabs y) x ++ rest).
Proof.
  intros c b ls H1 H2 H3 H4 y Ha Hb.
  assert (Hc : cfg_ok c) by (unfold cfg_ok; auto).
  assert (HY : YInv c y).
  { apply yrun_inv; [exact Hc|apply yinit_inv, Hc|]. intros z. destruct z; assumption. }
  destruct HY as [HI HQ]. split; [exact HI|].
  intros x. destruct (HQ x) as (Q1 & Q2 & _). exists (yhand y x). split; [exact Q1|].
  rewrite sub_yabs. exact Q2.
Qed.

(* ---------- a concrete run ---------- *)
Definition exs_cfg : config := mkCfg 40001 80 4294967290 77 1500 150.

(* one turn of a task: up to three instructions and the empty poll, the timeout if the task
   waits, segments(), receive(); then up to three of its in-flight segments reach the peer *)
Definition exs_turn (x : side) : list ylabel :=
  [YTask x; YTask x; YTask x; YTask x; YTimeout x; YTask x; YTask x; YDeliver x 0; YDeliver x 0; YDeliver x 0].

Fixpoint exs_rounds (k : nat) : list ylabel :=
  match k with O => [] | S k' => exs_turn SA ++ exs_turn SB ++ exs_rounds k' end.

Definition exs_bytes (n : nat) (k : Z) : list Z := map (fun i => (Z.of_nat i * 7 + k) mod 256) (seq 0 n).

Definition exs_trace : list ylabel :=
  YOpen SA :: YWrite SA (exs_bytes 130 1) ::            (* a write before the handshake completes *)
  exs_rounds 3 ++
  YDrop SA 0 :: YDup SB 0 ::                             (* whatever is in flight: one loss, one copy *)
  YWrite SB (exs_bytes 250 9) :: YWrite SA (exs_bytes 5 3) ::
  exs_rounds 30.

Definition exs_final : ysys := yrun exs_cfg (yinit true) exs_trace.

Lemma exs_facts :
  u32 (issA exs_cfg) /\ u32 (issB exs_cfg) /\ 100 <= mtuA exs_cfg <= 65535 /\ 100 <= mtuB exs_cfg <= 65535 /\
  zlen (ypushA exs_final) < 2 ^ 31 - 2 ^ 17 /\ zlen (ypushB exs_final) < 2 ^ 31 - 2 ^ 17 /\
  length (ypushA exs_final) = 135%nat /\ length (ypushB exs_final) = 250%nat /\
  yflushed exs_final SB = ypushA exs_final /\ yflushed exs_final SA = ypushB exs_final.
Proof. vm_compute. repeat split; try reflexivity; discriminate. Qed.
