(* C03 (a): every move of one endpoint of Model/Tcb.v lies on the RFC 9293
   Figure 5 diagram (closed under the composite moves one segment arrival may
   make).  No invariant is needed: the statements hold for EVERY tcb value and
   EVERY segment.  The file also holds the frame lemmas (which fields a stage
   of process_segment leaves alone) reused by TcbInv.v / TcbC17.v. *)
From Elvis Require Import Model.Base Model.U32 Model.Tcb.
From Coq Require Import Relations.
Local Open Scope Z_scope.

(* ------------------------------------------------------------------ *)
(* reduction of record projections only (never bare simpl on Z)        *)
Ltac tsimpl :=
  cbn [lport rport mtu listen_init st snd_una snd_nxt snd_wnd snd_wl1 snd_wl2 snd_iss
       rcv_irs rcv_nxt rcv_wnd out_text retx oneshot fin_pending in_segs in_text rto time_wait
       set_st set_snd_una set_snd_nxt set_snd_window set_rcv_irs set_rcv_nxt set_out_text
       set_retx set_oneshot set_fin_pending set_in_segs set_in_text set_rto set_time_wait
       h_sport h_dport h_seq h_ack h_ctl h_wnd h_urg s_hdr s_text t_seg t_needs
       c_urg c_ack c_psh c_rst c_syn c_fin ctl0
       hb hb_ack hb_wnd hb_flag hb_rst hb_syn hb_fin ack_hdr rst_hdr
       fst snd orb andb negb] in *.

Ltac break_if :=
  match goal with
  | |- context [if ?c then _ else _] => destruct c eqn:?
  | |- context [match st ?t with _ => _ end] => destruct (st t) eqn:?
  end.

(* the fields a function does not touch, as one conjunction *)
Definition same_rcv (t t' : tcb) : Prop :=
  rcv_irs t' = rcv_irs t /\ rcv_nxt t' = rcv_nxt t /\ rcv_wnd t' = rcv_wnd t /\ in_text t' = in_text t.
Definition same_cfg (t t' : tcb) : Prop :=
  lport t' = lport t /\ rport t' = rport t /\ mtu t' = mtu t /\ listen_init t' = listen_init t /\
  snd_iss t' = snd_iss t /\ in_segs t' = in_segs t /\ out_text t' = out_text t /\
  fin_pending t' = fin_pending t /\ snd_nxt t' = snd_nxt t.
Definition same_snd (t t' : tcb) : Prop :=
  snd_una t' = snd_una t /\ snd_wnd t' = snd_wnd t /\ snd_wl1 t' = snd_wl1 t /\ snd_wl2 t' = snd_wl2 t.
Definition same_timers (t t' : tcb) : Prop := rto t' = rto t /\ time_wait t' = time_wait t.

Lemma same_rcv_refl t : same_rcv t t. Proof. repeat split. Qed.
Lemma same_cfg_refl t : same_cfg t t. Proof. repeat split. Qed.
Lemma same_snd_refl t : same_snd t t. Proof. repeat split. Qed.
Lemma same_timers_refl t : same_timers t t. Proof. repeat split. Qed.
Lemma same_rcv_trans a b c : same_rcv a b -> same_rcv b c -> same_rcv a c.
Proof. unfold same_rcv. intuition congruence. Qed.
Lemma same_cfg_trans a b c : same_cfg a b -> same_cfg b c -> same_cfg a c.
Proof. unfold same_cfg. intuition congruence. Qed.
Lemma same_snd_trans a b c : same_snd a b -> same_snd b c -> same_snd a c.
Proof. unfold same_snd. intuition congruence. Qed.
Lemma same_timers_trans a b c : same_timers a b -> same_timers b c -> same_timers a c.
Proof. unfold same_timers. intuition congruence. Qed.

(* ---- enqueue touches only the two output queues ---- *)
Lemma enqueue_st t h : st (enqueue t h) = st t.
Proof. unfold enqueue. destruct (_ || _); reflexivity. Qed.
Lemma enqueue_same_rcv t h : same_rcv t (enqueue t h).
Proof. unfold enqueue. destruct (_ || _); repeat split. Qed.
Lemma enqueue_same_cfg t h : same_cfg t (enqueue t h).
Proof. unfold enqueue. destruct (_ || _); repeat split. Qed.
Lemma enqueue_same_snd t h : same_snd t (enqueue t h).
Proof. unfold enqueue. destruct (_ || _); repeat split. Qed.
Lemma enqueue_same_timers t h : same_timers t (enqueue t h).
Proof. unfold enqueue. destruct (_ || _); repeat split. Qed.
(* a header without SYN and FIN goes to the one-shot queue *)
Lemma enqueue_plain t h : c_syn (h_ctl h) = false -> c_fin (h_ctl h) = false ->
  enqueue t h = set_oneshot t (oneshot t ++ [h]).
Proof. unfold enqueue. intros -> ->. reflexivity. Qed.

(* ---- ack_established_processing ---- *)
Lemma ack_est_st t h : st (fst (ack_est t h)) = st t.
Proof. unfold ack_est, remove_acked. repeat break_if; tsimpl; rewrite ?enqueue_st; reflexivity. Qed.
Lemma ack_est_same_rcv t h : same_rcv t (fst (ack_est t h)).
Proof.
  unfold ack_est, remove_acked. repeat break_if; tsimpl;
    try apply enqueue_same_rcv; repeat split.
Qed.
Lemma ack_est_same_cfg t h : same_cfg t (fst (ack_est t h)).
Proof.
  unfold ack_est, remove_acked. repeat break_if; tsimpl;
    try apply enqueue_same_cfg; repeat split.
Qed.
Lemma ack_est_same_timers t h : same_timers t (fst (ack_est t h)).
Proof.
  unfold ack_est, remove_acked. repeat break_if; tsimpl;
    try apply enqueue_same_timers; repeat split.
Qed.
Lemma ack_est_result t h : snd (ack_est t h) = PSuccess \/ snd (ack_est t h) = PInvalidAck.
Proof. unfold ack_est. repeat break_if; tsimpl; auto. Qed.

(* ------------------------------------------------------------------ *)
(* per-stage state moves                                               *)
Definition ack_edge (a b : state) : bool :=
  state_eqb a b ||
  match a, b with
  | SynReceived, Established | FinWait1, FinWait2 | Closing, TimeWait => true
  | _, _ => false
  end.
Definition syn_edge (a b : state) : bool :=
  state_eqb a b ||
  match a, b with SynSent, Established | SynSent, SynReceived => true | _, _ => false end.
Definition fin_edge (a b : state) : bool :=
  state_eqb a b ||
  match a, b with
  | SynReceived, CloseWait | Established, CloseWait
  | FinWait1, TimeWait | FinWait1, Closing | FinWait2, TimeWait => true
  | _, _ => false
  end.

(* RFC 9293 Figure 5 + stay + the composite moves of one segment arrival.
   SynSent=1 SynReceived=2 Established=3 FinWait1=4 FinWait2=5 CloseWait=6
   Closing=7 LastAck=8 TimeWait=9:
   (1,2) (1,3) (2,3) (2,4) (3,4) (3,6) (2,6) (4,5) (4,7) (4,9) (5,9) (6,8) (7,9) (1,6) *)
Definition rfc_edge (a b : state) : bool :=
  state_eqb a b ||
  match a, b with
  | SynSent, SynReceived | SynSent, Established
  | SynReceived, Established | SynReceived, FinWait1
  | Established, FinWait1 | Established, CloseWait
  | SynReceived, CloseWait
  | FinWait1, FinWait2 | FinWait1, Closing | FinWait1, TimeWait
  | FinWait2, TimeWait
  | CloseWait, LastAck
  | Closing, TimeWait
  | SynSent, CloseWait => true
  | _, _ => false
  end.

Lemma state_eqb_refl a : state_eqb a a = true.
Proof. destruct a; reflexivity. Qed.
Lemma state_eqb_eq a b : state_eqb a b = true <-> a = b.
Proof. destruct a, b; cbn; split; intros H; try reflexivity; discriminate H. Qed.
Lemma rfc_edge_refl a : rfc_edge a a = true.
Proof. unfold rfc_edge. rewrite state_eqb_refl. reflexivity. Qed.
Lemma ack_edge_refl a : ack_edge a a = true.
Proof. unfold ack_edge. rewrite state_eqb_refl. reflexivity. Qed.
Lemma syn_edge_refl a : syn_edge a a = true.
Proof. unfold syn_edge. rewrite state_eqb_refl. reflexivity. Qed.
Lemma fin_edge_refl a : fin_edge a a = true.
Proof. unfold fin_edge. rewrite state_eqb_refl. reflexivity. Qed.

Lemma ack_edge_rfc a b : ack_edge a b = true -> rfc_edge a b = true.
Proof. destruct a, b; cbn; intros H; try reflexivity; discriminate H. Qed.

(* what the three stages may compose to.  A SYN moves only out of SynSent,
   the ACK stage never moves out of SynSent *)
Lemma compose_ack_fin a b c :
  ack_edge a b = true -> fin_edge b c = true -> rfc_edge a c = true.
Proof. destruct a, b; cbn; intros H; try discriminate H; destruct c; cbn; intros H2; try reflexivity; discriminate H2. Qed.
Lemma compose_syn_fin b c :
  syn_edge SynSent b = true -> b <> SynReceived -> fin_edge b c = true -> rfc_edge SynSent c = true.
Proof.
  destruct b; cbn; intros H Hn; try discriminate H; try (exfalso; apply Hn; reflexivity);
    destruct c; cbn; intros H2; try reflexivity; discriminate H2.
Qed.

(* ---- stage 2 ---- *)
Lemma ps_ack_st t h : ack_edge (st t) (st (fst (ps_ack t h))) = true.
Proof.
  unfold ps_ack.
  destruct (negb (c_ack (h_ctl h))); [apply ack_edge_refl|].
  destruct (st t) eqn:Est.
  - (* SynSent *)
    repeat break_if; tsimpl; unfold remove_acked; tsimpl; rewrite ?enqueue_st, ?Est; reflexivity.
  - (* SynReceived *)
    destruct (mod_bounded _ _ _ _ _).
    + destruct (ack_est _ h) as [t2 r] eqn:Ea.
      assert (E2 : st t2 = Established).
      { change t2 with (fst (t2, r)). rewrite <- Ea, ack_est_st. reflexivity. }
      destruct r; tsimpl; rewrite E2; reflexivity.
    + tsimpl. rewrite enqueue_st, Est. reflexivity.
  - destruct (ack_est t h) as [t2 r] eqn:Ea.
    assert (E2 : st t2 = Established) by (change t2 with (fst (t2, r)); rewrite <- Ea, ack_est_st; exact Est).
    destruct r; tsimpl; rewrite E2; reflexivity.
  - destruct (ack_est t h) as [t2 r] eqn:Ea.
    assert (E2 : st t2 = FinWait1) by (change t2 with (fst (t2, r)); rewrite <- Ea, ack_est_st; exact Est).
    destruct (is_fin_acked t2); destruct r; tsimpl; rewrite ?E2; reflexivity.
  - destruct (ack_est t h) as [t2 r] eqn:Ea.
    assert (E2 : st t2 = FinWait2) by (change t2 with (fst (t2, r)); rewrite <- Ea, ack_est_st; exact Est).
    destruct r; tsimpl; rewrite E2; reflexivity.
  - destruct (ack_est t h) as [t2 r] eqn:Ea.
    assert (E2 : st t2 = CloseWait) by (change t2 with (fst (t2, r)); rewrite <- Ea, ack_est_st; exact Est).
    destruct r; tsimpl; rewrite E2; reflexivity.
  - destruct (ack_est t h) as [t2 r] eqn:Ea.
    assert (E2 : st t2 = Closing) by (change t2 with (fst (t2, r)); rewrite <- Ea, ack_est_st; exact Est).
    destruct (is_fin_acked t2); destruct r; tsimpl; rewrite ?E2; reflexivity.
  - destruct (ack_est t h) as [t2 r] eqn:Ea.
    assert (E2 : st t2 = LastAck) by (change t2 with (fst (t2, r)); rewrite <- Ea, ack_est_st; exact Est).
    destruct (is_fin_acked t2); destruct r; tsimpl; rewrite ?E2; reflexivity.
  - destruct (c_fin (h_ctl h)); tsimpl; rewrite ?enqueue_st, Est; reflexivity.
Qed.

Lemma ps_ack_same_rcv t h : same_rcv t (fst (ps_ack t h)).
Proof.
  unfold ps_ack.
  destruct (negb (c_ack (h_ctl h))); [apply same_rcv_refl|].
  destruct (st t) eqn:Est;
    try (destruct (ack_est t h) as [t2 r] eqn:Ea;
         assert (F : same_rcv t t2) by (change t2 with (fst (t2, r)); rewrite <- Ea; apply ack_est_same_rcv);
         repeat break_if; destruct r; tsimpl; exact F).
  - repeat break_if; tsimpl; unfold remove_acked; tsimpl;
      try apply enqueue_same_rcv; repeat split.
  - destruct (mod_bounded _ _ _ _ _).
    + destruct (ack_est _ h) as [t2 r] eqn:Ea.
      assert (F : same_rcv (set_snd_window (set_st t Established) (h_wnd h) (h_seq h) (h_ack h)) t2)
        by (change t2 with (fst (t2, r)); rewrite <- Ea; apply ack_est_same_rcv).
      destruct r; tsimpl; exact F.
    + tsimpl. apply enqueue_same_rcv.
  - destruct (c_fin (h_ctl h)); [|apply same_rcv_refl]. tsimpl. unfold same_rcv. tsimpl. apply enqueue_same_rcv.
Qed.

Lemma ps_ack_same_cfg t h : same_cfg t (fst (ps_ack t h)).
Proof.
  unfold ps_ack.
  destruct (negb (c_ack (h_ctl h))); [apply same_cfg_refl|].
  destruct (st t) eqn:Est;
    try (destruct (ack_est t h) as [t2 r] eqn:Ea;
         assert (F : same_cfg t t2) by (change t2 with (fst (t2, r)); rewrite <- Ea; apply ack_est_same_cfg);
         repeat break_if; destruct r; tsimpl; exact F).
  - repeat break_if; tsimpl; unfold remove_acked; tsimpl;
      try apply enqueue_same_cfg; repeat split.
  - destruct (mod_bounded _ _ _ _ _).
    + destruct (ack_est _ h) as [t2 r] eqn:Ea.
      assert (F : same_cfg (set_snd_window (set_st t Established) (h_wnd h) (h_seq h) (h_ack h)) t2)
        by (change t2 with (fst (t2, r)); rewrite <- Ea; apply ack_est_same_cfg).
      destruct r; tsimpl; exact F.
    + tsimpl. apply enqueue_same_cfg.
  - destruct (c_fin (h_ctl h)); [|apply same_cfg_refl]. tsimpl. unfold same_cfg. tsimpl. apply enqueue_same_cfg.
Qed.

(* the results stage 2 can return *)
Lemma ps_ack_result t h r : snd (ps_ack t h) = Some r ->
  r = PDiscard \/ r = PInvalidAck \/ (r = PFinalizeClose /\ st t = LastAck /\ c_ack (h_ctl h) = true /\
                                      is_fin_acked (fst (ps_ack t h)) = true /\ st (fst (ps_ack t h)) = LastAck).
Proof.
  unfold ps_ack.
  destruct (c_ack (h_ctl h)) eqn:Eack; cbn [negb]; [|discriminate].
  destruct (st t) eqn:Est;
    try (match goal with |- context [ack_est t h] => idtac end;
         destruct (ack_est t h) as [t2 r2] eqn:Ea;
         destruct (ack_est_result t h) as [R|R]; rewrite Ea in R; cbn [snd] in R; subst r2;
         repeat break_if; tsimpl; intros H; inversion H; auto; fail).
  - repeat break_if; tsimpl; intros H; inversion H; auto.
  - destruct (mod_bounded _ _ _ _ _); [|tsimpl; discriminate].
    destruct (ack_est _ h) as [t2 r2] eqn:Ea.
    match type of Ea with ack_est ?tt _ = _ => destruct (ack_est_result tt h) as [R|R]; rewrite Ea in R end;
      cbn [snd] in R; subst r2; tsimpl; intros H; inversion H; auto.
  - destruct (ack_est t h) as [t2 r2] eqn:Ea.
    assert (E2 : st t2 = LastAck) by (change t2 with (fst (t2, r2)); rewrite <- Ea, ack_est_st; exact Est).
    destruct (ack_est_result t h) as [R|R]; rewrite Ea in R; cbn [snd] in R; subst r2;
      destruct (is_fin_acked t2) eqn:Ef; tsimpl; intros H; inversion H; auto 10.
  - destruct (c_fin (h_ctl h)); tsimpl; discriminate.
Qed.

(* ---- stage 3 ---- *)
Lemma ps_rst_some t h r : ps_rst t h = Some r -> c_rst (h_ctl h) = true /\ should_delete r = true.
Proof.
  unfold ps_rst. destruct (c_rst (h_ctl h)); cbn [negb]; [|discriminate].
  repeat break_if; intros H; inversion H; auto.
Qed.
Lemma ps_rst_none t h : ps_rst t h = None -> c_rst (h_ctl h) = false.
Proof.
  unfold ps_rst. destruct (c_rst (h_ctl h)); cbn [negb]; [|reflexivity].
  repeat break_if; discriminate.
Qed.

(* ---- stage 4 ---- *)
Lemma ps_syn_nosyn t h : c_syn (h_ctl h) = false -> ps_syn t h = (t, None).
Proof. unfold ps_syn. intros ->. reflexivity. Qed.
Lemma ps_syn_st t h : syn_edge (st t) (st (fst (ps_syn t h))) = true.
Proof.
  unfold ps_syn. destruct (negb (c_syn (h_ctl h))); [apply syn_edge_refl|].
  destruct (st t) eqn:Est; tsimpl; rewrite ?enqueue_st, ?Est; try reflexivity.
  destruct (mod_gt _ _); tsimpl; rewrite enqueue_st; reflexivity.
Qed.
(* a SYN either ends the processing or moves SynSent to Established *)
Lemma ps_syn_continue t h : c_syn (h_ctl h) = true -> snd (ps_syn t h) = None ->
  st t = SynSent /\ st (fst (ps_syn t h)) = Established /\
  rcv_nxt (fst (ps_syn t h)) = wadd (h_seq h) 1 /\ rcv_wnd (fst (ps_syn t h)) = rcv_wnd t /\
  in_text (fst (ps_syn t h)) = in_text t.
Proof.
  unfold ps_syn. intros ->. cbn [negb].
  destruct (st t) eqn:Est; tsimpl; try discriminate.
  destruct (mod_gt _ _); tsimpl; [|discriminate].
  intros _. rewrite enqueue_st.
  match goal with |- context [enqueue ?a ?b] => destruct (enqueue_same_rcv a b) as (_ & E1 & E2 & E3) end.
  rewrite E1, E2, E3. tsimpl. auto.
Qed.
Lemma ps_syn_result t h r : snd (ps_syn t h) = Some r ->
  c_syn (h_ctl h) = true /\
  ((r = PSuccess /\ st t = SynSent /\ st (fst (ps_syn t h)) = SynReceived) \/
   (r = PDiscard /\ st t <> SynSent /\ st (fst (ps_syn t h)) = st t)).
Proof.
  unfold ps_syn. destruct (c_syn (h_ctl h)); cbn [negb]; [|discriminate].
  destruct (st t) eqn:Est; tsimpl; rewrite ?enqueue_st, ?Est;
    try (intros H; inversion H; split; [reflexivity|right; repeat split; congruence]).
  destruct (mod_gt _ _); tsimpl; [discriminate|].
  rewrite enqueue_st. tsimpl. intros H; inversion H. auto.
Qed.
Lemma ps_syn_same_cfg t h : same_cfg t (fst (ps_syn t h)).
Proof.
  unfold ps_syn. destruct (negb (c_syn (h_ctl h))); [apply same_cfg_refl|].
  destruct (st t); tsimpl; try apply enqueue_same_cfg.
  destruct (mod_gt _ _); tsimpl;
    (eapply same_cfg_trans; [|apply enqueue_same_cfg]); repeat split.
Qed.

(* ---- stage 6 ---- *)
Lemma ps_text_st t h text t' : ps_text t h text = Ok t' -> st t' = st t.
Proof.
  unfold ps_text. repeat break_if; intros H; inversion H; subst; tsimpl;
    rewrite ?enqueue_st; tsimpl; congruence.
Qed.
Lemma ps_text_same_cfg t h text t' : ps_text t h text = Ok t' -> same_cfg t t'.
Proof.
  unfold ps_text. repeat break_if; intros H; inversion H; subst; tsimpl;
    try apply same_cfg_refl;
    (eapply same_cfg_trans; [|apply enqueue_same_cfg]); repeat split.
Qed.

(* ---- stage 7 ---- *)
Lemma ps_fin_st t h n : fin_edge (st t) (st (ps_fin t h n)) = true.
Proof.
  unfold ps_fin. destruct (negb (c_fin (h_ctl h))); [apply fin_edge_refl|].
  match goal with |- context [match st ?x with _ => _ end] => set (t1 := x) end.
  assert (E1 : st t1 = st t).
  { subst t1. repeat break_if; tsimpl; rewrite ?enqueue_st; reflexivity. }
  destruct (st t1) eqn:Et1; rewrite <- E1; try (destruct (is_fin_acked t1)); tsimpl; rewrite ?Et1; reflexivity.
Qed.
Lemma ps_fin_same_cfg t h n : same_cfg t (ps_fin t h n).
Proof.
  unfold ps_fin. destruct (negb (c_fin (h_ctl h))); [apply same_cfg_refl|].
  match goal with |- context [match st ?x with _ => _ end] => set (t1 := x) end.
  assert (E1 : same_cfg t t1).
  { subst t1. repeat break_if; tsimpl; try apply same_cfg_refl.
    eapply same_cfg_trans; [|apply enqueue_same_cfg]. repeat split. }
  destruct (st t1); try (destruct (is_fin_acked t1)); tsimpl; exact E1.
Qed.

(* ------------------------------------------------------------------ *)
(* process_segment: the decomposition used by every proof about it     *)
Inductive ps_outcome (t : tcb) (s : segment) (t' : tcb) (r : psr) : Prop :=
| PO_seq :                       (* stage 1: unacceptable sequence number *)
    st t <> SynSent ->
    is_seq_ok t (zlen (s_text s)) (h_seq (s_hdr s)) (c_syn (h_ctl (s_hdr s))) (c_fin (h_ctl (s_hdr s))) = false ->
    t' = enqueue t (ack_hdr t) -> r = PDiscard -> ps_outcome t s t' r
| PO_ack :                       (* stage 2 returned *)
    t' = fst (ps_ack t (s_hdr s)) -> snd (ps_ack t (s_hdr s)) = Some r -> ps_outcome t s t' r
| PO_rst :                       (* stage 3 returned *)
    t' = fst (ps_ack t (s_hdr s)) -> snd (ps_ack t (s_hdr s)) = None ->
    ps_rst t' (s_hdr s) = Some r -> ps_outcome t s t' r
| PO_syn :                       (* stage 4 returned *)
    snd (ps_ack t (s_hdr s)) = None -> ps_rst (fst (ps_ack t (s_hdr s))) (s_hdr s) = None ->
    t' = fst (ps_syn (fst (ps_ack t (s_hdr s))) (s_hdr s)) ->
    snd (ps_syn (fst (ps_ack t (s_hdr s))) (s_hdr s)) = Some r -> ps_outcome t s t' r
| PO_synsent :                   (* 3.10.7.3 fifth: neither SYN nor RST in SYN-SENT *)
    snd (ps_ack t (s_hdr s)) = None -> ps_rst (fst (ps_ack t (s_hdr s))) (s_hdr s) = None ->
    t' = fst (ps_syn (fst (ps_ack t (s_hdr s))) (s_hdr s)) ->
    snd (ps_syn (fst (ps_ack t (s_hdr s))) (s_hdr s)) = None ->
    st t' = SynSent -> r = PDiscard -> ps_outcome t s t' r
| PO_full t4 t6 :                (* stages 6 and 7 *)
    snd (ps_ack t (s_hdr s)) = None -> ps_rst (fst (ps_ack t (s_hdr s))) (s_hdr s) = None ->
    t4 = fst (ps_syn (fst (ps_ack t (s_hdr s))) (s_hdr s)) ->
    snd (ps_syn (fst (ps_ack t (s_hdr s))) (s_hdr s)) = None ->
    st t4 <> SynSent ->
    ps_text t4 (s_hdr s) (s_text s) = Ok t6 ->
    t' = ps_fin t6 (s_hdr s) (zlen (s_text s)) -> r = PSuccess -> ps_outcome t s t' r.

Definition seq_checked (t : tcb) : bool :=
  match st t with SynSent => false | _ => true end.

Lemma process_segment_cases t s t' r :
  process_segment t s = Ok (t', r) -> ps_outcome t s t' r.
Proof.
  unfold process_segment.
  match goal with |- context [if ?c then _ else _] => destruct c eqn:Ebad end.
  - intros H; inversion H; subst.
    destruct (st t) eqn:Est; try discriminate Ebad;
      apply negb_true_iff in Ebad; apply PO_seq; auto; congruence.
  - destruct (ps_ack t (s_hdr s)) as [t2 r2] eqn:Ea. destruct r2 as [r2|].
    { intros H; inversion H; subst. apply PO_ack; rewrite Ea; reflexivity. }
    destruct (ps_rst t2 (s_hdr s)) as [r3|] eqn:Er.
    { intros H; inversion H; subst. apply PO_rst; rewrite ?Ea; cbn [fst snd]; auto. }
    destruct (ps_syn t2 (s_hdr s)) as [t4 r4] eqn:Es. destruct r4 as [r4|].
    { intros H; inversion H; subst. apply PO_syn; rewrite ?Ea; cbn [fst snd]; rewrite ?Es; auto. }
    destruct (state_eqb (st t4) SynSent) eqn:E4.
    { intros H; inversion H; subst. apply state_eqb_eq in E4.
      apply PO_synsent; rewrite ?Ea; cbn [fst snd]; rewrite ?Es; auto. }
    destruct (ps_text t4 (s_hdr s) (s_text s)) as [t6| | |] eqn:Et; try discriminate.
    intros H; inversion H; subst.
    apply PO_full with (t4 := t4) (t6 := t6); rewrite ?Ea; cbn [fst snd]; rewrite ?Es; auto.
    intros C. apply state_eqb_eq in C. congruence.
Qed.

(* in_segs is never touched by process_segment *)
Lemma process_segment_same_cfg t s t' r : process_segment t s = Ok (t', r) -> same_cfg t t'.
Proof.
  intros H. destruct (process_segment_cases _ _ _ _ H); subst.
  - apply enqueue_same_cfg.
  - apply ps_ack_same_cfg.
  - apply ps_ack_same_cfg.
  - eapply same_cfg_trans; [apply ps_ack_same_cfg|apply ps_syn_same_cfg].
  - eapply same_cfg_trans; [apply ps_ack_same_cfg|apply ps_syn_same_cfg].
  - eapply same_cfg_trans; [apply ps_ack_same_cfg|].
    eapply same_cfg_trans; [apply ps_syn_same_cfg|].
    eapply same_cfg_trans; [eapply ps_text_same_cfg; eassumption|apply ps_fin_same_cfg].
Qed.
Lemma process_segment_in_segs t s t' r : process_segment t s = Ok (t', r) -> in_segs t' = in_segs t.
Proof. intros H. apply process_segment_same_cfg in H. apply H. Qed.

(* ------------------------------------------------------------------ *)
(* C03 (a), one segment                                                *)
Lemma process_segment_edge t s t' r :
  process_segment t s = Ok (t', r) -> rfc_edge (st t) (st t') = true.
Proof.
  intros H. destruct (process_segment_cases _ _ _ _ H) as
      [? ? ? ?|? ?|? ? ?|Ha Hr ? Hs|Ha Hr ? Hs ? ?|t4 t6 Ha Hr ? Hs Hn Ht ? ?]; subst.
  - rewrite enqueue_st. apply rfc_edge_refl.
  - apply ack_edge_rfc, ps_ack_st.
  - apply ack_edge_rfc, ps_ack_st.
  - pose proof (ps_ack_st t (s_hdr s)) as E1.
    destruct (ps_syn_result _ _ _ Hs) as (_ & [(_ & E2 & E3)|(_ & _ & E3)]).
    + rewrite E3. rewrite E2 in E1. destruct (st t); try discriminate E1. reflexivity.
    + rewrite E3. apply ack_edge_rfc, E1.
  - pose proof (ps_ack_st t (s_hdr s)) as E1.
    pose proof (ps_syn_st (fst (ps_ack t (s_hdr s))) (s_hdr s)) as E2.
    match goal with H : st _ = SynSent |- _ => rewrite H in * end.
    destruct (st (fst (ps_ack t (s_hdr s)))); try discriminate E2.
    destruct (st t); try discriminate E1. reflexivity.
  - pose proof (ps_ack_st t (s_hdr s)) as E1.
    pose proof (ps_fin_st t6 (s_hdr s) (zlen (s_text s))) as E3.
    rewrite (ps_text_st _ _ _ _ Ht) in E3.
    destruct (c_syn (h_ctl (s_hdr s))) eqn:Esyn.
    + destruct (ps_syn_continue _ _ Esyn Hs) as (E2 & E4 & _).
      rewrite E4 in E3. rewrite E2 in E1.
      destruct (st t); try discriminate E1.
      destruct (st (ps_fin t6 (s_hdr s) (zlen (s_text s)))); try discriminate E3; reflexivity.
    + rewrite (ps_syn_nosyn _ _ Esyn) in E3. cbn [fst] in E3.
      eapply compose_ack_fin; eassumption.
Qed.

(* the other operations *)
Lemma queue_pending_fin_st t : st (queue_pending_fin t) = st t.
Proof. unfold queue_pending_fin. break_if; tsimpl; rewrite ?enqueue_st; reflexivity. Qed.

Lemma tcb_close_edge t : rfc_edge (st t) (st (fst (tcb_close t))) = true.
Proof.
  unfold tcb_close. destruct (st t) eqn:Est; cbn [fst];
    rewrite ?queue_pending_fin_st; tsimpl; rewrite ?Est; reflexivity.
Qed.
(* close moves exactly along the three CLOSE edges of Figure 5 *)
Lemma tcb_close_exact t :
  (st t = SynReceived /\ st (fst (tcb_close t)) = FinWait1) \/
  (st t = Established /\ st (fst (tcb_close t)) = FinWait1) \/
  (st t = CloseWait /\ st (fst (tcb_close t)) = LastAck) \/
  (fst (tcb_close t) = t /\ snd (tcb_close t) = CloseClosing).
Proof.
  unfold tcb_close. destruct (st t) eqn:Est; cbn [fst snd];
    rewrite ?queue_pending_fin_st; tsimpl; auto 6.
Qed.
Lemma advance_time_st t dt : st (fst (advance_time t dt)) = st t.
Proof.
  unfold advance_time. destruct (rto t <? dt); tsimpl;
    destruct (time_wait t) as [tw|]; try destruct (tw <? dt); reflexivity.
Qed.
Lemma tcb_send_st t b : st (tcb_send t b) = st t.
Proof. unfold tcb_send. break_if; reflexivity. Qed.
Lemma tcb_receive_st t : st (fst (tcb_receive t)) = st t.
Proof. reflexivity. Qed.

Lemma seg_loop_st fuel : forall t mss rem t', seg_loop fuel t mss rem = Ok t' -> st t' = st t.
Proof.
  induction fuel as [|f IH]; intros t mss rem t'; cbn [seg_loop]; [discriminate|].
  repeat break_if; try discriminate.
  - intros H; inversion H; reflexivity.
  - intros H. apply IH in H. exact H.
Qed.
Lemma tcb_segments_st t t' segs : tcb_segments t = Ok (t', segs) -> st t' = st t.
Proof.
  unfold tcb_segments.
  match goal with |- context [match ?r with Ok _ => _ | _ => _ end] => destruct r as [t1| | |] eqn:E1 end;
    try discriminate.
  intros H; inversion H; subst. clear H.
  assert (E : st t1 = st t).
  { revert E1. tsimpl. destruct (segmentizes (st t)).
    - destruct (mtu t <? SPACE_FOR_HEADERS); [discriminate|].
      destruct (seg_loop _ _ _ _) as [t0| | |] eqn:El; try discriminate.
      intros H; inversion H. rewrite queue_pending_fin_st.
      apply seg_loop_st in El. exact El.
    - intros H; inversion H; reflexivity. }
  destruct (map t_seg _); tsimpl; exact E.
Qed.

(* ---- segment_arrives: several queued segments may be processed ---- *)
Definition rfc_step (a b : state) : Prop := rfc_edge a b = true.
Definition rfc_path : state -> state -> Prop := clos_refl_trans state rfc_step.

Lemma arrives_loop_path fuel : forall t t' r,
  arrives_loop fuel t = Ok (t', r) -> rfc_path (st t) (st t').
Proof.
  induction fuel as [|f IH]; intros t t' r; cbn [arrives_loop]; [discriminate|].
  destruct (heap_peek (in_segs t)) as [top|].
  2:{ intros H; inversion H; subst. apply rt_refl. }
  destruct (_ && _).
  { intros H; inversion H; subst. apply rt_refl. }
  destruct (heap_pop (in_segs t)) as [[s rest]|]; [|discriminate].
  destruct (process_segment (set_in_segs t rest) s) as [[t1 r1]| | |] eqn:Ep; try discriminate.
  apply process_segment_edge in Ep. tsimpl.
  destruct (should_delete r1).
  - intros H; inversion H; subst. apply rt_step. exact Ep.
  - intros H. apply IH in H. eapply rt_trans; [apply rt_step; exact Ep|exact H].
Qed.

Lemma segment_arrives_path t s t' r :
  segment_arrives t s = Ok (t', r) -> rfc_path (st t) (st t').
Proof. unfold segment_arrives. intros H. apply arrives_loop_path in H. exact H. Qed.

(* with an empty reassembly heap exactly one segment is looked at *)
Lemma heap_push_nil s : heap_push [] s = [s].
Proof. reflexivity. Qed.
Lemma heap_pop_single s : heap_pop [s] = Some (s, []).
Proof. reflexivity. Qed.

Inductive one_arrival (t : tcb) (s : segment) (t' : tcb) (r : arrives_result) : Prop :=
| OA_queued :      (* ahead of RCV.NXT: left in the heap, nothing else changes *)
    st t <> SynSent -> mod_gt (h_seq (s_hdr s)) (rcv_nxt t) = true ->
    t' = set_in_segs t [s] -> r = AOk -> one_arrival t s t' r
| OA_processed pr : (* processed at once *)
    process_segment t s = Ok (t', pr) ->
    r = (if should_delete pr then AClose else AOk) -> one_arrival t s t' r.

Lemma set_in_segs_id t : set_in_segs t (in_segs t) = t.
Proof. destruct t; reflexivity. Qed.

Lemma segment_arrives_one t s t' r :
  in_segs t = [] -> segment_arrives t s = Ok (t', r) -> one_arrival t s t' r.
Proof.
  intros He. unfold segment_arrives. rewrite He, heap_push_nil.
  cbn [length arrives_loop]. tsimpl. cbn [heap_peek].
  destruct (negb (state_eqb (st t) SynSent) && mod_gt (h_seq (s_hdr s)) (rcv_nxt t)) eqn:Eq.
  - intros H; inversion H; subst. apply andb_true_iff in Eq. destruct Eq as [E1 E2].
    apply OA_queued; auto. intros C. rewrite C in E1. discriminate E1.
  - rewrite heap_pop_single.
    replace (set_in_segs (set_in_segs t [s]) []) with t
      by (rewrite <- He at 2; destruct t; reflexivity).
    destruct (process_segment t s) as [[t1 r1]| | |] eqn:Ep; try discriminate.
    destruct (should_delete r1) eqn:Ed.
    + intros H; inversion H; subst. eapply OA_processed; [eassumption|]. rewrite Ed. reflexivity.
    + rewrite (process_segment_in_segs _ _ _ _ Ep), He. cbn [heap_peek].
      intros H; inversion H; subst. eapply OA_processed; [eassumption|]. rewrite Ed. reflexivity.
Qed.

Lemma segment_arrives_edge_one t s t' r :
  in_segs t = [] -> segment_arrives t s = Ok (t', r) -> rfc_edge (st t) (st t') = true.
Proof.
  intros He H. destruct (segment_arrives_one _ _ _ _ He H) as [? ? ? ?|pr Hp ?]; subst.
  - apply rfc_edge_refl.
  - eapply process_segment_edge; eassumption.
Qed.

(* ------------------------------------------------------------------ *)
(* when is the TCB deleted                                             *)
Lemma process_segment_deleted t s t' r :
  process_segment t s = Ok (t', r) -> should_delete r = true ->
  (c_rst (h_ctl (s_hdr s)) = true /\ ps_rst t' (s_hdr s) = Some r) \/
  (r = PFinalizeClose /\ c_ack (h_ctl (s_hdr s)) = true /\ st t = LastAck /\ st t' = LastAck /\
   is_fin_acked t' = true).
Proof.
  intros H Hd. destruct (process_segment_cases _ _ _ _ H) as
      [? ? ? ?|? Ha|? ? Hr|Ha Hr ? Hs|Ha Hr ? Hs ? ?|t4 t6 Ha Hr ? Hs Hn Ht ? ?]; subst;
    try discriminate Hd.
  - destruct (ps_ack_result _ _ _ Ha) as [->|[->|(-> & ? & ? & ? & ?)]]; try discriminate Hd.
    right. auto.
  - left. split; [|exact Hr]. apply ps_rst_some in Hr. apply Hr.
  - destruct (ps_syn_result _ _ _ Hs) as (_ & [(-> & _)|(-> & _)]); discriminate Hd.
Qed.

(* which deleting result a RST gives, by the state it meets (after the ACK stage) *)
Lemma ps_rst_by_state t h r : ps_rst t h = Some r ->
  match st t with
  | SynSent => r = (if h_seq h =? rcv_nxt t then PConnectionReset else PBlindReset)
  | SynReceived => r = (if listen_init t then PReturnToListen else PConnectionRefused)
  | Established | FinWait1 | FinWait2 | CloseWait => r = PConnectionReset
  | Closing | LastAck | TimeWait => r = PFinalizeClose
  end.
Proof.
  unfold ps_rst. destruct (negb (c_rst (h_ctl h))); [discriminate|].
  destruct (st t); repeat break_if; intros H; inversion H; reflexivity.
Qed.

Lemma segment_arrives_close_one t s t' :
  in_segs t = [] -> segment_arrives t s = Ok (t', AClose) ->
  exists r, process_segment t s = Ok (t', r) /\ should_delete r = true /\
    ((c_rst (h_ctl (s_hdr s)) = true /\ ps_rst t' (s_hdr s) = Some r) \/
     (r = PFinalizeClose /\ c_ack (h_ctl (s_hdr s)) = true /\ st t = LastAck /\ st t' = LastAck /\
      is_fin_acked t' = true)).
Proof.
  intros He H. destruct (segment_arrives_one _ _ _ _ He H) as [? ? ? Hr|pr Hp Hr]; [discriminate Hr|].
  destruct (should_delete pr) eqn:Ed; [|discriminate Hr].
  exists pr. repeat split; auto. eapply process_segment_deleted; eassumption.
Qed.

(* the table, pinned: rfc_edge is exactly "stay" or one of these fourteen pairs *)
Definition rfc_table : list (state * state) :=
  [(SynSent, SynReceived); (SynSent, Established); (SynReceived, Established);
   (SynReceived, FinWait1); (Established, FinWait1); (Established, CloseWait);
   (SynReceived, CloseWait); (FinWait1, FinWait2); (FinWait1, Closing); (FinWait1, TimeWait);
   (FinWait2, TimeWait); (CloseWait, LastAck); (Closing, TimeWait); (SynSent, CloseWait)].
Lemma rfc_edge_table a b : rfc_edge a b = true <-> a = b \/ In (a, b) rfc_table.
Proof.
  split.
  - destruct a, b; cbn; intros H; try discriminate H; auto; right; intuition congruence.
  - intros [->|H]; [apply rfc_edge_refl|].
    unfold rfc_table in H. cbn [In] in H.
    repeat (destruct H as [H|H]; [inversion H; subst; reflexivity|]). destruct H.
Qed.
