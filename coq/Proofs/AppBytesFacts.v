(* Facts about the byte helpers of Model/AppBytes.v (kit codecapp). *)
From Coq Require Import ZifyBool.
From Elvis Require Import Model.Base Model.AppBytes.
Local Open Scope Z_scope.
Ltac Zify.zify_post_hook ::= Z.div_mod_to_equations.

(* ---- the result monad ---------------------------------------------------- *)
Lemma bind_ok {A B} (r : result A) (f : A -> result B) (y : B) :
  bind r f = Ok y -> exists x, r = Ok x /\ f x = Ok y.
Proof. destruct r; cbn [bind]; intros H; try discriminate. eauto. Qed.

Lemma bind_no_panic {A B} (r : result A) (f : A -> result B) :
  is_panic r = false -> (forall x, r = Ok x -> is_panic (f x) = false) ->
  is_panic (bind r f) = false.
Proof. destruct r; cbn [bind is_panic]; intros H K; auto; discriminate. Qed.

Lemma bind_answers {A B} (r : result A) (f : A -> result B) :
  answers r = true -> (forall x, r = Ok x -> answers (f x) = true) ->
  answers (bind r f) = true.
Proof. destruct r; cbn [bind answers]; intros H K; auto; discriminate. Qed.

Lemma answers_no_panic {A} (r : result A) : answers r = true -> is_panic r = false.
Proof. destruct r; cbn; intros H; auto; discriminate. Qed.

Lemma answers_cases {A} (r : result A) : answers r = true ->
  (exists x, r = Ok x) \/ (exists e, r = Err e).
Proof. destruct r; cbn; intros H; try discriminate; eauto. Qed.

Lemma rd_ok {A} (o : option A) (x : A) : rd o = Ok x -> o = Some x.
Proof. destruct o; cbn [rd]; intros H; inversion H; reflexivity. Qed.

Lemma rd_no_panic {A} (o : option A) : is_panic (rd o) = false.
Proof. destruct o; reflexivity. Qed.

Lemma rd_answers {A} (o : option A) : answers (rd o) = true.
Proof. destruct o; reflexivity. Qed.

(* ---- byte strings -------------------------------------------------------- *)
Lemma bytes_app a b : bytes (a ++ b) = bytes a && bytes b.
Proof. apply forallb_app. Qed.

Lemma bytes_cons c l : bytes (c :: l) = byte c && bytes l.
Proof. reflexivity. Qed.

Lemma byte_iff b : byte b = true <-> 0 <= b < 256.
Proof. unfold byte. lia. Qed.

Lemma rng_iff hi v : rng hi v = true <-> 0 <= v < hi.
Proof. unfold rng. lia. Qed.

Lemma bytes_be8 v : bytes (be8 v) = true.
Proof. unfold be8, bytes, forallb, byte. lia. Qed.
Lemma bytes_be16 v : bytes (be16 v) = true.
Proof. unfold be16, bytes, forallb, byte. lia. Qed.
Lemma bytes_be32 v : bytes (be32 v) = true.
Proof. unfold be32, bytes, forallb, byte. lia. Qed.
Lemma bytes_be48 v : bytes (be48 v) = true.
Proof. unfold be48, bytes, forallb, byte. lia. Qed.

(* the form of the property text: the encoding is the consumed prefix *)
Lemma consumed_firstn (bs enc rest : list Z) : bs = enc ++ rest ->
  enc = firstn (length bs - length rest) bs.
Proof.
  intros ->. rewrite app_length, Nat.add_sub, firstn_app, Nat.sub_diag, firstn_all.
  cbn [firstn]. rewrite app_nil_r. reflexivity.
Qed.

(* ---- writer then reader --------------------------------------------------- *)
Lemma next_u8_be8 v r : 0 <= v < 256 -> next_u8 (be8 v ++ r) = Some (v, r).
Proof. intros H. unfold be8. cbn [app next_u8]. do 2 f_equal. lia. Qed.

Lemma next_u16_be16 v r : 0 <= v < 65536 -> next_u16 (be16 v ++ r) = Some (v, r).
Proof. intros H. unfold be16. cbn [app next_u16]. do 2 f_equal. lia. Qed.

Lemma next_u32_be32 v r : 0 <= v < 4294967296 -> next_u32 (be32 v ++ r) = Some (v, r).
Proof. intros H. unfold be32. cbn [app next_u32]. do 2 f_equal. lia. Qed.

(* for a full u64 the two top bytes are lost: the reader sees v mod 2^48 *)
Lemma next_u48_be48_mod v r : 0 <= v ->
  next_u48 (be48 v ++ r) = Some (v mod 281474976710656, r).
Proof. intros H. unfold be48. cbn [app next_u48]. do 2 f_equal. lia. Qed.

Lemma next_u48_be48 v r : 0 <= v < 281474976710656 -> next_u48 (be48 v ++ r) = Some (v, r).
Proof.
  intros H. rewrite next_u48_be48_mod by lia. do 2 f_equal. apply Z.mod_small. lia.
Qed.

(* ---- reader then writer --------------------------------------------------- *)
Lemma next_u8_inv bs v r : bytes bs = true -> next_u8 bs = Some (v, r) ->
  bs = be8 v ++ r /\ rng 256 v = true /\ bytes r = true.
Proof.
  destruct bs as [|a r0]; cbn [next_u8]; intros Hb H; inversion H; subst.
  rewrite bytes_cons in Hb. apply andb_prop in Hb as [Ha Hr]. apply byte_iff in Ha.
  unfold be8, rng. cbn [app]. repeat split; auto; try lia. f_equal. lia.
Qed.

Lemma next_u16_inv bs v r : bytes bs = true -> next_u16 bs = Some (v, r) ->
  bs = be16 v ++ r /\ rng 65536 v = true /\ bytes r = true.
Proof.
  destruct bs as [|a [|b r0]]; cbn [next_u16]; intros Hb H; inversion H; subst.
  rewrite !bytes_cons in Hb.
  apply andb_prop in Hb as [Ha Hb]. apply andb_prop in Hb as [Hb Hr].
  apply byte_iff in Ha, Hb.
  unfold be16, rng. cbn [app]. repeat split; auto; try lia.
  f_equal; [|f_equal]; lia.
Qed.

Lemma next_u32_inv bs v r : bytes bs = true -> next_u32 bs = Some (v, r) ->
  bs = be32 v ++ r /\ rng 4294967296 v = true /\ bytes r = true.
Proof.
  destruct bs as [|a [|b [|c [|d r0]]]]; cbn [next_u32]; intros Hb H; inversion H; subst.
  rewrite !bytes_cons in Hb.
  apply andb_prop in Hb as [Ha Hb]. apply andb_prop in Hb as [Hb Hc].
  apply andb_prop in Hc as [Hc Hd]. apply andb_prop in Hd as [Hd Hr].
  apply byte_iff in Ha, Hb, Hc, Hd.
  unfold be32, rng. cbn [app]. repeat split; auto; try lia.
  f_equal; [|f_equal; [|f_equal; [|f_equal]]]; lia.
Qed.

Lemma next_u48_inv bs v r : bytes bs = true -> next_u48 bs = Some (v, r) ->
  bs = be48 v ++ r /\ rng 281474976710656 v = true /\ bytes r = true.
Proof.
  destruct bs as [|a [|b [|c [|d [|e [|f r0]]]]]]; cbn [next_u48]; intros Hb H; inversion H; subst.
  rewrite !bytes_cons in Hb.
  apply andb_prop in Hb as [Ha Hb]. apply andb_prop in Hb as [Hb Hc].
  apply andb_prop in Hc as [Hc Hd]. apply andb_prop in Hd as [Hd He].
  apply andb_prop in He as [He Hf]. apply andb_prop in Hf as [Hf Hr].
  apply byte_iff in Ha, Hb, Hc, Hd, He, Hf.
  unfold be48, rng. cbn [app]. repeat split; auto; try lia.
  f_equal; [|f_equal; [|f_equal; [|f_equal; [|f_equal; [|f_equal]]]]]; lia.
Qed.

(* ---- the delimiter loop --------------------------------------------------- *)
Lemma read_until_app d n r : free_of d n = true -> read_until d (n ++ d :: r) = Ok (n, r).
Proof.
  induction n as [|c n IH]; cbn [app read_until free_of forallb]; intros H.
  - rewrite Z.eqb_refl. reflexivity.
  - apply andb_prop in H as [Hc Hn]. apply negb_true_iff in Hc. rewrite Hc.
    fold (free_of d n) in Hn. rewrite (IH Hn). reflexivity.
Qed.

Lemma read_until_inv d bs n r : read_until d bs = Ok (n, r) ->
  bs = n ++ d :: r /\ free_of d n = true.
Proof.
  revert n r. induction bs as [|c bs IH]; cbn [read_until]; intros n r H; [discriminate|].
  destruct (c =? d) eqn:E.
  - inversion H; subst. apply Z.eqb_eq in E. subst. split; reflexivity.
  - apply bind_ok in H as [[n0 r0] [H0 H1]]. inversion H1; subst.
    destruct (IH _ _ H0) as [-> Hf]. split; [reflexivity|].
    cbn [free_of forallb]. rewrite E. exact Hf.
Qed.

Lemma read_until_no_panic d bs : is_panic (read_until d bs) = false.
Proof.
  induction bs as [|c bs IH]; cbn [read_until]; [reflexivity|].
  destruct (c =? d); [reflexivity|].
  destruct (read_until d bs) as [[n r]| | |]; cbn [bind is_panic] in *; auto.
Qed.

Lemma read_until_answers d bs : answers (read_until d bs) = true.
Proof.
  induction bs as [|c bs IH]; cbn [read_until]; [reflexivity|].
  destruct (c =? d); [reflexivity|].
  destruct (read_until d bs) as [[n r]| | |]; cbn [bind answers] in *; auto.
Qed.

Lemma bytes_split a c b : bytes (a ++ c :: b) = true ->
  bytes a = true /\ byte c = true /\ bytes b = true.
Proof.
  rewrite bytes_app, bytes_cons. intros H.
  apply andb_prop in H as [Ha H]. apply andb_prop in H as [Hc Hb]. auto.
Qed.

(* ---- the UTF-8 predicate: sanity anchors (the tie to std is the lock-step) - *)
Lemma utf8_ascii l : forallb (fun b => b <? 128) l = true -> utf8_valid l = true.
Proof.
  induction l as [|b l IH]; cbn [forallb utf8_valid]; intros H; [reflexivity|].
  apply andb_prop in H as [Hb Hl]. rewrite Hb. auto.
Qed.

Example utf8_examples :
  utf8_valid [195; 169] = true /\            (* U+00E9 *)
  utf8_valid [226; 130; 172] = true /\       (* U+20AC *)
  utf8_valid [240; 159; 152; 128] = true /\  (* U+1F600 *)
  utf8_valid [244; 143; 191; 191] = true /\  (* U+10FFFF *)
  utf8_valid [192; 128] = false /\           (* overlong *)
  utf8_valid [224; 159; 191] = false /\      (* overlong 3 *)
  utf8_valid [237; 160; 128] = false /\      (* surrogate U+D800 *)
  utf8_valid [244; 144; 128; 128] = false /\ (* above U+10FFFF *)
  utf8_valid [128] = false /\ utf8_valid [255] = false /\ utf8_valid [195] = false.
Proof. vm_compute. repeat split. Qed.
