(* Facts about the session-task model (Model/TcpSession.v), parts 1 and 2:
   soundness of the trace validator and the small facts about the loop. *)
From Elvis Require Import Model.Base Model.U32 Model.Tcb Model.TcpNet Model.TcpSession.
Local Open Scope Z_scope.

(* ---------- boolean comparisons decide equality ---------- *)
Lemma bytes_eqb_eq a : forall b, bytes_eqb a b = true -> a = b.
Proof.
  induction a as [|x a IH]; intros [|y b] H; cbn [bytes_eqb] in H; try discriminate; [reflexivity|].
  apply andb_prop in H. destruct H as [H1 H2]. apply Z.eqb_eq in H1. subst y. f_equal. apply IH, H2.
Qed.

Lemma ctl_eqb_eq a b : ctl_eqb a b = true -> a = b.
Proof.
  destruct a as [a1 a2 a3 a4 a5 a6], b as [b1 b2 b3 b4 b5 b6]. unfold ctl_eqb. cbn [c_urg c_ack c_psh c_rst c_syn c_fin]. intros H.
  repeat (apply andb_prop in H; destruct H as [H ?]).
  repeat match goal with E : Bool.eqb _ _ = true |- _ => apply eqb_prop in E end.
  congruence.
Qed.

Lemma hdr_eqb_eq a b : hdr_eqb a b = true -> a = b.
Proof.
  destruct a as [a1 a2 a3 a4 a5 a6 a7], b as [b1 b2 b3 b4 b5 b6 b7]. unfold hdr_eqb. cbn [h_sport h_dport h_seq h_ack h_ctl h_wnd h_urg]. intros H.
  repeat (apply andb_prop in H; destruct H as [H ?]).
  repeat match goal with E : (_ =? _) = true |- _ => apply Z.eqb_eq in E end.
  match goal with E : ctl_eqb _ _ = true |- _ => apply ctl_eqb_eq in E end.
  congruence.
Qed.

Lemma seg_eqb_eq a b : seg_eqb a b = true -> a = b.
Proof.
  destruct a as [a1 a2], b as [b1 b2]. unfold seg_eqb. cbn [s_hdr s_text]. intros H.
  apply andb_prop in H. destruct H as [H1 H2]. apply hdr_eqb_eq in H1. apply bytes_eqb_eq in H2. congruence.
Qed.

(* ---------- what "the observed trace is what the model produces" means ---------- *)
Definition ev_agrees (e : oevent) (o : sout) : Prop :=
  match e, o with
  | EvConnected, OConnected => True
  | EvIncoming s, OCall (CArrives s') => s = s'
  | EvOutgoing b, OCall (CSend b') => b = b'
  | EvAdvance ns, OCall (CAdvance ms) => ns = ms * 1000000
  | EvEmitted s, OEmitted s' => s = s'
  | EvFlushed b, OFlushed b' => b = b'
  | EvEnded sn, OEnded t => snap_matches sn t = true
  | _, _ => False
  end.

(* the observed events are, one by one, the first visible outputs of the model *)
Inductive obs_prefix : list oevent -> list sout -> Prop :=
| op_nil os : obs_prefix [] os
| op_cons e o tr os : ev_agrees e o -> obs_prefix tr os -> obs_prefix (e :: tr) (o :: os).

Lemma ev_matches_agrees e o : ev_matches e o = true -> ev_agrees e o.
Proof.
  destruct e, o; cbn [ev_matches ev_agrees]; try discriminate; try (intros; exact I);
    try destruct c; try discriminate; intros H.
  - apply seg_eqb_eq, H.
  - apply bytes_eqb_eq, H.
  - apply Z.eqb_eq in H. exact H.
  - apply seg_eqb_eq, H.
  - apply bytes_eqb_eq, H.
  - exact H.
Qed.

Lemma first_mismatch_none tr : forall k os, first_mismatch k tr os = None -> obs_prefix tr os.
Proof.
  induction tr as [|e tr IH]; intros k os H; [constructor|].
  destruct os as [|o os]; cbn [first_mismatch] in H; [discriminate|].
  destruct (ev_matches e o) eqn:E; [|discriminate].
  constructor; [apply ev_matches_agrees, E|eapply IH, H].
Qed.

(* ---------- the initial TCB ---------- *)
Lemma init_tcb_spec i t : init_tcb i = Some t ->
  snap_matches (ii_snap i) t = true /\
  (if sn_listen (ii_snap i)
   then arrives_listen (syn_of_snapshot i) (sn_iss (ii_snap i)) (ii_mtu i) = LTcb t
   else t = tcb_open (ii_lport i) (ii_rport i) (sn_iss (ii_snap i)) (ii_mtu i)).
Proof.
  unfold init_tcb, init_candidate. destruct (sn_listen (ii_snap i)).
  - destruct (arrives_listen _ _ _) as [|h|t0]; try discriminate.
    destruct (snap_matches (ii_snap i) t0) eqn:E; [|discriminate]. intros [= <-]. auto.
  - destruct (snap_matches (ii_snap i) _) eqn:E; [|discriminate]. intros [= <-]. auto.
Qed.

(* ---------- (a) soundness of the validator ---------- *)
Theorem validate_sound i tr : sess_validate i tr = Accept ->
  exists t0 evs s' outs,
    init_tcb i = Some t0 /\
    sess_exec (fst (sess_start t0)) evs = Some (s', outs) /\
    obs_prefix tr (filter visible (snd (sess_start t0) ++ outs)).
Proof.
  unfold sess_validate. destruct (init_tcb i) as [t0|] eqn:Ei; [|discriminate].
  destruct (sess_start t0) as [s0 o0] eqn:Es.
  destruct (sess_exec s0 (inputs_of RTop tr)) as [[s' outs]|] eqn:Ex; [|discriminate].
  destruct (first_mismatch 0 tr (filter visible (o0 ++ outs))) eqn:Em; [discriminate|].
  intros _. exists t0, (inputs_of RTop tr), s', outs. rewrite Es. cbn [fst snd].
  split; [reflexivity|]. split; [exact Ex|]. eapply first_mismatch_none, Em.
Qed.

(* ---------- (c) small facts about the loop ---------- *)
Lemma sess_top_outs t c : forall o, In o (snd (sess_top t c)) -> o = OCall CStatus \/ o = OConnected.
Proof.
  unfold sess_top. destruct c; [intros o []|].
  destruct (state_eqb (st t) Established); cbn [snd]; intros o Hin;
    repeat (destruct Hin as [<-|Hin]; auto); destruct Hin.
Qed.

Lemma sess_handle_cases s e next s' o : sess_handle s e next = Some (s', o) ->
  (exists seg t1, e = SIncoming seg /\ segment_arrives (ss_tcb s) seg = Ok (t1, AOk) /\
                  s' = mkSess t1 (ss_conn s) next /\ o = [OCall (CArrives seg)]) \/
  (exists seg t1, e = SIncoming seg /\ segment_arrives (ss_tcb s) seg = Ok (t1, AClose) /\
                  s' = mkSess t1 (ss_conn s) PEnded /\ o = [OCall (CArrives seg); OEnded t1]) \/
  (exists seg p, e = SIncoming seg /\ (forall r, segment_arrives (ss_tcb s) seg <> Ok r) /\
                 s' = mkSess (ss_tcb s) (ss_conn s) PCrashed /\ o = [OCall (CArrives seg); OPanicked p]) \/
  (exists b, e = SOutgoing b /\ s' = mkSess (tcb_send (ss_tcb s) b) (ss_conn s) next /\ o = [OCall (CSend b)]).
Proof.
  unfold sess_handle. cbv zeta. destruct e as [seg|b| | | |]; try discriminate.
  - destruct (segment_arrives (ss_tcb s) seg) as [[t1 []]|x|p|] eqn:Ea; intros [= <- <-].
    + left. eauto 10.
    + right. left. eauto 10.
    + right. right. left. exists seg, 99. split; [reflexivity|]. split; [intros r; rewrite Ea; discriminate|]. split; reflexivity.
    + right. right. left. exists seg, p. split; [reflexivity|]. split; [intros r; rewrite Ea; discriminate|]. split; reflexivity.
    + right. right. left. exists seg, 99. split; [reflexivity|]. split; [intros r; rewrite Ea; discriminate|]. split; reflexivity.
  - intros [= <- <-]. right. right. right. eauto.
Qed.

(* nothing is enabled once the task has left its loop (or died) *)
Lemma sess_step_ended s e : ss_phase s = PEnded \/ ss_phase s = PCrashed -> sess_step s e = None.
Proof. unfold sess_step. intros [-> | ->]; reflexivity. Qed.

Lemma sess_exec_ended s evs s' outs :
  ss_phase s = PEnded \/ ss_phase s = PCrashed -> sess_exec s evs = Some (s', outs) ->
  evs = [] /\ outs = [] /\ s' = s.
Proof.
  intros Hp. destruct evs as [|e r]; cbn [sess_exec].
  - intros [= <- <-]. auto.
  - rewrite (sess_step_ended s e Hp). discriminate.
Qed.

(* the task ends exactly on SegmentArrivesResult::Close and on AdvanceTimeResult::CloseConnection,
   the Ended output is the last thing the step does, and it carries the TCB the call left behind *)
Lemma sess_step_end_cause s e s' o t : sess_step s e = Some (s', o) -> In (OEnded t) o ->
  ss_phase s' = PEnded /\ ss_tcb s' = t /\
  ((exists seg, e = SIncoming seg /\ segment_arrives (ss_tcb s) seg = Ok (t, AClose) /\
                o = [OCall (CArrives seg); OEnded t]) \/
   (e = SAdvance /\ advance_time (ss_tcb s) 5 = (t, TCloseConnection) /\
    o = [OCall (CAdvance 5); OEnded t])).
Proof.
  unfold sess_step. cbv zeta. destruct (ss_phase s) as [nt| | | | |]; try discriminate.
  - destruct e; try discriminate.
    + intros H Hin. apply sess_handle_cases in H.
      destruct H as [(seg0 & t1 & E & Ea & -> & ->)|[(seg0 & t1 & E & Ea & -> & ->)|[(seg0 & p & E & Ea & -> & ->)|(b & E & -> & ->)]]];
        cbn in Hin; try (destruct Hin as [Hin|[Hin|[]]]; discriminate Hin); try (destruct Hin as [Hin|[]]; discriminate Hin).
      destruct Hin as [Hin|[Hin|[]]]; [discriminate|]. injection Hin as <-. cbn [ss_phase ss_tcb].
      split; [reflexivity|]. split; [reflexivity|]. left. exists seg0. auto.
    + intros H Hin. apply sess_handle_cases in H.
      destruct H as [(seg0 & t1 & E & _)|[(seg0 & t1 & E & _)|[(seg0 & p & E & _)|(b & E & -> & ->)]]]; try discriminate.
      destruct Hin as [Hin|[]]; discriminate.
    + intros [= <- <-] [].
  - destruct e; try discriminate.
    + intros H Hin. apply sess_handle_cases in H.
      destruct H as [(seg0 & t1 & E & Ea & -> & ->)|[(seg0 & t1 & E & Ea & -> & ->)|[(seg0 & p & E & Ea & -> & ->)|(b & E & -> & ->)]]];
        cbn in Hin; try (destruct Hin as [Hin|[Hin|[]]]; discriminate Hin); try (destruct Hin as [Hin|[]]; discriminate Hin).
      destruct Hin as [Hin|[Hin|[]]]; [discriminate|]. injection Hin as <-. cbn [ss_phase ss_tcb].
      split; [reflexivity|]. split; [reflexivity|]. left. exists seg0. auto.
    + intros H Hin. apply sess_handle_cases in H.
      destruct H as [(seg0 & t1 & E & _)|[(seg0 & t1 & E & _)|[(seg0 & p & E & _)|(b & E & -> & ->)]]]; try discriminate.
      destruct Hin as [Hin|[]]; discriminate.
    + change TIMEOUT_MS with 5. destruct (advance_time (ss_tcb s) 5) as [t1 []] eqn:Ea; intros [= <- <-] Hin.
      * destruct Hin as [Hin|[]]; discriminate.
      * destruct Hin as [Hin|[Hin|[]]]; [discriminate|]. injection Hin as <-. cbn [ss_phase ss_tcb]. auto 10.
  - destruct e; try discriminate.
    destruct (tcb_segments (ss_tcb s)) as [[t1 segs]|x|p|]; intros [= <- <-] Hin.
    + destruct Hin as [Hin|Hin]; [discriminate|]. apply in_map_iff in Hin. destruct Hin as (x & Hx & _). discriminate.
    + destruct Hin as [Hin|[Hin|[]]]; discriminate.
    + destruct Hin as [Hin|[Hin|[]]]; discriminate.
    + destruct Hin as [Hin|[Hin|[]]]; discriminate.
  - destruct e; try discriminate.
    destruct (tcb_receive (ss_tcb s)) as [t1 bytes]. destruct (sess_top t1 (ss_conn s)) as [c o1] eqn:Et.
    intros [= <- <-] Hin. destruct Hin as [Hin|[Hin|Hin]]; try discriminate.
    pose proof (sess_top_outs t1 (ss_conn s) _ ltac:(rewrite Et; exact Hin)) as [H|H]; discriminate.
Qed.

(* in an execution the Ended output, if any, is the very last output: after the call that
   returned Close / CloseConnection the task calls nothing on its TCB and emits / flushes nothing *)
Theorem exec_ended_last evs : forall s s' outs t,
  sess_exec s evs = Some (s', outs) -> In (OEnded t) outs ->
  exists pre, outs = pre ++ [OEnded t] /\ ss_phase s' = PEnded /\ ss_tcb s' = t.
Proof.
  induction evs as [|e r IH]; intros s s' outs t; cbn [sess_exec].
  - intros [= <- <-] [].
  - destruct (sess_step s e) as [[s1 o1]|] eqn:E1; [|discriminate].
    destruct (sess_exec s1 r) as [[s2 o2]|] eqn:E2; [|discriminate].
    intros [= <- <-] Hin. apply in_app_or in Hin. destruct Hin as [Hin|Hin].
    + destruct (sess_step_end_cause _ _ _ _ _ E1 Hin) as (Hp & Ht & Hc).
      destruct (sess_exec_ended s1 r s2 o2 (or_introl Hp) E2) as (_ & -> & ->).
      rewrite app_nil_r. split with (x := removelast o1). split; [|split; assumption].
      destruct Hc as [(seg & _ & _ & ->)|(_ & _ & ->)]; reflexivity.
    + destruct (IH _ _ _ _ E2 Hin) as (pre & -> & Hp & Ht).
      exists (o1 ++ pre). rewrite app_assoc. auto.
Qed.

(* advance_time is only ever called with 5 ms *)
Lemma sess_step_advance s e s' o ms : sess_step s e = Some (s', o) -> In (OCall (CAdvance ms)) o -> ms = 5.
Proof.
  unfold sess_step. cbv zeta. destruct (ss_phase s) as [nt| | | | |]; try discriminate.
  - destruct e; try discriminate.
    + intros H Hin. apply sess_handle_cases in H.
      destruct H as [(seg0 & t1 & E & Ea & -> & ->)|[(seg0 & t1 & E & Ea & -> & ->)|[(seg0 & p & E & Ea & -> & ->)|(b & E & -> & ->)]]];
        cbn in Hin; intuition discriminate.
    + intros H Hin. apply sess_handle_cases in H.
      destruct H as [(seg0 & t1 & E & Ea & -> & ->)|[(seg0 & t1 & E & Ea & -> & ->)|[(seg0 & p & E & Ea & -> & ->)|(b & E & -> & ->)]]];
        cbn in Hin; intuition discriminate.
    + intros [= <- <-] [].
  - destruct e; try discriminate.
    + intros H Hin. apply sess_handle_cases in H.
      destruct H as [(seg0 & t1 & E & Ea & -> & ->)|[(seg0 & t1 & E & Ea & -> & ->)|[(seg0 & p & E & Ea & -> & ->)|(b & E & -> & ->)]]];
        cbn in Hin; intuition discriminate.
    + intros H Hin. apply sess_handle_cases in H.
      destruct H as [(seg0 & t1 & E & Ea & -> & ->)|[(seg0 & t1 & E & Ea & -> & ->)|[(seg0 & p & E & Ea & -> & ->)|(b & E & -> & ->)]]];
        cbn in Hin; intuition discriminate.
    + destruct (advance_time (ss_tcb s) TIMEOUT_MS) as [t1 []]; intros [= <- <-] Hin; cbn in Hin;
        destruct Hin as [Hin|Hin]; try (injection Hin as <-; reflexivity); intuition discriminate.
  - destruct e; try discriminate.
    destruct (tcb_segments (ss_tcb s)) as [[t1 segs]|x|p|]; intros [= <- <-] Hin.
    + destruct Hin as [Hin|Hin]; [discriminate|]. apply in_map_iff in Hin. destruct Hin as (x & Hx & _). discriminate.
    + cbn in Hin; intuition discriminate.
    + cbn in Hin; intuition discriminate.
    + cbn in Hin; intuition discriminate.
  - destruct e; try discriminate.
    destruct (tcb_receive (ss_tcb s)) as [t1 bytes]. destruct (sess_top t1 (ss_conn s)) as [c o1] eqn:Et.
    intros [= <- <-] Hin. destruct Hin as [Hin|[Hin|Hin]]; try discriminate.
    pose proof (sess_top_outs t1 (ss_conn s) _ ltac:(rewrite Et; exact Hin)) as [H|H]; discriminate.
Qed.

Theorem exec_advance_5ms evs : forall s s' outs ms,
  sess_exec s evs = Some (s', outs) -> In (OCall (CAdvance ms)) outs -> ms = 5.
Proof.
  induction evs as [|e r IH]; intros s s' outs ms; cbn [sess_exec].
  - intros [= <- <-] [].
  - destruct (sess_step s e) as [[s1 o1]|] eqn:E1; [|discriminate].
    destruct (sess_exec s1 r) as [[s2 o2]|] eqn:E2; [|discriminate].
    intros [= <- <-] Hin. apply in_app_or in Hin. destruct Hin as [Hin|Hin].
    + eapply sess_step_advance; eassumption.
    + eapply IH; eassumption.
Qed.

(* segments() is followed by receive(): after SEmit only SFlush is enabled, it calls receive()
   first, and a new round starts only through it *)
Theorem emit_then_receive s s1 o1 : sess_step s SEmit = Some (s1, o1) ->
  (ss_phase s1 = PEmitted \/ ss_phase s1 = PCrashed) /\
  (ss_phase s1 = PEmitted -> forall e s2 o2, sess_step s1 e = Some (s2, o2) ->
     e = SFlush /\ ss_phase s2 = PDrain true /\
     exists rest, o2 = OCall CReceive :: OFlushed (in_text (ss_tcb s1)) :: rest).
Proof.
  intros H. split.
  - revert H. unfold sess_step. cbv zeta. destruct (ss_phase s) as [nt| | | | |]; try discriminate.
    destruct (tcb_segments (ss_tcb s)) as [[t1 segs]|x|p|]; intros [= <- _]; cbn [ss_phase]; auto.
  - intros Hp e s2 o2. unfold sess_step. cbv zeta. rewrite Hp. destruct e; try discriminate.
    unfold tcb_receive. destruct (sess_top _ _) as [c o]. intros [= <- <-]. cbn [ss_phase]. eauto.
Qed.

Theorem round_starts_after_receive s e s' o :
  sess_step s e = Some (s', o) -> ss_phase s' = PDrain true ->
  e = SFlush /\ exists b rest, o = OCall CReceive :: OFlushed b :: rest.
Proof.
  unfold sess_step. cbv zeta. destruct (ss_phase s) as [nt| | | | |]; try discriminate.
  - destruct e; try discriminate.
    + intros H. apply sess_handle_cases in H.
      destruct H as [(seg0 & t1 & E & Ea & -> & ->)|[(seg0 & t1 & E & Ea & -> & ->)|[(seg0 & p & E & Ea & -> & ->)|(b & E & -> & ->)]]];
        cbn [ss_phase]; discriminate.
    + intros H. apply sess_handle_cases in H.
      destruct H as [(seg0 & t1 & E & Ea & -> & ->)|[(seg0 & t1 & E & Ea & -> & ->)|[(seg0 & p & E & Ea & -> & ->)|(b & E & -> & ->)]]];
        cbn [ss_phase]; discriminate.
    + intros [= <- <-]. cbn [ss_phase]. destruct nt; discriminate.
  - destruct e; try discriminate.
    + intros H. apply sess_handle_cases in H.
      destruct H as [(seg0 & t1 & E & Ea & -> & ->)|[(seg0 & t1 & E & Ea & -> & ->)|[(seg0 & p & E & Ea & -> & ->)|(b & E & -> & ->)]]];
        cbn [ss_phase]; discriminate.
    + intros H. apply sess_handle_cases in H.
      destruct H as [(seg0 & t1 & E & Ea & -> & ->)|[(seg0 & t1 & E & Ea & -> & ->)|[(seg0 & p & E & Ea & -> & ->)|(b & E & -> & ->)]]];
        cbn [ss_phase]; discriminate.
    + destruct (advance_time (ss_tcb s) TIMEOUT_MS) as [t1 []]; intros [= <- <-]; cbn [ss_phase]; discriminate.
  - destruct e; try discriminate.
    destruct (tcb_segments (ss_tcb s)) as [[t1 segs]|x|p|]; intros [= <- <-]; cbn [ss_phase]; discriminate.
  - destruct e; try discriminate.
    destruct (tcb_receive (ss_tcb s)) as [t1 bytes]. destruct (sess_top t1 (ss_conn s)) as [c o1].
    intros [= <- <-] _. eauto.
Qed.

(* consequences for accepted traces *)
Lemma obs_prefix_In tr : forall os e, obs_prefix tr os -> In e tr -> exists o, In o os /\ ev_agrees e o.
Proof.
  induction tr as [|e0 tr IH]; intros os e H Hin; [destruct Hin|].
  inversion H; subst. destruct Hin as [<-|Hin].
  - exists o. split; [left; reflexivity|assumption].
  - destruct (IH _ _ H4 Hin) as (o' & Ho & Ha). exists o'. split; [right; assumption|assumption].
Qed.

Theorem validate_advance_5ms i tr ns :
  sess_validate i tr = Accept -> In (EvAdvance ns) tr -> ns = 5000000.
Proof.
  intros Hv Hin. destruct (validate_sound i tr Hv) as (t0 & evs & s' & outs & Hi & Hx & Hp).
  destruct (obs_prefix_In _ _ _ Hp Hin) as (o & Ho & Ha).
  apply filter_In in Ho. destruct Ho as [Ho _].
  destruct o; try contradiction. destruct c; try contradiction. cbn [ev_agrees] in Ha. subst ns.
  apply in_app_or in Ho. destruct Ho as [Ho|Ho].
  - unfold sess_start in Ho. destruct (sess_top t0 false) as [c o] eqn:Et. cbn [snd] in Ho.
    pose proof (sess_top_outs t0 false _ ltac:(rewrite Et; exact Ho)) as [H|H]; discriminate.
  - rewrite (exec_advance_5ms _ _ _ _ _ Hx Ho). reflexivity.
Qed.
