(* C01 liveness: the three-way handshake reaches a quiescent state, for every configuration
   (passive open: B listens, A opens, two loss-free rounds). *)
From Elvis Require Import Model.Base Model.U32 Model.Tcb Model.TcpNet
  Proofs.U32Facts Proofs.TcbSafetyDefs Proofs.TcbSafetyBase Proofs.TcbSafetySnd Proofs.TcbSafetyRcv
  Proofs.TcbSafetyArr Proofs.TcbSafetySys Proofs.TcbLive Proofs.TcbLiveSys Proofs.TcbLiveThm
  Proofs.TcbLiveHs.
From Coq Require Import ZifyBool.
Local Open Scope Z_scope.
Ltac Zify.zify_post_hook ::= Z.div_mod_to_equations.

Ltac sys_simpl :=
  cbn [set_end set_net set_sub set_del end_of net_of sub_of del_of
       endA endB netA netB subA subB delA delB panicked other] in *.

(* turn the endpoints in the goal into literal records (deeply nested setters make every later
   conversion check expensive) *)
Ltac tcb_norm :=
  cbv [tcb_open listen_tcb enqueue ack_hdr hb hb_ack hb_wnd hb_flag hb_syn hb_fin hb_rst ctl0
       set_st set_snd_una set_snd_nxt set_snd_window set_rcv_irs set_rcv_nxt set_out_text
       set_retx set_oneshot set_fin_pending set_in_segs set_in_text set_rto set_time_wait
       lport rport mtu listen_init st snd_una snd_nxt snd_wnd snd_wl1 snd_wl2 snd_iss
       rcv_irs rcv_nxt rcv_wnd out_text retx oneshot fin_pending in_segs in_text rto time_wait
       h_sport h_dport h_seq h_ack h_ctl h_wnd h_urg c_urg c_ack c_psh c_rst c_syn c_fin
       s_hdr s_text t_seg t_needs orb app map].

(* normal form of segments() when there is nothing to segmentize *)
Lemma segments_flush t :
  out_text t = [] -> fin_pending t = false -> segmentizes (st t) = true -> 50 <= mtu t ->
  exists t', tcb_segments t = Ok (t', map (fun h => mkSeg h []) (oneshot t) ++ map t_seg (filter t_needs (retx t))) /\
    t' = (let t2 := set_retx (set_oneshot t []) (map (fun tx => mkTx (t_seg tx) false) (retx t)) in
          match map t_seg (filter t_needs (retx t)) with [] => t2 | _ => set_rto t2 RTO end).
Proof. intros. eexists. split; [apply segments_nothing_new; assumption|reflexivity]. Qed.

Section Hs.
  Variable c : config.
  Hypothesis Hc : cfg_ok c.

  Definition fresh (s : sys) : Prop := subA s = [] /\ subB s = [] /\ delA s = [] /\ delB s = [].

  Lemma handshake_passive :
    Quiescent c (run c (init_sys true) [LOpen SA; LFair 2]) (wadd (issA c) 1) (wadd (issB c) 1) /\
    fresh (run c (init_sys true) [LOpen SA; LFair 2]).
  Proof.
    destruct Hc as (HuA & HuB & HmA & HmB).
    cbn [run fold_left].
    set (tA0 := tcb_open (portA c) (portB c) (issA c) (mtuA c)).
    assert (E0 : fst (sys_step c (init_sys true) (LOpen SA)) =
                 mkSys (ELive tA0) EListen [] [] [] [] [] [] false) by reflexivity.
    rewrite E0. clear E0. set (s1 := mkSys _ _ _ _ _ _ _ _ _).
    rewrite (fair2 c s1 eq_refl).
    (* ===== half-round 1 (A): the SYN and its retransmitted copy ===== *)
    set (synh := hb_wnd (hb_syn (mkHdr (portA c) (portB c) (issA c) 0 ctl0 0 0)) DEFAULT_WND).
    set (syn := mkSeg synh []).
    assert (Hsyn : syn_only synh) by (unfold syn_only; auto).
    assert (E1 : tcb_segments tA0 =
                 Ok (set_rto (set_retx (set_oneshot tA0 []) [mkTx syn false]) RTO, [syn])).
    { rewrite segments_nothing_new; try reflexivity. cbn. lia. }
    set (tA1 := set_rto _ RTO) in E1.
    pose proof (advance_101 tA1 eq_refl eq_refl) as E2.
    change (retx tA1) with [mkTx syn false] in E2. cbn [map t_seg] in E2.
    set (tA2 := set_retx _ _) in E2.
    assert (E3 : tcb_segments tA2 =
                 Ok (set_rto (set_retx (set_oneshot tA2 []) [mkTx syn false]) RTO, [syn])).
    { rewrite segments_nothing_new; try reflexivity. cbn. lia. }
    set (tA3 := set_rto _ RTO) in E3.
    assert (H1 : fair_half c s1 SA =
      mkSys (ELive (set_in_text tA3 []))
            (ELive (set_in_text (set_oneshot (set_in_segs (listen_tcb synh (issB c) (mtuB c)) [])
                                             [ack_hdr (listen_tcb synh (issB c) (mtuB c))]) []))
            [] [] [] [] [] [] false).
    { unfold fair_half, fair_half_t.
      rewrite (tick_eval s1 SA tA0 tA1 [syn] tA2 101 eq_refl E1 E2). subst s1. sys_simpl. cbn [app].
      set (s1' := mkSys _ _ _ _ _ _ _ _ _).
      rewrite (emit_eval s1' SA tA2 tA3 [syn] eq_refl E3). cbn iota beta. subst s1'. sys_simpl. cbn [app length].
      cbn iota.
      (* first SYN: LISTEN creates the TCB *)
      rewrite deliver_all_cons with (seg := syn) (rest := [syn]) by reflexivity. sys_simpl.
      unfold arrive at 1. sys_simpl. fold syn.
      change (iss_of c SB) with (issB c). change (mtu_of c SB) with (mtuB c).
      assert (EL : arrives_listen syn (issB c) (mtuB c) = LTcb (listen_tcb synh (issB c) (mtuB c)))
        by (apply syn_to_listen; exact Hsyn).
      rewrite EL. cbn [fst]. sys_simpl.
      set (tB0 := listen_tcb synh (issB c) (mtuB c)).
      (* second SYN: a duplicate in SYN-RECEIVED *)
      rewrite deliver_all_cons with (seg := syn) (rest := []) by reflexivity. sys_simpl.
      assert (E4 : segment_arrives tB0 syn =
                   Ok (set_oneshot (set_in_segs tB0 []) (oneshot tB0 ++ [ack_hdr tB0]), AOk)).
      { eapply dup_syn_after_listen; try reflexivity; try assumption. }
      erewrite (arrive_eval c _ SB tB0 syn); [|reflexivity|exact E4]. sys_simpl.
      rewrite deliver_all_nil by reflexivity.
      (* reads *)
      erewrite (recv_eval_empty _ SA (tA3)); [|reflexivity|reflexivity]. sys_simpl.
      erewrite (recv_eval_empty _ SB (set_oneshot (set_in_segs tB0 []) (oneshot tB0 ++ [ack_hdr tB0]))); [|reflexivity|reflexivity].
      sys_simpl. reflexivity. }
    rewrite H1. clear H1 E1 E2 E3. subst tA3 tA2 tA1 tA0. tcb_norm.
    match goal with |- context [mkSys (ELive ?a) (ELive ?b)] => set (tA4 := a); set (tB1 := b) end.
    set (s2 := mkSys _ _ _ _ _ _ _ _ _).
    (* ===== half-round 1 (B): bare ACK, SYN-ACK and its copy ===== *)
    set (ackB := ack_hdr tB1).
    set (sah := hb_wnd (hb_ack (hb_syn (mkHdr (portB c) (portA c) (issB c) 0 ctl0 0 0)) (wadd (issA c) 1)) DEFAULT_WND).
    set (synack := mkSeg sah []).
    assert (F1 : tcb_segments tB1 =
                 Ok (set_rto (set_retx (set_oneshot tB1 []) [mkTx synack false]) RTO, [mkSeg ackB []; synack])).
    { rewrite segments_nothing_new; try reflexivity. cbn. lia. }
    set (tB2 := set_rto _ RTO) in F1.
    pose proof (advance_101 tB2 eq_refl eq_refl) as F2.
    change (retx tB2) with [mkTx synack false] in F2. cbn [map t_seg] in F2.
    set (tB3 := set_retx _ _) in F2.
    assert (F3 : tcb_segments tB3 =
                 Ok (set_rto (set_retx (set_oneshot tB3 []) [mkTx synack false]) RTO, [synack])).
    { rewrite segments_nothing_new; try reflexivity. cbn. lia. }
    set (tB4 := set_rto _ RTO) in F3.
    (* what A does with the three segments *)
    assert (G1 : segment_arrives tA4 (mkSeg ackB []) = Ok (set_in_segs tA4 [], AOk)).
    { apply (ack_in_synsent tA4 ackB (issA c)); try reflexivity; try assumption; try apply ack_hdr_ack_only. }
    set (tA5 := set_in_segs tA4 []) in G1.
    pose proof (synack_in_synsent tA5 sah (issA c) (mkTx syn false) eq_refl eq_refl HuA eq_refl eq_refl eq_refl
                  eq_refl eq_refl eq_refl eq_refl eq_refl eq_refl eq_refl eq_refl) as G2.
    cbv zeta in G2. fold synack in G2. set (tA6 := set_oneshot _ _) in G2.
    assert (G3 : segment_arrives tA6 synack =
                 Ok (set_oneshot (set_in_segs tA6 []) (oneshot tA6 ++ [ack_hdr tA6]), AOk)).
    { apply syn_dup_established; try reflexivity; try assumption. intros _. apply mod_leq_refl. }
    set (tA7 := set_oneshot (set_in_segs tA6 []) _) in G3.
    assert (H2 : fair_half c s2 SB =
      mkSys (ELive (set_in_text tA7 [])) (ELive (set_in_text tB4 [])) [] [] [] [] [] [] false).
    { unfold fair_half, fair_half_t.
      rewrite (tick_eval s2 SB tB1 tB2 [mkSeg ackB []; synack] tB3 101 eq_refl F1 F2). subst s2. sys_simpl. cbn [app].
      set (s2' := mkSys _ _ _ _ _ _ _ _ _).
      rewrite (emit_eval s2' SB tB3 tB4 [synack] eq_refl F3). cbn iota beta. subst s2'. sys_simpl. cbn [app length].
      cbn iota.
      rewrite deliver_all_cons with (seg := mkSeg ackB []) (rest := [synack; synack]) by reflexivity. sys_simpl.
      erewrite (arrive_eval c _ SA tA4 (mkSeg ackB []) tA5); [|reflexivity|exact G1]. sys_simpl.
      rewrite deliver_all_cons with (seg := synack) (rest := [synack]) by reflexivity. sys_simpl.
      erewrite (arrive_eval c _ SA tA5 synack tA6); [|reflexivity|exact G2]. sys_simpl.
      rewrite deliver_all_cons with (seg := synack) (rest := []) by reflexivity. sys_simpl.
      erewrite (arrive_eval c _ SA tA6 synack tA7); [|reflexivity|exact G3]. sys_simpl.
      rewrite deliver_all_nil by reflexivity.
      erewrite (recv_eval_empty _ SA (tA7)); [|reflexivity|reflexivity]. sys_simpl.
      erewrite (recv_eval_empty _ SB (tB4)); [|reflexivity|reflexivity]. sys_simpl. reflexivity. }
    rewrite H2. clear H2 F1 F2 F3 G1 G2 G3. subst tA7 tA6 tA5 tA4 tB4 tB3 tB2 tB1. tcb_norm.
    match goal with |- context [mkSys (ELive ?a) (ELive ?b)] => set (tA8 := a); set (tB5 := b) end.
    set (s3 := mkSys _ _ _ _ _ _ _ _ _).
    (* ===== half-round 2 (A): the ACK of the SYN-ACK and its copy ===== *)
    set (ackA := ack_hdr tA8).
    assert (K1 : tcb_segments tA8 = Ok (set_retx (set_oneshot tA8 []) [], [mkSeg ackA []; mkSeg ackA []])).
    { rewrite segments_nothing_new; try reflexivity. cbn. lia. }
    set (tA9 := set_retx _ _) in K1.
    pose proof (advance_101 tA9 eq_refl eq_refl) as K2.
    change (retx tA9) with (@nil transmit) in K2. cbn [map] in K2.
    set (tA10 := set_retx _ _) in K2.
    assert (K3 : tcb_segments tA10 = Ok (set_retx (set_oneshot tA10 []) [], [])).
    { rewrite segments_nothing_new; try reflexivity. cbn. lia. }
    set (tA11 := set_retx _ _) in K3.
    pose proof (ack_in_synrcvd tB5 ackA (issB c) (mkTx synack false) eq_refl eq_refl eq_refl
                  ltac:(apply wadd_u32) HuB eq_refl eq_refl eq_refl eq_refl eq_refl
                  (ack_hdr_ack_only tA8) eq_refl eq_refl) as M1.
    set (tB6 := set_snd_window _ _ _ _) in M1.
    assert (M2 : segment_arrives tB6 (mkSeg ackA []) = Ok (set_in_segs tB6 [], AOk)).
    { apply ack_duplicate; try reflexivity.
      - apply wadd_u32.
      - apply ack_hdr_ack_only.
      - apply mod_leq_refl. }
    set (tB7 := set_in_segs tB6 []) in M2.
    assert (H3 : fair_half c s3 SA =
      mkSys (ELive (set_in_text tA11 [])) (ELive (set_in_text tB7 [])) [] [] [] [] [] [] false).
    { unfold fair_half, fair_half_t.
      rewrite (tick_eval s3 SA tA8 tA9 [mkSeg ackA []; mkSeg ackA []] tA10 101 eq_refl K1 K2). subst s3. sys_simpl. cbn [app].
      set (s3' := mkSys _ _ _ _ _ _ _ _ _).
      rewrite (emit_eval s3' SA tA10 tA11 [] eq_refl K3). cbn iota beta. subst s3'. sys_simpl. cbn [app length].
      cbn iota.
      rewrite deliver_all_cons with (seg := mkSeg ackA []) (rest := [mkSeg ackA []]) by reflexivity. sys_simpl.
      erewrite (arrive_eval c _ SB tB5 (mkSeg ackA []) tB6); [|reflexivity|exact M1]. sys_simpl.
      rewrite deliver_all_cons with (seg := mkSeg ackA []) (rest := []) by reflexivity. sys_simpl.
      erewrite (arrive_eval c _ SB tB6 (mkSeg ackA []) tB7); [|reflexivity|exact M2]. sys_simpl.
      rewrite deliver_all_nil by reflexivity.
      erewrite (recv_eval_empty _ SA (tA11)); [|reflexivity|reflexivity]. sys_simpl.
      erewrite (recv_eval_empty _ SB (tB7)); [|reflexivity|reflexivity]. sys_simpl. reflexivity. }
    rewrite H3. clear H3 K1 K2 K3 M1 M2. subst tA11 tA10 tA9 tA8 tB7 tB6 tB5. tcb_norm.
    match goal with |- context [mkSys (ELive ?a) (ELive ?b)] => set (tA12 := a); set (tB8 := b) end.
    set (s4 := mkSys _ _ _ _ _ _ _ _ _).
    (* both endpoints are quiet now *)
    assert (QA : quiet tA12 (wadd (issA c) 1) (wadd (issB c) 1)).
    { unfold quiet. splits; try reflexivity; try apply wadd_u32; cbn; lia. }
    assert (QB : quiet tB8 (wadd (issB c) 1) (wadd (issA c) 1)).
    { unfold quiet. splits; try reflexivity; try apply wadd_u32; cbn; lia. }
    (* ===== half-round 2 (B): nothing to do ===== *)
    rewrite (half_idle c s4 SB tB8 tA12 _ _ eq_refl QB eq_refl eq_refl eq_refl).
    split; [|unfold fresh; auto].
    exists tA12, tB8. splits; try reflexivity; assumption.
  Qed.

  (* simultaneous open: both sides open actively, two loss-free rounds *)
  Lemma handshake_simultaneous :
    Quiescent c (run c (init_sys false) [LOpen SA; LOpen SB; LFair 2]) (wadd (issA c) 1) (wadd (issB c) 1) /\
    fresh (run c (init_sys false) [LOpen SA; LOpen SB; LFair 2]).
  Proof.
    destruct Hc as (HuA & HuB & HmA & HmB).
    cbn [run fold_left].
    set (tA0 := tcb_open (portA c) (portB c) (issA c) (mtuA c)).
    set (tB0 := tcb_open (portB c) (portA c) (issB c) (mtuB c)).
    assert (E0 : fst (sys_step c (fst (sys_step c (init_sys false) (LOpen SA))) (LOpen SB)) =
                 mkSys (ELive tA0) (ELive tB0) [] [] [] [] [] [] false) by reflexivity.
    rewrite E0. clear E0. set (s1 := mkSys _ _ _ _ _ _ _ _ _).
    rewrite (fair2 c s1 eq_refl).
    (* ===== half-round 1 (A): A's SYN and its copy reach B in SYN-SENT ===== *)
    set (synAh := hb_wnd (hb_syn (mkHdr (portA c) (portB c) (issA c) 0 ctl0 0 0)) DEFAULT_WND).
    set (synA := mkSeg synAh []).
    set (synBh := hb_wnd (hb_syn (mkHdr (portB c) (portA c) (issB c) 0 ctl0 0 0)) DEFAULT_WND).
    set (synB := mkSeg synBh []).
    assert (HsynA : syn_only synAh) by (unfold syn_only; auto).
    assert (HsynB : syn_only synBh) by (unfold syn_only; auto).
    assert (E1 : tcb_segments tA0 =
                 Ok (set_rto (set_retx (set_oneshot tA0 []) [mkTx synA false]) RTO, [synA])).
    { rewrite segments_nothing_new; try reflexivity. cbn. lia. }
    set (tA1 := set_rto _ RTO) in E1.
    pose proof (advance_101 tA1 eq_refl eq_refl) as E2.
    change (retx tA1) with [mkTx synA false] in E2. cbn [map t_seg] in E2.
    set (tA2 := set_retx _ _) in E2.
    assert (E3 : tcb_segments tA2 =
                 Ok (set_rto (set_retx (set_oneshot tA2 []) [mkTx synA false]) RTO, [synA])).
    { rewrite segments_nothing_new; try reflexivity. cbn. lia. }
    set (tA3 := set_rto _ RTO) in E3.
    pose proof (syn_in_synsent tB0 synAh eq_refl eq_refl eq_refl HsynA) as E4.
    cbv zeta in E4. fold synA in E4. set (tB1 := set_retx _ _) in E4.
    assert (E5 : segment_arrives tB1 synA =
                 Ok (set_oneshot (set_in_segs tB1 []) (oneshot tB1 ++ [ack_hdr tB1]), AOk)).
    { apply dup_syn_arrives; try reflexivity; assumption. }
    set (tB2 := set_oneshot _ _) in E5.
    assert (H1 : fair_half c s1 SA =
      mkSys (ELive (set_in_text tA3 [])) (ELive (set_in_text tB2 [])) [] [] [] [] [] [] false).
    { unfold fair_half, fair_half_t.
      rewrite (tick_eval s1 SA tA0 tA1 [synA] tA2 101 eq_refl E1 E2). subst s1. sys_simpl. cbn [app].
      set (s1' := mkSys _ _ _ _ _ _ _ _ _).
      rewrite (emit_eval s1' SA tA2 tA3 [synA] eq_refl E3). cbn iota beta. subst s1'. sys_simpl. cbn [app length].
      cbn iota.
      rewrite deliver_all_cons with (seg := synA) (rest := [synA]) by reflexivity. sys_simpl.
      erewrite (arrive_eval c _ SB tB0 synA tB1); [|reflexivity|exact E4]. sys_simpl.
      rewrite deliver_all_cons with (seg := synA) (rest := []) by reflexivity. sys_simpl.
      erewrite (arrive_eval c _ SB tB1 synA tB2); [|reflexivity|exact E5]. sys_simpl.
      rewrite deliver_all_nil by reflexivity.
      erewrite (recv_eval_empty _ SA tA3); [|reflexivity|reflexivity]. sys_simpl.
      erewrite (recv_eval_empty _ SB tB2); [|reflexivity|reflexivity]. sys_simpl. reflexivity. }
    rewrite H1. clear H1 E1 E2 E3 E4 E5. subst tA3 tA2 tA1 tA0 tB2 tB1 tB0. tcb_norm.
    match goal with |- context [mkSys (ELive ?a) (ELive ?b)] => set (tA4 := a); set (tB3 := b) end.
    set (s2 := mkSys _ _ _ _ _ _ _ _ _).
    (* ===== half-round 1 (B): bare ACK, SYN, SYN-ACK and the two copies ===== *)
    set (ackB := ack_hdr tB3).
    set (sah := hb_wnd (hb_ack (hb_syn (mkHdr (portB c) (portA c) (issB c) 0 ctl0 0 0)) (wadd (issA c) 1)) DEFAULT_WND).
    set (synackB := mkSeg sah []).
    assert (F1 : tcb_segments tB3 =
                 Ok (set_rto (set_retx (set_oneshot tB3 []) [mkTx synB false; mkTx synackB false]) RTO,
                     [mkSeg ackB []; synB; synackB])).
    { rewrite segments_nothing_new; try reflexivity. cbn. lia. }
    set (tB4 := set_rto _ RTO) in F1.
    pose proof (advance_101 tB4 eq_refl eq_refl) as F2.
    change (retx tB4) with [mkTx synB false; mkTx synackB false] in F2. cbn [map t_seg] in F2.
    set (tB5 := set_retx _ _) in F2.
    assert (F3 : tcb_segments tB5 =
                 Ok (set_rto (set_retx (set_oneshot tB5 []) [mkTx synB false; mkTx synackB false]) RTO,
                     [synB; synackB])).
    { rewrite segments_nothing_new; try reflexivity. cbn. lia. }
    set (tB6 := set_rto _ RTO) in F3.
    assert (G1 : segment_arrives tA4 (mkSeg ackB []) = Ok (set_in_segs tA4 [], AOk)).
    { apply (ack_in_synsent tA4 ackB (issA c)); try reflexivity; try assumption; try apply ack_hdr_ack_only. }
    set (tA5 := set_in_segs tA4 []) in G1.
    pose proof (syn_in_synsent tA5 synBh eq_refl eq_refl eq_refl HsynB) as G2.
    cbv zeta in G2. fold synB in G2. set (tA6 := set_retx _ _) in G2.
    pose proof (synack_in_synrcvd tA6 sah (issA c) eq_refl eq_refl eq_refl HuB eq_refl HuA eq_refl eq_refl) as G3.
    specialize (G3 ltac:(repeat constructor) eq_refl eq_refl eq_refl eq_refl eq_refl).
    cbv zeta in G3. fold synackB in G3. set (tA7 := set_oneshot _ _) in G3.
    assert (G4 : segment_arrives tA7 synB =
                 Ok (set_oneshot (set_in_segs tA7 []) (oneshot tA7 ++ [ack_hdr tA7]), AOk)).
    { apply syn_dup_established; try reflexivity; try assumption. intros E; discriminate E. }
    set (tA8 := set_oneshot (set_in_segs tA7 []) _) in G4.
    assert (G5 : segment_arrives tA8 synackB =
                 Ok (set_oneshot (set_in_segs tA8 []) (oneshot tA8 ++ [ack_hdr tA8]), AOk)).
    { apply syn_dup_established; try reflexivity; try assumption. intros _. apply mod_leq_refl. }
    set (tA9 := set_oneshot (set_in_segs tA8 []) _) in G5.
    assert (H2 : fair_half c s2 SB =
      mkSys (ELive (set_in_text tA9 [])) (ELive (set_in_text tB6 [])) [] [] [] [] [] [] false).
    { unfold fair_half, fair_half_t.
      rewrite (tick_eval s2 SB tB3 tB4 [mkSeg ackB []; synB; synackB] tB5 101 eq_refl F1 F2).
      subst s2. sys_simpl. cbn [app].
      set (s2' := mkSys _ _ _ _ _ _ _ _ _).
      rewrite (emit_eval s2' SB tB5 tB6 [synB; synackB] eq_refl F3). cbn iota beta. subst s2'. sys_simpl.
      cbn [app length]. cbn iota.
      rewrite deliver_all_cons with (seg := mkSeg ackB []) (rest := [synB; synackB; synB; synackB]) by reflexivity. sys_simpl.
      erewrite (arrive_eval c _ SA tA4 (mkSeg ackB []) tA5); [|reflexivity|exact G1]. sys_simpl.
      rewrite deliver_all_cons with (seg := synB) (rest := [synackB; synB; synackB]) by reflexivity. sys_simpl.
      erewrite (arrive_eval c _ SA tA5 synB tA6); [|reflexivity|exact G2]. sys_simpl.
      rewrite deliver_all_cons with (seg := synackB) (rest := [synB; synackB]) by reflexivity. sys_simpl.
      erewrite (arrive_eval c _ SA tA6 synackB tA7); [|reflexivity|exact G3]. sys_simpl.
      rewrite deliver_all_cons with (seg := synB) (rest := [synackB]) by reflexivity. sys_simpl.
      erewrite (arrive_eval c _ SA tA7 synB tA8); [|reflexivity|exact G4]. sys_simpl.
      rewrite deliver_all_cons with (seg := synackB) (rest := []) by reflexivity. sys_simpl.
      erewrite (arrive_eval c _ SA tA8 synackB tA9); [|reflexivity|exact G5]. sys_simpl.
      rewrite deliver_all_nil by reflexivity.
      erewrite (recv_eval_empty _ SA tA9); [|reflexivity|reflexivity]. sys_simpl.
      erewrite (recv_eval_empty _ SB tB6); [|reflexivity|reflexivity]. sys_simpl. reflexivity. }
    rewrite H2. clear H2 F1 F2 F3 G1 G2 G3 G4 G5. subst tA9 tA8 tA7 tA6 tA5 tA4 tB6 tB5 tB4 tB3. tcb_norm.
    match goal with |- context [mkSys (ELive ?a) (ELive ?b)] => set (tA10 := a); set (tB7 := b) end.
    set (s3 := mkSys _ _ _ _ _ _ _ _ _).
    (* ===== half-round 2 (A): three ACKs ===== *)
    set (ackA := ack_hdr tA10).
    assert (K1 : tcb_segments tA10 =
                 Ok (set_retx (set_oneshot tA10 []) [], [mkSeg ackA []; mkSeg ackA []; mkSeg ackA []])).
    { rewrite segments_nothing_new; try reflexivity. cbn. lia. }
    set (tA11 := set_retx _ _) in K1.
    pose proof (advance_101 tA11 eq_refl eq_refl) as K2.
    change (retx tA11) with (@nil transmit) in K2. cbn [map] in K2.
    set (tA12 := set_retx _ _) in K2.
    assert (K3 : tcb_segments tA12 = Ok (set_retx (set_oneshot tA12 []) [], [])).
    { rewrite segments_nothing_new; try reflexivity. cbn. lia. }
    set (tA13 := set_retx _ _) in K3.
    pose proof (ack_in_synrcvd_all tB7 ackA (issB c) eq_refl eq_refl eq_refl
                  ltac:(apply wadd_u32) HuB eq_refl eq_refl ltac:(repeat constructor)
                  (ack_hdr_ack_only tA10) eq_refl eq_refl) as M1.
    set (tB8 := set_snd_window _ _ _ _) in M1.
    assert (M2 : segment_arrives tB8 (mkSeg ackA []) = Ok (set_in_segs tB8 [], AOk)).
    { apply ack_duplicate; try reflexivity.
      - apply wadd_u32.
      - apply ack_hdr_ack_only.
      - apply mod_leq_refl. }
    set (tB9 := set_in_segs tB8 []) in M2.
    assert (M3 : segment_arrives tB9 (mkSeg ackA []) = Ok (set_in_segs tB9 [], AOk)).
    { apply ack_duplicate; try reflexivity.
      - apply wadd_u32.
      - apply ack_hdr_ack_only.
      - apply mod_leq_refl. }
    set (tB10 := set_in_segs tB9 []) in M3.
    assert (H3 : fair_half c s3 SA =
      mkSys (ELive (set_in_text tA13 [])) (ELive (set_in_text tB10 [])) [] [] [] [] [] [] false).
    { unfold fair_half, fair_half_t.
      rewrite (tick_eval s3 SA tA10 tA11 [mkSeg ackA []; mkSeg ackA []; mkSeg ackA []] tA12 101 eq_refl K1 K2).
      subst s3. sys_simpl. cbn [app].
      set (s3' := mkSys _ _ _ _ _ _ _ _ _).
      rewrite (emit_eval s3' SA tA12 tA13 [] eq_refl K3). cbn iota beta. subst s3'. sys_simpl. cbn [app length].
      cbn iota.
      rewrite deliver_all_cons with (seg := mkSeg ackA []) (rest := [mkSeg ackA []; mkSeg ackA []]) by reflexivity. sys_simpl.
      erewrite (arrive_eval c _ SB tB7 (mkSeg ackA []) tB8); [|reflexivity|exact M1]. sys_simpl.
      rewrite deliver_all_cons with (seg := mkSeg ackA []) (rest := [mkSeg ackA []]) by reflexivity. sys_simpl.
      erewrite (arrive_eval c _ SB tB8 (mkSeg ackA []) tB9); [|reflexivity|exact M2]. sys_simpl.
      rewrite deliver_all_cons with (seg := mkSeg ackA []) (rest := []) by reflexivity. sys_simpl.
      erewrite (arrive_eval c _ SB tB9 (mkSeg ackA []) tB10); [|reflexivity|exact M3]. sys_simpl.
      rewrite deliver_all_nil by reflexivity.
      erewrite (recv_eval_empty _ SA tA13); [|reflexivity|reflexivity]. sys_simpl.
      erewrite (recv_eval_empty _ SB tB10); [|reflexivity|reflexivity]. sys_simpl. reflexivity. }
    rewrite H3. clear H3 K1 K2 K3 M1 M2 M3. subst tA13 tA12 tA11 tA10 tB10 tB9 tB8 tB7. tcb_norm.
    match goal with |- context [mkSys (ELive ?a) (ELive ?b)] => set (tA14 := a); set (tB11 := b) end.
    set (s4 := mkSys _ _ _ _ _ _ _ _ _).
    assert (QA : quiet tA14 (wadd (issA c) 1) (wadd (issB c) 1)).
    { unfold quiet. splits; try reflexivity; try apply wadd_u32; cbn; lia. }
    assert (QB : quiet tB11 (wadd (issB c) 1) (wadd (issA c) 1)).
    { unfold quiet. splits; try reflexivity; try apply wadd_u32; cbn; lia. }
    rewrite (half_idle c s4 SB tB11 tA14 _ _ eq_refl QB eq_refl eq_refl eq_refl).
    split; [|unfold fresh; auto].
    exists tA14, tB11. splits; try reflexivity; assumption.
  Qed.
End Hs.
