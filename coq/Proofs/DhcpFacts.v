(* DHCP codec: round trips, totality of the repaired decoder, panics of the
   decoder as it was (kit codecapp). *)
From Coq Require Import ZifyBool.
From Elvis Require Import Model.Base Model.AppBytes Model.Dhcp Proofs.AppBytesFacts.
Local Open Scope Z_scope.
Ltac Zify.zify_post_hook ::= Z.div_mod_to_equations.

(* ---- message type ------------------------------------------------------------ *)
Lemma mt_range t : 1 <= mt_u8 t <= 7.
Proof. destruct t; cbn [mt_u8]; lia. Qed.

Lemma mt_try_from_u8 t : mt_try_from (mt_u8 t) = Ok t.
Proof. destruct t; reflexivity. Qed.

Lemma mt_of_small_inv b t : mt_of_small b = Some t -> b = mt_u8 t.
Proof.
  unfold mt_of_small.
  repeat match goal with
         | |- context [b =? ?k] =>
             destruct (b =? k) eqn:?E; [intros H; inversion H; subst; cbn [mt_u8]; lia|]
         end.
  discriminate.
Qed.

Lemma mt_try_from_inv b t : mt_try_from b = Ok t -> b = mt_u8 t.
Proof.
  unfold mt_try_from. destruct (mt_of_small b) eqn:E; intros H; inversion H; subst.
  apply mt_of_small_inv. exact E.
Qed.

Lemma mt_of_small_none b : mt_of_small b = None <-> ~ (1 <= b <= 7).
Proof.
  unfold mt_of_small. split.
  - repeat match goal with
           | |- context [b =? ?k] => destruct (b =? k) eqn:?E; [discriminate|]
           end. lia.
  - intros H.
    repeat match goal with
           | |- context [b =? ?k] => destruct (b =? k) eqn:?E; [lia|]
           end. reflexivity.
Qed.

Lemma mt_try_from_answers b : answers (mt_try_from b) = true.
Proof. unfold mt_try_from. destruct (mt_of_small b); reflexivity. Qed.

Lemma str_from_utf8_answers v : answers (str_from_utf8 v) = true.
Proof. unfold str_from_utf8. destruct (utf8_valid v); reflexivity. Qed.

(* ---- decode after encode ------------------------------------------------------- *)
Ltac split_wf :=
  repeat match goal with
         | H : (_ && _) = true |- _ => apply andb_prop in H as [? ?]
         end;
  repeat match goal with H : rng _ _ = true |- _ => apply rng_iff in H end.

Lemma dhcp_decode_encode h rest : dhcp_wf h = true ->
  dhcp_from_bytes (dhcp_to_message h ++ rest) = Ok (h, rest).
Proof.
  destruct h as [op ht hl hp xid secs fl cip yip sip rip ch sn bf mt].
  unfold dhcp_wf, dhcp_to_message, dhcp_from_bytes, next_ipv4.
  cbn [h_op h_htype h_hlen h_hops h_xid h_secs h_flags h_cip h_yip h_sip h_rip h_chaddr
       h_sname h_bfile h_mt].
  intros W. split_wf.
  rewrite !Z.mod_small by lia.
  rewrite <- !app_assoc. cbn [app next_u8 rd bind].
  rewrite next_u32_be32 by lia. cbn [rd bind].
  rewrite next_u16_be16 by lia. cbn [rd bind].
  rewrite next_u8_be8 by lia. cbn [rd bind].
  do 4 (rewrite next_u32_be32 by lia; cbn [rd bind]).
  rewrite next_u16_be16 by lia. cbn [rd bind].
  rewrite next_u8_be8 by (pose proof (mt_range mt); lia). cbn [rd bind].
  rewrite mt_try_from_u8. cbn [bind].
  rewrite read_until_app by assumption. cbn [bind].
  unfold str_from_utf8.
  match goal with H : utf8_valid sn = true |- _ => rewrite H end. cbn [bind].
  rewrite read_until_app by assumption. cbn [bind].
  match goal with H : utf8_valid bf = true |- _ => rewrite H end. cbn [bind].
  reflexivity.
Qed.

(* outside the quantifier: a string that contains the terminator *)
Lemma dhcp_name_with_terminator_not_round_tripped :
  exists h, dhcp_from_bytes (dhcp_to_message h) <> Ok (h, []) /\ free_of 0 (h_sname h) = false.
Proof.
  exists (mkDhcp 1 1 1 1 0 0 0 0 0 0 0 0 [97; 0; 98] [] Discover).
  split; [vm_compute; discriminate | reflexivity].
Qed.

(* ---- encode after decode ------------------------------------------------------- *)
Lemma bytes_around a c b : bytes (a ++ c :: b) = true -> bytes a = true /\ bytes b = true.
Proof. intros H. apply bytes_split in H as (? & _ & ?). auto. Qed.

Lemma str_from_utf8_ok v s : str_from_utf8 v = Ok s -> s = v /\ utf8_valid v = true.
Proof.
  unfold str_from_utf8. destruct (utf8_valid v); intros H; inversion H; auto.
Qed.

Lemma dhcp_encode_decode bs h rest : bytes bs = true ->
  dhcp_from_bytes bs = Ok (h, rest) ->
  bs = dhcp_to_message h ++ rest /\ dhcp_wf h = true /\ bytes rest = true.
Proof.
  unfold dhcp_from_bytes, next_ipv4. intros B H.
  apply bind_ok in H as [[op b1] [E H]]. apply rd_ok in E.
  apply (next_u8_inv _ _ _ B) in E as (-> & R1 & B1).
  apply bind_ok in H as [[ht b2] [E H]]. apply rd_ok in E.
  apply (next_u8_inv _ _ _ B1) in E as (-> & R2 & B2).
  apply bind_ok in H as [[hl b3] [E H]]. apply rd_ok in E.
  apply (next_u8_inv _ _ _ B2) in E as (-> & R3 & B3).
  apply bind_ok in H as [[hp b4] [E H]]. apply rd_ok in E.
  apply (next_u8_inv _ _ _ B3) in E as (-> & R4 & B4).
  apply bind_ok in H as [[xid b5] [E H]]. apply rd_ok in E.
  apply (next_u32_inv _ _ _ B4) in E as (-> & R5 & B5).
  apply bind_ok in H as [[secs b6] [E H]]. apply rd_ok in E.
  apply (next_u16_inv _ _ _ B5) in E as (-> & R6 & B6).
  apply bind_ok in H as [[fl b7] [E H]]. apply rd_ok in E.
  apply (next_u8_inv _ _ _ B6) in E as (-> & R7 & B7).
  apply bind_ok in H as [[cip b8] [E H]]. apply rd_ok in E.
  apply (next_u32_inv _ _ _ B7) in E as (-> & R8 & B8).
  apply bind_ok in H as [[yip b9] [E H]]. apply rd_ok in E.
  apply (next_u32_inv _ _ _ B8) in E as (-> & R9 & B9).
  apply bind_ok in H as [[sip b10] [E H]]. apply rd_ok in E.
  apply (next_u32_inv _ _ _ B9) in E as (-> & R10 & B10).
  apply bind_ok in H as [[rip b11] [E H]]. apply rd_ok in E.
  apply (next_u32_inv _ _ _ B10) in E as (-> & R11 & B11).
  apply bind_ok in H as [[ch b12] [E H]]. apply rd_ok in E.
  apply (next_u16_inv _ _ _ B11) in E as (-> & R12 & B12).
  apply bind_ok in H as [[mtb b13] [E H]]. apply rd_ok in E.
  apply (next_u8_inv _ _ _ B12) in E as (-> & R13 & B13).
  apply bind_ok in H as [mt [E H]]. apply mt_try_from_inv in E. subst mtb.
  apply bind_ok in H as [[sn0 b14] [E H]].
  apply read_until_inv in E as [-> F1]. apply bytes_around in B13 as [Bs B14].
  apply bind_ok in H as [sn [E H]]. apply str_from_utf8_ok in E as [-> U1].
  apply bind_ok in H as [[bf0 b15] [E H]].
  apply read_until_inv in E as [-> F2]. apply bytes_around in B14 as [Bb B15].
  apply bind_ok in H as [bf [E H]]. apply str_from_utf8_ok in E as [-> U2].
  inversion H; subst. clear H.
  split; [|split; [|exact B15]].
  - unfold dhcp_to_message.
    cbn [h_op h_htype h_hlen h_hops h_xid h_secs h_flags h_cip h_yip h_sip h_rip h_chaddr
         h_sname h_bfile h_mt].
    unfold be8 at 1 2 3 4. rewrite <- !app_assoc. cbn [app]. reflexivity.
  - unfold dhcp_wf.
    cbn [h_op h_htype h_hlen h_hops h_xid h_secs h_flags h_cip h_yip h_sip h_rip h_chaddr
         h_sname h_bfile h_mt].
    rewrite R1, R2, R3, R4, R5, R6, R7, R8, R9, R10, R11, R12, Bs, F1, U1, Bb, F2, U2.
    reflexivity.
Qed.

Lemma dhcp_encode_decode_firstn bs h rest : bytes bs = true ->
  dhcp_from_bytes bs = Ok (h, rest) ->
  dhcp_to_message h = firstn (length bs - length rest) bs.
Proof.
  intros B H. destruct (dhcp_encode_decode bs h rest B H) as (E & _ & _).
  exact (consumed_firstn _ _ _ E).
Qed.

(* ---- totality of the repaired decoder ------------------------------------------ *)
Ltac step_rd := apply bind_answers; [apply rd_answers | intros [? ?] _].

Lemma dhcp_answers bs : answers (dhcp_from_bytes bs) = true.
Proof.
  unfold dhcp_from_bytes. do 13 step_rd.
  apply bind_answers; [apply mt_try_from_answers | intros ? _].
  apply bind_answers; [apply read_until_answers | intros [? ?] _].
  apply bind_answers; [apply str_from_utf8_answers | intros ? _].
  apply bind_answers; [apply read_until_answers | intros [? ?] _].
  apply bind_answers; [apply str_from_utf8_answers | intros ? _].
  reflexivity.
Qed.

Lemma dhcp_total bs : is_panic (dhcp_from_bytes bs) = false.
Proof. apply answers_no_panic, dhcp_answers. Qed.

Lemma dhcp_value_or_error bs :
  (exists r, dhcp_from_bytes bs = Ok r) \/ (exists e, dhcp_from_bytes bs = Err e).
Proof. apply answers_cases, dhcp_answers. Qed.

(* ---- the decoder as it was ------------------------------------------------------ *)
Definition dhcp_fixed29 : list Z :=
  [1;1;6;0; 0;0;0;2; 0;0; 0; 0;0;0;0; 0;0;0;0; 0;0;0;0; 0;0;0;0; 0;0].

Lemma dhcp_orig_panics_type0 :
  dhcp_from_bytes_orig (dhcp_fixed29 ++ [0; 0; 0]) = Panic 31.
Proof. vm_compute. reflexivity. Qed.
Lemma dhcp_orig_panics_type8 :
  dhcp_from_bytes_orig (dhcp_fixed29 ++ [8; 0; 0]) = Panic 32.
Proof. vm_compute. reflexivity. Qed.
Lemma dhcp_orig_panics_sname :
  dhcp_from_bytes_orig (dhcp_fixed29 ++ [1; 255; 0; 0]) = Panic 33.
Proof. vm_compute. reflexivity. Qed.
Lemma dhcp_orig_panics_bfile :
  dhcp_from_bytes_orig (dhcp_fixed29 ++ [1; 0; 195; 0]) = Panic 34.
Proof. vm_compute. reflexivity. Qed.

Lemma dhcp_orig_refuted :
  exists bs, bytes bs = true /\ is_panic (dhcp_from_bytes_orig bs) = true.
Proof.
  exists (dhcp_fixed29 ++ [0; 0; 0]). split; [reflexivity|].
  rewrite dhcp_orig_panics_type0. reflexivity.
Qed.

(* the repair changes nothing but the panics *)
Lemma bind_agree {A B} (r r' : result A) (f f' : A -> result B) :
  (is_panic r' = false -> r = r') ->
  (forall x, r' = Ok x -> is_panic (f' x) = false -> f x = f' x) ->
  is_panic (bind r' f') = false -> bind r f = bind r' f'.
Proof.
  intros Hr Hf P. destruct r' as [a|e|s|]; cbn [bind is_panic] in *.
  - rewrite (Hr eq_refl). cbn [bind]. apply Hf; auto.
  - rewrite (Hr eq_refl). reflexivity.
  - discriminate.
  - rewrite (Hr eq_refl). reflexivity.
Qed.

Lemma mt_step_agree b :
  is_panic (match mt_try_from_orig b with Err _ => Panic 32 | r => r end) = false ->
  mt_try_from b = match mt_try_from_orig b with Err _ => Panic 32 | r => r end.
Proof.
  unfold mt_try_from_orig, mt_try_from.
  destruct (7 <? b) eqn:E; [discriminate|].
  destruct (mt_of_small b); [reflexivity|discriminate].
Qed.

Lemma str_step_agree site v :
  is_panic (str_from_utf8_orig site v) = false -> str_from_utf8 v = str_from_utf8_orig site v.
Proof.
  unfold str_from_utf8, str_from_utf8_orig. destruct (utf8_valid v); [reflexivity|discriminate].
Qed.

Lemma dhcp_orig_agrees bs :
  is_panic (dhcp_from_bytes_orig bs) = false -> dhcp_from_bytes bs = dhcp_from_bytes_orig bs.
Proof.
  unfold dhcp_from_bytes, dhcp_from_bytes_orig.
  do 13 (apply bind_agree; [reflexivity | intros [? ?] _]).
  apply bind_agree; [apply mt_step_agree | intros ? _].
  apply bind_agree; [reflexivity | intros [? ?] _].
  apply bind_agree; [apply str_step_agree | intros ? _].
  apply bind_agree; [reflexivity | intros [? ?] _].
  apply bind_agree; [apply str_step_agree | intros ? _].
  reflexivity.
Qed.

(* where it panicked, the repaired decoder reports InvalidDhcpType or
   InvalidString; together with dhcp_orig_agrees this describes the repair on
   every input *)
Lemma dhcp_orig_panic_now_error bs :
  is_panic (dhcp_from_bytes_orig bs) = true ->
  dhcp_from_bytes bs = Err 2 \/ dhcp_from_bytes bs = Err 3.
Proof.
    unfold dhcp_from_bytes, dhcp_from_bytes_orig.
    repeat match goal with
    | |- context [rd ?o] => destruct o as [[? ?]|]; cbn [rd bind is_panic]; [|discriminate]
    end.
    unfold mt_try_from_orig, mt_try_from.
    match goal with |- context [7 <? ?b] => destruct (7 <? b) eqn:E7; pose proof (mt_of_small_none b) as N end.
    { replace (mt_of_small _) with (@None dhcp_mt) by (symmetry; apply N; lia). cbn [bind]. auto. }
    match goal with |- context [mt_of_small ?b] => destruct (mt_of_small b) end; cbn [bind]; [|auto].
    match goal with |- context [read_until 0 ?l] =>
      pose proof (read_until_no_panic 0 l); destruct (read_until 0 l) as [[? ?]| | |] end;
      cbn [bind is_panic] in *; try discriminate.
    unfold str_from_utf8_orig, str_from_utf8.
    match goal with |- context [utf8_valid ?l] => destruct (utf8_valid l) end; cbn [bind]; [|auto].
    match goal with |- context [read_until 0 ?l] =>
      pose proof (read_until_no_panic 0 l); destruct (read_until 0 l) as [[? ?]| | |] end;
      cbn [bind is_panic] in *; try discriminate.
    match goal with |- context [utf8_valid ?l] => destruct (utf8_valid l) end; cbn [bind is_panic]; [discriminate|auto].
Qed.
