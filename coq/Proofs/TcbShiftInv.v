(* C12 equivariance, part 2: the minimal well-formedness invariant [tinv]
   (ranges of the sequence fields, the constant advertised window) is
   preserved by every operation of Model/Tcb.v.  It is needed on the ORIGINAL
   run only: in the shifted run every sequence field is a [wadd] and therefore
   in range by construction. *)
From Elvis Require Import Model.Base Model.U32 Model.Tcb Proofs.U32Facts Proofs.TcbShift.
From Coq Require Import ZifyBool.
Local Open Scope Z_scope.
Ltac Zify.zify_post_hook ::= Z.div_mod_to_equations.

Local Hint Resolve wadd_u32 wsub_u32 u32_0 : tinv.
Ltac hok_tac :=
  unfold xok, sok, hok; tcb_cbn; cbn [orb andb negb]; (split; [|split]); auto with tinv;
  try (intro; discriminate); try reflexivity.

(* ---- one setter at a time ---- *)
Lemma tinv_set_retx t v : tinv t -> Forall xok v -> tinv (set_retx t v).
Proof. intros [] H. constructor; tcb_cbn; assumption. Qed.
Lemma tinv_set_oneshot t v : tinv t -> Forall hok v -> tinv (set_oneshot t v).
Proof. intros [] H. constructor; tcb_cbn; assumption. Qed.
Lemma tinv_set_in_segs t v : tinv t -> Forall sok v -> tinv (set_in_segs t v).
Proof. intros [] H. constructor; tcb_cbn; assumption. Qed.
Lemma tinv_set_out_text t v : tinv t -> tinv (set_out_text t v).
Proof. intros []. constructor; tcb_cbn; assumption. Qed.
Lemma tinv_set_in_text t v : tinv t -> tinv (set_in_text t v).
Proof. intros []. constructor; tcb_cbn; assumption. Qed.
Lemma tinv_set_rto t v : tinv t -> tinv (set_rto t v).
Proof. intros []. constructor; tcb_cbn; assumption. Qed.
Lemma tinv_set_time_wait t v : tinv t -> tinv (set_time_wait t v).
Proof. intros []. constructor; tcb_cbn; assumption. Qed.
Lemma tinv_set_snd_una t v : tinv t -> u32 v -> tinv (set_snd_una t v).
Proof. intros [] H. constructor; tcb_cbn; assumption. Qed.
Lemma tinv_set_snd_nxt t v : tinv t -> u32 v -> tinv (set_snd_nxt t v).
Proof. intros [] H. constructor; tcb_cbn; assumption. Qed.
Lemma tinv_set_rcv_nxt t v : tinv t -> u32 v -> tinv (set_rcv_nxt t v).
Proof. intros [] H. constructor; tcb_cbn; assumption. Qed.
Lemma tinv_set_rcv_irs t v : tinv t -> tinv (set_rcv_irs t v).
Proof. intros []. constructor; tcb_cbn; assumption. Qed.
Lemma tinv_set_st t v : tinv t -> is_synsent v = is_synsent (st t) -> tinv (set_st t v).
Proof. intros [] H. constructor; tcb_cbn; try assumption. rewrite H. assumption. Qed.
Lemma tinv_set_snd_window t w a b : tinv t -> is_synsent (st t) = false -> w = DEFAULT_WND -> u32 a ->
  tinv (set_snd_window t w a b).
Proof. intros [] H -> Ha. constructor; tcb_cbn; try assumption. rewrite H. reflexivity. Qed.
Lemma tinv_set_fin_pending t v : tinv t -> is_synsent (st t) = false -> tinv (set_fin_pending t v).
Proof.
  intros [] H. constructor; tcb_cbn; try assumption. rewrite H in *. assumption.
Qed.

(* ---- headers built by the TCB ---- *)
Lemma hok_ack_hdr t : tinv t -> hok (ack_hdr t).
Proof.
  intros []. unfold hok, ack_hdr. tcb_cbn. auto.
Qed.
Lemma hok_rst_hdr t seq : u32 seq -> hok (rst_hdr t seq).
Proof.
  intros H. unfold rst_hdr. hok_tac.
Qed.

Lemma tinv_enqueue t h : tinv t -> hok h -> tinv (enqueue t h).
Proof.
  intros Hi Hh. unfold enqueue. destruct (c_syn (h_ctl h) || c_fin (h_ctl h)).
  - apply tinv_set_retx; [assumption|]. apply Forall_app. split; [apply Hi|].
    constructor; [exact Hh | constructor].
  - apply tinv_set_oneshot; [assumption|]. apply Forall_app. split; [apply Hi|].
    constructor; [exact Hh | constructor].
Qed.

Lemma enqueue_st t h : st (enqueue t h) = st t.
Proof. unfold enqueue. destruct (_ || _); reflexivity. Qed.
Lemma enqueue_rcv_nxt t h : rcv_nxt (enqueue t h) = rcv_nxt t.
Proof. unfold enqueue. destruct (_ || _); reflexivity. Qed.
Lemma enqueue_rcv_irs t h : rcv_irs (enqueue t h) = rcv_irs t.
Proof. unfold enqueue. destruct (_ || _); reflexivity. Qed.
Lemma enqueue_snd_nxt t h : snd_nxt (enqueue t h) = snd_nxt t.
Proof. unfold enqueue. destruct (_ || _); reflexivity. Qed.
Lemma enqueue_snd_una t h : snd_una (enqueue t h) = snd_una t.
Proof. unfold enqueue. destruct (_ || _); reflexivity. Qed.
Lemma enqueue_snd_wl1 t h : snd_wl1 (enqueue t h) = snd_wl1 t.
Proof. unfold enqueue. destruct (_ || _); reflexivity. Qed.
Lemma enqueue_snd_wnd t h : snd_wnd (enqueue t h) = snd_wnd t.
Proof. unfold enqueue. destruct (_ || _); reflexivity. Qed.
Lemma enqueue_fin_pending t h : fin_pending (enqueue t h) = fin_pending t.
Proof. unfold enqueue. destruct (_ || _); reflexivity. Qed.
Lemma enqueue_in_segs t h : in_segs (enqueue t h) = in_segs t.
Proof. unfold enqueue. destruct (_ || _); reflexivity. Qed.

Lemma Forall_filter {A} (P : A -> Prop) f l : Forall P l -> Forall P (filter f l).
Proof.
  induction 1 as [|x r Hx Hr IH]; cbn; [constructor|]. destruct (f x); auto.
Qed.

Lemma tinv_remove_acked t una : tinv t -> tinv (remove_acked t una).
Proof.
  intros Hi. unfold remove_acked. apply tinv_set_retx; [assumption|].
  apply Forall_filter. apply Hi.
Qed.

(* ---- ack_established_processing ---- *)
Lemma tinv_ack_est t h : tinv t -> hok h -> c_ack (h_ctl h) = true -> is_synsent (st t) = false ->
  tinv (fst (ack_est t h)).
Proof.
  intros Hi Hh Hack Hst. unfold ack_est.
  destruct (mod_leq _ _); [exact Hi|].
  destruct (mod_gt _ _); cbn [fst].
  - apply tinv_enqueue; [assumption | apply hok_ack_hdr; assumption].
  - assert (H1 : tinv (remove_acked (set_snd_una t (h_ack h)) (h_ack h))).
    { apply tinv_remove_acked. apply tinv_set_snd_una; [assumption | apply Hh]. }
    destruct (_ || _); [|exact H1].
    apply tinv_set_snd_window; [exact H1 | exact Hst | | apply Hh].
    apply Hh. rewrite Hack. reflexivity.
Qed.
Lemma ack_est_st t h : st (fst (ack_est t h)) = st t.
Proof.
  unfold ack_est. destruct (mod_leq _ _); [reflexivity|].
  destruct (mod_gt _ _); cbn [fst]; [apply enqueue_st|].
  destruct (_ || _); reflexivity.
Qed.

(* ---- process_segment, stage by stage ---- *)
Lemma tinv_ps_ack t h : tinv t -> hok h -> tinv (fst (ps_ack t h)).
Proof.
  intros Hi Hh. unfold ps_ack.
  destruct (c_ack (h_ctl h)) eqn:Hack; cbn [negb]; [|exact Hi].
  assert (Hua : u32 (h_ack h)) by apply Hh.
  assert (Hw : h_wnd h = DEFAULT_WND) by (apply Hh; rewrite Hack; reflexivity).
  destruct (st t) eqn:Hst.
  - (* SynSent *)
    destruct (mod_bounded (snd_nxt t) _ _ _ _).
    + destruct (c_rst (h_ctl h)); cbn [fst]; [exact Hi|].
      apply tinv_enqueue; [assumption | apply hok_rst_hdr; assumption].
    + destruct (mod_bounded (snd_una t) _ _ _ _).
      * destruct (c_syn (h_ctl h)); cbn [fst]; [|exact Hi].
        apply tinv_remove_acked. apply tinv_set_snd_una; assumption.
      * cbn [fst]. apply tinv_enqueue; [assumption | apply hok_rst_hdr; assumption].
  - (* SynReceived *)
    destruct (mod_bounded _ _ _ _ _).
    + set (t1 := set_snd_window (set_st t Established) (h_wnd h) (h_seq h) (h_ack h)).
      assert (H1 : tinv t1).
      { apply tinv_set_snd_window; [| reflexivity | exact Hw | apply Hh].
        apply tinv_set_st; [exact Hi | rewrite Hst; reflexivity]. }
      pose proof (tinv_ack_est t1 h H1 Hh Hack eq_refl) as H2.
      destruct (ack_est t1 h) as [t2 r]. cbn [fst] in H2. destruct r; exact H2.
    + cbn [fst]. apply tinv_enqueue; [assumption | apply hok_rst_hdr; assumption].
  - pose proof (tinv_ack_est t h Hi Hh Hack ltac:(rewrite Hst; reflexivity)) as H2.
    destruct (ack_est t h) as [t2 r]. cbn [fst] in H2. destruct r; exact H2.
  - pose proof (tinv_ack_est t h Hi Hh Hack ltac:(rewrite Hst; reflexivity)) as H2.
    pose proof (ack_est_st t h) as H3.
    destruct (ack_est t h) as [t2 r]. cbn [fst] in H2, H3.
    assert (H4 : tinv (if is_fin_acked t2 then set_st t2 FinWait2 else t2)).
    { destruct (is_fin_acked t2); [|exact H2]. apply tinv_set_st; [exact H2|].
      rewrite H3, Hst. reflexivity. }
    destruct r; exact H4.
  - pose proof (tinv_ack_est t h Hi Hh Hack ltac:(rewrite Hst; reflexivity)) as H2.
    destruct (ack_est t h) as [t2 r]. cbn [fst] in H2. destruct r; exact H2.
  - pose proof (tinv_ack_est t h Hi Hh Hack ltac:(rewrite Hst; reflexivity)) as H2.
    destruct (ack_est t h) as [t2 r]. cbn [fst] in H2. destruct r; exact H2.
  - pose proof (tinv_ack_est t h Hi Hh Hack ltac:(rewrite Hst; reflexivity)) as H2.
    pose proof (ack_est_st t h) as H3.
    destruct (ack_est t h) as [t2 r]. cbn [fst] in H2, H3.
    assert (H4 : tinv (if is_fin_acked t2 then set_time_wait (set_st t2 TimeWait) (Some MSL2) else t2)).
    { destruct (is_fin_acked t2); [|exact H2]. apply tinv_set_time_wait. apply tinv_set_st; [exact H2|].
      rewrite H3, Hst. reflexivity. }
    destruct r; exact H4.
  - pose proof (tinv_ack_est t h Hi Hh Hack ltac:(rewrite Hst; reflexivity)) as H2.
    destruct (ack_est t h) as [t2 r]. cbn [fst] in H2.
    destruct (is_fin_acked t2); [exact H2|]. destruct r; exact H2.
  - destruct (c_fin (h_ctl h)); cbv zeta; cbn [fst]; [|exact Hi].
    apply tinv_set_time_wait. apply tinv_enqueue; [exact Hi|].
    destruct Hi. hok_tac.
Qed.

Lemma tinv_ps_syn t h : tinv t -> hok h -> tinv (fst (ps_syn t h)).
Proof.
  intros Hi Hh. unfold ps_syn.
  destruct (c_syn (h_ctl h)) eqn:Hsyn; cbn [negb]; [|exact Hi].
  assert (Hw : h_wnd h = DEFAULT_WND) by (apply Hh; rewrite Hsyn; apply orb_true_r).
  assert (Hother : tinv (fst (enqueue t (ack_hdr t), Some PDiscard))).
  { cbn [fst]. apply tinv_enqueue; [exact Hi | apply hok_ack_hdr; exact Hi]. }
  destruct (st t) eqn:Hst; try exact Hother. clear Hother.
  set (t1 := set_snd_window _ _ _ _).
  assert (H1 : forall s, is_synsent s = false -> tinv (set_st t1 s)).
  { intros s Hs. destruct Hi. constructor; subst t1; tcb_cbn; auto with tinv.
    - apply Hh.
    - rewrite Hs. exact Hw. }
  destruct (mod_gt _ _); cbn [fst].
  - apply tinv_enqueue; [apply H1; reflexivity | apply hok_ack_hdr; apply H1; reflexivity].
  - apply tinv_enqueue; [apply H1; reflexivity|].
    specialize (H1 SynReceived eq_refl). destruct H1.
    hok_tac.
Qed.

Lemma tinv_ps_text t h text t1 : tinv t -> ps_text t h text = Ok t1 -> tinv t1.
Proof.
  intros Hi. unfold ps_text.
  destruct (zlen text =? 0); [intros [= <-]; exact Hi|].
  assert (Hmain :
    (if negb (is_in_rcv_window t (h_seq h) || is_in_rcv_window t (wadd (h_seq h) (zlen text)))
     then Panic 2
     else
       let already := Z.min (wsub (wsub (rcv_nxt t) (h_seq h)) (b2z (c_syn (h_ctl h)))) (zlen text) in
       let unreceived := zlen text - already in
       if rcv_wnd t <? zlen (in_text t) then Panic 3
       else
         let space := rcv_wnd t - zlen (in_text t) in
         let accept := Z.min unreceived space in
         let t1 := set_rcv_nxt t (wadd (rcv_nxt t) accept) in
         let piece := firstn (Z.to_nat accept) (skipn (Z.to_nat already) text) in
         let t2 := set_in_text t1 (in_text t1 ++ piece) in
         Ok (enqueue t2 (ack_hdr t2))) = Ok t1 -> tinv t1).
  { destruct (negb _); [discriminate|]. cbv zeta.
    destruct (rcv_wnd t <? zlen (in_text t)); [discriminate|].
    intros [= <-].
    match goal with |- tinv (enqueue ?a _) => assert (H2 : tinv a) end.
    { apply tinv_set_in_text. apply tinv_set_rcv_nxt; [exact Hi | apply wadd_u32]. }
    apply tinv_enqueue; [exact H2 | apply hok_ack_hdr; exact H2]. }
  destruct (st t); try exact Hmain; intros [= <-]; exact Hi.
Qed.
Lemma ps_text_st t h text t1 : ps_text t h text = Ok t1 -> st t1 = st t.
Proof.
  unfold ps_text. destruct (zlen text =? 0); [intros [= <-]; reflexivity|].
  destruct (st t) eqn:Hst; try (intros [= <-]; exact Hst);
  (destruct (negb _); [discriminate|]; cbv zeta;
   destruct (rcv_wnd t <? zlen (in_text t)); [discriminate|];
   intros [= <-]; rewrite enqueue_st; tcb_cbn; exact Hst).
Qed.

Lemma tinv_ps_fin t h n : tinv t -> tinv (ps_fin t h n).
Proof.
  intros Hi. unfold ps_fin. destruct (c_fin (h_ctl h)); cbn [negb]; [|exact Hi].
  set (t1 := if state_eqb (st t) SynSent then t else _).
  assert (H1 : tinv t1 /\ st t1 = st t).
  { subst t1. destruct (state_eqb (st t) SynSent); [split; [exact Hi | reflexivity]|].
    destruct (_ || _); [|split; [exact Hi | reflexivity]].
    match goal with |- tinv (enqueue ?a _) /\ _ => assert (H2 : tinv a) end.
    { apply tinv_set_rcv_nxt; [exact Hi | apply wadd_u32]. }
    split; [apply tinv_enqueue; [exact H2 | apply hok_ack_hdr; exact H2] | rewrite enqueue_st; reflexivity]. }
  destruct H1 as [H1 E1]. clearbody t1.
  destruct (st t1) eqn:Hst; try exact H1.
  - apply tinv_set_st; [exact H1 | rewrite Hst; reflexivity].
  - apply tinv_set_st; [exact H1 | rewrite Hst; reflexivity].
  - destruct (is_fin_acked t1).
    + apply tinv_set_time_wait. apply tinv_set_st; [exact H1 | rewrite Hst; reflexivity].
    + apply tinv_set_st; [exact H1 | rewrite Hst; reflexivity].
  - apply tinv_set_rto. apply tinv_set_time_wait. apply tinv_set_st; [exact H1 | rewrite Hst; reflexivity].
  - apply tinv_set_time_wait. exact H1.
Qed.

Lemma tinv_process_segment t s t1 r : tinv t -> sok s -> process_segment t s = Ok (t1, r) -> tinv t1.
Proof.
  intros Hi Hs. unfold process_segment.
  match goal with |- (if ?c then _ else _) = _ -> _ => destruct c end.
  { intros [= <- <-]. apply tinv_enqueue; [exact Hi | apply hok_ack_hdr; exact Hi]. }
  pose proof (tinv_ps_ack t (s_hdr s) Hi Hs) as H2.
  destruct (ps_ack t (s_hdr s)) as [t2 r2]. cbn [fst] in H2.
  destruct r2; [intros [= <- <-]; exact H2|].
  destruct (ps_rst t2 (s_hdr s)); [intros [= <- <-]; exact H2|].
  pose proof (tinv_ps_syn t2 (s_hdr s) H2 Hs) as H4.
  destruct (ps_syn t2 (s_hdr s)) as [t4 r4]. cbn [fst] in H4.
  destruct r4; [intros [= <- <-]; exact H4|].
  destruct (state_eqb (st t4) SynSent); [intros [= <- <-]; exact H4|].
  destruct (ps_text t4 (s_hdr s) (s_text s)) as [t6| | |] eqn:E6; try discriminate.
  intros [= <- <-]. apply tinv_ps_fin. eapply tinv_ps_text; eassumption.
Qed.

Lemma tinv_arrives_loop fuel : forall t t1 r, tinv t -> arrives_loop fuel t = Ok (t1, r) -> tinv t1.
Proof.
  induction fuel as [|f IH]; intros t t1 r Hi; cbn [arrives_loop]; [discriminate|].
  destruct (heap_peek (in_segs t)) as [top|]; [|intros [= <- <-]; exact Hi].
  destruct (_ && _); [intros [= <- <-]; exact Hi|].
  destruct (heap_pop (in_segs t)) as [[s rest]|] eqn:Ep; [|discriminate].
  destruct (heap_pop_Forall sok _ _ _ (i_in _ Hi) Ep) as [Hs Hr].
  destruct (process_segment (set_in_segs t rest) s) as [[t2 r2]| | |] eqn:E; try discriminate.
  assert (H2 : tinv t2).
  { eapply tinv_process_segment; [| exact Hs | exact E]. apply tinv_set_in_segs; assumption. }
  destruct (should_delete r2); [intros [= <- <-]; exact H2|].
  apply IH. exact H2.
Qed.

Lemma tinv_segment_arrives t s t1 r : tinv t -> sok s -> segment_arrives t s = Ok (t1, r) -> tinv t1.
Proof.
  intros Hi Hs. unfold segment_arrives. apply tinv_arrives_loop.
  apply tinv_set_in_segs; [exact Hi|]. apply heap_push_Forall; [apply Hi | exact Hs].
Qed.

(* ---- open / listen ---- *)
Lemma tinv_tcb_open lp rp iss m : u32 iss -> tinv (tcb_open lp rp iss m).
Proof.
  intros H. unfold tcb_open. apply tinv_enqueue.
  - constructor; tcb_cbn; auto with tinv. cbn. auto.
  - hok_tac.
Qed.

Lemma tinv_arrives_listen s iss m t : u32 iss -> sok s -> arrives_listen s iss m = LTcb t -> tinv t.
Proof.
  intros Hiss Hs. unfold arrives_listen.
  destruct (c_rst _); [discriminate|]. destruct (c_ack _) eqn:Hack; [discriminate|].
  destruct (c_syn _) eqn:Hsyn; [|discriminate]. intros [= <-].
  destruct Hs as (Hq & Ha & Hw).
  assert (Hw' : h_wnd (s_hdr s) = DEFAULT_WND) by (apply Hw; rewrite Hsyn; apply orb_true_r).
  match goal with |- tinv (set_in_segs ?a _) => assert (H1 : tinv a) end.
  { apply tinv_enqueue.
    - constructor; tcb_cbn; auto with tinv.
    - hok_tac. }
  apply tinv_set_in_segs; [exact H1|].
  apply heap_push_Forall; [apply H1|].
  hok_tac.
Qed.
Lemma hok_arrives_listen s iss m h : sok s -> arrives_listen s iss m = LResponse h -> hok h.
Proof.
  intros Hs. unfold arrives_listen.
  destruct (c_rst _); [discriminate|]. destruct (c_ack _) eqn:Hack.
  - intros [= <-]. destruct Hs as (Hq & Ha & Hw). hok_tac.
  - destruct (c_syn _); discriminate.
Qed.

(* ---- user calls and timers ---- *)
Lemma tinv_tcb_send t b : tinv t -> tinv (tcb_send t b).
Proof. intros Hi. unfold tcb_send. destruct (accepts_send _); [apply tinv_set_out_text|]; exact Hi. Qed.
Lemma tinv_tcb_receive t : tinv t -> tinv (fst (tcb_receive t)).
Proof. intros Hi. apply tinv_set_in_text. exact Hi. Qed.

Lemma tinv_queue_pending_fin t : tinv t -> tinv (queue_pending_fin t).
Proof.
  intros Hi. unfold queue_pending_fin.
  destruct (fin_pending t) eqn:Hf; cbn [andb]; [|exact Hi].
  destruct (out_text t); [|exact Hi].
  assert (Hst : is_synsent (st t) = false).
  { destruct (is_synsent (st t)) eqn:E; [|reflexivity].
    pose proof (i_swnd _ Hi) as H. rewrite E in H. destruct H as [_ H]. congruence. }
  match goal with |- tinv (set_snd_nxt (enqueue ?a ?h) _) => assert (H1 : tinv a); [|assert (H2 : hok h)] end.
  - apply tinv_set_fin_pending; assumption.
  - destruct H1. hok_tac.
  - apply tinv_set_snd_nxt; [|apply wadd_u32]. apply tinv_enqueue; assumption.
Qed.

Lemma tinv_tcb_close t : tinv t -> tinv (fst (tcb_close t)).
Proof.
  intros Hi. unfold tcb_close.
  destruct (st t) eqn:Hst; cbn [fst]; try exact Hi; apply tinv_queue_pending_fin.
  - apply tinv_set_st; [|tcb_cbn; rewrite Hst; reflexivity].
    apply tinv_set_fin_pending; [exact Hi | rewrite Hst; reflexivity].
  - apply tinv_set_st; [|tcb_cbn; rewrite Hst; reflexivity].
    apply tinv_set_fin_pending; [exact Hi | rewrite Hst; reflexivity].
  - apply tinv_set_st; [|tcb_cbn; rewrite Hst; reflexivity].
    apply tinv_set_fin_pending; [exact Hi | rewrite Hst; reflexivity].
Qed.

Lemma tinv_advance_time t dt : tinv t -> tinv (fst (advance_time t dt)).
Proof.
  intros Hi. unfold advance_time.
  set (t1 := if rto t <? dt then _ else _).
  assert (H1 : tinv t1).
  { subst t1. destruct (rto t <? dt); [|apply tinv_set_rto; exact Hi].
    apply tinv_set_retx; [apply tinv_set_rto; exact Hi|].
    apply Forall_map. pose proof (i_retx _ Hi) as H. revert H. apply Forall_impl. intros a Ha. exact Ha. }
  clearbody t1. destruct (time_wait t1) as [tw|]; [|exact H1].
  destruct (tw <? dt); cbn [fst]; [exact H1 | apply tinv_set_time_wait; exact H1].
Qed.

Lemma tinv_seg_loop fuel : forall t mss rem t1, tinv t -> seg_loop fuel t mss rem = Ok t1 -> tinv t1.
Proof.
  induction fuel as [|f IH]; intros t mss rem t1 Hi; cbn [seg_loop]; [discriminate|]. cbv zeta.
  destruct (_ =? 0); [intros [= <-]; exact Hi|].
  destruct (65535 <? _); [discriminate|].
  apply IH.
  apply tinv_set_retx.
  - apply tinv_set_snd_nxt; [apply tinv_set_out_text; exact Hi | apply wadd_u32].
  - tcb_cbn. apply Forall_app. split; [apply Hi|]. constructor; [|constructor].
    destruct Hi. hok_tac.
Qed.

Lemma tinv_tcb_segments t t1 out : tinv t -> tcb_segments t = Ok (t1, out) -> tinv t1 /\ Forall sok out.
Proof.
  intros Hi. unfold tcb_segments.
  set (t0 := set_oneshot t []).
  assert (H0 : tinv t0) by (apply tinv_set_oneshot; [exact Hi | constructor]).
  set (r1 := if segmentizes (st t0) then _ else _).
  assert (Hr : forall t1, r1 = Ok t1 -> tinv t1).
  { subst r1. intros t1'. destruct (segmentizes (st t0)); [|intros [= <-]; exact H0].
    destruct (mtu t0 <? SPACE_FOR_HEADERS); [discriminate|].
    destruct (seg_loop _ _ _ _) as [t2| | |] eqn:E; try discriminate.
    intros [= <-]. apply tinv_queue_pending_fin. eapply tinv_seg_loop; eassumption. }
  clearbody r1. destruct r1 as [t2| | |]; try discriminate.
  specialize (Hr t2 eq_refl). intros [= <- <-].
  assert (H3 : tinv (set_retx t2 (map (fun tx => mkTx (t_seg tx) false) (retx t2)))).
  { apply tinv_set_retx; [exact Hr|]. apply Forall_map.
    pose proof (i_retx _ Hr) as H. revert H. apply Forall_impl. intros a Ha. exact Ha. }
  split.
  - destruct (map t_seg _); [exact H3 | apply tinv_set_rto; exact H3].
  - apply Forall_app. split.
    + apply Forall_map. pose proof (i_one _ Hi) as H. revert H. apply Forall_impl. intros a Ha. exact Ha.
    + apply Forall_map. apply Forall_filter. pose proof (i_retx _ Hr) as H. revert H.
      apply Forall_impl. intros a Ha. exact Ha.
Qed.
