(* C06 - facts about the ARP transition system of Model/ArpProto.v. *)
From Coq Require Import NArith ZArith List Bool Lia.
From Elvis Require Import Model.Base Model.Subnet Model.ArpProto.
Import ListNotations.

(* ------------------------------------------------------------------ small helpers *)

Lemma existsb_eqb_In (x : N) (l : list N) :
  existsb (fun y => (y =? x)%N) l = true <-> In x l.
Proof.
  rewrite existsb_exists. split.
  - intros (y & Hy & He). apply N.eqb_eq in He. subst. exact Hy.
  - intros Hin. exists x. split; [exact Hin | apply N.eqb_refl].
Qed.

Lemma claimsb_In cfg m ip : claimsb cfg m ip = true <-> In ip (claims_of cfg m).
Proof. unfold claimsb. apply existsb_eqb_In. Qed.

Lemma nodupb_NoDup (l : list N) : nodupb l = true -> NoDup l.
Proof.
  induction l as [|x l IH]; intros H; [constructor|].
  cbn [nodupb] in H. apply andb_true_iff in H. destruct H as [Hx Hl].
  constructor; [|apply IH; exact Hl].
  intros Hin. apply existsb_eqb_In in Hin. rewrite Hin in Hx. discriminate.
Qed.

Lemma upd_same {A} (f : N -> A) k v : upd f k v k = v.
Proof. unfold upd. rewrite N.eqb_refl. reflexivity. Qed.
Lemma upd_other {A} (f : N -> A) k v x : x <> k -> upd f k v x = f x.
Proof. intros H. unfold upd. destruct (N.eqb_spec x k); [contradiction|reflexivity]. Qed.
Lemma updn_same {A} (f : nat -> A) k v : updn f k v k = v.
Proof. unfold updn. rewrite Nat.eqb_refl. reflexivity. Qed.
Lemma updn_other {A} (f : nat -> A) k v x : x <> k -> updn f k v x = f x.
Proof. intros H. unfold updn. destruct (Nat.eqb_spec x k); [contradiction|reflexivity]. Qed.

(* ------------------------------------------------------------------ well-formed configurations *)

Definition wf_cfg (cfg : config) : Prop := wf_cfgb cfg = true.

Lemma NoDup_concat_nth {A} (f : A -> list N) (d : A) (l : list A) :
  NoDup (concat (map f l)) ->
  forall i j x, (i < length l)%nat -> (j < length l)%nat ->
    In x (f (nth i l d)) -> In x (f (nth j l d)) -> i = j.
Proof.
  induction l as [|a l IH]; intros Hnd i j x Hi Hj Hxi Hxj; [cbn in Hi; lia|].
  cbn [map concat] in Hnd.
  assert (Htail : NoDup (concat (map f l))).
  { clear -Hnd. induction (f a) as [|y fa IHfa]; [exact Hnd|].
    cbn in Hnd. inversion Hnd; subst. apply IHfa. assumption. }
  assert (Hsep : forall y k, In y (f a) -> (k < length l)%nat -> In y (f (nth k l d)) -> False).
  { intros y k Hya Hk Hyk.
    assert (Hin : In y (concat (map f l))).
    { apply in_concat. exists (f (nth k l d)). split; [|exact Hyk].
      apply in_map. apply nth_In. exact Hk. }
    clear -Hnd Hya Hin. induction (f a) as [|z fa IHfa]; [contradiction|].
    cbn in Hnd. inversion Hnd as [|? ? Hnz Hnd']; subst.
    destruct Hya as [->|Hya].
    - apply Hnz. apply in_or_app. right. exact Hin.
    - apply IHfa; assumption. }
  destruct i as [|i], j as [|j]; cbn [nth length] in *.
  - reflexivity.
  - exfalso. apply (Hsep x j); [exact Hxi | lia | exact Hxj].
  - exfalso. apply (Hsep x i); [exact Hxj | lia | exact Hxi].
  - f_equal. apply (IH Htail i j x); [lia | lia | exact Hxi | exact Hxj].
Qed.

Lemma NoDup_map_nth {A} (f : A -> N) (d : A) (l : list A) :
  NoDup (map f l) ->
  forall i j, (i < length l)%nat -> (j < length l)%nat -> f (nth i l d) = f (nth j l d) -> i = j.
Proof.
  intros Hnd i j Hi Hj He.
  apply (proj1 (NoDup_nth (map f l) (f d)) Hnd); try (rewrite map_length; assumption).
  rewrite !map_nth. exact He.
Qed.

  Lemma wf_parts (cfg : config) (Hwf : wf_cfg cfg) :
    NoDup (concat (map mc_claims (cfg_machs cfg))) /\
    NoDup (map mc_mac (cfg_machs cfg)) /\
    forallb (fun mc => (mc_mac mc <? BROADCAST_MAC)%N) (cfg_machs cfg) = true /\
    forallb (fun mc => forallb (fun e => existsb (fun x => (x =? fst e)%N) (mc_claims mc)) (mc_pre mc))
            (cfg_machs cfg) = true.
  Proof.
    unfold wf_cfg, wf_cfgb in Hwf.
    apply andb_true_iff in Hwf. destruct Hwf as [H123 H4].
    apply andb_true_iff in H123. destruct H123 as [H12 H3].
    apply andb_true_iff in H12. destruct H12 as [H1 H2].
    repeat split; auto using nodupb_NoDup.
  Qed.

  (* claimed addresses are distinct: an address has at most one owner *)
  Lemma owner_unique (cfg : config) (Hwf : wf_cfg cfg) o1 o2 ip :
    (o1 < n_machs cfg)%nat -> (o2 < n_machs cfg)%nat ->
    In ip (claims_of cfg o1) -> In ip (claims_of cfg o2) -> o1 = o2.
  Proof.
    destruct (wf_parts cfg Hwf) as (H1 & _). unfold n_machs, claims_of, mconf_of.
    intros. eapply (NoDup_concat_nth mc_claims mc_default); eauto.
  Qed.

  Lemma mac_inj (cfg : config) (Hwf : wf_cfg cfg) o1 o2 :
    (o1 < n_machs cfg)%nat -> (o2 < n_machs cfg)%nat -> mac_of cfg o1 = mac_of cfg o2 -> o1 = o2.
  Proof.
    destruct (wf_parts cfg Hwf) as (_ & H2 & _). unfold n_machs, mac_of, mconf_of.
    intros. eapply (NoDup_map_nth mc_mac mc_default); eauto.
  Qed.

  Lemma mac_not_broadcast (cfg : config) (Hwf : wf_cfg cfg) o : (o < n_machs cfg)%nat -> (mac_of cfg o <? BROADCAST_MAC)%N = true.
  Proof.
    destruct (wf_parts cfg Hwf) as (_ & _ & H3 & _). unfold n_machs, mac_of, mconf_of. intros Ho.
    rewrite forallb_forall in H3. apply H3. apply nth_In. exact Ho.
  Qed.

  Lemma pre_claimed (cfg : config) (Hwf : wf_cfg cfg) o ip x :
    pre_lookup (mc_pre (mconf_of cfg o)) ip = Some x -> (o < n_machs cfg)%nat /\ In ip (claims_of cfg o).
  Proof.
    destruct (wf_parts cfg Hwf) as (_ & _ & _ & H4). unfold pre_lookup. intros H.
    destruct (find _ _) as [e|] eqn:Hf; [|discriminate].
    apply find_some in Hf. destruct Hf as [Hin He]. apply N.eqb_eq in He.
    assert (Ho : (o < n_machs cfg)%nat).
    { unfold n_machs. destruct (Nat.lt_ge_cases o (length (cfg_machs cfg))) as [Hlt|Hge]; [exact Hlt|].
      unfold mconf_of in Hin. rewrite nth_overflow in Hin by exact Hge. cbn in Hin. contradiction. }
    split; [exact Ho|].
    rewrite forallb_forall in H4.
    specialize (H4 (mconf_of cfg o)). unfold mconf_of in *.
    specialize (H4 (nth_In _ _ Ho)). rewrite forallb_forall in H4.
    specialize (H4 e Hin). apply existsb_eqb_In in H4. unfold claims_of, mconf_of. subst ip. exact H4.
  Qed.

(* ------------------------------------------------------------------ the target rule *)

(* arp.rs:185-200: the gateway exactly when a subnet is configured for the local address and
   the masked addresses differ; the remote address otherwise *)
Lemma target_rule (sub : option subnet_info) (p : pair) :
  (forall sn, sub = Some sn ->
     N.land (p_local p) (sn_mask sn) <> N.land (p_remote p) (sn_mask sn) -> target sub p = sn_gw sn) /\
  (forall sn, sub = Some sn ->
     N.land (p_local p) (sn_mask sn) = N.land (p_remote p) (sn_mask sn) -> target sub p = p_remote p) /\
  (sub = None -> target sub p = p_remote p).
Proof.
  unfold target, net_new. cbn [net_id].
  repeat split.
  - intros sn -> Hne. destruct (N.eqb_spec (N.land (p_local p) (sn_mask sn)) (N.land (p_remote p) (sn_mask sn)));
      [contradiction|reflexivity].
  - intros sn -> He. rewrite He, N.eqb_refl. reflexivity.
  - intros ->. reflexivity.
Qed.

(* the comparison of network ids is membership of the remote address in the local network *)
Lemma target_contains (sn : subnet_info) (p : pair) :
  target (Some sn) p = if contains (net_new (p_local p) (sn_mask sn)) (p_remote p) then p_remote p else sn_gw sn.
Proof.
  unfold target, contains, net_new. cbn [net_id net_mask].
  destruct (N.eqb _ _); reflexivity.
Qed.

(* ------------------------------------------------------------------ shapes of the moves *)

Lemma time_ok_spec s t :
  time_ok s t = true ->
  (st_now s <= t)%Z /\ forall rid, In rid (st_rids s) -> res_time_ok s t rid = true.
Proof.
  unfold time_ok. intros H. apply andb_true_iff in H. destruct H as [H1 H2].
  split; [apply Z.leb_le; exact H1|]. rewrite forallb_forall in H2. exact H2.
Qed.

Definition start_shape cfg s t m rid p slot s' : Prop :=
  let ms := listen (st_machs s m) (p_local p) in
  let sub := match ms_local ms (p_local p) with Some inner => inner | None => None end in
  let dest := target sub p in
  exists ph net',
    s' = mkSt t (updn (st_machs s) m ms)
              (upd (st_res s) rid (Some (mkRes m p sub dest t ph))) (rid :: st_rids s) net' /\
    ((exists st, ms_table ms dest = Some st /\ ph = PDone st t CCache /\ net' = st_net s) \/
     (ms_table ms dest = None /\ slot = 0%N /\ (cfg_mtu cfg < ARP_SIZE)%N /\
      ph = PDone SFailed t CSend /\ net' = st_net s) \/
     (ms_table ms dest = None /\ slot = 0%N /\ (ARP_SIZE <= cfg_mtu cfg)%N /\
      ph = PWait 1 (t + RESEND_DELAY) /\
      net' = st_net s ++ route cfg None (request_of cfg m (p_local p) dest))).

Lemma start_resolve_shape cfg s t m rid p slot s' :
  start_resolve cfg s t m rid p slot = Ok s' -> start_shape cfg s t m rid p slot s'.
Proof.
  unfold start_resolve, start_shape. cbv zeta.
  set (ms := listen (st_machs s m) (p_local p)).
  set (sub := match ms_local ms (p_local p) with Some inner => inner | None => None end).
  set (dest := target sub p).
  destruct (ms_table ms dest) as [st|] eqn:Ht.
  - intros H. inversion H; subst. do 2 eexists. split; [reflexivity|]. left. eauto.
  - destruct (N.leb_spec 1 slot) as [Hs|Hs]; [discriminate|].
    assert (slot = 0%N) by lia.
    unfold send_pci. destruct (N.ltb_spec (cfg_mtu cfg) ARP_SIZE) as [Hm|Hm].
    + intros H'. inversion H'; subst. do 2 eexists. split; [reflexivity|]. right. left. auto.
    + intros H'. inversion H'; subst. do 2 eexists. split; [reflexivity|]. right. right. auto.
Qed.

Definition poll_shape cfg s t rid s' : Prop :=
  exists r k dl,
    st_res s rid = Some r /\ r_phase r = PWait k dl /\
    let m := r_mach r in
    exists ph ms' net',
      s' = mkSt t (updn (st_machs s) m ms')
                (upd (st_res s) rid (Some (mkRes m (r_pair r) (r_sub r) (r_dest r) (r_born r) ph)))
                (st_rids s) net' /\
      ((exists st, ms_table (st_machs s m) (r_dest r) = Some st /\ ph = PDone st t CCache /\
                   ms' = st_machs s m /\ net' = st_net s) \/
       (ms_table (st_machs s m) (r_dest r) = None /\ t = dl /\ (k < RESEND_TRIES)%N /\
        (cfg_mtu cfg < ARP_SIZE)%N /\ ph = PDone SFailed t CSend /\ ms' = st_machs s m /\ net' = st_net s) \/
       (ms_table (st_machs s m) (r_dest r) = None /\ t = dl /\ (k < RESEND_TRIES)%N /\
        (ARP_SIZE <= cfg_mtu cfg)%N /\ ph = PWait (k + 1) (t + RESEND_DELAY) /\ ms' = st_machs s m /\
        net' = st_net s ++ route cfg None (request_of cfg m (p_local (r_pair r)) (r_dest r))) \/
       (ms_table (st_machs s m) (r_dest r) = None /\ t = dl /\ (RESEND_TRIES <= k)%N /\
        ph = PDone SFailed t CBudget /\ ms' = fail_mac (st_machs s m) (r_dest r) /\ net' = st_net s)).

Lemma poll_resolve_shape cfg s t rid s' :
  poll_resolve cfg s t rid = Ok s' -> poll_shape cfg s t rid s'.
Proof.
  unfold poll_resolve, poll_shape.
  destruct (st_res s rid) as [r|] eqn:Hr; [|discriminate].
  destruct (r_phase r) as [k dl|? ? ?] eqn:Hph; [|discriminate].
  cbv zeta. intros H. exists r, k, dl. split; [reflexivity|]. split; [exact Hph|].
  destruct (ms_table (st_machs s (r_mach r)) (r_dest r)) as [st|] eqn:Ht.
  - inversion H; subst. do 3 eexists. split; [reflexivity|]. left. eauto.
  - destruct (Z.eqb_spec t dl) as [He|He]; cbn [negb] in H; [|discriminate].
    destruct (N.ltb_spec k RESEND_TRIES) as [Hk|Hk].
    + unfold send_pci in H. destruct (N.ltb_spec (cfg_mtu cfg) ARP_SIZE) as [Hm|Hm].
      * inversion H; subst. do 3 eexists. split; [reflexivity|]. right. left. auto 10.
      * inversion H; subst. do 3 eexists. split; [reflexivity|]. right. right. left. auto 10.
    + inversion H; subst. do 3 eexists. split; [reflexivity|]. right. right. right. auto 10.
Qed.

Definition step_shape cfg s t l s' : Prop :=
  match l with
  | LListen m ip =>
      (m < n_machs cfg)%nat /\ In ip (claims_of cfg m) /\
      s' = set_mach s t m (listen (st_machs s m) ip) []
  | LSetSubnet m ip sn =>
      (m < n_machs cfg)%nat /\ In ip (claims_of cfg m) /\
      s' = set_mach s t m (set_subnet (st_machs s m) ip sn) []
  | LStart m rid p slot =>
      (m < n_machs cfg)%nat /\ In (p_local p) (claims_of cfg m) /\ st_res s rid = None /\
      start_shape cfg s t m rid p slot s'
  | LPoll rid => poll_shape cfg s t rid s'
  | LDeliver p m =>
      exists net', remove1 p m (st_net s) = Some net' /\
        s' = mkSt t (updn (st_machs s) m (fst (demux cfg m (st_machs s m) p))) (st_res s) (st_rids s)
                  (net' ++ snd (demux cfg m (st_machs s m) p))
  | LDrop p m =>
      exists net', remove1 p m (st_net s) = Some net' /\
        s' = mkSt t (st_machs s) (st_res s) (st_rids s) net'
  | LDup p m =>
      exists net', remove1 p m (st_net s) = Some net' /\
        s' = mkSt t (st_machs s) (st_res s) (st_rids s) (st_net s ++ [(p, m)])
  end.

Lemma step_shape_ok cfg s t l s' :
  step cfg s (t, l) = Ok s' -> time_ok s t = true /\ step_shape cfg s t l s'.
Proof.
  unfold step. destruct (time_ok s t) eqn:Htime; cbn [negb]; [|discriminate].
  intros H. split; [reflexivity|].
  destruct l as [m ip|m ip sn|m rid p slot|rid|p m|p m|p m]; cbn [step_shape].
  - destruct (Nat.ltb_spec m (n_machs cfg)) as [Hm|Hm]; cbn [negb] in H; [|discriminate].
    destruct (claimsb cfg m ip) eqn:Hc; cbn [negb] in H; [|discriminate].
    apply claimsb_In in Hc. inversion H. auto.
  - destruct (Nat.ltb_spec m (n_machs cfg)) as [Hm|Hm]; cbn [negb] in H; [|discriminate].
    destruct (claimsb cfg m ip) eqn:Hc; cbn [negb] in H; [|discriminate].
    apply claimsb_In in Hc. inversion H. auto.
  - destruct (Nat.ltb_spec m (n_machs cfg)) as [Hm|Hm]; cbn [negb] in H; [|discriminate].
    destruct (claimsb cfg m (p_local p)) eqn:Hc; cbn [negb] in H; [|discriminate].
    apply claimsb_In in Hc.
    destruct (st_res s rid) eqn:Hr; [discriminate|].
    auto using start_resolve_shape.
  - apply poll_resolve_shape. exact H.
  - destruct (remove1 p m (st_net s)) as [net'|] eqn:Hrm; [|discriminate].
    destruct (demux cfg m (st_machs s m) p) as [ms' fr] eqn:Hd. inversion H. cbn [fst snd]. eauto.
  - destruct (remove1 p m (st_net s)) as [net'|] eqn:Hrm; [|discriminate]. inversion H. eauto.
  - destruct (remove1 p m (st_net s)) as [net'|] eqn:Hrm; [|discriminate]. inversion H. eauto.
Qed.

Lemma packet_eqb_eq a b : packet_eqb a b = true -> a = b.
Proof.
  unfold packet_eqb. intros H.
  repeat (apply andb_true_iff in H; destruct H as [H ?]).
  destruct a as [oa a1 a2 a3 a4], b as [ob b1 b2 b3 b4]. cbn in *.
  repeat match goal with E : (_ =? _)%N = true |- _ => apply N.eqb_eq in E end.
  destruct oa, ob; try discriminate; subst; reflexivity.
Qed.

Lemma remove1_In p m l l' : remove1 p m l = Some l' -> In (p, m) l /\ forall x, In x l' -> In x l.
Proof.
  revert l'. induction l as [|[q k] l IH]; intros l' H; [discriminate|].
  cbn [remove1] in H.
  destruct (packet_eqb p q && Nat.eqb m k) eqn:He.
  - apply andb_true_iff in He. destruct He as [He1 He2].
    apply packet_eqb_eq in He1. apply Nat.eqb_eq in He2. subst. inversion H; subst.
    split; [left; reflexivity | intros x Hx; right; exact Hx].
  - destruct (remove1 p m l) as [r|]; [|discriminate]. inversion H; subst.
    destruct (IH r eq_refl) as [H1 H2]. split; [right; exact H1|].
    intros x [Hx|Hx]; [left; exact Hx | right; apply H2; exact Hx].
Qed.

Lemma route_dest cfg dst p q d : In (q, d) (route cfg dst p) -> q = p /\ (d < n_machs cfg)%nat.
Proof.
  assert (Hall : forall l, (forall i, In i l -> (i < n_machs cfg)%nat) ->
                      In (q, d) (map (fun i => (p, i)) l) -> q = p /\ (d < n_machs cfg)%nat).
  { intros l Hl Hin. apply in_map_iff in Hin. destruct Hin as (i & He & Hi). inversion He; subst. auto. }
  assert (Hseq : forall i, In i (all_machs cfg) -> (i < n_machs cfg)%nat).
  { intros i Hi. unfold all_machs in Hi. apply in_seq in Hi. lia. }
  unfold route. destruct dst as [d0|]; [|apply Hall; exact Hseq].
  destruct (d0 =? BROADCAST_MAC)%N; [apply Hall; exact Hseq|].
  apply Hall. intros i Hi. unfold with_mac in Hi. apply filter_In in Hi. apply Hseq. tauto.
Qed.

(* ------------------------------------------------------------------ per-machine operations *)

Lemma listen_local ms ip x :
  ms_local (listen ms ip) x <> None <-> (ms_local ms x <> None \/ x = ip).
Proof.
  unfold listen. destruct (ms_local ms ip) eqn:Hl.
  - split; [auto|]. intros [H| ->]; [exact H | congruence].
  - cbn [ms_local]. unfold upd. destruct (N.eqb_spec x ip) as [->|Hne].
    + split; [auto | intros _; discriminate].
    + split; [auto | intros [H|H]; [exact H | contradiction]].
Qed.
Lemma listen_table ms ip : ms_table (listen ms ip) = ms_table ms.
Proof. unfold listen. destruct (ms_local ms ip); reflexivity. Qed.
Lemma listen_flipped ms ip : ms_flipped (listen ms ip) = ms_flipped ms.
Proof. unfold listen. destruct (ms_local ms ip); reflexivity. Qed.
Lemma listen_self ms ip : ms_local (listen ms ip) ip <> None.
Proof. apply listen_local. right. reflexivity. Qed.

Lemma set_subnet_local ms ip sn x :
  ms_local (set_subnet ms ip sn) x <> None <-> (ms_local ms x <> None \/ x = ip).
Proof.
  cbn [set_subnet ms_local]. unfold upd. destruct (N.eqb_spec x ip) as [->|Hne].
  - split; [auto | intros _; discriminate].
  - split; [auto | intros [H|H]; [exact H | contradiction]].
Qed.

Lemma demux_local cfg m ms p : ms_local (fst (demux cfg m ms p)) = ms_local ms.
Proof.
  unfold demux. cbv zeta.
  destruct (pk_oper p); [|reflexivity].
  destruct (ms_local (set_mac ms (pk_sip p) (pk_smac p)) (pk_tip p)); [|reflexivity].
  destruct (send_pci _ _ _); reflexivity.
Qed.
Lemma demux_state cfg m ms p : fst (demux cfg m ms p) = set_mac ms (pk_sip p) (pk_smac p).
Proof.
  unfold demux. cbv zeta.
  destruct (pk_oper p); [|reflexivity].
  destruct (ms_local (set_mac ms (pk_sip p) (pk_smac p)) (pk_tip p)); [|reflexivity].
  destruct (send_pci _ _ _); reflexivity.
Qed.
(* every frame that demux emits is the reply of arp.rs:114-119, emitted because the request's
   target address is local, and addressed to the tap that owns the requester's MAC *)
Lemma demux_frames cfg m ms p q d :
  In (q, d) (snd (demux cfg m ms p)) ->
  pk_oper p = Request /\ ms_local ms (pk_tip p) <> None /\ q = reply_of cfg m p /\
  (d < n_machs cfg)%nat /\ (ARP_SIZE <= cfg_mtu cfg)%N /\
  (pk_smac p = BROADCAST_MAC \/ mac_of cfg d = pk_smac p).
Proof.
  unfold demux. cbv zeta.
  destruct (pk_oper p) eqn:Ho; [|cbn; contradiction].
  cbn [set_mac ms_local].
  destruct (ms_local ms (pk_tip p)) eqn:Hl; [|cbn; contradiction].
  unfold send_pci. destruct (N.ltb_spec (cfg_mtu cfg) ARP_SIZE) as [Hm|Hm]; [cbn; contradiction|].
  cbn [snd]. intros Hin.
  destruct (route_dest _ _ _ _ _ Hin) as [-> Hd].
  repeat split; auto; try congruence.
  unfold route in Hin. destruct (N.eqb_spec (pk_smac p) BROADCAST_MAC) as [Hb|Hb]; [left; exact Hb|].
  right. apply in_map_iff in Hin. destruct Hin as (i & He & Hi). inversion He; subst.
  unfold with_mac in Hi. apply filter_In in Hi. destruct Hi as [_ Hi]. apply N.eqb_eq in Hi. exact Hi.
Qed.

(* ------------------------------------------------------------------ invariant A: truthfulness *)

Definition listens (s : state) (o : nat) (ip : N) : Prop := ms_local (st_machs s o) ip <> None.
(* [mac] is the MAC of a machine that answers for [ip] *)
Definition truthful (cfg : config) (s : state) (ip mac : N) : Prop :=
  exists o, (o < n_machs cfg)%nat /\ mac = mac_of cfg o /\ listens s o ip.

Definition res_truth cfg s (r : resolver) : Prop :=
  (r_mach r < n_machs cfg)%nat /\ r_dest r = target (r_sub r) (r_pair r) /\
  listens s (r_mach r) (p_local (r_pair r)) /\
  forall mac t c, r_phase r = PDone (SOk mac) t c -> truthful cfg s (r_dest r) mac.

Record InvA (cfg : config) (s : state) : Prop := mkInvA
  { ia_local : forall o ip, listens s o ip -> (o < n_machs cfg)%nat /\ In ip (claims_of cfg o);
    ia_table : forall m ip mac, ms_table (st_machs s m) ip = Some (SOk mac) -> truthful cfg s ip mac;
    ia_net : forall p d, In (p, d) (st_net s) ->
                         truthful cfg s (pk_sip p) (pk_smac p) /\ (d < n_machs cfg)%nat;
    ia_res : forall rid r, st_res s rid = Some r -> res_truth cfg s r }.

Lemma truthful_mono cfg s s' ip mac :
  (forall o x, listens s o x -> listens s' o x) -> truthful cfg s ip mac -> truthful cfg s' ip mac.
Proof. intros Hm (o & Ho & He & Hl). exists o. auto. Qed.

Lemma InvA_frame cfg s s' :
  InvA cfg s ->
  (forall o ip, listens s' o ip -> listens s o ip \/ ((o < n_machs cfg)%nat /\ In ip (claims_of cfg o))) ->
  (forall o ip, listens s o ip -> listens s' o ip) ->
  (forall m ip mac, ms_table (st_machs s' m) ip = Some (SOk mac) ->
       ms_table (st_machs s m) ip = Some (SOk mac) \/ truthful cfg s' ip mac) ->
  (forall p d, In (p, d) (st_net s') ->
       In (p, d) (st_net s) \/ (truthful cfg s' (pk_sip p) (pk_smac p) /\ (d < n_machs cfg)%nat)) ->
  (forall rid r, st_res s' rid = Some r -> st_res s rid = Some r \/ res_truth cfg s' r \/
       exists r0, st_res s rid = Some r0 /\ r_mach r = r_mach r0 /\ r_pair r = r_pair r0 /\
                  r_sub r = r_sub r0 /\ r_dest r = r_dest r0 /\
                  forall mac t c, r_phase r = PDone (SOk mac) t c -> truthful cfg s' (r_dest r) mac) ->
  InvA cfg s'.
Proof.
  intros [Hl Ht Hn Hr] Hbound Hmono Htab Hnet Hres.
  assert (Htm : forall ip mac, truthful cfg s ip mac -> truthful cfg s' ip mac)
    by (intros; eapply truthful_mono; eauto).
  constructor.
  - intros o ip H. destruct (Hbound o ip H) as [H0|H0]; [apply Hl; exact H0 | exact H0].
  - intros m ip mac H. destruct (Htab m ip mac H) as [H0|H0]; [apply Htm; eapply Ht; exact H0 | exact H0].
  - intros p d H. destruct (Hnet p d H) as [H0|H0]; [|exact H0].
    destruct (Hn p d H0) as [H1 H2]. split; [apply Htm; exact H1 | exact H2].
  - intros rid r H. destruct (Hres rid r H) as [H0|[H0|H0]]; [|exact H0|].
    + destruct (Hr rid r H0) as (H1 & H2 & H3 & H4).
      repeat split; auto. intros mac t c Hp. apply Htm. eapply H4. exact Hp.
    + destruct H0 as (r0 & H0 & Em & Ep & Es & Ed & Hp).
      destruct (Hr rid r0 H0) as (H1 & H2 & H3 & H4).
      unfold res_truth. rewrite Em, Ep, Es, Ed. repeat split; auto.
      rewrite <- Ed. exact Hp.
Qed.

Lemma InvA_init cfg : wf_cfg cfg -> InvA cfg (init cfg).
Proof.
  intros Hwf. constructor; cbn [init st_machs st_net st_res init_mstate ms_local ms_table].
  - intros o ip H. unfold listens in H. cbn in H.
    destruct (pre_lookup (mc_pre (mconf_of cfg o)) ip) eqn:Hp; [|contradiction].
    eapply pre_claimed; eauto.
  - discriminate.
  - contradiction.
  - discriminate.
Qed.

Ltac machs_at o m :=
  destruct (Nat.eq_dec o m) as [->|?];
  [rewrite ?updn_same in * | rewrite ?updn_other in * by assumption].

Lemma InvA_step cfg s t l s' :
  wf_cfg cfg -> InvA cfg s -> step cfg s (t, l) = Ok s' -> InvA cfg s'.
Proof.
  intros Hwf HA Hstep. apply step_shape_ok in Hstep. destruct Hstep as [_ Hsh].
  destruct l as [m ip|m ip sn|m rid p slot|rid|p m|p m|p m]; cbn [step_shape] in Hsh.
  - (* listen *)
    destruct Hsh as (Hm & Hc & ->).
    apply (InvA_frame cfg s); [exact HA| | | | |]; unfold listens, set_mach; cbn [st_machs st_net st_res].
    + intros o x H. machs_at o m; [|left; exact H].
      apply listen_local in H. destruct H as [H| ->]; [left; exact H | right; auto].
    + intros o x H. machs_at o m; [|exact H]. apply listen_local. left. exact H.
    + intros o x mac H. left. machs_at o m; [|exact H]. rewrite listen_table in H. exact H.
    + intros q d H. left. rewrite app_nil_r in H. exact H.
    + intros r0 r H. left. exact H.
  - (* set_subnet *)
    destruct Hsh as (Hm & Hc & ->).
    apply (InvA_frame cfg s); [exact HA| | | | |]; unfold listens, set_mach; cbn [st_machs st_net st_res].
    + intros o x H. machs_at o m; [|left; exact H].
      apply set_subnet_local in H. destruct H as [H| ->]; [left; exact H | right; auto].
    + intros o x H. machs_at o m; [|exact H]. apply set_subnet_local. left. exact H.
    + intros o x mac H. left. machs_at o m; [|exact H]. exact H.
    + intros q d H. left. rewrite app_nil_r in H. exact H.
    + intros r0 r H. left. exact H.
  - (* start *)
    destruct Hsh as (Hm & Hc & Hfresh & Hsh). unfold start_shape in Hsh. cbv zeta in Hsh.
    destruct Hsh as (ph & net' & -> & Hcases).
    assert (Hmono : forall o x, listens s o x ->
              ms_local (updn (st_machs s) m (listen (st_machs s m) (p_local p)) o) x <> None).
    { intros o x H. machs_at o m; [|exact H]. apply listen_local. left. exact H. }
    assert (Hself : truthful cfg
              (mkSt t (updn (st_machs s) m (listen (st_machs s m) (p_local p)))
                    (upd (st_res s) rid
                       (Some (mkRes m p
                          match ms_local (listen (st_machs s m) (p_local p)) (p_local p) with
                          | Some inner => inner | None => None end
                          (target match ms_local (listen (st_machs s m) (p_local p)) (p_local p) with
                                  | Some inner => inner | None => None end p) t ph)))
                    (rid :: st_rids s) net') (p_local p) (mac_of cfg m)).
    { exists m. split; [exact Hm|]. split; [reflexivity|]. unfold listens. cbn [st_machs].
      rewrite updn_same. apply listen_self. }
    apply (InvA_frame cfg s); [exact HA| | | | |]; unfold listens; cbn [st_machs st_net st_res].
    + intros o x H. machs_at o m; [|left; exact H].
      apply listen_local in H. destruct H as [H| ->]; [left; exact H | right; auto].
    + exact Hmono.
    + intros o x mac H. left. machs_at o m; [|exact H]. rewrite listen_table in H. exact H.
    + intros q d H.
      destruct Hcases as [(st & _ & _ & ->)|[(_ & _ & _ & _ & ->)|(_ & _ & _ & _ & ->)]];
        [left; exact H | left; exact H |].
      apply in_app_or in H. destruct H as [H|H]; [left; exact H|right].
      apply route_dest in H. destruct H as [-> Hd]. split; [exact Hself | exact Hd].
    + intros r0 r H. unfold upd in H. destruct (N.eqb_spec r0 rid) as [->|Hne]; [|left; exact H].
      right. left. inversion H; subst r. unfold res_truth. cbn [r_mach r_pair r_sub r_dest r_phase].
      split; [exact Hm|]. split; [reflexivity|]. split.
      * unfold listens. cbn [st_machs]. rewrite updn_same. apply listen_self.
      * intros mac t0 c Hp.
        destruct Hcases as [(st & Htab & -> & _)|[(_ & _ & _ & -> & _)|(_ & _ & _ & -> & _)]];
          [|discriminate|discriminate].
        inversion Hp; subst. rewrite listen_table in Htab.
        eapply truthful_mono; [|eapply (ia_table _ _ HA); exact Htab].
        exact Hmono.
  - (* poll *)
    unfold poll_shape in Hsh. destruct Hsh as (r & k & dl & Hr & Hph & Hsh). cbv zeta in Hsh.
    destruct Hsh as (ph & ms' & net' & -> & Hcases).
    destruct (ia_res _ _ HA rid r Hr) as (Hm & Hd & Hl & _).
    assert (Hloc : ms_local ms' = ms_local (st_machs s (r_mach r))).
    { destruct Hcases as [(st & _ & _ & -> & _)|[(_ & _ & _ & _ & _ & -> & _)|[(_ & _ & _ & _ & _ & -> & _)|(_ & _ & _ & _ & -> & _)]]];
        reflexivity. }
    assert (Hmono : forall o x, listens s o x <-> ms_local (updn (st_machs s) (r_mach r) ms' o) x <> None).
    { intros o x. unfold listens. machs_at o (r_mach r); [rewrite Hloc|]; tauto. }
    apply (InvA_frame cfg s); [exact HA| | | | |]; unfold listens; cbn [st_machs st_net st_res].
    + intros o x H. left. apply Hmono. exact H.
    + intros o x H. apply Hmono. exact H.
    + intros o x mac H. left. machs_at o (r_mach r); [|exact H].
      destruct Hcases as [(st & _ & _ & -> & _)|[(_ & _ & _ & _ & _ & -> & _)|[(_ & _ & _ & _ & _ & -> & _)|(Hn & _ & _ & _ & -> & _)]]];
        try exact H.
      cbn [fail_mac ms_table] in H. unfold upd in H. destruct (N.eqb_spec x (r_dest r)); [discriminate|exact H].
    + intros q d H.
      destruct Hcases as [(st & _ & _ & _ & ->)|[(_ & _ & _ & _ & _ & _ & ->)|[(_ & _ & _ & _ & _ & _ & ->)|(_ & _ & _ & _ & _ & ->)]]];
        try (left; exact H).
      apply in_app_or in H. destruct H as [H|H]; [left; exact H|right].
      apply route_dest in H. destruct H as [-> Hd']. split; [|exact Hd'].
      exists (r_mach r). split; [exact Hm|]. split; [reflexivity|]. unfold listens. cbn [st_machs].
      apply Hmono. exact Hl.
    + intros r0 r1 H. unfold upd in H. destruct (N.eqb_spec r0 rid) as [->|Hne]; [|left; exact H].
      right. right. exists r. inversion H; subst r1. cbn [r_mach r_pair r_sub r_dest r_phase].
      repeat split; auto.
      intros mac t0 c Hp.
      destruct Hcases as [(st & Htab & -> & _)|[(_ & _ & _ & _ & -> & _)|[(_ & _ & _ & _ & -> & _)|(_ & _ & _ & -> & _)]]];
        try discriminate.
      inversion Hp; subst.
      eapply truthful_mono; [|eapply (ia_table _ _ HA); exact Htab].
      intros o x Hx. apply Hmono. exact Hx.
  - (* deliver *)
    destruct Hsh as (net' & Hrm & ->).
    apply remove1_In in Hrm. destruct Hrm as [Hin Hsub].
    destruct (ia_net _ _ HA _ _ Hin) as [Htr Hm].
    assert (Hmono : forall o x, listens s o x <->
              ms_local (updn (st_machs s) m (fst (demux cfg m (st_machs s m) p)) o) x <> None).
    { intros o x. unfold listens. machs_at o m; [rewrite demux_local|]; tauto. }
    assert (Htm : forall ip mac, truthful cfg s ip mac ->
              truthful cfg (mkSt t (updn (st_machs s) m (fst (demux cfg m (st_machs s m) p))) (st_res s)
                                 (st_rids s) (net' ++ snd (demux cfg m (st_machs s m) p))) ip mac).
    { intros ip mac. apply truthful_mono. intros o x Hx. unfold listens. cbn [st_machs]. apply Hmono. exact Hx. }
    apply (InvA_frame cfg s); [exact HA| | | | |]; unfold listens; cbn [st_machs st_net st_res].
    + intros o x H. left. apply Hmono. exact H.
    + intros o x H. apply Hmono. exact H.
    + intros o x mac H. machs_at o m; [|left; exact H].
      rewrite demux_state in H. cbn [set_mac ms_table] in H. unfold upd in H.
      destruct (N.eqb_spec x (pk_sip p)) as [->|Hne]; [|left; exact H].
      right. inversion H; subst mac. apply Htm. exact Htr.
    + intros q d H. apply in_app_or in H. destruct H as [H|H]; [left; apply Hsub; exact H|right].
      apply demux_frames in H. destruct H as (Ho & Hl & -> & Hd & _ & _).
      split; [|exact Hd]. cbn [reply_of pk_sip pk_smac].
      exists m. split; [exact Hm|]. split; [reflexivity|]. unfold listens. cbn [st_machs].
      apply Hmono. exact Hl.
    + intros r0 r H. left. exact H.
  - (* drop *)
    destruct Hsh as (net' & Hrm & ->). apply remove1_In in Hrm. destruct Hrm as [_ Hsub].
    apply (InvA_frame cfg s); [exact HA| | | | |]; unfold listens; cbn [st_machs st_net st_res]; auto.
  - (* dup *)
    destruct Hsh as (net' & Hrm & ->). apply remove1_In in Hrm. destruct Hrm as [Hin _].
    apply (InvA_frame cfg s); [exact HA| | | | |]; unfold listens; cbn [st_machs st_net st_res]; auto.
    intros q d H. left. apply in_app_or in H. destruct H as [H|[H|[]]]; [exact H|]. inversion H; subst. exact Hin.
Qed.

(* ------------------------------------------------------------------ invariant B: timing *)

Definition BUDGET : Z := (Z.of_N RESEND_TRIES * RESEND_DELAY)%Z.

Definition res_time (now : Z) (r : resolver) : Prop :=
  (r_born r <= now)%Z /\
  match r_phase r with
  | PWait k dl =>
      (1 <= k <= RESEND_TRIES)%N /\ dl = (r_born r + Z.of_N k * RESEND_DELAY)%Z /\ (now <= dl)%Z
  | PDone st t c =>
      (r_born r <= t <= now)%Z /\ (t <= r_born r + BUDGET)%Z /\
      (c = CBudget -> st = SFailed /\ t = (r_born r + BUDGET)%Z) /\
      (c = CSend -> st = SFailed)
  end.

Record InvB (s : state) : Prop := mkInvB
  { ib_rids : forall rid r, st_res s rid = Some r -> In rid (st_rids s);
    ib_res : forall rid r, st_res s rid = Some r -> res_time (st_now s) r }.

Lemma time_ok_wait s t rid r k dl :
  InvB s -> time_ok s t = true -> st_res s rid = Some r -> r_phase r = PWait k dl -> (t <= dl)%Z.
Proof.
  intros HB Ht Hr Hp. apply time_ok_spec in Ht. destruct Ht as [_ Hall].
  specialize (Hall rid (ib_rids _ HB _ _ Hr)). unfold res_time_ok in Hall. rewrite Hr, Hp in Hall.
  apply andb_true_iff in Hall. destruct Hall as [H _]. apply Z.leb_le. exact H.
Qed.

Lemma InvB_frame s s' t :
  InvB s -> time_ok s t = true -> st_now s' = t ->
  (forall rid, In rid (st_rids s) -> In rid (st_rids s')) ->
  (forall rid r, st_res s' rid = Some r ->
       st_res s rid = Some r \/ (In rid (st_rids s') /\ res_time t r)) ->
  InvB s'.
Proof.
  intros HB Ht Hnow Hrids Hres.
  pose proof (time_ok_spec _ _ Ht) as [Hle _].
  constructor.
  - intros rid r H. destruct (Hres rid r H) as [H0|[H0 _]]; [|exact H0].
    apply Hrids. eapply ib_rids; eauto.
  - intros rid r H. rewrite Hnow. destruct (Hres rid r H) as [H0|[_ H0]]; [|exact H0].
    pose proof (ib_res _ HB _ _ H0) as [Hb Hp]. unfold res_time. split; [lia|].
    destruct (r_phase r) as [k dl|st t0 c] eqn:Hph.
    + destruct Hp as (Hk & Hd & _). repeat split; try tauto. eapply time_ok_wait; eauto.
    + destruct Hp as (H1 & H2 & H3 & H4). repeat split; try tauto; lia.
Qed.

Lemma InvB_init cfg : InvB (init cfg).
Proof. constructor; cbn; discriminate. Qed.

Lemma delay_pos : (0 < RESEND_DELAY)%Z.
Proof. reflexivity. Qed.

Lemma InvB_step cfg s t l s' : InvB s -> step cfg s (t, l) = Ok s' -> InvB s'.
Proof.
  intros HB Hstep. apply step_shape_ok in Hstep. destruct Hstep as [Ht Hsh].
  pose proof (time_ok_spec _ _ Ht) as [Hle _].
  pose proof delay_pos as Hdp.
  destruct l as [m ip|m ip sn|m rid p slot|rid|p m|p m|p m]; cbn [step_shape] in Hsh.
  - destruct Hsh as (_ & _ & ->). apply (InvB_frame s _ t); auto.
  - destruct Hsh as (_ & _ & ->). apply (InvB_frame s _ t); auto.
  - destruct Hsh as (_ & _ & Hfresh & Hsh). unfold start_shape in Hsh. cbv zeta in Hsh.
    destruct Hsh as (ph & net' & -> & Hcases).
    apply (InvB_frame s _ t); auto; cbn [st_rids st_res].
    + intros r0 H. right. exact H.
    + intros r0 r H. unfold upd in H. destruct (N.eqb_spec r0 rid) as [->|Hne]; [|left; exact H].
      right. split; [left; reflexivity|]. inversion H; subst r. unfold res_time. cbn [r_born r_phase].
      split; [lia|].
      destruct Hcases as [(st & _ & -> & _)|[(_ & _ & _ & -> & _)|(_ & _ & _ & -> & _)]].
      * repeat split; unfold BUDGET, RESEND_TRIES in *; try lia; try discriminate.
      * repeat split; unfold BUDGET, RESEND_TRIES in *; try lia; try discriminate.
      * repeat split; unfold BUDGET, RESEND_TRIES in *; try lia.
  - unfold poll_shape in Hsh. destruct Hsh as (r & k & dl & Hr & Hph & Hsh). cbv zeta in Hsh.
    destruct Hsh as (ph & ms' & net' & -> & Hcases).
    pose proof (ib_res _ HB _ _ Hr) as [Hb Hp]. rewrite Hph in Hp. destruct Hp as (Hk & Hd & Hnd).
    pose proof (time_ok_wait _ _ _ _ _ _ HB Ht Hr Hph) as Htd.
    assert (Hkz : (Z.of_N k * RESEND_DELAY <= BUDGET)%Z).
    { unfold BUDGET. apply Z.mul_le_mono_nonneg_r; [lia|]. lia. }
    apply (InvB_frame s _ t); auto; cbn [st_rids st_res].
    intros r0 r1 H. unfold upd in H. destruct (N.eqb_spec r0 rid) as [->|Hne]; [|left; exact H].
    right. split; [eapply ib_rids; eauto|]. inversion H; subst r1. unfold res_time. cbn [r_born r_phase].
    split; [lia|].
    destruct Hcases as [(st & _ & -> & _)|[(_ & _ & _ & _ & -> & _)|[(_ & He & Hk' & _ & -> & _)|(_ & He & Hk' & -> & _)]]].
    + repeat split; try lia; discriminate.
    + repeat split; try lia; discriminate.
    + repeat split; try lia; try (subst t dl; rewrite N2Z.inj_add; lia).
    + assert (k = RESEND_TRIES) by lia. subst k.
      repeat split; try lia; try discriminate; try (subst t dl; unfold BUDGET; lia).
  - destruct Hsh as (net' & _ & ->). apply (InvB_frame s _ t); auto.
  - destruct Hsh as (net' & _ & ->). apply (InvB_frame s _ t); auto.
  - destruct Hsh as (net' & _ & ->). apply (InvB_frame s _ t); auto.
Qed.

(* ------------------------------------------------------------------ invariant C: agreement *)

(* as long as no cached failure was overwritten on a machine, every finished resolver of an
   address on that machine holds the table's current entry *)
Definition InvC (s : state) : Prop :=
  forall rid r st t c,
    st_res s rid = Some r -> r_phase r = PDone st t c -> c <> CSend ->
    ms_flipped (st_machs s (r_mach r)) (r_dest r) = false ->
    ms_table (st_machs s (r_mach r)) (r_dest r) = Some st.

Lemma InvC_init cfg : InvC (init cfg).
Proof. intros rid r st t c H. cbn in H. discriminate. Qed.

Lemma truthful_unique cfg s ip mac1 mac2 :
  wf_cfg cfg -> InvA cfg s -> truthful cfg s ip mac1 -> truthful cfg s ip mac2 -> mac1 = mac2.
Proof.
  intros Hwf HA (o1 & Ho1 & -> & Hl1) (o2 & Ho2 & -> & Hl2).
  destruct (ia_local _ _ HA _ _ Hl1) as [_ Hc1]. destruct (ia_local _ _ HA _ _ Hl2) as [_ Hc2].
  rewrite (owner_unique cfg Hwf o1 o2 ip); auto.
Qed.

Ltac machs_eq o m :=
  destruct (Nat.eq_dec o m) as [Heq|Hneq];
  [rewrite Heq, ?updn_same; rewrite <- ?Heq | rewrite ?updn_other by assumption].

Lemma InvC_step cfg s t l s' :
  wf_cfg cfg -> InvA cfg s -> InvC s -> step cfg s (t, l) = Ok s' -> InvC s'.
Proof.
  intros Hwf HA HC Hstep. apply step_shape_ok in Hstep. destruct Hstep as [_ Hsh]. unfold InvC in *.
  destruct l as [m ip|m ip sn|m rid p slot|rid|p m|p m|p m]; cbn [step_shape] in Hsh.
  - destruct Hsh as (_ & _ & ->). intros rid r st t0 c Hr Hp Hc. unfold set_mach in *. cbn [st_machs st_res] in *.
    machs_eq (r_mach r) m; [|eapply HC; eassumption].
    rewrite listen_flipped, listen_table. eapply HC; eassumption.
  - destruct Hsh as (_ & _ & ->). intros rid r st t0 c Hr Hp Hc. unfold set_mach in *. cbn [st_machs st_res] in *.
    machs_eq (r_mach r) m; [|eapply HC; eassumption].
    cbn [set_subnet ms_flipped ms_table]. eapply HC; eassumption.
  - destruct Hsh as (_ & _ & Hfresh & Hsh). unfold start_shape in Hsh. cbv zeta in Hsh.
    destruct Hsh as (ph & net' & -> & Hcases).
    intros r0 r st t0 c Hr Hp Hc. cbn [st_machs st_res] in *.
    unfold upd in Hr. destruct (N.eqb_spec r0 rid) as [->|Hne].
    + inversion Hr; subst r. cbn [r_mach r_dest r_phase] in *. rewrite updn_same. intros _.
      destruct Hcases as [(st' & Htab & -> & _)|[(_ & _ & _ & -> & _)|(_ & _ & _ & -> & _)]].
      * inversion Hp; subst. exact Htab.
      * inversion Hp; subst. contradiction.
      * discriminate.
    + machs_eq (r_mach r) m; [|eapply HC; eassumption].
      rewrite listen_flipped, listen_table. eapply HC; eassumption.
  - unfold poll_shape in Hsh. destruct Hsh as (r & k & dl & Hr & Hph & Hsh). cbv zeta in Hsh.
    destruct Hsh as (ph & ms' & net' & -> & Hcases).
    intros r0 r1 st t0 c Hr1 Hp Hc. cbn [st_machs st_res] in *.
    unfold upd in Hr1. destruct (N.eqb_spec r0 rid) as [->|Hne].
    + inversion Hr1; subst r1. cbn [r_mach r_dest r_phase] in *. rewrite updn_same. intros _.
      destruct Hcases as [(st' & Htab & -> & -> & _)|[(_ & _ & _ & _ & -> & _)|[(_ & _ & _ & _ & -> & _)|(_ & _ & _ & -> & -> & _)]]].
      * inversion Hp; subst. exact Htab.
      * inversion Hp; subst. contradiction.
      * discriminate.
      * inversion Hp; subst. cbn [fail_mac ms_table]. apply upd_same.
    + machs_eq (r_mach r1) (r_mach r); [|eapply HC; eassumption].
      destruct Hcases as [(st' & _ & _ & -> & _)|[(_ & _ & _ & _ & _ & -> & _)|[(_ & _ & _ & _ & _ & -> & _)|(Hn & _ & _ & _ & -> & _)]]];
        rewrite <- ?Heq; try (eapply HC; eassumption).
      cbn [fail_mac ms_flipped ms_table]. intros Hf.
      pose proof (HC _ _ _ _ _ Hr1 Hp Hc Hf) as Hold.
      unfold upd. destruct (N.eqb_spec (r_dest r1) (r_dest r)) as [He|He]; [|exact Hold].
      rewrite He, Heq in Hold. congruence.
  - destruct Hsh as (net' & Hrm & ->). apply remove1_In in Hrm. destruct Hrm as [Hin _].
    destruct (ia_net _ _ HA _ _ Hin) as [Htr _].
    intros rid r st t0 c Hr Hp Hc. cbn [st_machs st_res] in *.
    machs_eq (r_mach r) m; [|eapply HC; eassumption].
    rewrite demux_state. cbn [set_mac ms_flipped ms_table]. intros Hf.
    unfold upd. destruct (N.eqb_spec (r_dest r) (pk_sip p)) as [He|He].
    + rewrite He in *.
      destruct (ms_table (st_machs s (r_mach r)) (pk_sip p)) as [[mac'|]|] eqn:Htab.
      * pose proof (HC _ _ _ _ _ Hr Hp Hc) as Hold. rewrite He, Htab in Hold. specialize (Hold Hf).
        inversion Hold; subst st. f_equal. f_equal.
        eapply truthful_unique; eauto. eapply ia_table; eauto.
      * rewrite upd_same in Hf. discriminate.
      * pose proof (HC _ _ _ _ _ Hr Hp Hc) as Hold. rewrite He, Htab in Hold. specialize (Hold Hf). discriminate.
    + assert (Hf' : ms_flipped (st_machs s (r_mach r)) (r_dest r) = false).
      { destruct (ms_table (st_machs s (r_mach r)) (pk_sip p)) as [[?|]|]; try exact Hf.
        rewrite upd_other in Hf by exact He. exact Hf. }
      eapply HC; eassumption.
  - destruct Hsh as (net' & _ & ->). intros rid r st t0 c Hr Hp Hc. cbn [st_machs st_res] in *.
    eapply HC; eassumption.
  - destruct Hsh as (net' & _ & ->). intros rid r st t0 c Hr Hp Hc. cbn [st_machs st_res] in *.
    eapply HC; eassumption.
Qed.

(* ------------------------------------------------------------------ invariant D: origin of cached failures *)

(* finished resolvers never change; a cached failure was written by a resolver of that address on
   that machine whose own budget ran out *)
Definition InvD (s : state) : Prop :=
  forall m ip, ms_table (st_machs s m) ip = Some SFailed ->
    exists rid r t, st_res s rid = Some r /\ r_mach r = m /\ r_dest r = ip /\
      r_phase r = PDone SFailed t CBudget.

Lemma InvD_init cfg : InvD (init cfg).
Proof. intros m ip H. cbn in H. discriminate. Qed.

Lemma done_stable cfg s x s' rid r st t c :
  step cfg s x = Ok s' -> st_res s rid = Some r -> r_phase r = PDone st t c -> st_res s' rid = Some r.
Proof.
  destruct x as [t0 l]. intros Hstep Hr Hp. apply step_shape_ok in Hstep. destruct Hstep as [_ Hsh].
  destruct l as [m ip|m ip sn|m rid0 p slot|rid0|p m|p m|p m]; cbn [step_shape] in Hsh.
  - destruct Hsh as (_ & _ & ->). exact Hr.
  - destruct Hsh as (_ & _ & ->). exact Hr.
  - destruct Hsh as (_ & _ & Hfresh & Hsh). unfold start_shape in Hsh. cbv zeta in Hsh.
    destruct Hsh as (ph & net' & -> & _). cbn [st_res]. rewrite upd_other; [exact Hr|]. congruence.
  - unfold poll_shape in Hsh. destruct Hsh as (r0 & k & dl & Hr0 & Hph & Hsh). cbv zeta in Hsh.
    destruct Hsh as (ph & ms' & net' & -> & _). cbn [st_res]. rewrite upd_other; [exact Hr|].
    intros ->. rewrite Hr in Hr0. inversion Hr0; subst. congruence.
  - destruct Hsh as (net' & _ & ->). exact Hr.
  - destruct Hsh as (net' & _ & ->). exact Hr.
  - destruct Hsh as (net' & _ & ->). exact Hr.
Qed.

Lemma InvD_step cfg s x s' : InvD s -> step cfg s x = Ok s' -> InvD s'.
Proof.
  intros HD Hstep. pose proof (fun rid r st t c => done_stable cfg s x s' rid r st t c Hstep) as Hst.
  assert (Hkeep : forall m ip, ms_table (st_machs s m) ip = Some SFailed ->
            exists rid r t, st_res s' rid = Some r /\ r_mach r = m /\ r_dest r = ip /\
      r_phase r = PDone SFailed t CBudget).
  { intros m ip H. destruct (HD m ip H) as (rid & r & t & Hr & Hm & Hd & Hp).
    exists rid, r, t. repeat split; auto. eapply Hst; eauto. }
  destruct x as [t0 l]. apply step_shape_ok in Hstep. destruct Hstep as [_ Hsh].
  destruct l as [m ip|m ip sn|m rid0 p slot|rid0|p m|p m|p m]; cbn [step_shape] in Hsh.
  - destruct Hsh as (_ & _ & E). intros m0 ip0 H. apply Hkeep. subst s'. unfold set_mach in H. cbn [st_machs] in H.
    machs_at m0 m; [rewrite listen_table in H|]; exact H.
  - destruct Hsh as (_ & _ & E). intros m0 ip0 H. apply Hkeep. subst s'. unfold set_mach in H. cbn [st_machs] in H.
    machs_at m0 m; exact H.
  - destruct Hsh as (_ & _ & Hfresh & Hsh). unfold start_shape in Hsh. cbv zeta in Hsh.
    destruct Hsh as (ph & net' & E & _). intros m0 ip0 H. apply Hkeep. subst s'. cbn [st_machs] in H.
    machs_at m0 m; [rewrite listen_table in H|]; exact H.
  - unfold poll_shape in Hsh. destruct Hsh as (r0 & k & dl & Hr0 & Hph & Hsh). cbv zeta in Hsh.
    destruct Hsh as (ph & ms' & net' & E & Hcases). intros m0 ip0 H.
    destruct Hcases as [(st' & _ & _ & -> & _)|[(_ & _ & _ & _ & _ & -> & _)|[(_ & _ & _ & _ & _ & -> & _)|(_ & _ & _ & -> & -> & _)]]];
      try (apply Hkeep; subst s'; cbn [st_machs] in H; machs_at m0 (r_mach r0); exact H).
    destruct (Nat.eq_dec m0 (r_mach r0)) as [Hm|Hm]; [destruct (N.eq_dec ip0 (r_dest r0)) as [Hi|Hi]|].
    + subst s'. cbn [st_res]. eexists rid0, _, t0. rewrite upd_same. split; [reflexivity|].
      cbn [r_mach r_dest r_phase]. auto.
    + apply Hkeep. subst s' m0. cbn [st_machs] in H. rewrite updn_same in H.
      cbn [fail_mac ms_table] in H. rewrite upd_other in H by exact Hi. exact H.
    + apply Hkeep. subst s'. cbn [st_machs] in H. rewrite updn_other in H by exact Hm. exact H.
  - destruct Hsh as (net' & _ & E). intros m0 ip0 H. apply Hkeep. subst s'. cbn [st_machs] in H.
    machs_at m0 m; [|exact H]. rewrite demux_state in H. cbn [set_mac ms_table] in H.
    unfold upd in H. destruct (N.eqb_spec ip0 (pk_sip p)); [discriminate|exact H].
  - destruct Hsh as (net' & _ & E). intros m0 ip0 H. apply Hkeep. subst s'. exact H.
  - destruct Hsh as (net' & _ & E). intros m0 ip0 H. apply Hkeep. subst s'. exact H.
Qed.

(* ------------------------------------------------------------------ reachable states *)

Record Inv (cfg : config) (s : state) : Prop := mkInv
  { inv_a : InvA cfg s; inv_b : InvB s; inv_c : InvC s; inv_d : InvD s }.

Lemma Inv_init cfg : wf_cfg cfg -> Inv cfg (init cfg).
Proof. intros H. constructor; [apply InvA_init; exact H | apply InvB_init | apply InvC_init | apply InvD_init]. Qed.

Lemma Inv_step cfg s x s' : wf_cfg cfg -> Inv cfg s -> step cfg s x = Ok s' -> Inv cfg s'.
Proof.
  intros Hwf [HA HB HC HD] H. constructor.
  - destruct x as [t l]. eapply InvA_step; eauto.
  - destruct x as [t l]. eapply InvB_step; eauto.
  - destruct x as [t l]. eapply InvC_step; eauto.
  - eapply InvD_step; eauto.
Qed.

Lemma Inv_run cfg tr : forall s s', wf_cfg cfg -> Inv cfg s -> run cfg s tr = Ok s' -> Inv cfg s'.
Proof.
  induction tr as [|x tr IH]; intros s s' Hwf HI H; cbn [run] in H.
  - inversion H; subst. exact HI.
  - destruct (step cfg s x) as [s1| | |] eqn:Hs; cbn [bind] in H; try discriminate.
    apply (IH s1 s' Hwf); [eapply Inv_step; eauto | exact H].
Qed.

Definition reachable (cfg : config) (s : state) : Prop :=
  exists tr, run cfg (init cfg) tr = Ok s.

Lemma Inv_reachable cfg s : wf_cfg cfg -> reachable cfg s -> Inv cfg s.
Proof. intros Hwf [tr H]. eapply Inv_run; eauto. apply Inv_init. exact Hwf. Qed.

Lemma run_app cfg tr1 : forall tr2 s s1 s2,
  run cfg s tr1 = Ok s1 -> run cfg s1 tr2 = Ok s2 -> run cfg s (tr1 ++ tr2) = Ok s2.
Proof.
  induction tr1 as [|x tr1 IH]; intros tr2 s s1 s2 H1 H2; cbn [run app] in *.
  - inversion H1; subst. exact H2.
  - destruct (step cfg s x) as [s'| | |]; cbn [bind] in *; try discriminate. eapply IH; eauto.
Qed.

Lemma reachable_step cfg s x s' : reachable cfg s -> step cfg s x = Ok s' -> reachable cfg s'.
Proof.
  intros [tr H] Hs. exists (tr ++ [x]). eapply run_app; [exact H|]. cbn [run]. rewrite Hs. reflexivity.
Qed.

Lemma reachable_run cfg s tr s' : reachable cfg s -> run cfg s tr = Ok s' -> reachable cfg s'.
Proof. intros [tr0 H] Hs. exists (tr0 ++ tr). eapply run_app; eauto. Qed.

(* ------------------------------------------------------------------ theorems: truthfulness *)

(* [mac] is the MAC of THE machine that may claim [ip], and that machine answers for it now *)
Definition owner_mac (cfg : config) (s : state) (ip mac : N) : Prop :=
  exists o, (o < n_machs cfg)%nat /\ mac = mac_of cfg o /\ listens s o ip /\ In ip (claims_of cfg o) /\
            forall o', (o' < n_machs cfg)%nat -> In ip (claims_of cfg o') -> o' = o.

Lemma truthful_owner cfg s ip mac :
  wf_cfg cfg -> InvA cfg s -> truthful cfg s ip mac -> owner_mac cfg s ip mac.
Proof.
  intros Hwf HA (o & Ho & He & Hl). destruct (ia_local _ _ HA _ _ Hl) as [_ Hc].
  exists o. repeat split; auto. intros o' Ho' Hc'. eapply owner_unique; eauto.
Qed.

Lemma table_truthful cfg s m ip mac :
  wf_cfg cfg -> reachable cfg s ->
  ms_table (st_machs s m) ip = Some (SOk mac) -> owner_mac cfg s ip mac.
Proof.
  intros Hwf Hr Ht. pose proof (Inv_reachable _ _ Hwf Hr) as [HA _ _ _].
  apply truthful_owner; auto. eapply ia_table; eauto.
Qed.

Lemma never_wrong cfg s rid r mac t c :
  wf_cfg cfg -> reachable cfg s ->
  st_res s rid = Some r -> r_phase r = PDone (SOk mac) t c ->
  r_dest r = target (r_sub r) (r_pair r) /\ owner_mac cfg s (r_dest r) mac.
Proof.
  intros Hwf Hre Hr Hp. pose proof (Inv_reachable _ _ Hwf Hre) as [HA _ _ _].
  destruct (ia_res _ _ HA _ _ Hr) as (_ & Hd & _ & Ht). split; [exact Hd|].
  apply truthful_owner; auto. eapply Ht; eauto.
Qed.

(* what LStart records: the pair, and the subnet entry of the local address after listen() *)
Lemma start_records cfg s t m rid p slot s' :
  step cfg s (t, LStart m rid p slot) = Ok s' ->
  exists r, st_res s' rid = Some r /\ r_mach r = m /\ r_pair r = p /\ r_born r = t /\
    r_sub r = match ms_local (listen (st_machs s m) (p_local p)) (p_local p) with
              | Some inner => inner | None => None end /\
    r_dest r = target (r_sub r) p.
Proof.
  intros H. apply step_shape_ok in H. destruct H as [_ (_ & _ & _ & Hsh)].
  unfold start_shape in Hsh. cbv zeta in Hsh. destruct Hsh as (ph & net' & -> & _).
  cbn [st_res]. rewrite upd_same. eexists. split; [reflexivity|]. cbn. auto.
Qed.

(* ------------------------------------------------------------------ theorems: one exchange suffices *)

Lemma with_mac_self cfg m : wf_cfg cfg -> (m < n_machs cfg)%nat -> with_mac cfg (mac_of cfg m) = [m].
Proof.
  intros Hwf Hm. unfold with_mac, all_machs.
  assert (H : forall l, NoDup l -> (forall i, In i l -> (i < n_machs cfg)%nat) ->
            filter (fun i => (mac_of cfg i =? mac_of cfg m)%N) l = if in_dec Nat.eq_dec m l then [m] else []).
  { induction l as [|a l IH]; intros Hnd Hl; [reflexivity|].
    inversion Hnd as [|? ? Hna Hnd']; subst. cbn [filter].
    assert (Hl' : forall i, In i l -> (i < n_machs cfg)%nat) by (intros; apply Hl; right; assumption).
    rewrite (IH Hnd' Hl').
    destruct (N.eqb_spec (mac_of cfg a) (mac_of cfg m)) as [He|He].
    - apply (mac_inj cfg Hwf) in He; [|apply Hl; left; reflexivity|exact Hm]. subst a.
      destruct (in_dec Nat.eq_dec m l); [contradiction|].
      destruct (in_dec Nat.eq_dec m (m :: l)) as [_|Hn]; [reflexivity|]. exfalso. apply Hn. left. reflexivity.
    - destruct (in_dec Nat.eq_dec m l) as [Hi|Hi]; destruct (in_dec Nat.eq_dec m (a :: l)) as [Hj|Hj]; auto.
      + exfalso. apply Hj. right. exact Hi.
      + destruct Hj as [->|Hj]; [congruence | contradiction]. }
  rewrite H; [|apply seq_NoDup|intros i Hi; apply in_seq in Hi; lia].
  destruct (in_dec Nat.eq_dec m (seq 0 (n_machs cfg))) as [_|Hn]; [reflexivity|].
  exfalso. apply Hn. apply in_seq. lia.
Qed.

Lemma remove1_other p m l l' x : remove1 p m l = Some l' -> In x l -> x = (p, m) \/ In x l'.
Proof.
  revert l'. induction l as [|[q k] l IH]; intros l' H Hx; [contradiction|].
  cbn [remove1] in H. destruct (packet_eqb p q && Nat.eqb m k) eqn:He.
  - inversion H; subst. destruct Hx as [<-|Hx]; [|right; exact Hx].
    apply andb_true_iff in He. destruct He as [H1 H2]. apply packet_eqb_eq in H1. apply Nat.eqb_eq in H2.
    subst. left. reflexivity.
  - destruct (remove1 p m l) as [r|]; [|discriminate]. inversion H; subst.
    destruct Hx as [<-|Hx]; [right; left; reflexivity|].
    destruct (IH r eq_refl Hx) as [E|E]; [left; exact E | right; right; exact E].
Qed.

(* the request reaches a machine that answers for the target address: its reply (carrying that
   machine's MAC and the target address) is in flight to the requester *)
Lemma exchange_request cfg s t req o m s' :
  wf_cfg cfg -> (ARP_SIZE <= cfg_mtu cfg)%N ->
  step cfg s (t, LDeliver req o) = Ok s' ->
  pk_oper req = Request -> listens s o (pk_tip req) ->
  (m < n_machs cfg)%nat -> pk_smac req = mac_of cfg m ->
  In (reply_of cfg o req, m) (st_net s') /\
  pk_oper (reply_of cfg o req) = Reply /\ pk_sip (reply_of cfg o req) = pk_tip req /\
  pk_smac (reply_of cfg o req) = mac_of cfg o.
Proof.
  intros Hwf Hmtu Hstep Hop Hl Hm Hmac. apply step_shape_ok in Hstep. destruct Hstep as [_ Hsh].
  cbn [step_shape] in Hsh. destruct Hsh as (net' & _ & ->). cbn [st_net].
  split; [|cbn; auto]. apply in_or_app. right.
  unfold demux. cbv zeta. rewrite Hop. cbn [set_mac ms_local].
  unfold listens in Hl. destruct (ms_local (st_machs s o) (pk_tip req)); [|contradiction].
  unfold send_pci. destruct (N.ltb_spec (cfg_mtu cfg) ARP_SIZE) as [Hlt|_]; [lia|].
  cbn [snd]. unfold route. rewrite Hmac.
  pose proof (mac_not_broadcast cfg Hwf m Hm) as Hb. apply N.ltb_lt in Hb.
  destruct (N.eqb_spec (mac_of cfg m) BROADCAST_MAC) as [E|_]; [lia|].
  rewrite with_mac_self by assumption. left. reflexivity.
Qed.

(* any ARP packet that reaches a machine leaves sender_ip -> sender_mac in its table *)
Lemma exchange_reply cfg s t p m s' :
  step cfg s (t, LDeliver p m) = Ok s' ->
  ms_table (st_machs s' m) (pk_sip p) = Some (SOk (pk_smac p)).
Proof.
  intros Hstep. apply step_shape_ok in Hstep. destruct Hstep as [_ Hsh].
  cbn [step_shape] in Hsh. destruct Hsh as (net' & _ & ->). cbn [st_machs].
  rewrite updn_same, demux_state. cbn [set_mac ms_table]. apply upd_same.
Qed.

(* a resolved entry is never lost or changed *)
Lemma ok_stable_step cfg s x s' m ip mac :
  wf_cfg cfg -> Inv cfg s -> step cfg s x = Ok s' ->
  ms_table (st_machs s m) ip = Some (SOk mac) -> ms_table (st_machs s' m) ip = Some (SOk mac).
Proof.
  intros Hwf [HA _ _ _] Hstep Ht. destruct x as [t l].
  apply step_shape_ok in Hstep. destruct Hstep as [_ Hsh].
  destruct l as [m0 ip0|m0 ip0 sn|m0 rid p slot|rid|p m0|p m0|p m0]; cbn [step_shape] in Hsh.
  - destruct Hsh as (_ & _ & ->). unfold set_mach. cbn [st_machs].
    machs_at m m0; [rewrite listen_table|]; exact Ht.
  - destruct Hsh as (_ & _ & ->). unfold set_mach. cbn [st_machs]. machs_at m m0; exact Ht.
  - destruct Hsh as (_ & _ & _ & Hsh). unfold start_shape in Hsh. cbv zeta in Hsh.
    destruct Hsh as (ph & net' & -> & _). cbn [st_machs]. machs_at m m0; [rewrite listen_table|]; exact Ht.
  - unfold poll_shape in Hsh. destruct Hsh as (r & k & dl & Hr & Hph & Hsh). cbv zeta in Hsh.
    destruct Hsh as (ph & ms' & net' & -> & Hcases). cbn [st_machs].
    destruct (Nat.eq_dec m (r_mach r)) as [Hm|Hm]; [|rewrite updn_other by exact Hm; exact Ht].
    subst m. rewrite updn_same.
    destruct Hcases as [(st' & _ & _ & -> & _)|[(_ & _ & _ & _ & _ & -> & _)|[(_ & _ & _ & _ & _ & -> & _)|(Hn & _ & _ & _ & -> & _)]]];
      try exact Ht.
    cbn [fail_mac ms_table]. unfold upd. destruct (N.eqb_spec ip (r_dest r)) as [->|_]; [congruence|exact Ht].
  - destruct Hsh as (net' & Hrm & ->). cbn [st_machs].
    apply remove1_In in Hrm. destruct Hrm as [Hin _]. destruct (ia_net _ _ HA _ _ Hin) as [Htr _].
    destruct (Nat.eq_dec m m0) as [Hm|Hm]; [|rewrite updn_other by exact Hm; exact Ht].
    subst m0. rewrite updn_same, demux_state. cbn [set_mac ms_table]. unfold upd.
    destruct (N.eqb_spec ip (pk_sip p)) as [->|_]; [|exact Ht].
    f_equal. f_equal. eapply truthful_unique; eauto. eapply ia_table; eauto.
  - destruct Hsh as (net' & _ & ->). exact Ht.
  - destruct Hsh as (net' & _ & ->). exact Ht.
Qed.

(* once the table of machine m holds [SOk mac] for D, a resolver of D on m that has not finished
   yet (or starts later) can only finish with [SOk mac] *)
Definition not_failed_yet (s : state) (rid : N) (m : nat) (D mac : N) : Prop :=
  forall r, st_res s rid = Some r -> r_mach r = m -> r_dest r = D ->
    (exists k dl, r_phase r = PWait k dl) \/ (exists t c, r_phase r = PDone (SOk mac) t c).

Lemma succeeds_step cfg s x s' rid m D mac :
  wf_cfg cfg -> Inv cfg s -> step cfg s x = Ok s' ->
  ms_table (st_machs s m) D = Some (SOk mac) ->
  not_failed_yet s rid m D mac -> not_failed_yet s' rid m D mac.
Proof.
  intros Hwf HI Hstep Ht Hnf. destruct x as [t l].
  pose proof (step_shape_ok _ _ _ _ _ Hstep) as [_ Hsh].
  destruct l as [m0 ip0|m0 ip0 sn|m0 rid0 p slot|rid0|p m0|p m0|p m0]; cbn [step_shape] in Hsh.
  - destruct Hsh as (_ & _ & ->). exact Hnf.
  - destruct Hsh as (_ & _ & ->). exact Hnf.
  - destruct Hsh as (_ & _ & _ & Hsh). unfold start_shape in Hsh. cbv zeta in Hsh.
    destruct Hsh as (ph & net' & -> & Hcases). intros r Hr Hm Hd. cbn [st_res] in Hr.
    unfold upd in Hr. destruct (N.eqb_spec rid rid0) as [->|Hne]; [|apply Hnf; assumption].
    inversion Hr; subst r. cbn [r_mach r_dest r_phase] in *. subst m0.
    rewrite <- Hd in Ht.
    destruct Hcases as [(st & Htab & -> & _)|[(Htab & _)|(Htab & _)]];
      rewrite listen_table in Htab; rewrite Htab in Ht; try discriminate.
    inversion Ht; subst. right. eauto.
  - unfold poll_shape in Hsh. destruct Hsh as (r0 & k & dl & Hr0 & Hph & Hsh). cbv zeta in Hsh.
    destruct Hsh as (ph & ms' & net' & -> & Hcases). intros r Hr Hm Hd. cbn [st_res] in Hr.
    unfold upd in Hr. destruct (N.eqb_spec rid rid0) as [->|Hne]; [|apply Hnf; assumption].
    inversion Hr; subst r. cbn [r_mach r_dest r_phase] in *. subst m. rewrite <- Hd in Ht.
    destruct Hcases as [(st & Htab & -> & _)|[(Htab & _)|[(Htab & _)|(Htab & _)]]];
      rewrite Htab in Ht; try discriminate.
    inversion Ht; subst. right. eauto.
  - destruct Hsh as (net' & _ & ->). exact Hnf.
  - destruct Hsh as (net' & _ & ->). exact Hnf.
  - destruct Hsh as (net' & _ & ->). exact Hnf.
Qed.

Lemma succeeds_run cfg tr : forall s s' rid m D mac,
  wf_cfg cfg -> Inv cfg s -> run cfg s tr = Ok s' ->
  ms_table (st_machs s m) D = Some (SOk mac) ->
  not_failed_yet s rid m D mac ->
  ms_table (st_machs s' m) D = Some (SOk mac) /\ not_failed_yet s' rid m D mac.
Proof.
  induction tr as [|x tr IH]; intros s s' rid m D mac Hwf HI Hrun Ht Hnf; cbn [run] in Hrun.
  - inversion Hrun; subst. auto.
  - destruct (step cfg s x) as [s1| | |] eqn:Hs; cbn [bind] in Hrun; try discriminate.
    apply (IH s1 s' rid m D mac Hwf); auto.
    + eapply Inv_step; eauto.
    + eapply ok_stable_step; eauto.
    + eapply succeeds_step; eauto.
Qed.

(* If an ARP packet of D's owner has been delivered to machine m (table entry SOk), every
   resolver of D on m that was still waiting at that moment, or starts later, returns that MAC *)
Lemma succeeds cfg s tr s' rid m D mac r st t c :
  wf_cfg cfg -> reachable cfg s -> run cfg s tr = Ok s' ->
  ms_table (st_machs s m) D = Some (SOk mac) ->
  (st_res s rid = None \/ exists r0 k dl, st_res s rid = Some r0 /\ r_phase r0 = PWait k dl) ->
  st_res s' rid = Some r -> r_mach r = m -> r_dest r = D -> r_phase r = PDone st t c ->
  st = SOk mac.
Proof.
  intros Hwf Hre Hrun Ht Hstart Hr Hm Hd Hp.
  pose proof (Inv_reachable _ _ Hwf Hre) as HI.
  assert (Hnf : not_failed_yet s rid m D mac).
  { intros r1 Hr1 _ _. destruct Hstart as [Hn|(r0 & k & dl & Hr0 & Hp0)]; [congruence|].
    rewrite Hr1 in Hr0. inversion Hr0; subst. left. eauto. }
  destruct (succeeds_run cfg tr s s' rid m D mac Hwf HI Hrun Ht Hnf) as [_ Hnf'].
  destruct (Hnf' r Hr Hm Hd) as [(k & dl & E)|(t' & c' & E)]; rewrite Hp in E; [discriminate|].
  inversion E. reflexivity.
Qed.

(* conversely: a resolver that gives up has never been reached by a packet of the owner *)
Lemma failure_means_unheard cfg s x s' rid r k dl r' t c :
  step cfg s x = Ok s' ->
  st_res s rid = Some r -> r_phase r = PWait k dl ->
  st_res s' rid = Some r' -> r_phase r' = PDone SFailed t c ->
  forall mac, ms_table (st_machs s (r_mach r)) (r_dest r) <> Some (SOk mac).
Proof.
  intros Hstep Hr Hp Hr' Hp' mac Ht. destruct x as [t0 l].
  apply step_shape_ok in Hstep. destruct Hstep as [_ Hsh].
  destruct l as [m0 ip0|m0 ip0 sn|m0 rid0 p slot|rid0|p m0|p m0|p m0]; cbn [step_shape] in Hsh.
  - destruct Hsh as (_ & _ & ->). cbn in Hr'. congruence.
  - destruct Hsh as (_ & _ & ->). cbn in Hr'. congruence.
  - destruct Hsh as (_ & _ & Hfresh & Hsh). unfold start_shape in Hsh. cbv zeta in Hsh.
    destruct Hsh as (ph & net' & -> & _). cbn [st_res] in Hr'.
    rewrite upd_other in Hr' by congruence. congruence.
  - unfold poll_shape in Hsh. destruct Hsh as (r0 & k0 & dl0 & Hr0 & Hph & Hsh). cbv zeta in Hsh.
    destruct Hsh as (ph & ms' & net' & -> & Hcases). cbn [st_res] in Hr'.
    unfold upd in Hr'. destruct (N.eqb_spec rid rid0) as [->|Hne]; [|congruence].
    rewrite Hr in Hr0. inversion Hr0; subst r0. inversion Hr'; subst r'. cbn [r_phase] in Hp'.
    destruct Hcases as [(st & Htab & -> & _)|[(Htab & _)|[(Htab & _)|(Htab & _)]]]; try congruence.
  - destruct Hsh as (net' & _ & ->). cbn in Hr'. congruence.
  - destruct Hsh as (net' & _ & ->). cbn in Hr'. congruence.
  - destruct Hsh as (net' & _ & ->). cbn in Hr'. congruence.
Qed.

(* ------------------------------------------------------------------ theorems: bounded failure, no hang *)

(* timing of every resolver of a reachable state *)
Lemma resolver_timing cfg s rid r :
  wf_cfg cfg -> reachable cfg s -> st_res s rid = Some r -> res_time (st_now s) r.
Proof. intros Hwf Hre Hr. pose proof (Inv_reachable _ _ Hwf Hre) as [_ HB _ _]. eapply ib_res; eauto. Qed.

(* nobody may claim D: a resolver of D never returns a MAC *)
Lemma unclaimed_never_ok cfg s rid r mac t c :
  wf_cfg cfg -> reachable cfg s ->
  (forall o, (o < n_machs cfg)%nat -> ~ In (r_dest r) (claims_of cfg o)) ->
  st_res s rid = Some r -> r_phase r <> PDone (SOk mac) t c.
Proof.
  intros Hwf Hre Hno Hr Hp.
  destruct (never_wrong _ _ _ _ _ _ _ Hwf Hre Hr Hp) as [_ (o & Ho & _ & _ & Hc & _)].
  exact (Hno o Ho Hc).
Qed.

(* a failure is either the resolver's own exhausted budget (after exactly RESEND_TRIES delays),
   a send error, or the cached failure of a sibling whose budget was exhausted *)
Lemma failure_cause cfg s rid r t c :
  wf_cfg cfg -> reachable cfg s -> st_res s rid = Some r -> r_phase r = PDone SFailed t c ->
  (r_born r <= t <= r_born r + BUDGET)%Z /\
  (c = CBudget -> t = (r_born r + BUDGET)%Z).
Proof.
  intros Hwf Hre Hr Hp. pose proof (resolver_timing _ _ _ _ Hwf Hre Hr) as [_ Ht].
  rewrite Hp in Ht. destruct Ht as (H1 & H2 & H3 & _). split; [lia|]. intros E. apply H3. exact E.
Qed.

(* the poll of a waiting resolver is a move of the model whenever the clock allows its instant *)
Definition poll_instant (s : state) (r : resolver) (dl : Z) : Z :=
  match ms_table (st_machs s (r_mach r)) (r_dest r) with Some _ => st_now s | None => dl end.

Lemma poll_enabled cfg s rid r k dl :
  st_res s rid = Some r -> r_phase r = PWait k dl ->
  time_ok s (poll_instant s r dl) = true ->
  exists s', step cfg s (poll_instant s r dl, LPoll rid) = Ok s'.
Proof.
  intros Hr Hp Ht. unfold step. rewrite Ht. cbn [negb]. unfold poll_resolve. rewrite Hr, Hp.
  unfold poll_instant in *. cbv zeta.
  destruct (ms_table (st_machs s (r_mach r)) (r_dest r)) as [st|]; [eauto|].
  rewrite Z.eqb_refl. cbn [negb].
  destruct (k <? RESEND_TRIES)%N; [|eauto].
  destruct (send_pci _ _ _); eauto.
Qed.

(* the waiting resolver that is due first *)
Fixpoint next_due (s : state) (rids : list N) : option (N * Z) :=
  match rids with
  | [] => None
  | rid :: rest =>
      let best := next_due s rest in
      match st_res s rid with
      | Some r =>
          match r_phase r with
          | PWait _ dl =>
              let t := poll_instant s r dl in
              match best with
              | Some (_, tb) => if (t <=? tb)%Z then Some (rid, t) else best
              | None => Some (rid, t)
              end
          | PDone _ _ _ => best
          end
      | None => best
      end
  end.

Lemma next_due_spec s rids :
  (forall rid r k dl, In rid rids -> st_res s rid = Some r -> r_phase r = PWait k dl ->
     exists rid0 t0, next_due s rids = Some (rid0, t0) /\ (t0 <= poll_instant s r dl)%Z) /\
  (forall rid0 t0, next_due s rids = Some (rid0, t0) ->
     exists r k dl, In rid0 rids /\ st_res s rid0 = Some r /\ r_phase r = PWait k dl /\
                    t0 = poll_instant s r dl).
Proof.
  induction rids as [|a rest [IH1 IH2]]; cbn [next_due]; cbv zeta.
  - split; [intros ? ? ? ? []|discriminate].
  - split.
    + intros rid r k dl Hin Hr Hp.
      destruct Hin as [->|Hin].
      * rewrite Hr, Hp. destruct (next_due s rest) as [[rb tb]|].
        -- destruct (Z.leb_spec (poll_instant s r dl) tb); do 2 eexists; (split; [reflexivity|lia]).
        -- do 2 eexists. split; [reflexivity|lia].
      * destruct (IH1 rid r k dl Hin Hr Hp) as (rid0 & t0 & E & Hle). rewrite E.
        destruct (st_res s a) as [ra|]; [|eauto].
        destruct (r_phase ra) as [ka dla|? ? ?]; [|eauto].
        destruct (Z.leb_spec (poll_instant s ra dla) t0); do 2 eexists; (split; [reflexivity|lia]).
    + intros rid0 t0 H.
      assert (Hrest : next_due s rest = Some (rid0, t0) ->
                exists r k dl, In rid0 (a :: rest) /\ st_res s rid0 = Some r /\ r_phase r = PWait k dl /\
                               t0 = poll_instant s r dl).
      { intros E. destruct (IH2 _ _ E) as (r & k & dl & Hin & Hr & Hp & Et).
        exists r, k, dl. repeat split; auto. right. exact Hin. }
      destruct (st_res s a) as [ra|] eqn:Hra; [|auto].
      destruct (r_phase ra) as [ka dla|? ? ?] eqn:Hpa; [|auto].
      destruct (next_due s rest) as [[rb tb]|].
      * destruct (Z.leb_spec (poll_instant s ra dla) tb); [|auto].
        inversion H; subst. exists ra, ka, dla. repeat split; auto. left. reflexivity.
      * inversion H; subst. exists ra, ka, dla. repeat split; auto. left. reflexivity.
Qed.

(* no hang: while some resolver is waiting, some resolver's poll is a move of the model, at an
   instant within that resolver's budget *)
Lemma never_hangs cfg s rid r k dl :
  wf_cfg cfg -> reachable cfg s -> st_res s rid = Some r -> r_phase r = PWait k dl ->
  exists rid0 r0 t0 s',
    step cfg s (t0, LPoll rid0) = Ok s' /\ st_res s rid0 = Some r0 /\
    (st_now s <= t0 <= r_born r0 + BUDGET)%Z /\ (t0 <= dl)%Z.
Proof.
  intros Hwf Hre Hr Hp. pose proof (Inv_reachable _ _ Hwf Hre) as [_ HB _ _].
  destruct (next_due_spec s (st_rids s)) as [H1 H2].
  destruct (H1 rid r k dl (ib_rids _ HB _ _ Hr) Hr Hp) as (rid0 & t0 & E & Hle).
  destruct (H2 _ _ E) as (r0 & k0 & dl0 & Hin0 & Hr0 & Hp0 & Et0).
  assert (Hnow : forall rid1 r1 k1 dl1, st_res s rid1 = Some r1 -> r_phase r1 = PWait k1 dl1 ->
            (st_now s <= poll_instant s r1 dl1 <= dl1)%Z /\ (dl1 <= r_born r1 + BUDGET)%Z).
  { intros rid1 r1 k1 dl1 Hr1 Hp1. pose proof (ib_res _ HB _ _ Hr1) as [_ Ht]. rewrite Hp1 in Ht.
    destruct Ht as (Hk & Hd & Hn). unfold poll_instant.
    assert (Z.of_N k1 * RESEND_DELAY <= BUDGET)%Z.
    { unfold BUDGET. apply Z.mul_le_mono_nonneg_r; [pose proof delay_pos; lia | lia]. }
    destruct (ms_table _ _); lia. }
  assert (Htime : time_ok s t0 = true).
  { unfold time_ok. apply andb_true_iff. split.
    - apply Z.leb_le. subst t0. apply (Hnow _ _ _ _ Hr0 Hp0).
    - apply forallb_forall. intros rid1 Hin1. unfold res_time_ok.
      destruct (st_res s rid1) as [r1|] eqn:Hr1; [|reflexivity].
      destruct (r_phase r1) as [k1 dl1|? ? ?] eqn:Hp1; [|reflexivity].
      destruct (H1 rid1 r1 k1 dl1 Hin1 Hr1 Hp1) as (rid2 & t2 & E2 & Hle2).
      rewrite E in E2. inversion E2; subst rid2 t2.
      pose proof (Hnow _ _ _ _ Hr1 Hp1) as [Hb _]. unfold poll_instant in *.
      destruct (ms_table (st_machs s (r_mach r1)) (r_dest r1)).
      + apply andb_true_iff. split; apply Z.leb_le; lia.
      + rewrite andb_true_r. apply Z.leb_le. lia. }
  rewrite Et0 in Htime. destruct (poll_enabled cfg s rid0 r0 k0 dl0 Hr0 Hp0 Htime) as [s' Hs'].
  exists rid0, r0, t0, s'. rewrite Et0. split; [exact Hs'|]. split; [exact Hr0|].
  pose proof (Hnow _ _ _ _ Hr0 Hp0) as [Ha Hb]. pose proof (Hnow _ _ _ _ Hr Hp) as [Hc _].
  rewrite Et0 in Hle. lia.
Qed.

(* ------------------------------------------------------------------ theorems: same answer *)

(* two successful resolutions of the same address agree, whoever and whenever *)
Lemma same_answer_ok cfg s rid1 rid2 r1 r2 mac1 mac2 t1 t2 c1 c2 :
  wf_cfg cfg -> reachable cfg s ->
  st_res s rid1 = Some r1 -> st_res s rid2 = Some r2 -> r_dest r1 = r_dest r2 ->
  r_phase r1 = PDone (SOk mac1) t1 c1 -> r_phase r2 = PDone (SOk mac2) t2 c2 -> mac1 = mac2.
Proof.
  intros Hwf Hre H1 H2 Hd P1 P2.
  destruct (never_wrong _ _ _ _ _ _ _ Hwf Hre H1 P1) as [_ (o1 & Ho1 & -> & _ & Hc1 & _)].
  destruct (never_wrong _ _ _ _ _ _ _ Hwf Hre H2 P2) as [_ (o2 & Ho2 & -> & _ & Hc2 & _)].
  rewrite Hd in Hc1. rewrite (owner_unique cfg Hwf o1 o2 _ Ho1 Ho2 Hc1 Hc2). reflexivity.
Qed.

(* resolvers of one address on one machine agree as long as no cached failure of that address
   was overwritten on that machine *)
Lemma same_answer_unflipped cfg s rid1 rid2 r1 r2 st1 st2 t1 t2 c1 c2 :
  wf_cfg cfg -> reachable cfg s ->
  st_res s rid1 = Some r1 -> st_res s rid2 = Some r2 ->
  r_mach r1 = r_mach r2 -> r_dest r1 = r_dest r2 ->
  r_phase r1 = PDone st1 t1 c1 -> r_phase r2 = PDone st2 t2 c2 -> c1 <> CSend -> c2 <> CSend ->
  ms_flipped (st_machs s (r_mach r1)) (r_dest r1) = false ->
  st1 = st2.
Proof.
  intros Hwf Hre H1 H2 Hm Hd P1 P2 C1 C2 Hf.
  pose proof (Inv_reachable _ _ Hwf Hre) as [_ _ HC _].
  pose proof (HC _ _ _ _ _ H1 P1 C1 Hf) as E1.
  rewrite Hm, Hd in Hf. pose proof (HC _ _ _ _ _ H2 P2 C2 Hf) as E2.
  rewrite Hm, Hd in E1. congruence.
Qed.

(* trace-level form of the hypothesis: no ARP packet of an address reaches a machine that has a
   cached failure for that address (in particular: no reply is still in flight when a budget
   runs out) *)
Definition late_answer (s : state) (l : label) : bool :=
  match l with
  | LDeliver p m =>
      match ms_table (st_machs s m) (pk_sip p) with Some SFailed => true | _ => false end
  | _ => false
  end.

Fixpoint no_late_answer (cfg : config) (s : state) (tr : list (Z * label)) : Prop :=
  match tr with
  | [] => True
  | x :: tr' =>
      late_answer s (snd x) = false /\
      match step cfg s x with Ok s' => no_late_answer cfg s' tr' | _ => True end
  end.

Definition unflipped (s : state) : Prop := forall m ip, ms_flipped (st_machs s m) ip = false.

Lemma unflipped_step cfg s x s' :
  unflipped s -> late_answer s (snd x) = false -> step cfg s x = Ok s' -> unflipped s'.
Proof.
  intros Hu Hl Hstep. destruct x as [t l]. cbn [snd] in Hl.
  apply step_shape_ok in Hstep. destruct Hstep as [_ Hsh]. intros m ip.
  destruct l as [m0 ip0|m0 ip0 sn|m0 rid p slot|rid|p m0|p m0|p m0]; cbn [step_shape] in Hsh.
  - destruct Hsh as (_ & _ & ->). unfold set_mach. cbn [st_machs].
    machs_at m m0; [rewrite listen_flipped|]; apply Hu.
  - destruct Hsh as (_ & _ & ->). unfold set_mach. cbn [st_machs]. machs_at m m0; apply Hu.
  - destruct Hsh as (_ & _ & _ & Hsh). unfold start_shape in Hsh. cbv zeta in Hsh.
    destruct Hsh as (ph & net' & -> & _). cbn [st_machs]. machs_at m m0; [rewrite listen_flipped|]; apply Hu.
  - unfold poll_shape in Hsh. destruct Hsh as (r & k & dl & Hr & Hph & Hsh). cbv zeta in Hsh.
    destruct Hsh as (ph & ms' & net' & -> & Hcases). cbn [st_machs].
    destruct (Nat.eq_dec m (r_mach r)) as [->|Hm]; [rewrite updn_same|rewrite updn_other by exact Hm; apply Hu].
    destruct Hcases as [(st' & _ & _ & -> & _)|[(_ & _ & _ & _ & _ & -> & _)|[(_ & _ & _ & _ & _ & -> & _)|(_ & _ & _ & _ & -> & _)]]];
      apply Hu.
  - destruct Hsh as (net' & _ & ->). cbn [st_machs].
    destruct (Nat.eq_dec m m0) as [->|Hm]; [rewrite updn_same|rewrite updn_other by exact Hm; apply Hu].
    rewrite demux_state. cbn [set_mac ms_flipped]. cbn [late_answer] in Hl.
    destruct (ms_table (st_machs s m0) (pk_sip p)) as [[?|]|]; try apply Hu. discriminate.
  - destruct Hsh as (net' & _ & ->). apply Hu.
  - destruct Hsh as (net' & _ & ->). apply Hu.
Qed.

Lemma unflipped_run cfg tr : forall s s',
  unflipped s -> no_late_answer cfg s tr -> run cfg s tr = Ok s' -> unflipped s'.
Proof.
  induction tr as [|x tr IH]; intros s s' Hu Hn Hrun; cbn [run no_late_answer] in *.
  - inversion Hrun; subst. exact Hu.
  - destruct Hn as [Hl Hn]. destruct (step cfg s x) as [s1| | |] eqn:Hs; cbn [bind] in Hrun; try discriminate.
    apply (IH s1 s'); auto. eapply unflipped_step; eauto.
Qed.

Lemma same_answer cfg tr s rid1 rid2 r1 r2 st1 st2 t1 t2 c1 c2 :
  wf_cfg cfg -> run cfg (init cfg) tr = Ok s -> no_late_answer cfg (init cfg) tr ->
  st_res s rid1 = Some r1 -> st_res s rid2 = Some r2 ->
  r_mach r1 = r_mach r2 -> r_dest r1 = r_dest r2 ->
  r_phase r1 = PDone st1 t1 c1 -> r_phase r2 = PDone st2 t2 c2 -> c1 <> CSend -> c2 <> CSend ->
  st1 = st2.
Proof.
  intros Hwf Hrun Hn H1 H2 Hm Hd P1 P2 C1 C2.
  eapply (same_answer_unflipped cfg s rid1 rid2); eauto.
  - exists tr. exact Hrun.
  - eapply unflipped_run; eauto. intros m ip. reflexivity.
Qed.

(* ------------------------------------------------------------------ witnesses (closed computations) *)

Definition wcfg : config :=
  mkCfg [mkMc 0 [167772161%N] []; mkMc 1 [167772162%N] []] 65535.
Definition wcfg_subnet : config :=
  mkCfg [mkMc 0 [167772161%N] [(167772161%N, mkSn 4294967040 167772162)]; mkMc 1 [167772162%N] []] 65535.

(* recorded from the implementation, case `0 0 | 167772161:-;167772162:- | L 0 0 167772161;L 1 0 167772162;R 1 0 0 167772161 167772162 0 0;R 2 0 100 167772161 167772162 0 0 | d 18:k,19:y200`;
   observed results: 1 err 2000000000 2 ok:1 2000000000 *)
Definition wtrace_race : list (Z * label) :=
  [(0, LListen 0 167772161);
   (0, LListen 1 167772162);
   (0, LStart 0 1 (mkPair 167772161 167772162) 0);
   (0, LDrop (mkPkt Request 0 167772161 69 167772162) 0);
   (0, LDrop (mkPkt Request 0 167772161 69 167772162) 1);
   (100000000, LStart 0 2 (mkPair 167772161 167772162) 0);
   (100000000, LDrop (mkPkt Request 0 167772161 69 167772162) 0);
   (100000000, LDrop (mkPkt Request 0 167772161 69 167772162) 1);
   (200000000, LPoll 1);
   (200000000, LDrop (mkPkt Request 0 167772161 69 167772162) 0);
   (200000000, LDrop (mkPkt Request 0 167772161 69 167772162) 1);
   (300000000, LPoll 2);
   (300000000, LDrop (mkPkt Request 0 167772161 69 167772162) 0);
   (300000000, LDrop (mkPkt Request 0 167772161 69 167772162) 1);
   (400000000, LPoll 1);
   (400000000, LDrop (mkPkt Request 0 167772161 69 167772162) 0);
   (400000000, LDrop (mkPkt Request 0 167772161 69 167772162) 1);
   (500000000, LPoll 2);
   (500000000, LDrop (mkPkt Request 0 167772161 69 167772162) 0);
   (500000000, LDrop (mkPkt Request 0 167772161 69 167772162) 1);
   (600000000, LPoll 1);
   (600000000, LDrop (mkPkt Request 0 167772161 69 167772162) 0);
   (600000000, LDrop (mkPkt Request 0 167772161 69 167772162) 1);
   (700000000, LPoll 2);
   (700000000, LDrop (mkPkt Request 0 167772161 69 167772162) 0);
   (700000000, LDrop (mkPkt Request 0 167772161 69 167772162) 1);
   (800000000, LPoll 1);
   (800000000, LDrop (mkPkt Request 0 167772161 69 167772162) 0);
   (800000000, LDrop (mkPkt Request 0 167772161 69 167772162) 1);
   (900000000, LPoll 2);
   (900000000, LDrop (mkPkt Request 0 167772161 69 167772162) 0);
   (900000000, LDrop (mkPkt Request 0 167772161 69 167772162) 1);
   (1000000000, LPoll 1);
   (1000000000, LDrop (mkPkt Request 0 167772161 69 167772162) 0);
   (1000000000, LDrop (mkPkt Request 0 167772161 69 167772162) 1);
   (1100000000, LPoll 2);
   (1100000000, LDrop (mkPkt Request 0 167772161 69 167772162) 0);
   (1100000000, LDrop (mkPkt Request 0 167772161 69 167772162) 1);
   (1200000000, LPoll 1);
   (1200000000, LDrop (mkPkt Request 0 167772161 69 167772162) 0);
   (1200000000, LDrop (mkPkt Request 0 167772161 69 167772162) 1);
   (1300000000, LPoll 2);
   (1300000000, LDrop (mkPkt Request 0 167772161 69 167772162) 0);
   (1300000000, LDrop (mkPkt Request 0 167772161 69 167772162) 1);
   (1400000000, LPoll 1);
   (1400000000, LDrop (mkPkt Request 0 167772161 69 167772162) 0);
   (1400000000, LDrop (mkPkt Request 0 167772161 69 167772162) 1);
   (1500000000, LPoll 2);
   (1500000000, LDrop (mkPkt Request 0 167772161 69 167772162) 0);
   (1500000000, LDrop (mkPkt Request 0 167772161 69 167772162) 1);
   (1600000000, LPoll 1);
   (1600000000, LDrop (mkPkt Request 0 167772161 69 167772162) 0);
   (1600000000, LDrop (mkPkt Request 0 167772161 69 167772162) 1);
   (1700000000, LPoll 2);
   (1700000000, LDrop (mkPkt Request 0 167772161 69 167772162) 0);
   (1700000000, LDrop (mkPkt Request 0 167772161 69 167772162) 1);
   (1800000000, LPoll 1);
   (1800000000, LDeliver (mkPkt Request 0 167772161 69 167772162) 0);
   (1800000000, LDeliver (mkPkt Request 0 167772161 69 167772162) 1);
   (1900000000, LPoll 2);
   (1900000000, LDrop (mkPkt Request 0 167772161 69 167772162) 0);
   (1900000000, LDrop (mkPkt Request 0 167772161 69 167772162) 1);
   (2000000000, LPoll 1);
   (2000000000, LDeliver (mkPkt Reply 1 167772162 0 167772161) 0);
   (2000000000, LPoll 2)]%Z.

(* recorded from the implementation, case `0 0 | 167772161:167772161/24/167772162;167772162:- | L 0 0 167772161;L 1 0 167772162;R 1 0 0 167772161 167772162 0 0;R 2 0 0 167772161 3232235777 0 0 | k -`;
   observed results: 1 ok:1 0 2 ok:1 0 *)
Definition wtrace_agree : list (Z * label) :=
  [(0, LListen 0 167772161);
   (0, LListen 1 167772162);
   (0, LStart 0 1 (mkPair 167772161 167772162) 0);
   (0, LStart 0 2 (mkPair 167772161 3232235777) 0);
   (0, LDeliver (mkPkt Request 0 167772161 69 167772162) 0);
   (0, LDeliver (mkPkt Request 0 167772161 69 167772162) 1);
   (0, LDeliver (mkPkt Request 0 167772161 69 167772162) 0);
   (0, LDeliver (mkPkt Request 0 167772161 69 167772162) 1);
   (0, LDeliver (mkPkt Reply 1 167772162 0 167772161) 0);
   (0, LDeliver (mkPkt Reply 1 167772162 0 167772161) 0);
   (0, LPoll 1);
   (0, LPoll 2)]%Z.

(* recorded from the implementation, case `0 0 | 167772161:-;167772162:- | L 0 0 167772161;L 1 0 167772162;R 1 0 0 167772161 167772199 0 0 | k -`;
   observed results: 1 err 2000000000 *)
Definition wtrace_unclaimed : list (Z * label) :=
  [(0, LListen 0 167772161);
   (0, LListen 1 167772162);
   (0, LStart 0 1 (mkPair 167772161 167772199) 0);
   (0, LDeliver (mkPkt Request 0 167772161 69 167772199) 0);
   (0, LDeliver (mkPkt Request 0 167772161 69 167772199) 1);
   (200000000, LPoll 1);
   (200000000, LDeliver (mkPkt Request 0 167772161 69 167772199) 0);
   (200000000, LDeliver (mkPkt Request 0 167772161 69 167772199) 1);
   (400000000, LPoll 1);
   (400000000, LDeliver (mkPkt Request 0 167772161 69 167772199) 0);
   (400000000, LDeliver (mkPkt Request 0 167772161 69 167772199) 1);
   (600000000, LPoll 1);
   (600000000, LDeliver (mkPkt Request 0 167772161 69 167772199) 0);
   (600000000, LDeliver (mkPkt Request 0 167772161 69 167772199) 1);
   (800000000, LPoll 1);
   (800000000, LDeliver (mkPkt Request 0 167772161 69 167772199) 0);
   (800000000, LDeliver (mkPkt Request 0 167772161 69 167772199) 1);
   (1000000000, LPoll 1);
   (1000000000, LDeliver (mkPkt Request 0 167772161 69 167772199) 0);
   (1000000000, LDeliver (mkPkt Request 0 167772161 69 167772199) 1);
   (1200000000, LPoll 1);
   (1200000000, LDeliver (mkPkt Request 0 167772161 69 167772199) 0);
   (1200000000, LDeliver (mkPkt Request 0 167772161 69 167772199) 1);
   (1400000000, LPoll 1);
   (1400000000, LDeliver (mkPkt Request 0 167772161 69 167772199) 0);
   (1400000000, LDeliver (mkPkt Request 0 167772161 69 167772199) 1);
   (1600000000, LPoll 1);
   (1600000000, LDeliver (mkPkt Request 0 167772161 69 167772199) 0);
   (1600000000, LDeliver (mkPkt Request 0 167772161 69 167772199) 1);
   (1800000000, LPoll 1);
   (1800000000, LDeliver (mkPkt Request 0 167772161 69 167772199) 0);
   (1800000000, LDeliver (mkPkt Request 0 167772161 69 167772199) 1);
   (2000000000, LPoll 1)]%Z.

(* the unrestricted "concurrent resolvers get the same answer" is false: resolver 1 (born at 0)
   exhausts its budget at 2000 ms and returns Err; the reply to its last request reaches the
   machine at the same instant, after the failure was cached; resolver 2 (born at 100 ms, same
   machine, same address, still waiting) then returns Ok.  Their lifetimes overlap. *)
Lemma same_answer_refuted :
  exists cfg tr s r1 r2 t1 t2 c1 c2 mac,
    wf_cfg cfg /\ run cfg (init cfg) tr = Ok s /\
    st_res s 1%N = Some r1 /\ st_res s 2%N = Some r2 /\
    r_mach r1 = r_mach r2 /\ r_dest r1 = r_dest r2 /\ c1 <> CSend /\ c2 <> CSend /\
    r_phase r1 = PDone SFailed t1 c1 /\ r_phase r2 = PDone (SOk mac) t2 c2 /\
    (r_born r1 < t2)%Z /\ (r_born r2 < t1)%Z.
Proof.
  exists wcfg, wtrace_race. eexists. do 7 eexists.
  split; [vm_compute; reflexivity|].
  split; [vm_compute; reflexivity|].
  split; [vm_compute; reflexivity|].
  split; [vm_compute; reflexivity|].
  cbn [r_mach r_dest r_phase r_born].
  repeat split; try discriminate; reflexivity.
Qed.

(* the hypotheses of the positive theorems are satisfiable: a run without late answers in which
   two concurrent resolvers (one of them sent to the gateway by the /24 subnet rule) both finish *)
Lemma hypotheses_satisfiable :
  wf_cfg wcfg_subnet /\ no_late_answer wcfg_subnet (init wcfg_subnet) wtrace_agree /\
  exists s r1 r2,
    run wcfg_subnet (init wcfg_subnet) wtrace_agree = Ok s /\
    st_res s 1%N = Some r1 /\ st_res s 2%N = Some r2 /\
    r_dest r1 = 167772162%N /\ r_dest r2 = 167772162%N /\ p_remote (r_pair r2) = 3232235777%N /\
    r_phase r1 = PDone (SOk 1) 0 CCache /\ r_phase r2 = PDone (SOk 1) 0 CCache.
Proof.
  split; [vm_compute; reflexivity|].
  split; [vm_compute; repeat split|].
  eexists. do 2 eexists.
  split; [vm_compute; reflexivity|].
  split; [vm_compute; reflexivity|].
  split; [vm_compute; reflexivity|].
  cbn [r_dest r_pair p_remote r_phase]. repeat split.
Qed.

(* an address nobody claims: all ten requests are delivered, nobody answers, Err after exactly
   RESEND_TRIES * RESEND_DELAY *)
Lemma unclaimed_example :
  exists s r,
    run wcfg (init wcfg) wtrace_unclaimed = Ok s /\ st_res s 1%N = Some r /\
    r_phase r = PDone SFailed 2000000000 CBudget /\ r_born r = 0%Z.
Proof.
  eexists. eexists.
  split; [vm_compute; reflexivity|].
  split; [vm_compute; reflexivity|].
  cbn [r_phase r_born]. split; reflexivity.
Qed.

(* ------------------------------------------------------------------ soundness of the validators *)

Lemma run_v_run cfg tr : forall s n s', run_v cfg s tr n = inl s' -> run cfg s tr = Ok s'.
Proof.
  induction tr as [|x tr IH]; intros s n s' H; cbn [run_v run] in *.
  - inversion H. reflexivity.
  - destruct (step cfg s x) as [s1| | |]; try discriminate. cbn [bind]. eapply IH; eauto.
Qed.

Lemma run_v_not_accept cfg tr : forall s n, run_v cfg s tr n <> inr Accept.
Proof.
  induction tr as [|x tr IH]; intros s n; cbn [run_v]; [discriminate|].
  destruct (step cfg s x); try discriminate. apply IH.
Qed.

Lemma status_eqb_eq a b : status_eqb a b = true -> a = b.
Proof.
  destruct a, b; cbn; intros H; try discriminate; [|reflexivity].
  apply N.eqb_eq in H. subst. reflexivity.
Qed.

Lemma find_none_forall {A} (f : A -> bool) l : find f l = None -> forall x, In x l -> f x = false.
Proof. intros H x Hx. eapply find_none; eauto. Qed.

(* an accepted trace is a run of the model from the initial state, on a well-formed
   configuration, whose final state gives every observed resolver exactly the observed result
   and instant, accounts for every resolver and leaves no frame unaccounted *)
Lemma validate_sound cfg tr os :
  validate cfg tr os = Accept ->
  wf_cfg cfg /\
  exists s, run cfg (init cfg) tr = Ok s /\ st_net s = [] /\
    (forall o, In o os -> exists r c, st_res s (o_rid o) = Some r /\
                                      r_phase r = PDone (o_status o) (o_at o) c) /\
    (forall rid, In rid (st_rids s) -> exists o, In o os /\ o_rid o = rid).
Proof.
  unfold validate. destruct (wf_cfgb cfg) eqn:Hwf; cbn [negb]; [|discriminate].
  destruct (run_v cfg (init cfg) tr 0) as [s|v] eqn:Hrun;
    [|intros Hv; subst v; exfalso; eapply run_v_not_accept; eauto].
  destruct (find (fun o => negb (check_obs s o)) os) eqn:Hobs; [discriminate|].
  destruct (find (fun rid => negb (observed os rid)) (st_rids s)) eqn:Hmiss; [discriminate|].
  destruct (st_net s) as [|[p m] rest] eqn:Hnet; [|discriminate].
  intros _. split; [exact Hwf|]. exists s. split; [eapply run_v_run; eauto|]. split; [exact Hnet|]. split.
  - intros o Ho. pose proof (find_none_forall _ _ Hobs o Ho) as Hc. apply negb_false_iff in Hc.
    unfold check_obs in Hc. destruct (st_res s (o_rid o)) as [r|]; [|discriminate].
    destruct (r_phase r) as [|st t c] eqn:Hp; [discriminate|].
    apply andb_true_iff in Hc. destruct Hc as [H1 H2]. apply status_eqb_eq in H1. apply Z.eqb_eq in H2.
    subst. eauto.
  - intros rid Hin. pose proof (find_none_forall _ _ Hmiss rid Hin) as Hc. apply negb_false_iff in Hc.
    unfold observed in Hc. apply existsb_exists in Hc. destruct Hc as (o & Ho & He).
    apply N.eqb_eq in He. eauto.
Qed.

(* what acceptance means for the property: every observed MAC is the MAC of the one machine
   that may claim the looked-up address (which is given by the target rule), every observed
   completion instant lies within the retry budget, and on the exhausted-budget path it is
   exactly RESEND_TRIES * RESEND_DELAY after the start *)
Lemma validate_property cfg tr os :
  validate cfg tr os = Accept ->
  exists s, run cfg (init cfg) tr = Ok s /\
    forall o, In o os ->
      exists r c, st_res s (o_rid o) = Some r /\ r_phase r = PDone (o_status o) (o_at o) c /\
        r_dest r = target (r_sub r) (r_pair r) /\
        (forall mac, o_status o = SOk mac -> owner_mac cfg s (r_dest r) mac) /\
        (r_born r <= o_at o <= r_born r + BUDGET)%Z /\
        (c = CBudget -> o_status o = SFailed /\ o_at o = (r_born r + BUDGET)%Z).
Proof.
  intros H. destruct (validate_sound _ _ _ H) as (Hwf & s & Hrun & _ & Hobs & _).
  exists s. split; [exact Hrun|]. intros o Ho. destruct (Hobs o Ho) as (r & c & Hr & Hp).
  assert (Hre : reachable cfg s) by (exists tr; exact Hrun).
  pose proof (Inv_reachable _ _ Hwf Hre) as [HA HB _ _].
  exists r, c. split; [exact Hr|]. split; [exact Hp|].
  destruct (ia_res _ _ HA _ _ Hr) as (_ & Hd & _ & _). split; [exact Hd|]. split.
  - intros mac E. rewrite E in Hp. eapply never_wrong; eauto.
  - pose proof (ib_res _ HB _ _ Hr) as [_ Ht]. rewrite Hp in Ht. destruct Ht as (H1 & H2 & H3 & _).
    split; [lia|exact H3].
Qed.

Lemma validate_results_sound cfg os :
  validate_results cfg os = true ->
  wf_cfg cfg /\
  forall o mac, In o os -> ro_status o = SOk mac ->
    exists i, (i < n_machs cfg)%nat /\ mac = mac_of cfg i /\
              In (target (ro_sub o) (ro_pair o)) (claims_of cfg i) /\
              forall j, (j < n_machs cfg)%nat -> In (target (ro_sub o) (ro_pair o)) (claims_of cfg j) -> j = i.
Proof.
  unfold validate_results. intros H. apply andb_true_iff in H. destruct H as [Hwf Hall].
  split; [exact Hwf|]. intros o mac Ho Hs. rewrite forallb_forall in Hall. specialize (Hall o Ho).
  unfold check_robs in Hall. rewrite Hs in Hall. apply existsb_eqb_In in Hall.
  unfold owner_macs in Hall. apply in_map_iff in Hall. destruct Hall as (i & He & Hi).
  apply filter_In in Hi. destruct Hi as [Hi Hc]. apply claimsb_In in Hc.
  unfold all_machs in Hi. apply in_seq in Hi.
  exists i. split; [lia|]. split; [auto|]. split; [exact Hc|].
  intros j Hj Hcj. eapply (owner_unique cfg Hwf); eauto. lia.
Qed.

Lemma cached_failure_origin cfg s m ip :
  wf_cfg cfg -> reachable cfg s -> ms_table (st_machs s m) ip = Some SFailed ->
  exists rid r t, st_res s rid = Some r /\ r_mach r = m /\ r_dest r = ip /\
                  r_phase r = PDone SFailed t CBudget.
Proof. intros Hwf Hre. exact (inv_d _ _ (Inv_reachable _ _ Hwf Hre) m ip). Qed.

(* ------------------------------------------------------------------ same answer for concurrent resolvers *)

(* weaker hypothesis, aimed at concurrency: a packet of an address may overwrite a cached
   failure, but not while a resolver of that address is still waiting on that machine *)
Definition waiting_on (s : state) (m : nat) (D : N) (rid : N) : bool :=
  match st_res s rid with
  | Some r =>
      match r_phase r with
      | PWait _ _ => Nat.eqb (r_mach r) m && (r_dest r =? D)%N
      | PDone _ _ _ => false
      end
  | None => false
  end.

Definition late_answer_to_waiter (s : state) (l : label) : bool :=
  match l with
  | LDeliver p m =>
      match ms_table (st_machs s m) (pk_sip p) with
      | Some SFailed => existsb (waiting_on s m (pk_sip p)) (st_rids s)
      | _ => false
      end
  | _ => false
  end.

Fixpoint no_late_answer_to_waiter (cfg : config) (s : state) (tr : list (Z * label)) : Prop :=
  match tr with
  | [] => True
  | x :: tr' =>
      late_answer_to_waiter s (snd x) = false /\
      match step cfg s x with Ok s' => no_late_answer_to_waiter cfg s' tr' | _ => True end
  end.

Definition is_wait (s : state) (rid : N) (m : nat) (D : N) : Prop :=
  exists r k dl, st_res s rid = Some r /\ r_mach r = m /\ r_dest r = D /\ r_phase r = PWait k dl.
Definition is_done (s : state) (rid : N) (m : nat) (D : N) (st : status) : Prop :=
  exists r t c, st_res s rid = Some r /\ r_mach r = m /\ r_dest r = D /\ r_phase r = PDone st t c.

Definition pairQ (s : state) (rid1 rid2 : N) (m : nat) (D : N) : Prop :=
  (exists st, is_done s rid1 m D st /\ is_done s rid2 m D st) \/
  (exists st, ms_table (st_machs s m) D = Some st /\
     (is_wait s rid1 m D \/ is_done s rid1 m D st) /\ (is_wait s rid2 m D \/ is_done s rid2 m D st) /\
     (is_wait s rid1 m D \/ is_wait s rid2 m D)) \/
  (ms_table (st_machs s m) D = None /\ is_wait s rid1 m D /\ is_wait s rid2 m D).

Lemma is_wait_frame s s' rid m D : st_res s' rid = st_res s rid -> is_wait s rid m D -> is_wait s' rid m D.
Proof. intros E (r & k & dl & H). exists r, k, dl. rewrite E. exact H. Qed.
Lemma is_done_frame s s' rid m D st : st_res s' rid = st_res s rid -> is_done s rid m D st -> is_done s' rid m D st.
Proof. intros E (r & t & c & H). exists r, t, c. rewrite E. exact H. Qed.

Lemma pairQ_exists s rid1 rid2 m D :
  pairQ s rid1 rid2 m D -> st_res s rid1 <> None /\ st_res s rid2 <> None.
Proof.
  assert (W : forall rid, is_wait s rid m D -> st_res s rid <> None)
    by (intros rid (r & k & dl & H & _); congruence).
  assert (Dn : forall rid st, is_done s rid m D st -> st_res s rid <> None)
    by (intros rid st (r & t & c & H & _); congruence).
  intros [(st & H1 & H2)|[(st & _ & H1 & H2 & _)|(_ & H1 & H2)]]; split; eauto;
    try (destruct H1; eauto); try (destruct H2; eauto).
Qed.

Lemma pairQ_frame s s' rid1 rid2 m D :
  st_res s' rid1 = st_res s rid1 -> st_res s' rid2 = st_res s rid2 ->
  ms_table (st_machs s' m) D = ms_table (st_machs s m) D ->
  pairQ s rid1 rid2 m D -> pairQ s' rid1 rid2 m D.
Proof.
  intros E1 E2 Et.
  pose proof (is_wait_frame s s' rid1 m D E1) as W1. pose proof (is_wait_frame s s' rid2 m D E2) as W2.
  pose proof (fun st => is_done_frame s s' rid1 m D st E1) as D1.
  pose proof (fun st => is_done_frame s s' rid2 m D st E2) as D2.
  intros [(st & H1 & H2)|[(st & Ht & H1 & H2 & H3)|(Ht & H1 & H2)]].
  - left. exists st. auto.
  - right. left. exists st. rewrite Et. split; [exact Ht|].
    split; [destruct H1; auto|]. split; [destruct H2; auto|]. destruct H3; auto.
  - right. right. rewrite Et. auto.
Qed.

Lemma waiting_on_true s rid m D : is_wait s rid m D -> waiting_on s m D rid = true.
Proof.
  intros (r & k & dl & Hr & Hm & Hd & Hp). unfold waiting_on. rewrite Hr, Hp, Hm, Hd.
  rewrite Nat.eqb_refl, N.eqb_refl. reflexivity.
Qed.

Lemma wait_not_done s rid m D st : is_wait s rid m D -> is_done s rid m D st -> False.
Proof. intros (r & k & dl & Hr & _ & _ & Hp) (r' & t & c & Hr' & _ & _ & Hp'). congruence. Qed.

Lemma is_done_intro s rid r m D st t c :
  st_res s rid = Some r -> r_mach r = m -> r_dest r = D -> r_phase r = PDone st t c -> is_done s rid m D st.
Proof. intros. exists r, t, c. auto. Qed.
Lemma is_wait_intro s rid r m D k dl :
  st_res s rid = Some r -> r_mach r = m -> r_dest r = D -> r_phase r = PWait k dl -> is_wait s rid m D.
Proof. intros. exists r, k, dl. auto. Qed.

Lemma pairQ_step cfg s x s' rid1 rid2 m D :
  wf_cfg cfg -> (ARP_SIZE <= cfg_mtu cfg)%N -> Inv cfg s -> rid1 <> rid2 ->
  late_answer_to_waiter s (snd x) = false -> step cfg s x = Ok s' ->
  pairQ s rid1 rid2 m D -> pairQ s' rid1 rid2 m D.
Proof.
  intros Hwf Hmtu [HA HB _ _] Hne Hlate Hstep HQ. destruct x as [t l]. cbn [snd] in Hlate.
  destruct (pairQ_exists _ _ _ _ _ HQ) as [Hex1 Hex2].
  apply step_shape_ok in Hstep. destruct Hstep as [_ Hsh].
  destruct l as [m0 ip0|m0 ip0 sn|m0 rid0 p slot|rid0|p m0|p m0|p m0]; cbn [step_shape] in Hsh.
  - destruct Hsh as (_ & _ & ->). apply (pairQ_frame s); auto. unfold set_mach. cbn [st_machs].
    machs_at m m0; [rewrite listen_table|]; reflexivity.
  - destruct Hsh as (_ & _ & ->). apply (pairQ_frame s); auto. unfold set_mach. cbn [st_machs].
    machs_at m m0; reflexivity.
  - destruct Hsh as (_ & _ & Hfresh & Hsh). unfold start_shape in Hsh. cbv zeta in Hsh.
    destruct Hsh as (ph & net' & -> & _). apply (pairQ_frame s); cbn [st_res st_machs].
    + apply upd_other. congruence.
    + apply upd_other. congruence.
    + machs_at m m0; [rewrite listen_table|]; reflexivity.
    + exact HQ.
  - (* poll *)
    unfold poll_shape in Hsh. destruct Hsh as (r0 & k & dl & Hr0 & Hph & Hsh). cbv zeta in Hsh.
    destruct Hsh as (ph & ms' & net' & Es & Hcases).
    assert (Hother : forall rid, rid <> rid0 -> st_res s' rid = st_res s rid).
    { intros rid Hn. subst s'. cbn [st_res]. apply upd_other. exact Hn. }
    assert (Hself : st_res s' rid0 = Some (mkRes (r_mach r0) (r_pair r0) (r_sub r0) (r_dest r0) (r_born r0) ph)).
    { subst s'. cbn [st_res]. apply upd_same. }
    assert (Htab : st_machs s' (r_mach r0) = ms' /\ forall m1, m1 <> r_mach r0 -> st_machs s' m1 = st_machs s m1).
    { subst s'. cbn [st_machs]. split; [apply updn_same | intros; apply updn_other; assumption]. }
    destruct Htab as [Htab1 Htab2].
    (* the table entry (m, D) changes only by the final timeout of a resolver of (m, D) *)
    assert (Hsame : ~ (r_mach r0 = m /\ r_dest r0 = D /\ ph = PDone SFailed t CBudget) ->
                    ms_table (st_machs s' m) D = ms_table (st_machs s m) D).
    { intros Hn. destruct (Nat.eq_dec m (r_mach r0)) as [Em|Em]; [|rewrite Htab2 by exact Em; reflexivity].
      subst m. rewrite Htab1.
      destruct Hcases as [(st' & _ & _ & -> & _)|[(_ & _ & _ & _ & _ & -> & _)|[(_ & _ & _ & _ & _ & -> & _)|(_ & _ & _ & Ep & -> & _)]]];
        try reflexivity.
      cbn [fail_mac ms_table]. apply upd_other. intros Ed. apply Hn. auto. }
    destruct (N.eq_dec rid0 rid1) as [E1|N1]; [|destruct (N.eq_dec rid0 rid2) as [E2|N2]].
    + (* rid1 is polled *)
      subst rid0. assert (N2 : rid2 <> rid1) by congruence.
      pose proof (Hother rid2 N2) as O2.
      assert (W1 : is_wait s rid1 m D).
      { destruct HQ as [(st & (r & t1 & c1 & Hr & _ & _ & Hp) & _)|[(st & _ & [H|(r & t1 & c1 & Hr & _ & _ & Hp)] & _)|(_ & H & _)]];
          try exact H; congruence. }
      destruct W1 as (r1 & k1 & dl1 & Hr1 & Hm1 & Hd1 & Hp1). rewrite Hr0 in Hr1. inversion Hr1; subst r1.
      destruct HQ as [(st & H1 & _)|[(st & Ht & _ & H2 & _)|(Ht & _ & H2)]].
      * exfalso. eapply wait_not_done; [|exact H1]. exists r0, k, dl. auto.
      * (* table has st: rid1 returns st *)
        rewrite <- Hm1, <- Hd1 in Ht.
        destruct Hcases as [(st' & Htab & Ep & Ems & _)|[(Htab & _)|[(Htab & _)|(Htab & _)]]]; try congruence.
        rewrite Ht in Htab. inversion Htab; subst st'.
        assert (D1 : is_done s' rid1 m D st).
        { eapply is_done_intro; [exact Hself|exact Hm1|exact Hd1|exact Ep]. }
        assert (Et : ms_table (st_machs s' m) D = Some st).
        { rewrite Hsame; [rewrite <- Hm1, <- Hd1; exact Ht|]. intros (_ & _ & E). rewrite Ep in E. discriminate. }
        destruct H2 as [W2|D2].
        -- right. left. exists st. split; [exact Et|]. split; [right; exact D1|].
           split; [left; eapply is_wait_frame; eauto|]. right. eapply is_wait_frame; eauto.
        -- left. exists st. split; [exact D1|]. eapply is_done_frame; eauto.
      * (* table empty: a timeout of rid1 *)
        rewrite <- Hm1, <- Hd1 in Ht.
        destruct Hcases as [(st' & Htab & _)|[(_ & _ & _ & Hlt & _)|[(_ & _ & _ & _ & Ep & Ems & _)|(_ & _ & _ & Ep & Ems & _)]]];
          try congruence; try (unfold ARP_SIZE in *; lia).
        -- right. right. split.
           ++ rewrite Hsame; [rewrite <- Hm1, <- Hd1; exact Ht|]. intros (_ & _ & E). rewrite Ep in E. discriminate.
           ++ split; [|eapply is_wait_frame; eauto].
              eapply is_wait_intro; [exact Hself|exact Hm1|exact Hd1|exact Ep].
        -- right. left. exists SFailed. split.
           ++ rewrite <- Hm1, Htab1, Ems, <- Hd1. cbn [fail_mac ms_table]. apply upd_same.
           ++ split; [right; eapply is_done_intro; [exact Hself|exact Hm1|exact Hd1|exact Ep]|].
              split; [left; eapply is_wait_frame; eauto|]. right. eapply is_wait_frame; eauto.
    + (* rid2 is polled *)
      subst rid0. pose proof (Hother rid1 Hne) as O1.
      assert (W2 : is_wait s rid2 m D).
      { destruct HQ as [(st & _ & (r & t1 & c1 & Hr & _ & _ & Hp))|[(st & _ & _ & [H|(r & t1 & c1 & Hr & _ & _ & Hp)] & _)|(_ & _ & H)]];
          try exact H; congruence. }
      destruct W2 as (r2 & k2 & dl2 & Hr2 & Hm2 & Hd2 & Hp2). rewrite Hr0 in Hr2. inversion Hr2; subst r2.
      destruct HQ as [(st & _ & H2)|[(st & Ht & H1 & _ & _)|(Ht & H1 & _)]].
      * exfalso. eapply wait_not_done; [|exact H2]. exists r0, k, dl. auto.
      * rewrite <- Hm2, <- Hd2 in Ht.
        destruct Hcases as [(st' & Htab & Ep & Ems & _)|[(Htab & _)|[(Htab & _)|(Htab & _)]]]; try congruence.
        rewrite Ht in Htab. inversion Htab; subst st'.
        assert (D2 : is_done s' rid2 m D st).
        { eapply is_done_intro; [exact Hself|exact Hm2|exact Hd2|exact Ep]. }
        assert (Et : ms_table (st_machs s' m) D = Some st).
        { rewrite Hsame; [rewrite <- Hm2, <- Hd2; exact Ht|]. intros (_ & _ & E). rewrite Ep in E. discriminate. }
        destruct H1 as [W1|D1].
        -- right. left. exists st. split; [exact Et|]. split; [left; eapply is_wait_frame; eauto|].
           split; [right; exact D2|]. left. eapply is_wait_frame; eauto.
        -- left. exists st. split; [eapply is_done_frame; eauto|exact D2].
      * rewrite <- Hm2, <- Hd2 in Ht.
        destruct Hcases as [(st' & Htab & _)|[(_ & _ & _ & Hlt & _)|[(_ & _ & _ & _ & Ep & Ems & _)|(_ & _ & _ & Ep & Ems & _)]]];
          try congruence; try (unfold ARP_SIZE in *; lia).
        -- right. right. split.
           ++ rewrite Hsame; [rewrite <- Hm2, <- Hd2; exact Ht|]. intros (_ & _ & E). rewrite Ep in E. discriminate.
           ++ split; [eapply is_wait_frame; eauto|].
              eapply is_wait_intro; [exact Hself|exact Hm2|exact Hd2|exact Ep].
        -- right. left. exists SFailed. split.
           ++ rewrite <- Hm2, Htab1, Ems, <- Hd2. cbn [fail_mac ms_table]. apply upd_same.
           ++ split; [left; eapply is_wait_frame; eauto|].
              split; [right; eapply is_done_intro; [exact Hself|exact Hm2|exact Hd2|exact Ep]|].
              left. eapply is_wait_frame; eauto.
    + (* a third resolver is polled *)
      assert (O1 : st_res s' rid1 = st_res s rid1) by (apply Hother; congruence).
      assert (O2 : st_res s' rid2 = st_res s rid2) by (apply Hother; congruence).
      destruct (Nat.eq_dec (r_mach r0) m) as [Em|Em];
        [destruct (N.eq_dec (r_dest r0) D) as [Ed|Ed]|];
        try (apply (pairQ_frame s); auto; apply Hsame; intros (? & ? & ?); contradiction).
      destruct Hcases as [(st' & _ & Ep & _)|[(_ & _ & _ & _ & Ep & _)|[(_ & _ & _ & _ & Ep & _)|(Htab & _ & _ & Ep & Ems & _)]]];
        try (apply (pairQ_frame s); auto; apply Hsame; intros (_ & _ & E); rewrite Ep in E; discriminate).
      rewrite Em, Ed in Htab.
      assert (Et : ms_table (st_machs s' m) D = Some SFailed).
      { rewrite <- Em, Htab1, Ems, <- Ed. cbn [fail_mac ms_table]. apply upd_same. }
      destruct HQ as [(st & H1 & H2)|[(st & Ht & _)|(_ & H1 & H2)]].
      * left. exists st. split; eapply is_done_frame; eauto.
      * congruence.
      * right. left. exists SFailed. split; [exact Et|].
        split; [left; eapply is_wait_frame; eauto|]. split; [left; eapply is_wait_frame; eauto|].
        left. eapply is_wait_frame; eauto.
  - (* deliver *)
    destruct Hsh as (net' & Hrm & ->). apply remove1_In in Hrm. destruct Hrm as [Hin _].
    destruct (ia_net _ _ HA _ _ Hin) as [Htr _].
    assert (Hchg : ~ (m0 = m /\ pk_sip p = D) ->
              ms_table (updn (st_machs s) m0 (fst (demux cfg m0 (st_machs s m0) p)) m) D = ms_table (st_machs s m) D).
    { intros Hn. destruct (Nat.eq_dec m m0) as [Em|Em]; [|rewrite updn_other by exact Em; reflexivity].
      subst m0. rewrite updn_same, demux_state. cbn [set_mac ms_table]. apply upd_other. intros Ed. apply Hn. auto. }
    destruct (Nat.eq_dec m0 m) as [Em|Em]; [destruct (N.eq_dec (pk_sip p) D) as [Ed|Ed]|];
      try (apply (pairQ_frame s); auto; cbn [st_machs]; apply Hchg; intros (? & ?); contradiction).
    subst m0 D.
    assert (Et : forall net, ms_table (st_machs (mkSt t (updn (st_machs s) m (fst (demux cfg m (st_machs s m) p)))
                                       (st_res s) (st_rids s) net) m) (pk_sip p) = Some (SOk (pk_smac p))).
    { intros net. cbn [st_machs]. rewrite updn_same, demux_state. cbn [set_mac ms_table]. apply upd_same. }
    destruct HQ as [(st & H1 & H2)|[(st & Ht & H1 & H2 & H3)|(Ht & H1 & H2)]].
    + left. exists st. split; eapply is_done_frame; eauto.
    + assert (Est : st = SOk (pk_smac p)).
      { destruct st as [mac|].
        - f_equal. eapply truthful_unique; eauto. eapply ia_table; eauto.
        - exfalso. cbn [late_answer_to_waiter] in Hlate. rewrite Ht in Hlate.
          assert (Hw : exists rid, In rid (st_rids s) /\ waiting_on s m (pk_sip p) rid = true).
          { destruct H3 as [W|W]; [exists rid1|exists rid2]; (split; [|apply waiting_on_true; exact W]);
              destruct W as (r & ? & ? & Hr & _); eapply ib_rids; eauto. }
          destruct Hw as (rid & Hi & Hw).
          assert (existsb (waiting_on s m (pk_sip p)) (st_rids s) = true)
            by (apply existsb_exists; exists rid; auto).
          congruence. }
      subst st. right. left. exists (SOk (pk_smac p)). split; [apply Et|].
      split; [destruct H1; [left; eapply is_wait_frame; eauto | right; eapply is_done_frame; eauto]|].
      split; [destruct H2; [left; eapply is_wait_frame; eauto | right; eapply is_done_frame; eauto]|].
      destruct H3; [left|right]; eapply is_wait_frame; eauto.
    + right. left. exists (SOk (pk_smac p)). split; [apply Et|].
      split; [left; eapply is_wait_frame; eauto|]. split; [left; eapply is_wait_frame; eauto|].
      left. eapply is_wait_frame; eauto.
  - destruct Hsh as (net' & _ & ->). apply (pairQ_frame s); auto.
  - destruct Hsh as (net' & _ & ->). apply (pairQ_frame s); auto.
Qed.

Lemma pairQ_run cfg tr : forall s s' rid1 rid2 m D,
  wf_cfg cfg -> (ARP_SIZE <= cfg_mtu cfg)%N -> Inv cfg s -> rid1 <> rid2 ->
  no_late_answer_to_waiter cfg s tr -> run cfg s tr = Ok s' ->
  pairQ s rid1 rid2 m D -> pairQ s' rid1 rid2 m D.
Proof.
  induction tr as [|x tr IH]; intros s s' rid1 rid2 m D Hwf Hmtu HI Hne Hn Hrun HQ;
    cbn [run no_late_answer_to_waiter] in *.
  - inversion Hrun; subst. exact HQ.
  - destruct Hn as [Hl Hn]. destruct (step cfg s x) as [s1| | |] eqn:Hs; cbn [bind] in Hrun; try discriminate.
    apply (IH s1 s' rid1 rid2 m D Hwf Hmtu); auto.
    + eapply Inv_step; eauto.
    + eapply pairQ_step; eauto.
Qed.

(* two resolvers of one address on one machine that are waiting at the same moment finish with
   the same answer, provided no packet of that address overwrites a cached failure while a
   resolver of it is still waiting there *)
Lemma same_answer_concurrent cfg sa tr s rid1 rid2 m D st1 st2 :
  wf_cfg cfg -> (ARP_SIZE <= cfg_mtu cfg)%N -> reachable cfg sa -> rid1 <> rid2 ->
  is_wait sa rid1 m D -> is_wait sa rid2 m D ->
  run cfg sa tr = Ok s -> no_late_answer_to_waiter cfg sa tr ->
  is_done s rid1 m D st1 -> is_done s rid2 m D st2 -> st1 = st2.
Proof.
  intros Hwf Hmtu Hre Hne W1 W2 Hrun Hn D1 D2.
  pose proof (Inv_reachable _ _ Hwf Hre) as HI.
  assert (HQ : pairQ sa rid1 rid2 m D).
  { destruct (ms_table (st_machs sa m) D) as [st|] eqn:Ht.
    - right. left. exists st. auto.
    - right. right. auto. }
  pose proof (pairQ_run cfg tr sa s rid1 rid2 m D Hwf Hmtu HI Hne Hn Hrun HQ) as HQ'.
  assert (Hfun : forall rid a b, is_done s rid m D a -> is_done s rid m D b -> a = b).
  { intros rid a b (r & t & c & Hr & _ & _ & Hp) (r' & t' & c' & Hr' & _ & _ & Hp'). congruence. }
  destruct HQ' as [(st & H1 & H2)|[(st & _ & _ & _ & [W|W])|(_ & W & _)]].
  - rewrite (Hfun _ _ _ D1 H1), (Hfun _ _ _ D2 H2). reflexivity.
  - exfalso. eapply wait_not_done; eauto.
  - exfalso. eapply wait_not_done; eauto.
  - exfalso. eapply wait_not_done; eauto.
Qed.

(* the hypotheses of same_answer_concurrent are satisfiable: after the first four labels of the
   recorded run both resolvers are waiting; the rest of the run has no late answer to a waiter *)
Lemma concurrent_hypotheses_satisfiable :
  exists sa s,
    run wcfg_subnet (init wcfg_subnet) (firstn 4 wtrace_agree) = Ok sa /\
    is_wait sa 1%N 0%nat 167772162%N /\ is_wait sa 2%N 0%nat 167772162%N /\
    run wcfg_subnet sa (skipn 4 wtrace_agree) = Ok s /\
    no_late_answer_to_waiter wcfg_subnet sa (skipn 4 wtrace_agree) /\
    is_done s 1%N 0%nat 167772162%N (SOk 1) /\ is_done s 2%N 0%nat 167772162%N (SOk 1).
Proof.
  eexists. eexists.
  split; [vm_compute; reflexivity|].
  split; [eexists _, _, _; vm_compute; repeat split|].
  split; [eexists _, _, _; vm_compute; repeat split|].
  split; [vm_compute; reflexivity|].
  split; [vm_compute; repeat split|].
  split; eexists _, _, _; vm_compute; repeat split.
Qed.
