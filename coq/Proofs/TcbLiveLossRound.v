(* C01 liveness: a write whose flight loses its tail (any number of trailing segments, up to the
   whole flight) is repaired by the retransmission timeout within two loss-free rounds. *)
From Elvis Require Import Model.Base Model.U32 Model.Tcb Model.TcpNet
  Proofs.U32Facts Proofs.TcbSafetyDefs Proofs.TcbSafetyBase Proofs.TcbSafetySnd Proofs.TcbSafetyRcv
  Proofs.TcbSafetySys Proofs.TcbLive Proofs.TcbLiveSys Proofs.TcbLiveThm
  Proofs.TcbLiveWin Proofs.TcbLiveWinSys Proofs.TcbLiveWinThm Proofs.TcbLiveWinRound
  Proofs.TcbLiveLoss Proofs.TcbLiveLossThm.
From Coq Require Import ZifyBool.
Local Open Scope Z_scope.
Ltac Zify.zify_post_hook ::= Z.div_mod_to_equations.

(* x has a flight pre ++ suf outstanding; only pre is still in the network *)
Definition InFlight (c : config) (x : side) (s : sys) (p q R lp rp : Z) (pre suf : list segment) : Prop :=
  exists tx ty, end_of s x = ELive tx /\ end_of s (other x) = ELive ty /\
    sending tx p R q (pre ++ suf) [] /\ flight lp rp q p (pre ++ suf) /\ pre ++ suf <> [] /\
    quiet ty q p /\ mtu tx = mtu_of c x /\ mtu ty = mtu_of c (other x) /\
    net_of s x = pre /\ net_of s (other x) = [] /\ panicked s = false.

(* drop the last in-flight segment, j times *)
Fixpoint drops (x : side) (len j : nat) : list label :=
  match j with
  | O => []
  | Datatypes.S j' => LDrop x (len - 1) :: drops x (len - 1) j'
  end.

Lemma remove_nth_last {A} (l : list A) (e : A) : remove_nth (l ++ [e]) (length l) = l.
Proof. induction l as [|a l IH]; cbn [app length remove_nth]; [reflexivity|now rewrite IH]. Qed.

Section LossRound.
  Variable c : config.

  Lemma ldrop_step s x i n : panicked s = false -> net_of s x = n -> n <> [] ->
    fst (sys_step c s (LDrop x i)) = set_net s x (remove_nth n (Nat.modulo i (length n))).
  Proof.
    intros Pn Hn Hne. unfold sys_step. rewrite Pn, Hn. destruct n; [congruence|reflexivity].
  Qed.

  Lemma lemit_step s x t t1 segs : panicked s = false -> end_of s x = ELive t ->
    tcb_segments t = Ok (t1, segs) ->
    fst (sys_step c s (LEmit x)) = set_net (set_end s x (ELive t1)) x (net_of s x ++ segs).
  Proof.
    intros Pn El Es. unfold sys_step. rewrite Pn, El. rewrite (emit_eval s x t t1 segs El Es). reflexivity.
  Qed.

  (* after the write has been emitted, the whole flight is in the network *)
  Lemma emit_inflight s x p q bytes : WriterState c x s p q bytes -> 0 < zlen bytes <= 65535 ->
    let s' := fst (sys_step c s (LEmit x)) in
    exists lp rp segs, InFlight c x s' p q (wadd p (zlen bytes)) lp rp segs [] /\
      flight_bytes segs = bytes /\ (forall y, sub_of s' y = sub_of s y) /\ (forall y, del_of s' y = del_of s y).
  Proof.
    intros (tx & ty & Ex & Ey & Wx & Qy & Mx & My & Nx & Ny & Pn) Hn s'.
    pose proof Wx as (W1 & W2 & W3 & W4 & W5 & W6 & W7 & W8 & W9 & W10 & W11 & W12 & W13 & W14 & W15 & W16 & W17).
    destruct (segments_flight tx bytes W1 W9 W8 W7 W10 W5 W6 ltac:(congruence) ltac:(rewrite W3; exact W15) W17 ltac:(lia))
      as (segs & E1 & F & B & Hne).
    cbv zeta in E1, B. replace (Z.min (zlen bytes) 65535) with (zlen bytes) in E1, B by lia.
    unfold zlen in B at 1. rewrite Nat2Z.id, firstn_all in B.
    assert (Hsk : skipn (Z.to_nat (zlen bytes)) bytes = []) by (unfold zlen; rewrite Nat2Z.id; apply skipn_all).
    rewrite Hsk in E1. set (tx1 := set_rto _ RTO) in E1.
    subst s'. rewrite (lemit_step s x tx tx1 segs Pn Ex E1). rewrite Nx. cbn [app].
    rewrite W3, W4 in F.
    assert (Hfl : flight_len segs = zlen bytes) by (unfold flight_len; now rewrite B).
    exists (lport tx), (rport tx), segs. splits.
    - exists tx1, ty. rewrite app_nil_r. sysr. splits; auto.
      + unfold sending. subst tx1. tcb_simpl. splits; try assumption; try reflexivity; try congruence; try lia.
        all: try (exists (lport tx), (rport tx), q; exact F).
        all: try (now rewrite Hfl).
    - exact B.
    - intros y. now sysr.
    - intros y. now sysr.
  Qed.

  Lemma drop_last_inflight s x p q R lp rp pre1 e suf :
    InFlight c x s p q R lp rp (pre1 ++ [e]) suf ->
    let s' := fst (sys_step c s (LDrop x (length (pre1 ++ [e]) - 1))) in
    InFlight c x s' p q R lp rp pre1 (e :: suf) /\
    (forall y, sub_of s' y = sub_of s y) /\ (forall y, del_of s' y = del_of s y).
  Proof.
    intros (tx & ty & Ex & Ey & HS & F & Hne & Qy & Mx & My & Nx & Ny & Pn) s'.
    assert (Hne1 : pre1 ++ [e] <> []) by (destruct pre1; discriminate).
    subst s'. rewrite (ldrop_step s x _ _ Pn Nx Hne1).
    rewrite app_length. cbn [length].
    replace (length pre1 + 1 - 1)%nat with (length pre1) by lia.
    rewrite Nat.mod_small by lia. rewrite remove_nth_last.
    assert (Eapp : (pre1 ++ [e]) ++ suf = pre1 ++ e :: suf) by (now rewrite <- app_assoc).
    rewrite Eapp in *.
    splits.
    - exists tx, ty. sysr. splits; auto.
    - intros y. now sysr.
    - intros y. now sysr.
  Qed.

  Lemma drops_inflight : forall j s x p q R lp rp pre suf,
    InFlight c x s p q R lp rp pre suf -> (j <= length pre)%nat ->
    let s' := run c s (drops x (length pre) j) in
    (exists pre' suf', InFlight c x s' p q R lp rp pre' suf' /\ pre' ++ suf' = pre ++ suf) /\
    (forall y, sub_of s' y = sub_of s y) /\ (forall y, del_of s' y = del_of s y).
  Proof.
    induction j as [|j IH]; intros s x p q R lp rp pre suf HI Hj s'.
    - subst s'. cbn [drops run fold_left]. splits; auto. exists pre, suf. auto.
    - destruct (exists_last (l := pre)) as (pre1 & e & ->); [destruct pre; [cbn in Hj; lia|discriminate]|].
      destruct (drop_last_inflight s x p q R lp rp pre1 e suf HI) as (HI1 & S1 & D1).
      cbv zeta in *. subst s'. cbn [drops].
      change (run c s (LDrop x (length (pre1 ++ [e]) - 1) :: drops x (length (pre1 ++ [e]) - 1) j))
        with (run c (fst (sys_step c s (LDrop x (length (pre1 ++ [e]) - 1)))) (drops x (length (pre1 ++ [e]) - 1) j)).
      set (s1 := fst (sys_step c s (LDrop x (length (pre1 ++ [e]) - 1)))) in *.
      assert (El : (length (pre1 ++ [e]) - 1 = length pre1)%nat) by (rewrite app_length; cbn; lia).
      rewrite El.
      destruct (IH s1 x p q R lp rp pre1 (e :: suf) HI1) as ((pre' & suf' & HI2 & Eq) & S2 & D2).
      { rewrite app_length in Hj. cbn in Hj. lia. }
      cbv zeta in *. splits.
      + exists pre', suf'. split; [exact HI2|]. rewrite Eq, <- app_assoc. reflexivity.
      + intros y. rewrite S2. apply S1.
      + intros y. rewrite D2. apply D1.
  Qed.

  (* two loss-free rounds repair the loss *)
  Lemma inflight_recover s x p q R lp rp pre suf :
    InFlight c x s p q R lp rp pre suf ->
    let s' := fair_rounds 2 c s in
    Quiescent c s' (sel x R q) (sel x q R) /\
    (forall y, sub_of s' y = sub_of s y) /\ del_of s' x = del_of s x /\
    delivered s' (other x) = delivered s (other x) ++ flight_bytes (pre ++ suf).
  Proof.
    intros (tx & ty & Ex & Ey & HS & F & Hne & Qy & Mx & My & Nx & Ny & Pn) s'.
    assert (Hmain : exists s3 tx' ty', s' = s3 /\
      end_of s3 x = ELive tx' /\ end_of s3 (other x) = ELive ty' /\
      net_of s3 x = [] /\ net_of s3 (other x) = [] /\ panicked s3 = false /\
      (forall y, sub_of s3 y = sub_of s y) /\ del_of s3 x = del_of s x /\
      del_of s3 (other x) = del_of s (other x) ++ [flight_bytes (pre ++ suf)] /\
      quiet tx' R q /\ quiet ty' q R /\ mtu tx' = mtu_of c x /\ mtu ty' = mtu_of c (other x)).
    { subst s'. cbn [fair_rounds]. destruct x; cbn [other] in *.
      - destruct (half_send_loss c s SA tx ty p q R lp rp pre suf Ex Ey Nx Ny Pn HS F Hne Qy)
          as (tx2 & ty2 & E1 & E2 & E3 & E4 & E5 & E6 & E7 & E8 & E9 & E10 & E11 & E12).
        set (s2 := fair_half c s SA) in *. cbn [other] in *.
        destruct (half_ack_loss c s2 SB ty2 tx2 p q R pre suf E2 E1 E4 E3 E5 E10 E9)
          as (ty3 & tx3 & F1 & F2 & F3 & F4 & F5 & F6 & F7 & F8 & F9 & F10 & F11).
        set (s3 := fair_half c s2 SB) in *. cbn [other] in *.
        rewrite (half_idle c s3 SA tx3 ty3 _ _ F2 F9 F4 F1 (quiet_in_text _ _ _ F8)).
        rewrite (half_idle c s3 SB ty3 tx3 _ _ F1 F8 F3 F2 (quiet_in_text _ _ _ F9)).
        exists s3, tx3, ty3. splits; auto.
        + intros y. rewrite F6. apply E6.
        + rewrite (F7 SA). exact E7.
        + rewrite (F7 SB). exact E8.
        + congruence.
        + congruence.
      - assert (Hit : in_text tx = []) by apply HS.
        rewrite (half_idle c s SA ty tx _ _ Ey Qy Ny Ex Hit).
        destruct (half_send_loss c s SB tx ty p q R lp rp pre suf Ex Ey Nx Ny Pn HS F Hne Qy)
          as (tx2 & ty2 & E1 & E2 & E3 & E4 & E5 & E6 & E7 & E8 & E9 & E10 & E11 & E12).
        set (s2 := fair_half c s SB) in *. cbn [other] in *.
        destruct (half_ack_loss c s2 SA ty2 tx2 p q R pre suf E2 E1 E4 E3 E5 E10 E9)
          as (ty3 & tx3 & F1 & F2 & F3 & F4 & F5 & F6 & F7 & F8 & F9 & F10 & F11).
        set (s3 := fair_half c s2 SA) in *. cbn [other] in *.
        rewrite (half_idle c s3 SB tx3 ty3 _ _ F2 F9 F4 F1 (quiet_in_text _ _ _ F8)).
        exists s3, tx3, ty3. splits; auto.
        + intros y. rewrite F6. apply E6.
        + rewrite (F7 SB). exact E7.
        + rewrite (F7 SA). exact E8.
        + congruence.
        + congruence. }
    destruct Hmain as (s3 & tx' & ty' & -> & G1 & G2 & G3 & G4 & G5 & G6 & G7 & G8 & G9 & G10 & G11 & G12).
    split; [eapply quiescent_from; eassumption|].
    splits; auto. unfold delivered. rewrite G8, concat_app. cbn [concat]. now rewrite app_nil_r.
  Qed.

  Theorem tail_loss_recovery s a b x bytes :
    Quiescent c s a b -> 0 < zlen bytes <= 65535 ->
    let n := zlen bytes in
    let s1 := run c s [LSend x bytes; LEmit x] in
    let nseg := length (net_of s1 x) in
    forall j, (j <= nseg)%nat ->
    let s' := run c s1 (drops x nseg j ++ [LFair 2]) in
    Quiescent c s' (sel x (wadd a n) a) (sel x b (wadd b n)) /\
    sub_of s' x = sub_of s x ++ bytes /\ sub_of s' (other x) = sub_of s (other x) /\
    delivered s' (other x) = delivered s (other x) ++ bytes /\ del_of s' x = del_of s x.
  Proof.
    intros HQ Hn n s1 nseg j Hj s'.
    destruct (quiescent_at c s a b x HQ) as (tx & ty & Ex & Ey & Qx & Qy & Mx & My & Nx & Ny & Pn).
    set (p := sel x a b) in *. set (q := sel x b a) in *.
    assert (Est : st tx = Established) by apply Qx.
    (* the write *)
    set (s0 := fst (sys_step c s (LSend x bytes))).
    assert (E0 : s0 = set_end (set_sub s x (sub_of s x ++ bytes)) x (ELive (tcb_send tx bytes)))
      by (apply (send_step c s x tx Pn Ex Est)).
    assert (HW0 : WriterState c x s0 p q bytes).
    { rewrite E0. exists (tcb_send tx bytes), ty. sysr. splits; auto.
      - apply writer_of_quiet, Qx.
      - unfold tcb_send. rewrite Est. cbn [accepts_send]. exact Mx. }
    (* the emission *)
    destruct (emit_inflight s0 x p q bytes HW0 Hn) as (lp & rp & segs & HI1 & HB & S1 & D1).
    cbv zeta in *. change (fst (sys_step c s0 (LEmit x))) with s1 in *.
    assert (Hnet : net_of s1 x = segs) by (destruct HI1 as (? & ? & H); apply H).
    subst nseg. rewrite Hnet in *.
    (* the drops *)
    destruct (drops_inflight j s1 x p q (wadd p n) lp rp segs [] HI1 Hj) as ((pre' & suf' & HI2 & Eq) & S2 & D2).
    cbv zeta in *. rewrite app_nil_r in Eq.
    subst s'. rewrite run_app, Hnet. set (s2 := run c s1 (drops x (length segs) j)) in *.
    (* the repair *)
    assert (Pn2 : panicked s2 = false) by (destruct HI2 as (? & ? & H); apply H).
    cbn [run fold_left]. rewrite (fairk c s2 2 Pn2).
    destruct (inflight_recover s2 x p q (wadd p n) lp rp pre' suf' HI2) as (HQ' & S3 & D3 & D4).
    cbv zeta in *.
    assert (Esel1 : sel x (wadd p n) q = sel x (wadd a n) a) by (subst p q; destruct x; reflexivity).
    assert (Esel2 : sel x q (wadd p n) = sel x b (wadd b n)) by (subst p q; destruct x; reflexivity).
    rewrite Esel1, Esel2 in HQ'.
    split; [exact HQ'|].
    rewrite !S3, !S2, !S1, D3, D4, Eq, HB. unfold delivered. rewrite !D2, !D1, E0. sysr. auto.
  Qed.
End LossRound.

Lemma tail_loss_explicit : forall (c : config) (s : sys) (a b : Z) (x : side) (bytes : list Z),
  Quiescent c s a b -> 0 < zlen bytes <= 65535 ->
  let s1 := run c s [LSend x bytes; LEmit x] in
  let nseg := length (net_of s1 x) in
  forall j, (j <= nseg)%nat ->
  let s' := run c s1 (drops x nseg j ++ [LFair 2]) in
  (exists a' b', Quiescent c s' a' b') /\
  sub_of s' x = sub_of s x ++ bytes /\ sub_of s' (other x) = sub_of s (other x) /\
  delivered s' (other x) = delivered s (other x) ++ bytes /\ delivered s' x = delivered s x.
Proof.
  intros c s a b x bytes HQ Hn s1 nseg j Hj s'.
  destruct (tail_loss_recovery c s a b x bytes HQ Hn j Hj) as (H1 & H2 & H3 & H4 & H5).
  cbv zeta in H5. split; [eauto|]. splits; auto. unfold delivered. subst s' nseg s1. now rewrite H5.
Qed.
