(* The definitions GENERATED from modular_cmp.rs by tools/translate_modular_cmp.py on every run are the hand model
   of Model/U32.v.  If the Rust source changes, the regenerated file changes and these proofs break. *)
From Elvis Require Import Model.Base Model.U32 Gen.ModularCmpGen.
Local Open Scope Z_scope.

Lemma gen_offset c : g_offset c = cmp_offset c.
Proof. destruct c; reflexivity. Qed.
Lemma gen_mod_lt a b : g_mod_lt a b = mod_lt a b.
Proof. reflexivity. Qed.
Lemma gen_mod_leq a b : g_mod_leq a b = mod_leq a b.
Proof. reflexivity. Qed.
Lemma gen_mod_gt a b : g_mod_gt a b = mod_gt a b.
Proof. reflexivity. Qed.
Lemma gen_mod_geq a b : g_mod_geq a b = mod_geq a b.
Proof. reflexivity. Qed.
Lemma gen_mod_bounded a ab b bc c : g_mod_bounded a ab b bc c = mod_bounded a ab b bc c.
Proof. unfold g_mod_bounded, mod_bounded. rewrite !gen_offset. reflexivity. Qed.
