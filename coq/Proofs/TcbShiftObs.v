(* C12 equivariance, part 5: observables.  The ISN-relative normal form of a
   system state (every sequence field replaced by its offset from the ISN of
   the space it lives in) is THE SAME in the run with ISNs (a, b) and in the
   run with ISNs (a + dA, b + dB); likewise for every emitted segment. *)
From Elvis Require Import Model.Base Model.U32 Model.Tcb Model.TcpNet
  Proofs.U32Facts Proofs.TcbShift Proofs.TcbShiftInv Proofs.TcbShiftOps Proofs.TcbShiftNet.
Local Open Scope Z_scope.

(* iS = ISN of the sender's space (seq), iK = ISN of the receiver's space (ack) *)
Definition nz_hdr (iS iK : Z) (h : header) : header :=
  mkHdr (h_sport h) (h_dport h) (wsub (h_seq h) iS)
        (if c_ack (h_ctl h) then wsub (h_ack h) iK else h_ack h)
        (h_ctl h) (h_wnd h) (h_urg h).
Definition nz_seg (iS iK : Z) (s : segment) : segment := mkSeg (nz_hdr iS iK (s_hdr s)) (s_text s).
Definition nz_tx (iS iK : Z) (x : transmit) : transmit := mkTx (nz_seg iS iK (t_seg x)) (t_needs x).

(* everything of a TCB except SND.WL2 (never observable: it only gates the
   update of SND.WND) and, in SynSent, the still-raw RCV.IRS/RCV.NXT/SND.WL1 *)
Record tview := mkView {
  w_lport : Z; w_rport : Z; w_mtu : Z; w_listen : bool; w_st : state;
  w_una : Z; w_nxt : Z; w_swnd : Z;
  w_rcv : option (Z * Z * Z);     (* RCV.IRS, RCV.NXT, SND.WL1 relative to the peer's ISN *)
  w_rwnd : Z;
  w_out : list Z; w_retx : list transmit; w_oneshot : list header; w_fin : bool;
  w_in_segs : list segment; w_in_text : list Z; w_rto : Z; w_tw : option Z }.

Definition nz_tcb (iO iP : Z) (t : tcb) : tview :=
  mkView (lport t) (rport t) (mtu t) (listen_init t) (st t)
         (wsub (snd_una t) iO) (wsub (snd_nxt t) iO) (snd_wnd t)
         (if is_synsent (st t) then None
          else Some (wsub (rcv_irs t) iP, wsub (rcv_nxt t) iP, wsub (snd_wl1 t) iP))
         (rcv_wnd t)
         (out_text t) (map (nz_tx iO iP) (retx t)) (map (nz_hdr iO iP) (oneshot t)) (fin_pending t)
         (map (nz_seg iP iO) (in_segs t)) (in_text t) (rto t) (time_wait t).

Inductive eview := VClosed | VListen | VLive (v : tview) | VDead.
Definition nz_end (iO iP : Z) (e : endpoint) : eview :=
  match e with
  | EClosed => VClosed | EListen => VListen | EDead => VDead
  | ELive t => VLive (nz_tcb iO iP t)
  end.

Record sview := mkSview {
  y_endA : eview; y_endB : eview;
  y_netA : list segment; y_netB : list segment;
  y_subA : list Z; y_subB : list Z;
  y_delA : list (list Z); y_delB : list (list Z);
  y_pan : bool }.
Definition nz_sys (c : config) (s : sys) : sview :=
  mkSview (nz_end (issA c) (issB c) (endA s)) (nz_end (issB c) (issA c) (endB s))
          (map (nz_seg (issA c) (issB c)) (netA s)) (map (nz_seg (issB c) (issA c)) (netB s))
          (subA s) (subB s) (delA s) (delB s) (panicked s).

Definition nz_obs_side (c : config) (x : side) (o : obs) : obs :=
  let iO := iss_of c x in let iP := iss_of c (other x) in
  match o with
  | OTick segs r => OTick (map (nz_seg iO iP) segs) r
  | OEmit segs => OEmit (map (nz_seg iO iP) segs)
  | OListenResp h => OListenResp (nz_hdr iO iP h)
  | OClosedResp h => OClosedResp (nz_hdr iO iP h)
  | other => other
  end.
Definition nz_obs (c : config) (l : label) (o : obs) : obs := nz_obs_side c (obs_side l) o.
Fixpoint nz_obs_list (c : config) (ls : list label) (os : list obs) : list obs :=
  match ls, os with
  | l :: ls', o :: os' => nz_obs c l o :: nz_obs_list c ls' os'
  | _, _ => []
  end.

Lemma nz_hdr_sh iS iK dS dK h : nz_hdr (wadd iS dS) (wadd iK dK) (sh_hdr dS dK h) = nz_hdr iS iK h.
Proof.
  unfold nz_hdr, sh_hdr. cbn [h_sport h_dport h_seq h_ack h_ctl h_wnd h_urg].
  rewrite wsub_shift. destruct (c_ack (h_ctl h)); [rewrite wsub_shift|]; reflexivity.
Qed.
Lemma nz_seg_sh iS iK dS dK s : nz_seg (wadd iS dS) (wadd iK dK) (sh_seg dS dK s) = nz_seg iS iK s.
Proof. unfold nz_seg, sh_seg. cbn [s_hdr s_text]. rewrite nz_hdr_sh. reflexivity. Qed.
Lemma nz_tx_sh iS iK dS dK x : nz_tx (wadd iS dS) (wadd iK dK) (sh_tx dS dK x) = nz_tx iS iK x.
Proof. unfold nz_tx, sh_tx. cbn [t_seg t_needs]. rewrite nz_seg_sh. reflexivity. Qed.

Lemma map_nz_seg_sh iS iK dS dK l :
  map (nz_seg (wadd iS dS) (wadd iK dK)) (map (sh_seg dS dK) l) = map (nz_seg iS iK) l.
Proof. rewrite map_map. apply map_ext. intros a. apply nz_seg_sh. Qed.

Lemma nz_tcb_rel dO dP iO iP t t' : trel dO dP t t' ->
  nz_tcb (wadd iO dO) (wadd iP dP) t' = nz_tcb iO iP t.
Proof.
  intros (g & -> & Hv). unfold nz_tcb. tcb_cbn.
  rewrite !wsub_shift.
  rewrite !map_map.
  rewrite (map_ext _ (nz_tx iO iP)) by (intros a; apply nz_tx_sh).
  rewrite (map_ext (fun x => nz_hdr (wadd iO dO) (wadd iP dP) (sh_hdr dO dP x)) (nz_hdr iO iP))
    by (intros a; apply nz_hdr_sh).
  rewrite (map_ext (fun x => nz_seg (wadd iP dP) (wadd iO dO) (sh_seg dP dO x)) (nz_seg iP iO))
    by (intros a; apply nz_seg_sh).
  destruct (is_synsent (st t)) eqn:E; [reflexivity|].
  destruct (Hv E) as [[-> ->] ->]. rewrite !wsub_shift. reflexivity.
Qed.

Lemma nz_end_rel dO dP iO iP e e' : erel dO dP e e' ->
  nz_end (wadd iO dO) (wadd iP dP) e' = nz_end iO iP e.
Proof.
  destruct e, e'; cbn [erel nz_end]; try contradiction; try reflexivity.
  intros H. rewrite (nz_tcb_rel _ _ _ _ _ _ H). reflexivity.
Qed.

Theorem nz_sys_rel dA dB c s s' : srel dA dB s s' -> nz_sys (shift_cfg dA dB c) s' = nz_sys c s.
Proof.
  intros []. unfold nz_sys, shift_cfg. cbn [issA issB].
  rewrite (nz_end_rel _ _ _ _ _ _ r_endA), (nz_end_rel _ _ _ _ _ _ r_endB).
  rewrite r_netA, r_netB, !map_nz_seg_sh, r_subA, r_subB, r_delA, r_delB, r_pan. reflexivity.
Qed.

Lemma nz_obs_shift dA dB c l o : nz_obs (shift_cfg dA dB c) l (shift_obs dA dB l o) = nz_obs c l o.
Proof.
  unfold nz_obs, shift_obs, nz_obs_side, shift_obs_side.
  rewrite !cfg_iss.
  destruct o; try reflexivity; cbn.
  - rewrite map_nz_seg_sh. reflexivity.
  - rewrite map_nz_seg_sh. reflexivity.
  - rewrite nz_hdr_sh. reflexivity.
  - rewrite nz_hdr_sh. reflexivity.
Qed.

Lemma obs_side_shift_label dA dB l : obs_side (shift_label dA dB l) = obs_side l.
Proof. destruct l; reflexivity. Qed.

Lemma nz_obs_list_shift dA dB c ls : forall os,
  nz_obs_list (shift_cfg dA dB c) (map (shift_label dA dB) ls) (shift_obs_list dA dB ls os) =
  nz_obs_list c ls os.
Proof.
  induction ls as [|l r IH]; intros [|o os]; cbn [map shift_obs_list nz_obs_list]; try reflexivity.
  rewrite IH. f_equal. unfold nz_obs at 1. rewrite obs_side_shift_label. apply nz_obs_shift.
Qed.

(* closed-system labels: everything but the injection of forged segments *)
Definition closed_label (l : label) : bool := match l with LInject _ _ => false | _ => true end.
Lemma shift_label_closed dA dB ls : forallb closed_label ls = true -> map (shift_label dA dB) ls = ls.
Proof.
  induction ls as [|l r IH]; cbn [forallb map]; [reflexivity|].
  intros H. apply andb_true_iff in H. destruct H as [H1 H2]. rewrite (IH H2).
  destruct l; try reflexivity. discriminate H1.
Qed.

Definition ep_state (e : endpoint) : option (option state) :=
  match e with EClosed => None | EListen => Some None | EDead => Some None | ELive t => Some (Some (st t)) end.

(* ---- the main statements from the initial state ---- *)
Section Main.
Variables (c : config) (dA dB : Z) (listenB : bool).

Theorem C12_trace_thm ls : u32 (issA c) -> u32 (issB c) -> run_ok c (init_sys listenB) ls ->
  let c' := shift_cfg dA dB c in
  let ls' := map (shift_label dA dB) ls in
  (forall n, srel dA dB (run c (init_sys listenB) (firstn n ls)) (run c' (init_sys listenB) (firstn n ls'))) /\
  run_obs c' (init_sys listenB) ls' = shift_obs_list dA dB ls (run_obs c (init_sys listenB) ls).
Proof.
  intros HA HB Hok. cbv zeta. split.
  - apply trace_rel_stepwise; [apply srel_init | apply sinv_init; assumption | exact Hok].
  - apply (trace_rel dA dB c ls _ _ (srel_init dA dB listenB) (sinv_init c listenB HA HB) Hok).
Qed.

Theorem C12_observables_thm ls : u32 (issA c) -> u32 (issB c) -> run_ok c (init_sys listenB) ls ->
  let c' := shift_cfg dA dB c in
  let ls' := map (shift_label dA dB) ls in
  let s := run c (init_sys listenB) ls in
  let s' := run c' (init_sys listenB) ls' in
  nz_sys c' s' = nz_sys c s /\
  nz_obs_list c' ls' (run_obs c' (init_sys listenB) ls') = nz_obs_list c ls (run_obs c (init_sys listenB) ls) /\
  (forall x, delivered s' x = delivered s x /\ sub_of s' x = sub_of s x /\
             ep_state (end_of s' x) = ep_state (end_of s x) /\
             net_of s' x = map (sh_seg (dsh dA dB x) (dsh dA dB (other x))) (net_of s x)) /\
  panicked s' = panicked s.
Proof.
  intros HA HB Hok. cbv zeta.
  destruct (trace_rel dA dB c ls _ _ (srel_init dA dB listenB) (sinv_init c listenB HA HB) Hok) as (A & B & _).
  split; [apply nz_sys_rel; exact A|].
  split; [rewrite B; apply nz_obs_list_shift|].
  split; [|apply A].
  intros x. unfold delivered. rewrite (srel_del _ _ _ _ x A), (srel_sub _ _ _ _ x A), (srel_net _ _ _ _ x A).
  repeat split.
  pose proof (srel_end _ _ _ _ x A) as He.
  destruct (end_of _ x), (end_of _ x); cbn [erel] in He; try contradiction; try reflexivity.
  cbn [ep_state]. rewrite (trel_st _ _ _ _ He). reflexivity.
Qed.

(* closed-system traces: the SAME label list drives both runs *)
Corollary C12_closed_thm ls : u32 (issA c) -> u32 (issB c) -> forallb closed_label ls = true ->
  run_ok c (init_sys listenB) ls ->
  let c' := shift_cfg dA dB c in
  (forall n, srel dA dB (run c (init_sys listenB) (firstn n ls)) (run c' (init_sys listenB) (firstn n ls))) /\
  nz_sys c' (run c' (init_sys listenB) ls) = nz_sys c (run c (init_sys listenB) ls) /\
  nz_obs_list c' ls (run_obs c' (init_sys listenB) ls) = nz_obs_list c ls (run_obs c (init_sys listenB) ls).
Proof.
  intros HA HB Hcl Hok. cbv zeta.
  pose proof (C12_trace_thm ls HA HB Hok) as [T1 _].
  pose proof (C12_observables_thm ls HA HB Hok) as (O1 & O2 & _).
  cbv zeta in T1, O1, O2. rewrite (shift_label_closed dA dB ls Hcl) in T1, O1, O2.
  split; [exact T1 | split; [exact O1 | exact O2]].
Qed.

End Main.

(* ---- per-operation equivariance, collected ---- *)
Theorem tcb_ops_equivariant dO dP :
  (forall lp rp iss m, trel dO dP (tcb_open lp rp iss m) (tcb_open lp rp (wadd iss dO) m)) /\
  (forall s iss m, sok s ->
     lrel dO dP (arrives_listen s iss m) (arrives_listen (sh_seg dP dO s) (wadd iss dO) m)) /\
  (forall t t' s, trel dO dP t t' -> tinv t -> sok s ->
     rrel (pp_rel dO dP) (process_segment t s) (process_segment t' (sh_seg dP dO s))) /\
  (forall t t' s, trel dO dP t t' -> tinv t -> sok s ->
     rrel (pa_rel dO dP) (segment_arrives t s) (segment_arrives t' (sh_seg dP dO s))) /\
  (forall t t' b, trel dO dP t t' -> trel dO dP (tcb_send t b) (tcb_send t' b)) /\
  (forall t t', trel dO dP t t' ->
     trel dO dP (fst (tcb_receive t)) (fst (tcb_receive t')) /\ snd (tcb_receive t') = snd (tcb_receive t)) /\
  (forall t t', trel dO dP t t' -> tinv t ->
     trel dO dP (fst (tcb_close t)) (fst (tcb_close t')) /\ snd (tcb_close t') = snd (tcb_close t)) /\
  (forall t t' dt, trel dO dP t t' ->
     trel dO dP (fst (advance_time t dt)) (fst (advance_time t' dt)) /\
     snd (advance_time t' dt) = snd (advance_time t dt)) /\
  (forall t t', trel dO dP t t' -> tinv t -> rrel (ps_rel dO dP) (tcb_segments t) (tcb_segments t')).
Proof.
  repeat match goal with |- _ /\ _ => split end.
  - apply tcb_open_rel.
  - apply arrives_listen_rel.
  - apply process_segment_rel.
  - apply segment_arrives_rel.
  - apply tcb_send_rel.
  - apply tcb_receive_rel.
  - apply tcb_close_rel.
  - apply advance_time_rel.
  - apply tcb_segments_rel.
Qed.

(* the stages of process_segment and the helpers, for reference *)
Theorem tcb_stages_equivariant dO dP :
  (forall t t' h, trel dO dP t t' -> tinv t -> hok h ->
     trel dO dP (fst (ps_ack t h)) (fst (ps_ack t' (sh_hdr dP dO h))) /\
     snd (ps_ack t' (sh_hdr dP dO h)) = snd (ps_ack t h)) /\
  (forall t t' h, trel dO dP t t' -> opsr_rel (ps_rst t h) (ps_rst t' (sh_hdr dP dO h))) /\
  (forall t t' h, trel dO dP t t' -> tinv t -> hok h ->
     trel dO dP (fst (ps_syn t h)) (fst (ps_syn t' (sh_hdr dP dO h))) /\
     snd (ps_syn t' (sh_hdr dP dO h)) = snd (ps_syn t h)) /\
  (forall t t' h text, trel dO dP t t' -> tinv t -> u32 (h_seq h) -> is_synsent (st t) = false ->
     rrel (trel dO dP) (ps_text t h text) (ps_text t' (sh_hdr dP dO h) text)) /\
  (forall t t' h n, trel dO dP t t' -> tinv t -> u32 (h_seq h) ->
     trel dO dP (ps_fin t h n) (ps_fin t' (sh_hdr dP dO h) n)) /\
  (forall t t', trel dO dP t t' -> tinv t -> trel dO dP (queue_pending_fin t) (queue_pending_fin t')).
Proof.
  repeat match goal with |- _ /\ _ => split end.
  - apply ps_ack_rel.
  - apply ps_rst_rel.
  - apply ps_syn_rel.
  - apply ps_text_rel.
  - apply ps_fin_rel.
  - apply queue_pending_fin_rel.
Qed.

(* the invariant used on the original run is established and preserved *)
Theorem tinv_preserved :
  (forall lp rp iss m, u32 iss -> tinv (tcb_open lp rp iss m)) /\
  (forall s iss m t, u32 iss -> sok s -> arrives_listen s iss m = LTcb t -> tinv t) /\
  (forall t s t1 r, tinv t -> sok s -> segment_arrives t s = Ok (t1, r) -> tinv t1) /\
  (forall t b, tinv t -> tinv (tcb_send t b)) /\
  (forall t, tinv t -> tinv (fst (tcb_receive t))) /\
  (forall t, tinv t -> tinv (fst (tcb_close t))) /\
  (forall t dt, tinv t -> tinv (fst (advance_time t dt))) /\
  (forall t t1 out, tinv t -> tcb_segments t = Ok (t1, out) -> tinv t1 /\ Forall sok out).
Proof.
  repeat match goal with |- _ /\ _ => split end.
  - apply tinv_tcb_open.
  - apply tinv_arrives_listen.
  - apply tinv_segment_arrives.
  - apply tinv_tcb_send.
  - apply tinv_tcb_receive.
  - apply tinv_tcb_close.
  - apply tinv_advance_time.
  - apply tinv_tcb_segments.
Qed.
