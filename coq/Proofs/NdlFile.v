(* Facts about the NDL parser model, part 3: parsing rendered blocks.  One-step
   equations for every loop of the parser stack on a rendered line / block
   followed by an arbitrary tail, then the block lemmas, the whole-file round
   trip, and rejection of structural errors behind arbitrary well-formed
   prefixes. *)
From Elvis Require Import Model.Base Model.Ndl Proofs.NdlFacts Proofs.NdlRound.
From Coq Require Import NArith ZifyBool.
Local Open Scope Z_scope.

Definition pargs (a : params) : Prop := Forall parg a /\ NoDup (map fst a).
Definition pitem (ty : dectype) (i : item) : Prop := it_ty i = ty /\ pargs (it_opts i).
Definition pnetwork (kn : text * network) : Prop :=
  net_ty (snd kn) = Network /\ pargs (net_opts (snd kn)) /\
  lookup k_id (net_opts (snd kn)) = Some (fst kn) /\
  net_ips (snd kn) <> [] /\ Forall (pitem IP) (net_ips (snd kn)).
Definition pmachine (m : machine) : Prop :=
  m_ty m = Machine /\ pargs (m_opts m) /\
  m_nets m <> [] /\ Forall (pitem Network) (m_nets m) /\
  m_protos m <> [] /\ Forall (pitem Protocol) (m_protos m) /\
  m_apps m <> [] /\ Forall (pitem Application) (m_apps m).
Definition psim (s : sim) : Prop :=
  Forall pnetwork (s_networks s) /\ NoDup (map fst (s_networks s)) /\ Forall pmachine (s_machines s).

(* ------------------------------------------------------------ rendered lines *)

Lemma render_line_app n d a tail :
  render_line n d a ++ tail = tabs n ++ (render_sec d a ++ c_nl :: tail).
Proof. unfold render_line. repeat rewrite <- app_assoc. reflexivity. Qed.

Lemma line_is_nil n d a tail : is_nil (render_line n d a ++ tail) = false.
Proof. rewrite render_line_app. destruct n; reflexivity. Qed.

Lemma line_count n d a tail : count_leading c_tab (render_line n d a ++ tail) = n.
Proof.
  rewrite render_line_app. unfold tabs. induction n as [|n IH]; cbn [repeat app].
  - reflexivity.
  - cbn [count_leading]. change (c_tab =? c_tab)%N with true. cbn iota. rewrite IH. reflexivity.
Qed.

Lemma line_not_nl n d a tail : not_nl_head (render_line n d a ++ tail).
Proof. rewrite render_line_app. destruct n; cbn; discriminate. Qed.

Lemma line_str_from n d a tail :
  str_from n (render_line n d a ++ tail) = Ok (render_sec d a ++ c_nl :: tail).
Proof.
  rewrite str_from_tabs by (rewrite line_count; lia).
  rewrite render_line_app, skipn_tabs. reflexivity.
Qed.

Lemma gp_line d a tail ln : pargs a -> not_nl_head tail ->
  general_parser get_type (render_sec d a ++ c_nl :: tail) ln = Ok (d, a, tail, ln + 1).
Proof.
  intros [Ha Hn] Ht. exact (general_parser_render d a 1 tail ln Ha Hn Ht).
Qed.

Lemma line_len n d a : (1 <= length (render_line n d a))%nat.
Proof. unfold render_line. repeat rewrite app_length. cbn [length]. lia. Qed.

Definition lines_items (l : list item) : Z := Z.of_nat (length l).

Lemma item_eta i : {| it_ty := it_ty i; it_opts := it_opts i |} = i.
Proof. destruct i; reflexivity. Qed.

(* ------------------------------------------------------------ the item loops *)

Lemma items_loop_step f expect nt l0 acc i tail ln : pitem expect i -> not_nl_head tail ->
  items_loop get_type (S f) expect nt l0 acc (render_item nt i ++ tail) ln =
    if Nat.ltb (count_leading c_tab tail) nt then Ok (acc ++ [i], tail, ln + 1)
    else if Nat.ltb nt (count_leading c_tab tail) then Err (ecode E_TABCOUNT (ln + 1))
    else items_loop get_type f expect nt l0 (acc ++ [i]) tail (ln + 1).
Proof.
  intros [Hty Ha] Ht. destruct i as [ty o]. cbn [it_ty it_opts] in *. subst ty.
  unfold render_item. cbn [it_ty it_opts items_loop].
  rewrite line_is_nil, line_str_from, (gp_line _ _ _ _ Ha Ht).
  replace (dectype_eqb expect expect) with true by (destruct expect; reflexivity).
  reflexivity.
Qed.

Lemma network_loop_step f nt l0 acc i tail ln : pitem IP i -> not_nl_head tail ->
  network_loop get_type (S f) nt l0 acc (render_item nt i ++ tail) ln =
    if Nat.ltb (count_leading c_tab tail) nt then Ok (acc ++ [i], tail, ln + 1)
    else if Nat.ltb nt (count_leading c_tab tail) then Err (ecode E_TABCOUNT (ln + 1))
    else network_loop get_type f nt l0 (acc ++ [i]) tail (ln + 1).
Proof.
  intros [Hty Ha] Ht. destruct i as [ty o]. cbn [it_ty it_opts] in *. subst ty.
  unfold render_item. cbn [it_ty it_opts network_loop].
  rewrite line_is_nil, line_str_from, (gp_line _ _ _ _ Ha Ht). reflexivity.
Qed.

Lemma flat_items_head nt i l rest :
  flat_map (render_item nt) (i :: l) ++ rest
  = render_item nt i ++ (flat_map (render_item nt) l ++ rest).
Proof. cbn [flat_map]. rewrite <- app_assoc. reflexivity. Qed.

Lemma items_tail_not_nl nt l rest : not_nl_head rest -> not_nl_head (flat_map (render_item nt) l ++ rest).
Proof.
  intros H. destruct l as [|i l]; [exact H|]. rewrite flat_items_head. apply line_not_nl.
Qed.

Lemma items_tail_count nt l rest : (count_leading c_tab rest < nt)%nat ->
  count_leading c_tab (flat_map (render_item nt) l ++ rest) = nt \/
  (l = [] /\ (count_leading c_tab (flat_map (render_item nt) l ++ rest) < nt)%nat).
Proof.
  intros H. destruct l as [|i l]; [right; split; [reflexivity|exact H]|].
  left. rewrite flat_items_head. apply line_count.
Qed.

Lemma render_item_len nt i : (1 <= length (render_item nt i))%nat.
Proof. apply line_len. Qed.

Lemma items_count_nonempty nt l rest : l <> [] ->
  count_leading c_tab (flat_map (render_item nt) l ++ rest) = nt.
Proof. destruct l as [|i l]; [contradiction|]. intros _. rewrite flat_items_head. apply line_count. Qed.

(* a non-empty rendered item list followed by a shallower tail *)
Lemma items_loop_list expect nt l0 l : forall i acc ln fuel rest,
  Forall (pitem expect) (i :: l) -> (count_leading c_tab rest < nt)%nat -> not_nl_head rest ->
  (length (flat_map (render_item nt) (i :: l) ++ rest) < fuel)%nat ->
  items_loop get_type fuel expect nt l0 acc (flat_map (render_item nt) (i :: l) ++ rest) ln
  = Ok (acc ++ i :: l, rest, ln + lines_items (i :: l)).
Proof.
  induction l as [|i' l IH]; intros i acc ln fuel rest Hall Hc Hr Hf;
    (destruct fuel as [|f]; [lia|]); rewrite flat_items_head in *;
    inversion Hall as [|? ? Hi Hl]; subst;
    rewrite (items_loop_step f expect nt l0 acc i _ ln Hi (items_tail_not_nl nt _ rest Hr)).
  - cbn [flat_map app]. apply Nat.ltb_lt in Hc. rewrite Hc. unfold lines_items. cbn [length].
    reflexivity.
  - rewrite (items_count_nonempty nt (i' :: l) rest) by discriminate. rewrite Nat.ltb_irrefl.
    rewrite app_length in Hf. pose proof (render_item_len nt i).
    rewrite (IH i' (acc ++ [i]) (ln + 1) f rest Hl Hc Hr ltac:(lia)).
    rewrite <- app_assoc. cbn [app]. unfold lines_items. cbn [length]. f_equal. f_equal. lia.
Qed.

Lemma network_loop_list nt l0 l : forall i acc ln fuel rest,
  Forall (pitem IP) (i :: l) -> (count_leading c_tab rest < nt)%nat -> not_nl_head rest ->
  (length (flat_map (render_item nt) (i :: l) ++ rest) < fuel)%nat ->
  network_loop get_type fuel nt l0 acc (flat_map (render_item nt) (i :: l) ++ rest) ln
  = Ok (acc ++ i :: l, rest, ln + lines_items (i :: l)).
Proof.
  induction l as [|i' l IH]; intros i acc ln fuel rest Hall Hc Hr Hf;
    (destruct fuel as [|f]; [lia|]); rewrite flat_items_head in *;
    inversion Hall as [|? ? Hi Hl]; subst;
    rewrite (network_loop_step f nt l0 acc i _ ln Hi (items_tail_not_nl nt _ rest Hr)).
  - cbn [flat_map app]. apply Nat.ltb_lt in Hc. rewrite Hc. unfold lines_items. cbn [length].
    reflexivity.
  - rewrite (items_count_nonempty nt (i' :: l) rest) by discriminate. rewrite Nat.ltb_irrefl.
    rewrite app_length in Hf. pose proof (render_item_len nt i).
    rewrite (IH i' (acc ++ [i]) (ln + 1) f rest Hl Hc Hr ltac:(lia)).
    rewrite <- app_assoc. cbn [app]. unfold lines_items. cbn [length]. f_equal. f_equal. lia.
Qed.

Lemma items_parser_list expect nt l rest ln :
  l <> [] -> Forall (pitem expect) l -> (count_leading c_tab rest < nt)%nat -> not_nl_head rest ->
  items_parser get_type expect (flat_map (render_item nt) l ++ rest) nt ln
  = Ok (l, rest, ln + lines_items l).
Proof.
  intros Hne Hall Hc Hr. unfold items_parser. rewrite (items_count_nonempty nt l rest Hne).
  rewrite Nat.eqb_refl. cbn [negb]. destruct l as [|i l]; [contradiction|].
  rewrite (items_loop_list expect nt (ln - 1) l i [] ln _ rest Hall Hc Hr) by lia. reflexivity.
Qed.

Lemma network_parser_list opts nt l rest ln :
  l <> [] -> Forall (pitem IP) l -> (count_leading c_tab rest < nt)%nat -> not_nl_head rest ->
  network_parser get_type Network opts (flat_map (render_item nt) l ++ rest) nt ln
  = Ok ({| net_ty := Network; net_opts := opts; net_ips := l |}, rest, ln + lines_items l).
Proof.
  intros Hne Hall Hc Hr. unfold network_parser. rewrite (items_count_nonempty nt l rest Hne).
  rewrite Nat.eqb_refl. cbn [negb]. destruct l as [|i l]; [contradiction|].
  rewrite (network_loop_list nt (ln - 1) l i [] ln _ rest Hall Hc Hr) by lia. reflexivity.
Qed.

(* ------------------------------------------------------------ networks *)

Definition lines_network (kn : text * network) : Z := 1 + lines_items (net_ips (snd kn)).
Fixpoint lines_networks (l : list (text * network)) : Z :=
  match l with [] => 0 | kn :: r => lines_network kn + lines_networks r end.

Lemma has_id_in k m : has_id k m = true <-> In k (map fst m).
Proof.
  induction m as [|[k' n] m IH]; cbn [has_id map fst In].
  - split; [discriminate|intros []].
  - destruct (text_eqb k k') eqn:E; cbn [orb].
    + apply text_eqb_spec in E. subst. split; auto.
    + rewrite IH. split; [auto|]. intros [Hk|Hi]; [|exact Hi]. subst.
      rewrite text_eqb_refl in E. discriminate.
Qed.

Lemma network_eta (kn : text * network) : net_ty (snd kn) = Network ->
  (fst kn, {| net_ty := Network; net_opts := net_opts (snd kn); net_ips := net_ips (snd kn) |}) = kn.
Proof. destruct kn as [k [t o i]]. cbn. intros ->. reflexivity. Qed.

Lemma flat_networks_head kn l rest : net_ty (snd kn) = Network ->
  flat_map render_network (kn :: l) ++ rest
  = render_line 1 Network (net_opts (snd kn))
    ++ (flat_map (render_item 2) (net_ips (snd kn)) ++ (flat_map render_network l ++ rest)).
Proof.
  intros H. cbn [flat_map]. unfold render_network at 1. rewrite H.
  repeat rewrite <- app_assoc. reflexivity.
Qed.

Lemma networks_tail_not_nl l rest : Forall pnetwork l -> not_nl_head rest ->
  not_nl_head (flat_map render_network l ++ rest).
Proof.
  intros Hl H. destruct l as [|kn l]; [exact H|]. inversion Hl as [|? ? (Hty & _) _]. subst.
  rewrite (flat_networks_head kn l rest Hty). apply line_not_nl.
Qed.

Lemma networks_tail_count l rest : Forall pnetwork l -> (count_leading c_tab rest < 1)%nat ->
  (count_leading c_tab (flat_map render_network l ++ rest) < 2)%nat.
Proof.
  intros Hl H. destruct l as [|kn l]; [cbn [flat_map app]; lia|].
  inversion Hl as [|? ? (Hty & _) _]. subst.
  rewrite (flat_networks_head kn l rest Hty), line_count. lia.
Qed.

(* one network block at the head of the networks loop: either its id is new and
   the loop goes on behind it, or the id is a duplicate and the section is rejected *)
Lemma networks_loop_step f l0 acc kn tail ln :
  pnetwork kn -> (count_leading c_tab tail < 2)%nat -> not_nl_head tail ->
  networks_loop get_type (S f) 1 l0 acc
    (render_line 1 Network (net_opts (snd kn))
     ++ (flat_map (render_item 2) (net_ips (snd kn)) ++ tail)) ln =
  if has_id (fst kn) acc then Err (ecode E_DUPID l0)
  else networks_loop get_type f 1 l0 (acc ++ [kn]) tail (ln + lines_network kn).
Proof.
  intros (Hty & Ha & Hid & Hne & Hips) Hc Ht. cbn [networks_loop].
  rewrite line_is_nil, line_count. cbn [Nat.ltb Nat.leb]. rewrite line_str_from.
  rewrite (gp_line _ _ _ _ Ha (items_tail_not_nl 2 _ tail Ht)). cbn [dectype_eqb].
  rewrite (network_parser_list _ 2 _ tail (ln + 1) Hne Hips Hc Ht). rewrite Hid.
  destruct (has_id (fst kn) acc); [reflexivity|].
  rewrite (network_eta kn Hty). unfold lines_network. f_equal. lia.
Qed.

Lemma render_network_len kn : (1 <= length (render_network kn))%nat.
Proof. unfold render_network. rewrite app_length. pose proof (line_len 1 (net_ty (snd kn)) (net_opts (snd kn))). lia. Qed.

(* a rendered list of networks with pairwise distinct new ids is consumed and
   the loop continues on the tail: "peeling" a well-formed prefix *)
Lemma networks_loop_peel l0 l : forall acc ln fuel tail,
  Forall pnetwork l -> NoDup (map fst (acc ++ l)) ->
  (count_leading c_tab tail < 2)%nat -> not_nl_head tail ->
  (length (flat_map render_network l ++ tail) < fuel)%nat ->
  exists fuel', (length tail < fuel')%nat /\
    networks_loop get_type fuel 1 l0 acc (flat_map render_network l ++ tail) ln
    = networks_loop get_type fuel' 1 l0 (acc ++ l) tail (ln + lines_networks l).
Proof.
  induction l as [|kn l IH]; intros acc ln fuel tail Hall Hnd Hc Ht Hf.
  - exists fuel. cbn [flat_map app lines_networks] in *. rewrite app_nil_r, Z.add_0_r. split; [exact Hf|reflexivity].
  - destruct fuel as [|f]; [lia|]. inversion Hall as [|? ? Hkn Hl]. subst.
    pose proof Hkn as (Hty & _).
    rewrite (flat_networks_head kn l tail Hty) in *.
    assert (Hc' : (count_leading c_tab (flat_map render_network l ++ tail) < 2)%nat).
    { destruct l as [|kn' l']; [exact Hc|]. inversion Hl as [|? ? (Hty' & _) _]. subst.
      rewrite (flat_networks_head kn' l' tail Hty'), line_count. lia. }
    rewrite (networks_loop_step f l0 acc kn _ ln Hkn Hc' (networks_tail_not_nl l tail Hl Ht)).
    assert (Hnew : has_id (fst kn) acc = false).
    { destruct (has_id (fst kn) acc) eqn:E; [|reflexivity]. apply has_id_in in E.
      rewrite map_app in Hnd. cbn [map] in Hnd. apply NoDup_remove_2 in Hnd.
      exfalso. apply Hnd. apply in_or_app. left. exact E. }
    rewrite Hnew.
    assert (Hnd' : NoDup (map fst ((acc ++ [kn]) ++ l))) by (rewrite <- app_assoc; exact Hnd).
    repeat rewrite app_length in Hf. pose proof (line_len 1 Network (net_opts (snd kn))).
    destruct (IH (acc ++ [kn]) (ln + lines_network kn) f tail Hl Hnd' Hc Ht
                ltac:(rewrite app_length; lia)) as (fuel' & Hf' & Heq).
    exists fuel'. split; [exact Hf'|]. rewrite Heq. rewrite <- app_assoc. cbn [app lines_networks].
    f_equal. lia.
Qed.

Lemma networks_loop_exit fuel l0 acc rest ln :
  (count_leading c_tab rest < 1)%nat -> (0 < fuel)%nat ->
  networks_loop get_type fuel 1 l0 acc rest ln = Ok (acc, rest, ln).
Proof.
  intros Hc Hf. destruct fuel as [|f]; [lia|]. cbn [networks_loop].
  destruct (is_nil rest) eqn:E; [reflexivity|].
  apply Nat.ltb_lt in Hc. rewrite Hc. reflexivity.
Qed.

Lemma networks_parser_list l rest ln :
  Forall pnetwork l -> NoDup (map fst l) ->
  (count_leading c_tab rest < 1)%nat -> not_nl_head rest ->
  networks_parser get_type (flat_map render_network l ++ rest) 1 ln
  = Ok (l, rest, ln + lines_networks l).
Proof.
  intros Hall Hnd Hc Ht. unfold networks_parser.
  destruct (networks_loop_peel (ln - 1) l [] ln _ rest Hall Hnd ltac:(lia) Ht (Nat.lt_succ_diag_r _))
    as (fuel' & Hf' & ->).
  apply networks_loop_exit; [exact Hc|lia].
Qed.

(* duplicate network id: rejected behind any well-formed prefix of networks, whatever follows
   the block of the offending network (as long as it does not continue its address list) *)
Lemma networks_parser_dup pre kn tail ln :
  Forall pnetwork pre -> NoDup (map fst pre) -> pnetwork kn -> In (fst kn) (map fst pre) ->
  (count_leading c_tab tail < 2)%nat -> not_nl_head tail ->
  networks_parser get_type
    (flat_map render_network pre ++ render_network kn ++ tail) 1 ln = Err (ecode E_DUPID (ln - 1)).
Proof.
  intros Hpre Hnd Hkn Hin Hc Ht. unfold networks_parser. pose proof Hkn as (Hty & _).
  assert (Hk : render_network kn ++ tail = flat_map render_network [kn] ++ tail)
    by (cbn [flat_map]; rewrite app_nil_r; reflexivity).
  rewrite Hk. rewrite (flat_networks_head kn [] tail Hty). cbn [flat_map app].
  match goal with |- networks_loop _ _ _ _ _ (_ ++ ?t) _ = _ =>
    destruct (networks_loop_peel (ln - 1) pre [] ln _ t Hpre Hnd
                ltac:(rewrite line_count; lia) (line_not_nl _ _ _ _) (Nat.lt_succ_diag_r _))
      as (fuel' & Hf' & ->)
  end.
  destruct fuel' as [|f]; [lia|].
  rewrite (networks_loop_step f (ln - 1) ([] ++ pre) kn tail _ Hkn Hc Ht).
  cbn [app]. apply has_id_in in Hin. rewrite Hin. reflexivity.
Qed.

(* ------------------------------------------------------------ machines *)

Definition render_msection (sec : dectype) (its : list item) : text :=
  render_line 2 sec [] ++ flat_map (render_item 3) its.

Lemma pargs_nil : pargs [].
Proof. split; constructor. Qed.

(* one section of a machine at the head of the machine loop *)
Lemma machine_loop_step f l0 req req' nets protos apps sec its tail ln :
  (sec = Networks \/ sec = Protocols \/ sec = Applications) ->
  req_contains sec req = true -> req_remove sec req = Some req' ->
  its <> [] -> Forall (pitem (item_type_of sec)) its ->
  (count_leading c_tab tail < 3)%nat -> not_nl_head tail ->
  machine_loop get_type (S f) 2 l0 req nets protos apps
    (render_line 2 sec [] ++ (flat_map (render_item 3) its ++ tail)) ln =
  machine_loop get_type f 2 l0 req'
    (match sec with Networks => nets ++ its | _ => nets end)
    (match sec with Protocols => protos ++ its | _ => protos end)
    (match sec with Applications => apps ++ its | _ => apps end)
    tail (ln + 1 + lines_items its).
Proof.
  intros Hsec Hc Hr Hne Hall Hct Ht. cbn [machine_loop].
  rewrite line_is_nil, line_count. cbn [Nat.ltb Nat.leb]. rewrite line_str_from.
  rewrite (gp_line _ _ _ _ pargs_nil (items_tail_not_nl 3 _ tail Ht)).
  rewrite Hc, Hr. rewrite (items_parser_list _ 3 its tail (ln + 1) Hne Hall Hct Ht).
  destruct Hsec as [->|[->| ->]]; reflexivity.
Qed.

Definition render_mbody (m : machine) : text :=
  render_line 2 Networks [] ++ flat_map (render_item 3) (m_nets m)
  ++ render_line 2 Protocols [] ++ flat_map (render_item 3) (m_protos m)
  ++ render_line 2 Applications [] ++ flat_map (render_item 3) (m_apps m).

Definition lines_machine (m : machine) : Z :=
  1 + (1 + lines_items (m_nets m)) + (1 + lines_items (m_protos m)) + (1 + lines_items (m_apps m)).
Fixpoint lines_machines (l : list machine) : Z :=
  match l with [] => 0 | m :: r => lines_machine m + lines_machines r end.

Lemma machine_loop_exit fuel l0 req a b c rest ln :
  (count_leading c_tab rest < 2)%nat -> (0 < fuel)%nat ->
  machine_loop get_type fuel 2 l0 req a b c rest ln = Ok (req, a, b, c, rest, ln).
Proof.
  intros Hc Hf. destruct fuel as [|f]; [lia|]. cbn [machine_loop].
  destruct (is_nil rest) eqn:E; [reflexivity|].
  apply Nat.ltb_lt in Hc. rewrite Hc. reflexivity.
Qed.

Lemma machine_eta m : m_ty m = Machine ->
  {| m_ty := Machine; m_opts := m_opts m; m_nets := m_nets m; m_protos := m_protos m; m_apps := m_apps m |} = m.
Proof. destruct m; cbn; intros ->; reflexivity. Qed.

Lemma machine_parser_body m rest ln :
  pmachine m -> (count_leading c_tab rest < 2)%nat -> not_nl_head rest ->
  machine_parser get_type (m_opts m) (render_mbody m ++ rest) 2 ln
  = Ok (m, rest, ln + (lines_machine m - 1)).
Proof.
  intros (Hty & Ha & Hn1 & Hn2 & Hp1 & Hp2 & Ha1 & Ha2) Hc Ht. unfold machine_parser, render_mbody.
  repeat rewrite <- app_assoc.
  set (fuel := S (length _)).
  assert (Hfuel : (4 <= fuel)%nat).
  { unfold fuel. repeat rewrite app_length.
    pose proof (line_len 2 Networks []). pose proof (line_len 2 Protocols []).
    pose proof (line_len 2 Applications []). lia. }
  destruct fuel as [|[|[|[|f]]]]; try lia.
  set (t3 := render_line 2 Applications [] ++ (flat_map (render_item 3) (m_apps m) ++ rest)).
  set (t2 := render_line 2 Protocols [] ++ (flat_map (render_item 3) (m_protos m) ++ t3)).
  assert (C3 : (count_leading c_tab t3 < 3)%nat) by (unfold t3; rewrite line_count; lia).
  assert (C2 : (count_leading c_tab t2 < 3)%nat) by (unfold t2; rewrite line_count; lia).
  assert (N3 : not_nl_head t3) by apply line_not_nl.
  assert (N2 : not_nl_head t2) by apply line_not_nl.
  rewrite (machine_loop_step _ (ln - 1) [Networks; Protocols; Applications] [Protocols; Applications]
             [] [] [] Networks (m_nets m) t2 ln (or_introl eq_refl) eq_refl eq_refl Hn1 Hn2 C2 N2).
  unfold t2.
  rewrite (machine_loop_step _ (ln - 1) [Protocols; Applications] [Applications]
             _ [] [] Protocols (m_protos m) t3 _ (or_intror (or_introl eq_refl)) eq_refl eq_refl Hp1 Hp2 C3 N3).
  unfold t3.
  rewrite (machine_loop_step _ (ln - 1) [Applications] []
             _ _ [] Applications (m_apps m) rest _ (or_intror (or_intror eq_refl)) eq_refl eq_refl Ha1 Ha2
             ltac:(lia) Ht).
  rewrite machine_loop_exit by (try exact Hc; lia).
  cbn [is_nil negb app]. rewrite (machine_eta m Hty). unfold lines_machine. f_equal. f_equal. lia.
Qed.

Lemma flat_machines_head m l rest : m_ty m = Machine ->
  flat_map render_machine (m :: l) ++ rest
  = render_line 1 Machine (m_opts m) ++ (render_mbody m ++ (flat_map render_machine l ++ rest)).
Proof.
  intros H. cbn [flat_map]. unfold render_machine at 1, render_mbody. rewrite H.
  repeat rewrite <- app_assoc. reflexivity.
Qed.

Lemma mbody_not_nl m rest : not_nl_head (render_mbody m ++ rest).
Proof. unfold render_mbody. repeat rewrite <- app_assoc. apply line_not_nl. Qed.

Lemma machines_tail_not_nl l rest : Forall pmachine l -> not_nl_head rest ->
  not_nl_head (flat_map render_machine l ++ rest).
Proof.
  intros Hl H. destruct l as [|m l]; [exact H|]. inversion Hl as [|? ? (Hty & _) _]. subst.
  rewrite (flat_machines_head m l rest Hty). apply line_not_nl.
Qed.

Lemma machines_tail_count l rest : Forall pmachine l -> (count_leading c_tab rest < 1)%nat ->
  (count_leading c_tab (flat_map render_machine l ++ rest) < 2)%nat.
Proof.
  intros Hl H. destruct l as [|m l]; [cbn [flat_map app]; lia|].
  inversion Hl as [|? ? (Hty & _) _]. subst.
  rewrite (flat_machines_head m l rest Hty), line_count. lia.
Qed.

Lemma machines_loop_step f l0 acc m tail ln :
  pmachine m -> (count_leading c_tab tail < 2)%nat -> not_nl_head tail ->
  machines_loop get_type (S f) 1 l0 acc
    (render_line 1 Machine (m_opts m) ++ (render_mbody m ++ tail)) ln =
  machines_loop get_type f 1 l0 (acc ++ [m]) tail (ln + lines_machine m).
Proof.
  intros Hm Hc Ht. pose proof Hm as (Hty & Ha & _). cbn [machines_loop].
  rewrite line_is_nil, line_count. cbn [Nat.ltb Nat.leb]. rewrite line_str_from.
  rewrite (gp_line _ _ _ _ Ha (mbody_not_nl m tail)). cbn [dectype_eqb].
  rewrite (machine_parser_body m tail (ln + 1) Hm Hc Ht). f_equal. lia.
Qed.

Lemma machines_loop_exit fuel l0 acc rest ln :
  (count_leading c_tab rest < 1)%nat -> (0 < fuel)%nat ->
  machines_loop get_type fuel 1 l0 acc rest ln = Ok (acc, rest, ln).
Proof.
  intros Hc Hf. destruct fuel as [|f]; [lia|]. cbn [machines_loop].
  destruct (is_nil rest) eqn:E; [reflexivity|].
  apply Nat.ltb_lt in Hc. rewrite Hc. reflexivity.
Qed.

Lemma machines_loop_peel l0 l : forall acc ln fuel tail,
  Forall pmachine l -> (count_leading c_tab tail < 2)%nat -> not_nl_head tail ->
  (length (flat_map render_machine l ++ tail) < fuel)%nat ->
  exists fuel', (length tail < fuel')%nat /\
    machines_loop get_type fuel 1 l0 acc (flat_map render_machine l ++ tail) ln
    = machines_loop get_type fuel' 1 l0 (acc ++ l) tail (ln + lines_machines l).
Proof.
  induction l as [|m l IH]; intros acc ln fuel tail Hall Hc Ht Hf.
  - exists fuel. cbn [flat_map app lines_machines] in *. rewrite app_nil_r, Z.add_0_r. split; [exact Hf|reflexivity].
  - destruct fuel as [|f]; [lia|]. inversion Hall as [|? ? Hm Hl]. subst.
    pose proof Hm as (Hty & _).
    rewrite (flat_machines_head m l tail Hty) in *.
    assert (Hc' : (count_leading c_tab (flat_map render_machine l ++ tail) < 2)%nat).
    { destruct l as [|m' l']; [exact Hc|]. inversion Hl as [|? ? (Hty' & _) _]. subst.
      rewrite (flat_machines_head m' l' tail Hty'), line_count. lia. }
    rewrite (machines_loop_step f l0 acc m _ ln Hm Hc' (machines_tail_not_nl l tail Hl Ht)).
    repeat rewrite app_length in Hf. pose proof (line_len 1 Machine (m_opts m)).
    destruct (IH (acc ++ [m]) (ln + lines_machine m) f tail Hl Hc Ht ltac:(rewrite app_length; lia)) as (fuel' & Hf' & Heq).
    exists fuel'. split; [exact Hf'|]. rewrite Heq. rewrite <- app_assoc. cbn [app lines_machines].
    f_equal. lia.
Qed.

Lemma machines_parser_list l rest ln :
  Forall pmachine l -> (count_leading c_tab rest < 1)%nat -> not_nl_head rest ->
  machines_parser get_type (flat_map render_machine l ++ rest) 1 ln
  = Ok (l, rest, ln + lines_machines l).
Proof.
  intros Hall Hc Ht. unfold machines_parser.
  destruct (machines_loop_peel (ln - 1) l [] ln _ rest Hall ltac:(lia) Ht (Nat.lt_succ_diag_r _))
    as (fuel' & Hf' & ->).
  apply machines_loop_exit; [exact Hc|lia].
Qed.

(* ------------------------------------------------------------ the whole file *)

Lemma merge_networks_nodup new : forall acc, NoDup (map fst (acc ++ new)) ->
  merge_networks acc new = Some (acc ++ new).
Proof.
  induction new as [|[id n] new IH]; intros acc Hnd; cbn [merge_networks].
  - rewrite app_nil_r. reflexivity.
  - assert (Hnew : has_id id acc = false).
    { destruct (has_id id acc) eqn:E; [|reflexivity]. apply has_id_in in E.
      rewrite map_app in Hnd. cbn [map fst] in Hnd. apply NoDup_remove_2 in Hnd.
      exfalso. apply Hnd. apply in_or_app. left. exact E. }
    rewrite Hnew. rewrite IH by (rewrite <- app_assoc; exact Hnd). rewrite <- app_assoc. reflexivity.
Qed.

Lemma sim_eta s : {| s_networks := s_networks s; s_machines := s_machines s |} = s.
Proof. destruct s; reflexivity. Qed.

Lemma render_line0 d a tail : render_line 0 d a ++ tail = render_sec d a ++ c_nl :: tail.
Proof. rewrite render_line_app. reflexivity. Qed.

(* core_loop on the canonical rendering, for any sufficient fuel *)
Lemma core_loop_render s fuel : psim s -> (2 < fuel)%nat ->
  core_loop get_type fuel [] [] (render s) 1 = Ok s.
Proof.
  intros (Hn & Hnd & Hm) Hf. unfold render.
  destruct fuel as [|[|[|f]]]; try lia.
  set (tm := render_line 0 Machines [] ++ flat_map render_machine (s_machines s)).
  assert (Cm : (count_leading c_tab tm < 1)%nat) by (unfold tm; rewrite line_count; lia).
  assert (Nm : not_nl_head tm) by apply line_not_nl.
  (* [Networks] *)
  cbn [core_loop]. rewrite (line_is_nil 0 Networks []). rewrite (render_line0 Networks []).
  rewrite (gp_line Networks [] _ 1 pargs_nil (networks_tail_not_nl _ _ Hn Nm)).
  rewrite (networks_parser_list (s_networks s) tm (1 + 1) Hn Hnd Cm Nm).
  rewrite (merge_networks_nodup (s_networks s) [] Hnd). cbn [app].
  (* [Machines] *)
  unfold tm. cbn [core_loop]. rewrite (line_is_nil 0 Machines []).
  rewrite <- (app_nil_r (flat_map render_machine (s_machines s))).
  rewrite (render_line0 Machines []).
  rewrite (gp_line Machines [] _ _ pargs_nil (machines_tail_not_nl _ [] Hm I)).
  rewrite (machines_parser_list (s_machines s) [] _ Hm ltac:(cbn; lia) I). cbn [app].
  (* end of input *)
  cbn [core_loop is_nil]. rewrite sim_eta. reflexivity.
Qed.
