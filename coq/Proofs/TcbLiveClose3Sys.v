(* C03 (d): B closes first.  From a quiescent state: B closes, one loss-free round, A closes, two
   loss-free rounds, and B's 2*MSL timer: both endpoints are released.  For every quiescent state.
   (Not the mirror image of close_sequential: in every round A's half still runs first.) *)
From Elvis Require Import Model.Base Model.U32 Model.Tcb Model.TcpNet
  Proofs.U32Facts Proofs.TcbSafetyDefs Proofs.TcbSafetyBase Proofs.TcbSafetySnd Proofs.TcbSafetyRcv
  Proofs.TcbSafetyArr Proofs.TcbSafetySys Proofs.TcbLive Proofs.TcbLiveSys Proofs.TcbLiveThm
  Proofs.TcbLiveHs Proofs.TcbLiveHsSys Proofs.TcbLiveEnd Proofs.TcbLiveWinRound Proofs.TcbLiveClose
  Proofs.TcbLiveCloseSys.
From Coq Require Import ZifyBool.
Local Open Scope Z_scope.
Ltac Zify.zify_post_hook ::= Z.div_mod_to_equations.

Section CloseB.
  Variable c : config.

  Theorem close_sequential_B s a b : Quiescent c s a b ->
    run c s [LClose SB; LFair 1; LClose SA; LFair 2; LTick SB 2001] =
    mkSys EDead EDead [] [] (subA s) (subB s) (delA s) (delB s) false.
  Proof.
    intros HQ. destruct (quiescent_literal c s a b HQ) as (tA & tB & QA & QB & Es).
    pose proof QA as (_ & _ & _ & _ & _ & _ & _ & _ & _ & _ & _ & _ & _ & _ & Hua & Hub & HmA).
    pose proof QB as (_ & _ & _ & _ & _ & _ & _ & _ & _ & _ & _ & _ & _ & _ & _ & _ & HmB).
    rewrite (quiet_literal tA a b QA), (quiet_literal tB b a QB) in Es.
    generalize dependent (lport tA). generalize dependent (rport tA). generalize dependent (listen_init tA).
    generalize dependent (snd_wl1 tA). generalize dependent (snd_wl2 tA). generalize dependent (snd_iss tA).
    generalize dependent (rcv_irs tA). generalize dependent (mtu tA).
    generalize dependent (lport tB). generalize dependent (rport tB). generalize dependent (listen_init tB).
    generalize dependent (snd_wl1 tB). generalize dependent (snd_wl2 tB). generalize dependent (snd_iss tB).
    generalize dependent (rcv_irs tB). generalize dependent (mtu tB).
    intros mB HmB irsB issB w2B w1B liB rpB lpB mA HmA irsA issA w2A w1A liA rpA lpA Es.
    clear QA QB tA tB.
    generalize dependent (subA s). generalize dependent (subB s).
    generalize dependent (delA s). generalize dependent (delB s).
    intros dB dA sB sA Es. subst s. clear HQ.
    cbn [run fold_left].
    (* ===== B closes ===== *)
    match goal with |- context [sys_step c ?s0 (LClose SB)] => set (s1 := fst (sys_step c s0 (LClose SB))) end.
    close_norm_in s1.
    match goal with s1 := mkSys (ELive ?x) (ELive ?y) _ _ _ _ _ _ _ |- _ => set (tA0 := x) in s1; set (tB1 := y) in s1 end.
    rewrite (fairk c s1 1 eq_refl). cbn [fair_rounds].
    (* ===== round 1, A's half: nothing to do ===== *)
    assert (QA0 : quiet tA0 a b) by (unfold quiet; cbn; splits; auto; lia).
    rewrite (half_idle c s1 SA tA0 tB1 a b eq_refl QA0 eq_refl eq_refl eq_refl). clear QA0.
    (* ===== round 1, B's half: the FIN and its copy; A reaches CLOSE-WAIT ===== *)
    set (finBh := mkHdr lpB rpB b a (mkCtl false true false false false true) 65535 0).
    set (finB := mkSeg finBh []).
    assert (HfinB : fin_ack finBh) by (unfold fin_ack; auto).
    assert (E1 : tcb_segments tB1 = Ok (set_rto (set_retx (set_oneshot tB1 []) [mkTx finB false]) RTO, [finB])).
    { rewrite segments_idle; try reflexivity. cbn. lia. }
    set (tB2 := set_rto _ RTO) in E1.
    pose proof (advance_101 tB2 eq_refl eq_refl) as E2.
    change (retx tB2) with [mkTx finB false] in E2. cbn [map t_seg] in E2.
    set (tB3 := set_retx _ _) in E2.
    assert (E3 : tcb_segments tB3 = Ok (set_rto (set_retx (set_oneshot tB3 []) [mkTx finB false]) RTO, [finB])).
    { rewrite segments_idle; try reflexivity. cbn. lia. }
    set (tB4 := set_rto _ RTO) in E3.
    pose proof (fin_arrives tA0 finBh eq_refl eq_refl eq_refl Hub HfinB eq_refl (mod_leq_refl a)) as G1.
    fold finB in G1.
    rewrite (ps_fin_first (set_in_segs tA0 []) finBh eq_refl eq_refl Hub eq_refl) in G1.
    cbv zeta in G1. cbn [set_in_segs st] in G1. set (tA1 := set_st _ CloseWait) in G1.
    pose proof (fin_again_arrives tA1 finBh eq_refl eq_refl eq_refl HfinB Hub eq_refl (mod_leq_refl a)) as G2.
    fold finB in G2.
    rewrite (ps_fin_again (set_in_segs tA1 []) finBh eq_refl eq_refl Hub eq_refl) in G2.
    cbv zeta in G2. cbn [set_in_segs st tA1 set_st] in G2. set (tA2 := set_oneshot _ _) in G2.
    assert (H1 : fair_half c s1 SB =
      mkSys (ELive (set_in_text tA2 [])) (ELive (set_in_text tB4 [])) [] [] sA sB dA dB false).
    { unfold fair_half, fair_half_t.
      rewrite (tick_eval s1 SB tB1 tB2 [finB] tB3 101 eq_refl E1 E2). subst s1. sys_simpl. cbn [app].
      set (s1' := mkSys _ _ _ _ _ _ _ _ _).
      rewrite (emit_eval s1' SB tB3 tB4 [finB] eq_refl E3). cbn iota beta. subst s1'. sys_simpl. cbn [app length].
      cbn iota.
      rewrite deliver_all_cons with (seg := finB) (rest := [finB]) by reflexivity. sys_simpl.
      erewrite (arrive_eval c _ SA tA0 finB tA1); [|reflexivity|exact G1]. sys_simpl.
      rewrite deliver_all_cons with (seg := finB) (rest := []) by reflexivity. sys_simpl.
      erewrite (arrive_eval c _ SA tA1 finB tA2); [|reflexivity|exact G2]. sys_simpl.
      rewrite deliver_all_nil by reflexivity.
      erewrite (recv_eval_empty _ SA tA2); [|reflexivity|reflexivity]. sys_simpl.
      erewrite (recv_eval_empty _ SB tB4); [|reflexivity|reflexivity]. sys_simpl. reflexivity. }
    rewrite H1. clear H1 E1 E2 E3 G1 G2 HfinB. subst tB4 tB3 tB2 tB1 tA2 tA1 tA0 s1 finB finBh. tcb_norm.
    (* ===== A closes: CLOSE-WAIT -> LAST-ACK ===== *)
    match goal with |- context [sys_step c ?s0 (LClose SA)] => set (s3 := fst (sys_step c s0 (LClose SA))) end.
    close_norm_in s3.
    match goal with s3 := mkSys (ELive ?x) (ELive ?y) _ _ _ _ _ _ _ |- _ => set (tA4 := x) in s3; set (tB5 := y) in s3 end.
    rewrite (fairk c s3 2 eq_refl). cbn [fair_rounds].
    (* ===== round 2, A's half: the two ACKs of B's FIN, then A's FIN and its copy;
             B goes FIN-WAIT-1 -> FIN-WAIT-2 -> TIME-WAIT ===== *)
    set (ackAh := mkHdr lpA rpA a (wadd b 1) (mkCtl false true false false false false) 65535 0).
    set (ackA := mkSeg ackAh []).
    set (finAh := mkHdr lpA rpA a (wadd b 1) (mkCtl false true false false false true) 65535 0).
    set (finA := mkSeg finAh []).
    assert (HackA : ack_only ackAh) by (unfold ack_only; auto).
    assert (HfinA : fin_ack finAh) by (unfold fin_ack; auto).
    assert (L1 : tcb_segments tA4 = Ok (set_rto (set_retx (set_oneshot tA4 []) [mkTx finA false]) RTO, [ackA; ackA; finA])).
    { rewrite segments_idle; try reflexivity. cbn. lia. }
    set (tA5 := set_rto _ RTO) in L1.
    pose proof (advance_101 tA5 eq_refl eq_refl) as L2.
    change (retx tA5) with [mkTx finA false] in L2. cbn [map t_seg] in L2.
    set (tA6 := set_retx _ _) in L2.
    assert (L3 : tcb_segments tA6 = Ok (set_rto (set_retx (set_oneshot tA6 []) [mkTx finA false]) RTO, [finA])).
    { rewrite segments_idle; try reflexivity. cbn. lia. }
    set (tA7 := set_rto _ RTO) in L3.
    destruct (ack_of_fin_finwait1 tB5 ackAh (mkTx (mkSeg (mkHdr lpB rpB b a (mkCtl false true false false false true) 65535 0) []) false)
                eq_refl eq_refl eq_refl eq_refl Hua HackA eq_refl Hub eq_refl eq_refl eq_refl eq_refl eq_refl)
      as (w & wl1 & wl2 & G1 & Hwv).
    assert (Hw : w = 65535) by (destruct Hwv as [-> | ->]; reflexivity). subst w. clear Hwv.
    fold ackA in G1. set (tB6 := set_st _ FinWait2) in G1.
    assert (G2 : segment_arrives tB6 ackA = Ok (set_in_segs tB6 [], AOk)).
    { apply ack_noop_arrives; try reflexivity; try assumption. apply mod_leq_refl. }
    set (tB7 := set_in_segs tB6 []) in G2.
    pose proof (fin_arrives tB7 finAh eq_refl eq_refl eq_refl Hua HfinA eq_refl (mod_leq_refl (wadd b 1))) as M1.
    fold finA in M1.
    rewrite (ps_fin_first (set_in_segs tB7 []) finAh eq_refl eq_refl Hua eq_refl) in M1.
    cbv zeta in M1. change (st (set_in_segs tB7 [])) with FinWait2 in M1. cbv iota in M1.
    set (tB8 := set_rto _ RTO) in M1.
    pose proof (fin_in_timewait tB8 finAh eq_refl eq_refl eq_refl HfinA Hua eq_refl) as M2.
    cbv zeta in M2. fold finA in M2. set (tB9 := set_time_wait _ _) in M2.
    assert (H4 : fair_half c s3 SA =
      mkSys (ELive (set_in_text tA7 [])) (ELive (set_in_text tB9 [])) [] [] sA sB dA dB false).
    { unfold fair_half, fair_half_t.
      rewrite (tick_eval s3 SA tA4 tA5 [ackA; ackA; finA] tA6 101 eq_refl L1 L2). subst s3. sys_simpl. cbn [app].
      set (s3' := mkSys _ _ _ _ _ _ _ _ _).
      rewrite (emit_eval s3' SA tA6 tA7 [finA] eq_refl L3). cbn iota beta. subst s3'. sys_simpl. cbn [app length].
      cbn iota.
      rewrite deliver_all_cons with (seg := ackA) (rest := [ackA; finA; finA]) by reflexivity. sys_simpl.
      erewrite (arrive_eval c _ SB tB5 ackA tB6); [|reflexivity|exact G1]. sys_simpl.
      rewrite deliver_all_cons with (seg := ackA) (rest := [finA; finA]) by reflexivity. sys_simpl.
      erewrite (arrive_eval c _ SB tB6 ackA tB7); [|reflexivity|exact G2]. sys_simpl.
      rewrite deliver_all_cons with (seg := finA) (rest := [finA]) by reflexivity. sys_simpl.
      erewrite (arrive_eval c _ SB tB7 finA tB8); [|reflexivity|exact M1]. sys_simpl.
      rewrite deliver_all_cons with (seg := finA) (rest := []) by reflexivity. sys_simpl.
      erewrite (arrive_eval c _ SB tB8 finA tB9); [|reflexivity|exact M2]. sys_simpl.
      rewrite deliver_all_nil by reflexivity.
      erewrite (recv_eval_empty _ SA tA7); [|reflexivity|reflexivity]. sys_simpl.
      erewrite (recv_eval_empty _ SB tB9); [|reflexivity|reflexivity]. sys_simpl. reflexivity. }
    rewrite H4. clear H4 L1 L2 L3 G1 G2 M1 M2 HfinA HackA.
    subst tB9 tB8 tB7 tB6 tB5 tA7 tA6 tA5 tA4 s3 finA finAh ackA ackAh. tcb_norm.
    match goal with |- context [mkSys (ELive ?x) (ELive ?y)] => set (tA8 := x); set (tB10 := y) end.
    set (s5 := mkSys _ _ _ _ _ _ _ _ _).
    (* ===== round 2, B's half: the ACKs of A's FIN; A's TCB is deleted ===== *)
    set (kh := mkHdr lpB rpB (wadd b 1) (wadd a 1) (mkCtl false true false false false false) 65535 0).
    set (k := mkSeg kh []).
    assert (Hk : ack_only kh) by (unfold ack_only; auto).
    assert (N1 : tcb_segments tB10 = Ok (set_retx (set_oneshot tB10 []) [], [k; k; k])).
    { rewrite segments_idle; try reflexivity. cbn. lia. }
    set (tB11 := set_retx _ _) in N1.
    pose proof (advance_101_tw tB11 MSL2 eq_refl eq_refl ltac:(unfold MSL2; lia)) as N2.
    change (retx tB11) with (@nil transmit) in N2. cbn [map] in N2.
    set (tB12 := set_time_wait _ _) in N2.
    assert (N3 : tcb_segments tB12 = Ok (set_retx (set_oneshot tB12 []) [], [])).
    { rewrite segments_idle; try reflexivity. cbn. lia. }
    set (tB13 := set_retx _ _) in N3.
    destruct (ack_of_fin_lastack tA8 kh
                (mkTx (mkSeg (mkHdr lpA rpA a (wadd b 1) (mkCtl false true false false false true) 65535 0) []) false)
                eq_refl eq_refl eq_refl eq_refl (wadd_u32 b 1) Hk eq_refl Hua eq_refl eq_refl eq_refl eq_refl eq_refl)
      as (tA9 & P1 & P2).
    fold k in P1. change (in_text tA8) with (@nil Z) in P2.
    assert (H5 : fair_half c s5 SB =
      mkSys EDead (ELive (set_in_text tB13 [])) [] [] sA sB dA dB false).
    { unfold fair_half, fair_half_t.
      rewrite (tick_eval s5 SB tB10 tB11 [k; k; k] tB12 101 eq_refl N1 N2). subst s5. sys_simpl. cbn [app].
      set (s5' := mkSys _ _ _ _ _ _ _ _ _).
      rewrite (emit_eval s5' SB tB12 tB13 [] eq_refl N3). cbn iota beta. subst s5'. sys_simpl. cbn [app length].
      cbn iota.
      rewrite deliver_all_cons with (seg := k) (rest := [k; k]) by reflexivity. sys_simpl.
      erewrite (arrive_close_eval c _ SA tA8 k tA9); [|reflexivity|exact P1].
      rewrite (final_read_nil _ SA tA9 P2). sys_simpl.
      rewrite deliver_all_cons with (seg := k) (rest := [k]) by reflexivity. sys_simpl.
      rewrite arrive_dead by reflexivity.
      rewrite deliver_all_cons with (seg := k) (rest := []) by reflexivity. sys_simpl.
      rewrite arrive_dead by reflexivity.
      rewrite deliver_all_nil by reflexivity.
      rewrite (recv_dead _ SA) by reflexivity.
      erewrite (recv_eval_empty _ SB tB13); [|reflexivity|reflexivity]. sys_simpl. reflexivity. }
    rewrite H5. clear H5 N1 N2 N3 P1 P2. subst tB13 tB12 tB11 tB10 s5. clear tA8 tA9. tcb_norm.
    match goal with |- context [mkSys EDead (ELive ?y)] => set (tB14 := y) end.
    set (s6 := mkSys _ _ _ _ _ _ _ _ _).
    (* ===== round 3, A's half: nothing (A is released) ===== *)
    rewrite (half_dead c s6 SA tB14 eq_refl eq_refl eq_refl eq_refl).
    (* ===== round 3, B's half: B waits in TIME-WAIT ===== *)
    assert (K1 : tcb_segments tB14 = Ok (set_retx (set_oneshot tB14 []) [], [])).
    { rewrite segments_idle; try reflexivity. cbn. lia. }
    set (tB15 := set_retx _ _) in K1.
    pose proof (advance_101_tw tB15 (MSL2 - 101) eq_refl eq_refl ltac:(unfold MSL2; lia)) as K2.
    change (retx tB15) with (@nil transmit) in K2. cbn [map] in K2.
    set (tB16 := set_time_wait _ _) in K2.
    assert (K3 : tcb_segments tB16 = Ok (set_retx (set_oneshot tB16 []) [], [])).
    { rewrite segments_idle; try reflexivity. cbn. lia. }
    set (tB17 := set_retx _ _) in K3.
    assert (H6 : fair_half c s6 SB =
      mkSys EDead (ELive (set_in_text tB17 [])) [] [] sA sB dA dB false).
    { unfold fair_half, fair_half_t.
      rewrite (tick_eval s6 SB tB14 tB15 [] tB16 101 eq_refl K1 K2). subst s6. sys_simpl. cbn [app].
      set (s6' := mkSys _ _ _ _ _ _ _ _ _).
      rewrite (emit_eval s6' SB tB16 tB17 [] eq_refl K3). cbn iota beta. subst s6'. sys_simpl. cbn [app length].
      cbn iota. rewrite deliver_all_nil by reflexivity.
      rewrite (recv_dead _ SA) by reflexivity.
      erewrite (recv_eval_empty _ SB tB17); [|reflexivity|reflexivity]. sys_simpl. reflexivity. }
    rewrite H6. clear H6 K1 K2 K3. subst tB17 tB16 tB15 tB14 s6. tcb_norm.
    match goal with |- context [mkSys EDead (ELive ?y)] => set (tB18 := y) end.
    set (s7 := mkSys _ _ _ _ _ _ _ _ _).
    (* ===== B's 2*MSL timer ===== *)
    assert (R1 : tcb_segments tB18 = Ok (set_retx (set_oneshot tB18 []) [], [])).
    { rewrite segments_idle; try reflexivity. cbn. lia. }
    set (tB19 := set_retx _ _) in R1.
    unfold sys_step. cbn [panicked s7]. unfold tick.
    rewrite (emit_eval s7 SB tB18 tB19 [] eq_refl R1). cbn iota beta. subst s7. sys_simpl. cbn [app].
    pose proof (advance_expire tB19 (MSL2 - 101 - 101) 2001 eq_refl ltac:(unfold MSL2; lia)) as R2.
    pose proof (advance_in_text tB19 2001) as R3. change (in_text tB19) with (@nil Z) in R3.
    destruct (advance_time tB19 2001) as [tB20 r]. cbn [fst snd] in R2, R3. subst r.
    cbn [fst]. rewrite (final_read_nil _ SB tB20 R3). sys_simpl. reflexivity.
  Qed.
End CloseB.

Definition close_trace_B : list label := [LClose SB; LFair 1; LClose SA; LFair 2; LTick SB 2001].

Lemma release_B_explicit : forall (c : config) (s : sys) (a b : Z),
  Quiescent c s a b ->
  let s' := run c s close_trace_B in
  endA s' = EDead /\ endB s' = EDead /\ netA s' = [] /\ netB s' = [] /\ panicked s' = false /\
  subA s' = subA s /\ subB s' = subB s /\ delivered s' SA = delivered s SA /\ delivered s' SB = delivered s SB.
Proof.
  intros c s a b HQ s'. subst s'. unfold close_trace_B. rewrite (close_sequential_B c s a b HQ).
  cbn. auto 10.
Qed.

Lemma lifecycle_B_explicit : forall (c : config) (listenB : bool) (ws : list (side * list Z)),
  u32 (issA c) -> u32 (issB c) -> 100 <= mtuA c <= 65535 -> 100 <= mtuB c <= 65535 ->
  (forall w, In w ws -> 0 < zlen (snd w)) ->
  let s := run c (init_sys listenB) (open_trace listenB ++ any_write_trace ws ++ close_trace_B) in
  endA s = EDead /\ endB s = EDead /\ netA s = [] /\ netB s = [] /\ panicked s = false /\
  forall x, sub_of s x = concat (chunks x ws) /\ delivered s (other x) = concat (chunks x ws).
Proof.
  intros c listenB ws H1 H2 H3 H4 Hw s. subst s. rewrite app_assoc, run_app.
  destruct (from_start_any_explicit c listenB ws H1 H2 H3 H4 Hw) as ((a & b & HQ) & Hx).
  set (s0 := run c (init_sys listenB) (open_trace listenB ++ any_write_trace ws)) in *.
  destruct (release_B_explicit c s0 a b HQ) as (R1 & R2 & R3 & R4 & R5 & R6 & R7 & R8 & R9).
  cbv zeta in *. splits; auto.
  intros x. destruct (Hx x) as [A B].
  destruct x; cbn [other sub_of] in *; rewrite ?R6, ?R7, ?R8, ?R9; auto.
Qed.
