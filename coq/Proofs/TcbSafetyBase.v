(* List, heap and slice lemmas used by the TCP safety proof. *)
From Elvis Require Import Model.Base Model.U32 Model.Tcb Proofs.U32Facts.
From Coq Require Import ZifyBool.
Local Open Scope Z_scope.
Ltac Zify.zify_post_hook ::= Z.div_mod_to_equations.

(* ---------- zlen ---------- *)
Lemma zlen_nil {A} : zlen (@nil A) = 0.
Proof. reflexivity. Qed.
Lemma zlen_app {A} (a b : list A) : zlen (a ++ b) = zlen a + zlen b.
Proof. unfold zlen. rewrite app_length. lia. Qed.
Lemma zlen_nonneg {A} (a : list A) : 0 <= zlen a.
Proof. unfold zlen. lia. Qed.
Lemma zlen_cons {A} (x : A) l : zlen (x :: l) = 1 + zlen l.
Proof. unfold zlen. cbn [length]. lia. Qed.
Lemma zlen_zero_nil {A} (l : list A) : zlen l = 0 -> l = [].
Proof. destruct l; [reflexivity|]. rewrite zlen_cons. pose proof (zlen_nonneg l). lia. Qed.
Lemma zlen_firstn {A} (n : nat) (l : list A) : zlen (firstn n l) = Z.min (Z.of_nat n) (zlen l).
Proof. unfold zlen. rewrite firstn_length. lia. Qed.
Lemma zlen_skipn {A} (n : nat) (l : list A) : zlen (skipn n l) = Z.max 0 (zlen l - Z.of_nat n).
Proof. unfold zlen. rewrite skipn_length. lia. Qed.

(* ---------- slices ---------- *)
Lemma skipn_skipn {A} (a b : nat) (l : list A) : skipn a (skipn b l) = skipn (b + a) l.
Proof.
  revert l. induction b as [|b IH]; intros l; cbn [Nat.add skipn]; [reflexivity|].
  destruct l; [now rewrite skipn_nil | apply IH].
Qed.

Lemma skipn_firstn_slice {A} (a l : nat) (S : list A) :
  (a <= l)%nat -> skipn a (firstn l S) = firstn (l - a) (skipn a S).
Proof. intros H. rewrite skipn_firstn_comm. reflexivity. Qed.

Lemma firstn_firstn_min {A} (a b : nat) (l : list A) : firstn a (firstn b l) = firstn (Nat.min a b) l.
Proof. apply firstn_firstn. Qed.

Lemma firstn_app_slice {A} (n m : nat) (S : list A) :
  firstn n S ++ firstn m (skipn n S) = firstn (n + m) S.
Proof.
  revert S. induction n as [|n IH]; intros S; cbn [firstn skipn Nat.add app]; [reflexivity|].
  destruct S; cbn [app]; [now rewrite firstn_nil | now rewrite IH].
Qed.

Lemma firstn_app_stable {A} (n : nat) (S more : list A) :
  (n <= length S)%nat -> firstn n (S ++ more) = firstn n S.
Proof.
  intros H. rewrite firstn_app. replace (n - length S)%nat with O by lia.
  cbn [firstn]. apply app_nil_r.
Qed.

Lemma slice_app_stable {A} (off len : nat) (S more : list A) :
  (off + len <= length S)%nat ->
  firstn len (skipn off (S ++ more)) = firstn len (skipn off S).
Proof.
  intros H. rewrite skipn_app. replace (off - length S)%nat with O by lia. cbn [skipn].
  apply firstn_app_stable. rewrite skipn_length. lia.
Qed.

Lemma skipn_app_suffix {A} (n : nat) (S more : list A) :
  (n <= length S)%nat -> skipn n (S ++ more) = skipn n S ++ more.
Proof. intros H. rewrite skipn_app. replace (n - length S)%nat with O by lia. reflexivity. Qed.

(* the piece the receiver appends *)
Lemma slice_of_slice {A} (already accept off len : nat) (S : list A) :
  (already <= len)%nat -> (accept <= len - already)%nat ->
  firstn accept (skipn already (firstn len (skipn off S))) = firstn accept (skipn (off + already) S).
Proof.
  intros H1 H2. rewrite skipn_firstn_slice by assumption. rewrite skipn_skipn.
  rewrite firstn_firstn. f_equal. lia.
Qed.

Lemma concat_snoc {A} (l : list (list A)) (x : list A) : concat (l ++ [x]) = concat l ++ x.
Proof. rewrite concat_app. cbn [concat]. now rewrite app_nil_r. Qed.

(* ---------- heap: every element of the output is an element of the input ---------- *)
Section HeapForall.
  Variable P : segment -> Prop.

  Lemma set_nth_Forall (l : list segment) i x : Forall P l -> P x -> Forall P (set_nth l i x).
  Proof.
    revert i. induction l as [|y r IH]; intros i Hl Hx; cbn [set_nth]; [constructor|].
    inversion Hl; subst. destruct i; constructor; auto.
  Qed.

  Lemma get_or_P (l : list segment) i x : Forall P l -> P x -> P (get_or l i x).
  Proof.
    intros Hl Hx. unfold get_or. destruct (nth_error l i) eqn:E; [|assumption].
    apply nth_error_In in E. rewrite Forall_forall in Hl. auto.
  Qed.

  Lemma sift_up_Forall fuel : forall v pos x, Forall P v -> P x -> Forall P (sift_up fuel v pos x).
  Proof.
    induction fuel as [|f IH]; intros v pos x Hv Hx; cbn [sift_up].
    - apply set_nth_Forall; assumption.
    - destruct pos; [apply set_nth_Forall; assumption|].
      destruct (seg_le x _).
      + apply set_nth_Forall; assumption.
      + apply IH; [|assumption]. apply set_nth_Forall; [assumption|]. apply get_or_P; assumption.
  Qed.

  Lemma heap_push_Forall v x : Forall P v -> P x -> Forall P (heap_push v x).
  Proof.
    intros Hv Hx. unfold heap_push. apply sift_up_Forall; [|assumption].
    apply Forall_app; split; [assumption|constructor; [assumption|constructor]].
  Qed.

  Lemma sift_down_Forall fuel : forall v pos x, Forall P v -> P x ->
    Forall P (fst (sift_down fuel v pos x)).
  Proof.
    induction fuel as [|f IH]; intros v pos x Hv Hx; cbn [sift_down]; [assumption|].
    destruct (_ && _).
    - apply IH; [|assumption]. apply set_nth_Forall; [assumption|]. apply get_or_P; assumption.
    - destruct (_ && _); cbn [fst]; [|assumption].
      apply set_nth_Forall; [assumption|]. apply get_or_P; assumption.
  Qed.

  Lemma heap_pop_Forall v s rest : Forall P v -> heap_pop v = Some (s, rest) -> P s /\ Forall P rest.
  Proof.
    intros Hv. unfold heap_pop.
    destruct (rev v) as [|last rinit] eqn:E; [discriminate|].
    assert (Hr : Forall P (last :: rinit)) by (rewrite <- E; apply Forall_rev; assumption).
    inversion Hr as [|? ? Hlast Hrinit]; subst.
    assert (Hi : Forall P (rev rinit)) by (apply Forall_rev; assumption).
    destruct (rev rinit) as [|top r'] eqn:E2.
    - intros [= <- <-]. split; [assumption|constructor].
    - generalize (S (length (top :: r'))) as fuel; intros fuel.
      pose proof (sift_down_Forall fuel (top :: r') O last Hi Hlast) as Hsd.
      destruct (sift_down _ _ _ _) as [v1 pos]. cbn [fst] in Hsd.
      intros [= <- <-]. split; [inversion Hi; assumption|].
      apply sift_up_Forall; assumption.
  Qed.
End HeapForall.

Lemma heap_pop_nonempty v x : heap_peek v = Some x -> heap_pop v <> None.
Proof.
  unfold heap_peek, heap_pop. destruct v as [|y r]; [discriminate|]. intros _.
  destruct (rev (y :: r)) as [|last rinit] eqn:E.
  - apply (f_equal (@length _)) in E. rewrite rev_length in E. discriminate.
  - destruct (rev rinit); [discriminate|]. destruct (sift_down _ _ _ _). discriminate.
Qed.

Lemma set_nth_length {A} (l : list A) i x : length (set_nth l i x) = length l.
Proof. revert i. induction l; intros i; cbn [set_nth]; [reflexivity|]. destruct i; cbn [length]; auto. Qed.

Lemma sift_up_length fuel : forall v pos x, length (sift_up fuel v pos x) = length v.
Proof.
  induction fuel as [|f IH]; intros v pos x; cbn [sift_up]; [apply set_nth_length|].
  destruct pos; [apply set_nth_length|].
  destruct (seg_le x _); [apply set_nth_length|]. rewrite IH. apply set_nth_length.
Qed.

Lemma sift_down_length fuel : forall v pos x, length (fst (sift_down fuel v pos x)) = length v.
Proof.
  induction fuel as [|f IH]; intros v pos x; cbn [sift_down]; [reflexivity|].
  destruct (_ && _); [rewrite IH; apply set_nth_length|].
  destruct (_ && _); cbn [fst]; [apply set_nth_length|reflexivity].
Qed.

Lemma heap_push_length v x : length (heap_push v x) = S (length v).
Proof. unfold heap_push. rewrite sift_up_length, app_length. cbn [length]. lia. Qed.

Lemma heap_pop_length v s rest : heap_pop v = Some (s, rest) -> length v = S (length rest).
Proof.
  unfold heap_pop. destruct (rev v) as [|last rinit] eqn:E; [discriminate|].
  assert (Hl : length v = S (length rinit)) by (rewrite <- (rev_length v), E; reflexivity).
  destruct (rev rinit) as [|top r'] eqn:E2.
  - intros [= <- <-]. rewrite Hl. rewrite <- (rev_length rinit), E2. reflexivity.
  - generalize (S (length (top :: r'))) as fuel; intros fuel.
    pose proof (sift_down_length fuel (top :: r') O last) as Hsd.
    destruct (sift_down _ _ _ _) as [v1 pos]. cbn [fst] in Hsd.
    intros [= <- <-]. rewrite sift_up_length, Hsd, <- E2, rev_length. assumption.
Qed.
