(* Facts about the fragmentation model: basic lemmas, the Prop reading of the
   executable partition predicate, and correctness of one fragmentation. *)
From Elvis Require Import Model.Base Model.Frag.
From Coq Require Import ZifyBool.
Local Open Scope Z_scope.
Ltac Zify.zify_post_hook ::= Z.div_mod_to_equations.

(* ------------------------------------------------------------ flags *)

Lemma land_set_mf_2 f : Z.land (set_mf f) 2 = Z.land f 2.
Proof.
  unfold set_mf. rewrite Z.land_lor_distr_l, <- Z.land_assoc.
  change (Z.land 2 2) with 2. change (Z.land 1 2) with 0. apply Z.lor_0_r.
Qed.

Lemma set_mf_idem f : set_mf (set_mf f) = set_mf f.
Proof. unfold set_mf at 1. rewrite land_set_mf_2. reflexivity. Qed.

Lemma may_fragment_set_mf f : may_fragment (set_mf f) = may_fragment f.
Proof. unfold may_fragment. rewrite land_set_mf_2. reflexivity. Qed.

Lemma is_last_set_mf f : is_last_fragment (set_mf f) = false.
Proof.
  unfold is_last_fragment, set_mf. rewrite Z.land_lor_distr_l, <- Z.land_assoc.
  change (Z.land 2 1) with 0. change (Z.land 1 1) with 1.
  rewrite Z.land_0_r. reflexivity.
Qed.

(* for the flag values a parsed header can carry (reserved bit clear) the
   first-fragment flags are the original flags with the MF bit set *)
Lemma set_mf_valid f : 0 <= f < 4 ->
  set_mf f = Z.lor f 1 /\ 0 <= set_mf f < 4.
Proof.
  intros Hf. assert (Hc : f = 0 \/ f = 1 \/ f = 2 \/ f = 3) by lia.
  destruct Hc as [-> | [-> | [-> | ->]]]; cbv; repeat split; congruence.
Qed.

(* a set reserved bit is not carried over to the non-final fragments *)
Lemma set_mf_drops_reserved : set_mf 4 = 1.
Proof. reflexivity. Qed.

(* ------------------------------------------------------------ records *)

Lemma others_eqb_spec a b : others_eqb a b = true <-> a = b.
Proof.
  destruct a as [a1 a2 a3 a4 a5 a6 a7], b as [b1 b2 b3 b4 b5 b6 b7].
  unfold others_eqb. cbn [tos ident ttl proto cksum src dst]. split.
  - intros H. f_equal; lia.
  - intros H. injection H as -> -> -> -> -> -> ->. lia.
Qed.

Lemma others_eqb_refl a : others_eqb a a = true.
Proof. apply others_eqb_spec. reflexivity. Qed.

Lemma hdr_eqb_spec a b : hdr_eqb a b = true <-> a = b.
Proof.
  destruct a as [i1 t1 f1 g1 o1], b as [i2 t2 f2 g2 o2]. unfold hdr_eqb.
  cbn [ihl total_length fragment_offset flags oth]. split.
  - intros H. apply andb_prop in H. destruct H as [H Ho].
    apply others_eqb_spec in Ho. subst. f_equal; lia.
  - intros H. injection H as -> -> -> -> ->. rewrite others_eqb_refl. lia.
Qed.

Section Facts.
Context {A : Type}.

Definition len (l : list A) : Z := Z.of_nat (length l).

Lemma len_nonneg l : 0 <= len l.
Proof. unfold len. lia. Qed.

Lemma len_app a b : len (a ++ b) = len a + len b.
Proof. unfold len. rewrite app_length. lia. Qed.

Lemma len_nil_iff l : len l = 0 <-> l = [].
Proof. unfold len. destruct l; cbn [length]; split; intros H; try reflexivity; try discriminate; lia. Qed.

(* ------------------------------------------------------------ cut *)

Lemma cut_spec : forall n (l : list A), (n <= length l)%nat ->
  cut n l = Some (firstn n l, skipn n l).
Proof.
  induction n as [|n IH]; intros l Hn.
  - reflexivity.
  - destruct l as [|x t]; cbn [length] in Hn; [lia|].
    cbn [cut firstn skipn]. rewrite IH by lia. reflexivity.
Qed.

Lemma cut_none : forall n (l : list A), (length l < n)%nat -> cut n l = None.
Proof.
  induction n as [|n IH]; intros l Hn; [lia|].
  destruct l as [|x t]; cbn [cut]; [reflexivity|].
  cbn [length] in Hn. rewrite IH by lia. reflexivity.
Qed.

(* ------------------------------------------------------------ list_eqb *)

Lemma list_eqb_spec (eqb : A -> A -> bool) :
  (forall x y, eqb x y = true <-> x = y) ->
  forall a b, list_eqb eqb a b = true <-> a = b.
Proof.
  intros He. induction a as [|x a IH]; intros [|y b]; cbn [list_eqb]; split; intros H;
    try reflexivity; try discriminate.
  - apply andb_prop in H. destruct H as [H1 H2]. apply He in H1. apply IH in H2. congruence.
  - injection H as -> ->. apply andb_true_intro. split; [apply He | apply IH]; reflexivity.
Qed.

(* ------------------------------------------------------------ sums of payload lengths *)

Fixpoint sumlen (frs : list (frag A)) : Z :=
  match frs with [] => 0 | f :: t => plen f + sumlen t end.

Lemma plen_nonneg (f : frag A) : 0 <= plen f.
Proof. unfold plen. lia. Qed.

Lemma sumlen_nonneg frs : 0 <= sumlen frs.
Proof. induction frs as [|f t IH]; cbn [sumlen]; [lia|]. pose proof (plen_nonneg f). lia. Qed.

Lemma sumlen_app a b : sumlen (a ++ b) = sumlen a + sumlen b.
Proof. induction a as [|f t IH]; cbn [sumlen app]; [lia|]. rewrite IH. lia. Qed.

Lemma len_payloads (frs : list (frag A)) : len (concat (map snd frs)) = sumlen frs.
Proof.
  induction frs as [|f t IH]; cbn [map concat sumlen]; [reflexivity|].
  rewrite len_app, IH. reflexivity.
Qed.

Lemma sumlen_firstn_le : forall i (frs : list (frag A)) f, nth_error frs i = Some f ->
  sumlen (firstn i frs) + plen f <= sumlen frs.
Proof.
  induction i as [|i IH]; intros [|g t] f H; cbn [nth_error] in H; try discriminate.
  - injection H as ->. cbn [firstn sumlen]. pose proof (sumlen_nonneg t). lia.
  - cbn [firstn sumlen]. specialize (IH t f H). lia.
Qed.

(* ------------------------------------------------------------ Prop reading *)

(* piece f of the datagram with header o: f's payload starts [acc] bytes into
   o's payload; [last] = f ends the datagram *)
Definition PieceOK (o : hdr) (mtu acc : Z) (last : bool) (f : frag A) : Prop :=
  total_length (fst f) <= mtu /\
  total_length (fst f) = 4 * ihl o + plen f /\
  ihl (fst f) = ihl o /\
  oth (fst f) = oth o /\
  8 * fragment_offset (fst f) = 8 * fragment_offset o + acc /\
  (if last then flags (fst f) = flags o
   else flags (fst f) = set_mf (flags o) /\ plen f mod 8 = 0).

Lemma piece_ok_iff o mtu acc last f :
  piece_ok o mtu acc last f = true <-> PieceOK o mtu acc last f.
Proof.
  unfold piece_ok, PieceOK. rewrite !andb_true_iff, others_eqb_spec.
  destruct last; [|rewrite andb_true_iff]; intuition lia.
Qed.

Record Partition (o : hdr) (body : list A) (mtu : Z) (frs : list (frag A)) : Prop := {
  P_some : frs <> [];
  P_payload : concat (map snd frs) = body;
  P_piece : forall i f, nth_error frs i = Some f ->
      PieceOK o mtu (sumlen (firstn i frs)) (Nat.eqb (S i) (length frs)) f;
  P_nondeg : length frs = 1%nat \/ Forall (fun f : frag A => snd f <> []) frs }.

Lemma pieces_ok_iff : forall frs o mtu acc more,
  pieces_ok o mtu acc more frs = true <->
  (forall i f, nth_error frs i = Some f ->
     PieceOK o mtu (acc + sumlen (firstn i frs)) (Nat.eqb (S i) (length frs) && negb more) f).
Proof.
  induction frs as [|g rest IH]; intros o mtu acc more; cbn [pieces_ok].
  - split; [|reflexivity]. intros _ [|i] f H; discriminate.
  - split.
    + intros H. apply andb_prop in H. destruct H as [Hg Hrest].
      apply piece_ok_iff in Hg. rewrite IH in Hrest.
      intros [|i] f Hn; cbn [nth_error] in Hn.
      * injection Hn as <-. cbn [firstn sumlen length]. rewrite Z.add_0_r.
        replace (Nat.eqb 1 (S (length rest))) with (is_nil rest) by (destruct rest; reflexivity).
        exact Hg.
      * specialize (Hrest i f Hn). cbn [firstn sumlen length].
        replace (acc + (plen g + sumlen (firstn i rest))) with (acc + plen g + sumlen (firstn i rest)) by lia.
        exact Hrest.
    + intros H. apply andb_true_intro. split.
      * apply piece_ok_iff. specialize (H 0%nat g eq_refl).
        cbn [firstn sumlen length] in H. rewrite Z.add_0_r in H.
        replace (Nat.eqb 1 (S (length rest))) with (is_nil rest) in H by (destruct rest; reflexivity).
        exact H.
      * apply IH. intros i f Hn. specialize (H (S i) f Hn).
        cbn [firstn sumlen length] in H.
        replace (acc + (plen g + sumlen (firstn i rest))) with (acc + plen g + sumlen (firstn i rest)) in H by lia.
        exact H.
Qed.

Lemma nondeg_ok_iff (frs : list (frag A)) :
  nondeg_ok frs = true <-> (length frs = 1%nat \/ Forall (fun f : frag A => snd f <> []) frs).
Proof.
  assert (HF : forall l : list (frag A),
             forallb (fun f => negb (is_nil (snd f))) l = true <-> Forall (fun f : frag A => snd f <> []) l).
  { intros l. rewrite forallb_forall, Forall_forall. split; intros H f Hin; specialize (H f Hin).
    - destruct (snd f); [discriminate | congruence].
    - destruct (snd f); [congruence | reflexivity]. }
  unfold nondeg_ok. destruct frs as [|a [|b t]].
  - rewrite HF. split; intros _; [right; constructor | constructor].
  - split; intros _; [left|]; reflexivity.
  - rewrite HF. split; [intros H; right; exact H | intros [H|H]; [discriminate | exact H]].
Qed.

(* the boolean conjunction used everywhere below *)
Lemma Partition_alt o body mtu frs :
  Partition o body mtu frs <->
  (frs <> [] /\ concat (map snd frs) = body /\ pieces_ok o mtu 0 false frs = true /\ nondeg_ok frs = true).
Proof.
  split.
  - intros [H1 H2 H3 H4]. repeat split; try assumption.
    + apply pieces_ok_iff. intros i f Hn. rewrite Z.add_0_l, andb_true_r. apply H3, Hn.
    + apply nondeg_ok_iff, H4.
  - intros (H1 & H2 & H3 & H4). constructor; try assumption.
    + intros i f Hn. rewrite pieces_ok_iff in H3. specialize (H3 i f Hn).
      rewrite Z.add_0_l, andb_true_r in H3. exact H3.
    + apply nondeg_ok_iff, H4.
Qed.

Lemma partition_ok_iff (eqb : A -> A -> bool) :
  (forall x y, eqb x y = true <-> x = y) ->
  forall o body mtu frs, partition_ok eqb o body mtu frs = true <-> Partition o body mtu frs.
Proof.
  intros He o body mtu frs. rewrite Partition_alt. unfold partition_ok.
  rewrite !andb_true_iff, (list_eqb_spec eqb He).
  assert (Hn : negb (is_nil frs) = true <-> frs <> []).
  { destruct frs; cbn; split; intros H; congruence. }
  rewrite Hn. tauto.
Qed.

(* the predicate only looks at o's ihl, other fields, flags and (offset + acc) *)
Lemma piece_ok_shift o o' mtu acc acc' last (f : frag A) :
  ihl o' = ihl o -> oth o' = oth o -> flags o' = flags o ->
  8 * fragment_offset o' + acc' = 8 * fragment_offset o + acc ->
  piece_ok o' mtu acc' last f = piece_ok o mtu acc last f.
Proof. intros Hi Ho Hf Hfo. unfold piece_ok. rewrite Hi, Ho, Hf, Hfo. reflexivity. Qed.

Lemma pieces_ok_shift : forall (frs : list (frag A)) o o' mtu acc acc' more,
  ihl o' = ihl o -> oth o' = oth o -> flags o' = flags o ->
  8 * fragment_offset o' + acc' = 8 * fragment_offset o + acc ->
  pieces_ok o' mtu acc' more frs = pieces_ok o mtu acc more frs.
Proof.
  induction frs as [|f rest IH]; intros o o' mtu acc acc' more Hi Ho Hf Hfo; cbn [pieces_ok]; [reflexivity|].
  rewrite (piece_ok_shift o o' mtu acc acc') by assumption.
  rewrite (IH o o' mtu (acc + plen f) (acc' + plen f)) by (try assumption; lia).
  reflexivity.
Qed.

(* ------------------------------------------------------------ hypotheses *)

Definition Valid (h : hdr) (body : list A) : Prop :=
  0 <= ihl h /\
  total_length h = 4 * ihl h + len body /\
  0 <= fragment_offset h /\
  fragment_offset h + len body / 8 <= U16MAX.

Definition MtuOk (h : hdr) (mtu : Z) : Prop := 4 * ihl h + 8 <= mtu /\ mtu <= U16MAX.

Lemma valid_ok_iff h body : valid_ok h body = true <-> Valid h body.
Proof. unfold valid_ok, Valid, len, U16MAX. lia. Qed.

Lemma mtu_ok_iff h mtu : mtu_ok h mtu = true <-> MtuOk h mtu.
Proof. unfold mtu_ok, MtuOk, U16MAX. lia. Qed.

(* what a parsed IPv4 header guarantees: 13-bit offset, 16-bit total length *)
Lemma Valid_of_fields h body :
  0 <= ihl h -> total_length h = 4 * ihl h + len body -> total_length h <= U16MAX ->
  0 <= fragment_offset h <= 8191 -> Valid h body.
Proof. unfold Valid, U16MAX. intros. pose proof (len_nonneg body). repeat split; lia. Qed.

(* ------------------------------------------------------------ the recursion *)

Lemma mul16_ok s a b : 0 <= a * b <= U16MAX -> mul16 s a b = Ok (a * b).
Proof. unfold mul16. intros H. destruct (a * b >? U16MAX) eqn:E; [lia | reflexivity]. Qed.
Lemma add16_ok s a b : a + b <= U16MAX -> add16 s a b = Ok (a + b).
Proof. unfold add16. intros H. destruct (a + b >? U16MAX) eqn:E; [lia | reflexivity]. Qed.
Lemma sub16_ok s a b : b <= a -> sub16 s a b = Ok (a - b).
Proof. unfold sub16. intros H. destruct (a <? b) eqn:E; [lia | reflexivity]. Qed.

Lemma frag_rec_ok : forall fuel mtu h (body : list A),
  Valid h body -> MtuOk h mtu -> len body < Z.of_nat fuel ->
  exists frs, frag_rec fuel mtu h body = Ok frs /\
    pieces_ok h mtu 0 false frs = true /\
    concat (map snd frs) = body /\
    frs <> [] /\
    (0 < len body -> Forall (fun f : frag A => snd f <> []) frs) /\
    (mtu < total_length h -> (2 <= length frs)%nat).
Proof.
  induction fuel as [|fuel IH]; intros mtu h body Hv Hm Hfuel.
  { pose proof (len_nonneg body). lia. }
  destruct Hv as (Hihl & Htl & Hfo & Hfob). destruct Hm as (Hmlo & Hmhi).
  cbn [frag_rec].
  destruct (total_length h <=? mtu) eqn:Hfit.
  - exists [(h, body)]. split; [reflexivity|]. repeat split.
    + cbn [pieces_ok is_nil negb andb]. rewrite andb_true_r. apply piece_ok_iff.
      unfold PieceOK, plen; cbn [fst snd]. fold (len body). repeat split; lia.
    + cbn [map concat snd]. apply app_nil_r.
    + discriminate.
    + intros Hpos. constructor; [|constructor]. cbn [snd]. intros ->. cbn in Hpos. lia.
    + intros Hbig. lia.
  - (* header.total_length > mtu *)
    pose proof (len_nonneg body) as Hlen0.
    assert (Hbig : mtu < total_length h) by lia.
    set (hl := ihl h * 4).
    set (d := mtu - hl).
    set (nfb := d / 8).
    assert (Hn : 8 <= nfb * 8 <= d /\ 1 <= nfb) by (unfold nfb, d, hl; unfold U16MAX in *; lia).
    assert (Hnlen : nfb * 8 < len body) by (unfold d, hl in Hn; lia).
    rewrite (mul16_ok SITE_IHL4 (ihl h) 4) by (unfold U16MAX in *; lia).
    cbn [bind]. fold hl.
    rewrite (sub16_ok SITE_MTU_SUB mtu hl) by (unfold hl; lia).
    cbn [bind]. fold d. fold nfb.
    rewrite cut_spec by (unfold len in Hnlen; lia).
    rewrite (mul16_ok SITE_NFB8 nfb 8) by (unfold d, hl, U16MAX in *; lia).
    cbn [bind].
    rewrite (add16_ok SITE_TL1 hl (nfb * 8)) by (unfold d, hl, U16MAX in *; lia).
    cbn [bind].
    rewrite (mul16_ok SITE_DEC nfb 8) by (unfold d, hl, U16MAX in *; lia).
    cbn [bind].
    replace ((ihl h - ihl h) * 4) with 0 by lia.
    rewrite (add16_ok SITE_DEC (nfb * 8) 0) by (unfold d, hl, U16MAX in *; lia).
    cbn [bind]. rewrite Z.add_0_r.
    rewrite (sub16_ok SITE_TL2 (total_length h) (nfb * 8)) by (unfold d, hl in *; lia).
    cbn [bind].
    assert (Hdiv : len body / 8 >= nfb) by lia.
    rewrite (add16_ok SITE_FO (fragment_offset h) nfb) by lia.
    cbn [bind].
    set (n := Z.to_nat (nfb * 8)).
    assert (Hnle : (n <= length body)%nat) by (unfold n; unfold len in Hnlen; lia).
    assert (Hl1 : len (firstn n body) = nfb * 8).
    { unfold len. rewrite firstn_length_le by exact Hnle. unfold n. lia. }
    assert (Hl2 : len (skipn n body) = len body - nfb * 8).
    { unfold len. rewrite skipn_length. unfold n. unfold len in Hnlen. lia. }
    set (h2 := set_fragment_offset (set_total_length h (total_length h - nfb * 8)) (fragment_offset h + nfb)).
    set (h1 := set_total_length (set_flags h (set_mf (flags h))) (hl + nfb * 8)).
    destruct (IH mtu h2 (skipn n body)) as (more & Hrec & Hpo & Hcat & Hne & Hnd & _).
    { unfold Valid, h2; cbn [ihl total_length fragment_offset set_fragment_offset set_total_length].
      rewrite Hl2. repeat split; try lia. }
    { unfold MtuOk, h2; cbn [ihl set_fragment_offset set_total_length]. lia. }
    { rewrite Hl2. lia. }
    rewrite Hrec. cbn [bind].
    exists ((h1, firstn n body) :: more). split; [reflexivity|]. repeat split.
    + cbn [pieces_ok]. apply andb_true_intro. split.
      * replace (is_nil more && negb false) with false by (destruct more; [congruence | reflexivity]).
        apply piece_ok_iff. unfold PieceOK, plen; cbn [fst snd]. fold (len (firstn n body)).
        rewrite Hl1. unfold h1; cbn [ihl total_length fragment_offset flags oth set_total_length set_flags].
        unfold hl, d in *. repeat split; try lia.
      * rewrite <- Hpo. symmetry. apply pieces_ok_shift;
          unfold h2; cbn [ihl total_length fragment_offset flags oth set_fragment_offset set_total_length];
          try reflexivity.
        unfold plen; cbn [snd]. fold (len (firstn n body)). rewrite Hl1. lia.
    + cbn [map concat snd]. rewrite Hcat. apply firstn_skipn.
    + discriminate.
    + intros _. constructor.
      * cbn [snd]. intros E. rewrite E in Hl1. cbn in Hl1. lia.
      * apply Hnd. rewrite Hl2. lia.
    + intros _. cbn [length]. destruct more; [congruence | cbn [length]; lia].
Qed.

(* ------------------------------------------------------------ one call of fragment *)

Lemma fragment_fits h (body : list A) mtu :
  total_length h <= mtu -> fragment h body mtu = Ok (DontFragment (h, body)).
Proof. intros H. unfold fragment. destruct (total_length h <=? mtu) eqn:E; [reflexivity | lia]. Qed.

Lemma fragment_discard h (body : list A) mtu :
  mtu < total_length h -> may_fragment (flags h) = false -> fragment h body mtu = Ok Discard.
Proof.
  intros H Hdf. unfold fragment. destruct (total_length h <=? mtu) eqn:E; [lia|].
  rewrite Hdf. reflexivity.
Qed.

Lemma Partition_single h (body : list A) mtu :
  total_length h <= mtu -> total_length h = 4 * ihl h + len body -> Partition h body mtu [(h, body)].
Proof.
  intros Hfit Htl. apply Partition_alt. repeat split.
  - discriminate.
  - cbn [map concat snd]. apply app_nil_r.
  - cbn [pieces_ok is_nil negb andb]. rewrite andb_true_r. apply piece_ok_iff.
    unfold PieceOK, plen; cbn [fst snd]. fold (len body). repeat split; lia.
Qed.

Lemma fragment_fragments h (body : list A) mtu :
  Valid h body -> MtuOk h mtu -> may_fragment (flags h) = true -> mtu < total_length h ->
  exists frs, fragment h body mtu = Ok (Fragmented frs) /\ Partition h body mtu frs /\
              (2 <= length frs)%nat /\ Forall (fun f : frag A => snd f <> []) frs.
Proof.
  intros Hv Hm Hdf Hbig.
  destruct (frag_rec_ok (fuel_for h) mtu h body Hv Hm) as (frs & Hrec & Hpo & Hcat & Hne & Hnd & Hlen).
  { destruct Hv as (Hihl & Htl & _). unfold fuel_for. pose proof (len_nonneg body). lia. }
  exists frs. unfold fragment. destruct (total_length h <=? mtu) eqn:E; [lia|].
  rewrite Hdf. cbn [negb]. rewrite Hrec. cbn [bind]. split; [reflexivity|].
  assert (Hpos : 0 < len body).
  { destruct Hv as (Hihl & Htl & _). destruct Hm as (Hlo & _). lia. }
  split; [|split; [apply Hlen, Hbig | apply Hnd, Hpos]].
  apply Partition_alt. repeat split; try assumption.
  apply nondeg_ok_iff. right. apply Hnd, Hpos.
Qed.

(* whatever the size: with DF clear one call yields pieces that partition the input *)
Lemma fragment_pieces h (body : list A) mtu :
  Valid h body -> MtuOk h mtu -> may_fragment (flags h) = true ->
  exists r ps, fragment h body mtu = Ok r /\ pieces r = Some ps /\ Partition h body mtu ps.
Proof.
  intros Hv Hm Hdf. destruct (Z_le_gt_dec (total_length h) mtu) as [Hfit | Hbig].
  - exists (DontFragment (h, body)), [(h, body)]. split; [apply fragment_fits, Hfit|].
    split; [reflexivity|]. apply Partition_single; [exact Hfit | apply Hv].
  - destruct (fragment_fragments h body mtu Hv Hm Hdf) as (frs & Hf & Hp & _); [lia|].
    exists (Fragmented frs), frs. split; [exact Hf | split; [reflexivity | exact Hp]].
Qed.

(* ------------------------------------------------------------ outside the quantifier *)

(* 4*ihl <= mtu < 4*ihl + 8: NFB = 0, every call recurses on an unchanged
   datagram: the model runs out of any fuel, i.e. the Rust recursion does not
   terminate (it pushes an empty fragment per call until memory/stack ends). *)
Lemma frag_rec_nfb0 : forall fuel mtu h (body : list A),
  0 <= ihl h -> 4 * ihl h <= mtu < 4 * ihl h + 8 -> mtu <= U16MAX ->
  mtu < total_length h -> 0 <= fragment_offset h <= U16MAX ->
  frag_rec fuel mtu h body = OutOfFuel.
Proof.
  induction fuel as [|fuel IH]; intros mtu h body Hihl Hm Hmax Hbig Hfo; [reflexivity|].
  cbn [frag_rec]. destruct (total_length h <=? mtu) eqn:E; [lia|].
  rewrite (mul16_ok SITE_IHL4 (ihl h) 4) by (unfold U16MAX in *; lia). cbn [bind].
  rewrite (sub16_ok SITE_MTU_SUB mtu (ihl h * 4)) by lia. cbn [bind].
  assert (H0 : (mtu - ihl h * 4) / 8 = 0) by lia. rewrite H0.
  cbn [Z.mul Z.to_nat cut].
  unfold mul16 at 1. cbn [Z.mul Z.gtb Z.compare U16MAX bind].
  rewrite (add16_ok SITE_TL1 (ihl h * 4) 0) by (unfold U16MAX in *; lia). cbn [bind].
  unfold mul16 at 1. cbn [Z.mul Z.gtb Z.compare U16MAX bind].
  replace ((ihl h - ihl h) * 4) with 0 by lia.
  unfold add16 at 1. cbn [Z.add Z.gtb Z.compare U16MAX bind].
  rewrite (sub16_ok SITE_TL2 (total_length h) 0) by lia. cbn [bind].
  rewrite (add16_ok SITE_FO (fragment_offset h) 0) by lia. cbn [bind].
  rewrite IH; [reflexivity | | | | |];
    cbn [ihl total_length fragment_offset set_fragment_offset set_total_length]; lia.
Qed.

(* mtu < 4*ihl: `self.mtu - header.ihl as u16 * 4` underflows *)
Lemma frag_rec_small_mtu_panics fuel mtu h (body : list A) :
  0 <= ihl h <= 255 -> mtu < 4 * ihl h -> mtu < total_length h ->
  frag_rec (S fuel) mtu h body = Panic SITE_MTU_SUB.
Proof.
  intros Hihl Hm Hbig. cbn [frag_rec]. destruct (total_length h <=? mtu) eqn:E; [lia|].
  rewrite (mul16_ok SITE_IHL4 (ihl h) 4) by (unfold U16MAX; lia). cbn [bind].
  unfold sub16. destruct (mtu <? ihl h * 4) eqn:E2; [reflexivity | lia].
Qed.

End Facts.
