(* C17: what arbitrary well-formed segments can and cannot do to one endpoint of
   Model/Tcb.v.  No-crash lives in TcbInv.v (run_ops_ok); this file has the
   inertness of unacceptable segments, the reading of is_seq_ok as an interval
   test, and the send-window bound of segments(). *)
From Elvis Require Import Model.Base Model.U32 Model.Tcb Proofs.U32Facts Proofs.TcbEdges Proofs.TcbInv.
From Coq Require Import ZifyBool.
Local Open Scope Z_scope.
Ltac Zify.zify_post_hook ::= Z.div_mod_to_equations.

(* ------------------------------------------------------------------ *)
(* segment_arrives on an empty reassembly heap, as an equation         *)
Definition lift_ps (r : result (tcb * psr)) : result (tcb * arrives_result) :=
  match r with
  | Ok (t1, pr) => Ok (t1, if should_delete pr then AClose else AOk)
  | Err e => Err e | Panic p => Panic p | OutOfFuel => OutOfFuel
  end.

Lemma segment_arrives_empty_heap t s : in_segs t = [] ->
  segment_arrives t s =
    if negb (state_eqb (st t) SynSent) && mod_gt (h_seq (s_hdr s)) (rcv_nxt t)
    then Ok (set_in_segs t [s], AOk)
    else lift_ps (process_segment t s).
Proof.
  intros He. unfold segment_arrives. rewrite He, heap_push_nil.
  cbn [length arrives_loop]. tsimpl. cbn [heap_peek].
  destruct (_ && _); [reflexivity|].
  rewrite heap_pop_single.
  replace (set_in_segs (set_in_segs t [s]) []) with t
    by (rewrite <- He at 2; destruct t; reflexivity).
  unfold lift_ps.
  destruct (process_segment t s) as [[t1 r1]| | |] eqn:Ep; try reflexivity.
  destruct (should_delete r1); [reflexivity|].
  rewrite (process_segment_in_segs _ _ _ _ Ep), He. reflexivity.
Qed.

(* ------------------------------------------------------------------ *)
(* C17, last sentence: unacceptable segments are inert                 *)

(* the two classes of the property text; CLOSING is left out of the first one
   because the code skips the sequence check there (tcb.rs l.385) - see
   closing_not_inert below *)
Definition unacceptable (t : tcb) (s : segment) : Prop :=
  (st t <> SynSent /\ st t <> Closing /\
   is_seq_ok t (zlen (s_text s)) (h_seq (s_hdr s)) (c_syn (h_ctl (s_hdr s))) (c_fin (h_ctl (s_hdr s))) = false)
  \/ (st t = SynSent /\ c_syn (h_ctl (s_hdr s)) = false /\ c_rst (h_ctl (s_hdr s)) = false).

(* the only trace an unacceptable segment leaves: at most one text-less reply
   (the ACK of RFC 9293 3.10.7.4 first / the RST of 3.10.7.3 first) in the
   one-shot output queue *)
Definition reply_only (t : tcb) (s : segment) (t' : tcb) : Prop :=
  t' = t \/ t' = set_oneshot t (oneshot t ++ [ack_hdr t]) \/
  t' = set_oneshot t (oneshot t ++ [rst_hdr t (h_ack (s_hdr s))]).

Lemma process_segment_unacceptable t s : unacceptable t s ->
  exists t' r, process_segment t s = Ok (t', r) /\ should_delete r = false /\ reply_only t s t'.
Proof.
  unfold unacceptable, reply_only. intros [(Hn1 & Hn2 & Hbad)|(Est & Hsyn & Hrst)].
  - unfold process_segment. rewrite Hbad. cbn [negb].
    exists (enqueue t (ack_hdr t)), PDiscard.
    split; [destruct (st t); try reflexivity; congruence|].
    split; [reflexivity|]. right. left. apply enqueue_plain; reflexivity.
  - unfold process_segment. rewrite Est.
    assert (Hps : forall t2, st t2 = SynSent ->
       exists t' r,
         match ps_rst t2 (s_hdr s) with
         | Some r => Ok (t2, r)
         | None => let '(t4, r4) := ps_syn t2 (s_hdr s) in
           match r4 with
           | Some r => Ok (t4, r)
           | None => if state_eqb (st t4) SynSent then Ok (t4, PDiscard) else
             match ps_text t4 (s_hdr s) (s_text s) with
             | Ok t6 => Ok (ps_fin t6 (s_hdr s) (zlen (s_text s)), PSuccess)
             | Err e => Err e | Panic p => Panic p | OutOfFuel => OutOfFuel
             end
           end
         end = Ok (t', r) /\ should_delete r = false /\ t' = t2).
    { intros t2 E2. unfold ps_rst. rewrite Hrst. cbn [negb].
      rewrite (ps_syn_nosyn _ _ Hsyn), E2. cbn [state_eqb]. eauto. }
    unfold ps_ack. rewrite Est.
    destruct (c_ack (h_ctl (s_hdr s))); cbn [negb].
    2:{ destruct (Hps t Est) as (t' & r & -> & Hd & ->). eauto 6. }
    destruct (mod_bounded (snd_nxt t) _ _ _ _).
    { rewrite Hrst. do 2 eexists. split; [reflexivity|]. split; [reflexivity|].
      right. right. apply enqueue_plain; reflexivity. }
    destruct (mod_bounded (snd_una t) _ _ _ _).
    + rewrite Hsyn. destruct (Hps t Est) as (t' & r & -> & Hd & ->). eauto 6.
    + do 2 eexists. split; [reflexivity|]. split; [reflexivity|].
      right. right. apply enqueue_plain; reflexivity.
Qed.

(* what reply_only keeps: everything but the one-shot queue *)
Definition same_but_oneshot (t t' : tcb) : Prop :=
  st t' = st t /\ in_text t' = in_text t /\ rcv_nxt t' = rcv_nxt t /\ rcv_irs t' = rcv_irs t /\
  rcv_wnd t' = rcv_wnd t /\ snd_una t' = snd_una t /\ snd_nxt t' = snd_nxt t /\ snd_wnd t' = snd_wnd t /\
  snd_wl1 t' = snd_wl1 t /\ snd_wl2 t' = snd_wl2 t /\ snd_iss t' = snd_iss t /\
  out_text t' = out_text t /\ retx t' = retx t /\ fin_pending t' = fin_pending t /\
  rto t' = rto t /\ time_wait t' = time_wait t /\ mtu t' = mtu t.

Lemma reply_only_same t s t' : reply_only t s t' -> same_but_oneshot t t' /\ in_segs t' = in_segs t.
Proof. intros [ -> | [ -> | -> ] ]; unfold same_but_oneshot; tsimpl; repeat split. Qed.

(* C17_unacceptable_inert for process_segment *)
Lemma unacceptable_inert_ps t s : unacceptable t s ->
  exists t' r, process_segment t s = Ok (t', r) /\ should_delete r = false /\
    reply_only t s t' /\ same_but_oneshot t t'.
Proof.
  intros H. destruct (process_segment_unacceptable t s H) as (t' & r & Hp & Hd & Hr).
  exists t', r. repeat split; try assumption; apply (reply_only_same _ _ _ Hr).
Qed.

(* ... and for segment_arrives when nothing is waiting in the heap: the segment
   is either answered at once or (if it lies ahead of RCV.NXT) left in the heap;
   the connection is never closed *)
Lemma unacceptable_inert_arrives t s : in_segs t = [] -> unacceptable t s ->
  exists t', segment_arrives t s = Ok (t', AOk) /\ same_but_oneshot t t' /\
    ((in_segs t' = [] /\ reply_only t s t') \/ (t' = set_in_segs t [s] /\ st t <> SynSent /\
       mod_gt (h_seq (s_hdr s)) (rcv_nxt t) = true)).
Proof.
  intros He Hu. rewrite (segment_arrives_empty_heap _ _ He).
  destruct (negb (state_eqb (st t) SynSent) && mod_gt (h_seq (s_hdr s)) (rcv_nxt t)) eqn:Eq.
  - eexists. split; [reflexivity|]. split; [unfold same_but_oneshot; tsimpl; repeat split|].
    right. apply andb_true_iff in Eq. destruct Eq as [E1 E2]. repeat split; auto.
    intros C. rewrite C in E1. discriminate E1.
  - destruct (process_segment_unacceptable t s Hu) as (t' & r & -> & Hd & Hr).
    cbn [lift_ps]. rewrite Hd. eexists. split; [reflexivity|].
    destruct (reply_only_same _ _ _ Hr) as [H1 H2]. split; [assumption|].
    left. split; [congruence|assumption].
Qed.

(* CLOSING: the sequence check is skipped (tcb.rs l.385, "Sequence number checks
   don't apply for LISTEN, SYN-SENT, or CLOSING" - RFC 9293 3.10.7.4 does apply
   it to CLOSING).  A segment ENTIRELY OUTSIDE the receive window therefore
   changes the state when it acknowledges our FIN, and a RST with any sequence
   number deletes the TCB.  Witness: ISS 100, peer's RCV.NXT 501, our FIN (seq
   101) in flight; the forged segments carry seq = RCV.NXT + 2^31. *)
Definition closing_tcb : tcb :=
  mkTcb 1000 80 1500 false Closing 101 102 65535 500 101 100 500 502 DEFAULT_WND
        [] [mkTx (mkSeg (hb_wnd (hb_ack (hb_fin (mkHdr 1000 80 101 0 ctl0 0 0)) 501) DEFAULT_WND) []) false]
        [] false [] [] RTO None.
Definition far_ack : segment :=
  mkSeg (mkHdr 80 1000 (502 + H31) 102 (mkCtl false true false false false false) 65535 0) [].
Definition far_rst : segment :=
  mkSeg (mkHdr 80 1000 (502 + H31) 0 (mkCtl false false false true false false) 0 0) [].

Lemma closing_not_inert :
  Inv closing_tcb /\ wf_seg far_ack /\ wf_seg far_rst /\
  is_seq_ok closing_tcb 0 (h_seq (s_hdr far_ack)) false false = false /\
  (exists t', segment_arrives closing_tcb far_ack = Ok (t', AOk) /\ st t' = TimeWait) /\
  (exists t', segment_arrives closing_tcb far_rst = Ok (t', AClose)).
Proof.
  split.
  { constructor; cbn; unfold u16, u32, M32, SPACE_FOR_HEADERS, DEFAULT_WND, RTO, tw_ok; try lia;
      repeat constructor; cbn; unfold u16, u32, M32, MAXTEXT, zlen; cbn; lia. }
  split. { repeat split; cbn; unfold u16, u32, M32, H31, MAXTEXT, zlen; cbn; lia. }
  split. { repeat split; cbn; unfold u16, u32, M32, H31, MAXTEXT, zlen; cbn; lia. }
  split. { vm_compute. reflexivity. }
  split; eexists; vm_compute; split; reflexivity || reflexivity.
Qed.

(* ------------------------------------------------------------------ *)
(* is_seq_ok = false  <->  the segment lies entirely outside
   [RCV.NXT-1, RCV.NXT+RCV.WND)   (lower bound relaxed by one as in the
   seq-validation revision cited at tcb.rs l.757; in_window in TcbInv.v) *)

(* the sequence numbers a segment of length L occupies; an empty segment is
   tested on its own seq (RFC 9293 Table 6) *)
Definition entirely_outside (t : tcb) (seq L : Z) : Prop :=
  forall k, 0 <= k < Z.max 1 L -> ~ in_window t (wadd seq k).

Lemma in_window_bool t n : u32 n -> 0 <= rcv_wnd t <= 65535 ->
  is_in_rcv_window t n = true <-> in_window t n.
Proof.
  intros Hn Hw. rewrite is_in_rcv_window_spec by assumption. unfold in_window. lia.
Qed.

Lemma wadd_0_u32 x : u32 x -> wadd x 0 = x.
Proof. u32_unfold. lia. Qed.

Lemma outside_not_ok t len seq syn fin : 0 < rcv_wnd t <= 65535 -> u32 seq -> 0 <= len ->
  entirely_outside t seq (len + b2z fin + b2z syn) -> is_seq_ok t len seq syn fin = false.
Proof.
  intros Hw Hs Hl Hout. unfold is_seq_ok.
  set (L := len + b2z fin + b2z syn) in *.
  assert (HL : 0 <= L) by (subst L; destruct fin, syn; cbn [b2z]; lia).
  assert (E1 : (rcv_wnd t =? 0) = false) by lia. rewrite E1.
  assert (H0 : is_in_rcv_window t seq = false).
  { destruct (is_in_rcv_window t seq) eqn:E; [|reflexivity].
    exfalso. apply (Hout 0); [lia|]. rewrite wadd_0_u32 by assumption.
    apply in_window_bool; [assumption|lia|assumption]. }
  destruct (L =? 0) eqn:E0; [exact H0|]. rewrite H0. cbn [orb].
  destruct (is_in_rcv_window t (wsub (wadd seq L) 1)) eqn:E; [|reflexivity].
  exfalso. apply (Hout (L - 1)); [lia|].
  apply in_window_bool in E; [|apply wsub_u32|lia].
  replace (wadd seq (L - 1)) with (wsub (wadd seq L) 1) by (u32_unfold; lia). exact E.
Qed.

(* the converse needs the segment not to be longer than the window (it cannot
   straddle it); true of every well-formed segment, MAXTEXT + 2 <= 65536 *)
Lemma not_ok_outside t len seq syn fin : 0 < rcv_wnd t <= 65535 -> u32 seq -> 0 <= len ->
  len + b2z fin + b2z syn <= rcv_wnd t + 1 ->
  is_seq_ok t len seq syn fin = false -> entirely_outside t seq (len + b2z fin + b2z syn).
Proof.
  intros Hw Hs Hl. unfold is_seq_ok.
  set (L := len + b2z fin + b2z syn) in *.
  assert (HL : 0 <= L) by (subst L; destruct fin, syn; cbn [b2z]; lia).
  intros HLw.
  assert (E1 : (rcv_wnd t =? 0) = false) by lia. rewrite E1.
  rewrite !is_in_rcv_window_spec by (try assumption; try apply wsub_u32; lia).
  unfold entirely_outside, in_window.
  destruct (L =? 0) eqn:E0.
  - intros H k Hk. assert (k = 0) by lia. subst k. rewrite wadd_0_u32 by assumption. lia.
  - intros H k Hk. apply orb_false_iff in H. destruct H as [Ha Hb].
    clearbody L. clear E0 E1. revert Ha Hb. u32_unfold. intros Ha Hb. lia.
Qed.

(* ------------------------------------------------------------------ *)
(* C17, second clause: new data never passes SND.UNA + SND.WND         *)

(* the segment ends at or before the right edge of the window in force *)
Definition within_snd_window (una wnd : Z) (s : segment) : Prop :=
  wsub (wadd (h_seq (s_hdr s)) (zlen (s_text s))) una <= wnd.

Lemma seg_loop_window fuel : forall t mss rem t', u32 (snd_wnd t) -> 0 <= mss -> 0 <= rem ->
  seg_loop fuel t mss rem = Ok t' ->
  snd_una t' = snd_una t /\ snd_wnd t' = snd_wnd t /\ fin_pending t' = fin_pending t /\
  exists news, retx t' = retx t ++ news /\
    Forall (fun tx => t_needs tx = true /\ within_snd_window (snd_una t) (snd_wnd t) (t_seg tx)) news.
Proof.
  induction fuel as [|f IH]; intros t mss rem t' Hw Hmss Hrem; cbn [seg_loop]; [discriminate|].
  set (bytes := Z.min (Z.min mss _) rem).
  destruct (bytes =? 0) eqn:E0.
  { intros H; inversion H; subst. repeat split. exists []. rewrite app_nil_r. split; [reflexivity|constructor]. }
  destruct (65535 <? bytes + 20); [discriminate|].
  intros H. apply IH in H; [|tsimpl; assumption|assumption|subst bytes; lia]. tsimpl.
  destruct H as (E1 & E2 & E3 & news & E4 & HF).
  repeat split; try assumption.
  eexists. split; [rewrite E4, <- app_assoc; reflexivity|].
  constructor; [|exact HF]. tsimpl. split; [reflexivity|].
  unfold within_snd_window. tsimpl.
  pose proof (zlen_firstn_le bytes (out_text t)) as Hlen.
  pose proof (zlen_nonneg (firstn (Z.to_nat bytes) (out_text t))) as Hpos.
  set (len := zlen (firstn (Z.to_nat bytes) (out_text t))) in *.
  assert (Hb : 0 < bytes <= snd_wnd t - wsub (snd_nxt t) (snd_una t)) by (subst bytes; lia).
  clearbody len bytes. revert Hb. u32_unfold. intros Hb. lia.
Qed.

Lemma filter_all_needs (l : list transmit) :
  Forall (fun tx => t_needs tx = true) l -> filter t_needs l = l.
Proof. intros H. induction H as [|x l Hx _ IH]; cbn; [reflexivity|]. rewrite Hx, IH. reflexivity. Qed.

(* what segments() emits: the one-shot headers, the retransmissions that were
   already due, then the segments formed by this very call - and every one of
   the latter that carries text ends inside the send window *)
Lemma tcb_segments_window t t' segs : u32 (snd_wnd t) -> tcb_segments t = Ok (t', segs) ->
  snd_una t' = snd_una t /\ snd_wnd t' = snd_wnd t /\
  exists news,
    segs = map (fun h => mkSeg h []) (oneshot t) ++ map t_seg (filter t_needs (retx t)) ++ news /\
    Forall (fun s => s_text s <> [] -> within_snd_window (snd_una t') (snd_wnd t') s) news.
Proof.
  intros Hw. unfold tcb_segments.
  match goal with |- context [match ?r with Ok _ => _ | _ => _ end] => destruct r as [t1| | |] eqn:E1 end;
    try discriminate.
  intros H; inversion H; subst; clear H.
  assert (H1 : snd_una t1 = snd_una t /\ snd_wnd t1 = snd_wnd t /\
               exists news, retx t1 = retx t ++ news /\
                 Forall (fun tx => t_needs tx = true /\
                    (s_text (t_seg tx) <> [] -> within_snd_window (snd_una t) (snd_wnd t) (t_seg tx))) news).
  { revert E1. tsimpl. destruct (segmentizes (st t)).
    - destruct (mtu t <? SPACE_FOR_HEADERS) eqn:Emtu; [discriminate|].
      destruct (seg_loop _ _ _ _) as [t0| | |] eqn:El; try discriminate.
      intros H; inversion H; subst; clear H.
      apply seg_loop_window in El; [|tsimpl; assumption|lia|apply zlen_nonneg]. tsimpl.
      destruct El as (U1 & U2 & U3 & news & U4 & HF).
      assert (HF' : Forall (fun tx => t_needs tx = true /\
                 (s_text (t_seg tx) <> [] -> within_snd_window (snd_una t) (snd_wnd t) (t_seg tx))) news).
      { eapply Forall_impl; [|exact HF]. cbv beta. intros tx [A B]. auto. }
      unfold queue_pending_fin. destruct (_ && _); tsimpl.
      + destruct (enqueue_same_snd (set_fin_pending t0 false)
                   (hb_wnd (hb_ack (hb_fin (hb (set_fin_pending t0 false) (snd_nxt t0))) (rcv_nxt t0)) (rcv_wnd t0)))
          as (F1 & F2 & _). tsimpl. rewrite F1, F2.
        repeat split; try assumption.
        unfold enqueue. tsimpl. rewrite U4.
        exists (news ++ [mkTx (mkSeg (hb_wnd (hb_ack (hb_fin (hb (set_fin_pending t0 false) (snd_nxt t0))) (rcv_nxt t0)) (rcv_wnd t0)) []) true]).
        split; [rewrite <- app_assoc; reflexivity|].
        apply Forall_app. split; [exact HF'|]. constructor; [|constructor]. tsimpl.
        split; [reflexivity|]. intros C. exfalso. apply C. reflexivity.
      + repeat split; try assumption. eauto.
    - intros H; inversion H; subst. tsimpl. repeat split.
      exists []. rewrite app_nil_r. split; [reflexivity|constructor]. }
  destruct H1 as (U1 & U2 & news & U4 & HF).
  assert (G1 : forall x, snd_una (match (map (fun h => mkSeg h []) (oneshot t) ++ map t_seg (filter t_needs (retx t1))) with
                       | [] => set_retx t1 x | _ :: _ => set_rto (set_retx t1 x) RTO end) = snd_una t1)
    by (intros; destruct (_ ++ _); reflexivity).
  assert (G2 : forall x, snd_wnd (match (map (fun h => mkSeg h []) (oneshot t) ++ map t_seg (filter t_needs (retx t1))) with
                       | [] => set_retx t1 x | _ :: _ => set_rto (set_retx t1 x) RTO end) = snd_wnd t1)
    by (intros; destruct (_ ++ _); reflexivity).
  rewrite G1, G2, U1, U2. repeat split.
  exists (map t_seg news). split.
  - rewrite U4, filter_app, map_app. rewrite (filter_all_needs news).
    + reflexivity.
    + eapply Forall_impl; [|exact HF]. cbv beta. intros tx [A _]. exact A.
  - clear U4. induction HF as [|tx l [A B] _ IH]; cbn [map]; constructor; auto.
Qed.

(* the reading asked for by the property: "new" = carries text and starts at or
   after the SND.NXT the call found.  It needs that nothing already queued for
   retransmission starts at or after SND.NXT: *)
Definition old_behind (t : tcb) : Prop :=
  Forall (fun tx => s_text (t_seg tx) <> [] -> mod_geq (h_seq (s_hdr (t_seg tx))) (snd_nxt t) = false) (retx t).

Lemma tcb_segments_window_seq t t' segs : u32 (snd_wnd t) -> old_behind t ->
  tcb_segments t = Ok (t', segs) ->
  forall s, In s segs -> s_text s <> [] -> mod_geq (h_seq (s_hdr s)) (snd_nxt t) = true ->
    within_snd_window (snd_una t') (snd_wnd t') s.
Proof.
  intros Hw Hold H s Hin Htext Hgeq.
  destruct (tcb_segments_window _ _ _ Hw H) as (_ & _ & news & -> & HF).
  apply in_app_or in Hin. destruct Hin as [Hin|Hin].
  { apply in_map_iff in Hin. destruct Hin as (h & <- & _). exfalso. apply Htext. reflexivity. }
  apply in_app_or in Hin. destruct Hin as [Hin|Hin].
  - apply in_map_iff in Hin. destruct Hin as (tx & <- & Hin).
    apply filter_In in Hin. destruct Hin as [Hin _].
    unfold old_behind in Hold. rewrite Forall_forall in Hold.
    rewrite (Hold tx Hin Htext) in Hgeq. discriminate Hgeq.
  - rewrite Forall_forall in HF. apply HF; assumption.
Qed.
