(* C17: what arbitrary well-formed segments can and cannot do to one endpoint of
   Model/Tcb.v.  No-crash lives in TcbInv.v (run_ops_ok); this file has the
   inertness of unacceptable segments, the reading of is_seq_ok as an interval
   test, and the send-window bound of segments(). *)
From Elvis Require Import Model.Base Model.U32 Model.Tcb Model.TcpNet Proofs.U32Facts Proofs.TcbEdges Proofs.TcbInv.
From Coq Require Import ZifyBool Relations.
Local Open Scope Z_scope.
Ltac Zify.zify_post_hook ::= Z.div_mod_to_equations.

(* ------------------------------------------------------------------ *)
(* segment_arrives on an empty reassembly heap, as an equation         *)
Definition lift_ps (r : result (tcb * psr)) : result (tcb * arrives_result) :=
  match r with
  | Ok (t1, pr) => Ok (t1, if should_delete pr then AClose else AOk)
  | Err e => Err e | Panic p => Panic p | OutOfFuel => OutOfFuel
  end.

Lemma segment_arrives_empty_heap t s : in_segs t = [] ->
  segment_arrives t s =
    if negb (state_eqb (st t) SynSent) && mod_gt (h_seq (s_hdr s)) (rcv_nxt t)
    then Ok (set_in_segs t [s], AOk)
    else lift_ps (process_segment t s).
Proof.
  intros He. unfold segment_arrives. rewrite He, heap_push_nil.
  cbn [length arrives_loop]. tsimpl. cbn [heap_peek].
  destruct (_ && _); [reflexivity|].
  rewrite heap_pop_single.
  replace (set_in_segs (set_in_segs t [s]) []) with t
    by (rewrite <- He at 2; destruct t; reflexivity).
  unfold lift_ps.
  destruct (process_segment t s) as [[t1 r1]| | |] eqn:Ep; try reflexivity.
  destruct (should_delete r1); [reflexivity|].
  rewrite (process_segment_in_segs _ _ _ _ Ep), He. reflexivity.
Qed.

(* ------------------------------------------------------------------ *)
(* C17, last sentence: unacceptable segments are inert                 *)

(* the two classes of the property text.  (Until fix commit bbbdf8a3 CLOSING had
   to be left out of the first one: the code skipped the sequence check there.) *)
Definition unacceptable (t : tcb) (s : segment) : Prop :=
  (st t <> SynSent /\
   is_seq_ok t (zlen (s_text s)) (h_seq (s_hdr s)) (c_syn (h_ctl (s_hdr s))) (c_fin (h_ctl (s_hdr s))) = false)
  \/ (st t = SynSent /\ c_syn (h_ctl (s_hdr s)) = false /\ c_rst (h_ctl (s_hdr s)) = false).

(* the only trace an unacceptable segment leaves: at most one text-less reply
   (the ACK of RFC 9293 3.10.7.4 first / the RST of 3.10.7.3 first) in the
   one-shot output queue *)
Definition reply_only (t : tcb) (s : segment) (t' : tcb) : Prop :=
  t' = t \/ t' = set_oneshot t (oneshot t ++ [ack_hdr t]) \/
  t' = set_oneshot t (oneshot t ++ [rst_hdr t (h_ack (s_hdr s))]).

Lemma process_segment_unacceptable t s : unacceptable t s ->
  exists t' r, process_segment t s = Ok (t', r) /\ should_delete r = false /\ reply_only t s t'.
Proof.
  unfold unacceptable, reply_only. intros [(Hn1 & Hbad)|(Est & Hsyn & Hrst)].
  - unfold process_segment. rewrite Hbad. cbn [negb].
    exists (enqueue t (ack_hdr t)), PDiscard.
    split; [destruct (st t); try reflexivity; congruence|].
    split; [reflexivity|]. right. left. apply enqueue_plain; reflexivity.
  - unfold process_segment. rewrite Est.
    assert (Hps : forall t2, st t2 = SynSent ->
       exists t' r,
         match ps_rst t2 (s_hdr s) with
         | Some r => Ok (t2, r)
         | None => let '(t4, r4) := ps_syn t2 (s_hdr s) in
           match r4 with
           | Some r => Ok (t4, r)
           | None => if state_eqb (st t4) SynSent then Ok (t4, PDiscard) else
             match ps_text t4 (s_hdr s) (s_text s) with
             | Ok t6 => Ok (ps_fin t6 (s_hdr s) (zlen (s_text s)), PSuccess)
             | Err e => Err e | Panic p => Panic p | OutOfFuel => OutOfFuel
             end
           end
         end = Ok (t', r) /\ should_delete r = false /\ t' = t2).
    { intros t2 E2. unfold ps_rst. rewrite Hrst. cbn [negb].
      rewrite (ps_syn_nosyn _ _ Hsyn), E2. cbn [state_eqb]. eauto. }
    unfold ps_ack. rewrite Est.
    destruct (c_ack (h_ctl (s_hdr s))); cbn [negb].
    2:{ destruct (Hps t Est) as (t' & r & -> & Hd & ->). eauto 6. }
    destruct (mod_bounded (snd_nxt t) _ _ _ _).
    { rewrite Hrst. do 2 eexists. split; [reflexivity|]. split; [reflexivity|].
      right. right. apply enqueue_plain; reflexivity. }
    destruct (mod_bounded (snd_una t) _ _ _ _).
    + rewrite Hsyn. destruct (Hps t Est) as (t' & r & -> & Hd & ->). eauto 6.
    + do 2 eexists. split; [reflexivity|]. split; [reflexivity|].
      right. right. apply enqueue_plain; reflexivity.
Qed.

(* what reply_only keeps: everything but the one-shot queue *)
Definition same_but_oneshot (t t' : tcb) : Prop :=
  st t' = st t /\ in_text t' = in_text t /\ rcv_nxt t' = rcv_nxt t /\ rcv_irs t' = rcv_irs t /\
  rcv_wnd t' = rcv_wnd t /\ snd_una t' = snd_una t /\ snd_nxt t' = snd_nxt t /\ snd_wnd t' = snd_wnd t /\
  snd_wl1 t' = snd_wl1 t /\ snd_wl2 t' = snd_wl2 t /\ snd_iss t' = snd_iss t /\
  out_text t' = out_text t /\ retx t' = retx t /\ fin_pending t' = fin_pending t /\
  rto t' = rto t /\ time_wait t' = time_wait t /\ mtu t' = mtu t.

Lemma reply_only_same t s t' : reply_only t s t' -> same_but_oneshot t t' /\ in_segs t' = in_segs t.
Proof. intros [ -> | [ -> | -> ] ]; unfold same_but_oneshot; tsimpl; repeat split. Qed.

(* C17_unacceptable_inert for process_segment *)
Lemma unacceptable_inert_ps t s : unacceptable t s ->
  exists t' r, process_segment t s = Ok (t', r) /\ should_delete r = false /\
    reply_only t s t' /\ same_but_oneshot t t'.
Proof.
  intros H. destruct (process_segment_unacceptable t s H) as (t' & r & Hp & Hd & Hr).
  exists t', r. repeat split; try assumption; apply (reply_only_same _ _ _ Hr).
Qed.

(* ... and for segment_arrives when nothing is waiting in the heap: the segment
   is either answered at once or (if it lies ahead of RCV.NXT) left in the heap;
   the connection is never closed *)
Lemma unacceptable_inert_arrives t s : in_segs t = [] -> unacceptable t s ->
  exists t', segment_arrives t s = Ok (t', AOk) /\ same_but_oneshot t t' /\
    ((in_segs t' = [] /\ reply_only t s t') \/ (t' = set_in_segs t [s] /\ st t <> SynSent /\
       mod_gt (h_seq (s_hdr s)) (rcv_nxt t) = true)).
Proof.
  intros He Hu. rewrite (segment_arrives_empty_heap _ _ He).
  destruct (negb (state_eqb (st t) SynSent) && mod_gt (h_seq (s_hdr s)) (rcv_nxt t)) eqn:Eq.
  - eexists. split; [reflexivity|]. split; [unfold same_but_oneshot; tsimpl; repeat split|].
    right. apply andb_true_iff in Eq. destruct Eq as [E1 E2]. repeat split; auto.
    intros C. rewrite C in E1. discriminate E1.
  - destruct (process_segment_unacceptable t s Hu) as (t' & r & -> & Hd & Hr).
    cbn [lift_ps]. rewrite Hd. eexists. split; [reflexivity|].
    destruct (reply_only_same _ _ _ Hr) as [H1 H2]. split; [assumption|].
    left. split; [congruence|assumption].
Qed.

(* CLOSING.  Before fix commit bbbdf8a3 the code skipped the sequence check in
   CLOSING (RFC 9293 3.10.7.4 applies it there): a segment entirely outside the
   receive window that acknowledged our FIN moved CLOSING to TIME-WAIT, and a RST
   with any sequence number deleted the TCB.  The former witness (ISS 100, peer's
   RCV.NXT 501, our FIN seq 101 in flight, forged segments at seq = RCV.NXT + 2^31)
   is kept, now as an instance of the inertness theorem. *)
Definition closing_tcb : tcb :=
  mkTcb 1000 80 1500 false Closing 101 102 65535 500 101 100 500 502 DEFAULT_WND
        [] [mkTx (mkSeg (hb_wnd (hb_ack (hb_fin (mkHdr 1000 80 101 0 ctl0 0 0)) 501) DEFAULT_WND) []) false]
        [] false [] [] RTO None.
Definition far_ack : segment :=
  mkSeg (mkHdr 80 1000 (502 + H31) 102 (mkCtl false true false false false false) 65535 0) [].
Definition far_rst : segment :=
  mkSeg (mkHdr 80 1000 (502 + H31) 0 (mkCtl false false false true false false) 0 0) [].

Lemma closing_witness_wf : Inv closing_tcb /\ wf_seg far_ack /\ wf_seg far_rst.
Proof.
  split.
  { constructor; cbn; unfold u16, u32, M32, SPACE_FOR_HEADERS, DEFAULT_WND, RTO, tw_ok; try lia;
      repeat constructor; cbn; unfold u16, u32, M32, MAXTEXT, zlen; cbn; lia. }
  split; repeat split; cbn; unfold u16, u32, M32, H31, MAXTEXT, zlen; cbn; lia.
Qed.

Lemma closing_far_unacceptable : unacceptable closing_tcb far_ack /\ unacceptable closing_tcb far_rst.
Proof. split; left; (split; [discriminate|]); vm_compute; reflexivity. Qed.

(* ... and, computed: the state stays CLOSING, nothing is deleted *)
Lemma closing_now_inert :
  match segment_arrives closing_tcb far_ack, segment_arrives closing_tcb far_rst with
  | Ok (t1, AOk), Ok (t2, AOk) => st t1 = Closing /\ st t2 = Closing
  | _, _ => False
  end.
Proof. vm_compute. split; reflexivity. Qed.

(* ------------------------------------------------------------------ *)
(* is_seq_ok = false  <->  the segment lies entirely outside
   [RCV.NXT-1, RCV.NXT+RCV.WND)   (lower bound relaxed by one as in the
   seq-validation revision cited at tcb.rs l.757; in_window in TcbInv.v) *)

(* the sequence numbers a segment of length L occupies; an empty segment is
   tested on its own seq (RFC 9293 Table 6) *)
Definition entirely_outside (t : tcb) (seq L : Z) : Prop :=
  forall k, 0 <= k < Z.max 1 L -> ~ in_window t (wadd seq k).

Lemma in_window_bool t n : u32 n -> 0 <= rcv_wnd t <= 65535 ->
  is_in_rcv_window t n = true <-> in_window t n.
Proof.
  intros Hn Hw. rewrite is_in_rcv_window_spec by assumption. unfold in_window. lia.
Qed.

Lemma wadd_0_u32 x : u32 x -> wadd x 0 = x.
Proof. u32_unfold. lia. Qed.

Lemma outside_not_ok t len seq syn fin : 0 < rcv_wnd t <= 65535 -> u32 seq -> 0 <= len ->
  entirely_outside t seq (len + b2z fin + b2z syn) -> is_seq_ok t len seq syn fin = false.
Proof.
  intros Hw Hs Hl Hout. unfold is_seq_ok.
  set (L := len + b2z fin + b2z syn) in *.
  assert (HL : 0 <= L) by (subst L; destruct fin, syn; cbn [b2z]; lia).
  assert (E1 : (rcv_wnd t =? 0) = false) by lia. rewrite E1.
  assert (H0 : is_in_rcv_window t seq = false).
  { destruct (is_in_rcv_window t seq) eqn:E; [|reflexivity].
    exfalso. apply (Hout 0); [lia|]. rewrite wadd_0_u32 by assumption.
    apply in_window_bool; [assumption|lia|assumption]. }
  destruct (L =? 0) eqn:E0; [exact H0|]. rewrite H0. cbn [orb].
  destruct (is_in_rcv_window t (wsub (wadd seq L) 1)) eqn:E; [|reflexivity].
  exfalso. apply (Hout (L - 1)); [lia|].
  apply in_window_bool in E; [|apply wsub_u32|lia].
  replace (wadd seq (L - 1)) with (wsub (wadd seq L) 1) by (u32_unfold; lia). exact E.
Qed.

(* the converse needs the segment not to be longer than the window (it cannot
   straddle it); true of every well-formed segment, MAXTEXT + 2 <= 65536 *)
Lemma not_ok_outside t len seq syn fin : 0 < rcv_wnd t <= 65535 -> u32 seq -> 0 <= len ->
  len + b2z fin + b2z syn <= rcv_wnd t + 1 ->
  is_seq_ok t len seq syn fin = false -> entirely_outside t seq (len + b2z fin + b2z syn).
Proof.
  intros Hw Hs Hl. unfold is_seq_ok.
  set (L := len + b2z fin + b2z syn) in *.
  assert (HL : 0 <= L) by (subst L; destruct fin, syn; cbn [b2z]; lia).
  intros HLw.
  assert (E1 : (rcv_wnd t =? 0) = false) by lia. rewrite E1.
  rewrite !is_in_rcv_window_spec by (try assumption; try apply wsub_u32; lia).
  unfold entirely_outside, in_window.
  destruct (L =? 0) eqn:E0.
  - intros H k Hk. assert (k = 0) by lia. subst k. rewrite wadd_0_u32 by assumption. lia.
  - intros H k Hk. apply orb_false_iff in H. destruct H as [Ha Hb].
    clearbody L. clear E0 E1. revert Ha Hb. u32_unfold. intros Ha Hb. lia.
Qed.

(* ------------------------------------------------------------------ *)
(* C17, second clause: new data never passes SND.UNA + SND.WND         *)

(* the segment ends at or before the right edge of the window in force *)
Definition within_snd_window (una wnd : Z) (s : segment) : Prop :=
  wsub (wadd (h_seq (s_hdr s)) (zlen (s_text s))) una <= wnd.

Lemma seg_loop_window fuel : forall t mss rem t', u32 (snd_wnd t) -> 0 <= mss -> 0 <= rem ->
  seg_loop fuel t mss rem = Ok t' ->
  snd_una t' = snd_una t /\ snd_wnd t' = snd_wnd t /\ fin_pending t' = fin_pending t /\
  exists news, retx t' = retx t ++ news /\
    Forall (fun tx => t_needs tx = true /\ within_snd_window (snd_una t) (snd_wnd t) (t_seg tx)) news.
Proof.
  induction fuel as [|f IH]; intros t mss rem t' Hw Hmss Hrem; cbn [seg_loop]; [discriminate|].
  set (bytes := Z.min (Z.min mss _) rem).
  destruct (bytes =? 0) eqn:E0.
  { intros H; inversion H; subst. repeat split. exists []. rewrite app_nil_r. split; [reflexivity|constructor]. }
  destruct (65535 <? bytes + 20); [discriminate|].
  intros H. apply IH in H; [|tsimpl; assumption|assumption|subst bytes; lia]. tsimpl.
  destruct H as (E1 & E2 & E3 & news & E4 & HF).
  repeat split; try assumption.
  eexists. split; [rewrite E4, <- app_assoc; reflexivity|].
  constructor; [|exact HF]. tsimpl. split; [reflexivity|].
  unfold within_snd_window. tsimpl.
  pose proof (zlen_firstn_le bytes (out_text t)) as Hlen.
  pose proof (zlen_nonneg (firstn (Z.to_nat bytes) (out_text t))) as Hpos.
  set (len := zlen (firstn (Z.to_nat bytes) (out_text t))) in *.
  assert (Hb : 0 < bytes <= snd_wnd t - wsub (snd_nxt t) (snd_una t)) by (subst bytes; lia).
  clearbody len bytes. revert Hb. u32_unfold. intros Hb. lia.
Qed.

Lemma filter_all_needs (l : list transmit) :
  Forall (fun tx => t_needs tx = true) l -> filter t_needs l = l.
Proof. intros H. induction H as [|x l Hx _ IH]; cbn; [reflexivity|]. rewrite Hx, IH. reflexivity. Qed.

(* what segments() emits: the one-shot headers, the retransmissions that were
   already due, then the segments formed by this very call - and every one of
   the latter that carries text ends inside the send window *)
Lemma tcb_segments_window t t' segs : u32 (snd_wnd t) -> tcb_segments t = Ok (t', segs) ->
  snd_una t' = snd_una t /\ snd_wnd t' = snd_wnd t /\
  exists news,
    segs = map (fun h => mkSeg h []) (oneshot t) ++ map t_seg (filter t_needs (retx t)) ++ news /\
    Forall (fun s => s_text s <> [] -> within_snd_window (snd_una t') (snd_wnd t') s) news.
Proof.
  intros Hw. unfold tcb_segments.
  match goal with |- context [match ?r with Ok _ => _ | _ => _ end] => destruct r as [t1| | |] eqn:E1 end;
    try discriminate.
  intros H; inversion H; subst; clear H.
  assert (H1 : snd_una t1 = snd_una t /\ snd_wnd t1 = snd_wnd t /\
               exists news, retx t1 = retx t ++ news /\
                 Forall (fun tx => t_needs tx = true /\
                    (s_text (t_seg tx) <> [] -> within_snd_window (snd_una t) (snd_wnd t) (t_seg tx))) news).
  { revert E1. tsimpl. destruct (segmentizes (st t)).
    - destruct (mtu t <? SPACE_FOR_HEADERS) eqn:Emtu; [discriminate|].
      destruct (seg_loop _ _ _ _) as [t0| | |] eqn:El; try discriminate.
      intros H; inversion H; subst; clear H.
      apply seg_loop_window in El; [|tsimpl; assumption|lia|apply zlen_nonneg]. tsimpl.
      destruct El as (U1 & U2 & U3 & news & U4 & HF).
      assert (HF' : Forall (fun tx => t_needs tx = true /\
                 (s_text (t_seg tx) <> [] -> within_snd_window (snd_una t) (snd_wnd t) (t_seg tx))) news).
      { eapply Forall_impl; [|exact HF]. cbv beta. intros tx [A B]. auto. }
      unfold queue_pending_fin. destruct (_ && _); tsimpl.
      + destruct (enqueue_same_snd (set_fin_pending t0 false)
                   (hb_wnd (hb_ack (hb_fin (hb (set_fin_pending t0 false) (snd_nxt t0))) (rcv_nxt t0)) (rcv_wnd t0)))
          as (F1 & F2 & _). tsimpl. rewrite F1, F2.
        repeat split; try assumption.
        unfold enqueue. tsimpl. rewrite U4.
        exists (news ++ [mkTx (mkSeg (hb_wnd (hb_ack (hb_fin (hb (set_fin_pending t0 false) (snd_nxt t0))) (rcv_nxt t0)) (rcv_wnd t0)) []) true]).
        split; [rewrite <- app_assoc; reflexivity|].
        apply Forall_app. split; [exact HF'|]. constructor; [|constructor]. tsimpl.
        split; [reflexivity|]. intros C. exfalso. apply C. reflexivity.
      + repeat split; try assumption. eauto.
    - intros H; inversion H; subst. tsimpl. repeat split.
      exists []. rewrite app_nil_r. split; [reflexivity|constructor]. }
  destruct H1 as (U1 & U2 & news & U4 & HF).
  assert (G1 : forall x, snd_una (match map t_seg (filter t_needs (retx t1)) with
                       | [] => set_retx t1 x | _ :: _ => set_rto (set_retx t1 x) RTO end) = snd_una t1)
    by (intros; destruct (map t_seg (filter t_needs (retx t1))); reflexivity).
  assert (G2 : forall x, snd_wnd (match map t_seg (filter t_needs (retx t1)) with
                       | [] => set_retx t1 x | _ :: _ => set_rto (set_retx t1 x) RTO end) = snd_wnd t1)
    by (intros; destruct (map t_seg (filter t_needs (retx t1))); reflexivity).
  rewrite G1, G2, U1, U2. repeat split.
  exists (map t_seg news). split.
  - rewrite U4, filter_app, map_app. rewrite (filter_all_needs news).
    + reflexivity.
    + eapply Forall_impl; [|exact HF]. cbv beta. intros tx [A _]. exact A.
  - clear U4. induction HF as [|tx l [A B] _ IH]; cbn [map]; constructor; auto.
Qed.

(* the reading asked for by the property: "new" = carries text and starts at or
   after the SND.NXT the call found.  It needs that nothing already queued for
   retransmission starts at or after SND.NXT: *)
Definition old_behind (t : tcb) : Prop :=
  Forall (fun tx => s_text (t_seg tx) <> [] -> mod_geq (h_seq (s_hdr (t_seg tx))) (snd_nxt t) = false) (retx t).

Lemma tcb_segments_window_seq t t' segs : u32 (snd_wnd t) -> old_behind t ->
  tcb_segments t = Ok (t', segs) ->
  forall s, In s segs -> s_text s <> [] -> mod_geq (h_seq (s_hdr s)) (snd_nxt t) = true ->
    within_snd_window (snd_una t') (snd_wnd t') s.
Proof.
  intros Hw Hold H s Hin Htext Hgeq.
  destruct (tcb_segments_window _ _ _ Hw H) as (_ & _ & news & -> & HF).
  apply in_app_or in Hin. destruct Hin as [Hin|Hin].
  { apply in_map_iff in Hin. destruct Hin as (h & <- & _). exfalso. apply Htext. reflexivity. }
  apply in_app_or in Hin. destruct Hin as [Hin|Hin].
  - apply in_map_iff in Hin. destruct Hin as (tx & <- & Hin).
    apply filter_In in Hin. destruct Hin as [Hin _].
    unfold old_behind in Hold. rewrite Forall_forall in Hold.
    rewrite (Hold tx Hin Htext) in Hgeq. discriminate Hgeq.
  - rewrite Forall_forall in HF. apply HF; assumption.
Qed.

(* ------------------------------------------------------------------ *)
(* old_behind is an invariant: InvR.  It says where the retransmission queue
   lies relative to SND.UNA / SND.NXT and survives arbitrary segments.       *)
Definition pre_fin (s : state) : bool :=
  match s with SynSent | SynReceived | Established | CloseWait => true | _ => false end.
Definition flight (t : tcb) : Z := wsub (snd_nxt t) (snd_una t).
(* our FIN not yet in the sequence space *)
Definition fin_unsent (t : tcb) : bool := pre_fin (st t) || fin_pending t.
Definition data_bound (t : tcb) : Z := if fin_unsent t then 65535 else 65536.

(* a queued segment ends in (SND.UNA, SND.NXT]; while text is queued the flight
   is at most the largest window (+1 for our FIN) *)
Definition tx_ok (t : tcb) (tx : transmit) : Prop :=
  let s := t_seg tx in
  0 < wsub (wadd (h_seq (s_hdr s)) (seg_len s)) (snd_una t) <= flight t /\
  (s_text s <> [] -> flight t <= data_bound t).

Record RCore (t : tcb) : Prop := mkRCore {
  r_inv : Inv t;
  r_retx : Forall (tx_ok t) (retx t);
  (* an ACK exactly 2^31 ahead of SND.UNA = SND.NXT is taken as valid
     (ack_antipode below), hence 2^31 and not 65536 *)
  r_flight : flight t <= H31 + (if fin_unsent t then 0 else 1);
  r_finp : fin_pending t = true -> pre_fin (st t) = false }.
Definition RSyn (t : tcb) : Prop :=
  st t = SynSent -> snd_una t = snd_iss t /\ 0 < flight t <= 65535.
Definition InvR (t : tcb) : Prop := RCore t /\ RSyn t.

(* RCore looks only at these *)
Lemma RCore_frame t t' : RCore t -> Inv t' ->
  retx t' = retx t -> snd_una t' = snd_una t -> snd_nxt t' = snd_nxt t ->
  pre_fin (st t') = pre_fin (st t) -> fin_pending t' = fin_pending t -> RCore t'.
Proof.
  intros [H1 H2 H3 H4] HI Er Eu En Es Ef.
  assert (Efl : flight t' = flight t) by (unfold flight; rewrite Eu, En; reflexivity).
  assert (Efu : fin_unsent t' = fin_unsent t) by (unfold fin_unsent; rewrite Es, Ef; reflexivity).
  constructor; [assumption| | |].
  - rewrite Er. eapply Forall_impl; [|exact H2]. intros tx. unfold tx_ok, data_bound.
    rewrite Efl, Efu, Eu. auto.
  - rewrite Efl, Efu. assumption.
  - rewrite Ef, Es. assumption.
Qed.

(* ---- arithmetic of an accepted acknowledgment ---- *)
Lemma ack_accept una nxt ack : u32 una -> u32 nxt -> u32 ack ->
  mod_leq ack una = false -> mod_gt ack nxt = false ->
  (0 < wsub ack una <= wsub nxt una /\ wsub nxt ack = wsub nxt una - wsub ack una) \/
  (wsub nxt una = 0 /\ wsub ack una = H31 /\ wsub nxt ack = H31).
Proof. u32_unfold. intros Hu Hn Ha H1 H2. lia. Qed.

Lemma ack_entry una nxt ack e : u32 una -> u32 nxt -> u32 ack -> u32 e ->
  0 < wsub ack una <= wsub nxt una -> wsub ack una <= H31 ->
  0 < wsub e una <= wsub nxt una -> mod_lt ack e = true ->
  0 < wsub e ack <= wsub nxt una - wsub ack una.
Proof. u32_unfold. intros Hu Hn Ha He H1 H1' H2 H3. lia. Qed.

Lemma ack_accept_le una ack : mod_leq ack una = false -> wsub ack una <= H31.
Proof. u32_unfold. intros H. lia. Qed.

(* SND.UNA := ack, acknowledged segments leave the queue *)
Lemma advance_una t ack : RCore t -> u32 ack ->
  ((0 < wsub ack (snd_una t) <= flight t /\ wsub ack (snd_una t) <= H31 /\
    wsub (snd_nxt t) ack = flight t - wsub ack (snd_una t)) \/
   (flight t = 0 /\ wsub (snd_nxt t) ack = H31)) ->
  RCore (remove_acked (set_snd_una t ack) ack).
Proof.
  intros [H1 H2 H3 H4] Ha Hcase.
  assert (HI : Inv (remove_acked (set_snd_una t ack) ack))
    by (apply remove_acked_inv, Inv_set_snd_una; assumption).
  constructor; [assumption| | |]; unfold remove_acked, flight, fin_unsent, data_bound in *; tsimpl.
  - destruct Hcase as [(Ha1 & Ha2 & Ha3)|(Hd & _)].
    + pose proof (i_retx _ H1) as Hwf. clear HI.
      revert Hwf H2. generalize (retx t) as l.
      induction l as [|tx l IH]; intros Hwf H2; cbn [filter]; [constructor|].
      inversion Hwf; subst. inversion H2 as [|? ? Htx H2']; subst.
      destruct (mod_lt ack _) eqn:Ek; [|apply IH; assumption].
      constructor; [|apply IH; assumption].
      destruct Htx as [Hb1 Hb2]. unfold tx_ok, flight, data_bound, fin_unsent in *. tsimpl.
      rewrite Ha3. split.
      * apply ack_entry; try assumption; try apply wadd_u32; try apply H1.
      * intros Ht. specialize (Hb2 Ht). lia.
    + (* nothing can be queued when the flight is empty *)
      destruct H2 as [|tx l Htx _]; [constructor|].
      destruct Htx as [Hb1 _]. unfold flight in *. lia.
  - destruct Hcase as [(Ha1 & Ha2 & Ha3)|(Hd & Ha3)]; rewrite Ha3.
    + destruct (pre_fin (st t) || fin_pending t); lia.
    + destruct (pre_fin (st t) || fin_pending t); lia.
  - assumption.
Qed.

Lemma enqueue_plain_RCore t h : RCore t -> wf_hdr h ->
  c_syn (h_ctl h) = false -> c_fin (h_ctl h) = false -> RCore (enqueue t h).
Proof.
  intros HR Hh Hs Hf. eapply RCore_frame; [exact HR|apply enqueue_inv; [apply HR|assumption]|..];
    rewrite enqueue_plain by assumption; reflexivity.
Qed.

Lemma RCore_set_snd_window t w a b : RCore t -> u16 w -> u32 a -> u32 b -> RCore (set_snd_window t w a b).
Proof.
  intros HR ? ? ?. eapply RCore_frame; [exact HR|apply Inv_set_snd_window; try assumption; apply HR|..]; reflexivity.
Qed.

Lemma ack_est_RCore t h : RCore t -> wf_hdr h -> RCore (fst (ack_est t h)).
Proof.
  intros HR Hh. pose proof Hh as (Hsp & Hdp & Hseq & Hack & Hwnd & Hurg).
  pose proof (r_inv _ HR) as HI.
  unfold ack_est. destruct (mod_leq _ _) eqn:E1; [exact HR|].
  destruct (mod_gt _ _) eqn:E2; cbn [fst].
  - apply enqueue_plain_RCore; [assumption|apply ack_hdr_wf; assumption|reflexivity|reflexivity].
  - assert (H1 : RCore (remove_acked (set_snd_una t (h_ack h)) (h_ack h))).
    { apply advance_una; [assumption|assumption|].
      destruct (ack_accept _ _ _ (i_una _ HI) (i_nxt _ HI) Hack E1 E2) as [(A1 & A2)|(A1 & A2 & A3)].
      - left. unfold flight. repeat split; try lia. apply ack_accept_le; assumption.
      - right. unfold flight. auto. }
    destruct (_ || _); [apply RCore_set_snd_window|]; assumption.
Qed.

(* ---- stage 2, away from SYN-SENT ---- *)
Lemma pre_fin_ack_edge a b : ack_edge a b = true -> pre_fin b = pre_fin a.
Proof. destruct a, b; cbn; intros H; try reflexivity; discriminate H. Qed.
Lemma pre_fin_fin_edge a b : fin_edge a b = true -> pre_fin b = pre_fin a.
Proof. destruct a, b; cbn; intros H; try reflexivity; discriminate H. Qed.

Lemma RCore_set_st t v : RCore t -> pre_fin v = pre_fin (st t) -> RCore (set_st t v).
Proof. intros HR E. eapply RCore_frame; [exact HR|apply Inv_set_st, HR|..]; try reflexivity. exact E. Qed.
Lemma RCore_set_time_wait t v : RCore t -> tw_ok v -> RCore (set_time_wait t v).
Proof. intros HR E. eapply RCore_frame; [exact HR|apply Inv_set_time_wait; [apply HR|exact E]|..]; reflexivity. Qed.
Lemma RCore_set_rto t v : RCore t -> 0 <= v <= RTO -> RCore (set_rto t v).
Proof. intros HR E. eapply RCore_frame; [exact HR|apply Inv_set_rto; [apply HR|exact E]|..]; reflexivity. Qed.
Lemma RCore_set_rcv_nxt t v : RCore t -> u32 v -> RCore (set_rcv_nxt t v).
Proof. intros HR E. eapply RCore_frame; [exact HR|apply Inv_set_rcv_nxt; [apply HR|exact E]|..]; reflexivity. Qed.
Lemma RCore_set_rcv_irs t v : RCore t -> u32 v -> RCore (set_rcv_irs t v).
Proof. intros HR E. eapply RCore_frame; [exact HR|apply Inv_set_rcv_irs; [apply HR|exact E]|..]; reflexivity. Qed.
Lemma RCore_set_in_segs t v : RCore t -> Forall wf_seg v -> RCore (set_in_segs t v).
Proof. intros HR E. eapply RCore_frame; [exact HR|apply Inv_set_in_segs; [apply HR|exact E]|..]; reflexivity. Qed.

Lemma ps_ack_RCore t h : RCore t -> wf_hdr h -> st t <> SynSent -> RCore (fst (ps_ack t h)).
Proof.
  intros HR Hh Hn. pose proof Hh as (Hsp & Hdp & Hseq & Hack & Hwnd & Hurg).
  pose proof (r_inv _ HR) as HI.
  unfold ps_ack. destruct (negb _); [exact HR|].
  destruct (st t) eqn:Est; [congruence|..];
    try (match goal with |- context [ack_est t h] => idtac end;
         pose proof (ack_est_RCore t h HR Hh) as H2;
         pose proof (ack_est_st t h) as E2;
         destruct (ack_est t h) as [t2 r]; cbn [fst] in H2, E2;
         repeat break_if; destruct r; cbn [fst];
         repeat first [assumption | apply RCore_set_time_wait | apply RCore_set_st | apply tw_ok_msl2
                      | rewrite E2, Est; reflexivity]).
  - destruct (mod_bounded _ _ _ _ _); cbn [fst].
    + match goal with |- context [ack_est ?tt h] =>
        assert (H2 : RCore (fst (ack_est tt h)))
          by (apply ack_est_RCore; [apply RCore_set_snd_window; try assumption;
                                    apply RCore_set_st; [assumption|rewrite Est; reflexivity]|assumption]);
        destruct (ack_est tt h) as [t2 r] end.
      cbn [fst] in H2. destruct r; exact H2.
    + apply enqueue_plain_RCore; [assumption|apply rst_hdr_wf; assumption|reflexivity|reflexivity].
  - destruct (c_fin (h_ctl h)); cbn [fst]; [|exact HR]. apply RCore_set_time_wait; [|apply tw_ok_msl2].
    apply enqueue_plain_RCore; [assumption| |reflexivity|reflexivity].
    apply hb_wnd_wf; [|apply rcv_wnd_u16; assumption].
    apply hb_ack_wf; [|apply wadd_u32]. apply hb_wf; [assumption|apply HI].
Qed.

(* ---- stages 4, 6, 7 away from SYN-SENT ---- *)
Lemma ps_syn_RCore t h : RCore t -> wf_hdr h -> st t <> SynSent -> RCore (fst (ps_syn t h)).
Proof.
  intros HR Hh Hn. unfold ps_syn. destruct (negb _); [exact HR|].
  assert (Ho : RCore (enqueue t (ack_hdr t)))
    by (apply enqueue_plain_RCore; [assumption|apply ack_hdr_wf, HR|reflexivity|reflexivity]).
  destruct (st t); cbn [fst]; try exact Ho. congruence.
Qed.

Lemma ps_text_RCore t h text t' : RCore t -> ps_text t h text = Ok t' -> RCore t'.
Proof.
  intros HR H. pose proof (ps_text_inv _ _ _ _ (r_inv _ HR) H) as HI.
  pose proof (ps_text_st _ _ _ _ H) as Es.
  pose proof (ps_text_same_cfg _ _ _ _ H) as (_ & _ & _ & _ & _ & _ & _ & Ef & En).
  eapply RCore_frame; [exact HR|exact HI| | |exact En|rewrite Es; reflexivity|exact Ef];
    revert H; unfold ps_text; repeat break_if; intros H; inversion H; subst; try reflexivity;
    rewrite enqueue_plain by reflexivity; reflexivity.
Qed.

Lemma ps_fin_RCore t h n : RCore t -> RCore (ps_fin t h n).
Proof.
  intros HR. unfold ps_fin. destruct (negb _); [exact HR|].
  match goal with |- context [match st ?x with _ => _ end] => set (t1 := x) end.
  assert (H1 : RCore t1 /\ st t1 = st t).
  { subst t1. repeat break_if; try (split; [exact HR|reflexivity]).
    assert (H2 : RCore (set_rcv_nxt t (wadd (wadd (h_seq h) n) 1)))
      by (apply RCore_set_rcv_nxt; [assumption|apply wadd_u32]).
    split; [|rewrite enqueue_st; reflexivity].
    apply enqueue_plain_RCore; [exact H2|apply ack_hdr_wf, H2|reflexivity|reflexivity]. }
  destruct H1 as [H1 E1].
  destruct (st t1) eqn:Et1; try destruct (is_fin_acked t1);
    repeat first [assumption | apply RCore_set_rto | apply RCore_set_time_wait | apply RCore_set_st
                 | apply tw_ok_msl2 | apply rto_ok_RTO | rewrite Et1; reflexivity].
Qed.

(* ---- SYN-SENT ---- *)
Lemma synsent_ack_arith una nxt ack : u32 una -> u32 nxt -> u32 ack ->
  0 < wsub nxt una <= 65535 ->
  mod_bounded una CLt ack CLeq nxt = true ->
  0 < wsub ack una <= wsub nxt una /\ wsub ack una <= H31 /\
  wsub nxt ack = wsub nxt una - wsub ack una /\ mod_gt ack una = true.
Proof.
  intros Hu Hn Ha Hd. rewrite mod_bounded_arc by (try assumption; unfold H31; lia).
  u32_unfold. intros H. lia.
Qed.

Lemma tx_ok_synack t h : RCore t -> st t = SynSent -> snd_una t = snd_iss t -> 0 < flight t ->
  c_syn (h_ctl h) = true -> c_fin (h_ctl h) = false -> h_seq h = snd_iss t -> wf_hdr h ->
  RCore (enqueue (set_st t SynReceived) h).
Proof.
  intros [H1 H2 H3 H4] Est Eu Hd Hs Hf Hseq Hh.
  assert (HI : Inv (enqueue (set_st t SynReceived) h)) by (apply enqueue_inv; [apply Inv_set_st|]; assumption).
  unfold enqueue in *. rewrite Hs in *. cbn [orb] in *.
  constructor; [assumption| | |]; unfold flight, fin_unsent, data_bound in *; tsimpl.
  - apply Forall_app. split.
    + eapply Forall_impl; [|exact H2]. intros tx. unfold tx_ok, flight, data_bound, fin_unsent. tsimpl.
      rewrite Est. cbn [pre_fin]. auto.
    + constructor; [|constructor]. unfold tx_ok, flight, data_bound, fin_unsent, seg_len. tsimpl.
      rewrite Hs, Hf, Hseq, <- Eu. cbn [b2z]. unfold zlen. cbn [length]. split.
      * pose proof (i_una _ H1). revert Hd. u32_unfold. intros Hd. lia.
      * intros C. exfalso. apply C. reflexivity.
  - rewrite Est in H3. exact H3.
  - intros Hp. specialize (H4 Hp). rewrite Est in H4. discriminate H4.
Qed.

Lemma process_segment_synsent_InvR t s t' r : InvR t -> wf_seg s -> st t = SynSent ->
  process_segment t s = Ok (t', r) -> should_delete r = false -> InvR t'.
Proof.
  intros [HR HS] [Hh Hl] Est H Hd. pose proof Hh as (Hsp & Hdp & Hseq & Hack & Hwnd & Hurg).
  pose proof (r_inv _ HR) as HI. destruct (HS Est) as [Eu Hfl].
  assert (Hreply : forall hh, wf_hdr hh -> c_syn (h_ctl hh) = false -> c_fin (h_ctl hh) = false ->
                   InvR (enqueue t hh)).
  { intros hh W A B. split; [apply enqueue_plain_RCore; assumption|].
    rewrite enqueue_plain by assumption. exact HS. }
  revert H. unfold process_segment. rewrite Est.
  (* stage 2 *)
  unfold ps_ack. rewrite Est.
  assert (Hrest : forall t2, RCore t2 -> st t2 = SynSent -> snd_iss t2 = snd_iss t ->
            ((snd_una t2 = snd_iss t /\ 0 < flight t2 <= 65535) \/
             (c_syn (h_ctl (s_hdr s)) = true /\ mod_gt (snd_una t2) (snd_iss t) = true)) ->
            (c_syn (h_ctl (s_hdr s)) = false -> InvR t2) ->
            match ps_rst t2 (s_hdr s) with
            | Some r => Ok (t2, r)
            | None => let '(t4, r4) := ps_syn t2 (s_hdr s) in
              match r4 with
              | Some r => Ok (t4, r)
              | None => if state_eqb (st t4) SynSent then Ok (t4, PDiscard) else
                match ps_text t4 (s_hdr s) (s_text s) with
                | Ok t6 => Ok (ps_fin t6 (s_hdr s) (zlen (s_text s)), PSuccess)
                | Err e => Err e | Panic p => Panic p | OutOfFuel => OutOfFuel
                end
              end
            end = Ok (t', r) -> InvR t').
  { intros t2 HR2 E2 Ei Hmid Hnosyn.
    destruct (ps_rst t2 (s_hdr s)) as [r3|] eqn:Er.
    { intros H; inversion H; subst. apply ps_rst_some in Er. destruct Er as [_ Er]. congruence. }
    destruct (c_syn (h_ctl (s_hdr s))) eqn:Esyn.
    2:{ rewrite (ps_syn_nosyn _ _ Esyn), E2. cbn [state_eqb].
        intros H; inversion H; subst. apply Hnosyn. reflexivity. }
    unfold ps_syn. rewrite Esyn, E2. cbn [negb]. cbv zeta.
    set (t1 := set_snd_window _ _ _ _).
    assert (HR1 : RCore t1).
    { subst t1. apply RCore_set_snd_window; try assumption.
      apply RCore_set_rcv_nxt; [|apply wadd_u32]. apply RCore_set_rcv_irs; assumption. }
    assert (Eu1 : snd_una t1 = snd_una t2) by reflexivity.
    assert (Ei1 : snd_iss t1 = snd_iss t2) by reflexivity.
    rewrite Eu1, Ei1, Ei.
    destruct (mod_gt (snd_una t2) (snd_iss t)) eqn:Eg.
    - (* ESTABLISHED, then text and FIN *)
      assert (HR4 : RCore (enqueue (set_st t1 Established) (ack_hdr (set_st t1 Established)))).
      { apply enqueue_plain_RCore; [apply RCore_set_st; [assumption|subst t1; tsimpl; rewrite E2; reflexivity]
                                   | |reflexivity|reflexivity].
        apply ack_hdr_wf, Inv_set_st, HR1. }
      rewrite enqueue_st. tsimpl. cbn [state_eqb].
      destruct (ps_text _ (s_hdr s) (s_text s)) as [t6| | |] eqn:Et; try discriminate.
      intros H; inversion H; subst.
      assert (HR6 : RCore t6) by (eapply ps_text_RCore; eassumption).
      assert (E6 : st t6 = Established).
      { rewrite (ps_text_st _ _ _ _ Et), enqueue_st. reflexivity. }
      split; [apply ps_fin_RCore; assumption|].
      intros C. pose proof (ps_fin_st t6 (s_hdr s) (zlen (s_text s))) as Ee.
      rewrite E6, C in Ee. discriminate Ee.
    - (* SYN-RECEIVED: our SYN goes out again, with an ACK *)
      destruct Hmid as [[Eu2 Hd2]|[_ Hc]]; [|congruence].
      match goal with |- Ok (enqueue _ ?hh, _) = _ -> _ => assert (Hwf : wf_hdr hh) end.
      { assert (H2 : Inv (set_st t1 SynReceived)) by (apply Inv_set_st, HR1).
        apply hb_wnd_wf; [|apply rcv_wnd_u16; assumption].
        apply hb_ack_wf; [|apply H2]. apply hb_flag_wf. apply hb_wf; [assumption|apply H2]. }
      intros H; inversion H; subst.
      split; [|intros C; rewrite enqueue_st in C; discriminate C].
      apply tx_ok_synack; try assumption; try reflexivity; try lia.
      unfold flight in *. exact (proj1 Hd2). }
  destruct (c_ack (h_ctl (s_hdr s))); cbn [negb].
  2:{ apply Hrest; auto. intros _. split; assumption. }
  destruct (mod_bounded (snd_nxt t) _ _ _ _).
  { destruct (c_rst (h_ctl (s_hdr s))); intros H; inversion H; subst.
    - split; assumption.
    - apply Hreply; [apply rst_hdr_wf; assumption|reflexivity|reflexivity]. }
  destruct (mod_bounded (snd_una t) _ _ _ _) eqn:Eb.
  2:{ intros H; inversion H; subst. apply Hreply; [apply rst_hdr_wf; assumption|reflexivity|reflexivity]. }
  destruct (c_syn (h_ctl (s_hdr s))) eqn:Esyn.
  2:{ apply Hrest; auto. intros _. split; assumption. }
  destruct (synsent_ack_arith _ _ _ (i_una _ HI) (i_nxt _ HI) Hack Hfl Eb) as (A1 & A2 & A3 & A4).
  apply Hrest.
  - apply advance_una; [assumption|assumption|]. left. unfold flight in *. auto.
  - unfold remove_acked. tsimpl. exact Est.
  - reflexivity.
  - right. split; [reflexivity|]. unfold remove_acked. tsimpl. rewrite <- Eu. exact A4.
  - discriminate.
Qed.

(* ---- every state ---- *)
Lemma not_synsent_after a b : rfc_edge a b = true -> a <> SynSent -> b <> SynSent.
Proof. destruct a, b; cbn; intros H Hn; congruence. Qed.

Lemma process_segment_InvR t s t' r : InvR t -> wf_seg s ->
  process_segment t s = Ok (t', r) -> should_delete r = false -> InvR t'.
Proof.
  intros HRS Hs H Hd.
  destruct (state_eqb (st t) SynSent) eqn:Est.
  { apply state_eqb_eq in Est. eapply process_segment_synsent_InvR; eassumption. }
  assert (Hn : st t <> SynSent) by (intros C; rewrite C in Est; discriminate Est).
  destruct HRS as [HR HS]. destruct Hs as [Hh Hl].
  split.
  2:{ intros C. exfalso. revert C. eapply not_synsent_after; [|exact Hn].
      eapply process_segment_edge; eassumption. }
  pose proof (ps_ack_RCore t (s_hdr s) HR Hh Hn) as H2.
  pose proof (ps_ack_st t (s_hdr s)) as E2.
  assert (Hn2 : st (fst (ps_ack t (s_hdr s))) <> SynSent).
  { destruct (st t); try congruence; destruct (st (fst (ps_ack t (s_hdr s)))); discriminate. }
  pose proof (ps_syn_RCore _ (s_hdr s) H2 Hh Hn2) as H4.
  destruct (process_segment_cases _ _ _ _ H); subst; try assumption.
  - apply enqueue_plain_RCore; [assumption|apply ack_hdr_wf, HR|reflexivity|reflexivity].
  - apply ps_fin_RCore. eapply ps_text_RCore; eassumption.
Qed.

(* ---- the other operations ---- *)
Lemma InvR_frame t t' : InvR t -> Inv t' ->
  retx t' = retx t -> snd_una t' = snd_una t -> snd_nxt t' = snd_nxt t -> snd_iss t' = snd_iss t ->
  st t' = st t -> fin_pending t' = fin_pending t -> InvR t'.
Proof.
  intros [HR HS] HI Er Eu En Ei Es Ef. split.
  - eapply RCore_frame; try eassumption. rewrite Es. reflexivity.
  - unfold RSyn, flight in *. rewrite Es, Eu, En, Ei. exact HS.
Qed.

Lemma tx_ok_map t (f : transmit -> transmit) l : (forall tx, t_seg (f tx) = t_seg tx) ->
  Forall (tx_ok t) l -> Forall (tx_ok t) (map f l).
Proof.
  intros Hf H. induction H as [|tx l Htx _ IH]; cbn [map]; constructor; [|exact IH].
  unfold tx_ok in *. rewrite Hf. exact Htx.
Qed.

Lemma InvR_retx_map t (f : transmit -> transmit) : (forall tx, t_seg (f tx) = t_seg tx) ->
  InvR t -> InvR (set_retx t (map f (retx t))).
Proof.
  intros Hf [[H1 H2 H3 H4] HS]. split; [|exact HS].
  constructor; try assumption.
  - apply Inv_set_retx; [assumption|]. apply Forall_map_tx; [assumption|apply H1].
  - tsimpl. apply (tx_ok_map t f _ Hf) in H2.
    eapply Forall_impl; [|exact H2]. intros tx. unfold tx_ok, flight, data_bound, fin_unsent. tsimpl. auto.
Qed.

Lemma segment_arrives_InvR_loop fuel : forall t t', InvR t ->
  arrives_loop fuel t = Ok (t', AOk) -> InvR t'.
Proof.
  induction fuel as [|f IH]; intros t t' HR; cbn [arrives_loop]; [discriminate|].
  destruct (heap_peek (in_segs t)) as [top|]; [|intros H; inversion H; subst; exact HR].
  destruct (_ && _); [intros H; inversion H; subst; exact HR|].
  destruct (heap_pop (in_segs t)) as [[s rest]|] eqn:Epop; [|discriminate].
  pose proof (proj1 HR) as HC. pose proof (r_inv _ HC) as HI.
  destruct (heap_pop_some wf_seg _ _ _ Epop (i_insegs _ HI)) as (Hs & Hrest & _).
  assert (H0 : InvR (set_in_segs t rest)).
  { eapply InvR_frame; [exact HR|apply Inv_set_in_segs; assumption|..]; reflexivity. }
  destruct (process_segment (set_in_segs t rest) s) as [[t1 r1]| | |] eqn:Ep; try discriminate.
  destruct (should_delete r1) eqn:Ed; [discriminate|].
  apply IH. eapply process_segment_InvR; eassumption.
Qed.

Lemma segment_arrives_InvR t s t' : InvR t -> wf_seg s ->
  segment_arrives t s = Ok (t', AOk) -> InvR t'.
Proof.
  intros HR Hs. unfold segment_arrives. apply segment_arrives_InvR_loop.
  pose proof (r_inv _ (proj1 HR)) as HI.
  eapply InvR_frame; [exact HR| |..]; try reflexivity.
  apply Inv_set_in_segs; [assumption|]. apply heap_push_Forall; [assumption|apply HI].
Qed.

Lemma tcb_send_InvR t b : InvR t -> InvR (tcb_send t b).
Proof.
  intros HR. unfold tcb_send. destruct (accepts_send _); [|assumption].
  eapply InvR_frame; [exact HR|apply Inv_set_out_text, HR|..]; reflexivity.
Qed.
Lemma tcb_receive_InvR t : InvR t -> InvR (fst (tcb_receive t)).
Proof.
  intros HR. eapply InvR_frame; [exact HR|apply tcb_receive_inv, HR|..]; reflexivity.
Qed.

Lemma wadd1_flight una nxt : u32 una -> u32 nxt -> wsub nxt una <= H31 ->
  wsub (wadd nxt 1) una = wsub nxt una + 1.
Proof. u32_unfold. intros. lia. Qed.

Lemma queue_pending_fin_InvR t : InvR t -> InvR (queue_pending_fin t).
Proof.
  intros HRS. pose proof (queue_pending_fin_inv t (r_inv _ (proj1 HRS))) as HI'.
  pose proof HRS as HRS0.
  destruct HRS as [[H1 H2 H3 H4] HS].
  revert HI'. unfold queue_pending_fin.
  destruct (fin_pending t) eqn:Efp; cbn [andb]; [|intros _; exact HRS0].
  destruct (out_text t); [|intros _; exact HRS0].
  specialize (H4 eq_refl). intros HI'.
  unfold enqueue in *. tsimpl.
  assert (Efl : wsub (wadd (snd_nxt t) 1) (snd_una t) = flight t + 1).
  { unfold flight, fin_unsent in *. rewrite Efp, orb_true_r in H3.
    apply wadd1_flight; [apply H1|apply H1|lia]. }
  split.
  - constructor; [assumption| | |]; unfold flight, fin_unsent, data_bound in *; tsimpl.
    + apply Forall_app. split.
      * eapply Forall_impl; [|exact H2]. intros tx.
        unfold tx_ok, flight, data_bound, fin_unsent. tsimpl.
        rewrite Efl, Efp, H4, orb_true_r. cbn [orb]. intros [A B]. split; [lia|].
        intros C. specialize (B C). lia.
      * constructor; [|constructor]. unfold tx_ok, flight, data_bound, fin_unsent, seg_len. tsimpl.
        unfold zlen. cbn [length b2z].
        match goal with |- context [wadd (snd_nxt t) ?x] => replace x with 1 by reflexivity end.
        rewrite Efl. split.
        -- pose proof (wsub_u32 (snd_nxt t) (snd_una t)) as Hu. unfold u32 in Hu. lia.
        -- intros C. exfalso. apply C. reflexivity.
    + rewrite Efl, H4. cbn [orb]. rewrite Efp, orb_true_r in H3. lia.
    + discriminate.
  - unfold RSyn. tsimpl. intros C. rewrite C in H4. discriminate H4.
Qed.

Lemma tcb_close_InvR t : InvR t -> InvR (fst (tcb_close t)).
Proof.
  intros HRS. unfold tcb_close.
  assert (Hgo : forall v, pre_fin (st t) = true -> st t <> SynSent -> pre_fin v = false -> v <> SynSent ->
                InvR (queue_pending_fin (set_st (set_fin_pending t true) v))).
  { intros v Hp Hn Hv Hv'. apply queue_pending_fin_InvR.
    destruct HRS as [[H1 H2 H3 H4] HS]. split.
    - constructor; unfold flight, fin_unsent, data_bound in *; tsimpl.
      + apply Inv_set_st, Inv_set_fin_pending, H1.
      + eapply Forall_impl; [|exact H2]. intros tx.
        unfold tx_ok, flight, data_bound, fin_unsent. tsimpl. rewrite Hp, orb_true_r. auto.
      + rewrite orb_true_r. rewrite Hp in H3. exact H3.
      + intros _. exact Hv.
    - unfold RSyn. tsimpl. congruence. }
  destruct (st t) eqn:Est; cbn [fst]; try assumption;
    apply Hgo; try reflexivity; congruence.
Qed.

Lemma advance_time_InvR t dt : InvR t -> 0 <= dt -> InvR (fst (advance_time t dt)).
Proof.
  intros HR Hdt. pose proof (advance_time_inv t dt (r_inv _ (proj1 HR)) Hdt) as HI.
  revert HI. unfold advance_time.
  set (t1 := if rto t <? dt then _ else _).
  assert (H1 : InvR t1).
  { subst t1. destruct (rto t <? dt) eqn:Erto.
    - apply (InvR_retx_map (set_rto t RTO) (fun tx => mkTx (t_seg tx) true)); [reflexivity|].
      eapply InvR_frame; [exact HR|apply Inv_set_rto; [apply HR|apply rto_ok_RTO]|..]; reflexivity.
    - eapply InvR_frame; [exact HR| |..]; try reflexivity.
      apply Inv_set_rto; [apply HR|]. pose proof (i_rto _ (r_inv _ (proj1 HR))). lia. }
  destruct (time_wait t1) as [tw|]; [|intros _; exact H1].
  destruct (tw <? dt); cbn [fst]; [intros _; exact H1|].
  intros HI. eapply InvR_frame; [exact H1|exact HI|..]; reflexivity.
Qed.

Lemma seg_loop_InvR fuel : forall t mss t', InvR t -> 0 <= mss <= 65535 - SPACE_FOR_HEADERS ->
  seg_loop fuel t mss (zlen (out_text t)) = Ok t' -> InvR t'.
Proof.
  induction fuel as [|f IH]; intros t mss t' HRS Hmss; cbn [seg_loop]; [discriminate|].
  set (bytes := Z.min (Z.min mss _) _).
  pose proof (zlen_nonneg (out_text t)) as Hz.
  destruct (bytes =? 0) eqn:E0; [intros H; inversion H; subst; exact HRS|].
  destruct (65535 <? bytes + 20) eqn:E1; [discriminate|].
  assert (Hb : 0 < bytes <= mss /\ bytes <= zlen (out_text t) /\
               bytes <= snd_wnd t - flight t) by (unfold flight; subst bytes; lia).
  match goal with |- seg_loop f ?t3 mss ?rem = _ -> _ =>
    assert (Erem : rem = zlen (out_text t3)) by (tsimpl; rewrite zlen_skipn by lia; reflexivity);
    assert (H3 : InvR t3); [|rewrite Erem; apply IH; assumption] end.
  destruct HRS as [[H1 H2 H3 H4] HS].
  assert (Hlen : zlen (firstn (Z.to_nat bytes) (out_text t)) = bytes).
  { unfold zlen in *. rewrite firstn_length. lia. }
  assert (Hwnd : snd_wnd t <= 65535) by (apply H1).
  assert (Efl : wsub (wadd (snd_nxt t) bytes) (snd_una t) = flight t + bytes).
  { pose proof (wsub_u32 (snd_nxt t) (snd_una t)) as Hu. unfold flight in *.
    clearbody bytes. revert Hu Hb. u32_unfold. intros Hu Hb. lia. }
  pose proof (wsub_u32 (snd_nxt t) (snd_una t)) as Hfu. fold (flight t) in Hfu. unfold u32 in Hfu.
  assert (HI3 : Inv (set_retx (set_snd_nxt (set_out_text t (skipn (Z.to_nat bytes) (out_text t)))
                                 (wadd (snd_nxt t) bytes))
                     (retx t ++ [mkTx (mkSeg (hb_wnd (hb_ack (hb t (snd_nxt t)) (rcv_nxt t)) (rcv_wnd t))
                                             (firstn (Z.to_nat bytes) (out_text t))) true]))).
  { apply Inv_set_retx.
    + apply Inv_set_snd_nxt; [apply Inv_set_out_text; assumption|apply wadd_u32].
    + tsimpl. apply Forall_app. split; [apply H1|]. constructor; [|constructor]. tsimpl.
      split; tsimpl.
      * apply hb_wnd_wf; [|apply rcv_wnd_u16; assumption].
        apply hb_ack_wf; [|apply H1]. apply hb_wf; [assumption|apply H1].
      * rewrite Hlen. unfold MAXTEXT, SPACE_FOR_HEADERS in *. lia. }
  split.
  - constructor; [exact HI3| | |]; unfold flight, fin_unsent, data_bound in *; tsimpl.
    + apply Forall_app. split.
      * eapply Forall_impl; [|exact H2]. intros tx.
        unfold tx_ok, flight, data_bound, fin_unsent. tsimpl. rewrite Efl.
        intros [A B]. split; [lia|]. intros _. destruct (pre_fin (st t) || fin_pending t); lia.
      * constructor; [|constructor]. unfold tx_ok, flight, data_bound, fin_unsent, seg_len. tsimpl.
        rewrite Hlen, Efl. cbn [b2z]. replace (bytes + 0 + 0) with bytes by lia. rewrite Efl.
        split; [lia|]. intros _. destruct (pre_fin (st t) || fin_pending t); lia.
    + rewrite Efl. unfold H31. destruct (pre_fin (st t) || fin_pending t); lia.
    + assumption.
  - unfold RSyn, flight in *. tsimpl. rewrite Efl. intros C. destruct (HS C) as [A B]. split; [exact A|lia].
Qed.

Lemma tcb_segments_InvR t t' segs : InvR t -> tcb_segments t = Ok (t', segs) -> InvR t'.
Proof.
  intros HR H.
  destruct (tcb_segments_ok t (r_inv _ (proj1 HR))) as (t'' & segs' & H' & HI' & _).
  rewrite H in H'. inversion H'; subst t'' segs'. clear H'.
  revert H. unfold tcb_segments.
  assert (H0 : InvR (set_oneshot t [])).
  { eapply InvR_frame; [exact HR|apply Inv_set_oneshot; [apply HR|constructor]|..]; reflexivity. }
  match goal with |- context [match ?r with Ok _ => _ | _ => _ end] => destruct r as [t1| | |] eqn:E1 end;
    try discriminate.
  assert (H1 : InvR t1).
  { revert E1. destruct (segmentizes _); [|intros H; inversion H; subst; exact H0].
    pose proof (i_mtu _ (r_inv _ (proj1 H0))) as Hm.
    destruct (mtu (set_oneshot t []) <? SPACE_FOR_HEADERS); [discriminate|].
    destruct (seg_loop _ _ _ _) as [t0| | |] eqn:El; try discriminate.
    intros H; inversion H; subst. apply queue_pending_fin_InvR.
    eapply seg_loop_InvR; [exact H0| |exact El]. lia. }
  intros H; inversion H; subst; clear H.
  assert (H2 : InvR (set_retx t1 (map (fun tx => mkTx (t_seg tx) false) (retx t1))))
    by (apply InvR_retx_map; [reflexivity|assumption]).
  eapply InvR_frame; [exact H2|exact HI'|..]; destruct (map t_seg _); reflexivity.
Qed.

Lemma tcb_open_InvR lp rp iss mtu0 : u16 lp -> u16 rp -> u32 iss ->
  SPACE_FOR_HEADERS <= mtu0 <= 65535 -> InvR (tcb_open lp rp iss mtu0).
Proof.
  intros Hl Hr Hi Hm. pose proof (tcb_open_inv lp rp iss mtu0 Hl Hr Hi Hm) as HI.
  revert HI. unfold tcb_open. cbv zeta. unfold enqueue. tsimpl. intros HI.
  assert (E : wsub (wadd iss 1) iss = 1) by (revert Hi; u32_unfold; intros; lia).
  split.
  - constructor; [exact HI| | |]; unfold flight, fin_unsent, data_bound; tsimpl.
    + constructor; [|constructor]. unfold tx_ok, flight, seg_len. tsimpl. unfold zlen. cbn [length b2z].
      match goal with |- context [wadd iss ?x] => replace x with 1 by reflexivity end.
      rewrite E. split; [lia|].
      intros C. exfalso. apply C. reflexivity.
    + rewrite E. unfold H31. cbn. lia.
    + discriminate.
  - unfold RSyn, flight. tsimpl. rewrite E. intros _. split; [reflexivity|lia].
Qed.

Lemma arrives_listen_InvR s iss mtu0 t : wf_seg s -> u32 iss ->
  SPACE_FOR_HEADERS <= mtu0 <= 65535 -> arrives_listen s iss mtu0 = LTcb t -> InvR t.
Proof.
  intros Hs Hi Hm H. pose proof (arrives_listen_inv s iss mtu0 t Hs Hi Hm H) as HI.
  revert H HI. unfold arrives_listen. repeat break_if; try discriminate.
  intros H; inversion H; subst; clear H. unfold enqueue. tsimpl. intros HI.
  assert (E : wsub (wadd iss 1) iss = 1) by (revert Hi; u32_unfold; intros; lia).
  split.
  - constructor; [exact HI| | |]; unfold flight, fin_unsent, data_bound; tsimpl.
    + constructor; [|constructor]. unfold tx_ok, flight, seg_len. tsimpl. unfold zlen. cbn [length b2z].
      match goal with |- context [wadd iss ?x] => replace x with 1 by reflexivity end.
      rewrite E. split; [lia|].
      intros C. exfalso. apply C. reflexivity.
    + rewrite E. unfold H31. cbn. lia.
    + discriminate.
  - unfold RSyn. tsimpl. discriminate.
Qed.

Definition InvR_opt (o : option tcb) : Prop := match o with Some t => InvR t | None => True end.

Lemma apply_op_InvR t o : InvR t -> wf_op o -> exists r, apply_op t o = Ok r /\ InvR_opt r.
Proof.
  intros HR Ho. pose proof (r_inv _ (proj1 HR)) as HI.
  destruct o; cbn [apply_op wf_op] in *.
  - destruct (segment_arrives_ok t s HI Ho) as (t' & r & E & H').
    pose proof (segment_arrives_InvR t s t' HR Ho) as HR'. rewrite E in *.
    destruct r; eexists; split; eauto; [exact (HR' eq_refl)|exact I].
  - eexists; split; [reflexivity|]. apply tcb_send_InvR; assumption.
  - eexists; split; [reflexivity|]. apply tcb_receive_InvR; assumption.
  - eexists; split; [reflexivity|]. apply tcb_close_InvR; assumption.
  - pose proof (advance_time_InvR t dt HR Ho) as H'.
    destruct (advance_time t dt) as [t' []]; eexists; split; eauto; exact I.
  - destruct (tcb_segments_ok t HI) as (t' & segs & E & H' & _).
    pose proof (tcb_segments_InvR t t' segs HR E). rewrite E. eexists; split; eauto.
Qed.

Lemma run_ops_InvR ops : forall t, InvR t -> Forall wf_op ops ->
  exists r, run_ops t ops = Ok r /\ InvR_opt r.
Proof.
  induction ops as [|o rest IH]; intros t HR Hops; cbn [run_ops].
  - eexists; split; [reflexivity|exact HR].
  - inversion Hops; subst.
    destruct (apply_op_InvR t o HR) as (r & -> & Hr); [assumption|].
    destruct r as [t'|]; [apply IH; assumption|].
    eexists; split; [reflexivity|exact I].
Qed.

(* ---- InvR gives old_behind, hence the window bound in its seq form ---- *)
Lemma old_behind_arith una nxt seq len : u32 una -> u32 nxt -> u32 seq -> 1 <= len <= 65536 + 2 ->
  0 < wsub (wadd seq len) una <= wsub nxt una -> wsub nxt una <= 65536 ->
  mod_geq seq nxt = false.
Proof. unfold mod_geq. u32_unfold. intros Hu Hn Hs Hl He Hd. lia. Qed.

Lemma InvR_old_behind t : InvR t -> old_behind t.
Proof.
  intros [[H1 H2 H3 H4] _]. unfold old_behind.
  pose proof (i_retx _ H1) as Hwf. revert Hwf H2. generalize (retx t) as l.
  induction l as [|tx l IH]; intros Hwf H2; constructor.
  - inversion Hwf as [|? ? [Hh Hl] _]; subst. inversion H2 as [|? ? [A B] _]; subst.
    intros Ht. specialize (B Ht).
    pose proof (zlen_nonneg (s_text (t_seg tx))) as Hz.
    assert (Hz1 : 1 <= zlen (s_text (t_seg tx))).
    { destruct (s_text (t_seg tx)); [congruence|]. unfold zlen. cbn [length]. lia. }
    eapply (old_behind_arith (snd_una t) (snd_nxt t) _ (seg_len (t_seg tx)));
      try apply H1; try apply Hh; try exact A.
    + unfold seg_len, MAXTEXT in *.
      destruct (c_syn _), (c_fin _); cbn [b2z]; lia.
    + unfold flight, data_bound in B. destruct (fin_unsent t); lia.
  - inversion Hwf; subst. inversion H2; subst. apply IH; assumption.
Qed.

Lemma tcb_segments_window_InvR t t' segs : InvR t -> tcb_segments t = Ok (t', segs) ->
  forall s, In s segs -> s_text s <> [] -> mod_geq (h_seq (s_hdr s)) (snd_nxt t) = true ->
    within_snd_window (snd_una t') (snd_wnd t') s.
Proof.
  intros HR. apply tcb_segments_window_seq.
  - pose proof (i_swnd _ (r_inv _ (proj1 HR))) as Hw. unfold u16, u32, M32 in *. lia.
  - apply InvR_old_behind. exact HR.
Qed.

(* ---- finding: an ACK exactly 2^31 ahead of SND.UNA = SND.NXT is taken as a
   valid acknowledgment (mod_leq and mod_gt are both false at the antipode):
   SND.UNA jumps 2^31 past SND.NXT and nothing can be sent until the next
   legitimate ACK pulls it back.  No crash, the window bound still holds. ---- *)
Definition idle_tcb : tcb :=
  mkTcb 1000 80 1500 false Established 101 101 65535 500 101 100 500 501 DEFAULT_WND
        [] [] [] false [] [] RTO None.
Definition antipode_ack : segment :=
  mkSeg (mkHdr 80 1000 501 (101 + H31) (mkCtl false true false false false false) 65535 0) [].
Lemma ack_antipode :
  InvR idle_tcb /\ wf_seg antipode_ack /\
  match segment_arrives idle_tcb antipode_ack with
  | Ok (t', AOk) => snd_una t' = 101 + H31 /\ snd_nxt t' = 101 /\ flight t' = H31
  | _ => False
  end.
Proof.
  split.
  { split.
    - constructor.
      + constructor; cbn; unfold u16, u32, M32, SPACE_FOR_HEADERS, DEFAULT_WND, RTO, tw_ok, zlen; cbn;
          try lia; constructor.
      + constructor.
      + vm_compute. discriminate.
      + cbn. discriminate.
    - unfold RSyn. cbn. discriminate. }
  split. { repeat split; cbn; unfold u16, u32, M32, H31, MAXTEXT, zlen; cbn; lia. }
  vm_compute. repeat split.
Qed.

(* ------------------------------------------------------------------ *)
(* deletion through segment_arrives with a non-empty heap: the closing result
   comes from ONE process_segment call on the new segment or a queued one *)
Lemma arrives_loop_close fuel : forall t t',
  arrives_loop fuel t = Ok (t', AClose) ->
  exists t0 s0 r, In s0 (in_segs t) /\ rfc_path (st t) (st t0) /\
    process_segment t0 s0 = Ok (t', r) /\ should_delete r = true.
Proof.
  induction fuel as [|f IH]; intros t t'; cbn [arrives_loop]; [discriminate|].
  destruct (heap_peek (in_segs t)) as [top|]; [|discriminate].
  destruct (_ && _); [discriminate|].
  destruct (heap_pop (in_segs t)) as [[s rest]|] eqn:Epop; [|discriminate].
  assert (Hall : Forall (fun x => In x (in_segs t)) (in_segs t)) by (apply Forall_forall; auto).
  destruct (heap_pop_some (fun x => In x (in_segs t)) _ _ _ Epop Hall) as (Hs & Hrest & _).
  destruct (process_segment (set_in_segs t rest) s) as [[t1 r1]| | |] eqn:Ep; try discriminate.
  destruct (should_delete r1) eqn:Ed.
  - intros H; inversion H; subst.
    exists (set_in_segs t rest), s, r1. repeat split; auto. apply rt_refl.
  - intros H. apply IH in H. destruct H as (t0 & s0 & r & Hin & Hpath & Hp & Hd).
    exists t0, s0, r. repeat split; auto.
    + rewrite (process_segment_in_segs _ _ _ _ Ep) in Hin. tsimpl.
      rewrite Forall_forall in Hrest. auto.
    + eapply rt_trans; [|exact Hpath]. apply rt_step.
      apply process_segment_edge in Ep. exact Ep.
Qed.

Lemma heap_push_In (v : list segment) x y : In y (heap_push v x) -> y = x \/ In y v.
Proof.
  intros H.
  assert (F : Forall (fun z => z = x \/ In z v) (heap_push v x)).
  { apply heap_push_Forall; [left; reflexivity|]. apply Forall_forall. auto. }
  rewrite Forall_forall in F. auto.
Qed.

Lemma segment_arrives_close t s t' : segment_arrives t s = Ok (t', AClose) ->
  exists t0 s0 r, (s0 = s \/ In s0 (in_segs t)) /\ rfc_path (st t) (st t0) /\
    process_segment t0 s0 = Ok (t', r) /\ should_delete r = true /\
    ((c_rst (h_ctl (s_hdr s0)) = true /\ ps_rst t' (s_hdr s0) = Some r) \/
     (r = PFinalizeClose /\ c_ack (h_ctl (s_hdr s0)) = true /\ st t0 = LastAck /\ st t' = LastAck /\
      is_fin_acked t' = true)).
Proof.
  unfold segment_arrives. intros H. apply arrives_loop_close in H.
  destruct H as (t0 & s0 & r & Hin & Hpath & Hp & Hd). tsimpl.
  exists t0, s0, r. repeat split; auto.
  - apply heap_push_In. exact Hin.
  - eapply process_segment_deleted; eassumption.
Qed.

(* ------------------------------------------------------------------ *)
(* the closed two-endpoint system of Model/TcpNet.v with forged segments
   injected at will: the panicked flag is never raised *)

Definition wf_cfg (c : config) : Prop :=
  u16 (portA c) /\ u16 (portB c) /\ u32 (issA c) /\ u32 (issB c) /\
  SPACE_FOR_HEADERS <= mtuA c <= 65535 /\ SPACE_FOR_HEADERS <= mtuB c <= 65535.
Definition wf_label (l : label) : Prop :=
  match l with
  | LTick _ ms => 0 <= ms | LFairT _ ms _ => 0 <= ms | LInject _ seg => wf_seg seg
  | _ => True
  end.

Definition end_ok (e : endpoint) : Prop := match e with ELive t => Inv t | _ => True end.
Record SysInv (s : sys) : Prop := mkSysInv {
  si_np : panicked s = false;
  si_A : end_ok (endA s); si_B : end_ok (endB s);
  si_nA : Forall wf_seg (netA s); si_nB : Forall wf_seg (netB s) }.

Lemma SysInv_end s x : SysInv s -> end_ok (end_of s x).
Proof. intros []. destruct x; assumption. Qed.
Lemma SysInv_net s x : SysInv s -> Forall wf_seg (net_of s x).
Proof. intros []. destruct x; assumption. Qed.
Lemma SysInv_set_end s x e : SysInv s -> end_ok e -> SysInv (set_end s x e).
Proof. intros [] He. destruct x; constructor; cbn; assumption. Qed.
Lemma SysInv_set_net s x n : SysInv s -> Forall wf_seg n -> SysInv (set_net s x n).
Proof. intros [] He. destruct x; constructor; cbn; assumption. Qed.
Lemma SysInv_set_sub s x v : SysInv s -> SysInv (set_sub s x v).
Proof. intros []. destruct x; constructor; cbn; assumption. Qed.
Lemma SysInv_set_del s x v : SysInv s -> SysInv (set_del s x v).
Proof. intros []. destruct x; constructor; cbn; assumption. Qed.
Lemma SysInv_final_read s x t : SysInv s -> SysInv (final_read s x t).
Proof. intros H. unfold final_read. destruct (in_text t); [assumption|apply SysInv_set_del; assumption]. Qed.

Lemma wf_cfg_side c x : wf_cfg c ->
  u16 (port_of c x) /\ u32 (iss_of c x) /\ SPACE_FOR_HEADERS <= mtu_of c x <= 65535.
Proof. intros (A & B & C & D & E & F). destruct x; cbn; auto. Qed.

Lemma Forall_snoc {A} (P : A -> Prop) l x : Forall P l -> P x -> Forall P (l ++ [x]).
Proof. intros Hl Hx. apply Forall_app. split; [assumption|]. constructor; [assumption|constructor]. Qed.

Lemma rst_reply_wf (h : header) : wf_hdr h ->
  wf_hdr (hb_rst (mkHdr (h_dport h) (h_sport h) (h_ack h) 0 ctl0 0 0)).
Proof.
  intros (Hsp & Hdp & Hseq & Hack & Hwnd & Hurg). apply hb_flag_wf.
  unfold wf_hdr, u16, u32, M32 in *; cbn. repeat split; try assumption; lia.
Qed.

Lemma arrive_inv c s r seg : wf_cfg c -> SysInv s -> wf_seg seg -> SysInv (fst (arrive c s r seg)).
Proof.
  intros Hc Hs Hseg. unfold arrive.
  pose proof (SysInv_end s r Hs) as He. destruct (end_of s r) as [| |t|]; cbn [fst]; try assumption.
  - (* closed *)
    unfold arrives_closed. destruct Hseg as [Hh Hl]. pose proof Hh as (Hsp & Hdp & Hseq & Hack & Hwnd & Hurg).
    repeat break_if; cbn [fst]; try assumption; apply SysInv_set_net; try assumption;
      (apply Forall_snoc; [apply SysInv_net; assumption|apply wf_seg_nil]).
    + apply rst_reply_wf; assumption.
    + apply hb_ack_wf; [|apply wadd_u32]. apply hb_flag_wf.
      unfold wf_hdr, u16, u32, M32 in *; cbn. repeat split; try assumption; lia.
  - (* listen *)
    destruct (wf_cfg_side c r Hc) as (_ & Hi & Hm).
    destruct (arrives_listen seg (iss_of c r) (mtu_of c r)) as [|h|t] eqn:El; cbn [fst]; try assumption.
    + apply SysInv_set_net; [assumption|]. apply Forall_snoc; [apply SysInv_net; assumption|].
      apply wf_seg_nil. revert El. unfold arrives_listen. repeat break_if; try discriminate.
      intros H; inversion H; subst. apply rst_reply_wf, Hseg.
    + apply SysInv_set_end; [assumption|]. cbn. eapply arrives_listen_inv; eassumption.
  - (* live *)
    cbn in He. destruct (segment_arrives_ok t seg He Hseg) as (t' & ar & -> & H').
    destruct ar; cbn [fst].
    + apply SysInv_set_end; assumption.
    + apply SysInv_set_end; [apply SysInv_final_read; assumption|exact I].
Qed.

Lemma emit_inv s x : SysInv s -> SysInv (fst (fst (emit s x))) /\ snd (emit s x) = false.
Proof.
  intros Hs. unfold emit. pose proof (SysInv_end s x Hs) as He.
  destruct (end_of s x) as [| |t|]; cbn [fst snd]; auto.
  cbn in He. destruct (tcb_segments_ok t He) as (t' & segs & -> & H' & Hsegs). cbn [fst snd].
  split; [|reflexivity]. apply SysInv_set_net.
  - apply SysInv_set_end; assumption.
  - apply Forall_app. split; [apply SysInv_net; assumption|assumption].
Qed.

Lemma end_of_set_end s x e : end_of (set_end s x e) x = e.
Proof. destruct x; reflexivity. Qed.

Lemma tick_inv s x ms : SysInv s -> 0 <= ms -> SysInv (fst (tick s x ms)).
Proof.
  intros Hs Hms. unfold tick. destruct (emit_inv s x Hs) as [H1 H2].
  destruct (emit s x) as [[s1 segs] bad]. cbn [fst snd] in *. subst bad.
  pose proof (SysInv_end s1 x H1) as He. destruct (end_of s1 x) as [| |t|]; cbn [fst]; try assumption.
  cbn in He. pose proof (advance_time_inv t ms He Hms) as H'.
  destruct (advance_time t ms) as [t1 []]; cbn [fst] in *.
  - apply SysInv_set_end; assumption.
  - apply SysInv_set_end; [apply SysInv_final_read; assumption|exact I].
Qed.

Lemma recv_inv s x : SysInv s -> SysInv (fst (recv s x)).
Proof.
  intros Hs. unfold recv. pose proof (SysInv_end s x Hs) as He.
  destruct (end_of s x) as [| |t|]; cbn [fst]; try assumption.
  cbn in He. cbn [tcb_receive]. pose proof (tcb_receive_inv t He) as H'. cbn [tcb_receive fst] in H'.
  destruct (in_text t); cbn [fst].
  - apply SysInv_set_end; assumption.
  - apply SysInv_set_del, SysInv_set_end; assumption.
Qed.

Lemma net_of_set_net s x n : net_of (set_net s x n) x = n.
Proof. destruct x; reflexivity. Qed.

Lemma deliver_all_inv fuel c : wf_cfg c -> forall s x, SysInv s -> SysInv (deliver_all fuel c s x).
Proof.
  intros Hc. induction fuel as [|f IH]; intros s x Hs; cbn [deliver_all]; [assumption|].
  pose proof (SysInv_net s x Hs) as Hn.
  destruct (net_of s x) as [|seg rest]; [assumption|].
  inversion Hn; subst. apply IH. apply arrive_inv; [assumption| |assumption].
  apply SysInv_set_net; assumption.
Qed.

Lemma fair_half_t_inv c s x ms one : wf_cfg c -> 0 <= ms -> SysInv s -> SysInv (fair_half_t c s x ms one).
Proof.
  intros Hc Hms Hs. unfold fair_half_t.
  assert (H1 : SysInv (fst (tick s x ms))) by (apply tick_inv; assumption).
  destruct (emit_inv _ x H1) as [H2 _].
  destruct (emit (fst (tick s x ms)) x) as [[s2 segs] bad]. cbn [fst] in H2.
  apply recv_inv, recv_inv, deliver_all_inv; assumption.
Qed.

Lemma fair_half_inv c s x : wf_cfg c -> SysInv s -> SysInv (fair_half c s x).
Proof. intros Hc Hs. unfold fair_half. apply fair_half_t_inv; [assumption|lia|assumption]. Qed.

Lemma fair_rounds_t_inv k c ms one : wf_cfg c -> 0 <= ms ->
  forall s, SysInv s -> SysInv (fair_rounds_t k c s ms one).
Proof.
  intros Hc Hms. induction k as [|k IH]; intros s Hs; cbn [fair_rounds_t]; [assumption|].
  apply IH. apply fair_half_t_inv; try assumption. apply fair_half_t_inv; assumption.
Qed.

Lemma fair_rounds_inv k c : wf_cfg c -> forall s, SysInv s -> SysInv (fair_rounds k c s).
Proof.
  intros Hc. induction k as [|k IH]; intros s Hs; cbn [fair_rounds]; [assumption|].
  apply IH. apply fair_half_inv; [assumption|]. apply fair_half_inv; assumption.
Qed.

Lemma remove_nth_Forall {A} (P : A -> Prop) l : forall n, Forall P l -> Forall P (remove_nth l n).
Proof.
  induction l as [|y l IH]; intros [|n] H; cbn; auto; inversion H; subst; auto.
Qed.

Lemma sys_step_inv c s l : wf_cfg c -> wf_label l -> SysInv s -> SysInv (fst (sys_step c s l)).
Proof.
  intros Hc Hl Hs. unfold sys_step. rewrite (si_np _ Hs).
  destruct l as [x|x bytes|x|x|x ms|x|x i|x i|x i|x seg|k|k ms one|]; cbn [wf_label] in Hl.
  - (* open *)
    destruct (end_of s x) eqn:Ee; cbn [fst]; try assumption.
    apply SysInv_set_end; [assumption|]. cbn.
    destruct (wf_cfg_side c x Hc) as (A & B & C). destruct (wf_cfg_side c (other x) Hc) as (A' & _).
    apply tcb_open_inv; assumption.
  - (* send *)
    pose proof (SysInv_end s x Hs) as He. destruct (end_of s x) as [| |t|]; cbn [fst]; try assumption.
    apply SysInv_set_end; [destruct (accepts_send (st t)); [apply SysInv_set_sub|]; assumption|].
    cbn. apply tcb_send_inv. exact He.
  - apply recv_inv; assumption.
  - (* close *)
    pose proof (SysInv_end s x Hs) as He. destruct (end_of s x) as [| |t|]; cbn [fst]; try assumption.
    cbn in He. pose proof (tcb_close_inv t He) as H'. destruct (tcb_close t) as [t1 r]. cbn [fst] in *.
    apply SysInv_set_end; assumption.
  - apply tick_inv; assumption.
  - (* emit *)
    destruct (end_of s x); cbn [fst]; try assumption.
    destruct (emit_inv s x Hs) as [H1 H2].
    destruct (emit s x) as [[s1 segs] bad]. cbn [fst snd] in *. subst bad. cbn [fst]. assumption.
  - (* deliver *)
    pose proof (SysInv_net s x Hs) as Hn. destruct (net_of s x) as [|s0 n] eqn:En; [assumption|].
    destruct (nth_error _ _) as [seg|] eqn:Enth; [|assumption].
    apply arrive_inv; [assumption| |].
    + apply SysInv_set_net; [assumption|]. apply remove_nth_Forall. assumption.
    + apply nth_error_In in Enth. rewrite Forall_forall in Hn. auto.
  - (* drop *)
    pose proof (SysInv_net s x Hs) as Hn. destruct (net_of s x) as [|s0 n] eqn:En; [assumption|].
    cbn [fst]. apply SysInv_set_net; [assumption|]. apply remove_nth_Forall. assumption.
  - (* dup *)
    pose proof (SysInv_net s x Hs) as Hn. destruct (net_of s x) as [|s0 n] eqn:En; [assumption|].
    destruct (nth_error _ _) as [seg|] eqn:Enth; [|assumption].
    cbn [fst]. apply SysInv_set_net; [assumption|]. apply Forall_snoc; [assumption|].
    apply nth_error_In in Enth. rewrite Forall_forall in Hn. auto.
  - apply arrive_inv; assumption.
  - cbn [fst]. apply fair_rounds_inv; assumption.
  - cbn [fst]. apply fair_rounds_t_inv; assumption.
  - assumption.
Qed.

Lemma run_inv c ls : wf_cfg c -> Forall wf_label ls -> forall s, SysInv s -> SysInv (run c s ls).
Proof.
  intros Hc Hls. unfold run. induction Hls as [|l ls Hl _ IH]; intros s Hs; cbn [fold_left]; [assumption|].
  apply IH. apply sys_step_inv; assumption.
Qed.

Lemma init_sys_inv b : SysInv (init_sys b).
Proof. constructor; cbn; try constructor. destruct b; exact I. Qed.

Lemma no_crash_sys c b ls : wf_cfg c -> Forall wf_label ls ->
  panicked (run c (init_sys b) ls) = false /\ SysInv (run c (init_sys b) ls).
Proof.
  intros Hc Hls. pose proof (run_inv c ls Hc Hls _ (init_sys_inv b)) as H.
  split; [apply H|exact H].
Qed.

(* ------------------------------------------------------------------ *)
(* the two side conditions of the invariant are needed, not artefacts  *)

(* MTU below SPACE_FOR_HEADERS: segments() underflows a u16 (tcb.rs l.300) *)
Lemma small_mtu_panics : tcb_segments (tcb_open 1000 80 0 49) = Panic 5.
Proof. vm_compute. reflexivity. Qed.

(* a text longer than RCV.WND + 1 (which no TCP header can announce: the
   parser and the builder both refuse 20 + len > 65535) can start two below the
   window, end inside it and still fail the assert! of l.597 *)
Definition oversized_seg : segment :=
  mkSeg (mkHdr 80 1000 499 101 (mkCtl false true false false false false) 65535 0) (repeat 0 (Z.to_nat 65537)).
Lemma oversized_text_panics : segment_arrives idle_tcb oversized_seg = Panic 2.
Proof. vm_compute. reflexivity. Qed.

(* the hypotheses of the inertness theorem are satisfiable: a RST 2^31 away in ESTABLISHED *)
Example unacceptable_example : Inv idle_tcb /\ wf_seg far_rst /\ unacceptable idle_tcb far_rst.
Proof.
  split; [exact (r_inv _ (proj1 (proj1 ack_antipode)))|].
  split; [exact (proj2 (proj2 closing_witness_wf))|].
  left. split; [discriminate|]. vm_compute. reflexivity.
Qed.
