(* C01 liveness: one segment lost at an arbitrary position of a flight - the half-rounds. *)
From Elvis Require Import Model.Base Model.U32 Model.Tcb Model.TcpNet
  Proofs.U32Facts Proofs.TcbSafetyDefs Proofs.TcbSafetyBase Proofs.TcbSafetySnd Proofs.TcbSafetyRcv
  Proofs.TcbSafetyArr Proofs.TcbSafetySys Proofs.TcbLive Proofs.TcbLiveSys Proofs.TcbLiveThm
  Proofs.TcbLiveWin Proofs.TcbLiveWinSys Proofs.TcbLiveWinThm Proofs.TcbLiveLoss Proofs.TcbLiveLossThm
  Proofs.TcbHeap Proofs.TcbLiveMid Proofs.TcbLiveMidSys.
From Coq Require Import ZifyBool Permutation.
Local Open Scope Z_scope.
Ltac Zify.zify_post_hook ::= Z.div_mod_to_equations.

(* the receiver owes: ACKs for the prefix before the gap, duplicate ACKs for its retransmitted
   copies, ACKs for the gap segment and everything that was parked behind it, duplicate ACKs for
   the retransmitted copies of the parked segments *)
Definition ackingM (t : tcb) (b a R : Z) (pre : list segment) (x0 : segment) (suf : list segment) : Prop :=
  st t = Established /\ snd_una t = b /\ snd_nxt t = b /\ rcv_nxt t = R /\
  snd_wnd t = 65535 /\ rcv_wnd t = 65535 /\ out_text t = [] /\ retx t = [] /\
  (exists acks1 dups1 acks2 dups2, oneshot t = acks1 ++ dups1 ++ acks2 ++ dups2 /\
     Forall2 (ackfor b) pre acks1 /\ Forall (dupack b (wadd a (flight_len pre))) dups1 /\
     Forall2 (ackfor b) (x0 :: suf) acks2 /\ Forall (dupack b R) dups2) /\
  fin_pending t = false /\ in_segs t = [] /\ in_text t = [] /\ rto t = RTO /\ time_wait t = None /\
  u32 b /\ u32 R /\ 100 <= mtu t <= 65535.

Section MidHalf.
  Variable c : config.

  Lemma half_send_mid s x tx ty a b R lp rp pre x0 suf :
    end_of s x = ELive tx -> end_of s (other x) = ELive ty ->
    net_of s x = pre ++ suf -> net_of s (other x) = [] -> panicked s = false ->
    sending tx a R b (pre ++ x0 :: suf) [] -> flight lp rp b a (pre ++ x0 :: suf) ->
    quiet ty b a ->
    let s' := fair_half c s x in
    exists tx' ty', end_of s' x = ELive tx' /\ end_of s' (other x) = ELive ty' /\
      net_of s' x = [] /\ net_of s' (other x) = [] /\ panicked s' = false /\
      (forall y, sub_of s' y = sub_of s y) /\ del_of s' x = del_of s x /\
      del_of s' (other x) = del_of s (other x) ++ [flight_bytes (pre ++ x0 :: suf)] /\
      sending tx' a R b (pre ++ x0 :: suf) [] /\ ackingM ty' b a R pre x0 suf /\
      mtu tx' = mtu tx /\ mtu ty' = mtu ty.
  Proof.
    intros Ex Ey Nx Ny Pn HS F
      (Q1 & Q2 & Q3 & Q4 & Q5 & Q6 & Q7 & Q8 & Q9 & Q10 & Q11 & Q12 & Q13 & Q14 & Q15 & Q16 & Q17) s'.
    pose proof HS as (A1 & A2 & A3 & A4 & A5 & A6 & A7 & A8 & A9 & A10 & A11 & A12 & A13 & A14 & A15 & A16 & A17 & _ & A19 & A20).
    set (segs := pre ++ x0 :: suf) in *.
    assert (Hne : segs <> []) by (subst segs; destruct pre; discriminate).
    destruct (flight_split lp rp b pre (x0 :: suf) a A15 F) as [Fp Fs].
    set (m1 := wadd a (flight_len pre)) in *.
    assert (Hlen : flight_len segs = flight_len pre + flight_len (x0 :: suf)) by apply flight_len_app.
    pose proof (flight_len_nonneg pre) as Hp0. pose proof (flight_len_nonneg suf) as Hs0.
    assert (Hx0 : flight_len (x0 :: suf) = zlen (s_text x0) + flight_len suf) by apply flight_len_cons.
    pose proof Fs as (Fxh & Fxl & Fsuf).
    assert (Hm1 : u32 m1) by apply wadd_u32.
    (* 1: nothing new; the timer fires; the whole flight is retransmitted *)
    assert (E1 : tcb_segments tx = Ok (set_retx (set_oneshot tx []) (map (fun s => mkTx s false) segs), [])).
    { rewrite segments_nothing_new; try assumption; try (rewrite A1; reflexivity); try lia.
      rewrite A8, A9, filter_needs_false, reflag_map. reflexivity. }
    set (tx1 := set_retx _ _) in E1.
    pose proof (advance_101 tx1 A13 A14) as E2.
    change (retx tx1) with (map (fun s => mkTx s false) segs) in E2. rewrite reflag_map in E2.
    set (tx2 := set_retx _ _) in E2.
    assert (E3 : tcb_segments tx2 =
                 Ok (set_rto (set_retx (set_oneshot tx2 []) (map (fun s => mkTx s false) segs)) RTO, segs)).
    { apply segments_retransmit; try reflexivity; try assumption.
      - change (st tx2) with (st tx). now rewrite A1.
      - change (mtu tx2) with (mtu tx). lia.
      - change (out_text tx2) with (out_text tx). rewrite A7. cbn. lia. }
    set (tx3 := set_rto _ RTO) in E3.
    unfold s', fair_half, fair_half_t.
    rewrite (tick_eval s x tx tx1 [] tx2 101 Ex E1 E2). rewrite Nx, app_nil_r.
    set (s1 := set_end (set_net _ _ _) x (ELive tx2)).
    assert (Ex1 : end_of s1 x = ELive tx2) by (subst s1; now sysr).
    rewrite (emit_eval s1 x tx2 tx3 segs Ex1 E3). cbn iota beta.
    assert (Nx1 : net_of s1 x = pre ++ suf) by (subst s1; now sysr). rewrite Nx1.
    set (s2 := set_net _ x ((pre ++ suf) ++ segs)).
    assert (Nx2 : net_of s2 x = pre ++ (suf ++ (pre ++ (x0 :: suf)))).
    { subst s2 segs. sysr. now rewrite <- app_assoc. }
    rewrite Nx2, !app_length. cbn [length]. cbn iota.
    replace (Datatypes.S (length pre + (length suf + (length pre + Datatypes.S (length suf)))))
      with (length pre + (length suf + (length pre + (1 + (length suf + 1)))))%nat by lia.
    assert (Ey2 : end_of s2 (other x) = ELive ty) by (subst s2 s1; now sysr).
    (* 2: the prefix before the gap arrives in order *)
    rewrite (deliver_inorder c x lp rp b pre s2 ty _ _ Ey2 Nx2 Q1 Q11 Q6
               ltac:(rewrite Q4; exact Q16) ltac:(rewrite Q4; exact Fp) ltac:(rewrite Q2; apply mod_leq_refl)
               ltac:(rewrite Q12; cbn; lia)).
    destruct (recv_flight_facts lp rp b pre ty ltac:(rewrite Q4; exact Fp) Q6 ltac:(rewrite Q4; exact Q16))
      as (C1 & R1 & I1 & _ & acks1 & O1 & FA1).
    pose proof (recv_flight_in_segs lp rp b pre ty ltac:(rewrite Q4; exact Fp) Q6 ltac:(rewrite Q4; exact Q16) Q11) as S1.
    cbv zeta in *. set (t1 := recv_flight ty pre) in *.
    destruct C1 as (_ & _ & Cm & Cst & Cun & Cnx & Csw & Crw & Cot & Crx & Cfp & Crto & Ctw).
    rewrite Q4 in R1. fold m1 in R1. rewrite Q12 in I1. cbn [app] in I1.
    set (s3 := set_end (set_net s2 x (suf ++ pre ++ x0 :: suf)) (other x) (ELive t1)).
    assert (Ey3 : end_of s3 (other x) = ELive t1) by (subst s3; now sysr).
    assert (Nx3 : net_of s3 x = suf ++ (pre ++ x0 :: suf)) by (subst s3; now sysr).
    (* 3: the segments behind the gap are parked *)
    assert (Hbey : Forall (beyond m1) suf).
    { apply (flight_tail_beyond lp rp b m1 x0 suf Hm1); [lia|exact Fs]. }
    destruct (deliver_parking c x suf s3 t1 (length pre + (1 + (length suf + 1)))%nat (pre ++ x0 :: suf) [] Ey3 Nx3
                ltac:(rewrite Cst, Q1; reflexivity) S1 ltac:(rewrite R1; exact Hm1) heap_ordered_nil
                ltac:(rewrite R1; exact Hbey)) as (H2 & D2 & Ho2 & Hp2).
    rewrite D2. cbn [app] in Hp2.
    set (t2 := set_in_segs t1 H2).
    set (s4 := set_end (set_net s3 x (pre ++ x0 :: suf)) (other x) (ELive t2)).
    assert (Ey4 : end_of s4 (other x) = ELive t2) by (subst s4; now sysr).
    assert (Nx4 : net_of s4 x = pre ++ (x0 :: suf)) by (subst s4; now sysr).
    (* 4: the retransmitted prefix is old data *)
    destruct (deliver_old_parked c x lp rp b pre s4 t2 a (1 + (length suf + 1))%nat (x0 :: suf) H2 Ey4 Nx4
                ltac:(change (st t2) with (st t1); congruence) eq_refl
                ltac:(change (rcv_wnd t2) with (rcv_wnd t1); congruence)
                ltac:(change (rcv_nxt t2) with (rcv_nxt t1); rewrite R1; exact Hm1) Ho2
                ltac:(change (rcv_nxt t2) with (rcv_nxt t1); rewrite R1; eapply Permutation_Forall; [exact Hp2|exact Hbey])
                Fp A15 ltac:(change (rcv_nxt t2) with (rcv_nxt t1); rewrite R1; reflexivity) ltac:(lia)
                ltac:(change (snd_una t2) with (snd_una t1); rewrite Cun, Q2; apply mod_leq_refl)
                ltac:(change (in_text t2) with (in_text t1); rewrite I1; fold (flight_len pre); lia))
      as (t3 & D3 & C3 & R3 & I3 & (H3 & S3 & Ho3 & Hp3) & dups1 & O3 & FD1).
    rewrite D3.
    destruct C3 as (_ & _ & Dm & Dst & Dun & Dnx & Dsw & Drw & Dot & Drx & Dfp & Drto & Dtw).
    change (rcv_nxt t2) with (rcv_nxt t1) in R3, FD1. change (in_text t2) with (in_text t1) in I3.
    change (snd_nxt t2) with (snd_nxt t1) in FD1. change (oneshot t2) with (oneshot t1) in O3.
    change (st t2) with (st t1) in Dst. change (snd_una t2) with (snd_una t1) in Dun.
    change (snd_nxt t2) with (snd_nxt t1) in Dnx. change (snd_wnd t2) with (snd_wnd t1) in Dsw.
    change (rcv_wnd t2) with (rcv_wnd t1) in Drw. change (out_text t2) with (out_text t1) in Dot.
    change (retx t2) with (retx t1) in Drx. change (fin_pending t2) with (fin_pending t1) in Dfp.
    change (rto t2) with (rto t1) in Drto. change (time_wait t2) with (time_wait t1) in Dtw.
    change (mtu t2) with (mtu t1) in Dm.
    set (s5 := set_end (set_net s4 x (x0 :: suf)) (other x) (ELive t3)).
    assert (Ey5 : end_of s5 (other x) = ELive t3) by (subst s5; now sysr).
    assert (Nx5 : net_of s5 x = x0 :: suf) by (subst s5; now sysr).
    (* 5: the lost segment arrives; the heap is drained *)
    replace (1 + (length suf + 1))%nat with (Datatypes.S (length suf + 1)) by lia.
    rewrite (deliver_all_cons _ c s5 x x0 suf Nx5).
    assert (Hfill : segment_arrives t3 x0 = Ok (drain_result t3 (x0 :: suf), AOk)).
    { apply (arrives_fill lp rp b t3 x0 suf H3); try assumption.
      - congruence.
      - congruence.
      - rewrite R3, R1. exact Hm1.
      - rewrite Dun, Cun, Q2. apply mod_leq_refl.
      - eapply Permutation_trans; [symmetry; exact Hp3|]. symmetry. exact Hp2.
      - rewrite R3, R1. exact Fs.
      - rewrite I3, I1. fold (flight_len pre). lia. }
    assert (Ey5' : end_of (set_net s5 x suf) (other x) = ELive t3) by (now sysr).
    rewrite (arrive_eval c _ (other x) t3 x0 _ Ey5' Hfill).
    rewrite drain_result_recv. set (t3' := set_in_segs t3 []).
    assert (F4 : flight lp rp b (rcv_nxt t3') (x0 :: suf)).
    { change (rcv_nxt t3') with (rcv_nxt t3). rewrite R3, R1. exact Fs. }
    destruct (recv_flight_facts lp rp b (x0 :: suf) t3' F4 ltac:(change (rcv_wnd t3') with (rcv_wnd t3); congruence)
                ltac:(change (rcv_nxt t3') with (rcv_nxt t3); rewrite R3, R1; exact Hm1))
      as (C4 & R4 & I4 & S4 & acks2 & O4 & FA2).
    cbv zeta in *. set (t4 := recv_flight t3' (x0 :: suf)) in *.
    destruct C4 as (_ & _ & Gm & Gst & Gun & Gnx & Gsw & Grw & Got & Grx & Gfp & Grto & Gtw).
    change (rcv_nxt t3') with (rcv_nxt t3) in R4. change (in_text t3') with (in_text t3) in I4.
    change (oneshot t3') with (oneshot t3) in O4. change (snd_nxt t3') with (snd_nxt t3) in FA2.
    change (st t3') with (st t3) in Gst. change (snd_una t3') with (snd_una t3) in Gun.
    change (snd_nxt t3') with (snd_nxt t3) in Gnx. change (snd_wnd t3') with (snd_wnd t3) in Gsw.
    change (rcv_wnd t3') with (rcv_wnd t3) in Grw. change (out_text t3') with (out_text t3) in Got.
    change (retx t3') with (retx t3) in Grx. change (fin_pending t3') with (fin_pending t3) in Gfp.
    change (rto t3') with (rto t3) in Grto. change (time_wait t3') with (time_wait t3) in Gtw.
    change (mtu t3') with (mtu t3) in Gm.
    assert (HR : rcv_nxt t4 = R).
    { rewrite R4, R3, R1. unfold m1. rewrite wadd_wadd, <- Hlen. exact A19. }
    assert (S4' : in_segs t4 = []) by (apply S4; discriminate).
    set (s6 := set_end (set_net s5 x suf) (other x) (ELive t4)).
    assert (Ey6 : end_of s6 (other x) = ELive t4) by (subst s6; now sysr).
    assert (Nx6 : net_of s6 x = suf ++ []) by (subst s6; rewrite app_nil_r; now sysr).
    (* 6: the retransmitted copies of the parked segments are old data *)
    assert (Hit4 : in_text t4 = flight_bytes segs).
    { rewrite I4, I3, I1. subst segs. now rewrite flight_bytes_app. }
    rewrite (deliver_dups c x lp rp b suf s6 t4 (wadd m1 (zlen (s_text x0))) 1 [] Ey6 Nx6
               ltac:(congruence) S4' ltac:(congruence) ltac:(rewrite HR; rewrite <- A19; apply wadd_u32)
               Fsuf ltac:(apply wadd_u32)
               ltac:(rewrite R4, R3, R1, Hx0, wadd_wadd; reflexivity) ltac:(lia)
               ltac:(rewrite Gun, Dun, Cun, Q2; apply mod_leq_refl)
               ltac:(rewrite Hit4; fold (flight_len segs); lia)).
    destruct (dup_flight_facts suf t4 ltac:(congruence)) as (C5 & R5 & I5 & _ & dups2 & O5 & FD2).
    pose proof (dup_flight_in_segs suf t4 ltac:(congruence) S4') as S5.
    cbv zeta in *. set (t5 := dup_flight t4 suf) in *.
    destruct C5 as (_ & _ & Km & Kst & Kun & Knx & Ksw & Krw & Kot & Krx & Kfp & Krto & Ktw).
    set (s7 := set_end (set_net s6 x []) (other x) (ELive t5)).
    assert (Nx7 : net_of s7 x = []) by (subst s7; now sysr).
    rewrite (deliver_all_nil _ c s7 x Nx7).
    (* 7: reads *)
    rewrite (recv_both s7 x).
    assert (Ex7 : end_of s7 x = ELive tx3) by (subst s7 s6 s5 s4 s3 s2; now sysr).
    assert (Hitx : in_text tx3 = []) by (subst tx3 tx2 tx1; tcb_simpl; exact A12).
    rewrite (recv_eval_empty s7 x tx3 Ex7 Hitx).
    set (s8 := set_end s7 x _).
    assert (Ey8 : end_of s8 (other x) = ELive t5) by (subst s8 s7; now sysr).
    assert (Hit5 : in_text t5 = flight_bytes segs) by congruence.
    pose proof (flight_len_pos _ _ _ _ _ F Hne) as Hpos.
    assert (Hne5 : in_text t5 <> []).
    { rewrite Hit5. intros E0. unfold flight_len in Hpos. rewrite E0 in Hpos. cbn in Hpos. lia. }
    rewrite (recv_eval_data s8 (other x) t5 Ey8 Hne5). rewrite Hit5.
    exists (set_in_text tx3 []), (set_in_text t5 []).
    splits.
    all: try (subst s8 s7 s6 s5 s4 s3 s2 s1; now sysr).
    all: try reflexivity.
    - intros y. subst s8 s7 s6 s5 s4 s3 s2 s1. now sysr.
    - unfold sending. subst tx3 tx2 tx1. tcb_simpl.
      splits; try assumption; try reflexivity; try congruence; try lia.
      exists lp, rp, b. exact F.
    - unfold ackingM. tcb_simpl. rewrite O5, O4, O3, O1, Q9. cbn [app].
      splits; try congruence; try lia.
      + exists acks1, dups1, acks2, dups2. splits.
        * now rewrite <- !app_assoc.
        * now rewrite Q3 in FA1.
        * now rewrite Cnx, Q3, R1 in FD1.
        * now rewrite Dnx, Cnx, Q3 in FA2.
        * now rewrite Gnx, Dnx, Cnx, Q3, HR in FD2.
      + rewrite <- HR, R4. apply wadd_u32.
    - cbn [set_in_text mtu]. congruence.
  Qed.

  Lemma half_ack_mid s y ty tz a b R pre x0 suf :
    end_of s y = ELive ty -> end_of s (other y) = ELive tz ->
    net_of s y = [] -> net_of s (other y) = [] -> panicked s = false ->
    ackingM ty b a R pre x0 suf -> sending tz a R b (pre ++ x0 :: suf) [] ->
    let s' := fair_half c s y in
    exists ty' tz', end_of s' y = ELive ty' /\ end_of s' (other y) = ELive tz' /\
      net_of s' y = [] /\ net_of s' (other y) = [] /\ panicked s' = false /\
      (forall x, sub_of s' x = sub_of s x) /\ (forall x, del_of s' x = del_of s x) /\
      quiet ty' b R /\ quiet tz' R b /\ mtu ty' = mtu ty /\ mtu tz' = mtu tz.
  Proof.
    intros Ey Ez Ny Nz Pn
      (A1 & A2 & A3 & A4 & A5 & A6 & A7 & A8 & (acks1 & dups1 & acks2 & dups2 & A9 & FA1 & FD1 & FA2 & FD2) & A10 & A11 & A12 & A13 & A14 & A15 & A16 & A17)
      HS s'.
    set (mk := fun h : header => mkSeg h []).
    assert (E1 : tcb_segments ty =
                 Ok (set_retx (set_oneshot ty []) [], map mk acks1 ++ (map mk dups1 ++ (map mk acks2 ++ map mk dups2)))).
    { rewrite segments_nothing_new; try assumption; try (rewrite A1; reflexivity); try lia.
      rewrite A8, A9. cbn [map filter]. rewrite app_nil_r, !map_app. reflexivity. }
    set (ty1 := set_retx _ _) in E1.
    pose proof (advance_101 ty1 A13 A14) as E2.
    assert (Er1 : retx ty1 = []) by reflexivity. rewrite Er1 in E2. cbn [map] in E2.
    set (ty2 := set_retx _ _) in E2.
    assert (E3 : tcb_segments ty2 = Ok (set_retx (set_oneshot ty2 []) [], [])).
    { rewrite segments_nothing_new.
      - subst ty2 ty1; tcb_simpl. cbn [map filter app]. reflexivity.
      - exact A7.
      - exact A10.
      - change (st ty2) with (st ty). now rewrite A1.
      - change (mtu ty2) with (mtu ty). lia. }
    set (ty3 := set_retx _ _) in E3.
    unfold s', fair_half, fair_half_t.
    rewrite (tick_eval s y ty ty1 _ ty2 101 Ey E1 E2). rewrite Ny. cbn [app].
    set (s1 := set_end (set_net _ _ _) y (ELive ty2)).
    assert (Ey1 : end_of s1 y = ELive ty2) by (subst s1; now sysr).
    rewrite (emit_eval s1 y ty2 ty3 [] Ey1 E3). cbn iota beta.
    assert (Ny1 : net_of s1 y = map mk acks1 ++ (map mk dups1 ++ (map mk acks2 ++ map mk dups2))) by (subst s1; now sysr).
    rewrite Ny1, app_nil_r.
    set (s2 := set_net _ y _).
    assert (Ny2 : net_of s2 y = map mk acks1 ++ (map mk dups1 ++ (map mk acks2 ++ map mk dups2))) by (subst s2; now sysr).
    rewrite Ny2, !app_length, !map_length. cbn iota.
    replace (Datatypes.S (length acks1 + (length dups1 + (length acks2 + length dups2))))
      with (length acks1 + (length dups1 + (length acks2 + (length dups2 + 1))))%nat by lia.
    assert (Ez2 : end_of s2 (other y) = ELive tz) by (subst s2 s1; now sysr).
    destruct (deliver_acks_prefix c y b R [] (x0 :: suf) pre acks1 FA1 s2 tz a
                (length dups1 + (length acks2 + (length dups2 + 1)))%nat
                (map mk dups1 ++ (map mk acks2 ++ map mk dups2)) HS Ez2 Ny2)
      as (tz1 & D1 & HS1 & M1).
    rewrite D1.
    set (s3 := set_end (set_net s2 y (map mk dups1 ++ (map mk acks2 ++ map mk dups2))) (other y) (ELive tz1)).
    assert (Ez3 : end_of s3 (other y) = ELive tz1) by (subst s3; now sysr).
    assert (Ny3 : net_of s3 y = map mk dups1 ++ (map mk acks2 ++ map mk dups2)) by (subst s3; now sysr).
    destruct (deliver_dupacks_mid c y b R [] (x0 :: suf) (wadd a (flight_len pre)) dups1 s3 tz1
                (length acks2 + (length dups2 + 1))%nat (map mk acks2 ++ map mk dups2) FD1 HS1 Ez3 Ny3)
      as (tz2 & D2 & HS2 & M2).
    rewrite D2.
    set (s4 := set_end (set_net s3 y (map mk acks2 ++ map mk dups2)) (other y) (ELive tz2)).
    assert (Ez4 : end_of s4 (other y) = ELive tz2) by (subst s4; now sysr).
    assert (Ny4 : net_of s4 y = map mk acks2 ++ map mk dups2) by (subst s4; now sysr).
    assert (HS2' : sending tz2 (wadd a (flight_len pre)) R b ((x0 :: suf) ++ []) []) by (now rewrite app_nil_r).
    destruct (deliver_acks_prefix c y b R [] [] (x0 :: suf) acks2 FA2 s4 tz2 _ (length dups2 + 1)%nat (map mk dups2) HS2' Ez4 Ny4)
      as (tz3 & D3 & HS3 & M3).
    rewrite D3.
    assert (HR : wadd (wadd a (flight_len pre)) (flight_len (x0 :: suf)) = R).
    { destruct HS as (_ & _ & _ & _ & _ & _ & _ & _ & _ & _ & _ & _ & _ & _ & _ & _ & _ & _ & H19 & _).
      rewrite wadd_wadd, <- flight_len_app. exact H19. }
    rewrite HR in HS3.
    set (s5 := set_end (set_net s4 y (map mk dups2)) (other y) (ELive tz3)).
    assert (Ez5 : end_of s5 (other y) = ELive tz3) by (subst s5; now sysr).
    assert (Ny5 : net_of s5 y = map mk dups2 ++ []) by (subst s5; rewrite app_nil_r; now sysr).
    destruct (deliver_dupacks_mid c y b R [] [] R dups2 s5 tz3 1 [] FD2 HS3 Ez5 Ny5) as (tz4 & D4 & HS4 & M4).
    rewrite D4.
    set (s6 := set_end (set_net s5 y []) (other y) (ELive tz4)).
    assert (Ny6 : net_of s6 y = []) by (subst s6; now sysr).
    rewrite (deliver_all_nil _ c s6 y Ny6).
    pose proof (sending_quiet tz4 R b HS4) as Qz.
    rewrite (recv_both s6 y).
    assert (Ey6 : end_of s6 y = ELive ty3) by (subst s6 s5 s4 s3 s2; now sysr).
    rewrite (recv_eval_empty s6 y ty3 Ey6 A12).
    set (s7 := set_end s6 y _).
    assert (Ez7 : end_of s7 (other y) = ELive tz4) by (subst s7 s6; now sysr).
    rewrite (recv_eval_empty s7 (other y) tz4 Ez7 ltac:(apply Qz)).
    exists (set_in_text ty3 []), (set_in_text tz4 []).
    splits.
    all: try (subst s7 s6 s5 s4 s3 s2 s1; now sysr).
    all: try reflexivity.
    all: try (intros x; subst s7 s6 s5 s4 s3 s2 s1; now sysr).
    all: try (unfold quiet; subst ty3 ty2 ty1; tcb_simpl; splits; try assumption; try reflexivity; lia).
    all: try (destruct Qz as (Z1 & Z2 & Z3 & Z4 & Z5 & Z6 & Z7 & Z8 & Z9 & Z10 & Z11 & Z12 & Z13 & Z14 & Z15 & Z16 & Z17);
              unfold quiet; tcb_simpl; splits; auto; lia).
    all: try (cbn [set_in_text mtu]; congruence).
  Qed.
End MidHalf.
