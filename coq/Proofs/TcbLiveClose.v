(* C03 (d) / C01 liveness: evaluation of the closing handshake, TCB level. *)
From Elvis Require Import Model.Base Model.U32 Model.Tcb Model.TcpNet
  Proofs.U32Facts Proofs.TcbSafetyDefs Proofs.TcbSafetyBase Proofs.TcbSafetySnd Proofs.TcbSafetyRcv
  Proofs.TcbSafetyArr Proofs.TcbLive Proofs.TcbLiveHs.
From Coq Require Import ZifyBool.
Local Open Scope Z_scope.
Ltac Zify.zify_post_hook ::= Z.div_mod_to_equations.

(* FIN + ACK, nothing else *)
Definition fin_ack (h : header) : Prop :=
  c_ack (h_ctl h) = true /\ c_fin (h_ctl h) = true /\ c_rst (h_ctl h) = false /\ c_syn (h_ctl h) = false.

(* states whose ACK processing is plain ack_established_processing *)
Definition plain_ack_state (s : state) : bool :=
  match s with Established | FinWait2 | CloseWait => true | _ => false end.

Lemma ps_ack_plain t h : plain_ack_state (st t) = true -> c_ack (h_ctl h) = true ->
  mod_leq (h_ack h) (snd_una t) = true -> ps_ack t h = (t, None).
Proof.
  intros Hs Ha Hl. unfold ps_ack. rewrite Ha. cbn [negb]. unfold ack_est. rewrite Hl.
  destruct (st t); try discriminate Hs; reflexivity.
Qed.

(* a text-free segment without RST/SYN whose ACK changes nothing: only the FIN stage acts *)
Lemma process_fin_only t h syn_ok :
  plain_ack_state (st t) = true -> c_ack (h_ctl h) = true -> c_rst (h_ctl h) = false -> c_syn (h_ctl h) = false ->
  mod_leq (h_ack h) (snd_una t) = true ->
  is_seq_ok t 0 (h_seq h) false (c_fin (h_ctl h)) = true -> syn_ok = true ->
  process_segment t (mkSeg h []) = Ok (ps_fin t h 0, PSuccess).
Proof.
  intros Hs Ha Hr Hsy Hl Hok _. unfold process_segment. tcb_simpl. rewrite Hsy.
  change (zlen (@nil Z)) with 0. rewrite Hok. cbn [negb].
  replace (match st t with SynSent => false | _ => false end) with false by (destruct (st t); reflexivity).
  rewrite (ps_ack_plain t h Hs Ha Hl). unfold ps_rst. rewrite Hr. cbn [negb].
  unfold ps_syn. rewrite Hsy. cbn [negb].
  replace (state_eqb (st t) SynSent) with false by (destruct (st t); try discriminate Hs; reflexivity).
  rewrite ps_text_nil. reflexivity.
Qed.

Lemma seq_ok_fin_at_nxt t sq : u32 (rcv_nxt t) -> rcv_wnd t = 65535 -> sq = rcv_nxt t ->
  is_seq_ok t 0 sq false true = true.
Proof.
  intros Hu Hw ->. unfold is_seq_ok. cbn [b2z]. change (0 + 1 + 0 =? 0) with false. cbn iota.
  rewrite Hw. cbn [Z.eqb]. rewrite (in_window_at_nxt t Hu Hw). reflexivity.
Qed.

Lemma seq_ok_fin_before t sq : u32 sq -> rcv_nxt t = wadd sq 1 -> rcv_wnd t = 65535 ->
  is_seq_ok t 0 sq false true = true.
Proof.
  intros Hu Hr Hw. unfold is_seq_ok. cbn [b2z]. change (0 + 1 + 0 =? 0) with false. cbn iota.
  rewrite Hw. cbn [Z.eqb]. rewrite (in_window_before t sq Hu Hr Hw). reflexivity.
Qed.

(* ---------- the FIN stage, state by state ---------- *)
Lemma ps_fin_first t h : c_fin (h_ctl h) = true -> state_eqb (st t) SynSent = false ->
  u32 (h_seq h) -> h_seq h = rcv_nxt t ->
  let t0 := set_rcv_nxt t (wadd (rcv_nxt t) 1) in
  let t1 := set_oneshot t0 (oneshot t ++ [ack_hdr t0]) in
  ps_fin t h 0 =
  match st t with
  | SynReceived | Established => set_st t1 CloseWait
  | FinWait1 => if is_fin_acked t1 then set_time_wait (set_st t1 TimeWait) (Some MSL2) else set_st t1 Closing
  | FinWait2 => set_rto (set_time_wait (set_st t1 TimeWait) (Some MSL2)) RTO
  | TimeWait => set_time_wait t1 (Some MSL2)
  | _ => t1
  end.
Proof.
  intros Hf Hss Hu Hseq t0 t1. unfold ps_fin. rewrite Hf, Hss. cbn [negb].
  rewrite (wadd_0_u32 _ Hu), Hseq, Z.eqb_refl. cbn [orb].
  rewrite enqueue_plain by apply ack_hdr_plain. reflexivity.
Qed.

Lemma ps_fin_again t h : c_fin (h_ctl h) = true -> state_eqb (st t) SynSent = false ->
  u32 (h_seq h) -> rcv_nxt t = wadd (h_seq h) 1 ->
  let t1 := set_oneshot t (oneshot t ++ [ack_hdr t]) in
  ps_fin t h 0 =
  match st t with
  | SynReceived | Established => set_st t1 CloseWait
  | FinWait1 => if is_fin_acked t1 then set_time_wait (set_st t1 TimeWait) (Some MSL2) else set_st t1 Closing
  | FinWait2 => set_rto (set_time_wait (set_st t1 TimeWait) (Some MSL2)) RTO
  | TimeWait => set_time_wait t1 (Some MSL2)
  | _ => t1
  end.
Proof.
  intros Hf Hss Hu Hr t1. unfold ps_fin. rewrite Hf, Hss. cbn [negb].
  rewrite (wadd_0_u32 _ Hu), Hr, Z.eqb_refl, orb_true_r.
  rewrite enqueue_plain by apply ack_hdr_plain.
  assert (E : set_oneshot (set_rcv_nxt t (wadd (h_seq h) 1))
                (oneshot (set_rcv_nxt t (wadd (h_seq h) 1)) ++ [ack_hdr (set_rcv_nxt t (wadd (h_seq h) 1))]) = t1).
  { subst t1. tcb_eq.
    all: try (symmetry; exact Hr).
    all: unfold ack_hdr; tcb_simpl; rewrite <- ?Hr; reflexivity. }
  rewrite E. reflexivity.
Qed.

(* ---------- arrivals ---------- *)
(* the first FIN, in a state with plain ACK processing *)
Lemma fin_arrives t h :
  plain_ack_state (st t) = true -> in_segs t = [] -> rcv_wnd t = 65535 -> u32 (rcv_nxt t) ->
  fin_ack h -> h_seq h = rcv_nxt t -> mod_leq (h_ack h) (snd_una t) = true ->
  segment_arrives t (mkSeg h []) = Ok (ps_fin (set_in_segs t []) h 0, AOk).
Proof.
  intros Hs Hi Hw Hu (Ha & Hf & Hr & Hsy) Hseq Hl.
  eapply arrives_single; try assumption; try reflexivity.
  - destruct (st t); try discriminate Hs; reflexivity.
  - tcb_simpl. rewrite Hseq. apply mod_gt_refl_false.
  - apply (process_fin_only (set_in_segs t []) h true); try assumption; try reflexivity.
    rewrite Hf. apply seq_ok_fin_at_nxt; assumption.
  - reflexivity.
  - unfold ps_fin. rewrite Hf. cbn [negb]. tcb_simpl.
    replace (state_eqb (st t) SynSent) with false by (destruct (st t); try discriminate Hs; reflexivity).
    rewrite <- Hseq in Hu. rewrite (wadd_0_u32 _ Hu), Hseq, Z.eqb_refl. cbn [orb].
    rewrite enqueue_plain by apply ack_hdr_plain. tcb_simpl.
    destruct (st t); try discriminate Hs; reflexivity.
Qed.

(* a retransmitted FIN, in a state with plain ACK processing *)
Lemma fin_again_arrives t h :
  plain_ack_state (st t) = true -> in_segs t = [] -> rcv_wnd t = 65535 ->
  fin_ack h -> u32 (h_seq h) -> rcv_nxt t = wadd (h_seq h) 1 -> mod_leq (h_ack h) (snd_una t) = true ->
  segment_arrives t (mkSeg h []) = Ok (ps_fin (set_in_segs t []) h 0, AOk).
Proof.
  intros Hs Hi Hw (Ha & Hf & Hr & Hsy) Hu Hrn Hl.
  eapply arrives_single; try assumption; try reflexivity.
  - destruct (st t); try discriminate Hs; reflexivity.
  - tcb_simpl. rewrite Hrn. unfold mod_gt. apply mod_lt_succ_l.
  - apply (process_fin_only (set_in_segs t []) h true); try assumption; try reflexivity.
    rewrite Hf. apply seq_ok_fin_before; assumption.
  - reflexivity.
  - unfold ps_fin. rewrite Hf. cbn [negb]. tcb_simpl.
    replace (state_eqb (st t) SynSent) with false by (destruct (st t); try discriminate Hs; reflexivity).
    rewrite (wadd_0_u32 _ Hu), Hrn, Z.eqb_refl, orb_true_r.
    rewrite enqueue_plain by apply ack_hdr_plain. tcb_simpl.
    destruct (st t); try discriminate Hs; reflexivity.
Qed.

(* an ACK-only segment that acknowledges nothing new, in a state with plain ACK processing *)
Lemma ack_noop_arrives t h :
  plain_ack_state (st t) = true -> in_segs t = [] -> rcv_wnd t = 65535 -> u32 (rcv_nxt t) ->
  ack_only h -> h_seq h = rcv_nxt t -> mod_leq (h_ack h) (snd_una t) = true ->
  segment_arrives t (mkSeg h []) = Ok (set_in_segs t [], AOk).
Proof.
  intros Hs Hi Hw Hu (Ha & Hr & Hsy & Hf) Hseq Hl.
  eapply arrives_single; try assumption; try reflexivity.
  - destruct (st t); try discriminate Hs; reflexivity.
  - tcb_simpl. rewrite Hseq. apply mod_gt_refl_false.
  - rewrite (process_fin_only (set_in_segs t []) h true); try assumption; try reflexivity.
    + rewrite ps_fin_nofin by exact Hf. reflexivity.
    + rewrite Hf. unfold is_seq_ok. cbn [b2z]. change (0 + 0 + 0 =? 0) with true. cbn iota.
      change (rcv_wnd (set_in_segs t [])) with (rcv_wnd t). rewrite Hw. cbn [Z.eqb].
      rewrite Hseq. apply (in_window_at_nxt (set_in_segs t [])); assumption.
  - reflexivity.
Qed.

(* the ACK of our FIN: the FIN leaves the retransmission queue; FIN-WAIT-1 -> FIN-WAIT-2,
   LAST-ACK -> the TCB is deleted *)
Lemma ack_of_fin_core t h tx :
  in_segs t = [] -> rcv_wnd t = 65535 -> u32 (rcv_nxt t) ->
  ack_only h -> h_seq h = rcv_nxt t -> u32 (snd_una t) -> snd_nxt t = wadd (snd_una t) 1 ->
  h_ack h = snd_nxt t -> retx t = [tx] -> h_seq (s_hdr (t_seg tx)) = snd_una t -> seg_len (t_seg tx) = 1 ->
  exists t2, ack_est (set_in_segs t []) h = (t2, PSuccess) /\
    (exists w wl1 wl2, t2 = set_snd_window (set_retx (set_snd_una (set_in_segs t []) (snd_nxt t)) []) w wl1 wl2 /\
                       (w = snd_wnd t \/ w = h_wnd h)).
Proof.
  intros Hi Hw Hu (Ha & Hr & Hsy & Hf) Hseq Huu Hnx Hack Hretx Htxs Htxl.
  unfold ack_est. tcb_simpl. rewrite Hack, Hnx, mod_leq_succ by assumption.
  unfold mod_gt. rewrite mod_lt_irrefl.
  set (t1 := remove_acked _ _).
  assert (E1 : t1 = set_retx (set_snd_una (set_in_segs t []) (wadd (snd_una t) 1)) []).
  { subst t1. unfold remove_acked. tcb_simpl. rewrite Hretx. cbn [filter].
    rewrite Htxs, Htxl, mod_lt_irrefl. reflexivity. }
  destruct (_ || _).
  - eexists. split; [reflexivity|]. exists (h_wnd h), (h_seq h), (wadd (snd_una t) 1).
    rewrite E1. split; [reflexivity|auto].
  - eexists. split; [reflexivity|]. exists (snd_wnd t), (snd_wl1 t), (snd_wl2 t).
    rewrite E1. split; [tcb_eq|auto].
Qed.

Lemma is_seq_ok_ack_at_nxt t sq : u32 (rcv_nxt t) -> rcv_wnd t = 65535 -> sq = rcv_nxt t ->
  is_seq_ok t 0 sq false false = true.
Proof.
  intros Hu Hw ->. unfold is_seq_ok. cbn [b2z]. change (0 + 0 + 0 =? 0) with true. cbn iota.
  rewrite Hw. cbn [Z.eqb]. apply in_window_at_nxt; assumption.
Qed.

Lemma ack_of_fin_finwait1 t h tx :
  st t = FinWait1 -> fin_pending t = false -> in_segs t = [] -> rcv_wnd t = 65535 -> u32 (rcv_nxt t) ->
  ack_only h -> h_seq h = rcv_nxt t -> u32 (snd_una t) -> snd_nxt t = wadd (snd_una t) 1 ->
  h_ack h = snd_nxt t -> retx t = [tx] -> h_seq (s_hdr (t_seg tx)) = snd_una t -> seg_len (t_seg tx) = 1 ->
  exists w wl1 wl2,
    segment_arrives t (mkSeg h []) =
    Ok (set_st (set_snd_window (set_retx (set_snd_una (set_in_segs t []) (snd_nxt t)) []) w wl1 wl2) FinWait2, AOk) /\
    (w = snd_wnd t \/ w = h_wnd h).
Proof.
  intros Est Hfp Hi Hw Hu Hh Hseq Huu Hnx Hack Hretx Htxs Htxl.
  destruct (ack_of_fin_core t h tx Hi Hw Hu Hh Hseq Huu Hnx Hack Hretx Htxs Htxl)
    as (t2 & E2 & w & wl1 & wl2 & Et2 & Hwv).
  exists w, wl1, wl2. split; [|exact Hwv].
  destruct Hh as (Ha & Hr & Hsy & Hf).
  eapply arrives_single; try assumption; try reflexivity.
  - now rewrite Est.
  - tcb_simpl. rewrite Hseq. apply mod_gt_refl_false.
  - unfold process_segment. tcb_simpl. rewrite Est, Hsy, Hf. change (zlen (@nil Z)) with 0.
    rewrite (is_seq_ok_ack_at_nxt (set_in_segs t []) (h_seq h)) by assumption. cbn [negb].
    unfold ps_ack. rewrite Ha. cbn [negb]. tcb_simpl. rewrite Est, E2.
    assert (Hacked : is_fin_acked t2 = true).
    { rewrite Et2. unfold is_fin_acked. tcb_simpl. now rewrite Hfp, Z.eqb_refl. }
    rewrite Hacked.
    unfold ps_rst. rewrite Hr. cbn [negb]. unfold ps_syn. rewrite Hsy. cbn [negb].
    cbn [set_st st state_eqb]. rewrite ps_text_nil, ps_fin_nofin by exact Hf. rewrite Et2. reflexivity.
  - reflexivity.
Qed.

(* the arrival loop when the segment deletes the TCB *)
Lemma arrives_delete t seg t1 r :
  in_segs t = [] -> state_eqb (st t) SynSent = false ->
  mod_gt (h_seq (s_hdr seg)) (rcv_nxt t) = false ->
  process_segment (set_in_segs t []) seg = Ok (t1, r) -> should_delete r = true ->
  segment_arrives t seg = Ok (t1, AClose).
Proof.
  intros Hs Hss Hgt Hp Hd. unfold segment_arrives. rewrite Hs.
  change (heap_push [] seg) with [seg]. cbn [length arrives_loop]. tcb_simpl. cbn [heap_peek].
  rewrite Hss, Hgt. cbn [negb andb].
  change (heap_pop [seg]) with (Some (seg, @nil segment)). cbn iota beta.
  assert (E : set_in_segs (set_in_segs t [seg]) [] = set_in_segs t []) by reflexivity.
  rewrite E, Hp, Hd. reflexivity.
Qed.

Lemma ack_of_fin_lastack t h tx :
  st t = LastAck -> fin_pending t = false -> in_segs t = [] -> rcv_wnd t = 65535 -> u32 (rcv_nxt t) ->
  ack_only h -> h_seq h = rcv_nxt t -> u32 (snd_una t) -> snd_nxt t = wadd (snd_una t) 1 ->
  h_ack h = snd_nxt t -> retx t = [tx] -> h_seq (s_hdr (t_seg tx)) = snd_una t -> seg_len (t_seg tx) = 1 ->
  exists t2, segment_arrives t (mkSeg h []) = Ok (t2, AClose) /\ in_text t2 = in_text t.
Proof.
  intros Est Hfp Hi Hw Hu Hh Hseq Huu Hnx Hack Hretx Htxs Htxl.
  destruct (ack_of_fin_core t h tx Hi Hw Hu Hh Hseq Huu Hnx Hack Hretx Htxs Htxl)
    as (t2 & E2 & w & wl1 & wl2 & Et2 & Hwv).
  exists t2. split; [|rewrite Et2; reflexivity].
  destruct Hh as (Ha & Hr & Hsy & Hf).
  eapply (arrives_delete t _ t2 PFinalizeClose); try assumption; try reflexivity.
  - now rewrite Est.
  - tcb_simpl. rewrite Hseq. apply mod_gt_refl_false.
  - unfold process_segment. tcb_simpl. rewrite Est, Hsy, Hf. change (zlen (@nil Z)) with 0.
    rewrite (is_seq_ok_ack_at_nxt (set_in_segs t []) (h_seq h)) by assumption. cbn [negb].
    unfold ps_ack. rewrite Ha. cbn [negb]. tcb_simpl. rewrite Est, E2.
    assert (Hacked : is_fin_acked t2 = true).
    { rewrite Et2. unfold is_fin_acked. tcb_simpl. now rewrite Hfp, Z.eqb_refl. }
    rewrite Hacked. reflexivity.
Qed.

(* in TIME-WAIT: a retransmitted FIN is acknowledged twice and restarts the wait; other ACKs are ignored *)
Lemma fin_in_timewait t h :
  st t = TimeWait -> in_segs t = [] -> rcv_wnd t = 65535 ->
  fin_ack h -> u32 (h_seq h) -> rcv_nxt t = wadd (h_seq h) 1 ->
  let a := hb_wnd (hb_ack (hb t (snd_nxt t)) (wadd (h_seq h) 1)) (rcv_wnd t) in
  segment_arrives t (mkSeg h []) =
  Ok (set_time_wait (set_oneshot (set_in_segs t []) (oneshot t ++ [a; a])) (Some MSL2), AOk).
Proof.
  intros Est Hi Hw (Ha & Hf & Hr & Hsy) Hu Hrn a.
  eapply arrives_single; try assumption; try reflexivity.
  - now rewrite Est.
  - tcb_simpl. rewrite Hrn. unfold mod_gt. apply mod_lt_succ_l.
  - unfold process_segment. tcb_simpl. rewrite Est, Hsy, Hf. change (zlen (@nil Z)) with 0.
    rewrite (seq_ok_fin_before (set_in_segs t []) (h_seq h) Hu Hrn Hw). cbn [negb].
    unfold ps_ack. rewrite Ha. cbn [negb]. tcb_simpl. rewrite Est, Hf.
    rewrite enqueue_plain by (split; reflexivity).
    unfold ps_rst. rewrite Hr. cbn [negb]. unfold ps_syn. rewrite Hsy. cbn [negb].
    tcb_simpl. rewrite Est. cbn [state_eqb]. rewrite ps_text_nil.
    unfold ps_fin. rewrite Hf. cbn [negb]. tcb_simpl. rewrite Est. cbn [state_eqb].
    rewrite (wadd_0_u32 _ Hu), Hrn, Z.eqb_refl, orb_true_r.
    rewrite enqueue_plain by apply ack_hdr_plain. tcb_simpl. rewrite Est.
    f_equal. f_equal. tcb_eq.
    + symmetry. exact Hrn.
    + rewrite <- app_assoc. cbn [app]. reflexivity.
  - reflexivity.
Qed.

Lemma ack_in_timewait t h :
  st t = TimeWait -> in_segs t = [] -> rcv_wnd t = 65535 -> u32 (rcv_nxt t) ->
  ack_only h -> h_seq h = rcv_nxt t ->
  segment_arrives t (mkSeg h []) = Ok (set_in_segs t [], AOk).
Proof.
  intros Est Hi Hw Hu (Ha & Hr & Hsy & Hf) Hseq.
  eapply arrives_single; try assumption; try reflexivity.
  - now rewrite Est.
  - tcb_simpl. rewrite Hseq. apply mod_gt_refl_false.
  - unfold process_segment. tcb_simpl. rewrite Est, Hsy, Hf. change (zlen (@nil Z)) with 0.
    rewrite (is_seq_ok_ack_at_nxt (set_in_segs t []) (h_seq h)) by assumption. cbn [negb].
    unfold ps_ack. rewrite Ha. cbn [negb]. tcb_simpl. rewrite Est, Hf.
    unfold ps_rst. rewrite Hr. cbn [negb]. unfold ps_syn. rewrite Hsy. cbn [negb].
    tcb_simpl. rewrite Est. cbn [state_eqb]. rewrite ps_text_nil, ps_fin_nofin by exact Hf. reflexivity.
  - reflexivity.
Qed.

(* ---------- segments() and the clock with nothing to send ---------- *)
Lemma segments_idle t :
  out_text t = [] -> fin_pending t = false -> 50 <= mtu t ->
  tcb_segments t =
  Ok (let t2 := set_retx (set_oneshot t []) (map (fun tx => mkTx (t_seg tx) false) (retx t)) in
      let out := map (fun h => mkSeg h []) (oneshot t) ++ map t_seg (filter t_needs (retx t)) in
      (match map t_seg (filter t_needs (retx t)) with [] => t2 | _ => set_rto t2 RTO end, out)).
Proof.
  intros Ho Hf Hm. destruct (segmentizes (st t)) eqn:Es.
  - apply segments_nothing_new; assumption.
  - unfold tcb_segments. tcb_simpl. rewrite Es. reflexivity.
Qed.

Lemma advance_101_tw t tw : rto t = RTO -> time_wait t = Some tw -> 101 <= tw ->
  advance_time t 101 =
  (set_time_wait (set_retx (set_rto t RTO) (map (fun tx => mkTx (t_seg tx) true) (retx t))) (Some (tw - 101)), TIgnore).
Proof.
  intros Hr Ht Htw. unfold advance_time. rewrite Hr. change (RTO <? 101) with true. cbn iota.
  tcb_simpl. rewrite Ht. replace (tw <? 101) with false by lia. reflexivity.
Qed.

Lemma advance_expire t tw dt : time_wait t = Some tw -> tw < dt -> snd (advance_time t dt) = TCloseConnection.
Proof.
  intros Ht Htw. unfold advance_time.
  destruct (rto t <? dt); tcb_simpl; rewrite Ht; replace (tw <? dt) with true by lia; reflexivity.
Qed.
